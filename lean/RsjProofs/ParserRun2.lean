import RsjProofs.ParserRun1
namespace Rsj.Parser

/-- the expression of a call argument -/
def Arg.expr : Arg → Expr
  | .positional e => e
  | .named _ e => e

/-- The operator fragment: atoms, parentheses, unary and binary operators, field access,
    indexing, calls (positional / named arguments, `tailstrict`), `e in super`, `super.f`,
    `super[e]`. -/
inductive Frag : Expr → Prop
  | null (sp) : Frag (.null sp)
  | bool (b sp) : Frag (.bool b sp)
  | selfObj (sp) : Frag (.selfObj sp)
  | dollar (sp) : Frag (.dollar sp)
  | str (s sp) : Frag (.str s sp)
  | textBlock (s sp) : Frag (.textBlock s sp)
  | number (n sp) : Frag (.number n sp)
  | ident (i sp) : Frag (.ident i sp)
  | superField (ssp name sp) : Frag (.superField ssp name sp)
  | superIndex {i} (ssp sp) : Frag i → Frag (.superIndex ssp i sp)
  | paren {e} (sp) : Frag e → Frag (.paren e sp)
  | unary {e} (op sp) : Frag e → Frag (.unary op e sp)
  | binary {l r} (op sp) : Frag l → Frag r → Frag (.binary l op r sp)
  | field {e} (name sp) : Frag e → Frag (.field e name sp)
  | index {e i} (sp) : Frag e → Frag i → Frag (.index e i sp)
  | inSuper {e} (ssp sp) : Frag e → Frag (.inSuper e ssp sp)
  | call {f} (args ts sp) : Frag f → (∀ a ∈ args, Frag a.expr) → Frag (.call f args ts sp)

/-- minimal-parentheses printing of a fragment tree in a position of level `lvl` -/
abbrev P (e : Expr) (lvl : Nat) : Toks := pr false e lvl false false

theorem sub_false (e : Expr) (lvl : Nat) (o el : Bool) : sub false e lvl o el = pr false e lvl o el := by
  simp [sub]

theorem pr_indep {e : Expr} (h : Frag e) : ∀ (lvl : Nat) (o el : Bool), pr false e lvl o el = P e lvl := by
  induction h with
  | null | bool | selfObj | dollar | str | textBlock | number | ident | superField => intros; simp [pr, P]
  | superIndex ssp sp hi ih => intros; simp [pr, P]
  | paren sp he ih => intros; simp [pr, P]
  | unary op sp he ih =>
    intro lvl o el
    simp only [pr, P, sub_false]
    split
    · rfl
    · rw [ih unaryPrec o el]
  | binary op sp hl hr ihl ihr =>
    intro lvl o el
    simp only [pr, P, sub_false]
    split
    · rfl
    · rw [ihr (op.prec + 1) o el]
  | field name sp he ih => intros; simp [pr, P]
  | index sp he hi ihe ihi => intros; simp [pr, P]
  | inSuper ssp sp he ih => intros; simp [pr, P]
  | call args ts sp hf ha ihf iha => intros; simp [pr, P]


/-! ## Running the machine: `Reach` -/
section
variable {toks : List Token} (pe : PState toks → Except (Err toks) (Expr × PState toks))

/-- From configuration `(S, s, st)` the loop of `parse_expr` gets to `(S', s', st')` in exactly
    `n` iterations, whenever at least `B` units of fuel remain afterwards. -/
def Reach (B : Nat) (S : List StackItem) (s : State) (st : PState toks) (n : Nat)
    (S' : List StackItem) (s' : State) (st' : PState toks) : Prop :=
  ∀ fuel, B ≤ fuel → exprLoop pe (fuel + n) S s st = exprLoop pe fuel S' s' st'

theorem Reach.refl (B : Nat) (S : List StackItem) (s : State) (st : PState toks) :
    Reach pe B S s st 0 S s st := fun _ _ => rfl

theorem Reach.trans {B : Nat} {S S' S'' : List StackItem} {s s' s'' : State} {st st' st'' : PState toks}
    {n m : Nat} (h1 : Reach pe B S s st n S' s' st') (h2 : Reach pe B S' s' st' m S'' s'' st'') :
    Reach pe B S s st (n + m) S'' s'' st'' := by
  intro fuel hf
  have : fuel + (n + m) = (fuel + m) + n := by omega
  rw [this, h1 (fuel + m) (by omega), h2 fuel hf]

theorem Reach.binary (B : Nat) (S : List StackItem) (k : BinKind) (st : PState toks) :
    Reach pe B S (.binary k) st 1 (.binaryLhs k :: S) (nextStateOf k) st := by
  intro fuel _
  rw [exprLoop]

theorem Reach.unary {B : Nat} {S S' : List StackItem} {s' : State} {st st' : PState toks}
    (h : unaryStep S st = .ok ((S', s'), st')) : Reach pe B S .unary st 1 S' s' st' := by
  intro fuel _
  rw [exprLoop, h]; rfl

theorem Reach.binaryRhs {B : Nat} {S S' : List StackItem} {k : BinKind} {lhs : Expr} {s' : State}
    {st st' : PState toks} (h : binaryRhsStep k lhs S st = .ok ((S', s'), st')) :
    Reach pe B S (.binaryRhs k lhs) st 1 S' s' st' := by
  intro fuel _
  rw [exprLoop, h]; rfl

theorem Reach.primary {B : Nat} {S S' : List StackItem} {s' : State} {st st' : PState toks}
    (h : ∀ fuel, B ≤ fuel → primaryStep pe fuel S st = .ok ((S', s'), st')) :
    Reach pe B S .primary st 1 S' s' st' := by
  intro fuel hf
  rw [exprLoop, h fuel hf]; rfl

theorem Reach.parsed {B : Nat} {S S' : List StackItem} {item : StackItem} {e : Expr} {s' : State}
    {st st' : PState toks} (h : ∀ fuel, B ≤ fuel → parsedStep pe fuel e item S st = .ok ((S', s'), st')) :
    Reach pe B (item :: S) (.parsed e) st 1 S' s' st' := by
  intro fuel hf
  rw [exprLoop, h fuel hf]; rfl


/-! ### Facts about the extracted table -/
omit pe in
theorem prec_next {k k' : BinKind} (h : k.nextState = some k') : k'.prec = k.prec + 1 := by
  cases k <;> cases k' <;> revert h <;> decide
omit pe in
theorem prec_lt (k : BinKind) : k.prec < 10 := by cases k <;> decide
omit pe in
theorem prec_last {k : BinKind} (h : k.nextState = none) : k.prec = 9 := by
  cases k <;> revert h <;> decide
omit pe in
theorem prec_inj {a b : BinKind} (h : a.prec = b.prec) : a = b := by
  cases a <;> cases b <;> first | rfl | (exfalso; revert h; decide)
omit pe in
theorem next_of_prec_lt {k : BinKind} (h : k.prec < 9) : ∃ k', k.nextState = some k' := by
  cases k <;> first | exact ⟨_, rfl⟩ | (exfalso; revert h; decide)

/-- `S'` is `S` with `BinaryLhs` items for the consecutive kinds `c, next c, …, j` pushed -/
inductive LhsChain (c : BinKind) : BinKind → List StackItem → List StackItem → Prop
  | base (S : List StackItem) : LhsChain c c S (.binaryLhs c :: S)
  | step {j j' : BinKind} {S S' : List StackItem} : LhsChain c j S S' → j.nextState = some j' →
      LhsChain c j' S (.binaryLhs j' :: S')

/-- the stack while working at kind `k` in a `Binary(c)` context: `BinaryLhs` items for the kinds
    from `c` up to just below `k` -/
def Below (c k : BinKind) (S S' : List StackItem) : Prop :=
  (k = c ∧ S' = S) ∨ ∃ j, j.nextState = some k ∧ LhsChain c j S S'

omit pe in
theorem LhsChain.prec_le {c j : BinKind} {S S' : List StackItem} (h : LhsChain c j S S') : c.prec ≤ j.prec := by
  induction h with
  | base => exact Nat.le_refl _
  | step _ hn ih => rw [prec_next hn]; omega

omit pe in
theorem Below.prec_le {c k : BinKind} {S S' : List StackItem} (h : Below c k S S') : c.prec ≤ k.prec := by
  rcases h with ⟨rfl, _⟩ | ⟨j, hn, hc⟩
  · exact Nat.le_refl _
  · rw [prec_next hn]; have := hc.prec_le; omega

omit pe in
theorem Below.push {c k : BinKind} {S S' : List StackItem} (h : Below c k S S') :
    LhsChain c k S (.binaryLhs k :: S') := by
  rcases h with ⟨rfl, rfl⟩ | ⟨j, hn, hc⟩
  · exact LhsChain.base _
  · exact LhsChain.step hc hn

omit pe in
theorem LhsChain.pop {c j : BinKind} {S S'' : List StackItem} (h : LhsChain c j S S'') :
    ∃ S', S'' = .binaryLhs j :: S' ∧ Below c j S S' := by
  cases h with
  | base => exact ⟨S, rfl, Or.inl ⟨rfl, rfl⟩⟩
  | step hc hn => exact ⟨_, rfl, Or.inr ⟨_, hn, hc⟩⟩

/-- descend from `Binary(k)` to `Unary`, pushing a `BinaryLhs` for every level -/
theorem reach_unary (B : Nat) (c : BinKind) (S : List StackItem) (st : PState toks) :
    ∀ (m : Nat) (k : BinKind) (S' : List StackItem), k.prec + m = 9 → Below c k S S' →
    ∃ top S'', top.nextState = none ∧ LhsChain c top S S'' ∧
      Reach pe B S' (.binary k) st (m + 1) S'' .unary st := by
  intro m
  induction m with
  | zero =>
    intro k S' hk hb
    have hnone : k.nextState = none := by
      cases hk' : k.nextState with
      | none => rfl
      | some k' => have := prec_next hk'; have := prec_lt k'; omega
    refine ⟨k, _, hnone, hb.push, ?_⟩
    have := Reach.binary pe B S' k st
    unfold nextStateOf at this
    rw [hnone] at this
    exact this
  | succ m ih =>
    intro k S' hk hb
    obtain ⟨k', hk'⟩ := next_of_prec_lt (k := k) (by omega)
    obtain ⟨top, S'', h1, h2, h3⟩ := ih k' (.binaryLhs k :: S') (by rw [prec_next hk']; omega)
      (Or.inr ⟨k, hk', hb.push⟩)
    refine ⟨top, S'', h1, h2, ?_⟩
    have hstep := Reach.binary pe B S' k st
    unfold nextStateOf at hstep
    rw [hk'] at hstep
    have := Reach.trans pe hstep h3
    rw [Nat.add_comm 1 (m + 1)] at this
    exact this


/-- no operator of kind `j` is spelled by token kind `tk` -/
def NoOp (j : BinKind) (tk : TokKind) : Prop := ∀ x ∈ j.ops, tk ≠ .simple x.1
/-- `tk` is not a binary operator binding tighter than level `p` -/
def NoOpAbove (p : Nat) (tk : TokKind) : Prop := ∀ j : BinKind, p < j.prec → NoOp j tk

omit pe in
theorem cur_kind_of_kinds {st : PState toks} {tk : TokKind} {T : List TokKind} (h : st.kinds = tk :: T) :
    st.cur.kind = tk := (PState.kinds_cons h).1

omit pe in
theorem binaryRhs_miss {k : BinKind} (lhs : Expr) (S : List StackItem) {st : PState toks}
    (h : NoOp k st.cur.kind) :
    ∃ st', binaryRhsStep k lhs S st = .ok ((S, .parsed lhs), st') ∧ st'.kinds = st.kinds := by
  obtain ⟨st1, he, hk, _, _⟩ := eatFirst_miss false k.ops st h
  refine ⟨st1.push .binaryOp, ?_, ?_⟩
  · unfold binaryRhsStep
    rw [he]; rfl
  · rw [kinds_push, hk]

/-- climb down from kind `j` to kind `p` when the next token is no operator of the levels in between -/
theorem reach_down (B : Nat) (c p : BinKind) (S : List StackItem) (x : Expr) :
    ∀ (d : Nat) (j : BinKind) (S' : List StackItem) (st : PState toks), j.prec = p.prec + d →
    Below c j S S' → c.prec ≤ p.prec → NoOpAbove p.prec st.cur.kind →
    ∃ S'' st', Below c p S S'' ∧ st'.kinds = st.kinds ∧
      Reach pe B S' (.binaryRhs j x) st (2 * d) S'' (.binaryRhs p x) st' := by
  intro d
  induction d with
  | zero =>
    intro j S' st hj hb _ _
    have : j = p := prec_inj (by omega)
    subst this
    exact ⟨S', st, hb, rfl, Reach.refl pe B _ _ _⟩
  | succ d ih =>
    intro j S' st hj hb hc hno
    obtain ⟨st1, hstep, hk1⟩ := binaryRhs_miss x S' (hno j (by omega))
    rcases hb with ⟨rfl, _⟩ | ⟨j0, hn, hchain⟩
    · omega
    · obtain ⟨S0, rfl, hb0⟩ := hchain.pop
      have hcur : st1.cur.kind = st.cur.kind := by
        have := congrArg List.head? hk1
        simpa [PState.kinds] using this
      obtain ⟨S'', st', h1, h2, h3⟩ := ih j0 S0 st1 (by have := prec_next hn; omega) hb0 hc
        (by rw [hcur]; exact hno)
      refine ⟨S'', st', h1, by rw [h2, hk1], ?_⟩
      have r1 : Reach pe B (.binaryLhs j0 :: S0) (.binaryRhs j x) st 1 (.binaryLhs j0 :: S0) (.parsed x) st1 :=
        Reach.binaryRhs pe hstep
      have r2 : Reach pe B (.binaryLhs j0 :: S0) (.parsed x) st1 1 S0 (.binaryRhs j0 x) st1 :=
        Reach.parsed pe (fun _ _ => rfl)
      have := Reach.trans pe (Reach.trans pe r1 r2) h3
      have e : 1 + 1 + 2 * d = 2 * (d + 1) := by omega
      rw [e] at this
      exact this

end
end Rsj.Parser
