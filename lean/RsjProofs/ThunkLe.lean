/-
  The two simulations between a store and a more evaluated store (C11):
  `force_le` (same headroom, outcome preserved unless StackOverflow) and
  `force_ge` (an outcome of the more evaluated store is the outcome of the less
  evaluated one for every large enough headroom).
-/
import RsjProofs.ThunkMemo
namespace Rsj.Thunk

/-- `m` is at least as evaluated as `s`: same thunks, and wherever they differ
    `s` is pending and `m` holds a memoised value. -/
def Le (s m : St) : Prop :=
  m.states.length = s.states.length ∧
  ∀ x, m.st x = s.st x ∨ (s.st x = some .pending ∧ ∃ v, m.st x = some (.done v))

theorem Le.refl (s : St) : Le s s := ⟨rfl, fun _ => .inl rfl⟩

theorem Le.emit {s m : St} (h : Le s m) (a b : Nat) : Le (s.emit a) (m.emit b) := ⟨h.1, h.2⟩

theorem Le.mark {s m : St} (h : Le s m) {u : Nat} (hs : s.st u = some .pending)
    (hm : m.st u = some .pending) : Le (mark s u) (mark m u) := by
  refine ⟨by simpa using h.1, fun x => ?_⟩
  by_cases hx : u = x
  · subst hx
    exact .inl (by rw [st_mark_self (by rw [hm]; simp), st_mark_self (by rw [hs]; simp)])
  · rw [st_mark_ne hx, st_mark_ne hx]; exact h.2 x

theorem Le.setDone {s m : St} (h : Le s m) {u : Nat} {v : Val} (hs : s.st u = some .inProgress) :
    Le (s.setState u (.done v)) (m.setState u (.done v)) := by
  have hm : m.st u = some .inProgress := by
    rcases h.2 u with e | ⟨p, _⟩
    · rw [e, hs]
    · rw [hs] at p; cases p
  refine ⟨by simpa using h.1, fun x => ?_⟩
  by_cases hx : u = x
  · subst hx
    exact .inl (by rw [st_setState_self (by rw [hm]; simp), st_setState_self (by rw [hs]; simp)])
  · rw [st_setState_ne hx, st_setState_ne hx]; exact h.2 x

theorem runProg_le {c : Code} {f : Nat → St → Res}
    (hj : ∀ t s, Justified c s → Justified c (f t s).2)
    (hf : ∀ u s m r s', Justified c m → Le s m → f u s = (r, s') → r ≠ .error .stackOverflow →
      ∃ m', f u m = (r, m') ∧ Le s' m') :
    ∀ p s m r s', Justified c m → Le s m → runProg f p s = (r, s') → r ≠ .error .stackOverflow →
      ∃ m', runProg f p m = (r, m') ∧ Le s' m' := by
  intro p
  induction p with
  | ret x => intro s m r s' _ hle h _; cases h; exact ⟨m, rfl, hle⟩
  | fail e => intro s m r s' _ hle h _; cases h; exact ⟨m, rfl, hle⟩
  | trace tm k ih =>
    intro s m r s' hjm hle h hr
    exact ih _ _ r s' (hjm.emit tm) (hle.emit tm tm) h hr
  | force w k ih =>
    intro s m r s' hjm hle h hr
    rcases res_cases (f w s) with ⟨vw, s1, e⟩ | ⟨e', s1, e⟩
    · rw [runProg_force_ok e] at h
      obtain ⟨m1, em, hle1⟩ := hf w s m _ s1 hjm hle e (by simp)
      have hj1 : Justified c m1 := by have := hj w m hjm; rwa [em] at this
      obtain ⟨m', em', hle'⟩ := ih vw s1 m1 r s' hj1 hle1 h hr
      exact ⟨m', by rw [runProg_force_ok em]; exact em', hle'⟩
    · rw [runProg_force_error e] at h
      cases h
      obtain ⟨m1, em, hle1⟩ := hf w s m _ _ hjm hle e hr
      exact ⟨m1, by rw [runProg_force_error em], hle1⟩

/-- **Main simulation (C11).** On a store that is more evaluated (and whose
    memoised values are justified) a force with the same headroom has the same
    outcome, unless that outcome is StackOverflow; the final stores are again
    related. -/
theorem force_le (c : Code) : ∀ h u s m r s', Justified c m → Le s m →
    force c h u s = (r, s') → r ≠ .error .stackOverflow →
    ∃ m', force c h u m = (r, m') ∧ Le s' m' := by
  intro h
  induction h with
  | zero =>
    intro u s m r s' _ hle hf hr
    rcases st_cases s u with h | h | h | ⟨v, h⟩
    · rw [force_none h] at hf; cases hf
      have : m.st u = none := by
        rcases hle.2 u with e | ⟨p, _⟩
        · rw [e, h]
        · rw [h] at p; cases p
      exact ⟨m, force_none this, hle⟩
    · rw [force_zero_pending h] at hf; cases hf; exact absurd rfl hr
    · rw [force_zero_inProgress h] at hf; cases hf; exact absurd rfl hr
    · rw [force_done h] at hf; cases hf
      have : m.st u = some (.done v) := by
        rcases hle.2 u with e | ⟨p, _⟩
        · rw [e, h]
        · rw [h] at p; cases p
      exact ⟨m, force_done this, hle⟩
  | succ n ih =>
    intro u s m r s' hjm hle hf hr
    rcases st_cases s u with h | h | h | ⟨v, h⟩
    · rw [force_none h] at hf; cases hf
      have : m.st u = none := by
        rcases hle.2 u with e | ⟨p, _⟩
        · rw [e, h]
        · rw [h] at p; cases p
      exact ⟨m, force_none this, hle⟩
    · rcases hle.2 u with em | ⟨_, v, hmv⟩
      · -- pending on both sides: run both computations in lockstep
        rw [h] at em
        have hsim := runProg_le (force_justified c n) ih (c u) (mark s u) (mark m u)
        rcases force_pending_cases (code := c) (n := n) h with ⟨v, s2, e, h2, e2⟩ | ⟨e', s2, e, h2, e2⟩
        · rw [e2] at hf; cases hf
          obtain ⟨m2, em2, hle2⟩ := hsim _ s2 (hjm.mark em) (hle.mark h em) e (by simp)
          exact ⟨m2.setState u (.done v), by rw [force_succ_pending em, em2]; rfl, hle2.setDone h2⟩
        · rw [e2] at hf; cases hf
          obtain ⟨m2, em2, hle2⟩ := hsim _ _ (hjm.mark em) (hle.mark h em) e hr
          exact ⟨m2, by rw [force_succ_pending em, em2]; rfl, hle2⟩
      · -- memoised in `m`, pending in `s`: the replay lemma says what `s` computes
        obtain ⟨rk, hrk⟩ := hjm
        have hleB : LeB (mark s u) m rk (rk u) := by
          intro x vx hx hrx
          have hne : u ≠ x := by intro he; subst he; omega
          rw [st_mark_ne hne]
          rcases hle.2 x with e | ⟨p, _⟩
          · rw [← e]; exact .inl hx
          · exact .inr p
        obtain ⟨H, hH⟩ := replay hrk (rk u) (c u) v (mark s u) (hrk u v hmv) hleB
        obtain ⟨s2', eH, hext⟩ := hH (max n H) (by omega)
        have key : ∀ r2 s2, runProg (force c n) (c u) (mark s u) = (r2, s2) →
            r2 ≠ .error .stackOverflow → r2 = .ok v ∧ s2 = s2' := by
          intro r2 s2 e hr2
          have := runProg_mono_le e hr2 (show n ≤ max n H by omega)
          rw [eH] at this; cases this; exact ⟨rfl, rfl⟩
        have hfin : ∀ s2, s2 = s2' → s2.st u = some .inProgress →
            Le (s2.setState u (.done v)) m := by
          intro s2 hs2 h2
          subst hs2
          refine ⟨by rw [hle.1]; simpa using hext.1.symm, fun x => ?_⟩
          by_cases hx : u = x
          · subst hx
            exact .inl (by rw [st_setState_self (by rw [h2]; simp), hmv])
          · rw [st_setState_ne hx]
            rcases hext.2 x with e' | ⟨_, vx, d', mx⟩
            · rw [e', st_mark_ne hx]; exact hle.2 x
            · exact .inl (by rw [d', mx])
        rcases force_pending_cases (code := c) (n := n) h with ⟨v', s2, e, h2, e2⟩ | ⟨e', s2, e, h2, e2⟩
        · rw [e2] at hf; cases hf
          obtain ⟨hv, hs2⟩ := key _ _ e (by simp)
          cases hv
          exact ⟨m, force_done hmv, hfin s2 hs2 h2⟩
        · rw [e2] at hf; cases hf
          obtain ⟨hv, _⟩ := key _ _ e hr
          cases hv
    · rw [force_succ_inProgress h] at hf; cases hf
      have : m.st u = some .inProgress := by
        rcases hle.2 u with e | ⟨p, _⟩
        · rw [e, h]
        · rw [h] at p; cases p
      exact ⟨m, force_succ_inProgress this, hle⟩
    · rw [force_done h] at hf; cases hf
      have : m.st u = some (.done v) := by
        rcases hle.2 u with e | ⟨p, _⟩
        · rw [e, h]
        · rw [h] at p; cases p
      exact ⟨m, force_done this, hle⟩

theorem Le.st_eq_of_ne_pending {s m : St} (h : Le s m) {u : Nat} (hu : s.st u ≠ some .pending) :
    m.st u = s.st u := by
  rcases h.2 u with e | ⟨p, _⟩
  · exact e
  · exact absurd p hu

/-- A thunk memoised (and justified) in `m` but pending in the less evaluated
    `s` evaluates on `s`, with enough headroom, to the memoised value. -/
theorem force_replay {c : Code} {s m : St} {u : Nat} {v : Val} (hjm : Justified c m)
    (hle : Le s m) (hs : s.st u = some .pending) (hmv : m.st u = some (.done v)) :
    ∃ H, ∀ h, H ≤ h → ∃ s', force c h u s = (.ok v, s') ∧ Le s' m := by
  obtain ⟨rk, hrk⟩ := hjm
  have hleB : LeB (mark s u) m rk (rk u) := by
    intro x vx hx hrx
    have hne : u ≠ x := by intro he; subst he; omega
    rw [st_mark_ne hne]
    rcases hle.2 x with e | ⟨p, _⟩
    · rw [← e]; exact .inl hx
    · exact .inr p
  obtain ⟨H, hH⟩ := replay hrk (rk u) (c u) v (mark s u) (hrk u v hmv) hleB
  refine ⟨H + 1, fun h hh => ?_⟩
  obtain ⟨n, rfl⟩ : ∃ n, h = n + 1 := ⟨h - 1, by omega⟩
  obtain ⟨s2, e, hext⟩ := hH n (by omega)
  have h2 : s2.st u = some .inProgress := by
    have hmk : (mark s u).st u = some .inProgress := st_mark_self (by rw [hs]; simp)
    rcases hext.2 u with e' | ⟨p', _⟩
    · rw [e', hmk]
    · rw [hmk] at p'; cases p'
  refine ⟨s2.setState u (.done v), by rw [force_succ_pending hs, e]; rfl, ?_, fun x => ?_⟩
  · rw [hle.1]; simpa using hext.1.symm
  · by_cases hx : u = x
    · subst hx
      exact .inl (by rw [st_setState_self (by rw [h2]; simp), hmv])
    · rw [st_setState_ne hx]
      rcases hext.2 x with e' | ⟨_, vx, d', mx⟩
      · rw [e', st_mark_ne hx]; exact hle.2 x
      · exact .inl (by rw [d', mx])

theorem runProg_ge {c : Code} {f : Nat → St → Res}
    (hj : ∀ t s, Justified c s → Justified c (f t s).2)
    (hf : ∀ u s m r m', Justified c m → Le s m → f u m = (r, m') → r ≠ .error .stackOverflow →
      ∃ H, ∀ h, H ≤ h → ∃ s', force c h u s = (r, s') ∧ Le s' m') :
    ∀ p s m r m', Justified c m → Le s m → runProg f p m = (r, m') → r ≠ .error .stackOverflow →
      ∃ H, ∀ h, H ≤ h → ∃ s', runProg (force c h) p s = (r, s') ∧ Le s' m' := by
  intro p
  induction p with
  | ret x => intro s m r m' _ hle h _; cases h; exact ⟨0, fun _ _ => ⟨s, rfl, hle⟩⟩
  | fail e => intro s m r m' _ hle h _; cases h; exact ⟨0, fun _ _ => ⟨s, rfl, hle⟩⟩
  | trace tm k ih =>
    intro s m r m' hjm hle h hr
    exact ih _ _ r m' (hjm.emit tm) (hle.emit tm tm) h hr
  | force w k ih =>
    intro s m r m' hjm hle h hr
    rcases res_cases (f w m) with ⟨vw, m1, e⟩ | ⟨e', m1, e⟩
    · rw [runProg_force_ok e] at h
      obtain ⟨H1, hH1⟩ := hf w s m _ m1 hjm hle e (by simp)
      obtain ⟨s1, e1, hle1⟩ := hH1 H1 (Nat.le_refl _)
      have hj1 : Justified c m1 := by have := hj w m hjm; rwa [e] at this
      obtain ⟨H2, hH2⟩ := ih vw s1 m1 r m' hj1 hle1 h hr
      refine ⟨max H1 H2, fun h' hh => ?_⟩
      have e1' : force c h' w s = (.ok vw, s1) := force_mono_le e1 (by simp) (by omega)
      obtain ⟨s', e2, hle2⟩ := hH2 h' (by omega)
      exact ⟨s', by rw [runProg_force_ok e1']; exact e2, hle2⟩
    · rw [runProg_force_error e] at h
      cases h
      obtain ⟨H1, hH1⟩ := hf w s m _ _ hjm hle e hr
      refine ⟨H1, fun h' hh => ?_⟩
      obtain ⟨s1, e1, hle1⟩ := hH1 h' hh
      exact ⟨s1, by rw [runProg_force_error e1], hle1⟩

/-- **Reverse simulation (C11 caveat).** An outcome other than StackOverflow
    obtained on the more evaluated store is the outcome the less evaluated
    store gives for every large enough headroom. -/
theorem force_ge (c : Code) : ∀ h u s m r m', Justified c m → Le s m →
    force c h u m = (r, m') → r ≠ .error .stackOverflow →
    ∃ H, ∀ h', H ≤ h' → ∃ s', force c h' u s = (r, s') ∧ Le s' m' := by
  intro h
  induction h with
  | zero =>
    intro u s m r m' hjm hle hf hr
    rcases st_cases m u with h | h | h | ⟨v, h⟩
    · rw [force_none h] at hf; cases hf
      have : s.st u = none := by
        rcases hle.2 u with e | ⟨_, v, d⟩
        · rw [← e, h]
        · rw [h] at d; cases d
      exact ⟨0, fun _ _ => ⟨s, force_none this, hle⟩⟩
    · rw [force_zero_pending h] at hf; cases hf; exact absurd rfl hr
    · rw [force_zero_inProgress h] at hf; cases hf; exact absurd rfl hr
    · rw [force_done h] at hf; cases hf
      rcases hle.2 u with e | ⟨p, _⟩
      · exact ⟨0, fun _ _ => ⟨s, force_done (by rw [← e, h]), hle⟩⟩
      · exact force_replay hjm hle p h
  | succ n ih =>
    intro u s m r m' hjm hle hf hr
    rcases st_cases m u with h | h | h | ⟨v, h⟩
    · rw [force_none h] at hf; cases hf
      have : s.st u = none := by
        rcases hle.2 u with e | ⟨_, v, d⟩
        · rw [← e, h]
        · rw [h] at d; cases d
      exact ⟨0, fun _ _ => ⟨s, force_none this, hle⟩⟩
    · have hs : s.st u = some .pending := by
        rcases hle.2 u with e | ⟨p, _⟩
        · rw [← e, h]
        · exact p
      have hsim := runProg_ge (force_justified c n) ih (c u) (mark s u) (mark m u)
      rcases force_pending_cases (code := c) (n := n) h with ⟨v, m2, e, h2, e2⟩ | ⟨e', m2, e, h2, e2⟩
      · rw [e2] at hf; cases hf
        obtain ⟨H, hH⟩ := hsim _ m2 (hjm.mark h) (hle.mark hs h) e (by simp)
        refine ⟨H + 1, fun h' hh => ?_⟩
        obtain ⟨k, rfl⟩ : ∃ k, h' = k + 1 := ⟨h' - 1, by omega⟩
        obtain ⟨s2, es, hle2⟩ := hH k (by omega)
        have hs2 : s2.st u = some .inProgress := by
          rcases hle2.2 u with e' | ⟨_, v', d⟩
          · rw [← e', h2]
          · rw [h2] at d; cases d
        exact ⟨s2.setState u (.done v), by rw [force_succ_pending hs, es]; rfl, hle2.setDone hs2⟩
      · rw [e2] at hf; cases hf
        obtain ⟨H, hH⟩ := hsim _ _ (hjm.mark h) (hle.mark hs h) e hr
        refine ⟨H + 1, fun h' hh => ?_⟩
        obtain ⟨k, rfl⟩ : ∃ k, h' = k + 1 := ⟨h' - 1, by omega⟩
        obtain ⟨s2, es, hle2⟩ := hH k (by omega)
        exact ⟨s2, by rw [force_succ_pending hs, es]; rfl, hle2⟩
    · rw [force_succ_inProgress h] at hf; cases hf
      have : s.st u = some .inProgress := by
        rcases hle.2 u with e | ⟨_, v, d⟩
        · rw [← e, h]
        · rw [h] at d; cases d
      exact ⟨1, fun h' hh => by
        obtain ⟨k, rfl⟩ : ∃ k, h' = k + 1 := ⟨h' - 1, by omega⟩
        exact ⟨s, force_succ_inProgress this, hle⟩⟩
    · rw [force_done h] at hf; cases hf
      rcases hle.2 u with e | ⟨p, _⟩
      · exact ⟨0, fun _ _ => ⟨s, force_done (by rw [← e, h]), hle⟩⟩
      · exact force_replay hjm hle p h

end Rsj.Thunk
