import RsjProofs.EvalSafeBase
/-!
  C01 on the evaluator model: Hoare triples of the store primitives for the range invariant `Safe`.
  Same form as in RsjProofs/EvalScopeHoare.lean: `⦃fun st => ⌜st = s⌝⦄ x ⦃Q2 s p⦄`.
-/
open Std.Do
set_option mvcgen.warning false
namespace Rsj.Eval.Safe
open Rsj.Core Rsj.Eval Rsj.Eval.Scope

/-- later store (`Le`), invariant, `p`; a failure is not one of the panics excluded here, and the
    store stays safe -/
def Q2 (s : St) {α} (p : α → St → Prop) : PostCond α PS :=
  ⟨fun a st => ⌜Le s st ∧ Safe st ∧ p a st⌝, fun e st => ⌜Good2 e ∧ Safe st ∧ SzLe s st⌝, fun _ => ⌜True⌝, ()⟩

/-- the same, conjuncts in another order: the form of the goal while `mvcgen` runs -/
def Qg2 (s : St) {α} (p : α → St → Prop) : PostCond α PS :=
  ⟨fun a st => ⌜Safe st ∧ Le s st ∧ p a st⌝, fun e st => ⌜Safe st ∧ Good2 e ∧ SzLe s st⌝, fun _ => ⌜True⌝, ()⟩

/-- read-only operations -/
def Qro2 (s : St) {α} (p : α → Prop) : PostCond α PS :=
  ⟨fun a st => ⌜st = s ∧ p a⌝, fun e st => ⌜st = s ∧ Good2 e⌝, fun _ => ⌜True⌝, ()⟩

/-- the invariant of the loops that build an array of fresh thunks (`s1`: the store at loop entry) -/
def outInv (s s1 : St) {β} : PostCond (β × List TId) PS :=
  ⟨fun (_, out) st => ⌜Safe st ∧ Le s st ∧ SzLe s1 st ∧ ∀ t ∈ out, t < st.thunks.size⌝,
   fun e st => ⌜Safe st ∧ Good2 e ∧ SzLe s st⌝, fun _ => ⌜True⌝, ()⟩

/-- the invariant of a loop without state of its own (`s1`: the store at loop entry) -/
def loopInv (s s1 : St) {β} : PostCond β PS :=
  ⟨fun _ st => ⌜Safe st ∧ Le s st ∧ SzLe s1 st⌝, fun e st => ⌜Safe st ∧ Good2 e ∧ SzLe s st⌝, fun _ => ⌜True⌝, ()⟩

theorem triple_of_Qg2 {α} {x : M α} {P : St → Prop} {s : St} {p : α → St → Prop}
    (h : ⦃fun st => ⌜P st⌝⦄ x ⦃Qg2 s p⦄) : ⦃fun st => ⌜P st⌝⦄ x ⦃Q2 s p⦄ := by
  have := sem_of_triple (Qok := fun a st => Safe st ∧ Le s st ∧ p a st)
    (Qerr := fun e st => Safe st ∧ Good2 e ∧ SzLe s st) h
  refine triple_of_sem (Qok := fun a st => Le s st ∧ Safe st ∧ p a st)
    (Qerr := fun e st => Good2 e ∧ Safe st ∧ SzLe s st) ?_
  intro st hp
  have h1 := this st hp
  cases hx : x st with
  | none => trivial
  | some r =>
    obtain ⟨r, s'⟩ := r
    rw [hx] at h1
    cases r with
    | ok a => exact ⟨h1.2.1, h1.1, h1.2.2⟩
    | error e => exact ⟨h1.2.1, h1.1, h1.2.2⟩

macro "qstart2" : tactic => `(tactic| apply triple_of_Qg2)

elab "pchain" : tactic => chainTac ``Rsj.Eval.Safe.Prog ``Rsj.Eval.Safe.Prog.refl ``Rsj.Eval.Safe.Prog.trans 2

/-- normal form of a verification condition of this development -/
macro "vcprep2" : tactic => `(tactic|
  ((try intros);
   (try simp only [Q2, Qg2, Qro2, outInv, loopInv, Le, SzLe, SPred.down_pure] at *);
   (try simp only [OId, TId, EId, FId] at *);
   (try simp only [Option.some.injEq, forall_eq', forall_eq] at *);
   destruct_hyps;
   (try subst_vars)))

macro "econds2" : tactic => `(tactic|
  (refine ⟨?_, ExceptConds.entails.refl _⟩; intro e st h; vcprep2))

/-! ### The invariant under store updates -/

theorem Safe.pushThunk {s : St} (h : Safe s) {x : TState}
    (hx : TSRng s.thunks.size s.envs.size s.objs.size s.funcs.size x) :
    Safe { s with thunks := s.thunks.push x, runs := s.runs.push 0 } :=
  h.of ⟨by simp, Nat.le_refl _, Nat.le_refl _, Nat.le_refl _⟩
    (fun t y hy => by
      rcases getElem?_push_cases hy with hy | ⟨_, rfl⟩
      · exact .inl hy
      · exact .inr (hx.mono (by simp) (Nat.le_refl _) (Nat.le_refl _) (Nat.le_refl _)))
    (fun _ _ h => .inl h) (fun _ _ h => .inl h) (fun _ _ h => .inl h)

theorem Safe.setThunk {s : St} (h : Safe s) {x : TState} (t : Nat)
    (hx : TSRng s.thunks.size s.envs.size s.objs.size s.funcs.size x) (runs : Array Nat) :
    Safe { s with thunks := s.thunks.setIfInBounds t x, runs := runs } :=
  h.of ⟨by simp, Nat.le_refl _, Nat.le_refl _, Nat.le_refl _⟩
    (fun u y hy => by
      rcases getElem?_set_cases hy with hy | ⟨_, rfl⟩
      · exact .inl hy
      · exact .inr (by simpa using hx))
    (fun _ _ h => .inl h) (fun _ _ h => .inl h) (fun _ _ h => .inl h)

theorem Safe.pushEnv {s : St} (h : Safe s) {env : Env} (hx : EnvRng s.thunks.size s.objs.size env) :
    Safe { s with envs := s.envs.push env } :=
  h.of ⟨Nat.le_refl _, by simp, Nat.le_refl _, Nat.le_refl _⟩
    (fun _ _ h => .inl h)
    (fun e y hy => by
      rcases getElem?_push_cases hy with hy | ⟨_, rfl⟩
      · exact .inl hy
      · exact .inr hx)
    (fun _ _ h => .inl h) (fun _ _ h => .inl h)

theorem Safe.setEnv {s : St} (h : Safe s) {env : Env} (e : Nat) (hx : EnvRng s.thunks.size s.objs.size env) :
    Safe { s with envs := s.envs.setIfInBounds e env } :=
  h.of ⟨Nat.le_refl _, by simp, Nat.le_refl _, Nat.le_refl _⟩
    (fun _ _ h => .inl h)
    (fun u y hy => by
      rcases getElem?_set_cases hy with hy | ⟨_, rfl⟩
      · exact .inl hy
      · exact .inr hx)
    (fun _ _ h => .inl h) (fun _ _ h => .inl h)

theorem Safe.pushFunc {s : St} (h : Safe s) {fn : Func} (hx : FuncRng s.envs.size fn) :
    Safe { s with funcs := s.funcs.push fn } :=
  h.of ⟨Nat.le_refl _, Nat.le_refl _, Nat.le_refl _, by simp⟩
    (fun _ _ h => .inl h) (fun _ _ h => .inl h)
    (fun e y hy => by
      rcases getElem?_push_cases hy with hy | ⟨_, rfl⟩
      · exact .inl hy
      · exact .inr hx)
    (fun _ _ h => .inl h)

theorem Safe.pushObj {s : St} (h : Safe s) {ob : Obj}
    (hx : ∀ l ∈ ob.layers, LayerRng s.thunks.size s.envs.size l) :
    Safe { s with objs := s.objs.push ob } :=
  h.of ⟨Nat.le_refl _, Nat.le_refl _, by simp, Nat.le_refl _⟩
    (fun _ _ h => .inl h) (fun _ _ h => .inl h) (fun _ _ h => .inl h)
    (fun e y hy => by
      rcases getElem?_push_cases hy with hy | ⟨_, rfl⟩
      · exact .inl hy
      · exact .inr hx)

theorem Safe.setObj {s : St} (h : Safe s) {ob : Obj} (o : Nat)
    (hx : ∀ l ∈ ob.layers, LayerRng s.thunks.size s.envs.size l) :
    Safe { s with objs := s.objs.setIfInBounds o ob } :=
  h.of ⟨Nat.le_refl _, Nat.le_refl _, by simp, Nat.le_refl _⟩
    (fun _ _ h => .inl h) (fun _ _ h => .inl h) (fun _ _ h => .inl h)
    (fun e y hy => by
      rcases getElem?_set_cases hy with hy | ⟨_, rfl⟩
      · exact .inl hy
      · exact .inr hx)

theorem Safe.of_eq {a b : St} (h : Safe a) (he : b.envs = a.envs) (ht : b.thunks = a.thunks)
    (hf : b.funcs = a.funcs) (ho : b.objs = a.objs) : Safe b :=
  h.of ⟨by rw [ht]; exact Nat.le_refl _, by rw [he]; exact Nat.le_refl _, by rw [ho]; exact Nat.le_refl _,
      by rw [hf]; exact Nat.le_refl _⟩
    (fun _ _ h => .inl (ht ▸ h)) (fun _ _ h => .inl (he ▸ h)) (fun _ _ h => .inl (hf ▸ h))
    (fun _ _ h => .inl (ho ▸ h))

theorem Prog.pushThunk (s : St) (x : TState) :
    Prog s { s with thunks := s.thunks.push x, runs := s.runs.push 0 } := by
  intro t p h
  have := lt_size_of_getElem? h
  simpa [Array.getElem?_push, Nat.ne_of_lt this] using h

/-! ### Primitives -/

theorem getThunk_spec2 (s : St) (t : TId) (ht : t < s.thunks.size) :
    ⦃fun st => ⌜st = s⌝⦄ getThunk t ⦃Qro2 s (fun r => s.thunks[t]? = some r)⦄ := by
  unfold getThunk; mvcgen
  all_goals vcprep2
  all_goals first
    | (simp_all; done)
    | (rename_i hn; simp [Array.getElem?_eq_getElem ht] at hn)

theorem getObj_spec2 (s : St) (o : OId) (ho : o < s.objs.size) :
    ⦃fun st => ⌜st = s⌝⦄ getObj o ⦃Qro2 s (fun r => s.objs[o]? = some r)⦄ := by
  unfold getObj; mvcgen
  all_goals vcprep2
  all_goals first
    | (simp_all; done)
    | (rename_i hn; simp [Array.getElem?_eq_getElem ho] at hn)

theorem getFunc_spec2 (s : St) (f : FId) (hf : f < s.funcs.size) :
    ⦃fun st => ⌜st = s⌝⦄ getFunc f ⦃Qro2 s (fun r => s.funcs[f]? = some r)⦄ := by
  unfold getFunc; mvcgen
  all_goals vcprep2
  all_goals first
    | (simp_all; done)
    | (rename_i hn; simp [Array.getElem?_eq_getElem hf] at hn)

theorem getEnv_spec2 (s : St) (e : EId) :
    ⦃fun st => ⌜st = s⌝⦄ getEnv e ⦃Qro2 s (fun r => s.envs[e]? = some r)⦄ := by
  unfold getEnv; mvcgen
  all_goals vcprep2
  all_goals (simp_all [Good2]; done)

theorem checkDepth_spec2 (s : St) (cfg : Cfg) (d : Nat) :
    ⦃fun st => ⌜st = s⌝⦄ checkDepth cfg d ⦃Qro2 s (fun _ => True)⦄ := by
  unfold checkDepth; mvcgen
  all_goals (vcprep2; simp_all [Good2])

theorem checkNum_spec2 (s : St) (f : Float) :
    ⦃fun st => ⌜st = s⌝⦄ checkNum f ⦃Qro2 s (fun _ => True)⦄ := by
  unfold checkNum; mvcgen
  all_goals (vcprep2; simp_all [Good2])

theorem safeInt_spec2 (s : St) (f : Float) :
    ⦃fun st => ⌜st = s⌝⦄ safeInt f ⦃Qro2 s (fun _ => True)⦄ := by
  unfold safeInt; mvcgen
  all_goals (vcprep2; simp_all [Good2])

theorem numText_spec2 (s : St) (f : Float) :
    ⦃fun st => ⌜st = s⌝⦄ numText f ⦃Qro2 s (fun _ => True)⦄ := by
  unfold numText; mvcgen
  all_goals (vcprep2; simp_all [Good2])

theorem sliceNum_spec2 (s : St) (v : Value) :
    ⦃fun st => ⌜st = s⌝⦄ sliceNum v ⦃Qro2 s (fun _ => True)⦄ := by
  unfold sliceNum; mvcgen
  all_goals (vcprep2; simp_all [Good2])

theorem sliceRange_spec2 (s : St) (len : Nat) (a b c : Option Float) :
    ⦃fun st => ⌜st = s⌝⦄ sliceRange len a b c ⦃Qro2 s (fun _ => True)⦄ := by
  unfold sliceRange; mvcgen
  all_goals (vcprep2; simp_all [Good2])

/-- a variable lookup yields an existing thunk -/
theorem lookupVar_rng {envs : Array Env} {n : Nat} (h : ∀ (e : Nat) (env : Env), envs[e]? = some env →
    ∀ v ∈ env.vars, v.2 < n) : ∀ (fuel : Nat) (e : EId) (x : String) (t : TId),
    lookupVar fuel envs e x = some t → t < n := by
  intro fuel
  induction fuel with
  | zero => intro e x t ht; simp [lookupVar] at ht
  | succ f ih =>
    intro e x t ht
    unfold lookupVar at ht
    cases he : envs[e]? with
    | none => rw [he] at ht; cases ht
    | some env =>
      rw [he] at ht
      simp only [] at ht
      cases hf : env.vars.find? (fun p => p.1 == x) with
      | some p =>
        rw [hf] at ht
        cases ht
        exact h e env he p (List.mem_of_find?_eq_some hf)
      | none =>
        rw [hf] at ht
        simp only [] at ht
        cases hp : env.parent with
        | none => rw [hp] at ht; cases ht
        | some q => rw [hp] at ht; exact ih q x t ht

theorem getVar_spec2 (s : St) (e : EId) (n : String) (hS : Safe s) :
    ⦃fun st => ⌜st = s⌝⦄ getVar e n ⦃Qro2 s (fun r => r < s.thunks.size)⦄ := by
  unfold getVar; mvcgen
  all_goals vcprep2
  all_goals first
    | (refine ⟨rfl, ?_⟩
       exact lookupVar_rng (fun e env he v hv => (hS.envs e env he).1 v hv) _ _ _ _ (by assumption))
    | (simp [Good2]; done)

theorem getObjRef_spec2 (s : St) (e : EId) (hS : Safe s) :
    ⦃fun st => ⌜st = s⌝⦄ getObjRef e ⦃Qro2 s (fun r => r.obj < s.objs.size ∧ r.top < s.objs.size)⦄ := by
  have h1 := getEnv_spec2
  unfold getObjRef; mvcgen [h1]
  all_goals clear h1
  all_goals vcprep2
  all_goals first
    | exact ⟨rfl, (hS.envs _ _ (by assumption)).2 _ (by assumption)⟩
    | (simp_all [Good2]; done)

theorem allocThunk_spec2 (s : St) (x : TState) (hS : Safe s)
    (hx : TSRng s.thunks.size s.envs.size s.objs.size s.funcs.size x) :
    ⦃fun st => ⌜st = s⌝⦄ allocThunk x ⦃Q2 s (fun r st => r < st.thunks.size)⦄ := by
  unfold allocThunk; mvcgen
  vcprep2
  exact ⟨⟨⟨by simp, Nat.le_refl _, Nat.le_refl _, Nat.le_refl _⟩, Prog.pushThunk _ _⟩, hS.pushThunk hx, by simp⟩

theorem allocFunc_spec2 (s : St) (fn : Func) (hS : Safe s) (hx : FuncRng s.envs.size fn) :
    ⦃fun st => ⌜st = s⌝⦄ allocFunc fn ⦃Q2 s (fun r st => r < st.funcs.size)⦄ := by
  unfold allocFunc; mvcgen
  vcprep2
  exact ⟨⟨⟨Nat.le_refl _, Nat.le_refl _, Nat.le_refl _, by simp⟩, fun _ _ h => h⟩, hS.pushFunc hx, by simp⟩

theorem allocObj_spec2 (s : St) (ob : Obj) (hS : Safe s)
    (hx : ∀ l ∈ ob.layers, LayerRng s.thunks.size s.envs.size l) :
    ⦃fun st => ⌜st = s⌝⦄ allocObj ob ⦃Q2 s (fun r st => r < st.objs.size)⦄ := by
  unfold allocObj; mvcgen
  vcprep2
  exact ⟨⟨⟨Nat.le_refl _, Nat.le_refl _, by simp, Nat.le_refl _⟩, fun _ _ h => h⟩, hS.pushObj hx, by simp⟩

theorem allocEnv_spec2 (s : St) (env : Env) (hS : Safe s) (hx : EnvRng s.thunks.size s.objs.size env) :
    ⦃fun st => ⌜st = s⌝⦄ allocEnv env ⦃Q2 s (fun r st => r < st.envs.size ∧ r = s.envs.size)⦄ := by
  unfold allocEnv; mvcgen
  vcprep2
  exact ⟨⟨⟨Nat.le_refl _, by simp, Nat.le_refl _, Nat.le_refl _⟩, fun _ _ h => h⟩, hS.pushEnv hx, by simp, rfl⟩

theorem setEnv_spec2 (s : St) (e : EId) (env : Env) (hS : Safe s) (hx : EnvRng s.thunks.size s.objs.size env) :
    ⦃fun st => ⌜st = s⌝⦄ setEnv e env ⦃Q2 s (fun _ _ => True)⦄ := by
  unfold setEnv; mvcgen
  vcprep2
  exact ⟨⟨⟨Nat.le_refl _, Nat.le_of_eq Array.size_setIfInBounds.symm, Nat.le_refl _, Nat.le_refl _⟩, fun _ _ h => h⟩,
    hS.setEnv e hx, trivial⟩

theorem setObj_spec2 (s : St) (o : OId) (ob : Obj) (hS : Safe s)
    (hx : ∀ l ∈ ob.layers, LayerRng s.thunks.size s.envs.size l) :
    ⦃fun st => ⌜st = s⌝⦄ setObj o ob ⦃Q2 s (fun _ _ => True)⦄ := by
  unfold setObj; mvcgen
  vcprep2
  exact ⟨⟨⟨Nat.le_refl _, Nat.le_refl _, Nat.le_of_eq Array.size_setIfInBounds.symm, Nat.le_refl _⟩, fun _ _ h => h⟩,
    hS.setObj o hx, trivial⟩

theorem pushTrace_spec2 (s : St) (m : String) (hS : Safe s) :
    ⦃fun st => ⌜st = s⌝⦄ pushTrace m ⦃Q2 s (fun _ _ => True)⦄ := by
  unfold pushTrace; mvcgen
  vcprep2
  exact ⟨⟨⟨Nat.le_refl _, Nat.le_refl _, Nat.le_refl _, Nat.le_refl _⟩, fun _ _ h => h⟩,
    hS.of_eq rfl rfl rfl rfl, trivial⟩

theorem noteDepth_spec2 (s : St) (d : Nat) (hS : Safe s) :
    ⦃fun st => ⌜st = s⌝⦄ noteDepth d ⦃Q2 s (fun _ _ => True)⦄ := by
  unfold noteDepth; mvcgen
  vcprep2
  exact ⟨⟨⟨Nat.le_refl _, Nat.le_refl _, Nat.le_refl _, Nat.le_refl _⟩, fun _ _ h => h⟩,
    hS.of_eq rfl rfl rfl rfl, trivial⟩

/-- `switch_state`: a pending thunk is now in progress, with a computation in range -/
theorem switchState_spec2 (s : St) (t : TId) (hS : Safe s) (ht : t < s.thunks.size) :
    ⦃fun st => ⌜st = s⌝⦄ switchState t
      ⦃Q2 s (fun r st =>
        (∀ p, r = .pending p → PendRng st.thunks.size st.envs.size st.funcs.size p ∧
          st.thunks[t]? = some (.inProgress p) ∧ s.thunks[t]? = some (.pending p)) ∧
        (∀ v, r = .done v → ValOk st.thunks.size st.objs.size st.funcs.size v))⦄ := by
  unfold switchState; mvcgen
  all_goals vcprep2
  · rename_i p hp
    have hr := hS.thunks t _ hp
    refine ⟨⟨⟨by simp, Nat.le_refl _, Nat.le_refl _, Nat.le_refl _⟩, ?_⟩,
      hS.setThunk (x := .inProgress p) t hr _, ?_, ?_⟩
    · intro u q hu
      by_cases hut : u = t
      · subst hut; rw [hp] at hu; cases hu
      · simpa [Array.getElem?_setIfInBounds, Ne.symm hut] using hu
    · intro q hq; cases hq
      exact ⟨(show PendRng _ _ _ p from hr).mono (by simp) (Nat.le_refl _) (Nat.le_refl _), by simp [ht], hp⟩
    · intro v hv; cases hv
  · rename_i x hne hx
    refine ⟨⟨⟨Nat.le_refl _, Nat.le_refl _, Nat.le_refl _, Nat.le_refl _⟩, Prog.refl _⟩, hS, ?_, ?_⟩
    · intro q hq; exact (hne q hq).elim
    · intro v hv; subst hv; exact hS.thunks t _ hx
  · rename_i hn
    simp [Array.getElem?_eq_getElem ht] at hn

/-- all thunks in progress but `t` stay in progress -/
def ProgEx (t : Nat) (a b : St) : Prop :=
  ∀ (u : Nat) (p : Pending), u ≠ t → a.thunks[u]? = some (.inProgress p) → b.thunks[u]? = some (.inProgress p)

/-- `set_done` on a thunk that is in progress -/
theorem finishThunk_spec2 (s : St) (t : TId) (v : Value) (hS : Safe s)
    (hv : ValOk s.thunks.size s.objs.size s.funcs.size v) (hp : ∃ p, s.thunks[t]? = some (.inProgress p)) :
    ⦃fun st => ⌜st = s⌝⦄ finishThunk t v
      ⦃(⟨fun _ st => ⌜SzLe s st ∧ Safe st ∧ ProgEx t s st⌝, fun e st => ⌜Good2 e ∧ Safe st ∧ SzLe s st⌝,
         fun _ => ⌜True⌝, ()⟩ : PostCond Unit PS)⦄ := by
  obtain ⟨p, hp⟩ := hp
  unfold finishThunk; mvcgen
  all_goals vcprep2
  · refine ⟨⟨by simp, Nat.le_refl _, Nat.le_refl _, Nat.le_refl _⟩, hS.setThunk (x := .done v) t hv _, ?_⟩
    intro u q hut hu
    simpa [Array.getElem?_setIfInBounds, Ne.symm hut] using hu
  · rename_i hne
    exact (hne p hp).elim

/-! ### Forward reasoning from the invariant -/

theorem Safe.layer {s : St} (hS : Safe s) {o : Nat} {ob : Obj} (hob : s.objs[o]? = some ob) {li : Nat}
    {layer : Layer} (hl : ob.layers[li]? = some layer) : LayerRng s.thunks.size s.envs.size layer :=
  hS.objs o ob hob layer (mem_of_getElem? hl)

open Lean Elab Tactic Meta in
/-- for every `Safe st` and every lookup `st.thunks[i]? = some x` (envs, funcs, objs and then
    layers alike) in the context, add what the invariant says about `x` -/
elab "safe_sat" : tactic => withMainContext do
  let lctx ← getLCtx
  let mut safes : Array (Lean.Expr × Lean.Expr) := #[]
  for d in lctx do
    if d.isImplementationDetail then continue
    let ty ← instantiateMVars d.type
    if ty.isAppOfArity ``Rsj.Eval.Safe.Safe 1 then
      safes := safes.push (ty.appArg!, d.toExpr)
  let mut newFacts : Array Lean.Expr := #[]
  let mut objFacts : Array (Lean.Expr × Lean.Expr × Lean.Expr × Lean.Expr) := #[]  -- (hS, ob, hob)
  for d in lctx do
    if d.isImplementationDetail then continue
    let ty ← instantiateMVars d.type
    let some (_, lhs, rhs) := ty.eq? | continue
    unless rhs.isAppOfArity ``Option.some 2 do continue
    -- lhs = getElem? arr i
    let args := lhs.getAppArgs
    unless lhs.getAppFn.isConstOf ``getElem? && args.size == 7 do continue
    let arr := args[5]!
    for (st, hS) in safes do
      for (fld, lem) in [(``Rsj.Eval.St.thunks, ``Rsj.Eval.Safe.Safe.thunks), (``Rsj.Eval.St.envs, ``Rsj.Eval.Safe.Safe.envs),
          (``Rsj.Eval.St.funcs, ``Rsj.Eval.Safe.Safe.funcs)] do
        if arr.isAppOfArity fld 1 then
          if ← withReducible (isDefEq arr.appArg! st) then
            try
              let pf ← mkAppM lem #[hS, args[6]!, rhs.appArg!, d.toExpr]
              newFacts := newFacts.push pf
            catch _ => pure ()
      if arr.isAppOfArity ``Rsj.Eval.St.objs 1 then
        if ← withReducible (isDefEq arr.appArg! st) then
          objFacts := objFacts.push (hS, rhs.appArg!, d.toExpr, st)
  -- layers
  for d in lctx do
    if d.isImplementationDetail then continue
    let ty ← instantiateMVars d.type
    let some (_, lhs, rhs) := ty.eq? | continue
    unless rhs.isAppOfArity ``Option.some 2 do continue
    let args := lhs.getAppArgs
    unless lhs.getAppFn.isConstOf ``getElem? && args.size == 7 do continue
    let arr := args[5]!
    if arr.isAppOfArity ``Rsj.Eval.Obj.layers 1 then
      for (hS, ob, hob, _) in objFacts do
        if ← withReducible (isDefEq arr.appArg! ob) then
          try
            let pf ← mkAppM ``Rsj.Eval.Safe.Safe.layer #[hS, hob, d.toExpr]
            newFacts := newFacts.push pf
          catch _ => pure ()
  -- membership of list lookups
  for d in lctx do
    if d.isImplementationDetail then continue
    let ty ← instantiateMVars d.type
    let some (_, lhs, rhs) := ty.eq? | continue
    unless rhs.isAppOfArity ``Option.some 2 do continue
    let args := lhs.getAppArgs
    unless lhs.getAppFn.isConstOf ``getElem? && args.size == 7 do continue
    if (← whnfR (← inferType args[5]!)).isAppOfArity ``List 1 then
      try
        let pf ← mkAppM ``List.mem_of_getElem? #[d.toExpr]
        newFacts := newFacts.push pf
      catch _ => pure ()
  let mut g ← getMainGoal
  for pf in newFacts do
    let ty ← inferType pf
    let (_, g') ← (← g.assert `hsat ty pf).intro1
    g := g'
  replaceMainGoal [g]

/-- unfold the range predicates everywhere, split, and let `grind` finish -/
macro "safe_grind" : tactic => `(tactic|
  (safe_sat
   (try simp only [TSRng, PendRng, ValOk, EnvRng, FuncRng, LayerRng, FieldRng] at *)
   (try simp only [List.mem_append, List.mem_cons, List.mem_singleton, List.mem_filter, List.not_mem_nil, or_imp, forall_and,
     forall_eq, false_imp_iff, implies_true, and_true, true_and] at *)
   destruct_hyps
   grind))

/-- what a task needs: its identifiers are in range, its expression is shaped -/
def TaskOk2 (s : St) : Task → Prop
  | .eval e env _ _ => env < s.envs.size ∧ CoreShaped e
  | .force t _ => t < s.thunks.size
  | .manifest v _ _ => ValOk s.thunks.size s.objs.size s.funcs.size v
  | .deep v _ => ValOk s.thunks.size s.objs.size s.funcs.size v
  | .equals a b _ => ValOk s.thunks.size s.objs.size s.funcs.size a ∧
      ValOk s.thunks.size s.objs.size s.funcs.size b
  | .compare a b _ => ValOk s.thunks.size s.objs.size s.funcs.size a ∧
      ValOk s.thunks.size s.objs.size s.funcs.size b
  | .asserts o _ => o < s.objs.size

/-- the kind of value a task returns -/
def ResKind : Task → Value → Prop
  | .manifest _ _ _, v => ∃ str, v = .str str
  | .equals _ _ _, v => ∃ b, v = .bool b
  | .compare _ _ _, v => ∃ f, v = .num f
  | _, _ => True

syntax "s2close" : tactic
macro_rules
  | `(tactic| s2close) => `(tactic| first
    | rfl
    | assumption
    | trivial
    | omega
    | pchain
    | contradiction
    | exact ⟨by assumption, by assumption, by omega, by omega, by omega, by omega⟩
    | exact ⟨by assumption, True.intro, by omega, by omega, by omega, by omega⟩
    | (simp [Good2]; fin)
    | exact ValOk.mono (by assumption) (by omega) (by omega) (by omega)
    | (simp only [TaskOk2, ResKind]; s2close)
    | (intro _; s2close)
    | (refine ⟨?_, ?_⟩ <;> s2close)
    | safe_grind)

theorem literalValue_ok {e : Expr} {v : Value} (h : literalValue e = some v) (nt no nf : Nat) :
    ValOk nt no nf v := by
  unfold literalValue at h
  split at h <;> (try cases h) <;> try trivial
  · split at h
    · cases h; trivial
    · cases h
  · intro t ht; cases ht

/-- `new_pending_expr_thunk` of a shaped expression in an existing environment -/
theorem newThunk_spec2 (s : St) (e : Expr) (env : EId) (hS : Safe s) (henv : env < s.envs.size)
    (hc : CoreShaped e) :
    ⦃fun st => ⌜st = s⌝⦄ newThunk e env ⦃Q2 s (fun r st => r < st.thunks.size)⦄ := by
  have h1 := allocFunc_spec2
  have h2 := allocThunk_spec2
  qstart2
  unfold newThunk
  mvcgen [h1, h2]
  all_goals clear h1 h2
  all_goals vcprep2
  all_goals first
    | s2close
    | (have hw := CoreShaped_stripParen e hc
       rw [show stripParen e = Expr.func _ _ by assumption] at hw
       simp only [CoreShaped] at hw
       exact ⟨henv, hw.2, CoreShapedParams_mem _ hw.1⟩)
    | exact ⟨henv, hc⟩
    | exact literalValue_ok (by assumption) _ _ _

/-- `ThunkEnvData::new(parent)` with variables bound to existing thunks -/
theorem newEnv_spec2 (s : St) (p : EId) (vars : List (String × TId)) (hS : Safe s)
    (hv : ∀ v ∈ vars, v.2 < s.thunks.size) :
    ⦃fun st => ⌜st = s⌝⦄ newEnv (some p) vars ⦃Q2 s (fun r st => r < st.envs.size)⦄ := by
  have h1 := getEnv_spec2
  have h2 := allocEnv_spec2
  qstart2
  unfold newEnv
  mvcgen [h1, h2]
  all_goals clear h1 h2
  all_goals vcprep2
  all_goals first
    | s2close
    | (have hp := hS.envs p _ (by assumption)
       exact And.intro hv hp.2)

/-! ### The recursive calls -/

/-- what is assumed of the recursive-call function, and proved of `step` -/
abbrev RecOk2 (rec : Task → M Value) : Prop :=
  ∀ (t : Task) (s : St), Safe s → TaskOk2 s t →
    ⦃fun st => ⌜st = s⌝⦄ rec t
      ⦃Q2 s (fun v st => ValOk st.thunks.size st.objs.size st.funcs.size v ∧ ResKind t v)⦄

end Rsj.Eval.Safe
