/-
  Generic facts about the mark propagation worklist (`visitEdges`, `markLoop`):
  "worklist closure = reachability" for an arbitrary successor function.
-/
import RsjModel.Gc
namespace Rsj.Gc

/-- Number of universe elements not yet marked by this propagation. -/
def cntOut : List Nat → List Nat → Nat
  | [], _ => 0
  | u :: us, newly => (if u ∈ newly then 0 else 1) + cntOut us newly

theorem cntOut_le_length (U newly : List Nat) : cntOut U newly ≤ U.length := by
  induction U with
  | nil => simp [cntOut]
  | cons u us ih => simp only [cntOut, List.length_cons]; split <;> omega

theorem cntOut_lt_length {U newly : List Nat} {x : Nat} (hU : x ∈ U) (hx : x ∈ newly) :
    cntOut U newly + 1 ≤ U.length := by
  induction U with
  | nil => cases hU
  | cons u us ih =>
    simp only [cntOut, List.length_cons]
    rcases List.mem_cons.mp hU with h | h
    · subst h; have := cntOut_le_length us newly; simp [hx]; omega
    · have := ih h; split <;> omega

theorem cntOut_cons_le (U newly : List Nat) (t : Nat) : cntOut U (t :: newly) ≤ cntOut U newly := by
  induction U with
  | nil => simp [cntOut]
  | cons u us ih =>
    simp only [cntOut]
    by_cases h1 : u ∈ newly
    · have : u ∈ t :: newly := List.mem_cons_of_mem _ h1
      rw [if_pos h1, if_pos this]; omega
    · rw [if_neg h1]; split <;> omega

theorem cntOut_cons_lt {U newly : List Nat} {t : Nat} (hU : t ∈ U) (hn : t ∉ newly) :
    cntOut U (t :: newly) + 1 ≤ cntOut U newly := by
  induction U with
  | nil => cases hU
  | cons u us ih =>
    simp only [cntOut]
    by_cases h2 : u = t
    · subst h2
      have hle := cntOut_cons_le us newly u
      rw [if_neg hn, if_pos List.mem_cons_self]; omega
    · have hU' : t ∈ us := by
        rcases List.mem_cons.mp hU with h | h
        · exact absurd h.symm h2
        · exact h
      have ih' := ih hU'
      by_cases h1 : u ∈ newly
      · have : u ∈ t :: newly := List.mem_cons_of_mem _ h1
        rw [if_pos h1, if_pos this]; omega
      · have : u ∉ t :: newly := by simp [h1, h2]
        rw [if_neg h1, if_neg this]; omega

/-- What `visitEdges` guarantees about the sets (induction over the edge list). -/
theorem visitEdges_spec (ok : Nat → Bool) (ts newly stack : List Nat) :
    let r := visitEdges ok ts newly stack
    (∀ t ∈ newly, t ∈ r.1) ∧
    (∀ t ∈ r.1, t ∈ newly ∨ (t ∈ ts ∧ ok t = true)) ∧
    (∀ t ∈ ts, ok t = true → t ∈ r.1) ∧
    (∀ s ∈ stack, s ∈ r.2) ∧
    (∀ s ∈ r.2, s ∈ stack ∨ s ∈ r.1) ∧
    (∀ t ∈ r.1, t ∉ newly → t ∈ r.2) := by
  induction ts generalizing newly stack with
  | nil =>
    simp only [visitEdges]
    exact ⟨fun _ h => h, fun _ h => Or.inl h, (by intro _ h; cases h), fun _ h => h,
      fun _ h => Or.inl h, fun _ h hn => absurd h hn⟩
  | cons t ts ih =>
    by_cases hc : (ok t && !newly.contains t) = true
    · have hok : ok t = true := by simp at hc; exact hc.1
      have := ih (t :: newly) (t :: stack)
      simp only [visitEdges, hc, if_true]
      obtain ⟨h1, h2, h3, h4, h5, h6⟩ := this
      refine ⟨?_, ?_, ?_, ?_, ?_, ?_⟩
      · intro x hx; exact h1 x (List.mem_cons_of_mem _ hx)
      · intro x hx
        rcases h2 x hx with h | h
        · rcases List.mem_cons.mp h with h | h
          · subst h; exact Or.inr ⟨List.mem_cons_self, hok⟩
          · exact Or.inl h
        · exact Or.inr ⟨List.mem_cons_of_mem _ h.1, h.2⟩
      · intro x hx hokx
        rcases List.mem_cons.mp hx with h | h
        · subst h; exact h1 x List.mem_cons_self
        · exact h3 x h hokx
      · intro s hs; exact h4 s (List.mem_cons_of_mem _ hs)
      · intro s hs
        rcases h5 s hs with h | h
        · rcases List.mem_cons.mp h with h | h
          · subst h; exact Or.inr (h1 s List.mem_cons_self)
          · exact Or.inl h
        · exact Or.inr h
      · intro x hx hxn
        by_cases hxt : x = t
        · subst hxt; exact h4 x List.mem_cons_self
        · exact h6 x hx (by simp [hxt, hxn])
    · have hc' : (ok t && !newly.contains t) = false := by simpa using hc
      have := ih newly stack
      simp only [visitEdges, hc', Bool.false_eq_true, if_false]
      obtain ⟨h1, h2, h3, h4, h5, h6⟩ := this
      refine ⟨h1, ?_, ?_, h4, h5, h6⟩
      · intro x hx
        rcases h2 x hx with h | h
        · exact Or.inl h
        · exact Or.inr ⟨List.mem_cons_of_mem _ h.1, h.2⟩
      · intro x hx hokx
        rcases List.mem_cons.mp hx with h | h
        · subst h
          have : x ∈ newly := by
            simp [hokx] at hc'; exact hc'
          exact h1 x this
        · exact h3 x h hokx

/-- Every push uses up one not-yet-marked element of the universe. -/
theorem visitEdges_measure (ok : Nat → Bool) (U : List Nat) (hU : ∀ t, ok t = true → t ∈ U)
    (ts newly stack : List Nat) :
    cntOut U (visitEdges ok ts newly stack).1 + (visitEdges ok ts newly stack).2.length
      ≤ cntOut U newly + stack.length := by
  induction ts generalizing newly stack with
  | nil => simp [visitEdges]
  | cons t ts ih =>
    by_cases hc : (ok t && !newly.contains t) = true
    · have hok : ok t = true := by simp at hc; exact hc.1
      have hnew : t ∉ newly := by simp at hc; exact hc.2
      have h7 := ih (t :: newly) (t :: stack)
      simp only [visitEdges, hc, if_true]
      have := cntOut_cons_lt (hU t hok) hnew
      simp only [List.length_cons] at h7
      omega
    · have hc' : (ok t && !newly.contains t) = false := by simpa using hc
      simp only [visitEdges, hc', Bool.false_eq_true, if_false]
      exact ih newly stack

/-- Worklist invariant: the stack is marked, and every marked node that is not waiting on the
    stack already has all its eligible successors marked. -/
def MarkInv (succ : Nat → List Nat) (ok : Nat → Bool) (newly stack : List Nat) : Prop :=
  (∀ s ∈ stack, s ∈ newly) ∧
  (∀ m ∈ newly, m ∉ stack → ∀ t ∈ succ m, ok t = true → t ∈ newly)

theorem markInv_step {succ : Nat → List Nat} {ok : Nat → Bool} {newly rest : List Nat} {x : Nat}
    (h : MarkInv succ ok newly (x :: rest)) :
    MarkInv succ ok (visitEdges ok (succ x) newly rest).1 (visitEdges ok (succ x) newly rest).2 := by
  obtain ⟨h1, h2, h3, h4, h5, h6⟩ := visitEdges_spec ok (succ x) newly rest
  obtain ⟨j1, j2⟩ := h
  refine ⟨?_, ?_⟩
  · intro s hs
    rcases h5 s hs with h | h
    · exact h1 s (j1 s (List.mem_cons_of_mem _ h))
    · exact h
  · intro m hm hms t ht hok
    by_cases hmn : m ∈ newly
    · by_cases hmx : m = x
      · subst hmx; exact h3 t ht hok
      · have : m ∉ x :: rest := by
          intro hc
          rcases List.mem_cons.mp hc with hc | hc
          · exact hmx hc
          · exact hms (h4 m hc)
        exact h1 t (j2 m hmn this t ht hok)
    · exact absurd (h6 m hm hmn) hms

/-- Monotone: marks are never removed. -/
theorem markLoop_mono (succ : Nat → List Nat) (ok : Nat → Bool) (n : Nat) (newly stack : List Nat) :
    ∀ t ∈ newly, t ∈ markLoop succ ok n newly stack := by
  induction n generalizing newly stack with
  | zero => intro t ht; simpa [markLoop] using ht
  | succ n ih =>
    cases stack with
    | nil => intro t ht; simpa [markLoop] using ht
    | cons x rest =>
      intro t ht
      simp only [markLoop]
      exact ih _ _ t ((visitEdges_spec ok (succ x) newly rest).1 t ht)

/-- Soundness: everything marked is obtained from the initial marks by following eligible
    successor edges (stated as an induction principle). -/
theorem markLoop_sound (succ : Nat → List Nat) (ok : Nat → Bool) (P : Nat → Prop)
    (hstep : ∀ m t, P m → t ∈ succ m → ok t = true → P t)
    (n : Nat) (newly stack : List Nat) (hinv : MarkInv succ ok newly stack)
    (hinit : ∀ m ∈ newly, P m) :
    ∀ m ∈ markLoop succ ok n newly stack, P m := by
  induction n generalizing newly stack with
  | zero => intro m hm; exact hinit m (by simpa [markLoop] using hm)
  | succ n ih =>
    cases stack with
    | nil => intro m hm; exact hinit m (by simpa [markLoop] using hm)
    | cons x rest =>
      intro m hm
      simp only [markLoop] at hm
      refine ih _ _ (markInv_step hinv) ?_ m hm
      intro y hy
      rcases (visitEdges_spec ok (succ x) newly rest).2.1 y hy with h | h
      · exact hinit y h
      · exact hstep x y (hinit x (hinv.1 x List.mem_cons_self)) h.1 h.2

/-- Completeness: with enough fuel the result is closed under eligible successors. -/
theorem markLoop_closed (succ : Nat → List Nat) (ok : Nat → Bool) (U : List Nat)
    (hU : ∀ t, ok t = true → t ∈ U)
    (n : Nat) (newly stack : List Nat) (hinv : MarkInv succ ok newly stack)
    (hfuel : cntOut U newly + stack.length ≤ n) :
    ∀ m ∈ markLoop succ ok n newly stack, ∀ t ∈ succ m, ok t = true →
      t ∈ markLoop succ ok n newly stack := by
  induction n generalizing newly stack with
  | zero =>
    have : stack = [] := List.eq_nil_of_length_eq_zero (by omega)
    subst this
    intro m hm t ht hok
    simp only [markLoop] at hm ⊢
    exact hinv.2 m hm (by simp) t ht hok
  | succ n ih =>
    cases stack with
    | nil =>
      intro m hm t ht hok
      simp only [markLoop] at hm ⊢
      exact hinv.2 m hm (by simp) t ht hok
    | cons x rest =>
      simp only [markLoop]
      refine ih _ _ (markInv_step hinv) ?_
      have := visitEdges_measure ok U hU (succ x) newly rest
      simp only [List.length_cons] at hfuel
      omega

end Rsj.Gc
