import RsjProofs.EvalScopeWS
/-!
  C09, run-time half: static view of the evaluator store.

  * `Bound envs e n`: variable `n` is found from environment `e` along the parent chain.
  * `EnvOk envs e Γ`: the analyzer environment `Γ` is a sound static view of the dynamic
    environment `e` (every name of `Γ` is bound, `Γ.isObj` implies an object context).
  * `Inv st`: every pending thunk, function and object layer of the store is well scoped
    (`WS`) in a sound static view of its environment.
  * `Ext h PL a b`: what happens while the environment `h` of a recursive scope (`local`, object
    locals, default arguments) is being built: it is allocated empty, thunks and closures referring
    to it are created (`b` extends `a` by those), then it is filled (`close_block`).
  * `S a b`: store order – sound static views stay sound, functions and the static part of
    objects are never changed.
-/
namespace Rsj.Eval.Scope
open Rsj.Core Rsj.Eval Rsj.Analyze

/-! ### Static environments -/

theorem has_add (Γ : AEnv) (names : List String) (n : String) :
    (Γ.add names).has n = true ↔ n ∈ names ∨ Γ.has n = true := by
  simp [AEnv.add, AEnv.has]

theorem has_objEnv (Γ : AEnv) (names : List String) (n : String) :
    (objEnv Γ names).has n = true ↔ n ∈ names ∨ Γ.has n = true := by
  simp [objEnv, AEnv.add, AEnv.has]

@[simp] theorem isObj_add (Γ : AEnv) (names : List String) : (Γ.add names).isObj = Γ.isObj := rfl
@[simp] theorem isObj_objEnv (Γ : AEnv) (names : List String) : (objEnv Γ names).isObj = true := rfl

/-! ### Variable lookup -/

/-- `n` is found from `e`: in `e` itself or in an ancestor -/
inductive Bound (envs : Array Env) : EId → String → Prop
  | here {e : EId} {env : Env} {n : String} :
      envs[e]? = some env → n ∈ env.vars.map Prod.fst → Bound envs e n
  | up {e : EId} {env : Env} {p : EId} {n : String} :
      envs[e]? = some env → env.parent = some p → Bound envs p n → Bound envs e n

/-- parents are older than their children -/
def EnvsWf (envs : Array Env) : Prop :=
  ∀ (e : EId) (env : Env) (p : EId), envs[e]? = some env → env.parent = some p → p < e

theorem lt_size_of_getElem? {α} {a : Array α} {i : Nat} {x : α} (h : a[i]? = some x) : i < a.size := by
  rcases Nat.lt_or_ge i a.size with h' | h'
  · exact h'
  · simp [Array.getElem?_eq_none h'] at h

theorem Bound.lt_size {envs : Array Env} {e : EId} {n : String} (h : Bound envs e n) : e < envs.size := by
  cases h with
  | here h1 _ => exact lt_size_of_getElem? h1
  | up h1 _ _ => exact lt_size_of_getElem? h1

theorem Bound.mono {a b : Array Env} (hab : ∀ (i : Nat) (env : Env), a[i]? = some env → b[i]? = some env)
    {e : EId} {n : String} (h : Bound a e n) : Bound b e n := by
  induction h with
  | here h1 h2 => exact .here (hab _ _ h1) h2
  | up h1 h2 _ ih => exact .up (hab _ _ h1) h2 ih

theorem find?_isSome_of_mem {vars : List (String × TId)} {n : String} (h : n ∈ vars.map Prod.fst) :
    ∃ p, vars.find? (fun p => p.1 == n) = some p := by
  have : (vars.find? (fun p => p.1 == n)).isSome = true := by
    rw [List.find?_isSome]
    obtain ⟨p, hp, rfl⟩ := List.mem_map.1 h
    exact ⟨p, hp, by simp⟩
  exact Option.isSome_iff_exists.1 this

theorem lookupVar_of_bound {envs : Array Env} (wf : EnvsWf envs) {e : EId} {n : String}
    (hb : Bound envs e n) : ∀ fuel, e < fuel → ∃ t, lookupVar fuel envs e n = some t := by
  induction hb with
  | here h1 h2 =>
    intro fuel hf
    cases fuel with
    | zero => exact absurd hf (Nat.not_lt_zero _)
    | succ f =>
      obtain ⟨p, hp⟩ := find?_isSome_of_mem h2
      exact ⟨p.2, by simp [lookupVar, h1, hp]⟩
  | @up e env p n h1 h2 _ ih =>
    intro fuel hf
    cases fuel with
    | zero => exact absurd hf (Nat.not_lt_zero _)
    | succ f =>
      have hpe := wf _ _ _ h1 h2
      obtain ⟨t, ht⟩ := ih f (Nat.lt_of_lt_of_le hpe (Nat.le_of_lt_succ hf))
      cases hfind : env.vars.find? (fun p => p.1 == n) with
      | some q => exact ⟨q.2, by simp [lookupVar, h1, hfind]⟩
      | none => exact ⟨t, by simp [lookupVar, h1, hfind, h2, ht]⟩

/-- filling an environment that was allocated (almost) empty keeps every lookup -/
theorem Bound.fill {envs : Array Env} {h : EId} {hollow fin : Env} (hh : envs[h]? = some hollow)
    (hv : ∀ n, n ∈ hollow.vars.map Prod.fst → n ∈ fin.vars.map Prod.fst) (hp : hollow.parent = none ∨ hollow.parent = fin.parent)
    {e : EId} {n : String} (hb : Bound envs e n) : Bound (envs.setIfInBounds h fin) e n := by
  have hlt := lt_size_of_getElem? hh
  induction hb with
  | @here e env n h1 h2 =>
    by_cases he : e = h
    · subst he
      rw [hh] at h1; cases h1
      exact .here (by simp [hlt]) (hv _ h2)
    · exact .here (by simpa [Array.getElem?_setIfInBounds, Ne.symm he] using h1) h2
  | @up e env p n h1 h2 _ ih =>
    by_cases he : e = h
    · subst he
      rw [hh] at h1; cases h1
      have : fin.parent = some p := by
        rcases hp with hp | hp
        · rw [hp] at h2; cases h2
        · rw [← hp]; exact h2
      exact .up (by simp [hlt]) this ih
    · exact .up (by simpa [Array.getElem?_setIfInBounds, Ne.symm he] using h1) h2 ih

/-! ### Sound static views -/

/-- the environment exists and carries an object reference -/
def IsObjEnv (envs : Array Env) (e : EId) : Prop :=
  ∃ env, envs[e]? = some env ∧ env.obj.isSome = true

/-- `Γ` is a sound static view of the dynamic environment `e` -/
structure EnvOk (envs : Array Env) (e : EId) (Γ : AEnv) : Prop where
  inRange : e < envs.size
  obj : Γ.isObj = true → IsObjEnv envs e
  vars : ∀ n, Γ.has n = true → Bound envs e n

/-- the static view used for "`e` has an object context" -/
def objΓ : AEnv := { isObj := true, vars := [] }

theorem EnvOk.isObjEnv {envs : Array Env} {e : EId} {Γ : AEnv} (h : EnvOk envs e Γ) (ho : Γ.isObj = true) :
    IsObjEnv envs e := h.obj ho

theorem envOk_objΓ {envs : Array Env} {e : EId} : EnvOk envs e objΓ ↔ IsObjEnv envs e := by
  constructor
  · intro h; exact h.obj rfl
  · intro h
    obtain ⟨env, h1, _⟩ := h
    exact ⟨lt_size_of_getElem? h1, fun _ => ⟨env, h1, ‹_›⟩, fun n hn => by simp [objΓ, AEnv.has] at hn⟩

theorem EnvOk.mono {a b : Array Env} (hab : ∀ (i : Nat) (env : Env), a[i]? = some env → b[i]? = some env)
    {e : EId} {Γ : AEnv} (h : EnvOk a e Γ) : EnvOk b e Γ := by
  have hex : ∃ env, a[e]? = some env := ⟨a[e]'h.inRange, by simp [h.inRange]⟩
  obtain ⟨env, henv⟩ := hex
  refine ⟨lt_size_of_getElem? (hab _ _ henv), ?_, fun n hn => (h.vars n hn).mono hab⟩
  intro ho
  obtain ⟨env', h1, h2⟩ := h.obj ho
  exact ⟨env', hab _ _ h1, h2⟩

theorem EnvOk.push {a : Array Env} {e : EId} {Γ : AEnv} (h : EnvOk a e Γ) (x : Env) : EnvOk (a.push x) e Γ := by
  apply h.mono
  intro i env hi
  have := lt_size_of_getElem? hi
  simpa [Array.getElem?_push, Nat.ne_of_lt this] using hi

theorem EnvOk.fill {envs : Array Env} {h : EId} {hollow fin : Env} (hh : envs[h]? = some hollow)
    (hv : ∀ n, n ∈ hollow.vars.map Prod.fst → n ∈ fin.vars.map Prod.fst) (hp : hollow.parent = none ∨ hollow.parent = fin.parent)
    (ho : hollow.obj.isSome = true → fin.obj.isSome = true)
    {e : EId} {Γ : AEnv} (hk : EnvOk envs e Γ) : EnvOk (envs.setIfInBounds h fin) e Γ := by
  have hlt := lt_size_of_getElem? hh
  refine ⟨by simpa using hk.inRange, ?_, fun n hn => (hk.vars n hn).fill hh hv hp⟩
  intro hob
  obtain ⟨env', h1, h2⟩ := hk.obj hob
  by_cases he : e = h
  · subst he
    rw [hh] at h1; cases h1
    exact ⟨fin, by simp [hlt], ho h2⟩
  · exact ⟨env', by simpa [Array.getElem?_setIfInBounds, Ne.symm he] using h1, h2⟩

/-- the static view of an environment from the static view of its parent -/
theorem envOk_child {envs : Array Env} {e p : EId} {env penv : Env} {Γ Γ' : AEnv}
    (he : envs[e]? = some env) (hpar : env.parent = some p) (hp : envs[p]? = some penv)
    (hobj : penv.obj.isSome = true → env.obj.isSome = true)
    (hΓ : EnvOk envs p Γ) (hio : Γ'.isObj = true → Γ.isObj = true)
    (hv : ∀ n, Γ'.has n = true → n ∈ env.vars.map Prod.fst ∨ Γ.has n = true) : EnvOk envs e Γ' := by
  refine ⟨lt_size_of_getElem? he, ?_, ?_⟩
  · intro ho
    obtain ⟨penv', h1, h2⟩ := hΓ.obj (hio ho)
    rw [hp] at h1; cases h1
    exact ⟨env, he, hobj h2⟩
  · intro n hn
    rcases hv n hn with h | h
    · exact .here he h
    · exact .up he hpar (hΓ.vars n h)

/-- an environment with an object reference of its own -/
theorem envOk_objChild {envs : Array Env} {e p : EId} {env : Env} {Γ Γ' : AEnv}
    (he : envs[e]? = some env) (hpar : env.parent = some p) (hobj : env.obj.isSome = true)
    (hΓ : EnvOk envs p Γ)
    (hv : ∀ n, Γ'.has n = true → n ∈ env.vars.map Prod.fst ∨ Γ.has n = true) : EnvOk envs e Γ' := by
  refine ⟨lt_size_of_getElem? he, fun _ => ⟨env, he, hobj⟩, ?_⟩
  intro n hn
  rcases hv n hn with h | h
  · exact .here he h
  · exact .up he hpar (hΓ.vars n h)

/-! ### Well-scoped store contents -/

section
variable (EO : EId → AEnv → Prop)

/-- a suspended computation is well scoped in a sound view of its environment -/
def PendOk : Pending → Prop
  | .expr ex env => ∃ Γ, EO env Γ ∧ WS ex Γ
  | .plus ex _ env => ∃ Γ, EO env Γ ∧ Γ.isObj = true ∧ WS ex Γ
  | .call _ _ => True

def TStateOk : TState → Prop
  | .pending p => PendOk EO p
  | .inProgress p => PendOk EO p
  | .done _ => True

/-- a closure: defaults and body are well scoped in the view of its environment extended by the
    parameters (`analyze_function`) -/
def FuncOk (fn : Func) : Prop :=
  ∃ Γ, EO fn.env Γ ∧
    (∀ p ∈ fn.params, WSOpt p.2 (Γ.add (fn.params.map Prod.fst))) ∧
    WS fn.body (Γ.add (fn.params.map Prod.fst))

/-- what is evaluated in the environment of an object layer: asserts, and the values of the
    fields that do not carry an environment of their own -/
def LayerBody (layer : Layer) (Γ : AEnv) : Prop :=
  (∀ a ∈ layer.asserts, WS a.1 Γ ∧ WSOpt a.2 Γ) ∧
  (∀ f ∈ layer.fields, f.baseEnv = none → ∀ ep, f.expr = some ep → WS ep.1 Γ)

/-- `init_object_env layer base` can run: the locals are well scoped in the object view of `base`,
    a non-top layer has a base with an object context; `P` holds of the resulting view -/
def InitOk (layer : Layer) (b : EId) (P : AEnv → Prop) : Prop :=
  ∃ Γb, EO b Γb ∧ (layer.isTop = false → EO b objΓ) ∧
    (∀ p ∈ layer.locals, WS p.2 (objEnv Γb (layer.locals.map Prod.fst))) ∧
    P (objEnv Γb (layer.locals.map Prod.fst))

def LayerOk (layer : Layer) : Prop :=
  (∀ b, layer.baseEnv = some b → InitOk EO layer b (LayerBody layer)) ∧
  (∀ f ∈ layer.fields, ∀ b, f.baseEnv = some b →
    InitOk EO layer b (fun Γ => ∀ ep, f.expr = some ep → WS ep.1 Γ)) ∧
  (∀ e, layer.env = some e → ∃ Γ, EO e Γ ∧ Γ.isObj = true ∧ LayerBody layer Γ)

/-- thunks, functions and objects of the store are well scoped -/
structure InvG (st : St) : Prop where
  thunks : ∀ (t : Nat) (x : TState), st.thunks[t]? = some x → TStateOk EO x
  funcs : ∀ (f : Nat) (fn : Func), st.funcs[f]? = some fn → FuncOk EO fn
  objs : ∀ (o : Nat) (ob : Obj), st.objs[o]? = some ob → ∀ layer ∈ ob.layers, LayerOk EO layer

end

section
variable {EO EO' : EId → AEnv → Prop} (hm : ∀ e Γ, EO e Γ → EO' e Γ)
include hm

theorem PendOk.mono {p : Pending} (h : PendOk EO p) : PendOk EO' p := by
  cases p with
  | expr ex env => obtain ⟨Γ, h1, h2⟩ := h; exact ⟨Γ, hm _ _ h1, h2⟩
  | plus ex f env => obtain ⟨Γ, h1, h2⟩ := h; exact ⟨Γ, hm _ _ h1, h2⟩
  | call f a => trivial

theorem TStateOk.mono {x : TState} (h : TStateOk EO x) : TStateOk EO' x := by
  cases x with
  | pending p => exact PendOk.mono hm h
  | inProgress p => exact PendOk.mono hm h
  | done v => trivial

theorem FuncOk.mono {fn : Func} (h : FuncOk EO fn) : FuncOk EO' fn := by
  obtain ⟨Γ, h1, h2⟩ := h; exact ⟨Γ, hm _ _ h1, h2⟩

theorem InitOk.mono {layer : Layer} {b : EId} {P : AEnv → Prop} (h : InitOk EO layer b P) :
    InitOk EO' layer b P := by
  obtain ⟨Γ, h1, h2, h3⟩ := h; exact ⟨Γ, hm _ _ h1, fun ht => hm _ _ (h2 ht), h3⟩

omit hm in
theorem InitOk.weaken {layer : Layer} {b : EId} {P P' : AEnv → Prop} (hP : ∀ Γ, P Γ → P' Γ)
    (h : InitOk EO layer b P) : InitOk EO layer b P' := by
  obtain ⟨Γ, h1, h2, h3, h4⟩ := h; exact ⟨Γ, h1, h2, h3, hP _ h4⟩

theorem LayerOk.mono {layer : Layer} (h : LayerOk EO layer) : LayerOk EO' layer := by
  obtain ⟨h1, h2, h3⟩ := h
  refine ⟨fun b hb => (h1 b hb).mono hm, fun f hf b hb => (h2 f hf b hb).mono hm, ?_⟩
  intro e he
  obtain ⟨Γ, g1, g2⟩ := h3 e he
  exact ⟨Γ, hm _ _ g1, g2⟩

theorem InvG.mono {st : St} (h : InvG EO st) : InvG EO' st :=
  ⟨fun t x hx => (h.thunks t x hx).mono hm, fun f fn hf => (h.funcs f fn hf).mono hm,
   fun o ob ho l hl => (h.objs o ob ho l hl).mono hm⟩

end

/-- the shape of an object layer that `get_object_layer_env` and `find_object_field_thunk` rely on:
    a field with an expression but without an environment of its own, or an assert, needs the base
    environment of the layer;
    a field without thunk has an expression -/
structure LayerShape (layer : Layer) : Prop where
  fieldBase : ∀ f ∈ layer.fields, f.baseEnv = none → f.expr.isSome = true → layer.baseEnv.isSome = true
  assertBase : layer.asserts ≠ [] → layer.baseEnv.isSome = true
  fieldExpr : ∀ f ∈ layer.fields, f.thunk = none → f.expr.isSome = true

/-- the store invariant -/
structure Inv (st : St) : Prop where
  wf : EnvsWf st.envs
  g : InvG (EnvOk st.envs) st
  shape : ∀ (o : Nat) (ob : Obj), st.objs[o]? = some ob → ∀ layer ∈ ob.layers, LayerShape layer

/-! ### Store order -/

/-- the part of a layer that never changes: everything but the caches -/
def staticField (f : Field) : Field := { f with thunk := none }
def staticLayer (l : Layer) : Layer := { l with env := none, fields := l.fields.map staticField }

/-- `b` is a later store than `a` -/
structure S (a b : St) : Prop where
  env : ∀ e Γ, EnvOk a.envs e Γ → EnvOk b.envs e Γ
  funcs : ∀ (f : Nat) (fn : Func), a.funcs[f]? = some fn → b.funcs[f]? = some fn
  objs : ∀ (o : Nat) (ob : Obj), a.objs[o]? = some ob →
    ∃ ob', b.objs[o]? = some ob' ∧ ob'.layers.map staticLayer = ob.layers.map staticLayer

theorem S.refl (a : St) : S a a :=
  ⟨fun _ _ h => h, fun _ _ h => h, fun _ ob h => ⟨ob, h, rfl⟩⟩

theorem S.trans {a b c : St} (h1 : S a b) (h2 : S b c) : S a c :=
  ⟨fun e Γ h => h2.env e Γ (h1.env e Γ h), fun f fn h => h2.funcs f fn (h1.funcs f fn h),
   fun o ob h => by
    obtain ⟨ob1, g1, g2⟩ := h1.objs o ob h
    obtain ⟨ob2, g3, g4⟩ := h2.objs o ob1 g1
    exact ⟨ob2, g3, g4.trans g2⟩⟩

theorem S.isObjEnv {a b : St} (h : S a b) {e : EId} (ho : IsObjEnv a.envs e) : IsObjEnv b.envs e :=
  envOk_objΓ.1 (h.env _ _ (envOk_objΓ.2 ho))

/-- a step that changes neither environments, nor functions, nor objects -/
theorem S.of_eq {a b : St} (he : b.envs = a.envs) (hf : b.funcs = a.funcs) (ho : b.objs = a.objs) : S a b :=
  ⟨fun e Γ h => by rw [he]; exact h, fun f fn h => by rw [hf]; exact h,
   fun o ob h => ⟨ob, by rw [ho]; exact h, rfl⟩⟩

/-! ### Errors -/

/-- the error is not one of the three scoping panics, nor one of the four panics of the object
    primitives (unset environment, layer index, missing base environment, missing field expression) -/
def Good : Err → Prop
  | .internal m => m ≠ "variable not found" ∧ m ≠ "get_object on an environment without object" ∧
      m ≠ "get_top_object on an environment without object" ∧ m ≠ "env data not set" ∧
      m ≠ "bad layer index" ∧ m ≠ "layer without base env" ∧ m ≠ "field without expression" ∧
      m ≠ "visible field without thunk"
  | _ => True

/-- the error is not a (modelled) Rust panic -/
def NonPanic : Err → Prop
  | .internal _ => False
  | _ => True

/-! ### Building the environment of a recursive scope -/

/-- `b` extends `a` by finished thunks, thunks suspended in environment `h` and closures over `h`,
    whose expressions satisfy `PL`; environments and objects are untouched -/
structure Ext (h : EId) (PL : Expr → Prop) (a b : St) : Prop where
  envs : b.envs = a.envs
  objs : b.objs = a.objs
  thunks : ∀ (t : Nat) (x : TState), b.thunks[t]? = some x →
    a.thunks[t]? = some x ∨ (∃ v, x = .done v) ∨ (∃ e, PL e ∧ x = .pending (.expr e h))
  funcs : ∀ (f : Nat) (fn : Func), b.funcs[f]? = some fn →
    a.funcs[f]? = some fn ∨
      ∃ e ps body, PL e ∧ stripParen e = .func ps body ∧ fn = { params := paramsList ps, body := body, env := h }
  funcsOld : ∀ (f : Nat) (fn : Func), a.funcs[f]? = some fn → b.funcs[f]? = some fn

theorem Ext.refl (h : EId) (PL : Expr → Prop) (a : St) : Ext h PL a a :=
  ⟨rfl, rfl, fun _ _ hx => .inl hx, fun _ _ hx => .inl hx, fun _ _ hx => hx⟩

theorem Ext.trans {h : EId} {PL : Expr → Prop} {a b c : St} (h1 : Ext h PL a b) (h2 : Ext h PL b c) :
    Ext h PL a c :=
  ⟨h2.envs.trans h1.envs, h2.objs.trans h1.objs,
   fun t x hx => by
    rcases h2.thunks t x hx with g | g
    · exact h1.thunks t x g
    · exact .inr g,
   fun f fn hx => by
    rcases h2.funcs f fn hx with g | g
    · exact h1.funcs f fn g
    · exact .inr g,
   fun f fn hx => h2.funcsOld f fn (h1.funcsOld f fn hx)⟩

section
variable {s st : St} {hollow fin : Env} {PL : Expr → Prop} {Γh : AEnv}
  (hext : Ext s.envs.size PL { s with envs := s.envs.push hollow } st)
  (hv : ∀ n, n ∈ hollow.vars.map Prod.fst → n ∈ fin.vars.map Prod.fst)
  (hp : hollow.parent = none ∨ hollow.parent = fin.parent)
  (ho : hollow.obj.isSome = true → fin.obj.isSome = true)
include hext hv hp ho

/-- static views survive the block: the new environment is pushed, later filled -/
theorem block_envOk {e : EId} {Γ : AEnv} (hk : EnvOk s.envs e Γ) :
    EnvOk (st.envs.setIfInBounds s.envs.size fin) e Γ := by
  have he : st.envs = s.envs.push hollow := hext.envs
  have hh : st.envs[s.envs.size]? = some hollow := by rw [he]; simp
  exact (he ▸ hk.push hollow).fill hh hv hp ho

omit hv hp ho in
theorem block_getElem : (st.envs.setIfInBounds s.envs.size fin)[s.envs.size]? = some fin := by
  have he : st.envs = s.envs.push hollow := hext.envs
  simp [he]

omit hv hp ho in
theorem block_getElem_old {e : EId} {x : Env} (hx : s.envs[e]? = some x) :
    (st.envs.setIfInBounds s.envs.size fin)[e]? = some x := by
  have he : st.envs = s.envs.push hollow := hext.envs
  have hlt := lt_size_of_getElem? hx
  rw [he, Array.getElem?_setIfInBounds]
  simp [Nat.ne_of_gt hlt, Array.getElem?_push, Nat.ne_of_lt hlt, hx]

/-- filling the environment of the block re-establishes the invariant -/
theorem close_block (hI : Inv s) (hpar : ∀ p, fin.parent = some p → p < s.envs.size)
    (hL : ∀ e, PL e → WS e Γh)
    (hΓ : EnvOk (st.envs.setIfInBounds s.envs.size fin) s.envs.size Γh) :
    S s { st with envs := st.envs.setIfInBounds s.envs.size fin } ∧
    Inv { st with envs := st.envs.setIfInBounds s.envs.size fin } := by
  have he : st.envs = s.envs.push hollow := hext.envs
  have key : ∀ e Γ, EnvOk s.envs e Γ → EnvOk (st.envs.setIfInBounds s.envs.size fin) e Γ :=
    fun e Γ hk => block_envOk hext hv hp ho hk
  refine ⟨⟨key, hext.funcsOld, fun o ob hx => ⟨ob, by rw [show st.objs = s.objs from hext.objs]; exact hx, rfl⟩⟩, ?_, ?_, ?_⟩
  · intro e x p hx hpar'
    rw [Array.getElem?_setIfInBounds] at hx
    split at hx
    · split at hx
      · cases hx
        rename_i heq _
        rw [← heq]; exact hpar p hpar'
      · cases hx
    · rename_i hne
      rw [he] at hx
      rw [Array.getElem?_push] at hx
      split at hx
      · rename_i heq; exact absurd heq.symm hne
      · exact hI.wf e x p hx hpar'
  · refine ⟨?_, ?_, ?_⟩
    · intro t x hx
      rcases hext.thunks t x hx with g | ⟨v, rfl⟩ | ⟨e, g1, rfl⟩
      · exact (hI.g.thunks t x g).mono key
      · trivial
      · exact ⟨Γh, hΓ, hL e g1⟩
    · intro f fn hx
      rcases hext.funcs f fn hx with g | ⟨e, ps, body, g1, g2, rfl⟩
      · exact (hI.g.funcs f fn g).mono key
      · have hw := hL e g1
        have hw' := WS_stripParen e Γh hw
        rw [g2] at hw'
        exact ⟨Γh, hΓ, WS_func hw'⟩
    · intro o ob hx l hl
      rw [show st.objs = s.objs from hext.objs] at hx
      exact (hI.g.objs o ob hx l hl).mono key
  · intro o ob hx l hl
    rw [show st.objs = s.objs from hext.objs] at hx
    exact hI.shape o ob hx l hl

end

end Rsj.Eval.Scope
