import RsjModel.Eval
/-!
  Store embeddings for the evaluator model (`RsjModel/Eval.lean`) and the relational
  ("two runs on two stores") program logic used to prove that the evaluator is invariant
  under them.

  * `Emb`     : four partial maps (thunk / env / object / function ids of the left store to ids of
                the right store); `ρ ≤ ρ'` is extension.
  * `RVal ρ`, `RPending ρ`, `RTState ρ`, `REnv ρ`, `RObj ρ`, `RFunc ρ`, `RTask ρ` … : structural
                equality up to `ρ` (all monotone in `ρ`, class `Mono`).
  * `Sim ρ ta tb a b`: `ρ` is injective, every id in its domain names a cell of `a` whose image names a
                cell of `b`, and the two cells are related (hence everything reachable from a
                related id is related); the `std.trace` logs are equal.  The ghost fields
                (`runs`, `deepest`, `tripped`) are not constrained.
  * `MRel ρ Q x y`: from `Sim ρ`-related stores the computations `x`, `y` both run out of fuel, or
                fail with the same error, or return `Q ρ'`-related results; in the last two cases
                the final stores are `Sim ρ'`-related for an extension `ρ' ≥ ρ`.
-/
namespace Rsj.Eval
open Rsj.Core

/-! ### Embeddings -/

/-- C04, weakening at the root: the right store has one extra environment frame binding `x` whose parent `q`
    holds the cell `cq`; `q` itself is not the image of any left environment -/
structure Weak where
  x : String
  q : EId
  cq : Env

/-- WHAT is compared (a parameter of the whole development; `Mode.exact`: exact equivalence of the two
    runs; the other modes are used for C04, where the right run has more fuel / stack) -/
class Mode where
  /-- errors of the LEFT run for which nothing is claimed about the right run -/
  excuse : Err → Prop
  /-- nothing is claimed when the LEFT run is out of fuel -/
  gasOk : Prop
  /-- the right run is `shift` trace items deeper than the left one -/
  shift : Nat
  /-- thunks in progress need not hold related computations (C04: the root thunks of a program and of
      the rewritten program) -/
  looseIP : Prop

/-- exact equivalence -/
@[reducible] def Mode.exact : Mode := ⟨fun _ => False, False, 0, False⟩

structure Emb where
  tm : Nat → Option Nat
  em : Nat → Option Nat
  om : Nat → Option Nat
  fm : Nat → Option Nat
  wk : Option Weak := none
  /-- thunk ids of the right store that are never images (C04: bookkeeping thunks of the rewritten program) -/
  rsv : List Nat := []

structure Emb.Le (ρ ρ' : Emb) : Prop where
  t : ∀ i k, ρ.tm i = some k → ρ'.tm i = some k
  e : ∀ i k, ρ.em i = some k → ρ'.em i = some k
  o : ∀ i k, ρ.om i = some k → ρ'.om i = some k
  f : ∀ i k, ρ.fm i = some k → ρ'.fm i = some k
  wk : ρ'.wk = ρ.wk
  rsv : ρ'.rsv = ρ.rsv

instance : LE Emb := ⟨Emb.Le⟩

theorem Emb.le_refl (ρ : Emb) : ρ ≤ ρ :=
  ⟨fun _ _ h => h, fun _ _ h => h, fun _ _ h => h, fun _ _ h => h, rfl, rfl⟩

theorem Emb.le_trans {ρ₁ ρ₂ ρ₃ : Emb} (h₁ : ρ₁ ≤ ρ₂) (h₂ : ρ₂ ≤ ρ₃) : ρ₁ ≤ ρ₃ :=
  ⟨fun i k h => h₂.t i k (h₁.t i k h), fun i k h => h₂.e i k (h₁.e i k h),
   fun i k h => h₂.o i k (h₁.o i k h), fun i k h => h₂.f i k (h₁.f i k h), h₂.wk.trans h₁.wk, h₂.rsv.trans h₁.rsv⟩

/-- a partial map extended by one pair -/
def ext (m : Nat → Option Nat) (i k : Nat) : Nat → Option Nat := fun j => if j = i then some k else m j

theorem ext_self (m : Nat → Option Nat) (i k : Nat) : ext m i k i = some k := by simp [ext]

theorem ext_of_some {m : Nat → Option Nat} {i k j l : Nat} (hi : m i = none) (h : m j = some l) :
    ext m i k j = some l := by
  unfold ext
  split
  · subst_vars; rw [hi] at h; cases h
  · exact h

def Emb.extT (ρ : Emb) (i k : Nat) : Emb := { ρ with tm := ext ρ.tm i k }
def Emb.extE (ρ : Emb) (i k : Nat) : Emb := { ρ with em := ext ρ.em i k }
def Emb.extO (ρ : Emb) (i k : Nat) : Emb := { ρ with om := ext ρ.om i k }
def Emb.extF (ρ : Emb) (i k : Nat) : Emb := { ρ with fm := ext ρ.fm i k }

theorem Emb.le_extT {ρ : Emb} {i : Nat} (k : Nat) (h : ρ.tm i = none) : ρ ≤ ρ.extT i k :=
  ⟨fun _ _ hj => ext_of_some h hj, fun _ _ h => h, fun _ _ h => h, fun _ _ h => h, rfl, rfl⟩
theorem Emb.le_extE {ρ : Emb} {i : Nat} (k : Nat) (h : ρ.em i = none) : ρ ≤ ρ.extE i k :=
  ⟨fun _ _ h => h, fun _ _ hj => ext_of_some h hj, fun _ _ h => h, fun _ _ h => h, rfl, rfl⟩
theorem Emb.le_extO {ρ : Emb} {i : Nat} (k : Nat) (h : ρ.om i = none) : ρ ≤ ρ.extO i k :=
  ⟨fun _ _ h => h, fun _ _ h => h, fun _ _ hj => ext_of_some h hj, fun _ _ h => h, rfl, rfl⟩
theorem Emb.le_extF {ρ : Emb} {i : Nat} (k : Nat) (h : ρ.fm i = none) : ρ ≤ ρ.extF i k :=
  ⟨fun _ _ h => h, fun _ _ h => h, fun _ _ h => h, fun _ _ hj => ext_of_some h hj, rfl, rfl⟩

/-! ### Relations indexed by an embedding -/

/-- relations that survive an extension of the embedding -/
class Mono {α β : Type} (R : Emb → α → β → Prop) : Prop where
  mono : ∀ {ρ ρ' : Emb} {a : α} {b : β}, ρ ≤ ρ' → R ρ a b → R ρ' a b

/-- equality (for everything that contains no ids) -/
def REq {α : Type} : Emb → α → α → Prop := fun _ a b => a = b
instance {α : Type} : Mono (@REq α) := ⟨fun _ h => h⟩

/-- no constraint -/
def RTrue {α β : Type} : Emb → α → β → Prop := fun _ _ _ => True
instance {α β : Type} : Mono (@RTrue α β) := ⟨fun _ h => h⟩

def RT : Emb → TId → TId → Prop := fun ρ t t' => ρ.tm t = some t'
def RE : Emb → EId → EId → Prop := fun ρ t t' => ρ.em t = some t'
def RO : Emb → OId → OId → Prop := fun ρ t t' => ρ.om t = some t'
def RF : Emb → FId → FId → Prop := fun ρ t t' => ρ.fm t = some t'
instance : Mono RT := ⟨fun h r => h.t _ _ r⟩
instance : Mono RE := ⟨fun h r => h.e _ _ r⟩
instance : Mono RO := ⟨fun h r => h.o _ _ r⟩
instance : Mono RF := ⟨fun h r => h.f _ _ r⟩

set_option linter.unusedSectionVars false
variable [Mode]

/-- depths: the right run is `shift` deeper -/
def RDep (d d' : Nat) : Prop := d' = d + Mode.shift
theorem RDep.succ {d d' : Nat} (h : RDep d d') : RDep (d + 1) (d' + 1) := by
  show d' + 1 = d + 1 + _
  rw [show d' = d + Mode.shift from h]; omega

/-- side goals about depths -/
syntax "rdep" : tactic
macro_rules
  | `(tactic| rdep) => `(tactic| first
    | assumption
    | exact RDep.succ (by assumption)
    | exact RDep.succ (RDep.succ (by assumption))
    | exact rfl)

/-- depth limits: the right limit leaves at least the same headroom; exactly the same unless a stack
    overflow of the left run is excused -/
class RCfg (c c' : Cfg) : Prop where
  le : c.maxStack + Mode.shift ≤ c'.maxStack
  eq : ¬ Mode.excuse .stackOverflow → c'.maxStack = c.maxStack + Mode.shift

inductive RList {α β : Type} (R : Emb → α → β → Prop) (ρ : Emb) : List α → List β → Prop
  | nil : RList R ρ [] []
  | cons {a b as bs} : R ρ a b → RList R ρ as bs → RList R ρ (a :: as) (b :: bs)

instance {α β : Type} (R : Emb → α → β → Prop) [Mono R] : Mono (RList R) :=
  ⟨fun h r => by induction r with
    | nil => exact .nil
    | cons h1 _ ih => exact .cons (Mono.mono h h1) ih⟩

inductive ROpt {α β : Type} (R : Emb → α → β → Prop) (ρ : Emb) : Option α → Option β → Prop
  | none : ROpt R ρ none none
  | some {a b} : R ρ a b → ROpt R ρ (some a) (some b)

instance {α β : Type} (R : Emb → α → β → Prop) [Mono R] : Mono (ROpt R) :=
  ⟨fun h r => by cases r with
    | none => exact .none
    | some h1 => exact .some (Mono.mono h h1)⟩

def RProd {α β γ δ : Type} (R : Emb → α → β → Prop) (S : Emb → γ → δ → Prop) :
    Emb → α × γ → β × δ → Prop := fun ρ p q => R ρ p.1 q.1 ∧ S ρ p.2 q.2

instance {α β γ δ : Type} (R : Emb → α → β → Prop) (S : Emb → γ → δ → Prop) [Mono R] [Mono S] :
    Mono (RProd R S) := ⟨fun h r => ⟨Mono.mono h r.1, Mono.mono h r.2⟩⟩

def RMProd {α β γ δ : Type} (R : Emb → α → β → Prop) (S : Emb → γ → δ → Prop) :
    Emb → MProd α γ → MProd β δ → Prop := fun ρ p q => R ρ p.1 q.1 ∧ S ρ p.2 q.2

instance {α β γ δ : Type} (R : Emb → α → β → Prop) (S : Emb → γ → δ → Prop) [Mono R] [Mono S] :
    Mono (RMProd R S) := ⟨fun h r => ⟨Mono.mono h r.1, Mono.mono h r.2⟩⟩

inductive RStep {α β : Type} (R : Emb → α → β → Prop) (ρ : Emb) : ForInStep α → ForInStep β → Prop
  | done {a b} : R ρ a b → RStep R ρ (.done a) (.done b)
  | yield {a b} : R ρ a b → RStep R ρ (.yield a) (.yield b)

instance {α β : Type} (R : Emb → α → β → Prop) [Mono R] : Mono (RStep R) :=
  ⟨fun h r => by cases r with
    | done h1 => exact .done (Mono.mono h h1)
    | yield h1 => exact .yield (Mono.mono h h1)⟩

/-! list facts -/

theorem RList.length_eq {α β : Type} {R : Emb → α → β → Prop} {ρ : Emb} {l : List α} {l' : List β}
    (h : RList R ρ l l') : l.length = l'.length := by
  induction h with
  | nil => rfl
  | cons _ _ ih => simp [ih]

theorem RList.append {α β : Type} {R : Emb → α → β → Prop} {ρ : Emb} {l₁ l₂ : List α} {l₁' l₂' : List β}
    (h₁ : RList R ρ l₁ l₁') (h₂ : RList R ρ l₂ l₂') : RList R ρ (l₁ ++ l₂) (l₁' ++ l₂') := by
  induction h₁ with
  | nil => exact h₂
  | cons h _ ih => exact .cons h ih

theorem RList.single {α β : Type} {R : Emb → α → β → Prop} {ρ : Emb} {a : α} {b : β} (h : R ρ a b) :
    RList R ρ [a] [b] := .cons h .nil

theorem RList.snoc {α β : Type} {R : Emb → α → β → Prop} {ρ : Emb} {l : List α} {l' : List β} {a : α} {b : β}
    (h₁ : RList R ρ l l') (h : R ρ a b) : RList R ρ (l ++ [a]) (l' ++ [b]) := h₁.append (.single h)

theorem RList.getElem? {α β : Type} {R : Emb → α → β → Prop} {ρ : Emb} {l : List α} {l' : List β}
    (h : RList R ρ l l') (i : Nat) : ROpt R ρ l[i]? l'[i]? := by
  induction h generalizing i with
  | nil => exact .none
  | cons h1 _ ih =>
    cases i with
    | zero => exact .some h1
    | succ i => simpa using ih i

theorem RList.drop {α β : Type} {R : Emb → α → β → Prop} {ρ : Emb} {l : List α} {l' : List β}
    (h : RList R ρ l l') (n : Nat) : RList R ρ (l.drop n) (l'.drop n) := by
  induction h generalizing n with
  | nil => simpa using .nil
  | cons h1 h2 ih =>
    cases n with
    | zero => exact .cons h1 h2
    | succ n => simpa using ih n

theorem RList.take {α β : Type} {R : Emb → α → β → Prop} {ρ : Emb} {l : List α} {l' : List β}
    (h : RList R ρ l l') (n : Nat) : RList R ρ (l.take n) (l'.take n) := by
  induction h generalizing n with
  | nil => simpa using .nil
  | cons h1 _ ih =>
    cases n with
    | zero => exact .nil
    | succ n => simpa using .cons h1 (ih n)

theorem RList.map {α β γ δ : Type} {R : Emb → α → β → Prop} {S : Emb → γ → δ → Prop} {ρ : Emb}
    {l : List α} {l' : List β} {f : α → γ} {g : β → δ}
    (h : RList R ρ l l') (hf : ∀ a b, R ρ a b → S ρ (f a) (g b)) : RList S ρ (l.map f) (l'.map g) := by
  induction h with
  | nil => exact .nil
  | cons h1 _ ih => exact .cons (hf _ _ h1) ih

theorem RList.zip {α β γ δ : Type} {R : Emb → α → β → Prop} {S : Emb → γ → δ → Prop} {ρ : Emb}
    {l : List α} {l' : List β} {m : List γ} {m' : List δ}
    (h : RList R ρ l l') (h2 : RList S ρ m m') : RList (RProd R S) ρ (l.zip m) (l'.zip m') := by
  induction h generalizing m m' with
  | nil => simpa using .nil
  | cons h1 _ ih =>
    cases h2 with
    | nil => simpa using .nil
    | cons g1 g2 => simpa using .cons ⟨h1, g1⟩ (ih g2)

theorem RList.refl_eq {α : Type} {ρ : Emb} (l : List α) : RList REq ρ l l := by
  induction l with
  | nil => exact .nil
  | cons a _ ih => exact .cons rfl ih

theorem RList.eq_of_REq {α : Type} {ρ : Emb} {l l' : List α} (h : RList REq ρ l l') : l = l' := by
  induction h with
  | nil => rfl
  | cons h1 _ ih => cases h1; rw [ih]

/-! ### Values and cells -/

inductive RVal (ρ : Emb) : Value → Value → Prop
  | null : RVal ρ .null .null
  | bool (b : Bool) : RVal ρ (.bool b) (.bool b)
  | num (f : Float) : RVal ρ (.num f) (.num f)
  | str (s : String) : RVal ρ (.str s) (.str s)
  | arr {xs ys : List TId} : RList RT ρ xs ys → RVal ρ (.arr xs) (.arr ys)
  | obj {o o' : OId} : RO ρ o o' → RVal ρ (.obj o) (.obj o')
  | func {f f' : FId} : RF ρ f f' → RVal ρ (.func f) (.func f')

instance : Mono RVal := ⟨fun h r => by
  cases r with
  | null => exact .null
  | bool b => exact .bool b
  | num f => exact .num f
  | str s => exact .str s
  | arr h1 => exact .arr (Mono.mono h h1)
  | obj h1 => exact .obj (Mono.mono h h1)
  | func h1 => exact .func (Mono.mono h h1)⟩

inductive RPending (ρ : Emb) : Pending → Pending → Prop
  | expr (e : Expr) {env env' : EId} : RE ρ env env' → RPending ρ (.expr e env) (.expr e env')
  | plus (e : Expr) (field : String) {env env' : EId} : RE ρ env env' →
      RPending ρ (.plus e field env) (.plus e field env')
  | call {f f' : FId} {args args' : List TId} : RF ρ f f' → RList RT ρ args args' →
      RPending ρ (.call f args) (.call f' args')

instance : Mono RPending := ⟨fun h r => by
  cases r with
  | expr e h1 => exact .expr e (Mono.mono h h1)
  | plus e f h1 => exact .plus e f (Mono.mono h h1)
  | call h1 h2 => exact .call (Mono.mono h h1) (Mono.mono h h2)⟩

inductive RTState (ρ : Emb) : TState → TState → Prop
  | pending {p p'} : RPending ρ p p' → RTState ρ (.pending p) (.pending p')
  | inProgress {p p'} : RPending ρ p p' → RTState ρ (.inProgress p) (.inProgress p')
  /-- only in the modes with `looseIP`: what a thunk in progress will compute is never looked at -/
  | inProgressLoose {p p'} : Mode.looseIP → RTState ρ (.inProgress p) (.inProgress p')
  | done {v v'} : RVal ρ v v' → RTState ρ (.done v) (.done v')

instance : Mono RTState := ⟨fun h r => by
  cases r with
  | pending h1 => exact .pending (Mono.mono h h1)
  | inProgress h1 => exact .inProgress (Mono.mono h h1)
  | inProgressLoose h1 => exact .inProgressLoose h1
  | done h1 => exact .done (Mono.mono h h1)⟩

structure RObjRef (ρ : Emb) (x y : ObjRef) : Prop where
  obj : RO ρ x.obj y.obj
  layer : x.layer = y.layer
  top : RO ρ x.top y.top

instance : Mono RObjRef := ⟨fun h r => ⟨Mono.mono h r.obj, r.layer, Mono.mono h r.top⟩⟩

abbrev RVars := RList (RProd (@REq String) RT)

structure REnv (ρ : Emb) (x y : Env) : Prop where
  parent : ROpt RE ρ x.parent y.parent
  vars : RVars ρ x.vars y.vars
  obj : ROpt RObjRef ρ x.obj y.obj

instance : Mono REnv := ⟨fun h r => ⟨Mono.mono h r.parent, Mono.mono h r.vars, Mono.mono h r.obj⟩⟩

/-- what a READ of an environment cell gives: only the object context is guaranteed to be related
    (the variables are looked up with `getVar`) -/
structure REnvW (ρ : Emb) (x y : Env) : Prop where
  obj : ROpt RObjRef ρ x.obj y.obj

instance : Mono REnvW := ⟨fun h r => ⟨Mono.mono h r.obj⟩⟩

/-- related environment cells of two stores: structurally equal up to `ρ`, or (C04, only when `ρ.wk` is
    set) the right cell is an extra frame binding the one name `w.x` on top of the environment `w.q` whose
    cell `w.cq` is structurally related to the left cell; the left cell is a root (no parent) that does
    not bind `w.x` -/
def REnvC (ρ : Emb) (x y : Env) : Prop :=
  REnv ρ x y ∨ ∃ w td, ρ.wk = some w ∧ y.parent = some w.q ∧ y.vars = [(w.x, td)] ∧
    ROpt RObjRef ρ x.obj y.obj ∧ REnv ρ x w.cq ∧ x.parent = none ∧ ∀ p ∈ x.vars, p.1 ≠ w.x

theorem REnvC.mono {ρ ρ' : Emb} {x y : Env} (h : ρ ≤ ρ') (r : REnvC ρ x y) : REnvC ρ' x y := by
  rcases r with r | ⟨w, td, h1, h2, h3, h4, h5, h6, h7⟩
  · exact .inl (Mono.mono h r)
  · exact .inr ⟨w, td, by rw [h.wk]; exact h1, h2, h3, Mono.mono h h4, Mono.mono h h5, h6, h7⟩

theorem REnvC.toW {ρ : Emb} {x y : Env} (r : REnvC ρ x y) : REnvW ρ x y := by
  rcases r with r | ⟨w, td, h1, h2, h3, h4, h5, h6, h7⟩
  · exact ⟨r.obj⟩
  · exact ⟨h4⟩

structure RField (ρ : Emb) (x y : Field) : Prop where
  name : x.name = y.name
  vis : x.vis = y.vis
  baseEnv : ROpt RE ρ x.baseEnv y.baseEnv
  expr : x.expr = y.expr
  thunk : ROpt RT ρ x.thunk y.thunk

instance : Mono RField :=
  ⟨fun h r => ⟨r.name, r.vis, Mono.mono h r.baseEnv, r.expr, Mono.mono h r.thunk⟩⟩

structure RLayer (ρ : Emb) (x y : Layer) : Prop where
  isTop : x.isTop = y.isTop
  locals : x.locals = y.locals
  baseEnv : ROpt RE ρ x.baseEnv y.baseEnv
  env : ROpt RE ρ x.env y.env
  fields : RList RField ρ x.fields y.fields
  asserts : x.asserts = y.asserts

instance : Mono RLayer :=
  ⟨fun h r => ⟨r.isTop, r.locals, Mono.mono h r.baseEnv, Mono.mono h r.env, Mono.mono h r.fields, r.asserts⟩⟩

structure RObj (ρ : Emb) (x y : Obj) : Prop where
  layers : RList RLayer ρ x.layers y.layers
  assertsChecked : x.assertsChecked = y.assertsChecked
  assertsInProgress : x.assertsInProgress = y.assertsInProgress

instance : Mono RObj := ⟨fun h r => ⟨Mono.mono h r.layers, r.assertsChecked, r.assertsInProgress⟩⟩

structure RFunc (ρ : Emb) (x y : Func) : Prop where
  params : x.params = y.params
  body : x.body = y.body
  env : RE ρ x.env y.env

instance : Mono RFunc := ⟨fun h r => ⟨r.params, r.body, Mono.mono h r.env⟩⟩

/-- expressions whose evaluation does not look at the tail flag: the flag is only used by `tailstrict`
    calls, and handed down to the body of a `local`, the branches of an `if` and the body of an `assert` -/
inductive TailInsens : Expr → Prop
  | call (ce : Expr) (args : Args) : TailInsens (.call ce args false)
  | local_ (bs : Binds) {body : Expr} : TailInsens body → TailInsens (.local_ bs body)
  | ifSome (c : Expr) {t e : Expr} : TailInsens t → TailInsens e → TailInsens (.if_ c t (.some e))
  | ifNone (c : Expr) {t : Expr} : TailInsens t → TailInsens (.if_ c t .none)
  | assert_ (c : Expr) (m : OptExpr) {i : Expr} : TailInsens i → TailInsens (.assert_ c m i)
  | atom {e : Expr} : (∀ ce args ts, e ≠ .call ce args ts) → (∀ bs b, e ≠ .local_ bs b) →
      (∀ c t el, e ≠ .if_ c t el) → (∀ c m i, e ≠ .assert_ c m i) → TailInsens e

/-- the tail flags of two related evaluations: equal, or irrelevant -/
def TailOK (e : Expr) (t t' : Bool) : Prop := t = t' ∨ TailInsens e

theorem TailOK.local_body {bs : Binds} {body : Expr} {t t' : Bool} (h : TailOK (.local_ bs body) t t') :
    TailOK body t t' := by
  rcases h with h | h
  · exact .inl h
  · cases h with
    | local_ _ hb => exact .inr hb
    | atom _ h2 _ _ => exact absurd rfl (h2 _ _)

theorem TailOK.if_then {c t : Expr} {el : OptExpr} {tl tl' : Bool} (h : TailOK (.if_ c t el) tl tl') :
    TailOK t tl tl' := by
  rcases h with h | h
  · exact .inl h
  · cases h with
    | ifSome _ ht _ => exact .inr ht
    | ifNone _ ht => exact .inr ht
    | atom _ _ h3 _ => exact absurd rfl (h3 _ _ _)

theorem TailOK.if_else {c t e : Expr} {tl tl' : Bool} (h : TailOK (.if_ c t (.some e)) tl tl') :
    TailOK e tl tl' := by
  rcases h with h | h
  · exact .inl h
  · cases h with
    | ifSome _ _ he => exact .inr he
    | atom _ _ h3 _ => exact absurd rfl (h3 _ _ _)

theorem TailOK.assert_inner {c : Expr} {m : OptExpr} {i : Expr} {tl tl' : Bool}
    (h : TailOK (.assert_ c m i) tl tl') : TailOK i tl tl' := by
  rcases h with h | h
  · exact .inl h
  · cases h with
    | assert_ _ _ hi => exact .inr hi
    | atom _ _ _ h4 => exact absurd rfl (h4 _ _ _)

theorem TailOK.call_cond {ce : Expr} {args : Args} {ts tl tl' : Bool} (h : TailOK (.call ce args ts) tl tl') :
    (ts && tl) = (ts && tl') := by
  rcases h with h | h
  · rw [h]
  · cases h with
    | call => rfl
    | atom h1 _ _ _ => exact absurd rfl (h1 _ _ _)

/-- side goals about tail flags -/
syntax "tailok" : tactic
macro_rules
  | `(tactic| tailok) => `(tactic| first
    | exact Or.inl rfl
    | assumption
    | exact TailOK.local_body (by assumption)
    | exact TailOK.if_then (by assumption)
    | exact TailOK.if_else (by assumption)
    | exact TailOK.assert_inner (by assumption))

inductive RTask (ρ : Emb) : Task → Task → Prop
  | eval (e : Expr) {env env' : EId} (tail : Bool) (d : Nat) {d' : Nat} {tail' : Bool} (he : RE ρ env env')
      (hd : RDep d d' := by rdep) (htl : TailOK e tail tail' := by tailok) :
      RTask ρ (.eval e env tail d) (.eval e env' tail' d')
  | force {t t' : TId} (d : Nat) {d' : Nat} (ht : RT ρ t t') (hd : RDep d d' := by rdep) :
      RTask ρ (.force t d) (.force t' d')
  | manifest {v v' : Value} (d : Nat) {d' : Nat} (canon : Bool) (hv : RVal ρ v v') (hd : RDep d d' := by rdep) :
      RTask ρ (.manifest v d canon) (.manifest v' d' canon)
  | equals {a a' b b' : Value} (d : Nat) {d' : Nat} (ha : RVal ρ a a') (hb : RVal ρ b b')
      (hd : RDep d d' := by rdep) : RTask ρ (.equals a b d) (.equals a' b' d')
  | compare {a a' b b' : Value} (d : Nat) {d' : Nat} (ha : RVal ρ a a') (hb : RVal ρ b b')
      (hd : RDep d d' := by rdep) : RTask ρ (.compare a b d) (.compare a' b' d')
  | deep {v v' : Value} (d : Nat) {d' : Nat} (hv : RVal ρ v v') (hd : RDep d d' := by rdep) :
      RTask ρ (.deep v d) (.deep v' d')
  | asserts {o o' : OId} (d : Nat) {d' : Nat} (ho : RO ρ o o') (hd : RDep d d' := by rdep) :
      RTask ρ (.asserts o d) (.asserts o' d')

instance : Mono RTask := ⟨fun h r => by
  cases r with
  | eval e tail d h1 hd htl => exact .eval e tail d (Mono.mono h h1) hd htl
  | force d h1 hd => exact .force d (Mono.mono h h1) hd
  | manifest d c h1 hd => exact .manifest d c (Mono.mono h h1) hd
  | equals d h1 h2 hd => exact .equals d (Mono.mono h h1) (Mono.mono h h2) hd
  | compare d h1 h2 hd => exact .compare d (Mono.mono h h1) (Mono.mono h h2) hd
  | deep d h1 hd => exact .deep d (Mono.mono h h1) hd
  | asserts d h1 hd => exact .asserts d (Mono.mono h h1) hd⟩

theorem RTask.depth_rel {ρ : Emb} {t t' : Task} (h : RTask ρ t t') : RDep t.depth t'.depth := by
  cases h <;> assumption

/-! ### Related stores -/

/-- two arrays related cell by cell along an injective partial map of positions -/
structure ArrSim {α : Type} (m : Nat → Option Nat) (R : α → α → Prop) (xs ys : Array α) : Prop where
  inj : ∀ i j k, m i = some k → m j = some k → i = j
  cell : ∀ i k, m i = some k → ∃ x y, xs[i]? = some x ∧ ys[k]? = some y ∧ R x y

namespace ArrSim
variable {α : Type} {m : Nat → Option Nat} {R R' : α → α → Prop} {xs ys : Array α}

theorem mono (h : ArrSim m R xs ys) (hR : ∀ x y, R x y → R' x y) : ArrSim m R' xs ys :=
  ⟨h.inj, fun i k hik => by
    obtain ⟨x, y, h1, h2, h3⟩ := h.cell i k hik
    exact ⟨x, y, h1, h2, hR _ _ h3⟩⟩

theorem lt (h : ArrSim m R xs ys) {i k : Nat} (hik : m i = some k) : i < xs.size ∧ k < ys.size := by
  obtain ⟨x, y, h1, h2, _⟩ := h.cell i k hik
  constructor
  · rcases Nat.lt_or_ge i xs.size with h | h
    · exact h
    · simp [Array.getElem?_eq_none h] at h1
  · rcases Nat.lt_or_ge k ys.size with h | h
    · exact h
    · simp [Array.getElem?_eq_none h] at h2

theorem fresh (h : ArrSim m R xs ys) : m xs.size = none := by
  cases hm : m xs.size with
  | none => rfl
  | some k => exact absurd (h.lt hm).1 (Nat.lt_irrefl _)

theorem fresh_right (h : ArrSim m R xs ys) (i : Nat) : m i ≠ some ys.size := by
  intro hm
  exact absurd (h.lt hm).2 (Nat.lt_irrefl _)

/-- both arrays updated at related positions with related cells -/
theorem set (h : ArrSim m R xs ys) {i k : Nat} (hik : m i = some k) {x y : α} (hxy : R x y) :
    ArrSim m R (xs.setIfInBounds i x) (ys.setIfInBounds k y) := by
  refine ⟨h.inj, fun j l hjl => ?_⟩
  obtain ⟨hi, hk⟩ := h.lt hik
  by_cases hj : j = i
  · subst hj
    rw [hik] at hjl; cases hjl
    exact ⟨x, y, by simp [hi], by simp [hk], hxy⟩
  · have hl : l ≠ k := fun e => hj (h.inj j i k (e ▸ hjl) hik)
    obtain ⟨x', y', h1, h2, h3⟩ := h.cell j l hjl
    refine ⟨x', y', ?_, ?_, h3⟩
    · simpa [Array.getElem?_setIfInBounds, Ne.symm hj] using h1
    · simpa [Array.getElem?_setIfInBounds, Ne.symm hl] using h2

/-- both arrays extended by related cells; the fresh positions become related -/
theorem push (h : ArrSim m R xs ys) (hR : ∀ x y, R x y → R' x y) {x y : α} (hxy : R' x y) :
    ArrSim (ext m xs.size ys.size) R' (xs.push x) (ys.push y) := by
  constructor
  · intro i j k hi hj
    unfold ext at hi hj
    split at hi <;> split at hj
    · subst_vars; rfl
    · cases hi; exact absurd hj (h.fresh_right j)
    · cases hj; exact absurd hi (h.fresh_right i)
    · exact h.inj i j k hi hj
  · intro i k hik
    unfold ext at hik
    split at hik
    · subst_vars; cases hik
      exact ⟨x, y, by simp, by simp, hxy⟩
    · obtain ⟨x', y', h1, h2, h3⟩ := h.cell i k hik
      obtain ⟨hi, hk⟩ := h.lt hik
      refine ⟨x', y', ?_, ?_, hR _ _ h3⟩
      · simpa [Array.getElem?_push, Nat.ne_of_lt hi] using h1
      · simpa [Array.getElem?_push, Nat.ne_of_lt hk] using h2

end ArrSim

/-- `ta`, `tb`: the `std.trace` logs (newest first) of the two stores at the start of the computations
    that are compared -/
structure Sim (ρ : Emb) (ta tb : List String) (a b : St) : Prop where
  thunks : ArrSim ρ.tm (RTState ρ) a.thunks b.thunks
  envs : ArrSim ρ.em (REnvC ρ) a.envs b.envs
  objs : ArrSim ρ.om (RObj ρ) a.objs b.objs
  funcs : ArrSim ρ.fm (RFunc ρ) a.funcs b.funcs
  /-- both logs are the logs at the start with the SAME messages added in front -/
  traces : ∃ new : List String, a.traces = new ++ ta ∧ b.traces = new ++ tb
  /-- C04 weakening: the parent of the extra frame holds its cell and is not an image -/
  wkcell : ∀ w, ρ.wk = some w → b.envs[w.q]? = some w.cq ∧ (∀ j, ρ.em j ≠ some w.q) ∧
    Mode.excuse (.internal "variable not found")
  /-- reserved thunks of the right store exist and are not images -/
  rsvok : ∀ t, t ∈ ρ.rsv → t < b.thunks.size ∧ ∀ j, ρ.tm j ≠ some t

/-! ### Related computations -/

/-- related outcomes -/
def ORel {α β : Type} (ρ : Emb) (ta tb : List String) (Q : Emb → α → β → Prop) :
    Option (Except Err α × St) → Option (Except Err β × St) → Prop
  | none, r' => Mode.gasOk ∨ r' = none
  | some (.ok v, a'), r' => ∃ w b', r' = some (.ok w, b') ∧ ∃ ρ', ρ ≤ ρ' ∧ Sim ρ' ta tb a' b' ∧ Q ρ' v w
  | some (.error e, a'), r' => Mode.excuse e ∨
      ∃ b', r' = some (.error e, b') ∧ ∃ ρ', ρ ≤ ρ' ∧ Sim ρ' ta tb a' b'

/-- related computations -/
def MRel {α β : Type} (ρ : Emb) (Q : Emb → α → β → Prop) (x : M α) (y : M β) : Prop :=
  ∀ ta tb a b, Sim ρ ta tb a b → ORel ρ ta tb Q (x a) (y b)

theorem ORel.weaken {α β : Type} {ρ₀ ρ : Emb} {ta tb : List String} {Q : Emb → α → β → Prop}
    {r : Option (Except Err α × St)} {r' : Option (Except Err β × St)} (hle : ρ₀ ≤ ρ)
    (h : ORel ρ ta tb Q r r') : ORel ρ₀ ta tb Q r r' := by
  match r, h with
  | none, h => exact h
  | some (.ok v, a'), ⟨w, b', e, ρ', h1, h2, h3⟩ => exact ⟨w, b', e, ρ', Emb.le_trans hle h1, h2, h3⟩
  | some (.error e, a'), h =>
    rcases h with h | ⟨b', e', ρ', h1, h2⟩
    · exact .inl h
    · exact .inr ⟨b', e', ρ', Emb.le_trans hle h1, h2⟩

theorem M_bind_app {α β} (x : M α) (f : α → M β) (st : St) :
    (x >>= f) st = match x st with
      | none => none
      | some (.ok a, s') => f a s'
      | some (.error e, s') => some (.error e, s') := by
  show (ExceptT.bind x f) st = _
  unfold ExceptT.bind ExceptT.bindCont ExceptT.mk
  show (StateT.bind x _) st = _
  unfold StateT.bind
  show (Option.bind (x st) _) = _
  cases h : x st with
  | none => rfl
  | some p =>
    obtain ⟨r, s'⟩ := p
    cases r <;> rfl

theorem get_app (st : St) : (get : M St) st = some (.ok st, st) := rfl
theorem set_apply (s st : St) : (set s : M PUnit) st = some (.ok ⟨⟩, s) := rfl
theorem modify_apply (f : St → St) (st : St) : (modify f : M PUnit) st = some (.ok ⟨⟩, f st) := rfl
theorem pure_app {α} (a : α) (st : St) : (pure a : M α) st = some (.ok a, st) := rfl
theorem throw_app {α} (e : Err) (st : St) : (throw e : M α) st = some (.error e, st) := rfl

theorem MRel_pure {α β : Type} {ρ : Emb} {Q : Emb → α → β → Prop} {v : α} {w : β} (h : Q ρ v w) :
    MRel ρ Q (pure v) (pure w) := fun _ _ _ b hs => ⟨w, b, rfl, ρ, Emb.le_refl ρ, hs, h⟩

theorem MRel_throw {α β : Type} {ρ : Emb} {Q : Emb → α → β → Prop} {e e' : Err} (h : e = e') :
    MRel ρ Q (throw e : M α) (throw e' : M β) := fun _ _ _ b hs => .inr ⟨b, by rw [h]; rfl, ρ, Emb.le_refl ρ, hs⟩

theorem MRel_bottom {α β : Type} {ρ : Emb} {Q : Emb → α → β → Prop} :
    MRel ρ Q (bottom : M α) (bottom : M β) := fun _ _ _ _ _ => .inr rfl

theorem MRel_bind {α β γ δ : Type} {ρ : Emb} {Q₁ : Emb → α → β → Prop} {Q : Emb → γ → δ → Prop}
    {x : M α} {y : M β} {f : α → M γ} {g : β → M δ}
    (h₁ : MRel ρ Q₁ x y)
    (h₂ : ∀ ρ', ρ ≤ ρ' → ∀ v w, Q₁ ρ' v w → MRel ρ' Q (f v) (g w)) :
    MRel ρ Q (x >>= f) (y >>= g) := by
  intro ta tb a b hs
  have h := h₁ ta tb a b hs
  rw [M_bind_app, M_bind_app]
  match hx : x a, h with
  | none, h =>
    rcases h with h | h
    · exact .inl h
    · rw [h]; exact .inr rfl
  | some (.ok v, a'), ⟨w, b', e, ρ', h1, h2, h3⟩ =>
    rw [e]
    exact ORel.weaken h1 (h₂ ρ' h1 v w h3 ta tb a' b' h2)
  | some (.error e, a'), h =>
    rcases h with h | ⟨b', e', ρ', h1, h2⟩
    · exact .inl h
    · rw [e']; exact .inr ⟨b', rfl, ρ', h1, h2⟩

/-- weakening of the result relation -/
theorem MRel_conseq {α β : Type} {ρ : Emb} {Q Q' : Emb → α → β → Prop} {x : M α} {y : M β}
    (h : MRel ρ Q x y) (hQ : ∀ ρ', ρ ≤ ρ' → ∀ v w, Q ρ' v w → Q' ρ' v w) : MRel ρ Q' x y := by
  intro ta tb a b hs
  have h := h ta tb a b hs
  match hx : x a, h with
  | none, h => exact h
  | some (.ok v, a'), ⟨w, b', e, ρ', h1, h2, h3⟩ => exact ⟨w, b', e, ρ', h1, h2, hQ ρ' h1 v w h3⟩
  | some (.error e, a'), h => exact h

/-- `x >>= pure ∘ f` form -/
theorem MRel_map {α β γ δ : Type} {ρ : Emb} {Q₁ : Emb → α → β → Prop} {Q : Emb → γ → δ → Prop}
    {x : M α} {y : M β} {f : α → γ} {g : β → δ}
    (h₁ : MRel ρ Q₁ x y) (h₂ : ∀ ρ', ρ ≤ ρ' → ∀ v w, Q₁ ρ' v w → Q ρ' (f v) (g w)) :
    MRel ρ Q (f <$> x) (g <$> y) := by
  rw [map_eq_pure_bind, map_eq_pure_bind]
  exact MRel_bind h₁ (fun ρ' hle v w hvw => MRel_pure (h₂ ρ' hle v w hvw))

/-- loops over related lists: the invariant is "related accumulators" -/
theorem MRel_forIn {α α' β β' : Type} {ρ : Emb} (G : Emb → α → α' → Prop) [Mono G]
    (I : Emb → β → β' → Prop) {l : List α} {l' : List α'}
    {f : α → β → M (ForInStep β)} {f' : α' → β' → M (ForInStep β')} {b : β} {b' : β'}
    (hl : RList G ρ l l') (hb : I ρ b b')
    (hf : ∀ ρ', ρ ≤ ρ' → ∀ x x' acc acc', x ∈ l → x' ∈ l' → G ρ' x x' → I ρ' acc acc' →
      MRel ρ' (RStep I) (f x acc) (f' x' acc')) :
    MRel ρ I (forIn l b f) (forIn l' b' f') := by
  induction l generalizing ρ l' b b' with
  | nil => cases hl; simpa using MRel_pure hb
  | cons x xs ih =>
    cases hl with
    | @cons _ x' _ xs' hx hxs =>
      rw [List.forIn_cons, List.forIn_cons]
      refine MRel_bind (hf ρ (Emb.le_refl ρ) x x' b b' (by simp) (by simp) hx hb) ?_
      intro ρ' hle v w hvw
      cases hvw with
      | done h => exact MRel_pure h
      | yield h =>
        exact ih (Mono.mono hle hxs) h (fun ρ'' hle' y y' acc acc' hy hy' =>
          hf ρ'' (Emb.le_trans hle hle') y y' acc acc' (List.mem_cons_of_mem _ hy) (List.mem_cons_of_mem _ hy'))

end Rsj.Eval
