/-
  YAML round trip, part A: the lines of the emitted text (`linesOf (joinNl L) = L`,
  no line of `valL` contains a line feed), indentation (`countSp`, `dropSp`),
  one-line scalars (`readScalar`), keys (`readKey`) and the first lines of the
  collections.
-/
import RsjProofs.YamlFrag
namespace Rsj.Yaml
open Rsj.Json

/-! ### splitting at line feeds -/

theorem splitNl_nonl : ∀ (l : Str), 10 ∉ l → splitNl l = (l, [])
  | [], _ => rfl
  | c :: r, h => by
    have hc : c ≠ 10 := fun e => h (by rw [e]; exact List.mem_cons_self)
    have hr : 10 ∉ r := fun e => h (List.mem_cons_of_mem _ e)
    rw [splitNl, splitNl_nonl r hr]
    simp [hc]

theorem splitNl_append : ∀ (l r : Str), 10 ∉ l →
    splitNl (l ++ 10 :: r) = (l, (splitNl r).1 :: (splitNl r).2)
  | [], r, _ => by rw [List.nil_append, splitNl]; simp
  | c :: l, r, h => by
    have hc : c ≠ 10 := fun e => h (by rw [e]; exact List.mem_cons_self)
    have hr : 10 ∉ l := fun e => h (List.mem_cons_of_mem _ e)
    rw [List.cons_append, splitNl, splitNl_append l r hr]
    simp [hc]

/-- no line contains a line feed -/
def LinesOK (L : List Str) : Prop := ∀ l ∈ L, 10 ∉ l

theorem linesOf_joinNl : ∀ (L : List Str), L ≠ [] → LinesOK L → linesOf (joinNl L) = L
  | [], h, _ => absurd rfl h
  | [l], _, hl => by
    have := splitNl_nonl l (hl l List.mem_cons_self)
    simp [linesOf, joinNl, this]
  | l :: m :: ls, _, hl => by
    have h1 := splitNl_append l (joinNl (m :: ls)) (hl l List.mem_cons_self)
    have ih := linesOf_joinNl (m :: ls) (by simp) (fun x hx => hl x (List.mem_cons_of_mem _ hx))
    rw [linesOf] at ih
    rw [linesOf, joinNl, h1, ih]

theorem LinesOK.append {A B : List Str} (ha : LinesOK A) (hb : LinesOK B) : LinesOK (A ++ B) := by
  intro l hl
  rcases List.mem_append.mp hl with h | h
  · exact ha l h
  · exact hb l h

theorem LinesOK.prependTo {p : Str} {L : List Str} (hp : 10 ∉ p) (hL : LinesOK L) :
    LinesOK (prependTo p L) := by
  cases L with
  | nil =>
    intro l hl
    simp only [Yaml.prependTo, List.mem_singleton] at hl
    rw [hl]; exact hp
  | cons a A =>
    intro l hl
    simp only [Yaml.prependTo, List.mem_cons] at hl
    rcases hl with rfl | h
    · intro hm
      rcases List.mem_append.mp hm with h | h
      · exact hp h
      · exact hL a List.mem_cons_self h
    · exact hL l (List.mem_cons_of_mem _ h)

theorem LinesOK.single {l : Str} (h : 10 ∉ l) : LinesOK [l] := by
  intro x hx
  rw [List.mem_singleton] at hx
  rw [hx]; exact h

theorem nonl_append {a b : Str} (ha : 10 ∉ a) (hb : 10 ∉ b) : 10 ∉ a ++ b := by
  intro h
  rcases List.mem_append.mp h with h | h
  · exact ha h
  · exact hb h

theorem nonl_rep_indent : ∀ d, 10 ∉ rep d indent
  | 0 => by simp [rep]
  | d + 1 => by rw [rep]; exact nonl_append (by simp [indent]) (nonl_rep_indent d)

theorem nonl_lead (pA pO : Bool) : 10 ∉ lead pA pO := by
  unfold lead; split <;> simp

theorem nonl_escape (s : Str) : 10 ∉ escape s := by
  unfold escape
  intro h
  rcases List.mem_cons.mp h with h | h
  · cases h
  · rcases List.mem_append.mp h with h | h
    · have := escapeBody_ge s 10 h; omega
    · simp at h

theorem nonl_plain {s : Str} (h : ∀ c ∈ s, yPlainChar c = true) : 10 ∉ s := by
  intro hm
  have := h 10 hm
  revert this; decide

theorem nonl_numChars {s : Str} (h : ∀ c ∈ s, numChar c = true) : 10 ∉ s := by
  intro hm
  have := h 10 hm
  revert this; decide

theorem splitNl_pieces : ∀ (s : Str), 10 ∉ (splitNl s).1 ∧ ∀ l ∈ (splitNl s).2, 10 ∉ l
  | [] => by simp [splitNl]
  | c :: r => by
    have ih := splitNl_pieces r
    rw [splitNl]
    by_cases hc : c = 10
    · simp only [hc, if_true]
      refine ⟨by simp, ?_⟩
      intro l hl
      rcases List.mem_cons.mp hl with rfl | h
      · exact ih.1
      · exact ih.2 l h
    · simp only [hc, if_false]
      refine ⟨?_, ih.2⟩
      intro h
      rcases List.mem_cons.mp h with h | h
      · exact hc h.symm
      · exact ih.1 h

theorem linesOf_nonl (s : Str) : LinesOK (linesOf s) := by
  intro l hl
  unfold linesOf at hl
  rcases List.mem_cons.mp hl with rfl | h
  · exact (splitNl_pieces s).1
  · exact (splitNl_pieces s).2 l h

/-- the two ways a key is written -/
theorem yamlKey_cases (qk : Bool) (k : Str) :
    yamlKey qk k = escape k ∨ (qk = false ∧ isSafeYamlPlain k = true ∧ yamlKey qk k = k) := by
  unfold yamlKey
  cases qk <;> cases h : isSafeYamlPlain k <;> simp

theorem nonl_yamlKey (qk : Bool) (k : Str) : 10 ∉ yamlKey qk k := by
  rcases yamlKey_cases qk k with h | ⟨_, hs, h⟩
  · rw [h]; exact nonl_escape k
  · rw [h]; exact nonl_plain (yamlPlain_chars hs).2

mutual
theorem valL_nonl (iaio qk : Bool) (d : Nat) (pA pO : Bool) :
    (v : JVal) → ValOK v → LinesOK (valL iaio qk d pA pO v)
  | .null, _ => by
    rw [valL]; exact LinesOK.single (nonl_append (nonl_lead _ _) (by decide))
  | .bool true, _ => by
    rw [valL]; exact LinesOK.single (nonl_append (nonl_lead _ _) (by decide))
  | .bool false, _ => by
    rw [valL]; exact LinesOK.single (nonl_append (nonl_lead _ _) (by decide))
  | .num t, hv => by
    rw [ValOK] at hv
    rw [valL]; exact LinesOK.single (nonl_append (nonl_lead _ _) (nonl_numChars (numTok_chars hv).2))
  | .str s, _ => by
    rw [valL]
    split
    · next body _ =>
      intro l hl
      rcases List.mem_cons.mp hl with rfl | h
      · exact nonl_append (nonl_lead _ _) (by decide)
      · obtain ⟨l', hl', rfl⟩ := List.mem_map.mp h
        exact nonl_append (nonl_rep_indent _) (linesOf_nonl body l' hl')
    · exact LinesOK.single (nonl_append (nonl_lead _ _) (nonl_escape s))
  | .arr [], _ => by
    rw [valL]; exact LinesOK.single (nonl_append (nonl_lead _ _) (by decide))
  | .arr (x :: xs), hv => by
    rw [ValOK] at hv
    rw [valL]
    refine LinesOK.append ?_ (seqL_nonl iaio qk _ (x :: xs) hv)
    split
    · exact LinesOK.single (by simp)
    · intro l hl; cases hl
  | .obj [], _ => by
    rw [valL]; exact LinesOK.single (nonl_append (nonl_lead _ _) (by decide))
  | .obj (kx :: xs), hv => by
    rw [ValOK] at hv
    rw [valL]
    split
    · exact fieldsL_nonl iaio qk d [32] (by simp) (kx :: xs) hv.1
    · split
      · intro l hl
        rcases List.mem_cons.mp hl with rfl | h
        · simp
        · exact fieldsL_nonl iaio qk d _ (nonl_rep_indent d) (kx :: xs) hv.1 l h
      · exact fieldsL_nonl iaio qk d _ (nonl_rep_indent d) (kx :: xs) hv.1
theorem seqL_nonl (iaio qk : Bool) (d : Nat) :
    (xs : List JVal) → ItemsOK xs → LinesOK (seqL iaio qk d xs)
  | [], _ => by rw [seqL]; intro l hl; cases hl
  | x :: xs, hv => by
    rw [ItemsOK] at hv
    rw [seqL]
    exact LinesOK.append
      (LinesOK.prependTo (nonl_append (nonl_rep_indent d) (by simp)) (valL_nonl iaio qk (d + 1) true false x hv.1))
      (seqL_nonl iaio qk d xs hv.2)
theorem fieldsL_nonl (iaio qk : Bool) (d : Nat) (pre : Str) (hp : 10 ∉ pre) :
    (fs : List (Str × JVal)) → FieldsOK fs → LinesOK (fieldsL iaio qk d pre fs)
  | [], _ => by rw [fieldsL]; intro l hl; cases hl
  | (k, x) :: xs, hv => by
    rw [FieldsOK] at hv
    rw [fieldsL]
    exact LinesOK.append
      (LinesOK.prependTo (nonl_append hp (nonl_append (nonl_yamlKey qk k) (by simp)))
        (valL_nonl iaio qk (d + 1) false true x hv.1))
      (fieldsL_nonl iaio qk d _ (nonl_rep_indent d) xs hv.2)
end

/-- every value is written on at least one line -/
theorem valL_ne_nil (iaio qk : Bool) (d : Nat) (pA pO : Bool) (v : JVal) :
    ∃ s more, valL iaio qk d pA pO v = s :: more := by
  have key : ∀ L : List Str, L ≠ [] → ∃ s more, L = s :: more := by
    intro L h; cases L with
    | nil => exact absurd rfl h
    | cons a A => exact ⟨a, A, rfl⟩
  apply key
  cases v with
  | null => simp [valL]
  | bool b => cases b <;> simp [valL]
  | num t => simp [valL]
  | str s => rw [valL]; split <;> simp
  | arr l =>
    cases l with
    | nil => simp [valL]
    | cons x xs =>
      rw [valL]; intro h
      exact seqL_ne_nil _ _ _ x xs (List.append_eq_nil_iff.mp h).2
  | obj l =>
    cases l with
    | nil => simp [valL]
    | cons x xs =>
      rw [valL]
      split
      · exact fieldsL_ne_nil _ _ _ _ x xs
      · split
        · simp
        · exact fieldsL_ne_nil _ _ _ _ x xs

/-- the lines of the document are exactly `valL` -/
theorem linesOf_manifest (iaio qk : Bool) (v : JVal) (hv : ValOK v) :
    linesOf (manifestYamlDoc iaio qk v) = valL iaio qk 0 false false v := by
  unfold manifestYamlDoc
  rw [manifestYaml_lines]
  obtain ⟨s, more, h⟩ := valL_ne_nil iaio qk 0 false false v
  exact linesOf_joinNl _ (by rw [h]; simp) (valL_nonl iaio qk 0 false false v hv)

/-- a document followed by a line break: one more, empty, line -/
theorem linesOf_manifest_nl (iaio qk : Bool) (v : JVal) (hv : ValOK v) :
    linesOf (manifestYamlDoc iaio qk v ++ [10]) = valL iaio qk 0 false false v ++ [[]] := by
  unfold manifestYamlDoc
  rw [manifestYaml_lines]
  obtain ⟨s, more, h⟩ := valL_ne_nil iaio qk 0 false false v
  have e : joinNl (valL iaio qk 0 false false v) ++ [10] = joinNl (valL iaio qk 0 false false v ++ [[]]) := by
    rw [joinNl_append _ _ (by rw [h]; simp)]
    simp [nlAfter, joinNl]
  rw [e]
  exact linesOf_joinNl _ (by simp)
    (LinesOK.append (valL_nonl iaio qk 0 false false v hv) (LinesOK.single (by simp)))

/-! ### indentation -/

theorem rep_indent : ∀ d, rep d indent = spaces (2 * d)
  | 0 => rfl
  | d + 1 => by
    rw [rep, rep_indent d]
    have : 2 * (d + 1) = (2 * d + 1) + 1 := by omega
    rw [this]
    simp [spaces, indent, List.replicate_succ]

theorem countSp_spaces (n : Nat) (c : Nat) (t : Str) (hc : c ≠ 32) : countSp (spaces n ++ c :: t) = n := by
  induction n with
  | zero => simp [spaces, countSp, hc]
  | succ n ih =>
    have : spaces (n + 1) = 32 :: spaces n := by simp [spaces, List.replicate_succ]
    rw [this, List.cons_append, countSp, if_pos rfl, ih]

theorem dropSp_spaces (n : Nat) (c : Nat) (t : Str) (hc : c ≠ 32) : dropSp (spaces n ++ c :: t) = c :: t := by
  induction n with
  | zero => simp [spaces, dropSp, hc]
  | succ n ih =>
    have : spaces (n + 1) = 32 :: spaces n := by simp [spaces, List.replicate_succ]
    rw [this, List.cons_append, dropSp, if_pos rfl, ih]

/-! ### one-line scalars -/

theorem readScalar_null : readScalar sNull = some .null := rfl
theorem readScalar_true : readScalar sTrue = some (.bool true) := rfl
theorem readScalar_false : readScalar sFalse = some (.bool false) := rfl
theorem readScalar_arr : readScalar [91, 93] = some (.arr []) := rfl
theorem readScalar_obj : readScalar [123, 125] = some (.obj []) := rfl

theorem readScalar_str (s : Str) : readScalar (escape s) = some (.str s) := by
  have h := lexString_escape s []
  rw [List.append_nil] at h
  unfold readScalar
  have e : escape s = 34 :: (escapeBody s ++ [34]) := rfl
  rw [if_neg (by rw [e]; simp [sNull]), if_neg (by rw [e]; simp [sTrue]), if_neg (by rw [e]; simp [sFalse]),
    if_neg (by rw [e]; simp), if_neg (by rw [e]; simp)]
  rw [h]
  rw [e]
  simp

theorem readScalar_num {t : Str} (ht : NumTok t) : readScalar t = some (.num t) := by
  have hl := numTok_lex ht
  obtain ⟨⟨c, t', rfl, hc⟩, _⟩ := ht
  have h1 : c ≠ 110 ∧ c ≠ 102 ∧ c ≠ 116 ∧ c ≠ 91 ∧ c ≠ 123 ∧ c ≠ 34 := by
    rcases hc with hc | hc
    · simp only [isDigit, Bool.and_eq_true, decide_eq_true_eq] at hc; omega
    · omega
  unfold readScalar
  rw [if_neg (by simp [sNull, h1.1]), if_neg (by simp [sTrue, h1.2.2.1]), if_neg (by simp [sFalse, h1.2.1]),
    if_neg (by simp [h1.2.2.2.1]), if_neg (by simp [h1.2.2.2.2.1])]
  simp only [h1.2.2.2.2.2, if_false]
  rw [hl]

/-- a text that contains a character occurring in no number and in none of the
    keywords, and that does not start with a quotation mark, is not a scalar -/
theorem readScalar_none_char {s : Str} {x : Nat} (hx : x ∈ s) (hn : numChar x = false)
    (h1 : x ∉ sNull) (h2 : x ∉ sTrue) (h3 : x ∉ sFalse) (h4 : x ∉ [91, 93]) (h5 : x ∉ [123, 125])
    (hq : ∀ t, s ≠ 34 :: t) : readScalar s = none := by
  unfold readScalar
  rw [if_neg (fun e => h1 (by rw [← e]; exact hx)), if_neg (fun e => h2 (by rw [← e]; exact hx)),
    if_neg (fun e => h3 (by rw [← e]; exact hx)), if_neg (fun e => h4 (by rw [← e]; exact hx)),
    if_neg (fun e => h5 (by rw [← e]; exact hx))]
  cases s with
  | nil => rfl
  | cons c r =>
    have hc : c ≠ 34 := fun e => hq r (by rw [e])
    simp only [hc, if_false]
    have := lexNumber_not_all hx hn
    split
    · next t heq => exact absurd heq (this t)
    · rfl

theorem readScalar_dash : readScalar [45] = none := rfl

theorem readScalar_seqline (t : Str) : readScalar (45 :: 32 :: t) = none :=
  readScalar_none_char (x := 32) (by simp) (by decide) (by decide) (by decide) (by decide) (by decide)
    (by decide) (by intro t h; cases h)

/-! ### keys -/

theorem takeWhile_plain : ∀ (k s : Str), (∀ c ∈ k, yPlainChar c = true) →
    (k ++ 58 :: s).takeWhile yPlainChar = k
  | [], s, _ => by
    have : yPlainChar 58 = false := by decide
    simp [this]
  | c :: k, s, h => by
    have hc := h c List.mem_cons_self
    rw [List.cons_append, List.takeWhile_cons, hc]
    simp only [if_true]
    rw [takeWhile_plain k s (fun x hx => h x (List.mem_cons_of_mem _ hx))]

theorem dropWhile_plain : ∀ (k s : Str), (∀ c ∈ k, yPlainChar c = true) →
    (k ++ 58 :: s).dropWhile yPlainChar = 58 :: s
  | [], s, _ => by
    have : yPlainChar 58 = false := by decide
    simp [this]
  | c :: k, s, h => by
    have hc := h c List.mem_cons_self
    rw [List.cons_append, List.dropWhile_cons, hc]
    simp only [if_true]
    rw [dropWhile_plain k s (fun x hx => h x (List.mem_cons_of_mem _ hx))]

/-- the facts about a bare key -/
theorem bare_key {qk : Bool} {k : Str} (hk : KeyOK qk k) (hq : qk = false) (hs : isSafeYamlPlain k = true) :
    (∃ c k', k = c :: k' ∧ yPlainChar c = true) ∧ (∀ c ∈ k, yPlainChar c = true) ∧ k ≠ [45] ∧
      coreNonString k = false := by
  have hp := yamlPlain_chars hs
  refine ⟨?_, hp.2, ?_, ?_⟩
  · cases k with
    | nil => exact absurd rfl hp.1
    | cons c k' => exact ⟨c, k', rfl, hp.2 c List.mem_cons_self⟩
  · intro e
    have := yaml_c1 hs
    rw [e] at this
    revert this; decide
  · rcases hk with h | h | h
    · rw [hq] at h; cases h
    · rw [hs] at h; cases h
    · exact h

theorem readKey_yamlKey {qk : Bool} {k : Str} (hk : KeyOK qk k) (s : Str) :
    readKey (yamlKey qk k ++ 58 :: s) = some (k, s) := by
  rcases yamlKey_cases qk k with h | ⟨hq, hs, h⟩
  · rw [h]
    have hl := lexString_escape k (58 :: s)
    have e : escape k ++ 58 :: s = 34 :: ((escapeBody k ++ [34]) ++ 58 :: s) := rfl
    rw [e] at hl ⊢
    unfold readKey
    simp only [if_true]
    rw [hl]; rfl
  · rw [h]
    obtain ⟨⟨c, k', rfl, hc⟩, hall, h45, hcore⟩ := bare_key hk hq hs
    have hc34 : c ≠ 34 := by intro e; rw [e] at hc; revert hc; decide
    have ht := takeWhile_plain (c :: k') s hall
    have hd := dropWhile_plain (c :: k') s hall
    rw [List.cons_append] at ht hd ⊢
    unfold readKey
    simp only [hc34, if_false]
    rw [hd]
    simp only [ht]
    rw [if_neg]
    rintro (h | h)
    · exact h45 h
    · rw [hcore] at h; cases h

theorem readScalar_keyline {qk : Bool} {k : Str} (hk : KeyOK qk k) (s : Str) :
    readScalar (yamlKey qk k ++ 58 :: s) = none := by
  rcases yamlKey_cases qk k with h | ⟨hq, hs, h⟩
  · rw [h]
    have hl := lexString_escape k (58 :: s)
    have e : escape k ++ 58 :: s = 34 :: ((escapeBody k ++ [34]) ++ 58 :: s) := rfl
    rw [e] at hl ⊢
    unfold readScalar
    rw [if_neg (by simp [sNull]), if_neg (by simp [sTrue]), if_neg (by simp [sFalse]),
      if_neg (by simp), if_neg (by simp)]
    simp only [if_true]
    rw [hl]
  · rw [h]
    obtain ⟨⟨c, k', rfl, hc⟩, hall, h45, hcore⟩ := bare_key hk hq hs
    have hc34 : c ≠ 34 := by intro e; rw [e] at hc; revert hc; decide
    refine readScalar_none_char (x := 58) (by simp) (by decide) (by decide) (by decide) (by decide)
      (by decide) (by decide) ?_
    intro t e
    rw [List.cons_append] at e
    injection e with e1 e2
    exact hc34 e1

theorem keyline_ne_bar (qk : Bool) (k s : Str) : yamlKey qk k ++ 58 :: s ≠ [124] := by
  intro e
  have := congrArg List.length e
  rcases yamlKey_cases qk k with h | ⟨hq, hs, h⟩
  · rw [h] at this
    simp [escape] at this
  · rw [h] at this
    have hne := (yamlPlain_chars hs).1
    cases k with
    | nil => exact hne rfl
    | cons c k' => simp at this

theorem isSeqLine_keyline {qk : Bool} {k : Str} (hk : KeyOK qk k) (s : Str) :
    isSeqLine (yamlKey qk k ++ 58 :: s) = false := by
  rcases yamlKey_cases qk k with h | ⟨hq, hs, h⟩
  · rw [h]
    have e : escape k ++ 58 :: s = 34 :: ((escapeBody k ++ [34]) ++ 58 :: s) := rfl
    rw [e]; simp [isSeqLine]
  · rw [h]
    obtain ⟨⟨c, k', rfl, hc⟩, hall, h45, hcore⟩ := bare_key hk hq hs
    rw [List.cons_append]
    by_cases hc45 : c = 45
    · subst hc45
      cases k' with
      | nil => exact absurd rfl h45
      | cons c' k'' =>
        have hc' := hall c' (by simp)
        have : c' ≠ 32 := by intro e; rw [e] at hc'; revert hc'; decide
        rw [List.cons_append]
        simp [isSeqLine, this]
    · simp [isSeqLine, hc45]

theorem keyline_head (qk : Bool) (k s : Str) :
    ∃ c t, yamlKey qk k ++ 58 :: s = c :: t ∧ c ≠ 32 := by
  rcases yamlKey_cases qk k with h | ⟨hq, hs, h⟩
  · rw [h]
    exact ⟨34, (escapeBody k ++ [34]) ++ 58 :: s, rfl, by decide⟩
  · rw [h]
    have hp := yamlPlain_chars hs
    cases k with
    | nil => exact absurd rfl hp.1
    | cons c k' =>
      have hc := hp.2 c List.mem_cons_self
      exact ⟨c, k' ++ 58 :: s, rfl, by intro e; rw [e] at hc; revert hc; decide⟩

/-! ### shapes of values and of first lines -/

theorem countSp_ind (d : Nat) (c : Nat) (t : Str) (hc : c ≠ 32) : countSp (rep d indent ++ c :: t) = 2 * d := by
  rw [rep_indent, countSp_spaces _ _ _ hc]

theorem dropSp_ind (d : Nat) (c : Nat) (t : Str) (hc : c ≠ 32) : dropSp (rep d indent ++ c :: t) = c :: t := by
  rw [rep_indent, dropSp_spaces _ _ _ hc]

theorem spaces_ind (d : Nat) : spaces (2 * d + 2) = rep (d + 1) indent := by
  rw [rep_indent]; rfl

theorem readScalar_bar : readScalar [124] = none := rfl

/-- a value is written on one line as a flow scalar, or it is a non-empty
    collection, or a string that ends in a line feed (written as a `|` scalar) -/
theorem val_cases (v : JVal) (hv : ValOK v) :
    (∃ t, readScalar t = some v ∧
        ∀ (iaio qk : Bool) (d : Nat) (pA pO : Bool), valL iaio qk d pA pO v = [lead pA pO ++ t]) ∨
      (∃ x xs, v = .arr (x :: xs)) ∨ (∃ k x fs, v = .obj ((k, x) :: fs)) ∨
      (∃ s body, v = .str s ∧ stripSuffixNl s = some body) := by
  cases v with
  | null => exact Or.inl ⟨sNull, readScalar_null, fun _ _ _ _ _ => by rw [valL]⟩
  | bool b =>
    cases b
    · exact Or.inl ⟨sFalse, readScalar_false, fun _ _ _ _ _ => by rw [valL]⟩
    · exact Or.inl ⟨sTrue, readScalar_true, fun _ _ _ _ _ => by rw [valL]⟩
  | num t =>
    rw [ValOK] at hv
    exact Or.inl ⟨t, readScalar_num hv, fun _ _ _ _ _ => by rw [valL]⟩
  | str s =>
    cases hb : stripSuffixNl s with
    | none => exact Or.inl ⟨escape s, readScalar_str s, fun _ _ _ _ _ => by rw [valL, hb]⟩
    | some body => exact Or.inr (Or.inr (Or.inr ⟨s, body, rfl, hb⟩))
  | arr l =>
    cases l with
    | nil => exact Or.inl ⟨[91, 93], readScalar_arr, fun _ _ _ _ _ => by rw [valL]⟩
    | cons x xs => exact Or.inr (Or.inl ⟨x, xs, rfl⟩)
  | obj l =>
    cases l with
    | nil => exact Or.inl ⟨[123, 125], readScalar_obj, fun _ _ _ _ _ => by rw [valL]⟩
    | cons p fs => exact Or.inr (Or.inr (Or.inl ⟨p.1, p.2, fs, rfl⟩))

/-- the lines of a string that ends in a line feed -/
theorem valL_block {s body : Str} (h : stripSuffixNl s = some body) (iaio qk : Bool) (d : Nat) (pA pO : Bool) :
    valL iaio qk d pA pO (.str s)
      = (lead pA pO ++ [124]) ::
          (linesOf body).map (fun l => rep (if pA || pO then d else d + 1) indent ++ l) := by
  rw [valL, h]

theorem seqL_cons {iaio qk : Bool} {d : Nat} {x : JVal} {s : Str} {more : List Str} (xs : List JVal)
    (h : valL iaio qk (d + 1) true false x = s :: more) :
    seqL iaio qk d (x :: xs) = (rep d indent ++ 45 :: s) :: (more ++ seqL iaio qk d xs) := by
  rw [seqL, h, prependTo]
  simp

theorem fieldsL_cons {iaio qk : Bool} {d : Nat} {k : Str} {x : JVal} {s : Str} {more : List Str}
    (pre : Str) (fs : List (Str × JVal)) (h : valL iaio qk (d + 1) false true x = s :: more) :
    fieldsL iaio qk d pre ((k, x) :: fs)
      = (pre ++ (yamlKey qk k ++ 58 :: s)) :: (more ++ fieldsL iaio qk d (rep d indent) fs) := by
  rw [fieldsL, h, prependTo]
  simp

/-- what follows the `-` of a sequence entry: nothing, or a space -/
def AfterDash (s : Str) : Prop := s = [] ∨ ∃ t, s = 32 :: t

theorem isSeqLine_dash {s : Str} (h : AfterDash s) : isSeqLine (45 :: s) = true := by
  rcases h with rfl | ⟨t, rfl⟩ <;> simp [isSeqLine]

theorem readScalar_dashline {s : Str} (h : AfterDash s) : readScalar (45 :: s) = none := by
  rcases h with rfl | ⟨t, rfl⟩
  · exact readScalar_dash
  · exact readScalar_seqline t

theorem lead_item : lead true false = [32] := rfl
theorem lead_field : lead false true = [32] := rfl
theorem lead_top : lead false false = [] := rfl

theorem itemHead {iaio qk : Bool} {d : Nat} {x : JVal} {s : Str} {more : List Str}
    (h : valL iaio qk d true false x = s :: more) : AfterDash s := by
  have key : ∀ t : Str, [lead true false ++ t] = s :: more → AfterDash s := by
    intro t e
    injection e with e1 _
    exact Or.inr ⟨t, by rw [← e1]; rfl⟩
  cases x with
  | null => rw [valL] at h; exact key _ h
  | bool b => cases b <;> (rw [valL] at h; exact key _ h)
  | num t => rw [valL] at h; exact key _ h
  | str s' =>
    rw [valL] at h
    split at h
    · injection h with e1 _
      exact Or.inr ⟨[124], by rw [← e1]; rfl⟩
    · exact key _ h
  | arr l =>
    cases l with
    | nil => rw [valL] at h; exact key _ h
    | cons y ys =>
      rw [valL] at h
      simp only [Bool.true_or, if_true, List.singleton_append] at h
      injection h with e1 _
      exact Or.inl e1.symm
  | obj l =>
    cases l with
    | nil => rw [valL] at h; exact key _ h
    | cons p fs =>
      obtain ⟨k, y⟩ := p
      obtain ⟨s', more', hy⟩ := valL_ne_nil iaio qk (d + 1) false true y
      rw [valL] at h
      simp only [if_true] at h
      rw [fieldsL_cons _ _ hy] at h
      injection h with e1 _
      exact Or.inr ⟨_, by rw [← e1]; rfl⟩

end Rsj.Yaml
