import RsjProofs.EvalSafeObj
/-!
  C01 on the evaluator model: the helper functions of the evaluator keep every identifier in
  range whenever the recursive calls do; result kinds of `manifest` / `compare`.
-/
open Std.Do
set_option mvcgen.warning false
namespace Rsj.Eval.Safe
open Rsj.Core Rsj.Eval Rsj.Eval.Scope

theorem LayerRng.clone {nt ne : Nat} {l : Layer} (h : LayerRng nt ne l) : LayerRng nt ne (cloneLayer l) := by
  refine ⟨h.1, fun e he => by simp [cloneLayer] at he, h.2.2.1, h.2.2.2.1, ?_⟩
  intro f hf
  simp only [cloneLayer, List.mem_map] at hf
  obtain ⟨g, hg, rfl⟩ := hf
  have hgr := h.2.2.2.2 g hg
  refine ⟨hgr.1, ?_, hgr.2.2⟩
  intro t ht
  simp only [cloneField] at ht
  split at ht
  · cases ht
  · exact hgr.2.1 t ht

theorem layers_extendObject_rng {nt ne : Nat} {lhs rhs : Obj} {l : Layer}
    (hl : l ∈ (extendObject lhs rhs).layers)
    (h1 : ∀ l ∈ lhs.layers, LayerRng nt ne l) (h2 : ∀ l ∈ rhs.layers, LayerRng nt ne l) : LayerRng nt ne l := by
  simp only [extendObject, List.mem_map, List.mem_append] at hl
  obtain ⟨l0, hl0, rfl⟩ := hl
  rcases hl0 with h | h
  · exact (h2 l0 h).clone
  · exact (h1 l0 h).clone

theorem manifest_str {v : Value} {d : Nat} {c : Bool} {x : Value} (hk : ResKind (.manifest v d c) x)
    (hn : ∀ s : String, x = Value.str s → False) : False := by
  obtain ⟨str, rfl⟩ := hk; exact hn str rfl

theorem compare_num {a b : Value} {d : Nat} {x : Value} (hk : ResKind (.compare a b d) x)
    (hn : ∀ f : Float, x = Value.num f → False) : False := by
  obtain ⟨f, rfl⟩ := hk; exact hn f rfl

theorem equals_bool {a b : Value} {d : Nat} {x : Value} (hk : ResKind (.equals a b d) x)
    (hn : ∀ f : Bool, x = Value.bool f → False) : False := by
  obtain ⟨f, rfl⟩ := hk; exact hn f rfl

/-- the builtins that `builtinCall` serves -/
def OldBuiltin : Builtin → Prop
  | .length | .type_ | .trace | .objectHasEx | .objectFieldsEx | .map | .makeArray => True
  | _ => False

section
variable (cfg : Cfg) (rec : Task → M Value) (hrec : RecOk2 rec)
include hrec

theorem rec_spec2 (t : Task) (s : St) (hS : Safe s) (hT : TaskOk2 s t) :
    ⦃fun st => ⌜st = s⌝⦄ rec t
      ⦃Q2 s (fun v st => ValOk st.thunks.size st.objs.size st.funcs.size v ∧ ResKind t v)⦄ := hrec t s hS hT

/-- `recStr` is applied to `manifest` tasks only, which return strings -/
theorem recStr_spec2 (s : St) (v : Value) (d : Nat) (c : Bool) (hS : Safe s)
    (hv : ValOk s.thunks.size s.objs.size s.funcs.size v) :
    ⦃fun st => ⌜st = s⌝⦄ recStr rec (.manifest v d c) ⦃Q2 s (fun _ _ => True)⦄ := by
  have hr := rec_spec2 rec hrec
  qstart2
  unfold recStr
  mvcgen [hr]
  all_goals clear hr
  all_goals vcprep2
  all_goals first
    | s2close
    | (exfalso; exact manifest_str (by assumption) (by assumption))

theorem wantThunk_spec2 (s : St) (t : TId) (d : Nat) (hS : Safe s) (ht : t < s.thunks.size) :
    ⦃fun st => ⌜st = s⌝⦄ wantThunk cfg rec t d
      ⦃Q2 s (fun v st => ValOk st.thunks.size st.objs.size st.funcs.size v)⦄ := by
  have h1 := getThunk_spec2
  have h2 := checkDepth_spec2
  have hr := rec_spec2 rec hrec
  qstart2
  unfold wantThunk
  mvcgen [h1, h2, hr]
  all_goals clear h1 h2 hr
  all_goals vcprep2
  all_goals first
    | s2close

theorem coerceToString_spec2 (s : St) (v : Value) (d : Nat) (hS : Safe s)
    (hv : ValOk s.thunks.size s.objs.size s.funcs.size v) :
    ⦃fun st => ⌜st = s⌝⦄ coerceToString rec v d ⦃Q2 s (fun _ _ => True)⦄ := by
  have h1 := recStr_spec2 rec hrec
  qstart2
  unfold coerceToString
  mvcgen [h1]
  all_goals clear h1
  all_goals vcprep2
  all_goals first | s2close

theorem wantField_spec2 (s : St) (o : OId) (name : String) (d : Nat) (hS : Safe s) (ho : o < s.objs.size) :
    ⦃fun st => ⌜st = s⌝⦄ wantField cfg rec o name d
      ⦃Q2 s (fun v st => ValOk st.thunks.size st.objs.size st.funcs.size v)⦄ := by
  have h1 := getObj_spec2
  have h2 := checkDepth_spec2
  have h3 := fieldThunk_spec2
  have h4 := wantThunk_spec2 cfg rec hrec
  have hr := rec_spec2 rec hrec
  qstart2
  unfold wantField
  mvcgen [h1, h2, h3, h4, hr]
  all_goals clear h1 h2 h3 h4 hr
  all_goals vcprep2
  all_goals first | s2close

theorem wantSuperField_spec2 (s : St) (env : EId) (name : String) (d : Nat) (hS : Safe s) :
    ⦃fun st => ⌜st = s⌝⦄ wantSuperField cfg rec env name d
      ⦃Q2 s (fun v st => ValOk st.thunks.size st.objs.size st.funcs.size v)⦄ := by
  have h1 := getObj_spec2
  have h2 := getObjRef_spec2
  have h3 := fieldThunk_spec2
  have h4 := wantThunk_spec2 cfg rec hrec
  qstart2
  unfold wantSuperField
  mvcgen [h1, h2, h3, h4]
  all_goals clear h1 h2 h3 h4
  all_goals vcprep2
  all_goals first | s2close

theorem binaryOp_spec2 (s : St) (op : BinOp) (l r : Value) (d : Nat) (hs : Bool) (hS : Safe s)
    (hl : ValOk s.thunks.size s.objs.size s.funcs.size l) (hr' : ValOk s.thunks.size s.objs.size s.funcs.size r) :
    ⦃fun st => ⌜st = s⌝⦄ binaryOp cfg rec op l r d hs
      ⦃Q2 s (fun v st => ValOk st.thunks.size st.objs.size st.funcs.size v)⦄ := by
  have h1 := getObj_spec2
  have h2 := checkDepth_spec2
  have h3 := checkNum_spec2
  have h4 := safeInt_spec2
  have h5 := allocObj_spec2
  have h6 := coerceToString_spec2 rec hrec
  qstart2
  unfold binaryOp
  mvcgen [h1, h2, h3, h4, h5, h6]
  all_goals clear h1 h2 h3 h4 h5 h6
  all_goals vcprep2
  all_goals first
    | s2close
    | exact layers_extendObject_rng (by assumption) (hS.objs _ _ (by assumption)) (hS.objs _ _ (by assumption))

theorem sliceArg_spec2 (s : St) (env : EId) (d : Nat) (x : OptExpr) (hS : Safe s) (henv : env < s.envs.size)
    (hx : CoreShapedOpt x) :
    ⦃fun st => ⌜st = s⌝⦄ sliceArg rec env d x
      ⦃Q2 s (fun v st => ValOk st.thunks.size st.objs.size st.funcs.size v)⦄ := by
  have hr := rec_spec2 rec hrec
  qstart2
  cases x <;> (unfold sliceArg; mvcgen [hr]; all_goals clear hr; all_goals vcprep2)
  all_goals first | s2close | exact ⟨henv, hx⟩

theorem std_length_spec2 (s : St) (t : TId) (d1 : Nat) (hS : Safe s) (ht : t < s.thunks.size) :
    ⦃fun st => ⌜st = s⌝⦄ std_length rec t d1
      ⦃Q2 s (fun v st => ValOk st.thunks.size st.objs.size st.funcs.size v)⦄ := by
  have h1 := getObj_spec2
  have h2 := getFunc_spec2
  have hr := rec_spec2 rec hrec
  qstart2
  unfold std_length
  mvcgen [h1, h2, hr]
  all_goals clear h1 h2 hr
  all_goals vcprep2
  all_goals first | s2close

theorem std_type_spec2 (s : St) (t : TId) (d1 : Nat) (hS : Safe s) (ht : t < s.thunks.size) :
    ⦃fun st => ⌜st = s⌝⦄ std_type rec t d1
      ⦃Q2 s (fun v st => ValOk st.thunks.size st.objs.size st.funcs.size v)⦄ := by
  have hr := rec_spec2 rec hrec
  qstart2
  unfold std_type
  mvcgen [hr]
  all_goals clear hr
  all_goals vcprep2
  all_goals first | s2close

theorem std_trace_spec2 (s : St) (t0 t1 : TId) (d1 : Nat) (hS : Safe s) (h0 : t0 < s.thunks.size)
    (h1' : t1 < s.thunks.size) :
    ⦃fun st => ⌜st = s⌝⦄ std_trace rec t0 t1 d1
      ⦃Q2 s (fun v st => ValOk st.thunks.size st.objs.size st.funcs.size v)⦄ := by
  have h1 := pushTrace_spec2
  have hr := rec_spec2 rec hrec
  qstart2
  unfold std_trace
  mvcgen [h1, hr]
  all_goals clear h1 hr
  all_goals vcprep2
  all_goals first | s2close

theorem std_objectHasEx_spec2 (s : St) (t0 t1 t2 : TId) (d1 : Nat) (hS : Safe s) (h0 : t0 < s.thunks.size)
    (h1' : t1 < s.thunks.size) (h2' : t2 < s.thunks.size) :
    ⦃fun st => ⌜st = s⌝⦄ std_objectHasEx rec t0 t1 t2 d1
      ⦃Q2 s (fun v st => ValOk st.thunks.size st.objs.size st.funcs.size v)⦄ := by
  have h1 := getObj_spec2
  have hr := rec_spec2 rec hrec
  qstart2
  unfold std_objectHasEx
  mvcgen [h1, hr]
  all_goals clear h1 hr
  all_goals vcprep2
  all_goals first | s2close

theorem std_objectFieldsEx_spec2 (s : St) (t0 t1 : TId) (d1 : Nat) (hS : Safe s) (h0 : t0 < s.thunks.size)
    (h1' : t1 < s.thunks.size) :
    ⦃fun st => ⌜st = s⌝⦄ std_objectFieldsEx rec t0 t1 d1
      ⦃Q2 s (fun v st => ValOk st.thunks.size st.objs.size st.funcs.size v)⦄ := by
  have h1 := getObj_spec2
  have h2 := allocThunk_spec2
  have hr := rec_spec2 rec hrec
  qstart2
  unfold std_objectFieldsEx
  mvcgen [h1, h2, hr]
  assign_invs (outInv s ‹St›)
  all_goals clear h1 h2 hr
  all_goals vcprep2
  all_goals first | s2close

theorem std_map_spec2 (s : St) (t0 t1 : TId) (d1 : Nat) (hS : Safe s) (h0 : t0 < s.thunks.size)
    (h1' : t1 < s.thunks.size) :
    ⦃fun st => ⌜st = s⌝⦄ std_map rec t0 t1 d1
      ⦃Q2 s (fun v st => ValOk st.thunks.size st.objs.size st.funcs.size v)⦄ := by
  have h2 := allocThunk_spec2
  have hr := rec_spec2 rec hrec
  qstart2
  unfold std_map
  mvcgen [h2, hr]
  assign_invs (outInv s ‹St›)
  all_goals clear h2 hr
  all_goals vcprep2
  all_goals first | s2close

set_option maxRecDepth 4096 in
theorem std_makeArray_spec2 (s : St) (t0 t1 : TId) (d1 : Nat) (hS : Safe s) (h0 : t0 < s.thunks.size)
    (h1' : t1 < s.thunks.size) :
    ⦃fun st => ⌜st = s⌝⦄ std_makeArray rec t0 t1 d1
      ⦃Q2 s (fun v st => ValOk st.thunks.size st.objs.size st.funcs.size v)⦄ := by
  have h1 := getFunc_spec2
  have h2 := allocThunk_spec2
  have hr := rec_spec2 rec hrec
  qstart2
  unfold std_makeArray
  mvcgen [h1, h2, hr]
  assign_invs (outInv s ‹St›)
  all_goals clear h1 h2 hr
  all_goals vcprep2
  all_goals first | s2close

theorem builtinCall_spec2 (s : St) (b : Builtin) (ts : List TId) (d1 : Nat) (hS : Safe s)
    (hts : ∀ t ∈ ts, t < s.thunks.size) (har : ts.length = builtinArity b) (hb : OldBuiltin b) :
    ⦃fun st => ⌜st = s⌝⦄ builtinCall rec b ts d1
      ⦃Q2 s (fun v st => ValOk st.thunks.size st.objs.size st.funcs.size v)⦄ := by
  have g0 := std_length_spec2 rec hrec
  have g1 := std_type_spec2 rec hrec
  have g2 := std_trace_spec2 rec hrec
  have g3 := std_objectHasEx_spec2 rec hrec
  have g4 := std_objectFieldsEx_spec2 rec hrec
  have g5 := std_map_spec2 rec hrec
  have g6 := std_makeArray_spec2 rec hrec
  qstart2
  unfold builtinCall
  mvcgen [g0, g1, g2, g3, g4, g5, g6]
  all_goals clear g0 g1 g2 g3 g4 g5 g6
  all_goals vcprep2
  all_goals first
    | s2close
    | (exfalso
       rename_i b ts h1 h2 h3 h4 h5 h6 h7 _
       cases b <;> (try (simp only [OldBuiltin] at hb)) <;> simp only [builtinArity] at har <;>
       rcases ts with _ | ⟨a0, _ | ⟨a1, _ | ⟨a2, _ | ⟨a3, rest⟩⟩⟩⟩ <;> simp at har <;>
       first | exact h1 _ rfl rfl | exact h2 _ rfl rfl | exact h3 _ _ rfl rfl | exact h4 _ _ _ rfl rfl
             | exact h5 _ _ rfl rfl | exact h6 _ _ rfl rfl | exact h7 _ _ rfl rfl)

theorem compareLists_spec2 (s : St) (d : Nat) (xs ys : List TId) (hS : Safe s)
    (hx : ∀ t ∈ xs, t < s.thunks.size) (hy : ∀ t ∈ ys, t < s.thunks.size) :
    ⦃fun st => ⌜st = s⌝⦄ compareLists cfg rec d xs ys ⦃Q2 s (fun v _ => ∃ f, v = .num f)⦄ := by
  have h2 := checkDepth_spec2
  have hr := rec_spec2 rec hrec
  induction xs generalizing ys s with
  | nil =>
    qstart2
    cases ys <;> (unfold compareLists; mvcgen; all_goals vcprep2; all_goals first | s2close | exact ⟨by assumption, by s2close, _, rfl⟩)
  | cons x xs ih =>
    cases ys with
    | nil => qstart2; unfold compareLists; mvcgen; all_goals vcprep2; all_goals first | s2close | exact ⟨by assumption, by s2close, _, rfl⟩
    | cons y ys =>
      have ih' := fun s hS hx hy => ih s ys hS hx hy
      qstart2
      unfold compareLists
      mvcgen [h2, hr, ih']
      all_goals clear h2 hr ih' ih
      all_goals vcprep2
      all_goals first
        | s2close
        | (exfalso; exact compare_num (by assumption) (by assumption))
        | exact ⟨by assumption, by s2close, _, rfl⟩

end
end Rsj.Eval.Safe
