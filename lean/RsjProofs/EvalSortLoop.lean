/-
  C17 on the evaluator model, part 2: the two loops of the evaluator model's sort code that compare
  keys — the partition loop of `std_qsort` and the final (`uniq`) loop of `std_sortSet` — restated as
  `forIn` over explicit bodies (connecting equations by `rfl`), and their results under a
  comparison / equality *oracle*: `std_qsort` returns the pure quick sort `qsortFuel`
  (RsjProofs/EvalSortPure.lean) and leaves the store unchanged; the final loop returns the element
  thunks of the sorted order (`std.sort`) or of its `uniq` (`std.set`).
-/
import RsjProofs.EvalCompareExample
import RsjProofs.EvalSortPure
set_option linter.unusedVariables false
namespace Rsj.Eval.SortRef
open Rsj.Core Rsj.Eval Rsj.Eval.Cmp Rsj.Sort

/-- the cached key of the element of index `i` (`.null` stands for "not set") -/
def keyAt (keys : List Value) (i : Nat) : Value := (keys[i]?).getD .null

/-- the element thunk of index `i` -/
def itemAt (items : List TId) (i : Nat) : TId := (items[i]?).getD 0

theorem keyAt_lt {keys : List Value} {i : Nat} (h : i < keys.length) :
    keys[i]? = some (keyAt keys i) ∧ keyAt keys i ∈ keys := by
  unfold keyAt
  rw [List.getElem?_eq_getElem h]
  exact ⟨rfl, List.getElem_mem h⟩

theorem itemAt_lt {items : List TId} {i : Nat} (h : i < items.length) :
    items[i]? = some (itemAt items i) := by
  unfold itemAt
  rw [List.getElem?_eq_getElem h]
  rfl

/-- **The comparison oracle.**  In the store `st`, comparing two of the keys at depth `d1` answers a
    number whose sign test `c < 0` (the only thing `std_qsort` looks at) is `cmp a b = lt`, and
    leaves the store unchanged (up to the ghost depth counter, see `Ret`). -/
structure CmpOracle (rec : Task → M Value) (st : St) (d1 : Nat) (keys : List Value)
    (cmp : Value → Value → Ordering) : Prop where
  compare : ∀ a ∈ keys, ∀ b ∈ keys, ∃ c : Float,
    Ret (rec (.compare a b d1)) st (.ok (.num c)) ∧ decide (c < 0.0) = (cmp a b).isLT

/-- **The equality oracle** (`std.set`): `equals` on two keys answers `cmp a b = eq`. -/
structure EqOracle (rec : Task → M Value) (st : St) (d1 : Nat) (keys : List Value)
    (cmp : Value → Value → Ordering) : Prop where
  equals : ∀ a ∈ keys, ∀ b ∈ keys, Ret (rec (.equals a b d1)) st (.ok (.bool (cmp a b == .eq)))

/-- one iteration of the partition loop of `StdSortQuickSort1` -/
def partBody (rec : Task → M Value) (keys : List Value) (d1 : Nat) (kp : Value)
    (it : Nat) (s : List Nat × List Nat) : M (ForInStep (List Nat × List Nat)) := do
  let some ki := keys[it]? | throw (.internal "sort key not set")
  match ← rec (.compare ki kp d1) with
  | .num c => if c < 0.0 then pure (.yield (s.1 ++ [it], s.2)) else pure (.yield (s.1, s.2 ++ [it]))
  | _ => throw (.internal "compare did not return a number")

theorem std_qsort_cons2 (rec : Task → M Value) (keys : List Value) (d1 fuel : Nat) (pivot y : Nat)
    (rest : List Nat) :
    std_qsort rec keys d1 (fuel + 1) (pivot :: y :: rest) = (do
      let some kp := keys[pivot]? | throw (.internal "sort key not set")
      let r ← forIn (y :: rest) (([] : List Nat), ([] : List Nat)) (partBody rec keys d1 kp)
      let l ← std_qsort rec keys d1 fuel r.1
      let g ← std_qsort rec keys d1 fuel r.2
      pure (l ++ pivot :: g)) := by
  rw [std_qsort]
  · rfl
  · intro h; cases h

section
variable {rec : Task → M Value} {st : St} {d1 : Nat} {keys : List Value}
  {cmp : Value → Value → Ordering}

theorem partBody_ret (O : CmpOracle rec st d1 keys cmp) {kp : Value} (hp : kp ∈ keys) {it : Nat}
    (hi : it < keys.length) (s : List Nat × List Nat) :
    Ret (partBody rec keys d1 kp it s) st
      (.ok (.yield (if (cmp (keyAt keys it) kp).isLT then (s.1 ++ [it], s.2) else (s.1, s.2 ++ [it])))) := by
  obtain ⟨e, hm⟩ := keyAt_lt hi
  obtain ⟨c, hc, hs⟩ := O.compare _ hm _ hp
  unfold partBody
  simp only [e]
  refine Ret.bind_ok hc ?_
  simp only []
  by_cases hlt : c < 0.0
  · rw [if_pos hlt]
    have : (cmp (keyAt keys it) kp).isLT = true := by rw [← hs]; exact decide_eq_true hlt
    rw [this]
    exact Ret.pure _ _
  · rw [if_neg hlt]
    have : (cmp (keyAt keys it) kp).isLT = false := by rw [← hs]; exact decide_eq_false hlt
    rw [this]
    exact Ret.pure _ _

theorem partLoop_ret (O : CmpOracle rec st d1 keys cmp) {kp : Value} (hp : kp ∈ keys) :
    ∀ (rest lt ge : List Nat), (∀ i ∈ rest, i < keys.length) →
    Ret (forIn rest (lt, ge) (partBody rec keys d1 kp)) st
      (.ok (lt ++ rest.filter (fun it => (cmp (keyAt keys it) kp).isLT),
            ge ++ rest.filter (fun it => !(cmp (keyAt keys it) kp).isLT))) := by
  intro rest
  induction rest with
  | nil => intro lt ge _; simp only [List.forIn_nil, List.filter_nil, List.append_nil]; exact Ret.pure _ _
  | cons it rest ih =>
    intro lt ge h
    rw [List.forIn_cons]
    refine Ret.bind_ok (partBody_ret O hp (h it List.mem_cons_self) (lt, ge)) ?_
    have ih' := fun lt ge => ih lt ge (fun i hi => h i (List.mem_cons_of_mem _ hi))
    by_cases hlt : (cmp (keyAt keys it) kp).isLT = true
    · simp only [hlt, if_true, List.filter_cons_of_pos, Bool.not_true, Bool.false_eq_true,
        not_false_eq_true, List.filter_cons_of_neg]
      have := ih' (lt ++ [it]) ge
      rw [List.append_assoc] at this
      exact this
    · have hlt' : (cmp (keyAt keys it) kp).isLT = false := Bool.eq_false_iff.mpr hlt
      simp only [hlt', Bool.false_eq_true, if_false, not_false_eq_true, List.filter_cons_of_neg,
        Bool.not_false, List.filter_cons_of_pos]
      have := ih' lt (ge ++ [it])
      rw [List.append_assoc] at this
      exact this

/-- **`std_qsort` refines `qsortFuel`**: with a comparison oracle, on indices in range and with
    fuel `≥ length - 1`, the result is the pure quick sort and the store is unchanged. -/
theorem std_qsort_ret (O : CmpOracle rec st d1 keys cmp) : ∀ (fuel : Nat) (xs : List Nat),
    xs.length ≤ fuel + 1 → (∀ i ∈ xs, i < keys.length) →
    Ret (std_qsort rec keys d1 fuel xs) st (.ok (qsortFuel cmp (keyAt keys) fuel xs)) := by
  intro fuel
  induction fuel with
  | zero => intro xs _ _; rw [std_qsort]; exact Ret.pure _ _
  | succ fuel ih =>
    intro xs hl hx
    match xs, hl, hx with
    | [], _, _ => rw [std_qsort]; exact Ret.pure _ _
    | [x], _, _ => rw [std_qsort, qsortFuel_single]; exact Ret.pure _ _
    | pivot :: y :: rest', hl, hx =>
      rw [std_qsort_cons2]
      obtain ⟨e, hm⟩ := keyAt_lt (hx pivot List.mem_cons_self)
      simp only [e]
      generalize y :: rest' = rest at hl hx ⊢
      have hrest : ∀ i ∈ rest, i < keys.length := fun i hi => hx i (List.mem_cons_of_mem _ hi)
      have hrl : rest.length ≤ fuel + 1 := by simp only [List.length_cons] at hl; omega
      refine Ret.bind_ok (partLoop_ret O hm rest [] [] hrest) ?_
      simp only [List.nil_append]
      refine Ret.bind_ok (ih _ (Nat.le_trans (List.length_filter_le ..) hrl)
        (fun i hi => hrest i (List.mem_filter.mp hi).1)) ?_
      refine Ret.bind_ok (ih _ (Nat.le_trans (List.length_filter_le ..) hrl)
        (fun i hi => hrest i (List.mem_filter.mp hi).1)) ?_
      exact Ret.pure _ _

end

/-! ### the final loop of `std_sortSet` -/

/-- one iteration of the final loop of `std_sortSet` -/
def uniqBody (rec : Task → M Value) (uniq : Bool) (items : List TId) (keys : List Value) (d1 : Nat)
    (i : Nat) (s : List TId × Option Value) : M (ForInStep (List TId × Option Value)) := do
  let some t := items[i]? | throw (.internal "sorted index out of range")
  let some k := keys[i]? | throw (.internal "sort key not set")
  let keep ← match (if uniq then s.2 else none) with
    | some pk => do
      match ← rec (.equals pk k d1) with
      | .bool true => pure false
      | _ => pure true
    | none => pure true
  if keep then pure (.yield (s.1 ++ [t], some k)) else pure (.yield (s.1, some k))

section
variable {rec : Task → M Value} {st : St} {d1 : Nat} {keys : List Value} {items : List TId}
  {cmp : Value → Value → Ordering}

/-- an iteration that keeps the element: `std.sort`, or the first element of `std.set` -/
theorem uniqBody_ret_keep {uniq : Bool} {i : Nat} (hi : i < items.length) (hk : i < keys.length)
    (out : List TId) (prev : Option Value) (h : uniq = false ∨ prev = none) :
    Ret (uniqBody rec uniq items keys d1 i (out, prev)) st
      (.ok (.yield (out ++ [itemAt items i], some (keyAt keys i)))) := by
  unfold uniqBody
  simp only [itemAt_lt hi, (keyAt_lt hk).1]
  have : (if uniq = true then prev else none) = none := by
    rcases h with h | h
    · rw [h]; rfl
    · rw [h]; simp
  rw [this]
  simp only [pure_bind, if_true]
  exact Ret.pure _ _

/-- an iteration of `std.set` with a previous key -/
theorem uniqBody_ret_some (E : EqOracle rec st d1 keys cmp) {i : Nat} (hi : i < items.length)
    (hk : i < keys.length) (out : List TId) {pk : Value} (hpk : pk ∈ keys) :
    Ret (uniqBody rec true items keys d1 i (out, some pk)) st
      (.ok (.yield (if (cmp pk (keyAt keys i) == .eq) then out else out ++ [itemAt items i],
        some (keyAt keys i)))) := by
  unfold uniqBody
  simp only [itemAt_lt hi, (keyAt_lt hk).1, if_true]
  have hE := E.equals pk hpk (keyAt keys i) (keyAt_lt hk).2
  rcases Bool.eq_false_or_eq_true (cmp pk (keyAt keys i) == .eq) with hb | hb
  · rw [hb] at hE ⊢
    refine Ret.bind_ok hE ?_
    simp only [pure_bind, if_true, Bool.false_eq_true, if_false]
    exact Ret.pure _ _
  · rw [hb] at hE ⊢
    refine Ret.bind_ok hE ?_
    simp only [pure_bind, if_true, Bool.false_eq_true, if_false]
    exact Ret.pure _ _

/-- the final loop of `std.sort`: every element, in the sorted order -/
theorem uniqLoop_ret_sort : ∀ (order : List Nat) (out : List TId) (prev : Option Value),
    (∀ i ∈ order, i < items.length ∧ i < keys.length) →
    ∃ p, Ret (forIn order (out, prev) (uniqBody rec false items keys d1)) st
      (.ok (out ++ order.map (itemAt items), p)) := by
  intro order
  induction order with
  | nil => intro out prev _; exact ⟨prev, by simp only [List.forIn_nil, List.map_nil, List.append_nil]; exact Ret.pure _ _⟩
  | cons i order ih =>
    intro out prev h
    obtain ⟨hi, hk⟩ := h i List.mem_cons_self
    obtain ⟨p, hp⟩ := ih (out ++ [itemAt items i]) (some (keyAt keys i))
      (fun j hj => h j (List.mem_cons_of_mem _ hj))
    refine ⟨p, ?_⟩
    rw [List.forIn_cons]
    refine Ret.bind_ok (uniqBody_ret_keep hi hk out prev (.inl rfl)) ?_
    rw [List.append_assoc] at hp
    exact hp

/-- the final loop of `std.set`, from a state with a previous key -/
theorem uniqLoop_ret_set (E : EqOracle rec st d1 keys cmp) : ∀ (order : List Nat) (out : List TId)
    (prev : Option Value), (∀ pk, prev = some pk → pk ∈ keys) →
    (∀ i ∈ order, i < items.length ∧ i < keys.length) →
    ∃ p, Ret (forIn order (out, prev) (uniqBody rec true items keys d1)) st
      (.ok (out ++ (uniqFrom (fun a b => cmp a b == .eq) (keyAt keys) prev order).map (itemAt items), p)) := by
  intro order
  induction order with
  | nil =>
    intro out prev _ _
    refine ⟨prev, ?_⟩
    cases prev <;> (simp only [List.forIn_nil, uniqFrom, List.map_nil, List.append_nil]; exact Ret.pure _ _)
  | cons i order ih =>
    intro out prev hprev h
    obtain ⟨hi, hk⟩ := h i List.mem_cons_self
    have ih' := fun out => ih out (some (keyAt keys i))
      (fun pk e => by cases e; exact (keyAt_lt hk).2) (fun j hj => h j (List.mem_cons_of_mem _ hj))
    rw [List.forIn_cons]
    cases prev with
    | none =>
      obtain ⟨p, hp⟩ := ih' (out ++ [itemAt items i])
      refine ⟨p, Ret.bind_ok (uniqBody_ret_keep hi hk out none (.inr rfl)) ?_⟩
      simp only [uniqFrom]
      rw [List.append_assoc] at hp
      exact hp
    | some pk =>
      have hb := uniqBody_ret_some (items := items) E hi hk out (hprev pk rfl)
      simp only [uniqFrom]
      rcases Bool.eq_false_or_eq_true (cmp pk (keyAt keys i) == .eq) with hc | hc
      · rw [hc] at hb
        simp only [hc, if_true]
        obtain ⟨p, hp⟩ := ih' out
        exact ⟨p, Ret.bind_ok hb hp⟩
      · rw [hc] at hb
        simp only [hc, Bool.false_eq_true, if_false]
        obtain ⟨p, hp⟩ := ih' (out ++ [itemAt items i])
        refine ⟨p, Ret.bind_ok hb ?_⟩
        rw [List.append_assoc] at hp
        exact hp

end

end Rsj.Eval.SortRef
