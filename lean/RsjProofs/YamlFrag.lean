/-
  Side conditions of the YAML round trip (`RsjProofs/YamlRoundtrip.lean`).
-/
import RsjProofs.YamlLines
namespace Rsj.Yaml
open Rsj.Json

mutual
/-- no string VALUE ends in a line feed, i.e. no `|` block scalar is written
    (the property's quantifier; keys are always quoted or plain) -/
def NoBlock : JVal → Prop
  | .str s => stripSuffixNl s = none
  | .arr xs => NoBlockL xs
  | .obj fs => NoBlockF fs
  | _ => True
def NoBlockL : List JVal → Prop
  | [] => True
  | x :: xs => NoBlock x ∧ NoBlockL xs
def NoBlockF : List (Str × JVal) → Prop
  | [] => True
  | (_, x) :: xs => NoBlock x ∧ NoBlockF xs
end

/-- a key that is written bare is one the YAML 1.2 core schema resolves to a
    string (`coreNonString`: RsjProofs/JsonKeys.lean; false e.g. for `1e3`, `0o17`,
    see `C05_yaml_plain_not_resolvable_full_fails`) -/
def KeyOK (qk : Bool) (k : Str) : Prop :=
  qk = true ∨ isSafeYamlPlain k = false ∨ coreNonString k = false

mutual
/-- every key of every object is `KeyOK` -/
def KeysOK (qk : Bool) : JVal → Prop
  | .arr xs => KeysOKL qk xs
  | .obj fs => KeysOKF qk fs
  | _ => True
def KeysOKL (qk : Bool) : List JVal → Prop
  | [] => True
  | x :: xs => KeysOK qk x ∧ KeysOKL qk xs
def KeysOKF (qk : Bool) : List (Str × JVal) → Prop
  | [] => True
  | (k, x) :: xs => KeyOK qk k ∧ KeysOK qk x ∧ KeysOKF qk xs
end

mutual
/-- with `quote_keys = true` every key is quoted -/
theorem keysOK_true : (v : JVal) → KeysOK true v
  | .null => trivial
  | .bool _ => trivial
  | .num _ => trivial
  | .str _ => trivial
  | .arr xs => by rw [KeysOK]; exact keysOKL_true xs
  | .obj fs => by rw [KeysOK]; exact keysOKF_true fs
theorem keysOKL_true : (xs : List JVal) → KeysOKL true xs
  | [] => trivial
  | x :: xs => by rw [KeysOKL]; exact ⟨keysOK_true x, keysOKL_true xs⟩
theorem keysOKF_true : (fs : List (Str × JVal)) → KeysOKF true fs
  | [] => trivial
  | (k, x) :: xs => by rw [KeysOKF]; exact ⟨Or.inl rfl, keysOK_true x, keysOKF_true xs⟩
end

end Rsj.Yaml
