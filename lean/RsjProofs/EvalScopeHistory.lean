import RsjProofs.EvalScopeRun
/-!
  C09, run-time half: the store a history starts from (`runHistory`: the root environment with `std`
  and the library variables, one suspended thunk per library and per source) is well scoped.
-/
open Std.Do
set_option mvcgen.warning false
namespace Rsj.Eval.Scope
open Rsj.Core Rsj.Eval Rsj.Analyze

/-- the initialisation of `runHistory` -/
def historyInit (libs : List (String × Expr)) (srcs : List Expr) : M (List TId) := do
  let stdT ← allocThunk (.done .null)
  let root ← allocEnv { parent := none, vars := [("std", stdT)], obj := none }
  let mut vars : List (String × TId) := [("std", stdT)]
  for (n, e) in libs do
    vars := vars ++ [(n, ← allocThunk (.pending (.expr e root)))]
  setEnv root { parent := none, vars := vars, obj := none }
  let mut ts : List TId := []
  for e in srcs do
    ts := ts ++ [← allocThunk (.pending (.expr e root))]
  pure ts

theorem runHistory_eq (maxStack fuel : Nat) (libs : List (String × Expr)) (srcs : List Expr) (reqs : List Req) :
    runHistory maxStack fuel libs srcs reqs =
      match ((historyInit libs srcs).run).run {} with
      | some (.ok ts, st0) => runHistory.go fuel ts reqs maxStack st0 []
      | _ => ["init-failed"] := by
  unfold runHistory historyInit
  rfl

/-- the static view of the root environment of a history: `std` and the library variables -/
def historyEnv (libs : List (String × Expr)) : AEnv := { isObj := false, vars := "std" :: libs.map Prod.fst }

theorem allocThunk_exact (s : St) (x : TState) :
    ⦃fun st => ⌜st = s⌝⦄ allocThunk x
      ⦃(⟨fun r st => ⌜st = { s with thunks := s.thunks.push x, runs := s.runs.push 0 } ∧ r = s.thunks.size⌝,
         fun _ _ => ⌜False⌝, fun _ => ⌜True⌝, ()⟩ : PostCond TId PS)⦄ := by
  unfold allocThunk; mvcgen
  all_goals vcprep
  all_goals exact ⟨rfl, rfl⟩

/-- a thunk suspended in the environment under construction -/
theorem allocThunk_ext (h : EId) (PL : Expr → Prop) (s : St) (e : Expr) (he : PL e) :
    ⦃fun st => ⌜st = s⌝⦄ allocThunk (.pending (.expr e h)) ⦃Qx h PL s (fun _ => True)⦄ := by
  unfold allocThunk; mvcgen
  vcprep
  exact ⟨Ext.pushThunk h PL _ _ (.inr ⟨e, he, rfl⟩), trivial⟩

/-- filling the root environment of a history -/
theorem history_close {s1 st : St} {libs : List (String × Expr)} {vars : List (String × TId)} {stdT : TId}
    (hI1 : Inv s1)
    (hext : Ext s1.envs.size (fun e => WS e (historyEnv libs))
      { s1 with envs := s1.envs.push { parent := none, vars := [("std", stdT)], obj := none } } st)
    (hvars : vars.map Prod.fst = "std" :: libs.map Prod.fst) :
    S s1 { st with envs := st.envs.setIfInBounds s1.envs.size { parent := none, vars := vars, obj := none } } ∧
    Inv { st with envs := st.envs.setIfInBounds s1.envs.size { parent := none, vars := vars, obj := none } } ∧
    EnvOk (st.envs.setIfInBounds s1.envs.size { parent := none, vars := vars, obj := none }) s1.envs.size
      (historyEnv libs) := by
  have hk : EnvOk (st.envs.setIfInBounds s1.envs.size { parent := none, vars := vars, obj := none }) s1.envs.size
      (historyEnv libs) := by
    refine ⟨lt_size_of_getElem? (block_getElem hext), fun ho => by simp [historyEnv] at ho, ?_⟩
    intro n hn
    refine .here (block_getElem hext) ?_
    rw [hvars]
    simpa [historyEnv, AEnv.has] using hn
  obtain ⟨h1, h2⟩ := close_block (fin := { parent := none, vars := vars, obj := none }) hext
    (by intro n hn; rw [hvars]; simp at hn; simp [hn]) (.inl rfl) (fun h => by cases h) hI1
    (by intro p hp; cases hp) (fun e he => he) hk
  exact ⟨h1, h2, hk⟩

theorem history_close' {s st : St} {libs : List (String × Expr)} {vars : List (String × TId)} (hI : Inv s)
    (hext : Ext s.envs.size (fun e => WS e (historyEnv libs))
      { thunks := s.thunks.push (.done .null),
        envs := s.envs.push { parent := none, vars := [("std", s.thunks.size)], obj := none },
        objs := s.objs, funcs := s.funcs, traces := s.traces, runs := s.runs.push 0, deepest := s.deepest,
        tripped := s.tripped } st)
    (hvars : vars.map Prod.fst = "std" :: libs.map Prod.fst) :
    Inv { st with envs := st.envs.setIfInBounds s.envs.size { parent := none, vars := vars, obj := none } } ∧
    S s { st with envs := st.envs.setIfInBounds s.envs.size { parent := none, vars := vars, obj := none } } ∧
    EnvOk (st.envs.setIfInBounds s.envs.size { parent := none, vars := vars, obj := none }) s.envs.size
      (historyEnv libs) := by
  obtain ⟨k1, k2, k3⟩ := history_close
    (s1 := { s with thunks := s.thunks.push (.done .null), runs := s.runs.push 0 })
    (hI.pushThunk (x := .done .null) trivial) hext hvars
  have h0 : S s { s with thunks := s.thunks.push (.done .null), runs := s.runs.push 0 } := S.of_eq rfl rfl rfl
  exact ⟨k2, h0.trans k1, k3⟩

/-- the store a history starts from is well scoped when the libraries and the sources are well scoped
    in the root view (`std` and the library variables) -/
theorem historyInit_spec (libs : List (String × Expr)) (srcs : List Expr) (s : St) (hI : Inv s)
    (hl : ∀ p ∈ libs, WS p.2 (historyEnv libs)) (hs : ∀ e ∈ srcs, WS e (historyEnv libs)) :
    ⦃fun st => ⌜st = s⌝⦄ historyInit libs srcs ⦃Q s (fun _ _ => True)⦄ := by
  have h1 := allocThunk_exact
  have h2 := allocEnv_exact
  have h3 := allocThunk_ext s.envs.size (fun e => WS e (historyEnv libs))
  have h4 := setEnv_exact
  have h5 := allocThunk_spec
  qstart
  unfold historyInit
  mvcgen [h1, h2, h3, h4, h5]
  case inv1 =>
    exact ⟨fun (cur, vars) st => ⌜Ext s.envs.size (fun e => WS e (historyEnv libs))
        { ({ s with thunks := s.thunks.push (.done .null), runs := s.runs.push 0 } : St) with
          envs := s.envs.push { parent := none, vars := [("std", s.thunks.size)], obj := none } } st ∧
        vars.map Prod.fst = "std" :: cur.prefix.map Prod.fst⌝,
      fun e _ => ⌜Good e ∧ ¬ NonPanic e⌝, fun _ => ⌜True⌝, ()⟩
  case inv2 =>
    exact ⟨fun (cur, ts) st => ⌜Inv st ∧ S s st ∧ EnvOk st.envs s.envs.size (historyEnv libs)⌝,
      fun e st => ⌜(NonPanic e → Inv st) ∧ Good e⌝, fun _ => ⌜True⌝, ()⟩
  all_goals clear h1 h2 h3 h4 h5
  all_goals vcprep
  all_goals first
    | eclose
    | exact ⟨Ext.trans (by assumption) (Ext.pushThunk _ _ _ _ (.inr ⟨_, hl _ (by simp), rfl⟩)), by (simp [*]; fin)⟩
    | exact ⟨Ext.refl _ _ _, by (simp; fin)⟩
    | exact ⟨Inv.pushThunk (by assumption) ⟨_, by assumption, hs _ (by simp)⟩,
        S.trans (by assumption) (S.of_eq rfl rfl rfl), by assumption⟩
    | (econds; sclose)
    | skip
  · refine ⟨?_, ?_, by assumption⟩
    · apply Inv.pushThunk
      · assumption
      · exact ⟨_, by assumption, hs _ (by simp)⟩
    · apply S.trans
      · assumption
      · exact S.of_eq rfl rfl rfl
  · exact history_close' hI (by assumption) (by assumption)

end Rsj.Eval.Scope
