/-
  C15: the parser model never faults, part 3: `parse_expr` with the model's fuel, `parse_root_expr`,
  and `Parser::new(tokens).parse_root_expr()` — in particular the fuel `50 · tokens + 100` of
  `Rsj.Parser.parse` always suffices.
-/
import RsjProofs.ParserNoFault2
namespace Rsj.Parser
variable {toks : List Token}

/-- **`parse_expr` never faults** given 50 units of fuel per remaining token (the current one
    included), and it consumes at least one token. -/
theorem nf_parseExprF (hE : EofLast toks) : ∀ (F : Nat) (st : PState toks), 50 * (st.rem.length + 1) ≤ F →
    NF (parseExprF F st) (fun _ st' => st'.rem.length < st.rem.length) := by
  intro F
  induction F with
  | zero => intro st h; omega
  | succ F ih =>
    intro st hF
    unfold parseExprF
    have hpe : PeNF (parseExprF (toks := toks) F) st.rem.length := by
      intro st' hlt
      exact ih st' (by omega)
    refine nf_exprLoop hE hpe st.rem.length F [] initState st ?_ (Nat.le_refl _) (Nat.le_refl _) ?_
    · rw [stateW_init]; simp only [stackW]; omega
    · intro h; cases h

theorem eatEof_nf (hE : EofLast toks) (st : PState toks) :
    ∃ b st', eatEof true st = .ok (b, st') := by
  unfold eatEof
  split
  · next hk =>
    have hr : st.rem = [] := (rem_nil_iff hE st).2 hk
    have : st.rem.isEmpty = true := by rw [hr]; rfl
    rw [if_pos this]
    exact ⟨true, _, rfl⟩
  · exact ⟨false, _, rfl⟩

/-- `parse_root_expr`: a tree or a syntax error -/
theorem parseRootF_nf (hE : EofLast toks) (F : Nat) (st : PState toks) (hF : 50 * (st.rem.length + 1) ≤ F) :
    (∃ e, parseRootF F st = .ok e) ∨ (∃ s, parseRootF F st = .error (.expected s)) := by
  unfold parseRootF
  rcases (nf_parseExprF hE F st hF).cases with ⟨e, st1, h1, _⟩ | ⟨s, h1⟩
  · rw [h1]
    simp only [bind, Except.bind]
    obtain ⟨b, st2, h2⟩ := eatEof_nf hE st1
    rw [h2]
    cases b with
    | true => exact Or.inl ⟨e, rfl⟩
    | false => exact Or.inr ⟨st2, rfl⟩
  · rw [h1]
    exact Or.inr ⟨s, rfl⟩

/-- **The parser never faults** on a token list that ends in its only end-of-file token: the
    result is a tree or `ParseError::Expected`. -/
theorem parse_nf {toks : List Token} (hE : EofLast toks) :
    (∃ e, parse toks = .ok e) ∨ (∃ sp ex act, parse toks = .expected sp ex act) := by
  unfold parse parseWithFuel
  split
  · obtain ⟨body, eof, hb, _, _⟩ := hE
    simp at hb
  · next t r =>
    dsimp only
    have hF : 50 * (({ cur := t, rem := r, expected := [], suffix := List.suffix_refl _ } :
        PState (t :: r)).rem.length + 1) ≤ fuelFor (t :: r) := by
      unfold fuelFor; simp <;> omega
    rcases parseRootF_nf hE _ _ hF with ⟨e, h1⟩ | ⟨s, h1⟩
    · rw [h1]; exact Or.inl ⟨e, rfl⟩
    · rw [h1]; exact Or.inr ⟨_, _, _, rfl⟩

theorem parse_ne_fault {toks : List Token} (hE : EofLast toks) (f : Fault) : parse toks ≠ .fault f := by
  rcases parse_nf hE with ⟨e, h⟩ | ⟨sp, ex, act, h⟩ <;> rw [h] <;> intro h' <;> cases h'

/-- spans ordered from position `p` on: every token is non-inverted and starts at or after the end
    of its predecessor (`p` for the first) -/
def OrdFrom : Nat → List Token → Prop
  | _, [] => True
  | p, t :: r => p ≤ t.span.start ∧ t.span.start ≤ t.span.stop ∧ OrdFrom t.span.stop r

theorem OrdFrom.mono {p q : Nat} (h : p ≤ q) : ∀ {l : List Token}, OrdFrom q l → OrdFrom p l
  | [], _ => trivial
  | _ :: _, ho => ⟨Nat.le_trans h ho.1, ho.2.1, ho.2.2⟩

theorem OrdFrom.spansOrdered : ∀ {p : Nat} {l : List Token}, OrdFrom p l → spansOrdered l = true
  | _, [], _ => rfl
  | _, [t], h => by simpa [Parser.spansOrdered] using h.2.1
  | _, t :: u :: rest, h => by
    have ih := OrdFrom.spansOrdered h.2.2
    simp only [Parser.spansOrdered, Bool.and_eq_true, decide_eq_true_eq]
    exact ⟨⟨h.2.1, h.2.2.1⟩, ih⟩

/-- **What the lexer guarantees of a token list**: it ends in its only end-of-file token, and the
    spans are ordered (non-inverted, non-overlapping). -/
structure TokensOk (toks : List Token) : Prop where
  eofLast : EofLast toks
  ordered : spansOrdered toks = true

end Rsj.Parser
