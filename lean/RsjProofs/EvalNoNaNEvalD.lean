import RsjProofs.EvalNoNaNTasks
/-!
  "partial_cmp of NaN": `step` on the evaluation of an expression, the simple cases.
-/
open Std.Do
set_option mvcgen.warning false
namespace Rsj.Eval.NoNaN
open Rsj.Core Rsj.Eval Rsj.Eval.Scope

/-- the unary operator on the evaluated operand -/
def unaryOp (op : UnOp) (av : Value) : M Value :=
  match op, av with
  | .minus, .num f => pure (.num (-f))
  | .plus, .num f => pure (.num f)
  | .bnot, .num f => do
    let i ← safeInt f
    pure (.num (intToFloat (-i - 1)))
  | .lnot, .bool b => pure (.bool (!b))
  | op, v => throw (.rt "InvalidUnaryOpType" s!"{reprStr op}/{typeName v}")

theorem step_unary_eq (cfg : Cfg) (rec : Task → M Value) (op : UnOp) (a : Expr) (env : EId) (tail : Bool) (d : Nat) :
    step cfg rec (.eval (.unary op a) env tail d) = (do
      let av ← rec (.eval a env false d)
      unaryOp op av) := by
  unfold step unaryOp
  rfl

theorem pure_nn {α} (v : α) (p : α → Prop) (h : p v) :
    ⦃fun st => ⌜NN st⌝⦄ (pure v : M α) ⦃Q3 p⦄ := by
  mvcgen
  all_goals vcp
  all_goals exact ⟨by assumption, h⟩

theorem throw_nn {α} (e : Err) (p : α → Prop) (h : Good3 e) :
    ⦃fun st => ⌜NN st⌝⦄ (throw e : M α) ⦃Q3 p⦄ := by
  mvcgen
  all_goals vcp
  all_goals exact h

theorem bnot_nn (F : FloatNaNFacts) (f : Float) :
    ⦃fun st => ⌜NN st⌝⦄ (safeInt f >>= fun i => pure (Value.num (intToFloat (-i - 1))) : M Value) ⦃Q3 VNN⦄ := by
  mvcgen
  all_goals vcp
  all_goals first
    | assumption
    | exact ⟨by assumption, intToFloat_nn F _⟩
    | exact True.intro
    | (simp only [Good3]; done)
    | exact ExceptConds.entails.refl _

set_option maxHeartbeats 1000000 in
theorem unaryOp_nn (F : FloatNaNFacts) (op : UnOp) (av : Value) (hv : VNN av) :
    ⦃fun st => ⌜NN st⌝⦄ unaryOp op av ⦃Q3 VNN⦄ := by
  cases op with
  | minus =>
    cases av with
    | num f => exact pure_nn _ _ (F.neg _ hv)
    | _ => exact throw_nn _ _ True.intro
  | plus =>
    cases av with
    | num f => exact pure_nn _ _ hv
    | _ => exact throw_nn _ _ True.intro
  | bnot =>
    cases av with
    | num f => exact bnot_nn F f
    | _ => exact throw_nn _ _ True.intro
  | lnot =>
    cases av with
    | bool b => exact pure_nn _ _ True.intro
    | _ => exact throw_nn _ _ True.intro

section
variable (F : FloatNaNFacts) (hp : PureNaNFree) (cfg : Cfg) (rec : Task → M Value) (hrec : RecOk3 rec)
include F hp hrec

theorem eval_unary_nn (op : UnOp) (a : Expr) (env : EId) (tail : Bool) (d : Nat) :
    ⦃fun st => ⌜NN st⌝⦄ step cfg rec (.eval (.unary op a) env tail d) ⦃Q3 VNN⦄ := by
  have hr := rec_nn F rec hrec
  have h1 := unaryOp_nn F
  rw [step_unary_eq]
  mvcgen [hr, h1]
  all_goals (try clear hr h1)
  all_goals vcp
  all_goals oclose

end
end Rsj.Eval.NoNaN
