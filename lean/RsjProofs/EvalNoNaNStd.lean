import RsjProofs.EvalNoNaNOps
/-!
  "partial_cmp of NaN": the builtins with their own evaluation order keep the store NaN-free and
  return NaN-free values.
-/
open Std.Do
set_option mvcgen.warning false
namespace Rsj.Eval.NoNaN
open Rsj.Core Rsj.Eval Rsj.Eval.Scope

theorem vals_snoc {vs : List Value} {v : Value} (h : ∀ k ∈ vs, VNN k) (hv : VNN v) : ∀ k ∈ vs ++ [v], VNN k := by
  intro k hk
  simp only [List.mem_append, List.mem_singleton] at hk
  rcases hk with hk | rfl
  · exact h k hk
  · exact hv

section
variable (F : FloatNaNFacts) (cfg : Cfg) (rec : Task → M Value) (hrec : RecOk3 rec)
include F hrec

@[spec] theorem std_bindCall_nn (f : FId) (args : List TId) :
    ⦃fun st => ⌜NN st⌝⦄ std_bindCall f args ⦃Q3 (fun _ => True)⦄ := by
  unfold std_bindCall; nnauto

set_option hygiene false in
macro "nnb" : tactic => `(tactic|
  (have hr := rec_nn F rec hrec
   mvcgen [hr]
   on_invs first
     | exact inv3 (σ := Value) VNN
     | exact inv3 (σ := List Value) (fun ks => ∀ k ∈ ks, VNN k)
     | exact inv3 (σ := Option Value × Unit) (fun r => ∀ v, r.1 = some v → VNN v)
     | exact inv3 (σ := Option Value × Bool) (fun r => ∀ v, r.1 = some v → VNN v)
     | exact inv3 (fun _ => True)
   all_goals (try clear hr)
   all_goals vcp
   all_goals first
     | oclose
     | exact ⟨by assumption, F.ofNat _⟩
     | exact ⟨by assumption, F.ofScientific _ _ _⟩
     | exact ⟨by assumption, intToFloat_nn F _⟩
     | exact F.ofNat _
     | exact intToFloat_nn F _
     | exact ⟨by assumption, vals_snoc (by assumption) (by assumption)⟩
     | exact ⟨by assumption, fun _ h => by cases h⟩
     | (refine ⟨by assumption, ?_⟩; intro v hv; cases hv; trivial)
     | (refine ⟨by assumption, ?_⟩; intro v hv; simp at hv)
     | (refine ⟨by assumption, ?_⟩; intro v hv; simp at hv; subst hv; trivial)
     | exact (by assumption : ∀ v, _ = some v → VNN v) _ (by assumption)
     | exact ⟨by assumption, (by assumption : ∀ v, _ = some v → VNN v) _ (by assumption)⟩))

@[spec] theorem std_length_nn (t : TId) (d1 : Nat) :
    ⦃fun st => ⌜NN st⌝⦄ std_length rec t d1 ⦃Q3 VNN⦄ := by
  unfold std_length; nnb

@[spec] theorem std_type_nn (t : TId) (d1 : Nat) :
    ⦃fun st => ⌜NN st⌝⦄ std_type rec t d1 ⦃Q3 VNN⦄ := by
  unfold std_type; nnb

@[spec] theorem std_trace_nn (t0 t1 : TId) (d1 : Nat) :
    ⦃fun st => ⌜NN st⌝⦄ std_trace rec t0 t1 d1 ⦃Q3 VNN⦄ := by
  unfold std_trace; nnb

@[spec] theorem std_objectHasEx_nn (t0 t1 t2 : TId) (d1 : Nat) :
    ⦃fun st => ⌜NN st⌝⦄ std_objectHasEx rec t0 t1 t2 d1 ⦃Q3 VNN⦄ := by
  unfold std_objectHasEx; nnb

@[spec] theorem std_objectFieldsEx_nn (t0 t1 : TId) (d1 : Nat) :
    ⦃fun st => ⌜NN st⌝⦄ std_objectFieldsEx rec t0 t1 d1 ⦃Q3 VNN⦄ := by
  unfold std_objectFieldsEx; nnb

@[spec] theorem std_map_nn (t0 t1 : TId) (d1 : Nat) :
    ⦃fun st => ⌜NN st⌝⦄ std_map rec t0 t1 d1 ⦃Q3 VNN⦄ := by
  unfold std_map; nnb

@[spec] theorem std_makeArray_nn (t0 t1 : TId) (d1 : Nat) :
    ⦃fun st => ⌜NN st⌝⦄ std_makeArray rec t0 t1 d1 ⦃Q3 VNN⦄ := by
  unfold std_makeArray; nnb

@[spec] theorem std_filter_nn (t0 t1 : TId) (d1 : Nat) :
    ⦃fun st => ⌜NN st⌝⦄ std_filter cfg rec t0 t1 d1 ⦃Q3 VNN⦄ := by
  unfold std_filter; nnb

@[spec] theorem std_foldl_nn (t0 t1 t2 : TId) (d1 : Nat) :
    ⦃fun st => ⌜NN st⌝⦄ std_foldl cfg rec t0 t1 t2 d1 ⦃Q3 VNN⦄ := by
  unfold std_foldl; nnb

@[spec] theorem std_foldr_nn (t0 t1 t2 : TId) (d1 : Nat) :
    ⦃fun st => ⌜NN st⌝⦄ std_foldr cfg rec t0 t1 t2 d1 ⦃Q3 VNN⦄ := by
  unfold std_foldr; nnb

set_option maxHeartbeats 1000000 in
@[spec] theorem std_flatMap_nn (t0 t1 : TId) (d1 : Nat) :
    ⦃fun st => ⌜NN st⌝⦄ std_flatMap cfg rec t0 t1 d1 ⦃Q3 VNN⦄ := by
  unfold std_flatMap; nnb

@[spec] theorem std_mapWithIndex_nn (t0 t1 : TId) (d1 : Nat) :
    ⦃fun st => ⌜NN st⌝⦄ std_mapWithIndex rec t0 t1 d1 ⦃Q3 VNN⦄ := by
  unfold std_mapWithIndex; nnb

@[spec] theorem std_mapWithKey_nn (t0 t1 : TId) (d1 : Nat) :
    ⦃fun st => ⌜NN st⌝⦄ std_mapWithKey rec t0 t1 d1 ⦃Q3 VNN⦄ := by
  unfold std_mapWithKey; nnb

set_option maxHeartbeats 1000000 in
@[spec] theorem std_filterMap_nn (t0 t1 t2 : TId) (d1 : Nat) :
    ⦃fun st => ⌜NN st⌝⦄ std_filterMap cfg rec t0 t1 t2 d1 ⦃Q3 VNN⦄ := by
  unfold std_filterMap; nnb

@[spec] theorem std_join_nn (t0 t1 : TId) (d1 : Nat) :
    ⦃fun st => ⌜NN st⌝⦄ std_join rec t0 t1 d1 ⦃Q3 VNN⦄ := by
  unfold std_join; nnb

set_option maxRecDepth 4096 in
@[spec] theorem std_range_nn (t0 t1 : TId) (d1 : Nat) :
    ⦃fun st => ⌜NN st⌝⦄ std_range rec t0 t1 d1 ⦃Q3 VNN⦄ := by
  have hr := rec_nn F rec hrec
  unfold std_range
  mvcgen [hr]
  on_invs exact inv3 (fun _ => True)
  all_goals (try clear hr)
  all_goals vcp
  all_goals first
    | assumption
    | exact True.intro
    | (simp only [TSNN, VNN]; exact intToFloat_nn F _)
    | exact ⟨by assumption, True.intro⟩
    | exact ⟨by assumption, by assumption⟩
    | (simp only [Good3]; done)
    | exact ExceptConds.entails.refl _
    | trivial

@[spec] theorem std_member_nn (t0 t1 : TId) (d1 : Nat) :
    ⦃fun st => ⌜NN st⌝⦄ std_member rec t0 t1 d1 ⦃Q3 VNN⦄ := by
  unfold std_member; nnb

@[spec] theorem std_count_nn (t0 t1 : TId) (d1 : Nat) :
    ⦃fun st => ⌜NN st⌝⦄ std_count rec t0 t1 d1 ⦃Q3 VNN⦄ := by
  unfold std_count; nnb

@[spec] theorem std_all_nn (t : TId) (d1 : Nat) :
    ⦃fun st => ⌜NN st⌝⦄ std_all rec t d1 ⦃Q3 VNN⦄ := by
  unfold std_all; nnb

@[spec] theorem std_any_nn (t : TId) (d1 : Nat) :
    ⦃fun st => ⌜NN st⌝⦄ std_any rec t d1 ⦃Q3 VNN⦄ := by
  unfold std_any; nnb

@[spec] theorem std_equals_nn (t0 t1 : TId) (d1 : Nat) :
    ⦃fun st => ⌜NN st⌝⦄ std_equals rec t0 t1 d1 ⦃Q3 VNN⦄ := by
  unfold std_equals; nnb

@[spec] theorem std_compare_nn (t0 t1 : TId) (d1 : Nat) :
    ⦃fun st => ⌜NN st⌝⦄ std_compare rec t0 t1 d1 ⦃Q3 VNN⦄ := by
  unfold std_compare; nnb

@[spec] theorem std_primitiveEquals_nn (t0 t1 : TId) (d1 : Nat) :
    ⦃fun st => ⌜NN st⌝⦄ std_primitiveEquals rec t0 t1 d1 ⦃Q3 VNN⦄ := by
  unfold std_primitiveEquals; nnb

@[spec] theorem std_assertEqual_nn (t0 t1 : TId) (d1 : Nat) :
    ⦃fun st => ⌜NN st⌝⦄ std_assertEqual rec t0 t1 d1 ⦃Q3 VNN⦄ := by
  unfold std_assertEqual; nnb

@[spec] theorem std_toString_nn (t : TId) (d1 : Nat) :
    ⦃fun st => ⌜NN st⌝⦄ std_toString rec t d1 ⦃Q3 VNN⦄ := by
  unfold std_toString; nnb

end
end Rsj.Eval.NoNaN
