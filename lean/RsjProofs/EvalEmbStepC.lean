import RsjProofs.EvalEmbStepB
/-!
  Store-embedding invariance of `step`, part C: one theorem per branch of `step` for the tasks
  `.eval e env tail d` with `e` one of
  `superField superIndex inSuper call var local_ if_ binary unary objExt func assert_ error_
   importLit importTextBlock importComputed builtin`.
-/
set_option linter.unusedVariables false
set_option linter.unusedSectionVars false
namespace Rsj.Eval
open Rsj.Core
variable [Mode]

/-- a filter that only looks at the names keeps related variable lists related -/
private theorem RVars.filter_name {ρ : Emb} {vs vs' : List (String × TId)} (h : RVars ρ vs vs') (q : String → Bool) :
    RVars ρ (vs.filter (fun p => q p.1)) (vs'.filter (fun p => q p.1)) := by
  induction h with
  | nil => exact .nil
  | @cons a b as bs h1 _ ih =>
    have : a.1 = b.1 := h1.1
    simp only [List.filter_cons, this]
    split
    · exact .cons h1 ih
    · exact ih

section
variable {cfg cfg' : Cfg} [RCfg cfg cfg'] {rec rec' : Task → M Value} (hrec : RecRel rec rec')
include hrec

theorem step_eval_superField_rel {ρ : Emb} {env env' : EId} (name : String) (tail : Bool) {tail' : Bool} (d : Nat) {d' : Nat}
    (he : RE ρ env env') (hd : RDep d d' := by rdep) :
    MRel ρ RVal (step cfg rec (.eval (.superField name) env tail d))
      (step cfg' rec' (.eval (.superField name) env' tail' d')) := by
  unfold step
  exact wantSuperField_rel hrec name d he

theorem step_eval_superIndex_rel {ρ : Emb} {env env' : EId} (ie : Expr) (tail : Bool) {tail' : Bool} (d : Nat) {d' : Nat}
    (he : RE ρ env env') (hd : RDep d d' := by rdep) :
    MRel ρ RVal (step cfg rec (.eval (.superIndex ie) env tail d))
      (step cfg' rec' (.eval (.superIndex ie) env' tail' d')) := by
  unfold step
  mnorm
  mbind (hrec _ _ _ (.eval ie false d he)) with v v' hv
  cases hv <;> (try simp only []) <;> first | exact MRel_throw rfl | skip
  exact wantSuperField_rel hrec _ d he

theorem step_eval_inSuper_rel {ρ : Emb} {env env' : EId} (le : Expr) (tail : Bool) {tail' : Bool} (d : Nat) {d' : Nat}
    (he : RE ρ env env') (hd : RDep d d' := by rdep) :
    MRel ρ RVal (step cfg rec (.eval (.inSuper le) env tail d))
      (step cfg' rec' (.eval (.inSuper le) env' tail' d')) := by
  unfold step
  mnorm
  mbind (hrec _ _ _ (.eval le false d he)) with v v' hv
  cases hv <;> (try simp only []) <;> first | exact MRel_throw rfl | skip
  mnorm
  mbind (getObjRef_rel he) with r r' hr
  mbind (getObj_rel hr.obj) with ob ob' hob
  rw [hr.layer, findField_isSome_rel hob _ _]
  exact MRel_pure (.bool _)

theorem step_eval_var_rel {ρ : Emb} {env env' : EId} (n : String) (tail : Bool) {tail' : Bool} (d : Nat) {d' : Nat} (he : RE ρ env env') (hd : RDep d d' := by rdep) :
    MRel ρ RVal (step cfg rec (.eval (.var n) env tail d)) (step cfg' rec' (.eval (.var n) env' tail' d')) := by
  unfold step
  mnorm
  mbind (getVar_rel n he) with t t' ht
  split
  · mbind (checkDepth_rel _ _) with u u' hu
    exact hrec _ _ _ (.force _ ht)
  · exact wantThunk_rel hrec d ht

theorem step_eval_if_rel {ρ : Emb} {env env' : EId} (c t : Expr) (el : OptExpr) (tail : Bool) {tail' : Bool} (d : Nat) {d' : Nat}
    (he : RE ρ env env') (hd : RDep d d' := by rdep)
    (htl : TailOK (.if_ c t el) tail tail' := by tailok) :
    MRel ρ RVal (step cfg rec (.eval (.if_ c t el) env tail d))
      (step cfg' rec' (.eval (.if_ c t el) env' tail' d')) := by
  unfold step
  mnorm
  mbind (hrec _ _ _ (.eval c false d he)) with v v' hv
  cases hv <;> (try simp only []) <;> first | exact MRel_throw rfl | skip
  rename_i b
  cases b <;> simp only []
  · cases el <;> simp only []
    · exact MRel_pure .null
    · exact hrec _ _ _ (.eval _ tail d he)
  · exact hrec _ _ _ (.eval _ tail d he)

theorem step_eval_objExt_rel {ρ : Emb} {env env' : EId} (oe : Expr) (ms : Members) (tail : Bool) {tail' : Bool} (d : Nat) {d' : Nat}
    (he : RE ρ env env') (hd : RDep d d' := by rdep) :
    MRel ρ RVal (step cfg rec (.eval (.objExt oe ms) env tail d))
      (step cfg' rec' (.eval (.objExt oe ms) env' tail' d')) := by
  unfold step
  mnorm
  mbind (hrec _ _ _ (.eval oe false d he)) with av av' hav
  mbind (hrec _ _ _ (.eval (.object ms) false d he)) with bv bv' hbv
  exact binaryOp_rel hrec .add d true hav hbv

theorem step_eval_func_rel {ρ : Emb} {env env' : EId} (ps : Params) (body : Expr) (tail : Bool) {tail' : Bool} (d : Nat) {d' : Nat}
    (he : RE ρ env env') (hd : RDep d d' := by rdep) :
    MRel ρ RVal (step cfg rec (.eval (.func ps body) env tail d))
      (step cfg' rec' (.eval (.func ps body) env' tail' d')) := by
  unfold step
  mnorm
  mbind (allocFunc_rel ⟨rfl, rfl, he⟩) with f f' hf
  exact MRel_pure (.func hf)

theorem step_eval_assert_rel {ρ : Emb} {env env' : EId} (c : Expr) (m : OptExpr) (inner : Expr) (tail : Bool) {tail' : Bool}
    (d : Nat) {d' : Nat} (he : RE ρ env env') (hd : RDep d d' := by rdep)
    (htl : TailOK (.assert_ c m inner) tail tail' := by tailok) :
    MRel ρ RVal (step cfg rec (.eval (.assert_ c m inner) env tail d))
      (step cfg' rec' (.eval (.assert_ c m inner) env' tail' d')) := by
  unfold step
  mnorm
  mbind (hrec _ _ _ (.eval c false d he)) with v v' hv
  cases hv <;> (try simp only []) <;> first | exact MRel_throw rfl | skip
  rename_i b
  cases b <;> simp only []
  · cases m <;> simp only []
    · exact MRel_throw rfl
    · mnorm
      mbind (hrec _ _ _ (.eval _ false d he)) with mv mv' hmv
      mbind (coerceToString_rel hrec d hmv) with s s' hs
      cases hs
      exact MRel_throw rfl
  · exact hrec _ _ _ (.eval _ tail d he)

theorem step_eval_error_rel {ρ : Emb} {env env' : EId} (me : Expr) (tail : Bool) {tail' : Bool} (d : Nat) {d' : Nat}
    (he : RE ρ env env') (hd : RDep d d' := by rdep) :
    MRel ρ RVal (step cfg rec (.eval (.error_ me) env tail d))
      (step cfg' rec' (.eval (.error_ me) env' tail' d')) := by
  unfold step
  mnorm
  mbind (hrec _ _ _ (.eval me false d he)) with mv mv' hmv
  mbind (checkDepth_rel _ _) with u u' hu
  mbind (coerceToString_rel hrec (d + 1) hmv) with s s' hs
  cases hs
  exact MRel_throw rfl

theorem step_eval_importLit_rel {ρ : Emb} {env env' : EId} (s : Nat) (tail : Bool) {tail' : Bool} (d : Nat) {d' : Nat}
    (he : RE ρ env env') (hd : RDep d d' := by rdep) :
    MRel ρ RVal (step cfg rec (.eval (.importLit s) env tail d))
      (step cfg' rec' (.eval (.importLit s) env' tail' d')) := by
  unfold step
  exact MRel_throw rfl

theorem step_eval_importTextBlock_rel {ρ : Emb} {env env' : EId} (k : Nat) (tail : Bool) {tail' : Bool} (d : Nat) {d' : Nat}
    (he : RE ρ env env') (hd : RDep d d' := by rdep) :
    MRel ρ RVal (step cfg rec (.eval (.importTextBlock k) env tail d))
      (step cfg' rec' (.eval (.importTextBlock k) env' tail' d')) := by
  unfold step
  exact MRel_throw rfl

theorem step_eval_importComputed_rel {ρ : Emb} {env env' : EId} (k : Nat) (e : Expr) (tail : Bool) {tail' : Bool} (d : Nat) {d' : Nat}
    (he : RE ρ env env') (hd : RDep d d' := by rdep) :
    MRel ρ RVal (step cfg rec (.eval (.importComputed k e) env tail d))
      (step cfg' rec' (.eval (.importComputed k e) env' tail' d')) := by
  unfold step
  exact MRel_throw rfl

theorem step_eval_builtin_rel {ρ : Emb} {env env' : EId} (b : Builtin) (args : Exprs) (tail : Bool) {tail' : Bool} (d : Nat) {d' : Nat}
    (he : RE ρ env env') (hd : RDep d d' := by rdep) :
    MRel ρ RVal (step cfg rec (.eval (.builtin b args) env tail d))
      (step cfg' rec' (.eval (.builtin b args) env' tail' d')) := by
  unfold step
  mnorm
  refine MRel_bind (Q₁ := RList RT) ?_ ?_
  · mfor (RList RT) with acc acc' hacc x hx
    · exact .nil
    · mbind (newThunk_rel x he) with t t' ht
      exact MRel_pure (.yield (hacc.snoc ht))
  · mcont ts ts' hts
    mbind (checkDepth_rel _ _) with u u' hu
    exact builtinCall3_rel hrec b (d + 1) hts

theorem step_eval_unary_rel {ρ : Emb} {env env' : EId} (op : UnOp) (a : Expr) (tail : Bool) {tail' : Bool} (d : Nat) {d' : Nat}
    (he : RE ρ env env') (hd : RDep d d' := by rdep) :
    MRel ρ RVal (step cfg rec (.eval (.unary op a) env tail d))
      (step cfg' rec' (.eval (.unary op a) env' tail' d')) := by
  unfold step
  mnorm
  mbind (hrec _ _ _ (.eval a false d he)) with av av' hav
  cases op <;> cases hav <;> (try simp only []) <;> first | exact MRel_throw rfl | exact MRel_pure (.num _) | exact MRel_pure (.bool _) | skip
  mbind (safeInt_rel _) with i i' hi
  cases hi
  exact MRel_pure (.num _)

theorem step_eval_binary_rel {ρ : Emb} {env env' : EId} (op : BinOp) (a b : Expr) (tail : Bool) {tail' : Bool} (d : Nat) {d' : Nat}
    (he : RE ρ env env') (hd : RDep d d' := by rdep) :
    MRel ρ RVal (step cfg rec (.eval (.binary op a b) env tail d))
      (step cfg' rec' (.eval (.binary op a b) env' tail' d')) := by
  have generic : ∀ (op : BinOp), MRel ρ RVal
      (do let av ← rec (Task.eval a env false d)
          let bv ← rec (Task.eval b env false d)
          binaryOp3 cfg rec op av bv d true)
      (do let av ← rec' (Task.eval a env' false d')
          let bv ← rec' (Task.eval b env' false d')
          binaryOp3 cfg' rec' op av bv d' true) := by
    intro op
    mbind (hrec _ _ _ (.eval a false d he)) with av av' hav
    mbind (hrec _ _ _ (.eval b false d he)) with bv bv' hbv
    exact binaryOp3_rel hrec op d true hav hbv
  have cmp : ∀ (f : Float → Bool), MRel ρ RVal
      (do checkDepth cfg (d + 1)
          let av ← rec (Task.eval a env false (d + 1))
          let bv ← rec (Task.eval b env false (d + 1))
          let r ← rec (Task.compare av bv (d + 1))
          match r with
          | .num c => pure (.bool (f c))
          | _ => throw (.internal "compare did not return a number"))
      (do checkDepth cfg' (d' + 1)
          let av ← rec' (Task.eval a env' false (d' + 1))
          let bv ← rec' (Task.eval b env' false (d' + 1))
          let r ← rec' (Task.compare av bv (d' + 1))
          match r with
          | .num c => pure (.bool (f c))
          | _ => throw (.internal "compare did not return a number")) := by
    intro f
    mbind (checkDepth_rel _ _) with u u' hu
    mbind (hrec _ _ _ (.eval a false (d + 1) he)) with av av' hav
    mbind (hrec _ _ _ (.eval b false (d + 1) he)) with bv bv' hbv
    mbind (hrec _ _ _ (.compare (d + 1) hav hbv)) with r r' hr
    cases hr <;> (try simp only []) <;> first | exact MRel_throw rfl | exact MRel_pure (.bool _)
  have eqs : ∀ (f : Bool → Bool), MRel ρ RVal
      (do checkDepth cfg (d + 1)
          let av ← rec (Task.eval a env false (d + 1))
          let bv ← rec (Task.eval b env false (d + 1))
          let r ← rec (Task.equals av bv (d + 1))
          match r with
          | .bool c => pure (.bool (f c))
          | _ => throw (.internal "equals did not return a bool"))
      (do checkDepth cfg' (d' + 1)
          let av ← rec' (Task.eval a env' false (d' + 1))
          let bv ← rec' (Task.eval b env' false (d' + 1))
          let r ← rec' (Task.equals av bv (d' + 1))
          match r with
          | .bool c => pure (.bool (f c))
          | _ => throw (.internal "equals did not return a bool")) := by
    intro f
    mbind (checkDepth_rel _ _) with u u' hu
    mbind (hrec _ _ _ (.eval a false (d + 1) he)) with av av' hav
    mbind (hrec _ _ _ (.eval b false (d + 1) he)) with bv bv' hbv
    mbind (hrec _ _ _ (.equals (d + 1) hav hbv)) with r r' hr
    cases hr <;> (try simp only []) <;> first | exact MRel_throw rfl | exact MRel_pure (.bool _)
  cases op
  all_goals (unfold step; simp only []; mnorm)
  case lt => exact cmp (fun c => c < 0.0)
  case le => exact cmp (fun c => c ≤ 0.0)
  case gt => exact cmp (fun c => c > 0.0)
  case ge => exact cmp (fun c => c ≥ 0.0)
  case eq => exact eqs (fun r => r)
  case ne => exact eqs (fun r => !r)
  case land =>
    mbind (hrec _ _ _ (.eval a false d he)) with av av' hav
    have rest : ∀ {ρ : Emb} {av av' : Value}, RE ρ env env' → RVal ρ av av' → MRel ρ RVal
        (do let bv ← rec (Task.eval b env false d)
            binaryOp cfg rec BinOp.land av bv d true)
        (do let bv ← rec' (Task.eval b env' false d')
            binaryOp cfg' rec' BinOp.land av' bv d' true) := by
      intro ρ av av' he hav
      mbind (hrec _ _ _ (.eval b false d he)) with bv bv' hbv
      exact binaryOp_rel hrec _ d true hav hbv
    cases hav
    case bool c =>
      cases c <;> simp only []
      · exact MRel_pure (.bool _)
      · exact rest he (.bool _)
    all_goals (simp only []; refine rest he ?_; constructor <;> assumption)
  case lor =>
    mbind (hrec _ _ _ (.eval a false d he)) with av av' hav
    have rest : ∀ {ρ : Emb} {av av' : Value}, RE ρ env env' → RVal ρ av av' → MRel ρ RVal
        (do let bv ← rec (Task.eval b env false d)
            binaryOp cfg rec BinOp.lor av bv d true)
        (do let bv ← rec' (Task.eval b env' false d')
            binaryOp cfg' rec' BinOp.lor av' bv d' true) := by
      intro ρ av av' he hav
      mbind (hrec _ _ _ (.eval b false d he)) with bv bv' hbv
      exact binaryOp_rel hrec _ d true hav hbv
    cases hav
    case bool c =>
      cases c <;> simp only []
      · exact rest he (.bool _)
      · exact MRel_pure (.bool _)
    all_goals (simp only []; refine rest he ?_; constructor <;> assumption)
  all_goals exact generic _

theorem step_eval_local_rel {ρ : Emb} {env env' : EId} (bs : Binds) (body : Expr) (tail : Bool) {tail' : Bool} (d : Nat) {d' : Nat}
    (he : RE ρ env env') (hd : RDep d d' := by rdep)
    (htl : TailOK (.local_ bs body) tail tail' := by tailok) :
    MRel ρ RVal (step cfg rec (.eval (.local_ bs body) env tail d))
      (step cfg' rec' (.eval (.local_ bs body) env' tail' d')) := by
  unfold step
  mnorm
  mbind (getEnv_rel he) with s s' hs
  mbind (allocEnv_rel ⟨.some he, .nil, hs.obj⟩) with e e' he'
  refine MRel_bind (Q₁ := RVars) ?_ ?_
  · mfor RVars with acc acc' hacc x hx
    · exact .nil
    · mbind (newThunk_rel _ he') with t t' ht
      exact MRel_pure (.yield ((RVars.filter_name hacc (fun m => m != x.1)).snoc ⟨rfl, ht⟩))
  · mcont vars vars' hvars
    mbind (getEnv_rel he) with s2 s2' hs2
    mbind (setEnv_rel he' ⟨.some he, hvars, hs2.obj⟩) with u u' hu
    exact hrec _ _ _ (.eval body tail d he')

theorem step_eval_call_rel {ρ : Emb} {env env' : EId} (ce : Expr) (args : Args) (ts : Bool) (tail : Bool) {tail' : Bool} (d : Nat) {d' : Nat}
    (he : RE ρ env env') (hd : RDep d d' := by rdep)
    (htl : TailOK (.call ce args ts) tail tail' := by tailok) :
    MRel ρ RVal (step cfg rec (.eval (.call ce args ts) env tail d))
      (step cfg' rec' (.eval (.call ce args ts) env' tail' d')) := by
  unfold step
  mnorm
  mbind (hrec _ _ _ (.eval ce false d he)) with cv cv' hcv
  cases hcv <;> (try simp -zeta only []) <;> first | exact MRel_throw rfl | skip
  rename_i f f' hf
  mbind (getFunc_rel hf) with fn fn' hfn
  rw [← hfn.params, ← hfn.body]
  generalize Bind.bindPlan _ _ _ = bp
  cases bp with
  | error e => exact MRel_throw rfl
  | ok slots =>
    simp -zeta only []
    refine MRel_bind (Q₁ := RList RT) ?_ ?_
    · mfor (RList RT) with acc acc' hacc x hx
      · exact .nil
      · mbind (newThunk_rel x he) with t t' ht
        exact MRel_pure (.yield (hacc.snoc ht))
    mcont pos pos' hpos
    refine MRel_bind (Q₁ := RList RT) ?_ ?_
    · mfor (RList RT) with acc acc' hacc x hx
      · exact .nil
      · mbind (newThunk_rel x.2 he) with t t' ht
        exact MRel_pure (.yield (hacc.snoc ht))
    mcont named named' hnamed
    mjp (RArrow (RImp (slots.any (· == .dflt) = true) RE) (RM RVal))
    · mcont argsEnv argsEnv' henv
      show MRel _ _ _ _
      refine MRel_bind (Q₁ := RList RT) ?_ ?_
      · mfor (RList RT) with acc acc' hacc x hx
        · exact .nil
        · obtain ⟨slot, n, pd⟩ := x
          simp only []
          cases slot with
          | pos i =>
            simp only []
            gcases (hpos.getElem? i)
            · exact MRel_throw rfl
            · exact MRel_pure (.yield (hacc.snoc ‹_›))
          | named j =>
            simp only []
            gcases (hnamed.getElem? j)
            · exact MRel_throw rfl
            · exact MRel_pure (.yield (hacc.snoc ‹_›))
          | dflt =>
            simp only []
            cases pd with
            | none => exact MRel_throw rfl
            | some de =>
              simp only []
              have hne : slots.any (· == .dflt) = true :=
                List.any_eq_true.2 ⟨_, (List.of_mem_zip hx).1, rfl⟩
              mbind (newThunk_rel de (henv hne)) with t t' ht
              exact MRel_pure (.yield (hacc.snoc ht))
      · mcont as as' has
        mjp (RArrow (@RTrue Unit Unit) (RM RVal))
        · mcont r r' hr
          show MRel _ _ _ _
          rw [← TailOK.call_cond htl]
          split
          · refine MRel_bind (Q₁ := RTrue) ?_ ?_
            · refine MRel_forIn RT RTrue has trivial ?_
              intro ρ'' hle t t' acc acc' _ _ ht _
              mbind (checkDepth_rel _ _) with u u' hu
              mbind (hrec _ _ _ (.force (d + 1) ht)) with v v' hv
              exact MRel_pure (.yield trivial)
            · mcont u u' hu
              mbind (newEnv_rel (.some hfn.env) (RVars.zip_names _ has)) with inner inner' hinner
              exact hrec _ _ _ (.eval _ true d hinner)
          · mbind (checkDepth_rel _ _) with u u' hu
            mbind (newEnv_rel (.some hfn.env) (RVars.zip_names _ has)) with inner inner' hinner
            exact hrec _ _ _ (.eval _ true (d + 1) hinner)
        · intro jp2 jp2' hjp2
          split
          · rename_i hne
            mbind (getEnv_rel hfn.env) with fe fe' hfe
            mbind (setEnv_rel (henv hne) ⟨.some hfn.env, RVars.zip_names _ has, hfe.obj⟩) with u u' hu
            exact hjp2.app trivial
          · exact hjp2.app trivial
    · intro jp jp' hjp
      split
      · mbind (allocEnv_rel ⟨.none, .nil, .none⟩) with e e' he
        exact hjp.app (fun _ => he)
      · exact hjp.app (fun h => absurd h ‹_›)

end
end Rsj.Eval
