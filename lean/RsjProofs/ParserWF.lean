import RsjModel.Parser
import RsjProofs.ParserBasic
namespace Rsj.Parser

/-- A span lies in `[lo, hi]`, is not inverted, starts where a token starts and ends where a
    token ends. -/
def SpanOK (toks : List Token) (lo hi : Nat) (sp : Span) : Prop :=
  lo ≤ sp.start ∧ sp.start ≤ sp.stop ∧ sp.stop ≤ hi ∧ IsStart toks sp.start ∧ IsStop toks sp.stop

/-- end of the last of two consecutive expressions the second of which is optional -/
def lastStop (a : Expr) : Option Expr → Nat
  | none => a.span.stop
  | some b => b.span.stop

/-
  For forms that begin (end) with a subexpression the node's span starts (ends) exactly where
  that subexpression starts (ends); forms that begin (end) with a token start (end) at a token.
  `X.WF toks lo hi`: every span occurring in `X` satisfies `SpanOK` relative to the span of the
  closest enclosing expression node (`lo hi` for the outermost ones).
-/
mutual
  def Expr.WF (toks : List Token) : Expr → Nat → Nat → Prop
    | .null sp, lo, hi => SpanOK toks lo hi sp
    | .bool _ sp, lo, hi => SpanOK toks lo hi sp
    | .selfObj sp, lo, hi => SpanOK toks lo hi sp
    | .dollar sp, lo, hi => SpanOK toks lo hi sp
    | .str _ sp, lo, hi => SpanOK toks lo hi sp
    | .textBlock _ sp, lo, hi => SpanOK toks lo hi sp
    | .number _ sp, lo, hi => SpanOK toks lo hi sp
    | .paren e sp, lo, hi => SpanOK toks lo hi sp ∧ e.WF toks sp.start sp.stop
    | .object o sp, lo, hi => SpanOK toks lo hi sp ∧ o.WF toks sp.start sp.stop
    | .array items sp, lo, hi => SpanOK toks lo hi sp ∧ WFExprs toks items sp.start sp.stop
    | .arrayComp e spec sp, lo, hi =>
      SpanOK toks lo hi sp ∧ e.WF toks sp.start sp.stop ∧ WFSpecs toks spec sp.start sp.stop
    | .field e name sp, lo, hi =>
      SpanOK toks lo hi sp ∧ e.WF toks sp.start sp.stop ∧ SpanOK toks sp.start sp.stop name.span ∧
        e.span.start = sp.start ∧ name.span.stop = sp.stop
    | .index e i sp, lo, hi =>
      SpanOK toks lo hi sp ∧ e.WF toks sp.start sp.stop ∧ i.WF toks sp.start sp.stop ∧
        e.span.start = sp.start
    | .slice e i1 i2 i3 sp, lo, hi =>
      SpanOK toks lo hi sp ∧ e.WF toks sp.start sp.stop ∧ WFOpt toks i1 sp.start sp.stop ∧
        WFOpt toks i2 sp.start sp.stop ∧ WFOpt toks i3 sp.start sp.stop ∧ e.span.start = sp.start
    | .superField ssp name sp, lo, hi =>
      SpanOK toks lo hi sp ∧ SpanOK toks sp.start sp.stop ssp ∧ SpanOK toks sp.start sp.stop name.span ∧
        ssp.start = sp.start ∧ name.span.stop = sp.stop
    | .superIndex ssp i sp, lo, hi =>
      SpanOK toks lo hi sp ∧ SpanOK toks sp.start sp.stop ssp ∧ i.WF toks sp.start sp.stop ∧
        ssp.start = sp.start
    | .call f args _ sp, lo, hi =>
      SpanOK toks lo hi sp ∧ f.WF toks sp.start sp.stop ∧ WFArgs toks args sp.start sp.stop ∧
        f.span.start = sp.start
    | .ident i sp, lo, hi => SpanOK toks lo hi sp ∧ i.span = sp
    | .local_ binds body sp, lo, hi =>
      SpanOK toks lo hi sp ∧ WFBinds toks binds sp.start sp.stop ∧ body.WF toks sp.start sp.stop ∧
        body.span.stop = sp.stop
    | .ite_ c t e sp, lo, hi =>
      SpanOK toks lo hi sp ∧ c.WF toks sp.start sp.stop ∧ t.WF toks sp.start sp.stop ∧
        WFOpt toks e sp.start sp.stop ∧ lastStop t e = sp.stop
    | .binary l _ r sp, lo, hi =>
      SpanOK toks lo hi sp ∧ l.WF toks sp.start sp.stop ∧ r.WF toks sp.start sp.stop ∧
        l.span.start = sp.start ∧ r.span.stop = sp.stop
    | .unary _ e sp, lo, hi => SpanOK toks lo hi sp ∧ e.WF toks sp.start sp.stop ∧ e.span.stop = sp.stop
    | .objExt e o osp sp, lo, hi =>
      SpanOK toks lo hi sp ∧ e.WF toks sp.start sp.stop ∧ SpanOK toks sp.start sp.stop osp ∧
        o.WF toks osp.start osp.stop ∧ e.span.start = sp.start ∧ osp.stop = sp.stop
    | .func params body sp, lo, hi =>
      SpanOK toks lo hi sp ∧ WFParams toks params sp.start sp.stop ∧ body.WF toks sp.start sp.stop ∧
        body.span.stop = sp.stop
    | .assert_ a body sp, lo, hi =>
      SpanOK toks lo hi sp ∧ a.WF toks sp.start sp.stop ∧ body.WF toks sp.start sp.stop ∧
        body.span.stop = sp.stop
    | .import_ e sp, lo, hi => SpanOK toks lo hi sp ∧ e.WF toks sp.start sp.stop ∧ e.span.stop = sp.stop
    | .importStr e sp, lo, hi => SpanOK toks lo hi sp ∧ e.WF toks sp.start sp.stop ∧ e.span.stop = sp.stop
    | .importBin e sp, lo, hi => SpanOK toks lo hi sp ∧ e.WF toks sp.start sp.stop ∧ e.span.stop = sp.stop
    | .error_ e sp, lo, hi => SpanOK toks lo hi sp ∧ e.WF toks sp.start sp.stop ∧ e.span.stop = sp.stop
    | .inSuper e ssp sp, lo, hi =>
      SpanOK toks lo hi sp ∧ e.WF toks sp.start sp.stop ∧ SpanOK toks sp.start sp.stop ssp ∧
        e.span.start = sp.start ∧ ssp.stop = sp.stop
  def WFExprs (toks : List Token) : List Expr → Nat → Nat → Prop
    | [], _, _ => True
    | e :: es, lo, hi => e.WF toks lo hi ∧ WFExprs toks es lo hi
  def WFOpt (toks : List Token) : Option Expr → Nat → Nat → Prop
    | none, _, _ => True
    | some e, lo, hi => e.WF toks lo hi
  def ObjInside.WF (toks : List Token) : ObjInside → Nat → Nat → Prop
    | .members ms, lo, hi => WFMembers toks ms lo hi
    | .comp l1 name _ body l2 spec, lo, hi =>
      WFBinds toks l1 lo hi ∧ name.WF toks lo hi ∧ body.WF toks lo hi ∧ WFBinds toks l2 lo hi ∧
        WFSpecs toks spec lo hi
  def WFMembers (toks : List Token) : List Member → Nat → Nat → Prop
    | [], _, _ => True
    | m :: ms, lo, hi => m.WF toks lo hi ∧ WFMembers toks ms lo hi
  def Member.WF (toks : List Token) : Member → Nat → Nat → Prop
    | .local_ b, lo, hi => b.WF toks lo hi
    | .assert_ a, lo, hi => a.WF toks lo hi
    | .field f, lo, hi => f.WF toks lo hi
  def Field.WF (toks : List Token) : Field → Nat → Nat → Prop
    | .value name _ _ e, lo, hi => name.WF toks lo hi ∧ e.WF toks lo hi
    | .func name params psp _ e, lo, hi =>
      name.WF toks lo hi ∧ SpanOK toks lo hi psp ∧ WFParams toks params psp.start psp.stop ∧
        e.WF toks lo hi
  def FieldName.WF (toks : List Token) : FieldName → Nat → Nat → Prop
    | .ident i, lo, hi => SpanOK toks lo hi i.span
    | .str _ sp, lo, hi => SpanOK toks lo hi sp
    | .expr e sp, lo, hi => SpanOK toks lo hi sp ∧ e.WF toks sp.start sp.stop
  def Assert.WF (toks : List Token) : Assert → Nat → Nat → Prop
    | .mk sp cond msg, lo, hi =>
      SpanOK toks lo hi sp ∧ cond.WF toks sp.start sp.stop ∧ WFOpt toks msg sp.start sp.stop ∧
        lastStop cond msg = sp.stop
  def Bind.WF (toks : List Token) : Bind → Nat → Nat → Prop
    | .mk name hasParams params psp value, lo, hi =>
      SpanOK toks lo hi name.span ∧
        (hasParams = true → SpanOK toks lo hi psp ∧ WFParams toks params psp.start psp.stop) ∧
        (hasParams = false → params = []) ∧ value.WF toks lo hi
  def WFBinds (toks : List Token) : List Bind → Nat → Nat → Prop
    | [], _, _ => True
    | b :: bs, lo, hi => b.WF toks lo hi ∧ WFBinds toks bs lo hi
  def Arg.WF (toks : List Token) : Arg → Nat → Nat → Prop
    | .positional e, lo, hi => e.WF toks lo hi
    | .named name e, lo, hi => SpanOK toks lo hi name.span ∧ e.WF toks lo hi
  def WFArgs (toks : List Token) : List Arg → Nat → Nat → Prop
    | [], _, _ => True
    | a :: as, lo, hi => a.WF toks lo hi ∧ WFArgs toks as lo hi
  def Param.WF (toks : List Token) : Param → Nat → Nat → Prop
    | .mk name d, lo, hi => SpanOK toks lo hi name.span ∧ WFOpt toks d lo hi
  def WFParams (toks : List Token) : List Param → Nat → Nat → Prop
    | [], _, _ => True
    | p :: ps, lo, hi => p.WF toks lo hi ∧ WFParams toks ps lo hi
  def CompSpec.WF (toks : List Token) : CompSpec → Nat → Nat → Prop
    | .for_ v inner, lo, hi => SpanOK toks lo hi v.span ∧ inner.WF toks lo hi
    | .if_ c, lo, hi => c.WF toks lo hi
  def WFSpecs (toks : List Token) : List CompSpec → Nat → Nat → Prop
    | [], _, _ => True
    | s :: ss, lo, hi => s.WF toks lo hi ∧ WFSpecs toks ss lo hi
end

theorem SpanOK.mono {toks lo hi lo' hi' sp} (h : SpanOK toks lo hi sp) (h1 : lo' ≤ lo) (h2 : hi ≤ hi') :
    SpanOK toks lo' hi' sp := by
  obtain ⟨a, b, c, d, e⟩ := h
  exact ⟨by omega, b, by omega, d, e⟩

variable {toks : List Token}

theorem Expr.WF.mono {e : Expr} {lo hi lo' hi' : Nat} (h : e.WF toks lo hi) (h1 : lo' ≤ lo) (h2 : hi ≤ hi') :
    e.WF toks lo' hi' := by
  cases e <;> simp only [Expr.WF] at h ⊢
  all_goals first
    | exact h.mono h1 h2
    | exact ⟨h.1.mono h1 h2, h.2⟩

theorem WFOpt.mono {o : Option Expr} {lo hi lo' hi' : Nat} (h : WFOpt toks o lo hi) (h1 : lo' ≤ lo) (h2 : hi ≤ hi') :
    WFOpt toks o lo' hi' := by
  cases o with
  | none => trivial
  | some e => exact Expr.WF.mono (e := e) h h1 h2

mutual
  theorem WFExprs.mono : ∀ {l : List Expr} {lo hi lo' hi' : Nat}, WFExprs toks l lo hi → lo' ≤ lo → hi ≤ hi' →
      WFExprs toks l lo' hi'
    | [], _, _, _, _, _, _, _ => trivial
    | _ :: es, _, _, _, _, h, h1, h2 => ⟨h.1.mono h1 h2, WFExprs.mono (l := es) h.2 h1 h2⟩
end

theorem Param.WF.mono {p : Param} {lo hi lo' hi' : Nat} (h : p.WF toks lo hi) (h1 : lo' ≤ lo) (h2 : hi ≤ hi') :
    p.WF toks lo' hi' := by
  cases p with
  | mk name d => exact ⟨h.1.mono h1 h2, h.2.mono h1 h2⟩

theorem WFParams.mono : ∀ {l : List Param} {lo hi lo' hi' : Nat}, WFParams toks l lo hi → lo' ≤ lo → hi ≤ hi' →
    WFParams toks l lo' hi'
  | [], _, _, _, _, _, _, _ => trivial
  | _ :: ps, _, _, _, _, h, h1, h2 => ⟨h.1.mono h1 h2, WFParams.mono (l := ps) h.2 h1 h2⟩

theorem Arg.WF.mono {a : Arg} {lo hi lo' hi' : Nat} (h : a.WF toks lo hi) (h1 : lo' ≤ lo) (h2 : hi ≤ hi') :
    a.WF toks lo' hi' := by
  cases a with
  | positional e => exact Expr.WF.mono (e := e) h h1 h2
  | named n e => exact ⟨h.1.mono h1 h2, h.2.mono h1 h2⟩

theorem WFArgs.mono : ∀ {l : List Arg} {lo hi lo' hi' : Nat}, WFArgs toks l lo hi → lo' ≤ lo → hi ≤ hi' →
    WFArgs toks l lo' hi'
  | [], _, _, _, _, _, _, _ => trivial
  | _ :: ps, _, _, _, _, h, h1, h2 => ⟨h.1.mono h1 h2, WFArgs.mono (l := ps) h.2 h1 h2⟩

theorem CompSpec.WF.mono {a : CompSpec} {lo hi lo' hi' : Nat} (h : a.WF toks lo hi) (h1 : lo' ≤ lo) (h2 : hi ≤ hi') :
    a.WF toks lo' hi' := by
  cases a with
  | for_ v e => exact ⟨h.1.mono h1 h2, h.2.mono h1 h2⟩
  | if_ e => exact Expr.WF.mono (e := e) h h1 h2

theorem WFSpecs.mono : ∀ {l : List CompSpec} {lo hi lo' hi' : Nat}, WFSpecs toks l lo hi → lo' ≤ lo → hi ≤ hi' →
    WFSpecs toks l lo' hi'
  | [], _, _, _, _, _, _, _ => trivial
  | _ :: ps, _, _, _, _, h, h1, h2 => ⟨h.1.mono h1 h2, WFSpecs.mono (l := ps) h.2 h1 h2⟩

theorem Assert.WF.mono {a : Assert} {lo hi lo' hi' : Nat} (h : a.WF toks lo hi) (h1 : lo' ≤ lo) (h2 : hi ≤ hi') :
    a.WF toks lo' hi' := by
  cases a with
  | mk sp c m => exact ⟨h.1.mono h1 h2, h.2⟩

theorem Bind.WF.mono {b : Bind} {lo hi lo' hi' : Nat} (h : b.WF toks lo hi) (h1 : lo' ≤ lo) (h2 : hi ≤ hi') :
    b.WF toks lo' hi' := by
  cases b with
  | mk name hp params psp value =>
    exact ⟨h.1.mono h1 h2, fun hh => ⟨(h.2.1 hh).1.mono h1 h2, (h.2.1 hh).2⟩, h.2.2.1, h.2.2.2.mono h1 h2⟩

theorem WFBinds.mono : ∀ {l : List Bind} {lo hi lo' hi' : Nat}, WFBinds toks l lo hi → lo' ≤ lo → hi ≤ hi' →
    WFBinds toks l lo' hi'
  | [], _, _, _, _, _, _, _ => trivial
  | _ :: ps, _, _, _, _, h, h1, h2 => ⟨h.1.mono h1 h2, WFBinds.mono (l := ps) h.2 h1 h2⟩

theorem FieldName.WF.mono {a : FieldName} {lo hi lo' hi' : Nat} (h : a.WF toks lo hi) (h1 : lo' ≤ lo) (h2 : hi ≤ hi') :
    a.WF toks lo' hi' := by
  cases a with
  | ident i => exact SpanOK.mono (sp := i.span) h h1 h2
  | str s sp => exact SpanOK.mono (sp := sp) h h1 h2
  | expr e sp => exact ⟨h.1.mono h1 h2, h.2⟩

theorem Field.WF.mono {a : Field} {lo hi lo' hi' : Nat} (h : a.WF toks lo hi) (h1 : lo' ≤ lo) (h2 : hi ≤ hi') :
    a.WF toks lo' hi' := by
  cases a with
  | value n p v e => exact ⟨h.1.mono h1 h2, h.2.mono h1 h2⟩
  | func n ps psp v e => exact ⟨h.1.mono h1 h2, h.2.1.mono h1 h2, h.2.2.1, h.2.2.2.mono h1 h2⟩

theorem Member.WF.mono {a : Member} {lo hi lo' hi' : Nat} (h : a.WF toks lo hi) (h1 : lo' ≤ lo) (h2 : hi ≤ hi') :
    a.WF toks lo' hi' := by
  cases a with
  | local_ b => exact Bind.WF.mono (b := b) h h1 h2
  | assert_ b => exact Assert.WF.mono (a := b) h h1 h2
  | field b => exact Field.WF.mono (a := b) h h1 h2

theorem WFMembers.mono : ∀ {l : List Member} {lo hi lo' hi' : Nat}, WFMembers toks l lo hi → lo' ≤ lo → hi ≤ hi' →
    WFMembers toks l lo' hi'
  | [], _, _, _, _, _, _, _ => trivial
  | _ :: ps, _, _, _, _, h, h1, h2 => ⟨h.1.mono h1 h2, WFMembers.mono (l := ps) h.2 h1 h2⟩

theorem ObjInside.WF.mono {a : ObjInside} {lo hi lo' hi' : Nat} (h : a.WF toks lo hi) (h1 : lo' ≤ lo) (h2 : hi ≤ hi') :
    a.WF toks lo' hi' := by
  cases a with
  | members ms => exact WFMembers.mono (l := ms) h h1 h2
  | comp l1 n p b l2 s =>
    exact ⟨h.1.mono h1 h2, h.2.1.mono h1 h2, h.2.2.1.mono h1 h2, h.2.2.2.1.mono h1 h2, h.2.2.2.2.mono h1 h2⟩

/-! append lemmas -/
theorem WFParams.append : ∀ {l : List Param} {p : Param} {lo hi : Nat}, WFParams toks l lo hi → p.WF toks lo hi →
    WFParams toks (l ++ [p]) lo hi
  | [], _, _, _, _, hp => ⟨hp, trivial⟩
  | _ :: ps, _, _, _, h, hp => ⟨h.1, WFParams.append (l := ps) h.2 hp⟩
theorem WFArgs.append : ∀ {l : List Arg} {p : Arg} {lo hi : Nat}, WFArgs toks l lo hi → p.WF toks lo hi →
    WFArgs toks (l ++ [p]) lo hi
  | [], _, _, _, _, hp => ⟨hp, trivial⟩
  | _ :: ps, _, _, _, h, hp => ⟨h.1, WFArgs.append (l := ps) h.2 hp⟩
theorem WFSpecs.append : ∀ {l : List CompSpec} {p : CompSpec} {lo hi : Nat}, WFSpecs toks l lo hi → p.WF toks lo hi →
    WFSpecs toks (l ++ [p]) lo hi
  | [], _, _, _, _, hp => ⟨hp, trivial⟩
  | _ :: ps, _, _, _, h, hp => ⟨h.1, WFSpecs.append (l := ps) h.2 hp⟩
theorem WFBinds.append : ∀ {l : List Bind} {p : Bind} {lo hi : Nat}, WFBinds toks l lo hi → p.WF toks lo hi →
    WFBinds toks (l ++ [p]) lo hi
  | [], _, _, _, _, hp => ⟨hp, trivial⟩
  | _ :: ps, _, _, _, h, hp => ⟨h.1, WFBinds.append (l := ps) h.2 hp⟩
theorem WFMembers.append : ∀ {l : List Member} {p : Member} {lo hi : Nat}, WFMembers toks l lo hi → p.WF toks lo hi →
    WFMembers toks (l ++ [p]) lo hi
  | [], _, _, _, _, hp => ⟨hp, trivial⟩
  | _ :: ps, _, _, _, h, hp => ⟨h.1, WFMembers.append (l := ps) h.2 hp⟩
theorem WFExprs.append : ∀ {l : List Expr} {p : Expr} {lo hi : Nat}, WFExprs toks l lo hi → p.WF toks lo hi →
    WFExprs toks (l ++ [p]) lo hi
  | [], _, _, _, _, hp => ⟨hp, trivial⟩
  | _ :: ps, _, _, _, h, hp => ⟨h.1, WFExprs.append (l := ps) h.2 hp⟩


/-! `Expr.span` on constructors (simp set used by `nums`; `Expr.span` itself must not be unfolded on variables) -/
theorem Expr.span_null {sp} : (Expr.null sp).span = sp := rfl
theorem Expr.span_bool {b sp} : (Expr.bool b sp).span = sp := rfl
theorem Expr.span_selfObj {sp} : (Expr.selfObj sp).span = sp := rfl
theorem Expr.span_dollar {sp} : (Expr.dollar sp).span = sp := rfl
theorem Expr.span_str {s sp} : (Expr.str s sp).span = sp := rfl
theorem Expr.span_textBlock {s sp} : (Expr.textBlock s sp).span = sp := rfl
theorem Expr.span_number {n sp} : (Expr.number n sp).span = sp := rfl
theorem Expr.span_paren {e sp} : (Expr.paren e sp).span = sp := rfl
theorem Expr.span_object {o sp} : (Expr.object o sp).span = sp := rfl
theorem Expr.span_array {items sp} : (Expr.array items sp).span = sp := rfl
theorem Expr.span_arrayComp {e spec sp} : (Expr.arrayComp e spec sp).span = sp := rfl
theorem Expr.span_field {e name sp} : (Expr.field e name sp).span = sp := rfl
theorem Expr.span_index {e i sp} : (Expr.index e i sp).span = sp := rfl
theorem Expr.span_slice {e i1 i2 i3 sp} : (Expr.slice e i1 i2 i3 sp).span = sp := rfl
theorem Expr.span_superField {ssp name sp} : (Expr.superField ssp name sp).span = sp := rfl
theorem Expr.span_superIndex {ssp i sp} : (Expr.superIndex ssp i sp).span = sp := rfl
theorem Expr.span_call {f args ts sp} : (Expr.call f args ts sp).span = sp := rfl
theorem Expr.span_ident {i sp} : (Expr.ident i sp).span = sp := rfl
theorem Expr.span_local {binds body sp} : (Expr.local_ binds body sp).span = sp := rfl
theorem Expr.span_ite {c t e sp} : (Expr.ite_ c t e sp).span = sp := rfl
theorem Expr.span_binary {l op r sp} : (Expr.binary l op r sp).span = sp := rfl
theorem Expr.span_unary {op e sp} : (Expr.unary op e sp).span = sp := rfl
theorem Expr.span_objExt {e o osp sp} : (Expr.objExt e o osp sp).span = sp := rfl
theorem Expr.span_func {params body sp} : (Expr.func params body sp).span = sp := rfl
theorem Expr.span_assert {a body sp} : (Expr.assert_ a body sp).span = sp := rfl
theorem Expr.span_import {e sp} : (Expr.import_ e sp).span = sp := rfl
theorem Expr.span_importStr {e sp} : (Expr.importStr e sp).span = sp := rfl
theorem Expr.span_importBin {e sp} : (Expr.importBin e sp).span = sp := rfl
theorem Expr.span_error {e sp} : (Expr.error_ e sp).span = sp := rfl
theorem Expr.span_inSuper {e ssp sp} : (Expr.inSuper e ssp sp).span = sp := rfl

end Rsj.Parser

