/-
  C15 print/parse, part 15: object members — field names, fields (values, `+:`, hidden, methods),
  object locals and assertions — and the member loop of `parse_obj_inside` on a printed member
  list.
-/
import RsjProofs.ParserRun14
namespace Rsj.Parser

section
variable {toks : List Token} (pe : PState toks → Except (Err toks) (Expr × PState toks)) (R : Nat)

/-! ### field names -/

def FieldNameOK (full : Bool) (n : FieldName) : Prop := ∀ e sp, n = .expr e sp → PCh pe R full e

/-- the first token of a printed field name -/
def FieldStartTok (tk : TokKind) : Prop := (∃ v, tk = .ident v) ∨ (∃ s, tk = .string s) ∨ tk = sim .LeftBracket

omit pe R in
theorem prFieldName_cons (full : Bool) (n : FieldName) : ∃ a Z, prFieldName full n = a :: Z ∧ FieldStartTok a := by
  cases n with
  | ident i => exact ⟨.ident i.value, [], by simp [prFieldName], Or.inl ⟨_, rfl⟩⟩
  | str s sp => exact ⟨.string s, [], by simp [prFieldName], Or.inr (Or.inl ⟨_, rfl⟩)⟩
  | expr e sp => exact ⟨sim .LeftBracket, sub full e 0 false false ++ [sim .RightBracket], by simp [prFieldName], Or.inr (Or.inr rfl)⟩

def FieldName.isExpr : FieldName → Bool
  | .expr _ _ => true
  | _ => false

/-- `maybe_parse_field_name` on a printed field name -/
theorem fieldName_step {full : Bool} {n : FieldName} (hn : FieldNameOK pe R full n) {st : PState toks}
    {b : TokKind} {ks : List TokKind} (hk : st.kinds = prFieldName full n ++ b :: ks) (hlen : st.kinds.length ≤ R) :
    ∃ n' st', maybeParseFieldName pe st = .ok (some n', st') ∧ n'.erase = n.erase ∧ st'.kinds = b :: ks ∧
      n'.isExpr = n.isExpr := by
  cases n with
  | ident i =>
    obtain ⟨st1, he1, hk1⟩ := eatIdent_hit (v := i.value) (b := b) (ks := ks) true (by rw [hk]; simp [prFieldName])
    refine ⟨.ident ⟨i.value, st.cur.span⟩, st1, ?_, by simp [FieldName.erase, Ident.erase], hk1, rfl⟩
    unfold maybeParseFieldName
    rw [he1]; rfl
  | str s sp =>
    have hk0 : st.kinds = .string s :: b :: ks := by rw [hk]; simp [prFieldName]
    have hc := cur_kind_of_kinds hk0
    have hm : eatIdent true st = .ok (none, st.pushIf true .ident) := eatIdent_miss true (by rw [hc]; simp)
    obtain ⟨st1, he1, hk1⟩ := eatString_hit (st := st.pushIf true .ident) true (by rw [kinds_pushIf]; exact hk0)
    refine ⟨.str s (st.pushIf true .ident).cur.span, st1, ?_, by simp [FieldName.erase], hk1, rfl⟩
    unfold maybeParseFieldName
    rw [hm]; simp only [bind, Except.bind]
    rw [he1]; rfl
  | expr e sp =>
    have he := hn e sp rfl
    obtain ⟨x, X, hx, _, _⟩ := (he.2 false).cons
    have hk0 : st.kinds = sim .LeftBracket :: x :: (X ++ sim .RightBracket :: b :: ks) := by
      rw [hk]; simp [prFieldName, hx]
    have hc := cur_kind_of_kinds hk0
    have hm1 : eatIdent true st = .ok (none, st.pushIf true .ident) :=
      eatIdent_miss true (by rw [hc]; simp [sim])
    have hm2 : eatString true (st.pushIf true .ident) = .ok (none, (st.pushIf true .ident).pushIf true .string) :=
      eatString_miss true (by rw [cur_pushIf, hc]; simp [sim])
    have hm3 : eatTextBlock true ((st.pushIf true .ident).pushIf true .string) =
        .ok (none, ((st.pushIf true .ident).pushIf true .string).pushIf true .textBlock) :=
      eatTextBlock_miss true (by rw [cur_pushIf, cur_pushIf, hc]; simp [sim])
    obtain ⟨st1, he1, hk1⟩ := eatSimple_hit
      (st := ((st.pushIf true .ident).pushIf true .string).pushIf true .textBlock) true
      (by rw [kinds_pushIf, kinds_pushIf, kinds_pushIf]; exact hk0)
    obtain ⟨e', st2, hpe', hee, hk2⟩ := he.run pe R (st := st1) (tk := sim .RightBracket) (T := b :: ks)
      (by rw [hk1, hx]; rfl) (by rw [hk1]; rw [hk0] at hlen; simp at hlen ⊢; omega)
      stopTok_rbracket (by simp [sim])
    obtain ⟨st3, he3, hk3⟩ := expectSimple_hit true hk2
    refine ⟨.expr e' (surround (((st.pushIf true .ident).pushIf true .string).pushIf true .textBlock).cur.span
      st2.cur.span), st3, ?_, by simp [FieldName.erase, hee], hk3, rfl⟩
    unfold maybeParseFieldName
    rw [hm1]; simp only [bind, Except.bind]
    rw [hm2]; simp only []
    rw [hm3]; simp only []
    rw [he1]; simp only []
    rw [hpe']; simp only []
    rw [he3]; rfl

/-- `maybe_parse_field_name` when no field name starts here -/
theorem fieldName_miss {st : PState toks} (h1 : ∀ v, st.cur.kind ≠ .ident v) (h2 : ∀ v, st.cur.kind ≠ .string v)
    (h3 : ∀ v, st.cur.kind ≠ .textBlock v) (h4 : st.cur.kind ≠ sim .LeftBracket) :
    ∃ st', maybeParseFieldName pe st = .ok (none, st') ∧ st'.kinds = st.kinds := by
  have hm1 : eatIdent true st = .ok (none, st.pushIf true .ident) := eatIdent_miss true h1
  have hm2 : eatString true (st.pushIf true .ident) = .ok (none, (st.pushIf true .ident).pushIf true .string) :=
    eatString_miss true (by rw [cur_pushIf]; exact h2)
  have hm3 : eatTextBlock true ((st.pushIf true .ident).pushIf true .string) =
      .ok (none, ((st.pushIf true .ident).pushIf true .string).pushIf true .textBlock) :=
    eatTextBlock_miss true (by rw [cur_pushIf, cur_pushIf]; exact h3)
  have hm4 : eatSimple .LeftBracket true (((st.pushIf true .ident).pushIf true .string).pushIf true .textBlock) =
      .ok (none, (((st.pushIf true .ident).pushIf true .string).pushIf true .textBlock).pushIf true
        (.simple .LeftBracket)) :=
    eatSimple_miss true (by rw [cur_pushIf, cur_pushIf, cur_pushIf]; simpa [sim] using h4)
  refine ⟨(((st.pushIf true .ident).pushIf true .string).pushIf true .textBlock).pushIf true
        (.simple .LeftBracket), ?_, ?_⟩
  · unfold maybeParseFieldName
    rw [hm1]; simp only [bind, Except.bind]
    rw [hm2]; simp only []
    rw [hm3]; simp only []
    rw [hm4]; rfl
  · simp only [kinds_pushIf]

/-! ### visibility tokens -/

omit pe R in
theorem plusVis_step (plus : Bool) (vis : Visibility) {st : PState toks} {b : TokKind} {ks : List TokKind}
    (hk : st.kinds = sim (visTok plus vis) :: b :: ks) :
    ∃ st', eatPlusVisibility true st = .ok (some (plus, vis), st') ∧ st'.kinds = b :: ks := by
  have key : ∀ (pre post : List (STok × (Bool × Visibility))),
      [(STok.Colon, (false, Visibility.Default)), (.ColonColon, (false, .Hidden)),
       (.ColonColonColon, (false, .ForceVisible)), (.PlusColon, (true, .Default)),
       (.PlusColonColon, (true, .Hidden)), (.PlusColonColonColon, (true, .ForceVisible))] =
        pre ++ (visTok plus vis, (plus, vis)) :: post → (∀ x ∈ pre, x.1 ≠ visTok plus vis) →
      ∃ st', eatPlusVisibility true st = .ok (some (plus, vis), st') ∧ st'.kinds = b :: ks := by
    intro pre post hsplit hpre
    obtain ⟨st', he, hk'⟩ := eatFirst_hit true pre (visTok plus vis) (plus, vis) post st b ks hpre hk
    refine ⟨st', ?_, hk'⟩
    unfold eatPlusVisibility
    rw [hsplit, he]; rfl
  cases plus <;> cases vis
  · exact key [] _ rfl (by decide)
  · exact key [(.Colon, (false, .Default))] _ rfl (by decide)
  · exact key [(.Colon, (false, .Default)), (.ColonColon, (false, .Hidden))] _ rfl (by decide)
  · exact key [(.Colon, (false, .Default)), (.ColonColon, (false, .Hidden)),
      (.ColonColonColon, (false, .ForceVisible))] _ rfl (by decide)
  · exact key [(.Colon, (false, .Default)), (.ColonColon, (false, .Hidden)),
      (.ColonColonColon, (false, .ForceVisible)), (.PlusColon, (true, .Default))] _ rfl (by decide)
  · exact key [(.Colon, (false, .Default)), (.ColonColon, (false, .Hidden)),
      (.ColonColonColon, (false, .ForceVisible)), (.PlusColon, (true, .Default)),
      (.PlusColonColon, (true, .Hidden))] [] rfl (by decide)

omit pe R in
theorem vis_step (vis : Visibility) {st : PState toks} {b : TokKind} {ks : List TokKind}
    (hk : st.kinds = sim (visTok false vis) :: b :: ks) :
    ∃ st', eatVisibility true st = .ok (some vis, st') ∧ st'.kinds = b :: ks := by
  have key : ∀ (pre post : List (STok × Visibility)),
      [(STok.Colon, Visibility.Default), (.ColonColon, .Hidden), (.ColonColonColon, .ForceVisible)] =
        pre ++ (visTok false vis, vis) :: post → (∀ x ∈ pre, x.1 ≠ visTok false vis) →
      ∃ st', eatVisibility true st = .ok (some vis, st') ∧ st'.kinds = b :: ks := by
    intro pre post hsplit hpre
    obtain ⟨st', he, hk'⟩ := eatFirst_hit true pre (visTok false vis) vis post st b ks hpre hk
    refine ⟨st', ?_, hk'⟩
    unfold eatVisibility
    rw [hsplit, he]; rfl
  cases vis
  · exact key [] _ rfl (by decide)
  · exact key [(.Colon, .Default)] _ rfl (by decide)
  · exact key [(.Colon, .Default), (.ColonColon, .Hidden)] [] rfl (by decide)

omit pe R in
theorem visTok_ne_lparen (plus : Bool) (vis : Visibility) : sim (visTok plus vis) ≠ sim .LeftParen := by
  cases plus <;> cases vis <;> decide

/-! ### fields -/

def FieldOK (full : Bool) : Field → Prop
  | .value n _ _ e => FieldNameOK pe R full n ∧ PCh pe R full e
  | .func n ps _ _ e => FieldNameOK pe R full n ∧ (∀ p ∈ ps, ∀ d, p.dflt = some d → PCh pe R full d) ∧
      PCh pe R full e

def Field.nparams : Field → Nat
  | .value _ _ _ _ => 0
  | .func _ ps _ _ _ => ps.length

omit pe R in
theorem prField_cons (full : Bool) (f : Field) : ∃ a Z, prField full f = a :: Z ∧ FieldStartTok a := by
  cases f with
  | value n plus vis e =>
    obtain ⟨a, Z, hz, ha⟩ := prFieldName_cons full n
    exact ⟨a, Z ++ sim (visTok plus vis) :: sub full e 0 false false, by simp [prField, hz], ha⟩
  | func n ps sp vis e =>
    obtain ⟨a, Z, hz, ha⟩ := prFieldName_cons full n
    exact ⟨a, Z ++ sim .LeftParen :: (prParams full ps ++ sim .RightParen ::
      sim (visTok false vis) :: sub full e 0 false false), by simp [prField, hz], ha⟩

omit pe R in
theorem prField_length (full : Bool) (f : Field) : f.nparams + 1 ≤ (prField full f).length := by
  cases f with
  | value n plus vis e =>
    obtain ⟨a, Z, hz, _⟩ := prFieldName_cons full n
    simp [prField, hz, Field.nparams]
  | func n ps sp vis e =>
    have := prParams_length full ps
    simp [prField, Field.nparams]; omega

/-- `maybe_parse_field` on a printed field, followed by `,`, `}` or `for` -/
theorem field_step {full : Bool} {f : Field} (hf : FieldOK pe R full f) {st : PState toks} {tk : TokKind}
    {T : List TokKind} (hk : st.kinds = prField full f ++ tk :: T) (hlen : st.kinds.length ≤ R)
    (hstop : StopTok tk) (hne2 : tk ≠ sim .Else) :
    ∃ f' st', f'.erase = f.erase ∧ st'.kinds = tk :: T ∧
      (∀ c h, fieldFlags f' c h = fieldFlags f c h) ∧
      ∀ fuel, f.nparams ≤ fuel → maybeParseField pe fuel st = .ok (some f', st') := by
  cases f with
  | value n plus vis e =>
    obtain ⟨hn, he⟩ := hf
    obtain ⟨x, X, hx, _, _⟩ := (he.2 false).cons
    have hk0 : st.kinds = prFieldName full n ++ sim (visTok plus vis) :: (x :: (X ++ tk :: T)) := by
      rw [hk]; simp [prField, hx]
    obtain ⟨n', st1, hpn, hne, hk1, hsh⟩ := fieldName_step pe R hn hk0 hlen
    have hm : eatSimple .LeftParen true st1 = .ok (none, st1.pushIf true (.simple .LeftParen)) :=
      eatSimple_miss true (by rw [cur_kind_of_kinds hk1]; simpa [sim] using visTok_ne_lparen plus vis)
    obtain ⟨st2, he2, hk2⟩ := plusVis_step plus vis (st := st1.pushIf true (.simple .LeftParen))
      (by rw [kinds_pushIf]; exact hk1)
    have hlen1 : st1.kinds.length < st.kinds.length := by
      obtain ⟨a, Z, hz, _⟩ := prFieldName_cons full n
      rw [hk1, hk0, hz]; simp <;> omega
    obtain ⟨e', st3, hpe', hee, hk3⟩ := he.run pe R (st := st2) (tk := tk) (T := T) (by rw [hk2, hx]; rfl)
      (by rw [hk2]; rw [hk1] at hlen1; simp at hlen1 ⊢; omega) hstop hne2
    refine ⟨.value n' plus vis e', st3, by simp [Field.erase, hne, hee], hk3, ?_, fun fuel _ => ?_⟩
    · intro c h
      cases n <;> cases n' <;> first | (cases vis <;> rfl) | (simp [FieldName.isExpr] at hsh)
    · unfold maybeParseField
      rw [hpn]; simp only [bind, Except.bind]
      rw [hm]; simp only []
      rw [he2]; simp only []
      rw [hpe']; rfl
  | func n ps sp vis e =>
    obtain ⟨hn, hps, he⟩ := hf
    obtain ⟨x, X, hx, _, _⟩ := (he.2 false).cons
    obtain ⟨z, Z, hz⟩ := cons_of_append_cons (prParams full ps) (sim .RightParen)
      (sim (visTok false vis) :: (sub full e 0 false false ++ tk :: T))
    have hk0 : st.kinds = prFieldName full n ++ sim .LeftParen :: z :: Z := by
      rw [hk, ← hz]; simp [prField]
    obtain ⟨n', st1, hpn, hne, hk1, _⟩ := fieldName_step pe R hn hk0 hlen
    obtain ⟨st2, he2, hk2⟩ := eatSimple_hit true hk1
    have hlen1 : st1.kinds.length < st.kinds.length := by
      obtain ⟨a, Z', hz', _⟩ := prFieldName_cons full n
      rw [hk1, hk0, hz']; simp <;> omega
    obtain ⟨ps', psp, st3, hpse, hk3, hpp⟩ := parseParams_fwd pe R ps hps (st := st2)
      (y := sim (visTok false vis)) (Y := sub full e 0 false false ++ tk :: T) (by rw [hk2, hz])
      (by rw [hk2]; rw [hk1] at hlen1; simp at hlen1 ⊢; omega)
    have hk3' : st3.kinds = sim (visTok false vis) :: x :: (X ++ tk :: T) := by rw [hk3, hx]; rfl
    obtain ⟨st4, he4, hk4⟩ := vis_step vis hk3'
    obtain ⟨e', st5, hpe', hee, hk5⟩ := he.run pe R (st := st4) (tk := tk) (T := T) (by rw [hk4, hx]; rfl)
      (by
        rw [hk4]
        have h1 : st3.kinds.length ≤ st2.kinds.length := by rw [hk3, hk2, ← hz]; simp <;> omega
        rw [hk3'] at h1; rw [hk2] at h1; rw [hk1] at hlen1
        simp at hlen1 h1 ⊢; omega) hstop hne2
    refine ⟨.func n' ps' (surround st1.cur.span psp) vis e', st5, by simp [Field.erase, hne, hpse, hee], hk5,
      fun c h => rfl, fun fuel hfuel => ?_⟩
    unfold maybeParseField
    rw [hpn]; simp only [bind, Except.bind]
    rw [he2]; simp only []
    rw [hpp fuel hfuel]; simp only []
    rw [he4]; simp only []
    rw [hpe']; rfl

/-! ### members -/

def MemberOK (full : Bool) : Member → Prop
  | .local_ b => BindOK pe R full b
  | .assert_ a => AssertOK pe R full a
  | .field f => FieldOK pe R full f

/-- the first token of a printed member -/
def MemberStartTok (tk : TokKind) : Prop := FieldStartTok tk ∨ tk = sim .Local ∨ tk = sim .Assert

omit pe R in
theorem prMember_cons (full : Bool) (m : Member) : ∃ a Z, prMember full m = a :: Z ∧ MemberStartTok a := by
  cases m with
  | local_ b => exact ⟨_, prBind full b, by simp [prMember], Or.inr (Or.inl rfl)⟩
  | assert_ a =>
    obtain ⟨Z, hz⟩ := prAssert_cons full a
    exact ⟨_, Z, by simp [prMember, hz], Or.inr (Or.inr rfl)⟩
  | field f =>
    obtain ⟨a, Z, hz, ha⟩ := prField_cons full f
    exact ⟨a, Z, by simp [prMember, hz], Or.inl ha⟩

omit pe R in
theorem MemberStartTok.ne {tk : TokKind} (h : MemberStartTok tk) {k : STok} (h1 : k ≠ .LeftBracket)
    (h2 : k ≠ .Local) (h3 : k ≠ .Assert) : tk ≠ sim k := by
  rcases h with (⟨v, rfl⟩ | ⟨s, rfl⟩ | rfl) | rfl | rfl <;> simp [sim] <;>
    (intro hh; subst hh; first | exact h1 rfl | exact h2 rfl | exact h3 rfl)

/-- classification in `parse_obj_inside`: new `(can_be_comp, has_comp_dyn_field)` after a member -/
def memberFlags (m : Member) (canBeComp hasDyn : Bool) : Bool × Bool :=
  match m with
  | .local_ _ => (canBeComp, hasDyn)
  | .field f => fieldFlags f canBeComp hasDyn
  | .assert_ _ => (false, hasDyn)

/-- the part of the loop body of `parse_obj_inside` that reads one member -/
def memberBlock (fuel : Nat) (members : List Member) (canBeComp hasDyn : Bool) (st : PState toks) :
    Except (Err toks) ((List Member × Bool × Bool) × PState toks) := do
  let (ol, st) ← maybeParseObjLocal pe fuel st
  (match ol with
    | some b => pure ((members ++ [.local_ b], canBeComp, hasDyn), st)
    | none => do
      let (fl, st) ← maybeParseField pe fuel st
      match fl with
      | some f =>
        let (c, h) := fieldFlags f canBeComp hasDyn
        pure ((members ++ [.field f], c, h), st)
      | none =>
        let (a, st) ← maybeParseAssert pe true st
        match a with
        | some (_, a) => pure ((members ++ [.assert_ a], false, hasDyn), st)
        | none => reportExpected st
    : Except (Err toks) ((List Member × Bool × Bool) × PState toks))

/-- … and the part after the member: `}`, `,`, a comprehension, or the next iteration -/
def objTail (fuel : Nat) (members : List Member) (canBeComp hasDyn : Bool) (st : PState toks) :
    Except (Err toks) ((ObjInside × Span) × PState toks) := do
  let (rb, st) ← eatSimple .RightBrace true st
  match rb with
  | some endSp => pure ((.members members, endSp), st)
  | none =>
    let (c, st) ← eatSimple .Comma true st
    match c with
    | some _ =>
      let (rb2, st) ← eatSimple .RightBrace true st
      match rb2 with
      | some endSp => pure ((.members members, endSp), st)
      | none =>
        if canBeComp && hasDyn then do
          let (cs, st) ← maybeParseCompSpec pe fuel st
          match cs with
          | some spec =>
            let (endSp, st) ← expectSimple .RightBrace true st
            let (o, st) ← liftFault (makeComp members spec) st
            pure ((o, endSp), st)
          | none => objLoop pe fuel members canBeComp hasDyn st
        else objLoop pe fuel members canBeComp hasDyn st
    | none =>
      if canBeComp && hasDyn then do
        let (cs, st) ← maybeParseCompSpec pe fuel st
        match cs with
        | some spec =>
          let (endSp, st) ← expectSimple .RightBrace true st
          let (o, st) ← liftFault (makeComp members spec) st
          pure ((o, endSp), st)
        | none => reportExpected st
      else reportExpected st

theorem objLoop_eq (fuel : Nat) (members : List Member) (canBeComp hasDyn : Bool) (st : PState toks) :
    objLoop pe (fuel + 1) members canBeComp hasDyn st =
      (match memberBlock pe fuel members canBeComp hasDyn st with
       | .error e => .error e
       | .ok ((members, canBeComp, hasDyn), st) => objTail pe fuel members canBeComp hasDyn st) := by
  rw [objLoop]
  unfold memberBlock objTail
  simp only [bind, Except.bind]
  cases maybeParseObjLocal pe fuel st with
  | error e => rfl
  | ok v =>
    obtain ⟨ol, st1⟩ := v
    cases ol with
    | some b => rfl
    | none =>
      simp only []
      cases maybeParseField pe fuel st1 with
      | error e => rfl
      | ok v =>
        obtain ⟨fl, st2⟩ := v
        cases fl with
        | some f => rfl
        | none =>
          simp only []
          cases maybeParseAssert pe true st2 with
          | error e => rfl
          | ok v =>
            obtain ⟨a, st3⟩ := v
            cases a with
            | none => rfl
            | some p => rfl

omit pe R in
theorem bind_params_le {full : Bool} {b : Bind} (h : b.hasParams = false → b.params = []) :
    b.params.length + 2 ≤ (prBind full b).length := by
  obtain ⟨n, hp, ps, sp, v⟩ := b
  simp only [Bind.hasParams, Bind.params] at h ⊢
  cases hp with
  | false => rw [h rfl]; simp [prBind]
  | true =>
    have := prParams_length full ps
    simp [prBind]; omega

def Member.nparams : Member → Nat
  | .local_ b => b.params.length
  | .assert_ _ => 0
  | .field f => f.nparams

theorem prMember_length {full : Bool} {m : Member} (hm : MemberOK pe R full m) :
    m.nparams + 1 ≤ (prMember full m).length := by
  cases m with
  | local_ b =>
    have := bind_params_le (full := full) (BindOK.noParams hm)
    simp [prMember, Member.nparams]; omega
  | assert_ a =>
    obtain ⟨Z, hz⟩ := prAssert_cons full a
    simp [prMember, Member.nparams, hz]
  | field f =>
    have := prField_length full f
    simp [prMember, Member.nparams]; omega

/-- one member, followed by `,`, `}` or `for` -/
theorem member_step {full : Bool} {m : Member} (hm : MemberOK pe R full m) (members : List Member) (c h : Bool)
    {st : PState toks} {tk : TokKind} {T : List TokKind} (hk : st.kinds = prMember full m ++ tk :: T)
    (hlen : st.kinds.length ≤ R) (hstop : StopTok tk) (hne1 : tk ≠ sim .Colon) (hne2 : tk ≠ sim .Else) :
    ∃ m' st', m'.erase = m.erase ∧ st'.kinds = tk :: T ∧
      (∀ b, m = .local_ b → ∃ b', m' = .local_ b') ∧
      ∀ fuel, m.nparams ≤ fuel →
        memberBlock pe fuel members c h st = .ok ((members ++ [m'], memberFlags m c h), st') := by
  cases m with
  | local_ b =>
    have hk0 : st.kinds = sim .Local :: (prBind full b ++ tk :: T) := by rw [hk]; simp [prMember]
    obtain ⟨Z, hz⟩ := prBind_cons full b
    rw [hz] at hk0
    obtain ⟨st1, he1, hk1⟩ := eatSimple_hit true hk0
    have hk1' : st1.kinds = prBind full b ++ tk :: T := by rw [hk1, hz]; rfl
    obtain ⟨b', st2, hbe, hk2, hpb⟩ := bind_step pe R hm hk1'
      (by rw [hk1]; rw [hk0] at hlen; simp at hlen ⊢; omega) hstop hne2
    refine ⟨.local_ b', st2, by simp [Member.erase, hbe], hk2, fun _ _ => ⟨b', rfl⟩, fun fuel hfuel => ?_⟩
    unfold memberBlock maybeParseObjLocal
    rw [he1]; simp only [bind, Except.bind]
    rw [hpb fuel hfuel]; rfl
  | field f =>
    obtain ⟨a, Z, hz, ha⟩ := prField_cons full f
    have hk0 : st.kinds = prField full f ++ tk :: T := by rw [hk]; simp [prMember]
    have hc : st.cur.kind = a := by
      apply cur_kind_of_kinds (T := Z ++ tk :: T)
      rw [hk0, hz]; rfl
    have hm1 : eatSimple .Local true st = .ok (none, st.pushIf true (.simple .Local)) :=
      eatSimple_miss true (by
        rw [hc]; rcases ha with ⟨v, rfl⟩ | ⟨s, rfl⟩ | rfl <;> simp [sim])
    obtain ⟨f', st2, hfe, hk2, hfl, hpf⟩ := field_step pe R hm (st := st.pushIf true (.simple .Local))
      (by rw [kinds_pushIf]; exact hk0) (by rw [kinds_pushIf]; exact hlen) hstop hne2
    refine ⟨.field f', st2, by simp [Member.erase, hfe], hk2, fun _ h => Member.noConfusion h, fun fuel hfuel => ?_⟩
    unfold memberBlock maybeParseObjLocal
    rw [hm1]; simp only [bind, Except.bind, pure, Except.pure]
    rw [hpf fuel hfuel]; simp only []
    rw [hfl c h]
    rfl
  | assert_ a =>
    obtain ⟨Z, hz⟩ := prAssert_cons full a
    have hk0 : st.kinds = prAssert full a ++ tk :: T := by rw [hk]; simp [prMember]
    have hc : st.cur.kind = sim .Assert := by
      apply cur_kind_of_kinds (T := Z ++ tk :: T)
      rw [hk0, hz]; rfl
    have hm1 : eatSimple .Local true st = .ok (none, st.pushIf true (.simple .Local)) :=
      eatSimple_miss true (by rw [hc]; simp [sim])
    obtain ⟨st2, hfn, hk2⟩ := fieldName_miss pe (st := st.pushIf true (.simple .Local))
      (by rw [cur_pushIf, hc]; simp [sim]) (by rw [cur_pushIf, hc]; simp [sim])
      (by rw [cur_pushIf, hc]; simp [sim]) (by rw [cur_pushIf, hc]; simp [sim])
    rw [kinds_pushIf] at hk2
    obtain ⟨a', st3, hpa, hae, hk3⟩ := assert_step pe R hm true (st := st2) (by rw [hk2]; exact hk0)
      (by rw [hk2]; exact hlen) hstop hne1 hne2
    refine ⟨.assert_ a', st3, by simp [Member.erase, hae], hk3, fun _ h => Member.noConfusion h, fun fuel _ => ?_⟩
    unfold memberBlock maybeParseObjLocal
    rw [hm1]; simp only [bind, Except.bind, pure, Except.pure]
    unfold maybeParseField
    rw [hfn]; simp only [bind, Except.bind, pure, Except.pure]
    rw [hpa]; rfl

/-- `maybe_parse_comp_spec` when no `for` follows -/
theorem compSpec_miss {st : PState toks} (h : st.cur.kind ≠ sim .For) :
    ∃ st', (∀ fuel, maybeParseCompSpec pe fuel st = .ok (none, st')) ∧ st'.kinds = st.kinds := by
  refine ⟨st.pushIf true (.simple .For), fun fuel => ?_, kinds_pushIf _ _ _⟩
  unfold maybeParseCompSpec maybeParseForSpec
  rw [eatSimple_miss true (by simpa [sim] using h)]; rfl

/-- the member loop of `parse_obj_inside` on a printed, non-empty member list -/
theorem members_loop {full : Bool} : ∀ (ms : List Member), ms ≠ [] → (∀ m ∈ ms, MemberOK pe R full m) →
    ∀ (acc : List Member) (c h : Bool) (st : PState toks) (y : TokKind) (Y : List TokKind),
    st.kinds = prMembers full ms ++ sim .RightBrace :: y :: Y → st.kinds.length ≤ R →
    ∃ ms' sp st', eraseMembers ms' = eraseMembers ms ∧ st'.kinds = y :: Y ∧
      ∀ fuel, st.kinds.length ≤ fuel → objLoop pe fuel acc c h st = .ok ((.members (acc ++ ms'), sp), st')
  | [], hne, _, _, _, _, _, _, _, _, _ => absurd rfl hne
  | [m], _, hall, acc, c, h, st, y, Y, hk, hlen => by
    have hk0 : st.kinds = prMember full m ++ sim .RightBrace :: y :: Y := by simpa [prMembers] using hk
    obtain ⟨m', st1, hme, hk1, _, hpm⟩ := member_step pe R (hall m (by simp)) acc c h hk0 hlen
      stopTok_rbrace (by simp [sim]) (by simp [sim])
    obtain ⟨st2, he2, hk2⟩ := eatSimple_hit true hk1
    refine ⟨[m'], st1.cur.span, st2, by simp [eraseMembers, hme], hk2, fun fuel hfuel => ?_⟩
    have hl := prMember_length pe R (hall m (by simp))
    obtain ⟨f, rfl⟩ : ∃ f, fuel = f + 1 := ⟨fuel - 1, by rw [hk0] at hfuel; simp at hfuel; omega⟩
    rw [objLoop_eq, hpm f (by rw [hk0] at hfuel; simp at hfuel; omega)]
    simp only []
    unfold objTail
    rw [he2]; rfl
  | m :: m2 :: rest, _, hall, acc, c, h, st, y, Y, hk, hlen => by
    have hk0 : st.kinds = prMember full m ++ sim .Comma :: (prMembers full (m2 :: rest) ++ sim .RightBrace :: y :: Y) := by
      simpa [prMembers] using hk
    obtain ⟨m', st1, hme, hk1, _, hpm⟩ := member_step pe R (hall m (by simp)) acc c h hk0 hlen
      stopTok_comma (by simp [sim]) (by simp [sim])
    have hc1 := cur_kind_of_kinds hk1
    have hm1 : eatSimple .RightBrace true st1 = .ok (none, st1.pushIf true (.simple .RightBrace)) :=
      eatSimple_miss true (by rw [hc1]; simp [sim])
    obtain ⟨z, Z, hz, hzs⟩ : ∃ z Z, prMembers full (m2 :: rest) = z :: Z ∧ MemberStartTok z := by
      obtain ⟨a, Z, hz, ha⟩ := prMember_cons full m2
      cases rest with
      | nil => exact ⟨a, Z, by simp [prMembers, hz], ha⟩
      | cons m3 rest' => exact ⟨a, Z ++ sim .Comma :: prMembers full (m3 :: rest'), by simp [prMembers, hz], ha⟩
    have hk1' : (st1.pushIf true (.simple .RightBrace)).kinds =
        sim .Comma :: z :: (Z ++ sim .RightBrace :: y :: Y) := by
      rw [kinds_pushIf, hk1, hz]; rfl
    obtain ⟨st2, he2, hk2⟩ := eatSimple_hit true hk1'
    have hc2 := cur_kind_of_kinds hk2
    have hm2 : eatSimple .RightBrace true st2 = .ok (none, st2.pushIf true (.simple .RightBrace)) :=
      eatSimple_miss true (by rw [hc2]; simpa [sim] using hzs.ne (k := .RightBrace) (by decide) (by decide) (by decide))
    have hlen1 : st1.kinds.length < st.kinds.length := by
      obtain ⟨a, Z', hz', _⟩ := prMember_cons full m
      rw [hk1, hk0, hz']; simp <;> omega
    have hk3 : (st2.pushIf true (.simple .RightBrace)).kinds =
        prMembers full (m2 :: rest) ++ sim .RightBrace :: y :: Y := by rw [kinds_pushIf, hk2, hz]; rfl
    have hlen3 : (st2.pushIf true (.simple .RightBrace)).kinds.length + 1 ≤ st1.kinds.length := by
      rw [kinds_pushIf, hk2, hk1, hz]; simp
    -- no comprehension starts here
    obtain ⟨st3, hcs, hk3c⟩ := compSpec_miss pe (st := st2.pushIf true (.simple .RightBrace))
      (by rw [cur_pushIf, hc2]; exact hzs.ne (k := .For) (by decide) (by decide) (by decide))
    obtain ⟨ms', sp, st4, hmse, hk4, hloop⟩ := members_loop (m2 :: rest) (by simp)
      (fun x hx => hall x (by simp [hx])) (acc ++ [m']) (memberFlags m c h).1 (memberFlags m c h).2
      (st2.pushIf true (.simple .RightBrace)) y Y hk3 (by omega)
    obtain ⟨ms'', sp', st4', hmse', hk4', hloop'⟩ := members_loop (m2 :: rest) (by simp)
      (fun x hx => hall x (by simp [hx])) (acc ++ [m']) (memberFlags m c h).1 (memberFlags m c h).2
      st3 y Y (by rw [hk3c]; exact hk3) (by rw [hk3c]; omega)
    have hl := prMember_length pe R (hall m (by simp))
    by_cases hcond : ((memberFlags m c h).1 && (memberFlags m c h).2) = true
    · refine ⟨m' :: ms'', sp', st4', by simp [eraseMembers, hme, hmse'], hk4', fun fuel hfuel => ?_⟩
      obtain ⟨f, rfl⟩ : ∃ f, fuel = f + 1 := ⟨fuel - 1, by rw [hk0] at hfuel; simp at hfuel; omega⟩
      rw [objLoop_eq, hpm f (by rw [hk0] at hfuel; simp at hfuel; omega)]
      simp only []
      unfold objTail
      rw [hm1]; simp only [bind, Except.bind]
      rw [he2]; simp only []
      rw [hm2]; simp only []
      rw [if_pos hcond, hcs]; simp only []
      rw [hloop' f (by rw [hk3c]; omega)]
      simp
    · refine ⟨m' :: ms', sp, st4, by simp [eraseMembers, hme, hmse], hk4, fun fuel hfuel => ?_⟩
      obtain ⟨f, rfl⟩ : ∃ f, fuel = f + 1 := ⟨fuel - 1, by rw [hk0] at hfuel; simp at hfuel; omega⟩
      rw [objLoop_eq, hpm f (by rw [hk0] at hfuel; simp at hfuel; omega)]
      simp only []
      unfold objTail
      rw [hm1]; simp only [bind, Except.bind]
      rw [he2]; simp only []
      rw [hm2]; simp only []
      rw [if_neg hcond]
      rw [hloop f (by omega)]
      simp

end
end Rsj.Parser
