import RsjProofs.EvalEmbBuiltins2a
import RsjProofs.EvalEmbBuiltins2b
/-!
  Store-embedding invariance of the builtins `std_equals std_compare std_primitiveEquals std_assertEqual
  std_toString std_sortKeys std_qsort std_sortSet` of the evaluator model, and of the dispatcher `builtinCall2`
  (every builtin, applied to related argument thunks at related depths).
-/
set_option linter.unusedVariables false
namespace Rsj.Eval
open Rsj.Core
set_option linter.unusedSectionVars false
variable [Mode]

private theorem rlist_reverse {α β : Type} {R : Emb → α → β → Prop} {ρ : Emb} {l : List α} {l' : List β}
    (h : RList R ρ l l') : RList R ρ l.reverse l'.reverse := by
  induction h with
  | nil => exact .nil
  | cons h1 _ ih => simpa using ih.snoc h1

/-- a relation on lists together with the length of the left list -/
private def RLenK {α β : Type} (k : Nat) (R : Emb → List α → List β → Prop) : Emb → List α → List β → Prop :=
  fun ρ l l' => R ρ l l' ∧ l.length = k
private instance {α β : Type} (k : Nat) (R : Emb → List α → List β → Prop) [Mono R] : Mono (RLenK k R) :=
  ⟨fun h r => ⟨Mono.mono h r.1, r.2⟩⟩

section
variable {cfg cfg' : Cfg} [RCfg cfg cfg'] {rec rec' : Task → M Value} (hrec : RecRel rec rec')
include hrec

/-- `std.equals` on related thunks -/
theorem std_equals_rel {ρ : Emb} {t0 t0' t1 t1' : TId} (d1 : Nat) {d1' : Nat} (ht0 : RT ρ t0 t0')
    (ht1 : RT ρ t1 t1') (hd : RDep d1 d1' := by rdep) :
    MRel ρ RVal (std_equals rec t0 t1 d1) (std_equals rec' t0' t1' d1') := by
  unfold std_equals
  mbind (hrec _ _ _ (.force d1 ht0)) with av av' hav
  mbind (hrec _ _ _ (.force d1 ht1)) with bv bv' hbv
  exact hrec _ _ _ (.equals d1 hav hbv)

/-- `std.__compare` on related thunks -/
theorem std_compare_rel {ρ : Emb} {t0 t0' t1 t1' : TId} (d1 : Nat) {d1' : Nat} (ht0 : RT ρ t0 t0')
    (ht1 : RT ρ t1 t1') (hd : RDep d1 d1' := by rdep) :
    MRel ρ RVal (std_compare rec t0 t1 d1) (std_compare rec' t0' t1' d1') := by
  unfold std_compare
  mbind (hrec _ _ _ (.force d1 ht0)) with av av' hav
  mbind (hrec _ _ _ (.force d1 ht1)) with bv bv' hbv
  exact hrec _ _ _ (.compare d1 hav hbv)

/-- `std.primitiveEquals` on related thunks: the same boolean or the same error -/
theorem std_primitiveEquals_rel {ρ : Emb} {t0 t0' t1 t1' : TId} (d1 : Nat) {d1' : Nat} (ht0 : RT ρ t0 t0')
    (ht1 : RT ρ t1 t1') (hd : RDep d1 d1' := by rdep) :
    MRel ρ RVal (std_primitiveEquals rec t0 t1 d1) (std_primitiveEquals rec' t0' t1' d1') := by
  unfold std_primitiveEquals
  mbind (hrec _ _ _ (.force d1 ht0)) with av av' hav
  mbind (hrec _ _ _ (.force d1 ht1)) with bv bv' hbv
  cases hav <;> cases hbv <;> simp only [] <;> first | exact MRel_pure (.bool _) | exact MRel_throw rfl

/-- `std.assertEqual` on related thunks: `true`, or the same failure message (both manifestations are equal strings) -/
theorem std_assertEqual_rel {ρ : Emb} {t0 t0' t1 t1' : TId} (d1 : Nat) {d1' : Nat} (ht0 : RT ρ t0 t0')
    (ht1 : RT ρ t1 t1') (hd : RDep d1 d1' := by rdep) :
    MRel ρ RVal (std_assertEqual rec t0 t1 d1) (std_assertEqual rec' t0' t1' d1') := by
  unfold std_assertEqual
  mbind (hrec _ _ _ (.force d1 ht0)) with av av' hav
  mbind (hrec _ _ _ (.force d1 ht1)) with bv bv' hbv
  mbind (hrec _ _ _ (.equals d1 hav hbv)) with r r' hr
  cases hr <;> try simp only []
  case bool b =>
    cases b <;> simp only []
    · mbind (recStr_rel hrec (.manifest d1 false hav)) with ls ls' hls
      cases hls
      mbind (recStr_rel hrec (.manifest d1 false hbv)) with rs rs' hrs
      cases hrs
      exact MRel_throw rfl
    · exact MRel_pure (.bool _)
  all_goals
    mbind (recStr_rel hrec (.manifest d1 false hav)) with ls ls' hls
    cases hls
    mbind (recStr_rel hrec (.manifest d1 false hbv)) with rs rs' hrs
    cases hrs
    exact MRel_throw rfl

/-- `std.toString` on related thunks: the same string -/
theorem std_toString_rel {ρ : Emb} {t t' : TId} (d1 : Nat) {d1' : Nat} (ht : RT ρ t t')
    (hd : RDep d1 d1' := by rdep) :
    MRel ρ RVal (std_toString rec t d1) (std_toString rec' t' d1') := by
  unfold std_toString
  mbind (hrec _ _ _ (.force d1 ht)) with v v' hv
  mbind (coerceToString_rel hrec d1 hv) with s s' hs
  cases hs
  exact MRel_pure (.str _)

omit hrec in
/-- the loop that prepares one call per element (in front of the accumulator) -/
private theorem sortKeysCalls_rel {ρ : Emb} {f f' : FId} {l l' : List TId} {acc acc' : List (Expr × EId)} (hf : RF ρ f f')
    (hl : RList RT ρ l l') (hacc : RList (RProd REq RE) ρ acc acc') :
    MRel ρ (RLenK (l.length + acc.length) (RList (RProd REq RE)))
      (forIn l acc fun it r => do
        let x ← std_bindCall f [it]
        pure (ForInStep.yield (x :: r)))
      (forIn l' acc' fun it r => do
        let x ← std_bindCall f' [it]
        pure (ForInStep.yield (x :: r))) := by
  induction l generalizing ρ l' acc acc' with
  | nil =>
    cases hl
    simp only [List.forIn_nil]
    exact MRel_pure ⟨hacc, by simp⟩
  | cons x xs ih =>
    cases hl with
    | @cons _ x' _ xs' hx hxs =>
      rw [List.forIn_cons, List.forIn_cons]
      mnorm
      mbind (std_bindCall_rel hf (.cons hx .nil)) with c c' hc
      refine MRel_conseq (ih hf hxs (.cons hc hacc)) ?_
      intro ρ2 hle v w hvw
      exact ⟨hvw.1, by rw [hvw.2]; simp only [List.length_cons]; omega⟩

/-- the keys of `std.sort` / `std.set` for related elements and related (optional) `keyF`: related keys -/
theorem std_sortKeys_rel {ρ : Emb} {kf kf' : Option FId} {items items' : List TId} (d1 : Nat) {d1' : Nat}
    (hk : ROpt RF ρ kf kf') (hi : RList RT ρ items items') (hd : RDep d1 d1' := by rdep) :
    MRel ρ (RList RVal) (std_sortKeys cfg rec kf items d1) (std_sortKeys cfg' rec' kf' items' d1') := by
  unfold std_sortKeys
  mnorm
  rw [← hi.length_eq]
  have hdn : RDep (d1 + items.length) (d1' + items.length) := by
    show _ = _ + _
    have : d1' = d1 + Mode.shift := hd
    omega
  cases hk <;> simp only []
  · mbind (checkDepth_rel _ _) with u u' hu
    refine MRel_bind (Q₁ := RList RVal) ?_ ?_
    · refine MRel_forIn (RProd RT REq) (RList RVal) (hi.zipIdx 0) .nil ?_
      intro ρ2 hle p p' acc acc' hm hm' hp hacc
      lift_hyps hle
      obtain ⟨it, i⟩ := p
      obtain ⟨it', i'⟩ := p'
      obtain ⟨hit, hii⟩ := hp
      have hit : RT _ it it' := hit
      have hii : i = i' := hii
      subst hii
      have hlt : i < items.length := by
        have := List.mem_zipIdx hm
        omega
      mbind (hrec _ _ _ (.force (d1 + items.length - i) hit (hd := by
        show _ = _ + _
        have : d1' = d1 + Mode.shift := hd
        omega))) with v v' hv
      exact MRel_pure (.yield (hacc.snoc hv))
    · mcont r r' hr
      exact MRel_pure hr
  · rename_i f f' hf
    mbind (sortKeysCalls_rel hf (rlist_reverse hi) .nil) with calls calls' hcalls
    obtain ⟨hcalls, hlen⟩ := hcalls
    mbind (checkDepth_rel _ _) with u u' hu
    refine MRel_bind (Q₁ := RList RVal) ?_ ?_
    · refine MRel_forIn (RProd (RProd REq RE) REq) (RList RVal) (hcalls.zipIdx 0) .nil ?_
      intro ρ2 hle p p' acc acc' hm hm' hp hacc
      lift_hyps hle
      obtain ⟨⟨body, env⟩, i⟩ := p
      obtain ⟨⟨body', env'⟩, i'⟩ := p'
      obtain ⟨⟨hb, he⟩, hii⟩ := hp
      have hb : body = body' := hb
      have he : RE _ env env' := he
      have hii : i = i' := hii
      subst hii
      subst hb
      have hlt : i < items.length := by
        have := List.mem_zipIdx hm
        simp only [List.length_reverse, List.length_nil] at hlen
        omega
      mbind (hrec _ _ _ (.eval body true (d1 + items.length - i) he (hd := by
        show _ = _ + _
        have : d1' = d1 + Mode.shift := hd
        omega))) with v v' hv
      exact MRel_pure (.yield (hacc.snoc hv))
    · mcont r r' hr
      exact MRel_pure hr

/-- the quick sort on element indices with related keys: the same order -/
theorem std_qsort_rel {ρ : Emb} {keys keys' : List Value} (d1 : Nat) {d1' : Nat} (hk : RList RVal ρ keys keys')
    (fuel : Nat) (xs : List Nat) (hd : RDep d1 d1' := by rdep) :
    MRel ρ REq (std_qsort rec keys d1 fuel xs) (std_qsort rec' keys' d1' fuel xs) := by
  induction fuel generalizing ρ xs with
  | zero => unfold std_qsort; exact MRel_pure rfl
  | succ fuel ih =>
    match xs with
    | [] => unfold std_qsort; exact MRel_pure rfl
    | [x] => unfold std_qsort; exact MRel_pure rfl
    | pivot :: y :: rest =>
      unfold std_qsort
      mnorm
      gcases (hk.getElem? pivot)
      · exact MRel_throw rfl
      · rename_i kp kp' hkp
        simp only []
        refine MRel_bind (Q₁ := REq) ?_ ?_
        · mfor REq with acc acc' hacc it hit
          · rfl
          · cases hacc
            gcases (hk.getElem? it)
            · exact MRel_throw rfl
            · rename_i ki ki' hki
              simp only []
              mbind (hrec _ _ _ (.compare d1 hki hkp)) with c c' hc
              cases hc <;> simp only [] <;> try exact MRel_throw rfl
              split
              · exact MRel_pure (.yield rfl)
              · exact MRel_pure (.yield rfl)
        · mcont s s' hs
          cases hs
          mbind (ih hk s.fst) with l l' hl
          cases hl
          mbind (ih hk s.snd) with g g' hg
          cases hg
          exact MRel_pure rfl

/-- `std.sort` / `std.set` on related thunks -/
theorem std_sortSet_rel {ρ : Emb} (uniq : Bool) {t0 t0' : TId} {t1 t1' : Option TId} (d1 : Nat) {d1' : Nat}
    (ht0 : RT ρ t0 t0') (ht1 : ROpt RT ρ t1 t1') (hd : RDep d1 d1' := by rdep) :
    MRel ρ RVal (std_sortSet cfg rec uniq t0 t1 d1) (std_sortSet cfg' rec' uniq t0' t1' d1') := by
  unfold std_sortSet
  mnorm
  mbind (hrec _ _ _ (.force d1 ht0)) with av av' hav
  mjp (RArrow (ROpt RVal) (RM RVal))
  · mcont kv kv' hkv
    show MRel _ _ _ _
    cases hav <;> simp -zeta only [] <;> try exact MRel_throw rfl
    rename_i items items' hitems
    mjp (RArrow (ROpt RF) (RM RVal))
    · mcont kf kf' hkf
      show MRel _ _ _ _
      rw [← hitems.length_eq]
      split
      · exact MRel_pure (.arr hitems)
      · split
        · exact MRel_throw rfl
        · mbind (std_sortKeys_rel hrec d1 hkf hitems) with keys keys' hkeys
          mbind (std_qsort_rel hrec d1 hkeys items.length (List.range items.length)) with order order' horder
          cases horder
          refine MRel_bind (Q₁ := RProd (RList RT) (ROpt RVal)) ?_ ?_
          · mfor (RProd (RList RT) (ROpt RVal)) with acc acc' hacc i hi
            · exact ⟨.nil, .none⟩
            · gcases (hitems.getElem? i)
              · exact MRel_throw rfl
              · rename_i t t' ht
                simp only []
                gcases (hkeys.getElem? i)
                · exact MRel_throw rfl
                · rename_i k k' hk
                  simp only []
                  obtain ⟨out, prev⟩ := acc
                  obtain ⟨out', prev'⟩ := acc'
                  obtain ⟨hout, hprev⟩ := hacc
                  have hout : RList RT _ out out' := hout
                  have hprev : ROpt RVal _ prev prev' := hprev
                  have hyes : RStep (RProd (RList RT) (ROpt RVal)) _ (ForInStep.yield (out ++ [t], some k))
                      (ForInStep.yield (out' ++ [t'], some k')) := .yield ⟨hout.snoc ht, .some hk⟩
                  have hno : RStep (RProd (RList RT) (ROpt RVal)) _ (ForInStep.yield (out, some k))
                      (ForInStep.yield (out', some k')) := .yield ⟨hout, .some hk⟩
                  cases uniq <;> simp only [↓reduceIte, Bool.false_eq_true]
                  · exact MRel_pure hyes
                  · cases hprev <;> simp only []
                    · exact MRel_pure hyes
                    · rename_i pk pk' hpk
                      mbind (hrec _ _ _ (.equals d1 hpk hk)) with r r' hr
                      cases hr <;> (try simp only []) <;> try exact MRel_pure hyes
                      rename_i b
                      cases b
                      · exact MRel_pure hyes
                      · exact MRel_pure hno
          · mcont s s' hs
            exact MRel_pure (.arr hs.1)
    · intro jp jp' hjp
      cases hkv with
      | none => exact hjp.app .none
      | some hv =>
        cases hv <;> simp only [] <;> first | exact MRel_throw rfl | skip
        exact hjp.app (.some ‹_›)
  · intro jp jp' hjp
    cases ht1 with
    | none => exact hjp.app .none
    | some ht =>
      simp only []
      mbind (hrec _ _ _ (.force d1 ht)) with v v' hv
      exact hjp.app (.some hv)

/-- every builtin of `builtinCall2`, applied to related argument thunks -/
theorem builtinCall2_rel {ρ : Emb} {ts ts' : List TId} (b : Builtin) (d1 : Nat) {d1' : Nat} (hts : RList RT ρ ts ts')
    (hd : RDep d1 d1' := by rdep) :
    MRel ρ RVal (builtinCall2 cfg rec b ts d1) (builtinCall2 cfg' rec' b ts' d1') := by
  cases hts with
  | nil => cases b <;> simp only [builtinCall2] <;> exact builtinCall_rel hrec _ d1 .nil
  | cons h0 hts =>
    cases hts with
    | nil =>
      cases b <;> simp only [builtinCall2]
      case all => exact std_all_rel hrec d1 h0
      case any => exact std_any_rel hrec d1 h0
      case toString => exact std_toString_rel hrec d1 h0
      case sort => exact std_sortSet_rel hrec false d1 h0 .none
      case set => exact std_sortSet_rel hrec true d1 h0 .none
      all_goals exact builtinCall_rel hrec _ d1 (.cons h0 .nil)
    | cons h1 hts =>
      cases hts with
      | nil =>
        cases b <;> simp only [builtinCall2]
        case filter => exact std_filter_rel hrec d1 h0 h1
        case flatMap => exact std_flatMap_rel hrec d1 h0 h1
        case mapWithIndex => exact std_mapWithIndex_rel hrec d1 h0 h1
        case mapWithKey => exact std_mapWithKey_rel hrec d1 h0 h1
        case join => exact std_join_rel hrec d1 h0 h1
        case range => exact std_range_rel hrec d1 h0 h1
        case member => exact std_member_rel hrec d1 h0 h1
        case count => exact std_count_rel hrec d1 h0 h1
        case equals => exact std_equals_rel hrec d1 h0 h1
        case compare => exact std_compare_rel hrec d1 h0 h1
        case primitiveEquals => exact std_primitiveEquals_rel hrec d1 h0 h1
        case assertEqual => exact std_assertEqual_rel hrec d1 h0 h1
        case sort => exact std_sortSet_rel hrec false d1 h0 (.some h1)
        case set => exact std_sortSet_rel hrec true d1 h0 (.some h1)
        all_goals exact builtinCall_rel hrec _ d1 (.cons h0 (.cons h1 .nil))
      | cons h2 hts =>
        cases hts with
        | nil =>
          cases b <;> simp only [builtinCall2]
          case foldl => exact std_foldl_rel hrec d1 h0 h1 h2
          case foldr => exact std_foldr_rel hrec d1 h0 h1 h2
          case filterMap => exact std_filterMap_rel hrec d1 h0 h1 h2
          all_goals exact builtinCall_rel hrec _ d1 (.cons h0 (.cons h1 (.cons h2 .nil)))
        | cons h3 hts =>
          cases b <;> simp only [builtinCall2] <;>
            exact builtinCall_rel hrec _ d1 (.cons h0 (.cons h1 (.cons h2 (.cons h3 hts))))

/-! ### The pure builtins: the views of related values are equal, so `run` gives the same result on both sides -/

omit hrec in
theorem view_rel {ρ : Emb} {v v' : Value} (h : RVal ρ v v') : v.view = v'.view := by
  cases h <;> simp only [Value.view]
  rename_i xs ys hxs
  rw [hxs.length_eq]

omit hrec in
theorem views_rel {ρ : Emb} {vs vs' : List Value} (h : RList RVal ρ vs vs') :
    vs.map Value.view = vs'.map Value.view := by
  induction h with
  | nil => rfl
  | cons h1 _ ih => simp only [List.map_cons, view_rel h1, ih]

omit hrec in
theorem primVal_rel {ρ : Emb} (p : Prim) : RVal ρ p.toValue p.toValue := by
  cases p <;> simp only [Prim.toValue] <;> constructor

omit hrec in
theorem allocPrims_rel {ρ : Emb} (items : List Prim) : MRel ρ (RList RT) (allocPrims items) (allocPrims items) := by
  unfold allocPrims
  mnorm
  refine MRel_bind (Q₁ := RList RT) ?_ ?_
  · mfor (RList RT) with acc acc' hacc p hp
    · exact .nil
    · mbind (allocThunk_rel (.done (primVal_rel p))) with t t' ht
      exact MRel_pure (.yield (hacc.snoc ht))
  · mcont out out' hout
    exact MRel_pure hout

omit hrec in
theorem pureOut_rel {ρ : Emb} (o : PureOut) : MRel ρ RVal (pureOut o) (pureOut o) := by
  unfold pureOut
  cases o with
  | prim p => exact MRel_pure (primVal_rel p)
  | arr items =>
    simp only []
    mbind (allocPrims_rel items) with out out' hout
    exact MRel_pure (.arr hout)

/-- the argument thunks forced in order: related values -/
theorem forceAll_rel {ρ : Emb} {ts ts' : List TId} (d1 : Nat) {d1' : Nat} (hts : RList RT ρ ts ts')
    (hd : RDep d1 d1' := by rdep) :
    MRel ρ (RList RVal) (forceAll rec ts d1) (forceAll rec' ts' d1') := by
  unfold forceAll
  mnorm
  refine MRel_bind (Q₁ := RList RVal) ?_ ?_
  · refine MRel_forIn RT (RList RVal) hts .nil ?_
    intro ρ' hle t t' acc acc' _ _ ht hacc
    lift_hyps hle
    mbind (hrec _ _ _ (.force d1 ht)) with v v' hv
    exact MRel_pure (.yield (hacc.snoc hv))
  · mcont out out' hout
    exact MRel_pure hout

theorem coerceAll_rel {ρ : Emb} {vals vals' : List Value} (d1 : Nat) {d1' : Nat} (hv : RList RVal ρ vals vals')
    (hd : RDep d1 d1' := by rdep) :
    MRel ρ (RList RVal) (coerceAll rec vals d1) (coerceAll rec' vals' d1') := by
  unfold coerceAll
  mnorm
  refine MRel_bind (Q₁ := RList RVal) ?_ ?_
  · refine MRel_forIn RVal (RList RVal) hv .nil ?_
    intro ρ' hle v v' acc acc' _ _ hvv hacc
    lift_hyps hle
    mbind (coerceToString_rel hrec d1 hvv) with s s' hs
    cases hs
    exact MRel_pure (.yield (hacc.snoc (.str _)))
  · mcont out out' hout
    exact MRel_pure hout

/-- the elements forced and checked one by one: the same bytes or the same error -/
theorem forceBytes_rel {ρ : Emb} {items items' : List TId} (item : PArg → Except PErr Nat) (d1 : Nat) {d1' : Nat}
    (hitems : RList RT ρ items items') (hd : RDep d1 d1' := by rdep) :
    MRel ρ REq (forceBytes rec items item d1) (forceBytes rec' items' item d1') := by
  unfold forceBytes
  mnorm
  refine MRel_bind (Q₁ := REq) ?_ ?_
  · refine MRel_forIn RT REq hitems rfl ?_
    intro ρ' hle it it' acc acc' _ _ hit hacc
    lift_hyps hle
    cases hacc
    mbind (hrec _ _ _ (.force d1 hit)) with v v' hv
    rw [view_rel hv]
    cases item v'.view with
    | ok b => exact MRel_pure (.yield rfl)
    | error e => exact MRel_throw rfl
  · mcont out out' hout
    cases hout
    exact MRel_pure rfl

/-! #### `std.format`: the same directives consume related thunks; what is rendered depends on views only -/

omit hrec in
theorem fmtTakeW_rel {ρ : Emb} {items items' : List TId} (spec : Option Format.FW) (i : Nat)
    (hitems : RList RT ρ items items') :
    MRel ρ (RProd (ROpt RT) REq) (fmtTakeW spec items i) (fmtTakeW spec items' i) := by
  unfold fmtTakeW
  cases spec with
  | none => exact MRel_pure ⟨.none, rfl⟩
  | some w =>
    cases w with
    | inline n => exact MRel_pure ⟨.none, rfl⟩
    | ext =>
      simp only []
      rw [hitems.length_eq]
      have hi := hitems.getElem? i
      gcases hi
      · exact MRel_throw rfl
      · exact MRel_pure ⟨.some ‹_›, rfl⟩

theorem fmtForceOpt_rel {ρ : Emb} {t t' : Option TId} (d : Nat) {d' : Nat} (ht : ROpt RT ρ t t')
    (hd : RDep d d' := by rdep) :
    MRel ρ (ROpt RVal) (fmtForceOpt rec t d) (fmtForceOpt rec' t' d') := by
  unfold fmtForceOpt
  cases ht with
  | none => exact MRel_pure .none
  | some h =>
    simp only []
    mbind (hrec _ _ _ (.force d h)) with v v' hv
    exact MRel_pure (.some hv)

/-- the non-string branch of `fmtItem` -/
theorem fmtItemOther_rel {ρ : Emb} {v v' : Value} (c : Format.Code) (d : Nat) {d' : Nat} (hv : RVal ρ v v')
    (hd : RDep d d' := by rdep) :
    MRel ρ REq
      (if (c.conv == Format.Conv.str) = true then do
          pure (fmtValOfS v.view (some (← coerceToString rec v d)))
        else pure (fmtValOf v.view))
      (if (c.conv == Format.Conv.str) = true then do
          pure (fmtValOfS v'.view (some (← coerceToString rec' v' d')))
        else pure (fmtValOf v'.view)) := by
  rw [view_rel hv]
  split
  · mbind (coerceToString_rel hrec d hv) with s s' hs
    cases hs
    exact MRel_pure rfl
  · exact MRel_pure rfl

theorem fmtItem_rel {ρ : Emb} {v v' : Value} (c : Format.Code) (d : Nat) {d' : Nat} (hv : RVal ρ v v')
    (hd : RDep d d' := by rdep) :
    MRel ρ REq (fmtItem rec c v d) (fmtItem rec' c v' d') := by
  unfold fmtItem
  cases hv <;> simp only []
  case str => exact MRel_pure rfl
  case null => exact fmtItemOther_rel hrec c d .null
  case bool b => exact fmtItemOther_rel hrec c d (.bool b)
  case num f => exact fmtItemOther_rel hrec c d (.num f)
  case arr h => exact fmtItemOther_rel hrec c d (.arr h)
  case obj h => exact fmtItemOther_rel hrec c d (.obj h)
  case func h => exact fmtItemOther_rel hrec c d (.func h)

omit hrec in
theorem optView_rel {ρ : Emb} {a a' : Option Value} (h : ROpt RVal ρ a a') :
    a.map Value.view = a'.map Value.view := by
  cases h with
  | none => rfl
  | some h => simp only [Option.map_some, view_rel h]

theorem fmtArrayCode_rel {ρ : Emb} {items items' : List TId} (c : Format.Code) (i : Nat) (d : Nat) {d' : Nat}
    (hitems : RList RT ρ items items') (hd : RDep d d' := by rdep) :
    MRel ρ REq (fmtArrayCode rec c items i d) (fmtArrayCode rec' c items' i d') := by
  unfold fmtArrayCode
  mbind (fmtTakeW_rel c.fw i hitems) with a a' ha
  obtain ⟨fwT, i1⟩ := a
  obtain ⟨fwT', i1'⟩ := a'
  obtain ⟨hfwT, hi1⟩ := ha
  cases hi1
  simp only []
  mbind (fmtTakeW_rel c.prec i1 hitems) with b b' hb
  obtain ⟨precT, i2⟩ := b
  obtain ⟨precT', i2'⟩ := b'
  obtain ⟨hprecT, hi2⟩ := hb
  cases hi2
  simp only []
  mbind (fmtForceOpt_rel hrec d hfwT) with fwV fwV' hfwV
  have hpt : ROpt RT ρ' (if Format.usesPrec c.conv = true then precT else none)
      (if Format.usesPrec c.conv = true then precT' else none) := by
    split
    · exact hprecT
    · exact .none
  mbind (fmtForceOpt_rel hrec d hpt) with precV precV' hprecV
  rw [optView_rel hfwV, optView_rel hprecV]
  rw [hitems.length_eq]
  cases fmtPrecWidth c (fwV'.map Value.view) (precV'.map Value.view) with
  | error e => exact MRel_throw rfl
  | ok r =>
    obtain ⟨fw, prec⟩ := r
    simp only []
    mnorm
    split
    · exact MRel_pure rfl
    · have hi := hitems.getElem? i2
      gcases hi
      · exact MRel_throw rfl
      · rename_i t t' ht
        simp only []
        mbind (hrec _ _ _ (.force d ht)) with v v' hv
        mbind (fmtItem_rel hrec c d hv) with fv fv' hfv
        cases hfv
        cases fmtRender c fw prec fv with
        | ok s => exact MRel_pure rfl
        | error e => exact MRel_throw rfl

theorem fmtArrayPart_rel {ρ : Emb} {items items' : List TId} (p : Format.Part) (i : Nat) (out : List Char) (d : Nat) {d' : Nat}
    (hitems : RList RT ρ items items') (hd : RDep d d' := by rdep) :
    MRel ρ REq (fmtArrayPart rec p items i out d) (fmtArrayPart rec' p items' i out d') := by
  unfold fmtArrayPart
  cases p with
  | lit s => exact MRel_pure rfl
  | code c =>
    simp only []
    mbind (fmtArrayCode_rel hrec c i d hitems) with r r' hr
    cases hr
    exact MRel_pure rfl

theorem fmtArray_rel {ρ : Emb} {items items' : List TId} (parts : List Format.Part) (d : Nat) {d' : Nat}
    (hitems : RList RT ρ items items') (hd : RDep d d' := by rdep) :
    MRel ρ RVal (fmtArray rec parts items d) (fmtArray rec' parts items' d') := by
  unfold fmtArray
  mnorm
  rw [hitems.length_eq]
  refine MRel_bind (Q₁ := REq) ?_ ?_
  · mfor REq with acc acc' hacc p hp
    · rfl
    · cases hacc
      mbind (fmtArrayPart_rel hrec p acc.1 acc.2 d hitems) with r r' hr
      cases hr
      exact MRel_pure (.yield rfl)
  · mcont st st' hst
    cases hst
    split
    · exact MRel_throw rfl
    · exact MRel_pure (.str _)

theorem fmtObjectCode_rel {ρ : Emb} {o o' : OId} (c : Format.Code) (d : Nat) {d' : Nat} (ho : RO ρ o o')
    (hd : RDep d d' := by rdep) :
    MRel ρ REq (fmtObjectCode rec c o d) (fmtObjectCode rec' c o' d') := by
  unfold fmtObjectCode
  cases Format.objWidth c.fw .objStarWidth with
  | error e => exact MRel_throw rfl
  | ok fw =>
    cases Format.objWidth c.prec .objStarPrec with
    | error e => exact MRel_throw rfl
    | ok prec =>
      mnorm
      split
      · exact MRel_pure rfl
      · cases c.mkey with
        | none => exact MRel_throw rfl
        | some k =>
          simp only []
          mbind (fieldThunk_rel 0 (String.ofList k) ho) with ft ft' hft
          cases hft with
          | none => exact MRel_throw rfl
          | some ht =>
            simp only []
            mbind (hrec _ _ _ (.asserts d ho)) with u u' hu
            mbind (hrec _ _ _ (.force d ht)) with v v' hv
            mbind (fmtItem_rel hrec c d hv) with fv fv' hfv
            cases hfv
            cases fmtRender c fw prec fv with
            | ok s => exact MRel_pure rfl
            | error e => exact MRel_throw rfl

theorem fmtObjectPart_rel {ρ : Emb} {o o' : OId} (p : Format.Part) (out : List Char) (d : Nat) {d' : Nat} (ho : RO ρ o o')
    (hd : RDep d d' := by rdep) :
    MRel ρ REq (fmtObjectPart rec p o out d) (fmtObjectPart rec' p o' out d') := by
  unfold fmtObjectPart
  cases p with
  | lit s => exact MRel_pure rfl
  | code c =>
    simp only []
    mbind (fmtObjectCode_rel hrec c d ho) with r r' hr
    cases hr
    exact MRel_pure rfl

theorem fmtObject_rel {ρ : Emb} {o o' : OId} (parts : List Format.Part) (d : Nat) {d' : Nat} (ho : RO ρ o o')
    (hd : RDep d d' := by rdep) :
    MRel ρ RVal (fmtObject rec parts o d) (fmtObject rec' parts o' d') := by
  unfold fmtObject
  mnorm
  refine MRel_bind (Q₁ := REq) ?_ ?_
  · mfor REq with acc acc' hacc p hp
    · rfl
    · cases hacc
      mbind (fmtObjectPart_rel hrec p acc d ho) with r r' hr
      cases hr
      exact MRel_pure (.yield rfl)
  · mcont out out' hout
    cases hout
    exact MRel_pure (.str _)

theorem pureFinish_rel {ρ : Emb} {vals vals' : List Value} (spec : PureSpec) (d1 : Nat) {d1' : Nat}
    (hv : RList RVal ρ vals vals') (hd : RDep d1 d1' := by rdep) :
    MRel ρ RVal (pureFinish rec spec vals d1) (pureFinish rec' spec vals' d1') := by
  unfold pureFinish
  rw [views_rel hv]
  cases spec.run (vals'.map Value.view) with
  | error e => exact MRel_throw rfl
  | ok st =>
    cases st with
    | done out => exact pureOut_rel out
    | elems i item finish =>
      simp only []
      have hi := hv.getElem? i
      gcases hi
      · exact MRel_throw rfl
      · rename_i a b hab
        cases hab <;> simp only [] <;> try exact MRel_throw rfl
        rename_i items items' hitems
        mbind (forceBytes_rel hrec item d1 hitems) with bytes bytes' hb
        cases hb
        cases finish bytes with
        | ok out => exact pureOut_rel out
        | error e => exact MRel_throw rfl
    | fmt parts =>
      simp only []
      have hi := hv.getElem? 1
      gcases hi
      · exact MRel_throw rfl
      · rename_i a b hab
        cases hab <;> simp only []
        case arr h => exact fmtArray_rel hrec parts d1 h
        case obj h => exact fmtObject_rel hrec parts d1 h
        case null =>
          mbind (allocThunk_rel (.done .null)) with t t' ht
          exact fmtArray_rel hrec parts d1 (.cons ht .nil)
        case bool b =>
          mbind (allocThunk_rel (.done (.bool b))) with t t' ht
          exact fmtArray_rel hrec parts d1 (.cons ht .nil)
        case num f =>
          mbind (allocThunk_rel (.done (.num f))) with t t' ht
          exact fmtArray_rel hrec parts d1 (.cons ht .nil)
        case str s =>
          mbind (allocThunk_rel (.done (.str s))) with t t' ht
          exact fmtArray_rel hrec parts d1 (.cons ht .nil)
        case func h =>
          mbind (allocThunk_rel (.done (.func h))) with t t' ht
          exact fmtArray_rel hrec parts d1 (.cons ht .nil)

/-- `%` with a string on the left is `std.format`; the other operators as before -/
theorem binaryOp3_rel {ρ : Emb} {l l' r r' : Value} (op : BinOp) (d : Nat) {d' : Nat} (hasSpan : Bool)
    (hl : RVal ρ l l') (hr : RVal ρ r r') (hd : RDep d d' := by rdep) :
    MRel ρ RVal (binaryOp3 cfg rec op l r d hasSpan) (binaryOp3 cfg' rec' op l' r' d' hasSpan) := by
  unfold binaryOp3
  cases op <;> cases hl <;> simp only [] <;> try exact binaryOp_rel hrec _ d hasSpan (by first | assumption | (constructor; assumption) | constructor) hr
  rename_i s
  cases hasSpan
  · simp only [Bool.false_eq_true, if_false]
    mnorm
    exact pureFinish_rel hrec spec_format d (.cons (.str s) (.cons hr .nil))
  · simp only [if_true]
    mbind (checkDepth_rel _ _) with u u' hu
    exact pureFinish_rel hrec spec_format (d + 1) (.cons (.str s) (.cons hr .nil))

/-- the generic pure builtin on related argument thunks: the same error or related values -/
theorem std_pure_rel {ρ : Emb} {ts ts' : List TId} (spec : PureSpec) (d1 : Nat) {d1' : Nat} (hts : RList RT ρ ts ts')
    (hd : RDep d1 d1' := by rdep) :
    MRel ρ RVal (std_pure rec spec ts d1) (std_pure rec' spec ts' d1') := by
  unfold std_pure
  mbind (forceAll_rel hrec d1 hts) with forced forced' hf
  cases spec.coerce with
  | true =>
    simp only [if_true]
    mbind (coerceAll_rel hrec d1 hf) with vals vals' hv
    exact pureFinish_rel hrec spec d1 hv
  | false =>
    simp only [Bool.false_eq_true, if_false]
    mnorm
    exact pureFinish_rel hrec spec d1 hf

/-- every builtin of `builtinCall3`, applied to related argument thunks -/
theorem builtinCall3_rel {ρ : Emb} {ts ts' : List TId} (b : Builtin) (d1 : Nat) {d1' : Nat} (hts : RList RT ρ ts ts')
    (hd : RDep d1 d1' := by rdep) :
    MRel ρ RVal (builtinCall3 cfg rec b ts d1) (builtinCall3 cfg' rec' b ts' d1') := by
  unfold builtinCall3
  cases pureBuiltin b with
  | none => exact builtinCall2_rel hrec b d1 hts
  | some spec =>
    simp only []
    rw [hts.length_eq]
    split
    · exact std_pure_rel hrec spec d1 hts
    · exact MRel_throw rfl

end
end Rsj.Eval
