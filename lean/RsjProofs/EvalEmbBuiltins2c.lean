import RsjProofs.EvalEmbBuiltins2a
import RsjProofs.EvalEmbBuiltins2b
/-!
  Store-embedding invariance of the builtins `std_equals std_compare std_primitiveEquals std_assertEqual
  std_toString std_sortKeys std_qsort std_sortSet` of the evaluator model, and of the dispatcher `builtinCall2`
  (every builtin, applied to related argument thunks at related depths).
-/
set_option linter.unusedVariables false
namespace Rsj.Eval
open Rsj.Core
set_option linter.unusedSectionVars false
variable [Mode]

private theorem rlist_reverse {α β : Type} {R : Emb → α → β → Prop} {ρ : Emb} {l : List α} {l' : List β}
    (h : RList R ρ l l') : RList R ρ l.reverse l'.reverse := by
  induction h with
  | nil => exact .nil
  | cons h1 _ ih => simpa using ih.snoc h1

/-- a relation on lists together with the length of the left list -/
private def RLenK {α β : Type} (k : Nat) (R : Emb → List α → List β → Prop) : Emb → List α → List β → Prop :=
  fun ρ l l' => R ρ l l' ∧ l.length = k
private instance {α β : Type} (k : Nat) (R : Emb → List α → List β → Prop) [Mono R] : Mono (RLenK k R) :=
  ⟨fun h r => ⟨Mono.mono h r.1, r.2⟩⟩

section
variable {cfg cfg' : Cfg} [RCfg cfg cfg'] {rec rec' : Task → M Value} (hrec : RecRel rec rec')
include hrec

/-- `std.equals` on related thunks -/
theorem std_equals_rel {ρ : Emb} {t0 t0' t1 t1' : TId} (d1 : Nat) {d1' : Nat} (ht0 : RT ρ t0 t0')
    (ht1 : RT ρ t1 t1') (hd : RDep d1 d1' := by rdep) :
    MRel ρ RVal (std_equals rec t0 t1 d1) (std_equals rec' t0' t1' d1') := by
  unfold std_equals
  mbind (hrec _ _ _ (.force d1 ht0)) with av av' hav
  mbind (hrec _ _ _ (.force d1 ht1)) with bv bv' hbv
  exact hrec _ _ _ (.equals d1 hav hbv)

/-- `std.__compare` on related thunks -/
theorem std_compare_rel {ρ : Emb} {t0 t0' t1 t1' : TId} (d1 : Nat) {d1' : Nat} (ht0 : RT ρ t0 t0')
    (ht1 : RT ρ t1 t1') (hd : RDep d1 d1' := by rdep) :
    MRel ρ RVal (std_compare rec t0 t1 d1) (std_compare rec' t0' t1' d1') := by
  unfold std_compare
  mbind (hrec _ _ _ (.force d1 ht0)) with av av' hav
  mbind (hrec _ _ _ (.force d1 ht1)) with bv bv' hbv
  exact hrec _ _ _ (.compare d1 hav hbv)

/-- `std.primitiveEquals` on related thunks: the same boolean or the same error -/
theorem std_primitiveEquals_rel {ρ : Emb} {t0 t0' t1 t1' : TId} (d1 : Nat) {d1' : Nat} (ht0 : RT ρ t0 t0')
    (ht1 : RT ρ t1 t1') (hd : RDep d1 d1' := by rdep) :
    MRel ρ RVal (std_primitiveEquals rec t0 t1 d1) (std_primitiveEquals rec' t0' t1' d1') := by
  unfold std_primitiveEquals
  mbind (hrec _ _ _ (.force d1 ht0)) with av av' hav
  mbind (hrec _ _ _ (.force d1 ht1)) with bv bv' hbv
  cases hav <;> cases hbv <;> simp only [] <;> first | exact MRel_pure (.bool _) | exact MRel_throw rfl

/-- `std.assertEqual` on related thunks: `true`, or the same failure message (both manifestations are equal strings) -/
theorem std_assertEqual_rel {ρ : Emb} {t0 t0' t1 t1' : TId} (d1 : Nat) {d1' : Nat} (ht0 : RT ρ t0 t0')
    (ht1 : RT ρ t1 t1') (hd : RDep d1 d1' := by rdep) :
    MRel ρ RVal (std_assertEqual rec t0 t1 d1) (std_assertEqual rec' t0' t1' d1') := by
  unfold std_assertEqual
  mbind (hrec _ _ _ (.force d1 ht0)) with av av' hav
  mbind (hrec _ _ _ (.force d1 ht1)) with bv bv' hbv
  mbind (hrec _ _ _ (.equals d1 hav hbv)) with r r' hr
  cases hr <;> try simp only []
  case bool b =>
    cases b <;> simp only []
    · mbind (recStr_rel hrec (.manifest d1 false hav)) with ls ls' hls
      cases hls
      mbind (recStr_rel hrec (.manifest d1 false hbv)) with rs rs' hrs
      cases hrs
      exact MRel_throw rfl
    · exact MRel_pure (.bool _)
  all_goals
    mbind (recStr_rel hrec (.manifest d1 false hav)) with ls ls' hls
    cases hls
    mbind (recStr_rel hrec (.manifest d1 false hbv)) with rs rs' hrs
    cases hrs
    exact MRel_throw rfl

/-- `std.toString` on related thunks: the same string -/
theorem std_toString_rel {ρ : Emb} {t t' : TId} (d1 : Nat) {d1' : Nat} (ht : RT ρ t t')
    (hd : RDep d1 d1' := by rdep) :
    MRel ρ RVal (std_toString rec t d1) (std_toString rec' t' d1') := by
  unfold std_toString
  mbind (hrec _ _ _ (.force d1 ht)) with v v' hv
  mbind (coerceToString_rel hrec d1 hv) with s s' hs
  cases hs
  exact MRel_pure (.str _)

omit hrec in
/-- the loop that prepares one call per element (in front of the accumulator) -/
private theorem sortKeysCalls_rel {ρ : Emb} {f f' : FId} {l l' : List TId} {acc acc' : List (Expr × EId)} (hf : RF ρ f f')
    (hl : RList RT ρ l l') (hacc : RList (RProd REq RE) ρ acc acc') :
    MRel ρ (RLenK (l.length + acc.length) (RList (RProd REq RE)))
      (forIn l acc fun it r => do
        let x ← std_bindCall f [it]
        pure (ForInStep.yield (x :: r)))
      (forIn l' acc' fun it r => do
        let x ← std_bindCall f' [it]
        pure (ForInStep.yield (x :: r))) := by
  induction l generalizing ρ l' acc acc' with
  | nil =>
    cases hl
    simp only [List.forIn_nil]
    exact MRel_pure ⟨hacc, by simp⟩
  | cons x xs ih =>
    cases hl with
    | @cons _ x' _ xs' hx hxs =>
      rw [List.forIn_cons, List.forIn_cons]
      mnorm
      mbind (std_bindCall_rel hf (.cons hx .nil)) with c c' hc
      refine MRel_conseq (ih hf hxs (.cons hc hacc)) ?_
      intro ρ2 hle v w hvw
      exact ⟨hvw.1, by rw [hvw.2]; simp only [List.length_cons]; omega⟩

/-- the keys of `std.sort` / `std.set` for related elements and related (optional) `keyF`: related keys -/
theorem std_sortKeys_rel {ρ : Emb} {kf kf' : Option FId} {items items' : List TId} (d1 : Nat) {d1' : Nat}
    (hk : ROpt RF ρ kf kf') (hi : RList RT ρ items items') (hd : RDep d1 d1' := by rdep) :
    MRel ρ (RList RVal) (std_sortKeys cfg rec kf items d1) (std_sortKeys cfg' rec' kf' items' d1') := by
  unfold std_sortKeys
  mnorm
  rw [← hi.length_eq]
  have hdn : RDep (d1 + items.length) (d1' + items.length) := by
    show _ = _ + _
    have : d1' = d1 + Mode.shift := hd
    omega
  cases hk <;> simp only []
  · mbind (checkDepth_rel _ _) with u u' hu
    refine MRel_bind (Q₁ := RList RVal) ?_ ?_
    · refine MRel_forIn (RProd RT REq) (RList RVal) (hi.zipIdx 0) .nil ?_
      intro ρ2 hle p p' acc acc' hm hm' hp hacc
      lift_hyps hle
      obtain ⟨it, i⟩ := p
      obtain ⟨it', i'⟩ := p'
      obtain ⟨hit, hii⟩ := hp
      have hit : RT _ it it' := hit
      have hii : i = i' := hii
      subst hii
      have hlt : i < items.length := by
        have := List.mem_zipIdx hm
        omega
      mbind (hrec _ _ _ (.force (d1 + items.length - i) hit (hd := by
        show _ = _ + _
        have : d1' = d1 + Mode.shift := hd
        omega))) with v v' hv
      exact MRel_pure (.yield (hacc.snoc hv))
    · mcont r r' hr
      exact MRel_pure hr
  · rename_i f f' hf
    mbind (sortKeysCalls_rel hf (rlist_reverse hi) .nil) with calls calls' hcalls
    obtain ⟨hcalls, hlen⟩ := hcalls
    mbind (checkDepth_rel _ _) with u u' hu
    refine MRel_bind (Q₁ := RList RVal) ?_ ?_
    · refine MRel_forIn (RProd (RProd REq RE) REq) (RList RVal) (hcalls.zipIdx 0) .nil ?_
      intro ρ2 hle p p' acc acc' hm hm' hp hacc
      lift_hyps hle
      obtain ⟨⟨body, env⟩, i⟩ := p
      obtain ⟨⟨body', env'⟩, i'⟩ := p'
      obtain ⟨⟨hb, he⟩, hii⟩ := hp
      have hb : body = body' := hb
      have he : RE _ env env' := he
      have hii : i = i' := hii
      subst hii
      subst hb
      have hlt : i < items.length := by
        have := List.mem_zipIdx hm
        simp only [List.length_reverse, List.length_nil] at hlen
        omega
      mbind (hrec _ _ _ (.eval body true (d1 + items.length - i) he (hd := by
        show _ = _ + _
        have : d1' = d1 + Mode.shift := hd
        omega))) with v v' hv
      exact MRel_pure (.yield (hacc.snoc hv))
    · mcont r r' hr
      exact MRel_pure hr

/-- the quick sort on element indices with related keys: the same order -/
theorem std_qsort_rel {ρ : Emb} {keys keys' : List Value} (d1 : Nat) {d1' : Nat} (hk : RList RVal ρ keys keys')
    (fuel : Nat) (xs : List Nat) (hd : RDep d1 d1' := by rdep) :
    MRel ρ REq (std_qsort rec keys d1 fuel xs) (std_qsort rec' keys' d1' fuel xs) := by
  induction fuel generalizing ρ xs with
  | zero => unfold std_qsort; exact MRel_pure rfl
  | succ fuel ih =>
    match xs with
    | [] => unfold std_qsort; exact MRel_pure rfl
    | [x] => unfold std_qsort; exact MRel_pure rfl
    | pivot :: y :: rest =>
      unfold std_qsort
      mnorm
      gcases (hk.getElem? pivot)
      · exact MRel_throw rfl
      · rename_i kp kp' hkp
        simp only []
        refine MRel_bind (Q₁ := REq) ?_ ?_
        · mfor REq with acc acc' hacc it hit
          · rfl
          · cases hacc
            gcases (hk.getElem? it)
            · exact MRel_throw rfl
            · rename_i ki ki' hki
              simp only []
              mbind (hrec _ _ _ (.compare d1 hki hkp)) with c c' hc
              cases hc <;> simp only [] <;> try exact MRel_throw rfl
              split
              · exact MRel_pure (.yield rfl)
              · exact MRel_pure (.yield rfl)
        · mcont s s' hs
          cases hs
          mbind (ih hk s.fst) with l l' hl
          cases hl
          mbind (ih hk s.snd) with g g' hg
          cases hg
          exact MRel_pure rfl

/-- `std.sort` / `std.set` on related thunks -/
theorem std_sortSet_rel {ρ : Emb} (uniq : Bool) {t0 t0' : TId} {t1 t1' : Option TId} (d1 : Nat) {d1' : Nat}
    (ht0 : RT ρ t0 t0') (ht1 : ROpt RT ρ t1 t1') (hd : RDep d1 d1' := by rdep) :
    MRel ρ RVal (std_sortSet cfg rec uniq t0 t1 d1) (std_sortSet cfg' rec' uniq t0' t1' d1') := by
  unfold std_sortSet
  mnorm
  mbind (hrec _ _ _ (.force d1 ht0)) with av av' hav
  mjp (RArrow (ROpt RVal) (RM RVal))
  · mcont kv kv' hkv
    show MRel _ _ _ _
    cases hav <;> simp -zeta only [] <;> try exact MRel_throw rfl
    rename_i items items' hitems
    mjp (RArrow (ROpt RF) (RM RVal))
    · mcont kf kf' hkf
      show MRel _ _ _ _
      rw [← hitems.length_eq]
      split
      · exact MRel_pure (.arr hitems)
      · split
        · exact MRel_throw rfl
        · mbind (std_sortKeys_rel hrec d1 hkf hitems) with keys keys' hkeys
          mbind (std_qsort_rel hrec d1 hkeys items.length (List.range items.length)) with order order' horder
          cases horder
          refine MRel_bind (Q₁ := RProd (RList RT) (ROpt RVal)) ?_ ?_
          · mfor (RProd (RList RT) (ROpt RVal)) with acc acc' hacc i hi
            · exact ⟨.nil, .none⟩
            · gcases (hitems.getElem? i)
              · exact MRel_throw rfl
              · rename_i t t' ht
                simp only []
                gcases (hkeys.getElem? i)
                · exact MRel_throw rfl
                · rename_i k k' hk
                  simp only []
                  obtain ⟨out, prev⟩ := acc
                  obtain ⟨out', prev'⟩ := acc'
                  obtain ⟨hout, hprev⟩ := hacc
                  have hout : RList RT _ out out' := hout
                  have hprev : ROpt RVal _ prev prev' := hprev
                  have hyes : RStep (RProd (RList RT) (ROpt RVal)) _ (ForInStep.yield (out ++ [t], some k))
                      (ForInStep.yield (out' ++ [t'], some k')) := .yield ⟨hout.snoc ht, .some hk⟩
                  have hno : RStep (RProd (RList RT) (ROpt RVal)) _ (ForInStep.yield (out, some k))
                      (ForInStep.yield (out', some k')) := .yield ⟨hout, .some hk⟩
                  cases uniq <;> simp only [↓reduceIte, Bool.false_eq_true]
                  · exact MRel_pure hyes
                  · cases hprev <;> simp only []
                    · exact MRel_pure hyes
                    · rename_i pk pk' hpk
                      mbind (hrec _ _ _ (.equals d1 hpk hk)) with r r' hr
                      cases hr <;> (try simp only []) <;> try exact MRel_pure hyes
                      rename_i b
                      cases b
                      · exact MRel_pure hyes
                      · exact MRel_pure hno
          · mcont s s' hs
            exact MRel_pure (.arr hs.1)
    · intro jp jp' hjp
      cases hkv with
      | none => exact hjp.app .none
      | some hv =>
        cases hv <;> simp only [] <;> first | exact MRel_throw rfl | skip
        exact hjp.app (.some ‹_›)
  · intro jp jp' hjp
    cases ht1 with
    | none => exact hjp.app .none
    | some ht =>
      simp only []
      mbind (hrec _ _ _ (.force d1 ht)) with v v' hv
      exact hjp.app (.some hv)

/-- every builtin of `builtinCall2`, applied to related argument thunks -/
theorem builtinCall2_rel {ρ : Emb} {ts ts' : List TId} (b : Builtin) (d1 : Nat) {d1' : Nat} (hts : RList RT ρ ts ts')
    (hd : RDep d1 d1' := by rdep) :
    MRel ρ RVal (builtinCall2 cfg rec b ts d1) (builtinCall2 cfg' rec' b ts' d1') := by
  cases hts with
  | nil => cases b <;> simp only [builtinCall2] <;> exact builtinCall_rel hrec _ d1 .nil
  | cons h0 hts =>
    cases hts with
    | nil =>
      cases b <;> simp only [builtinCall2]
      case all => exact std_all_rel hrec d1 h0
      case any => exact std_any_rel hrec d1 h0
      case toString => exact std_toString_rel hrec d1 h0
      case sort => exact std_sortSet_rel hrec false d1 h0 .none
      case set => exact std_sortSet_rel hrec true d1 h0 .none
      all_goals exact builtinCall_rel hrec _ d1 (.cons h0 .nil)
    | cons h1 hts =>
      cases hts with
      | nil =>
        cases b <;> simp only [builtinCall2]
        case filter => exact std_filter_rel hrec d1 h0 h1
        case flatMap => exact std_flatMap_rel hrec d1 h0 h1
        case mapWithIndex => exact std_mapWithIndex_rel hrec d1 h0 h1
        case mapWithKey => exact std_mapWithKey_rel hrec d1 h0 h1
        case join => exact std_join_rel hrec d1 h0 h1
        case range => exact std_range_rel hrec d1 h0 h1
        case member => exact std_member_rel hrec d1 h0 h1
        case count => exact std_count_rel hrec d1 h0 h1
        case equals => exact std_equals_rel hrec d1 h0 h1
        case compare => exact std_compare_rel hrec d1 h0 h1
        case primitiveEquals => exact std_primitiveEquals_rel hrec d1 h0 h1
        case assertEqual => exact std_assertEqual_rel hrec d1 h0 h1
        case sort => exact std_sortSet_rel hrec false d1 h0 (.some h1)
        case set => exact std_sortSet_rel hrec true d1 h0 (.some h1)
        all_goals exact builtinCall_rel hrec _ d1 (.cons h0 (.cons h1 .nil))
      | cons h2 hts =>
        cases hts with
        | nil =>
          cases b <;> simp only [builtinCall2]
          case foldl => exact std_foldl_rel hrec d1 h0 h1 h2
          case foldr => exact std_foldr_rel hrec d1 h0 h1 h2
          case filterMap => exact std_filterMap_rel hrec d1 h0 h1 h2
          all_goals exact builtinCall_rel hrec _ d1 (.cons h0 (.cons h1 (.cons h2 .nil)))
        | cons h3 hts =>
          cases b <;> simp only [builtinCall2] <;>
            exact builtinCall_rel hrec _ d1 (.cons h0 (.cons h1 (.cons h2 (.cons h3 hts))))

end
end Rsj.Eval
