/-
  YAML stream round trip: the specification reader `readYamlStream`
  (RsjProofs/YamlStreamRead.lean) applied to the text written by the model of
  `std.manifestYamlStream` (RsjModel/Yaml.lean) returns exactly the documents.

  * the text as a list of lines (`streamL`, `linesOf_stream`);
  * no line of a document is a marker `---` / `...` (`valL_noMarker`), so
    `cutAtEnd` and `splitDocs` cut exactly at the markers that the emitter wrote;
  * every document followed by its line break is read back by
    `readYaml_manifest_nl` (RsjProofs/YamlBlock.lean).
-/
import RsjProofs.YamlStreamRead
namespace Rsj.Yaml
open Rsj.Json

/-! ### the stream as a list of lines -/

/-- the lines of the documents, `---` between consecutive ones -/
def streamL (iaio qk : Bool) : List JVal → List Str
  | [] => []
  | [x] => valL iaio qk 0 false false x
  | x :: y :: r => valL iaio qk 0 false false x ++ docStart :: streamL iaio qk (y :: r)

theorem valL_ne_nil' (iaio qk : Bool) (d : Nat) (pA pO : Bool) (v : JVal) : valL iaio qk d pA pO v ≠ [] := by
  obtain ⟨s, more, h⟩ := valL_ne_nil iaio qk d pA pO v
  rw [h]; simp

theorem streamL_ne_nil (iaio qk : Bool) (x : JVal) (xs : List JVal) : streamL iaio qk (x :: xs) ≠ [] := by
  cases xs with
  | nil => rw [streamL]; exact valL_ne_nil' _ _ _ _ _ _
  | cons y r =>
    rw [streamL]
    intro h
    exact valL_ne_nil' _ _ _ _ _ _ (List.append_eq_nil_iff.mp h).1

theorem nlAfter_ne_nil {α : Type} {L : List α} (h : L ≠ []) : nlAfter L = [10] := by
  cases L with
  | nil => exact absurd rfl h
  | cons a A => rfl

theorem streamDocs_lines (iaio qk : Bool) : ∀ docs : List JVal,
    streamDocs iaio qk docs = joinNl (streamL iaio qk docs)
  | [] => rfl
  | [x] => by
    rw [streamDocs, streamL]
    unfold manifestYamlDoc
    exact manifestYaml_lines iaio qk 0 false false x
  | x :: y :: r => by
    rw [streamDocs, streamL, joinNl_append _ _ (valL_ne_nil' _ _ _ _ _ _), joinNl_cons,
      nlAfter_ne_nil (streamL_ne_nil iaio qk y r), streamDocs_lines iaio qk (y :: r)]
    unfold manifestYamlDoc
    rw [manifestYaml_lines]
    simp [nlAfter, docStart]

/-- the lines after the documents -/
def streamEnd (cde : Bool) : List Str := if cde then [docEnd, []] else [[]]

theorem stream_text (iaio cde qk : Bool) (x : JVal) (xs : List JVal) :
    manifestYamlStream iaio cde qk (x :: xs)
      = joinNl (docStart :: (streamL iaio qk (x :: xs) ++ streamEnd cde)) := by
  have hne := streamL_ne_nil iaio qk x xs
  rw [manifestYamlStream, streamDocs_lines, joinNl_cons,
    nlAfter_ne_nil (by intro h; exact hne (List.append_eq_nil_iff.mp h).1), joinNl_append _ _ hne]
  cases cde <;> simp [streamEnd, nlAfter, joinNl, docStart, docEnd]

theorem streamL_nonl (iaio qk : Bool) : ∀ docs : List JVal, (∀ d ∈ docs, ValOK d) →
    LinesOK (streamL iaio qk docs)
  | [], _ => by intro l hl; rw [streamL] at hl; cases hl
  | [x], hv => by rw [streamL]; exact valL_nonl iaio qk 0 false false x (hv x (by simp))
  | x :: y :: r, hv => by
    rw [streamL]
    refine LinesOK.append (valL_nonl iaio qk 0 false false x (hv x (by simp))) ?_
    intro l hl
    rcases List.mem_cons.mp hl with rfl | h
    · decide
    · exact streamL_nonl iaio qk (y :: r) (fun d hd => hv d (List.mem_cons_of_mem _ hd)) l h

theorem linesOf_stream (iaio cde qk : Bool) (x : JVal) (xs : List JVal) (hv : ∀ d ∈ x :: xs, ValOK d) :
    linesOf (manifestYamlStream iaio cde qk (x :: xs))
      = docStart :: (streamL iaio qk (x :: xs) ++ streamEnd cde) := by
  rw [stream_text]
  refine linesOf_joinNl _ (by simp) ?_
  intro l hl
  rcases List.mem_cons.mp hl with rfl | h
  · decide
  · refine LinesOK.append (streamL_nonl iaio qk (x :: xs) hv) ?_ l h
    intro l hl
    cases cde
    · simp only [streamEnd, Bool.false_eq_true, if_false, List.mem_singleton] at hl
      rw [hl]; simp
    · simp only [streamEnd, if_true, List.mem_cons, List.not_mem_nil, or_false] at hl
      rcases hl with rfl | rfl
      · decide
      · simp

/-! ### no line of a document is a marker -/

/-- not a marker line -/
def NM (l : Str) : Prop := l ≠ docStart ∧ l ≠ docEnd

theorem nm_nil : NM [] := ⟨by decide, by decide⟩

theorem nm_space (t : Str) : NM (32 :: t) := by
  constructor <;> (intro h; injection h with h _; cases h)

theorem nm_mem {l : Str} {c : Nat} (hc : c ∈ l) (h1 : c ≠ 45) (h2 : c ≠ 46) : NM l := by
  constructor
  · intro e; rw [e] at hc; simp [docStart] at hc; exact h1 hc
  · intro e; rw [e] at hc; simp [docEnd] at hc; exact h2 hc

theorem nm_indent (d : Nat) (hd : 1 ≤ d) (t : Str) : NM (rep d indent ++ t) := by
  obtain ⟨d', rfl⟩ : ∃ d', d = d' + 1 := ⟨d - 1, by omega⟩
  rw [rep]
  exact nm_space _

theorem nm_dash (d : Nat) {s : Str} (h : AfterDash s) : NM (rep d indent ++ 45 :: s) := by
  cases d with
  | zero =>
    have e : rep 0 indent ++ 45 :: s = 45 :: s := rfl
    rw [e]
    rcases h with rfl | ⟨t, rfl⟩
    · exact ⟨by decide, by decide⟩
    · exact nm_mem (c := 32) (by simp) (by decide) (by decide)
  | succ d => exact nm_indent (d + 1) (by omega) _

theorem nm_keyline (pre : Str) (qk : Bool) (k s : Str) : NM (pre ++ (yamlKey qk k ++ 58 :: s)) :=
  nm_mem (c := 58) (by simp) (by decide) (by decide)

theorem nm_scalar {t : Str} {v : JVal} (h : readScalar t = some v) : NM t := by
  constructor
  · intro e
    rw [e] at h
    have : readScalar docStart = none := rfl
    rw [this] at h; cases h
  · intro e
    rw [e] at h
    have : readScalar docEnd = none := rfl
    rw [this] at h; cases h

/-- the lines after the first one are not markers; the first one neither unless it
    continues the line of a parent -/
def NMVal (iaio qk : Bool) (v : JVal) : Prop :=
  ∀ (d : Nat) (pA pO : Bool) (s : Str) (more : List Str), ValOK v → ((pA || pO) = true → 1 ≤ d) →
    valL iaio qk d pA pO v = s :: more → (∀ l ∈ more, NM l) ∧ ((pA || pO) = false → NM s)

def NMSeq (iaio qk : Bool) (xs : List JVal) : Prop :=
  ∀ (d : Nat), ItemsOK xs → ∀ l ∈ seqL iaio qk d xs, NM l

def NMMap (iaio qk : Bool) (fs : List (Str × JVal)) : Prop :=
  ∀ (d : Nat) (pre : Str), FieldsOK fs → ∀ l ∈ fieldsL iaio qk d pre fs, NM l

theorem nm_seq_step {iaio qk : Bool} (x : JVal) (xs : List JVal)
    (hx : NMVal iaio qk x) (hxs : NMSeq iaio qk xs) : NMSeq iaio qk (x :: xs) := by
  intro d hok l hl
  rw [ItemsOK] at hok
  obtain ⟨s, more, hv⟩ := valL_ne_nil iaio qk (d + 1) true false x
  rw [seqL_cons xs hv] at hl
  rcases List.mem_cons.mp hl with rfl | h
  · exact nm_dash d (itemHead hv)
  · rcases List.mem_append.mp h with h | h
    · exact (hx (d + 1) true false s more hok.1 (fun _ => by omega) hv).1 l h
    · exact hxs d hok.2 l h

theorem nm_map_step {iaio qk : Bool} (k : Str) (x : JVal) (fs : List (Str × JVal))
    (hx : NMVal iaio qk x) (hfs : NMMap iaio qk fs) : NMMap iaio qk ((k, x) :: fs) := by
  intro d pre hok l hl
  rw [FieldsOK] at hok
  obtain ⟨s, more, hv⟩ := valL_ne_nil iaio qk (d + 1) false true x
  rw [fieldsL_cons pre fs hv] at hl
  rcases List.mem_cons.mp hl with rfl | h
  · exact nm_keyline pre qk k s
  · rcases List.mem_append.mp h with h | h
    · exact (hx (d + 1) false true s more hok.1 (fun _ => by omega) hv).1 l h
    · exact hfs d _ hok.2 l h

theorem nm_val {iaio qk : Bool} (x : JVal) (hS : ∀ l, x = .arr l → NMSeq iaio qk l)
    (hM : ∀ l, x = .obj l → NMMap iaio qk l) : NMVal iaio qk x := by
  intro d pA pO s more hv hd hval
  rcases val_cases x hv with ⟨t, hrs, hl⟩ | ⟨y, ys, rfl⟩ | ⟨k, y, fs, rfl⟩ | ⟨s0, body, rfl, hbody⟩
  · rw [hl] at hval
    injection hval with e1 e2
    subst e1 e2
    refine ⟨(by intro l hl; cases hl), ?_⟩
    intro hp
    unfold lead
    rw [hp]
    exact nm_scalar hrs
  · rw [ValOK] at hv
    rw [valL] at hval
    have hall := hS _ rfl (if pO && !iaio then d - 1 else d) hv
    cases hp : (pA || pO)
    · rw [hp] at hval
      simp only [Bool.false_eq_true, if_false, List.nil_append] at hval
      rw [hval] at hall
      exact ⟨fun l hl => hall l (List.mem_cons_of_mem _ hl), fun _ => hall s List.mem_cons_self⟩
    · rw [hp] at hval
      simp only [if_true, List.singleton_append] at hval
      injection hval with e1 e2
      subst e1 e2
      exact ⟨hall, fun h => by cases h⟩
  · rw [ValOK] at hv
    rw [valL] at hval
    cases pA
    · cases pO
      · simp only [Bool.false_eq_true, if_false] at hval
        have hall := hM _ rfl d (rep d indent) hv.1
        rw [hval] at hall
        exact ⟨fun l hl => hall l (List.mem_cons_of_mem _ hl), fun _ => hall s List.mem_cons_self⟩
      · simp only [Bool.false_eq_true, if_false, if_true] at hval
        injection hval with e1 e2
        subst e1 e2
        exact ⟨hM _ rfl d (rep d indent) hv.1, fun h => by cases h⟩
    · simp only [if_true] at hval
      have hall := hM _ rfl d [32] hv.1
      rw [hval] at hall
      exact ⟨fun l hl => hall l (List.mem_cons_of_mem _ hl), fun h => by cases h⟩
  · rw [valL_block hbody] at hval
    injection hval with e1 e2
    subst e1 e2
    constructor
    · intro l hl
      obtain ⟨l', _, rfl⟩ := List.mem_map.mp hl
      refine nm_indent _ ?_ l'
      cases hp : (pA || pO)
      · simp
      · simp only [if_true]; exact hd hp
    · intro hp
      unfold lead
      rw [hp]
      exact ⟨by decide, by decide⟩

mutual
theorem nm_rt_val (iaio qk : Bool) : (v : JVal) → NMVal iaio qk v
  | .null => nm_val _ (fun _ e => by cases e) (fun _ e => by cases e)
  | .bool _ => nm_val _ (fun _ e => by cases e) (fun _ e => by cases e)
  | .num _ => nm_val _ (fun _ e => by cases e) (fun _ e => by cases e)
  | .str _ => nm_val _ (fun _ e => by cases e) (fun _ e => by cases e)
  | .arr l => nm_val _ (fun l' e => by cases e; exact nm_rt_seq iaio qk l) (fun _ e => by cases e)
  | .obj l => nm_val _ (fun _ e => by cases e) (fun l' e => by cases e; exact nm_rt_map iaio qk l)
theorem nm_rt_seq (iaio qk : Bool) : (l : List JVal) → NMSeq iaio qk l
  | [] => by intro d _ l hl; rw [seqL] at hl; cases hl
  | x :: xs => nm_seq_step x xs (nm_rt_val iaio qk x) (nm_rt_seq iaio qk xs)
theorem nm_rt_map (iaio qk : Bool) : (l : List (Str × JVal)) → NMMap iaio qk l
  | [] => by intro d pre _ l hl; rw [fieldsL] at hl; cases hl
  | (k, x) :: xs => nm_map_step k x xs (nm_rt_val iaio qk x) (nm_rt_map iaio qk xs)
end

/-- **no line of a document is `---` or `...`** -/
theorem valL_noMarker (iaio qk : Bool) (v : JVal) (hv : ValOK v) :
    ∀ l ∈ valL iaio qk 0 false false v, NM l := by
  obtain ⟨s, more, h⟩ := valL_ne_nil iaio qk 0 false false v
  have := nm_rt_val iaio qk v 0 false false s more hv (fun h => by cases h) h
  rw [h]
  intro l hl
  rcases List.mem_cons.mp hl with rfl | hl
  · exact this.2 rfl
  · exact this.1 l hl

/-! ### cutting at the markers -/

theorem cutAtEnd_none : ∀ (A : List Str), (∀ l ∈ A, l ≠ docEnd) → cutAtEnd A = (A, none)
  | [], _ => rfl
  | a :: A, h => by
    rw [cutAtEnd, if_neg (h a List.mem_cons_self),
      cutAtEnd_none A (fun l hl => h l (List.mem_cons_of_mem _ hl))]

theorem cutAtEnd_some : ∀ (A B : List Str), (∀ l ∈ A, l ≠ docEnd) →
    cutAtEnd (A ++ docEnd :: B) = (A, some B)
  | [], B, _ => by rw [List.nil_append, cutAtEnd, if_pos rfl]
  | a :: A, B, h => by
    rw [List.cons_append, cutAtEnd, if_neg (h a List.mem_cons_self),
      cutAtEnd_some A B (fun l hl => h l (List.mem_cons_of_mem _ hl))]

theorem dropFinalEmpty_snoc : ∀ (A : List Str), dropFinalEmpty (A ++ [[]]) = some A
  | [] => by simp [dropFinalEmpty]
  | [a] => by simp [dropFinalEmpty]
  | a :: b :: A => by
    have ih := dropFinalEmpty_snoc (b :: A)
    rw [List.cons_append] at ih
    rw [List.cons_append, List.cons_append, dropFinalEmpty, ih]

theorem splitDocs_none : ∀ (A : List Str), (∀ l ∈ A, l ≠ docStart) → splitDocs A = (A, [])
  | [], _ => rfl
  | a :: A, h => by
    rw [splitDocs, splitDocs_none A (fun l hl => h l (List.mem_cons_of_mem _ hl))]
    simp [h a List.mem_cons_self]

theorem splitDocs_some : ∀ (A B : List Str), (∀ l ∈ A, l ≠ docStart) →
    splitDocs (A ++ docStart :: B) = (A, (splitDocs B).1 :: (splitDocs B).2)
  | [], B, _ => by rw [List.nil_append, splitDocs]; simp
  | a :: A, B, h => by
    rw [List.cons_append, splitDocs, splitDocs_some A B (fun l hl => h l (List.mem_cons_of_mem _ hl))]
    simp [h a List.mem_cons_self]

theorem splitDocs_streamL (iaio qk : Bool) : ∀ (x : JVal) (xs : List JVal), (∀ d ∈ x :: xs, ValOK d) →
    (splitDocs (streamL iaio qk (x :: xs))).1 :: (splitDocs (streamL iaio qk (x :: xs))).2
      = (x :: xs).map (valL iaio qk 0 false false)
  | x, [], hv => by
    rw [streamL, splitDocs_none _ (fun l hl => (valL_noMarker iaio qk x (hv x (by simp)) l hl).1)]
    rfl
  | x, y :: r, hv => by
    rw [streamL, splitDocs_some _ _ (fun l hl => (valL_noMarker iaio qk x (hv x (by simp)) l hl).1)]
    simp only []
    rw [splitDocs_streamL iaio qk y r (fun d hd => hv d (List.mem_cons_of_mem _ hd))]
    rfl

theorem streamL_noEnd (iaio qk : Bool) : ∀ (docs : List JVal), (∀ d ∈ docs, ValOK d) →
    ∀ l ∈ streamL iaio qk docs, l ≠ docEnd
  | [], _ => by intro l hl; rw [streamL] at hl; cases hl
  | [x], hv => by
    rw [streamL]
    exact fun l hl => (valL_noMarker iaio qk x (hv x (by simp)) l hl).2
  | x :: y :: r, hv => by
    rw [streamL]
    intro l hl
    rcases List.mem_append.mp hl with h | h
    · exact (valL_noMarker iaio qk x (hv x (by simp)) l h).2
    · rcases List.mem_cons.mp h with rfl | h
      · decide
      · exact streamL_noEnd iaio qk (y :: r) (fun d hd => hv d (List.mem_cons_of_mem _ hd)) l h

/-! ### the documents -/

theorem readDocs_valL (iaio qk : Bool) : ∀ (docs : List JVal), (∀ d ∈ docs, ValOK d) →
    (∀ d ∈ docs, BlockOK d) → (∀ d ∈ docs, KeysOK qk d) →
    readDocs (docs.map (valL iaio qk 0 false false)) = some docs
  | [], _, _, _ => rfl
  | x :: xs, hv, hb, hk => by
    have h1 := readYaml_manifest_nl iaio qk x (hv x (by simp)) (hb x (by simp)) (hk x (by simp))
    unfold manifestYamlDoc at h1
    rw [manifestYaml_lines] at h1
    have h2 := readDocs_valL iaio qk xs (fun d hd => hv d (List.mem_cons_of_mem _ hd))
      (fun d hd => hb d (List.mem_cons_of_mem _ hd)) (fun d hd => hk d (List.mem_cons_of_mem _ hd))
    rw [List.map_cons, readDocs, h1, h2]

/-- **Round trip of streams.**  The stream reader returns exactly the documents that
    `std.manifestYamlStream` was given. -/
theorem readYamlStream_manifest (iaio cde qk : Bool) (docs : List JVal) (hne : docs ≠ [])
    (hv : ∀ d ∈ docs, ValOK d) (hb : ∀ d ∈ docs, BlockOK d) (hk : ∀ d ∈ docs, KeysOK qk d) :
    readYamlStream (manifestYamlStream iaio cde qk docs) = some docs := by
  cases docs with
  | nil => exact absurd rfl hne
  | cons x xs =>
    have hnoend := streamL_noEnd iaio qk (x :: xs) hv
    have hdocs := readDocs_valL iaio qk (x :: xs) hv hb hk
    rw [← splitDocs_streamL iaio qk x xs hv] at hdocs
    unfold readYamlStream
    rw [linesOf_stream iaio cde qk x xs hv]
    simp only [ne_eq, not_true_eq_false, if_false]
    cases cde
    · have e : streamEnd false = [[]] := rfl
      have hcut : cutAtEnd (streamL iaio qk (x :: xs) ++ [[]]) = (streamL iaio qk (x :: xs) ++ [[]], none) := by
        refine cutAtEnd_none _ ?_
        intro l hl
        rcases List.mem_append.mp hl with h | h
        · exact hnoend l h
        · rw [List.mem_singleton] at h; rw [h]; decide
      rw [e, hcut]
      simp only []
      rw [dropFinalEmpty_snoc]
      exact hdocs
    · have e : streamEnd true = [docEnd, []] := rfl
      rw [e, cutAtEnd_some _ _ hnoend]
      have hb' : allBlank [[]] = true := rfl
      simp only [hb', if_true]
      exact hdocs

/-- with `quote_keys = true` (the default) there is no condition on the keys -/
theorem readYamlStream_manifest_quoted (iaio cde : Bool) (docs : List JVal) (hne : docs ≠ [])
    (hv : ∀ d ∈ docs, ValOK d) (hb : ∀ d ∈ docs, BlockOK d) :
    readYamlStream (manifestYamlStream iaio cde true docs) = some docs :=
  readYamlStream_manifest iaio cde true docs hne hv hb (fun d _ => keysOK_true d)

end Rsj.Yaml

#print axioms Rsj.Yaml.readYamlStream_manifest
