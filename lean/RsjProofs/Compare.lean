/-
  Helper lemmas for C08 (equality and ordering), spec level:
  laws of `structEq` and `lexCompare`.
-/
import RsjModel.Compare
set_option linter.unusedSectionVars false
namespace Rsj.Compare

class LawfulNumOrd (ν : Type) [DecidableEq ν] [NumOrd ν] : Prop where
  cmp_eq_iff : ∀ a b : ν, NumOrd.cmp a b = .eq ↔ a = b
  cmp_swap : ∀ a b : ν, NumOrd.cmp b a = (NumOrd.cmp a b).swap
  cmp_lt_trans : ∀ a b c : ν, NumOrd.cmp a b = .lt → NumOrd.cmp b c = .lt → NumOrd.cmp a c = .lt

instance : LawfulNumOrd Int where
  cmp_eq_iff a b := by
    show compare a b = .eq ↔ a = b
    simp only [compare, compareOfLessAndEq]
    split
    · constructor
      · intro h; cases h
      · intro h; omega
    · split <;> simp_all
  cmp_swap a b := by
    show compare b a = (compare a b).swap
    simp only [compare, compareOfLessAndEq]
    by_cases h1 : a < b
    · have : ¬ b < a := by omega
      have : ¬ b = a := by omega
      simp [*]
    · by_cases h2 : a = b
      · subst h2; simp
      · have : b < a := by omega
        simp [*]
  cmp_lt_trans a b c := by
    show compare a b = .lt → compare b c = .lt → compare a c = .lt
    simp only [compare, compareOfLessAndEq]
    intro h1 h2
    have h1' : a < b := by
      by_cases h : a < b
      · exact h
      · rw [if_neg h] at h1; split at h1 <;> cases h1
    have h2' : b < c := by
      by_cases h : b < c
      · exact h
      · rw [if_neg h] at h2; split at h2 <;> cases h2
    rw [if_pos (by omega)]

section
variable {ν : Type}

/-- Induction over values with the induction hypothesis for every value that
    sits in an element / field thunk. -/
theorem Value.induct' {P : Value ν → Prop}
    (null : P .null) (bool : ∀ b, P (.bool b)) (num : ∀ n, P (.num n)) (str : ∀ s, P (.str s))
    (arr : ∀ xs, (∀ v, Thunk.val v ∈ xs → P v) → P (.arr xs))
    (obj : ∀ fs, (∀ k v, (k, Thunk.val v) ∈ fs → P v) → P (.obj fs))
    (func : P .func) : ∀ a, P a := by
  intro a
  induction h : sizeOf a using Nat.strongRecOn generalizing a with
  | _ n ih =>
    subst h
    cases a with
    | null => exact null
    | bool b => exact bool b
    | num n => exact num n
    | str s => exact str s
    | func => exact func
    | arr xs =>
      apply arr
      intro v hv
      refine ih _ ?_ v rfl
      have := List.sizeOf_lt_of_mem hv
      simp only [Value.arr.sizeOf_spec, Thunk.val.sizeOf_spec] at this ⊢
      omega
    | obj fs =>
      apply obj
      intro k v hv
      refine ih _ ?_ v rfl
      have := List.sizeOf_lt_of_mem hv
      simp only [Value.obj.sizeOf_spec, Thunk.val.sizeOf_spec, Prod.mk.sizeOf_spec] at this ⊢
      omega
end

section
variable {ν : Type} [DecidableEq ν]

theorem eqFields_eq_eqList (fs gs : List (String × Thunk ν)) :
    eqFields fs gs = eqList (fs.map (·.2)) (gs.map (·.2)) := by
  induction fs generalizing gs with
  | nil => simp [eqFields, eqList]
  | cons f fs ih =>
    obtain ⟨k, t⟩ := f
    cases gs with
    | nil => simp [eqFields, eqList]
    | cons g gs =>
      obtain ⟨k', t'⟩ := g
      cases t <;> cases t' <;> simp [eqFields, eqList, ih]


omit [DecidableEq ν] in
/-- Membership transfer for the field-value projection. -/
theorem mem_map_snd {fs : List (String × Thunk ν)} {t : Thunk ν} (h : t ∈ fs.map (·.2)) :
    ∃ k, (k, t) ∈ fs := by
  rcases List.mem_map.mp h with ⟨⟨k, t'⟩, hm, rfl⟩
  exact ⟨k, hm⟩

/-! ### symmetry -/

theorem eqList_symm {xs : List (Thunk ν)}
    (ih : ∀ v, Thunk.val v ∈ xs → ∀ b r, structEq v b = .ok r → structEq b v = .ok r) :
    ∀ ys r, eqList xs ys = .ok r → eqList ys xs = .ok r := by
  induction xs with
  | nil => intro ys r h; cases ys <;> simpa [eqList] using h
  | cons x xs ihx =>
    intro ys r h
    cases ys with
    | nil => simpa [eqList] using h
    | cons y ys =>
      cases x with
      | fail e => simp [eqList] at h
      | val a =>
        cases y with
        | fail e => simp [eqList] at h
        | val b =>
          simp only [eqList] at h ⊢
          have ih1 := ih a (List.mem_cons_self ..) b
          cases hab : structEq a b with
          | error e => rw [hab] at h; cases h
          | ok r' =>
            rw [ih1 r' hab]
            rw [hab] at h
            cases r' with
            | false => exact h
            | true =>
              exact ihx (fun v hv => ih v (List.mem_cons_of_mem _ hv)) ys r h

theorem structEq_symm (a : Value ν) : ∀ b r, structEq a b = .ok r → structEq b a = .ok r := by
  induction a using Value.induct' with
  | null => intro b r h; cases b <;> simpa [structEq] using h
  | bool x =>
    intro b r h; cases b <;> simp_all [structEq]
    rename_i y; cases x <;> cases y <;> exact h
  | num x => intro b r h; cases b <;> simp_all [structEq, eq_comm]
  | str x => intro b r h; cases b <;> simp_all [structEq, eq_comm]
  | func => intro b r h; cases b <;> simp_all [structEq]
  | arr xs ih =>
    intro b r h
    cases b <;> try (simpa [structEq] using h)
    rename_i ys
    simp only [structEq] at h ⊢
    by_cases hl : xs.length = ys.length
    · rw [if_neg (by simpa using hl)] at h
      rw [if_neg (by simpa using hl.symm)]
      exact eqList_symm ih ys r h
    · rw [if_pos (by simpa using hl)] at h
      rw [if_pos (by simpa using (fun h' => hl h'.symm))]
      exact h
  | obj fs ih =>
    intro b r h
    cases b <;> try (simpa [structEq] using h)
    rename_i gs
    simp only [structEq, eqFields_eq_eqList] at h ⊢
    by_cases hl : fs.map (·.1) = gs.map (·.1)
    · rw [if_neg (by simpa using hl)] at h
      rw [if_neg (by simpa using hl.symm)]
      refine eqList_symm ?_ _ r h
      intro v hv
      obtain ⟨k, hk⟩ := mem_map_snd hv
      exact ih k v hk
    · rw [if_pos (by simpa using hl)] at h
      rw [if_pos (by simpa using (fun h' => hl h'.symm))]
      exact h

end
end Rsj.Compare

namespace Rsj.Compare
section
variable {ν : Type} [DecidableEq ν]

/-! ### transitivity -/

theorem eqList_trans {xs : List (Thunk ν)}
    (ih : ∀ v, Thunk.val v ∈ xs → ∀ b c, structEq v b = .ok true → structEq b c = .ok true →
      structEq v c = .ok true) :
    ∀ ys zs, xs.length = ys.length → ys.length = zs.length →
      eqList xs ys = .ok true → eqList ys zs = .ok true → eqList xs zs = .ok true := by
  induction xs with
  | nil => intro ys zs _ _ _ _; simp [eqList]
  | cons x xs ihx =>
    intro ys zs h1 h2 e1 e2
    cases ys with
    | nil => simp at h1
    | cons y ys =>
      cases zs with
      | nil => simp at h2
      | cons z zs =>
        cases x with
        | fail e => simp [eqList] at e1
        | val a =>
          cases y with
          | fail e => simp [eqList] at e1
          | val b =>
            cases z with
            | fail e => simp [eqList] at e2
            | val c =>
              simp only [eqList] at e1 e2 ⊢
              cases hab : structEq a b with
              | error e => rw [hab] at e1; cases e1
              | ok r1 =>
                rw [hab] at e1
                cases r1 with
                | false => cases e1
                | true =>
                  cases hbc : structEq b c with
                  | error e => rw [hbc] at e2; cases e2
                  | ok r2 =>
                    rw [hbc] at e2
                    cases r2 with
                    | false => cases e2
                    | true =>
                      rw [ih a (List.mem_cons_self ..) b c hab hbc]
                      exact ihx (fun v hv => ih v (List.mem_cons_of_mem _ hv)) ys zs
                        (by simpa using h1) (by simpa using h2) e1 e2

theorem structEq_arr (xs ys : List (Thunk ν)) :
    structEq (.arr xs) (.arr ys) = if xs.length = ys.length then eqList xs ys else .ok false := by
  simp only [structEq]; split <;> simp_all

theorem structEq_obj (fs gs : List (String × Thunk ν)) :
    structEq (.obj fs) (.obj gs) =
      if fs.map (·.1) = gs.map (·.1) then eqList (fs.map (·.2)) (gs.map (·.2)) else .ok false := by
  simp only [structEq, eqFields_eq_eqList]; split <;> simp_all

theorem structEq_trans (a : Value ν) : ∀ b c, structEq a b = .ok true → structEq b c = .ok true →
    structEq a c = .ok true := by
  induction a using Value.induct' with
  | null => intro b c h1 h2; cases b <;> cases c <;> simp_all [structEq]
  | bool x => intro b c h1 h2; cases b <;> cases c <;> simp_all [structEq]
  | num x => intro b c h1 h2; cases b <;> cases c <;> simp_all [structEq]
  | str x => intro b c h1 h2; cases b <;> cases c <;> simp_all [structEq]
  | func => intro b c h1 h2; cases b <;> simp_all [structEq]
  | arr xs ih =>
    intro b c h1 h2
    cases b with
    | arr ys =>
      cases c with
      | arr zs =>
        rw [structEq_arr] at h1 h2 ⊢
        by_cases hl1 : xs.length = ys.length
        · by_cases hl2 : ys.length = zs.length
          · rw [if_pos hl1] at h1
            rw [if_pos hl2] at h2
            rw [if_pos (hl1.trans hl2)]
            exact eqList_trans ih ys zs hl1 hl2 h1 h2
          · rw [if_neg hl2] at h2; cases h2
        · rw [if_neg hl1] at h1; cases h1
      | _ => simp [structEq] at h2
    | _ => simp [structEq] at h1
  | obj fs ih =>
    intro b c h1 h2
    cases b with
    | obj gs =>
      cases c with
      | obj hs =>
        rw [structEq_obj] at h1 h2 ⊢
        by_cases hl1 : fs.map (·.1) = gs.map (·.1)
        · by_cases hl2 : gs.map (·.1) = hs.map (·.1)
          · rw [if_pos hl1] at h1
            rw [if_pos hl2] at h2
            rw [if_pos (hl1.trans hl2)]
            have l1 := congrArg List.length hl1
            have l2 := congrArg List.length hl2
            simp only [List.length_map] at l1 l2
            refine eqList_trans ?_ _ _ (by simpa using l1) (by simpa using l2) h1 h2
            intro v hv
            obtain ⟨k, hk⟩ := mem_map_snd hv
            exact ih k v hk
          · rw [if_neg hl2] at h2; cases h2
        · rw [if_neg hl1] at h1; cases h1
      | _ => simp [structEq] at h2
    | _ => simp [structEq] at h1

end
end Rsj.Compare

namespace Rsj.Compare
section
variable {ν : Type} [DecidableEq ν]

/-! ### purity, reflexivity, `ok true` means identical -/

/-- Error-free and function-free (in visible positions): every thunk is a value. -/
inductive Pure : Value ν → Prop
  | null : Pure .null
  | bool (b : Bool) : Pure (.bool b)
  | num (n : ν) : Pure (.num n)
  | str (s : List Nat) : Pure (.str s)
  | arr (xs : List (Thunk ν)) : (∀ e, Thunk.fail e ∉ xs) → (∀ v, Thunk.val v ∈ xs → Pure v) →
      Pure (.arr xs)
  | obj (fs : List (String × Thunk ν)) : (∀ k e, (k, Thunk.fail e) ∉ fs) →
      (∀ k v, (k, Thunk.val v) ∈ fs → Pure v) → Pure (.obj fs)

theorem eqList_refl {xs : List (Thunk ν)} (h1 : ∀ e, Thunk.fail e ∉ xs)
    (h2 : ∀ v, Thunk.val v ∈ xs → structEq v v = .ok true) : eqList xs xs = .ok true := by
  induction xs with
  | nil => simp [eqList]
  | cons x xs ih =>
    cases x with
    | fail e => exact absurd (List.mem_cons_self ..) (h1 e)
    | val a =>
      simp only [eqList]
      rw [h2 a (List.mem_cons_self ..)]
      exact ih (fun e he => h1 e (List.mem_cons_of_mem _ he))
        (fun v hv => h2 v (List.mem_cons_of_mem _ hv))

theorem structEq_refl {a : Value ν} (h : Pure a) : structEq a a = .ok true := by
  induction h with
  | null => simp [structEq]
  | bool b => simp [structEq]
  | num n => simp [structEq]
  | str s => simp [structEq]
  | arr xs h1 _ ih => rw [structEq_arr, if_pos rfl]; exact eqList_refl h1 ih
  | obj fs h1 _ ih =>
    rw [structEq_obj, if_pos rfl]
    refine eqList_refl ?_ ?_
    · intro e he
      obtain ⟨k, hk⟩ := mem_map_snd he
      exact h1 k e hk
    · intro v hv
      obtain ⟨k, hk⟩ := mem_map_snd hv
      exact ih k v hk

theorem eqList_true_eq {xs : List (Thunk ν)}
    (ih : ∀ v, Thunk.val v ∈ xs → ∀ b, structEq v b = .ok true → v = b) :
    ∀ ys, xs.length = ys.length → eqList xs ys = .ok true → xs = ys := by
  induction xs with
  | nil => intro ys hl _; cases ys with
    | nil => rfl
    | cons _ _ => simp at hl
  | cons x xs ihx =>
    intro ys hl h
    cases ys with
    | nil => simp at hl
    | cons y ys =>
      cases x with
      | fail e => simp [eqList] at h
      | val a =>
        cases y with
        | fail e => simp [eqList] at h
        | val b =>
          simp only [eqList] at h
          cases hab : structEq a b with
          | error e => rw [hab] at h; cases h
          | ok r =>
            rw [hab] at h
            cases r with
            | false => cases h
            | true =>
              rw [ih a (List.mem_cons_self ..) b hab]
              rw [ihx (fun v hv => ih v (List.mem_cons_of_mem _ hv)) ys (by simpa using hl) h]

omit [DecidableEq ν] in
theorem fields_ext : ∀ {fs gs : List (String × Thunk ν)},
    fs.map (·.1) = gs.map (·.1) → fs.map (·.2) = gs.map (·.2) → fs = gs
  | [], [], _, _ => rfl
  | [], _ :: _, h, _ => by simp at h
  | _ :: _, [], h, _ => by simp at h
  | (k, t) :: fs, (k', t') :: gs, h1, h2 => by
    simp only [List.map_cons, List.cons.injEq] at h1 h2
    obtain ⟨rfl, h1⟩ := h1
    obtain ⟨rfl, h2⟩ := h2
    rw [fields_ext h1 h2]

/-- `==` answers `true` only on identical values. -/
theorem structEq_true_eq (a : Value ν) : ∀ b, structEq a b = .ok true → a = b := by
  induction a using Value.induct' with
  | null => intro b h; cases b <;> simp_all [structEq]
  | bool x => intro b h; cases b <;> simp_all [structEq]
  | num x => intro b h; cases b <;> simp_all [structEq]
  | str x => intro b h; cases b <;> simp_all [structEq]
  | func => intro b h; cases b <;> simp_all [structEq]
  | arr xs ih =>
    intro b h
    cases b with
    | arr ys =>
      rw [structEq_arr] at h
      by_cases hl : xs.length = ys.length
      · rw [if_pos hl] at h
        rw [eqList_true_eq ih ys hl h]
      · rw [if_neg hl] at h; cases h
    | _ => simp [structEq] at h
  | obj fs ih =>
    intro b h
    cases b with
    | obj gs =>
      rw [structEq_obj] at h
      by_cases hl : fs.map (·.1) = gs.map (·.1)
      · rw [if_pos hl] at h
        have hlen := congrArg List.length hl
        simp only [List.length_map] at hlen
        have := eqList_true_eq (xs := fs.map (·.2)) (by
          intro v hv
          obtain ⟨k, hk⟩ := mem_map_snd hv
          exact ih k v hk) (gs.map (·.2)) (by simpa using hlen) h
        rw [fields_ext hl this]
      · rw [if_neg hl] at h; cases h
    | _ => simp [structEq] at h

theorem eqList_true_pure {xs : List (Thunk ν)}
    (ih : ∀ v, Thunk.val v ∈ xs → ∀ b, structEq v b = .ok true → Pure v) :
    ∀ ys, xs.length = ys.length → eqList xs ys = .ok true →
      (∀ e, Thunk.fail e ∉ xs) ∧ (∀ v, Thunk.val v ∈ xs → Pure v) := by
  induction xs with
  | nil => intro ys _ _; simp
  | cons x xs ihx =>
    intro ys hl h
    cases ys with
    | nil => simp at hl
    | cons y ys =>
      cases x with
      | fail e => simp [eqList] at h
      | val a =>
        cases y with
        | fail e => simp [eqList] at h
        | val b =>
          simp only [eqList] at h
          cases hab : structEq a b with
          | error e => rw [hab] at h; cases h
          | ok r =>
            rw [hab] at h
            cases r with
            | false => cases h
            | true =>
              have ⟨r1, r2⟩ := ihx (fun v hv => ih v (List.mem_cons_of_mem _ hv)) ys
                (by simpa using hl) h
              constructor
              · intro e he
                rcases List.mem_cons.mp he with he | he
                · cases he
                · exact r1 e he
              · intro v hv
                rcases List.mem_cons.mp hv with hv | hv
                · cases hv; exact ih a (List.mem_cons_self ..) b hab
                · exact r2 v hv

/-- `==` answers `true` only on error-free, function-free values. -/
theorem structEq_true_pure (a : Value ν) : ∀ b, structEq a b = .ok true → Pure a := by
  induction a using Value.induct' with
  | null => intro _ _; exact .null
  | bool x => intro _ _; exact .bool x
  | num x => intro _ _; exact .num x
  | str x => intro _ _; exact .str x
  | func => intro b h; cases b <;> simp_all [structEq]
  | arr xs ih =>
    intro b h
    cases b with
    | arr ys =>
      rw [structEq_arr] at h
      by_cases hl : xs.length = ys.length
      · rw [if_pos hl] at h
        have ⟨r1, r2⟩ := eqList_true_pure ih ys hl h
        exact .arr xs r1 r2
      · rw [if_neg hl] at h; cases h
    | _ => simp [structEq] at h
  | obj fs ih =>
    intro b h
    cases b with
    | obj gs =>
      rw [structEq_obj] at h
      by_cases hl : fs.map (·.1) = gs.map (·.1)
      · rw [if_pos hl] at h
        have hlen := congrArg List.length hl
        simp only [List.length_map] at hlen
        have ⟨r1, r2⟩ := eqList_true_pure (xs := fs.map (·.2)) (by
          intro v hv
          obtain ⟨k, hk⟩ := mem_map_snd hv
          exact ih k v hk) (gs.map (·.2)) (by simpa using hlen) h
        refine .obj fs ?_ ?_
        · intro k e he
          exact r1 e (List.mem_map.mpr ⟨(k, .fail e), he, rfl⟩)
        · intro k v hv
          exact r2 v (List.mem_map.mpr ⟨(k, .val v), hv, rfl⟩)
      · rw [if_neg hl] at h; cases h
    | _ => simp [structEq] at h

end
end Rsj.Compare
