/-
  Lemmas about `escape_string_json` (model `Rsj.Json.escape`) and the model's
  JSON string lexer (`lexString`): the escaped text is an RFC 8259 string and
  lexes back to the original code points.
-/
import RsjModel.Json
namespace Rsj.Json

def isHexDigit (c : Nat) : Bool :=
  (48 ≤ c && c ≤ 57) || (97 ≤ c && c ≤ 102) || (65 ≤ c && c ≤ 70)

/-- RFC 8259 §7: `*char` — the text between the quotation marks of a `string`.
    `char = unescaped / escape ( %x22 / %x5C / %x2F / %x62 / %x66 / %x6E / %x72 / %x74 / %x75 4HEXDIG )`,
    `unescaped = %x20-21 / %x23-5B / %x5D-10FFFF`. -/
def rfcBody : Str → Bool
  | [] => true
  | c :: r =>
    if c = 92 then
      match r with
      | [] => false
      | x :: r1 =>
        if x = 34 ∨ x = 92 ∨ x = 47 ∨ x = 98 ∨ x = 102 ∨ x = 110 ∨ x = 114 ∨ x = 116 then rfcBody r1
        else if x = 117 then
          match r1 with
          | a :: b :: c :: d :: r2 =>
            isHexDigit a && isHexDigit b && isHexDigit c && isHexDigit d && rfcBody r2
          | _ => false
        else false
    else if c = 34 ∨ c < 0x20 then false
    else rfcBody r

/-- RFC 8259 `string = quotation-mark *char quotation-mark` -/
def rfcString (s : Str) : Bool :=
  match s with
  | 34 :: r => (match r.reverse with | 34 :: b => rfcBody b.reverse | _ => false)
  | _ => false

theorem hexLower_isHex : ∀ n, n < 16 → isHexDigit (hexLower n) = true := by decide
theorem hexFromDigit_hexLower : ∀ n, n < 16 → hexFromDigit (hexLower n) = some n := by decide
theorem hexLower_ge : ∀ n, n < 16 → 0x20 ≤ hexLower n ∧ hexLower n ≠ 34 ∧ hexLower n ≠ 92 := by decide

theorem rfcBody_escapeChar (c : Nat) (t : Str) : rfcBody (escapeChar c ++ t) = rfcBody t := by
  unfold escapeChar
  split; · rw [rfcBody.eq_def]; simp
  split; · rw [rfcBody.eq_def]; simp
  split; · rw [rfcBody.eq_def]; simp
  split; · rw [rfcBody.eq_def]; simp
  split; · rw [rfcBody.eq_def]; simp
  split; · rw [rfcBody.eq_def]; simp
  split; · rw [rfcBody.eq_def]; simp
  split
  · rw [rfcBody.eq_def]
    simp [hex4, hexLower_isHex _ (Nat.mod_lt _ (by omega : 0 < 16))]
  · next h1 h2 h3 h4 h5 h6 h7 h8 =>
    rw [rfcBody.eq_def]
    have a2 : 32 ≤ c := by omega
    simp [h6, h7, a2]

theorem rfcBody_escapeBody (s : Str) : rfcBody (escapeBody s) = true := by
  induction s with
  | nil => rfl
  | cons c s ih => rw [escapeBody, rfcBody_escapeChar]; exact ih

/-- every character written by `escapeChar` is ≥ U+0020 -/
theorem escapeChar_ge (c : Nat) : ∀ x ∈ escapeChar c, 0x20 ≤ x := by
  unfold escapeChar
  split; · simp
  split; · simp
  split; · simp
  split; · simp
  split; · simp
  split; · simp
  split; · simp
  split
  · intro x hx
    simp only [hex4, List.mem_cons, List.not_mem_nil, or_false] at hx
    rcases hx with rfl | rfl | rfl | rfl | rfl | rfl
    · omega
    · omega
    all_goals exact (hexLower_ge _ (Nat.mod_lt _ (by omega : 0 < 16))).1
  · intro x hx
    simp only [List.mem_cons, List.not_mem_nil, or_false] at hx
    omega

theorem escapeBody_ge (s : Str) : ∀ x ∈ escapeBody s, 0x20 ≤ x := by
  induction s with
  | nil => intro x hx; cases hx
  | cons c s ih =>
    intro x hx
    rw [escapeBody, List.mem_append] at hx
    rcases hx with h | h
    · exact escapeChar_ge c x h
    · exact ih x h

theorem cu4_hex4 (c : Nat) (h : c < 0x10000) :
    cu4 (hexLower (c / 4096 % 16)) (hexLower (c / 256 % 16)) (hexLower (c / 16 % 16)) (hexLower (c % 16))
      = some c := by
  unfold cu4
  rw [hexFromDigit_hexLower _ (Nat.mod_lt _ (by omega : 0 < 16)),
      hexFromDigit_hexLower _ (Nat.mod_lt _ (by omega : 0 < 16)),
      hexFromDigit_hexLower _ (Nat.mod_lt _ (by omega : 0 < 16)),
      hexFromDigit_hexLower _ (Nat.mod_lt _ (by omega : 0 < 16))]
  simp only [Option.some.injEq]
  omega

theorem lexStrBody_escapeChar (c : Nat) (t : Str) :
    lexStrBody (escapeChar c ++ t) = consStr c (lexStrBody t) := by
  unfold escapeChar
  split; · next h => subst h; rw [lexStrBody.eq_def]; simp
  split; · next h => subst h; rw [lexStrBody.eq_def]; simp
  split; · next h => subst h; rw [lexStrBody.eq_def]; simp
  split; · next h => subst h; rw [lexStrBody.eq_def]; simp
  split; · next h => subst h; rw [lexStrBody.eq_def]; simp
  split; · next h => subst h; rw [lexStrBody.eq_def]; simp
  split; · next h => subst h; rw [lexStrBody.eq_def]; simp
  split
  · next h =>
    rw [lexStrBody.eq_def]
    have hc : c < 0x10000 := by omega
    have hs : ¬ (0xD800 ≤ c ∧ c ≤ 0xDFFF) := by omega
    simp [hex4, cu4_hex4 c hc, hs]
  · next h1 h2 h3 h4 h5 h6 h7 h8 =>
    rw [lexStrBody.eq_def]
    have : ¬ c ≤ 31 := by omega
    simp [*]

theorem lexStrBody_escapeBody (s rest : Str) :
    lexStrBody (escapeBody s ++ 34 :: rest) = .ok (s, rest) := by
  induction s with
  | nil => rw [lexStrBody.eq_def]; simp [escapeBody]
  | cons c s ih =>
    rw [escapeBody, List.append_assoc, lexStrBody_escapeChar, ih]; rfl

theorem lexString_escape (s rest : Str) :
    lexString (escape s ++ rest) = .ok (some (s, rest)) := by
  unfold escape
  rw [List.cons_append, List.append_assoc]
  unfold lexString
  simp only [List.cons_append, List.nil_append]
  rw [lexStrBody_escapeBody]

end Rsj.Json
