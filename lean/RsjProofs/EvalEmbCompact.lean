import RsjProofs.EvalEmbId
/-!
  A concrete compacting collector on the store of the evaluator model: all cells outside a region `D`
  are dropped, the surviving cells are moved to the front (order preserved) and every id stored in
  them is renumbered accordingly.  If `D` is closed in the store (`AgreeOn D st st`), the compacted
  store is `Sim`-related to the original one by the renaming (`compact_sim`); together with the
  invariance of the evaluator under store embeddings this says that the collector is unobservable.
-/
set_option linter.unusedVariables false
namespace Rsj.Eval
open Rsj.Core
set_option linter.unusedSectionVars false
variable [Mode]

/-! ### The new position of a kept cell -/

/-- number of kept positions below `i` = the new position of a kept cell -/
def rank (keep : Nat → Bool) (i : Nat) : Nat := ((List.range i).filter keep).length

theorem rank_succ (keep : Nat → Bool) (i : Nat) :
    rank keep (i + 1) = rank keep i + (if keep i then 1 else 0) := by
  unfold rank
  rw [List.range_succ, List.filter_append]
  by_cases h : keep i <;> simp [h]

theorem rank_mono (keep : Nat → Bool) {i j : Nat} (h : i ≤ j) : rank keep i ≤ rank keep j := by
  induction h with
  | refl => exact Nat.le_refl _
  | step _ ih => rw [rank_succ]; omega

/-- `rank` is strictly monotone on kept positions -/
theorem rank_lt {keep : Nat → Bool} {i j : Nat} (hij : i < j) (hi : keep i = true) :
    rank keep i < rank keep j := by
  have h := rank_mono keep (Nat.succ_le_of_lt hij)
  rw [rank_succ, hi] at h
  simp at h
  omega

/-- `rank` is injective on kept positions -/
theorem rank_inj {keep : Nat → Bool} {i j : Nat} (hi : keep i = true) (hj : keep j = true)
    (h : rank keep i = rank keep j) : i = j := by
  rcases Nat.lt_trichotomy i j with hlt | heq | hgt
  · have := rank_lt hlt hi; omega
  · exact heq
  · have := rank_lt hgt hj; omega

/-! ### Renaming the ids stored in a cell -/

structure Ren where
  t : Nat → Nat
  e : Nat → Nat
  o : Nat → Nat
  f : Nat → Nat

def Value.ren (r : Ren) : Value → Value
  | .arr xs => .arr (xs.map r.t)
  | .obj o => .obj (r.o o)
  | .func f => .func (r.f f)
  | v => v

def Pending.ren (r : Ren) : Pending → Pending
  | .expr e env => .expr e (r.e env)
  | .plus e field env => .plus e field (r.e env)
  | .call f args => .call (r.f f) (args.map r.t)

def TState.ren (r : Ren) : TState → TState
  | .pending p => .pending (p.ren r)
  | .inProgress p => .inProgress (p.ren r)
  | .done v => .done (v.ren r)

def ObjRef.ren (r : Ren) (x : ObjRef) : ObjRef :=
  { obj := r.o x.obj, layer := x.layer, top := r.o x.top }

def Env.ren (r : Ren) (x : Env) : Env :=
  { parent := x.parent.map r.e
    vars := x.vars.map (fun p => (p.1, r.t p.2))
    obj := x.obj.map (ObjRef.ren r) }

def Field.ren (r : Ren) (x : Field) : Field :=
  { name := x.name, vis := x.vis, baseEnv := x.baseEnv.map r.e, expr := x.expr, thunk := x.thunk.map r.t }

def Layer.ren (r : Ren) (x : Layer) : Layer :=
  { isTop := x.isTop, locals := x.locals, baseEnv := x.baseEnv.map r.e, env := x.env.map r.e
    fields := x.fields.map (Field.ren r), asserts := x.asserts }

def Obj.ren (r : Ren) (x : Obj) : Obj :=
  { layers := x.layers.map (Layer.ren r), assertsChecked := x.assertsChecked
    assertsInProgress := x.assertsInProgress }

def Func.ren (r : Ren) (x : Func) : Func :=
  { params := x.params, body := x.body, env := r.e x.env }

/-! ### Compacting an array -/

/-- keep the cells at positions with `keep i = true`, in order, each transformed by `f` -/
def compactArr {α : Type} (keep : Nat → Bool) (f : α → α) (xs : Array α) : Array α :=
  (((List.range xs.size).filter keep).filterMap (fun i => xs[i]?.map f)).toArray

theorem length_filterMap_getElem? {α : Type} (f : α → α) (xs : Array α) (l : List Nat)
    (hl : ∀ j ∈ l, j < xs.size) : (l.filterMap (fun i => xs[i]?.map f)).length = l.length := by
  induction l with
  | nil => rfl
  | cons a l ih =>
    have ha : a < xs.size := hl a (by simp)
    have ih' := ih (fun j hj => hl j (List.mem_cons_of_mem _ hj))
    simp [ha, ih']

/-- a kept cell is found, transformed, at its rank -/
theorem compactArr_getElem? {α : Type} {keep : Nat → Bool} {f : α → α} {xs : Array α} {i : Nat} {x : α}
    (hx : xs[i]? = some x) (hk : keep i = true) :
    (compactArr keep f xs)[rank keep i]? = some (f x) := by
  have hi : i < xs.size := by
    rcases Nat.lt_or_ge i xs.size with h | h
    · exact h
    · simp [Array.getElem?_eq_none h] at hx
  obtain ⟨k, hk'⟩ : ∃ k, xs.size = i + (k + 1) := ⟨xs.size - i - 1, by omega⟩
  have hsplit : (List.range xs.size).filter keep
      = (List.range i).filter keep ++ i :: ((List.range k).map (fun j => i + (j + 1))).filter keep := by
    rw [hk', List.range_add, List.filter_append, List.range_succ_eq_map, List.map_cons, List.filter_cons]
    simp [hk, Function.comp_def]
  have hlen : (((List.range i).filter keep).filterMap (fun j => xs[j]?.map f)).length = rank keep i :=
    length_filterMap_getElem? f xs _ (fun j hj => by
      have := (List.mem_filter.1 hj).1
      simp at this; omega)
  unfold compactArr
  rw [List.getElem?_toArray, hsplit, List.filterMap_append, List.getElem?_append_right (by omega), hlen,
    Nat.sub_self, List.filterMap_cons]
  simp [hx]

/-- the compacted array has as many cells as there are kept positions -/
theorem compactArr_size {α : Type} (keep : Nat → Bool) (f : α → α) (xs : Array α) :
    (compactArr keep f xs).size = rank keep xs.size := by
  unfold compactArr rank
  rw [List.size_toArray]
  exact length_filterMap_getElem? f xs _ (fun j hj => by
    have := (List.mem_filter.1 hj).1
    simpa using this)

/-! ### The collector -/

def Region.ren (D : Region) : Ren := ⟨rank D.t, rank D.e, rank D.o, rank D.f⟩

/-- the renaming performed by the collector, as an embedding of the old store into the compacted one -/
def Region.compactEmb (D : Region) : Emb where
  tm := fun i => if D.t i then some (rank D.t i) else none
  em := fun i => if D.e i then some (rank D.e i) else none
  om := fun i => if D.o i then some (rank D.o i) else none
  fm := fun i => if D.f i then some (rank D.f i) else none

/-- the collector: drop all cells outside `D`, renumber the survivors -/
def compact (D : Region) (st : St) : St :=
  { thunks := compactArr D.t (TState.ren D.ren) st.thunks
    envs := compactArr D.e (Env.ren D.ren) st.envs
    objs := compactArr D.o (Obj.ren D.ren) st.objs
    funcs := compactArr D.f (Func.ren D.ren) st.funcs
    traces := st.traces
    runs := compactArr D.t id st.runs
    deepest := st.deepest
    tripped := st.tripped }

/-! ### A cell related to itself on `D` is related to its renaming -/

section Transfer
variable {D : Region}

theorem RT.compact {t t' : TId} (h : RT D.emb t t') : RT D.compactEmb t (D.ren.t t) := by
  simp only [RT, Region.emb] at h
  simp only [RT, Region.compactEmb, Region.ren]
  split at h
  · next hd => simp [hd]
  · cases h

theorem RE.compact {t t' : EId} (h : RE D.emb t t') : RE D.compactEmb t (D.ren.e t) := by
  simp only [RE, Region.emb] at h
  simp only [RE, Region.compactEmb, Region.ren]
  split at h
  · next hd => simp [hd]
  · cases h

theorem RO.compact {t t' : OId} (h : RO D.emb t t') : RO D.compactEmb t (D.ren.o t) := by
  simp only [RO, Region.emb] at h
  simp only [RO, Region.compactEmb, Region.ren]
  split at h
  · next hd => simp [hd]
  · cases h

theorem RF.compact {t t' : FId} (h : RF D.emb t t') : RF D.compactEmb t (D.ren.f t) := by
  simp only [RF, Region.emb] at h
  simp only [RF, Region.compactEmb, Region.ren]
  split at h
  · next hd => simp [hd]
  · cases h

theorem RList.compact {α : Type} {R : Emb → α → α → Prop} {g : α → α} {l l' : List α}
    (h : RList R D.emb l l') (hR : ∀ a b, R D.emb a b → R D.compactEmb a (g a)) :
    RList R D.compactEmb l (l.map g) := by
  induction h with
  | nil => exact .nil
  | cons h1 _ ih => exact .cons (hR _ _ h1) ih

theorem ROpt.compact {α : Type} {R : Emb → α → α → Prop} {g : α → α} {l l' : Option α}
    (h : ROpt R D.emb l l') (hR : ∀ a b, R D.emb a b → R D.compactEmb a (g a)) :
    ROpt R D.compactEmb l (l.map g) := by
  cases h with
  | none => exact .none
  | some h1 => exact .some (hR _ _ h1)

theorem RVal.compact {v v' : Value} (h : RVal D.emb v v') : RVal D.compactEmb v (v.ren D.ren) := by
  cases h with
  | null => exact .null
  | bool b => exact .bool b
  | num f => exact .num f
  | str s => exact .str s
  | arr h1 => exact .arr (h1.compact (fun _ _ => RT.compact))
  | obj h1 => exact .obj h1.compact
  | func h1 => exact .func h1.compact

theorem RPending.compact {v v' : Pending} (h : RPending D.emb v v') :
    RPending D.compactEmb v (v.ren D.ren) := by
  cases h with
  | expr e h1 => exact .expr e h1.compact
  | plus e f h1 => exact .plus e f h1.compact
  | call h1 h2 => exact .call h1.compact (h2.compact (fun _ _ => RT.compact))

theorem RTState.compact {v v' : TState} (h : RTState D.emb v v') :
    RTState D.compactEmb v (v.ren D.ren) := by
  cases h with
  | pending h1 => exact .pending h1.compact
  | inProgress h1 => exact .inProgress h1.compact
  | inProgressLoose h1 => exact .inProgressLoose h1
  | done h1 => exact .done h1.compact

theorem RObjRef.compact {v v' : ObjRef} (h : RObjRef D.emb v v') :
    RObjRef D.compactEmb v (v.ren D.ren) :=
  ⟨h.obj.compact, rfl, h.top.compact⟩

theorem RVars.compact {v v' : List (String × TId)} (h : RVars D.emb v v') :
    RVars D.compactEmb v (v.map (fun p => (p.1, D.ren.t p.2))) :=
  RList.compact h (fun a b hab => ⟨rfl, RT.compact hab.2⟩)

theorem REnv.compact {v v' : Env} (h : REnv D.emb v v') : REnv D.compactEmb v (v.ren D.ren) :=
  ⟨h.parent.compact (fun _ _ => RE.compact), RVars.compact h.vars,
   h.obj.compact (fun _ _ => RObjRef.compact)⟩

theorem RField.compact {v v' : Field} (h : RField D.emb v v') : RField D.compactEmb v (v.ren D.ren) :=
  ⟨rfl, rfl, h.baseEnv.compact (fun _ _ => RE.compact), rfl, h.thunk.compact (fun _ _ => RT.compact)⟩

theorem RLayer.compact {v v' : Layer} (h : RLayer D.emb v v') : RLayer D.compactEmb v (v.ren D.ren) :=
  ⟨rfl, rfl, h.baseEnv.compact (fun _ _ => RE.compact), h.env.compact (fun _ _ => RE.compact),
   h.fields.compact (fun _ _ => RField.compact), rfl⟩

theorem RObj.compact {v v' : Obj} (h : RObj D.emb v v') : RObj D.compactEmb v (v.ren D.ren) :=
  ⟨h.layers.compact (fun _ _ => RLayer.compact), rfl, rfl⟩

theorem RFunc.compact {v v' : Func} (h : RFunc D.emb v v') : RFunc D.compactEmb v (v.ren D.ren) :=
  ⟨rfl, rfl, h.env.compact⟩

end Transfer

/-! ### The compacted store is related to the original -/

/-- one component of `compact_sim` -/
theorem compactArr_sim {α : Type} {keep : Nat → Bool} {f : α → α} {R R' : α → α → Prop} {xs : Array α}
    (hcell : ∀ i, keep i = true → ∃ s, xs[i]? = some s ∧ R s s)
    (hR : ∀ s, R s s → R' s (f s)) :
    ArrSim (fun i => if keep i then some (rank keep i) else none) R' xs (compactArr keep f xs) := by
  constructor
  · intro i j k hi hj
    split at hi <;> cases hi
    split at hj <;> try cases hj
    next h1 h2 =>
    injection hj with hj
    exact rank_inj h1 h2 hj.symm
  · intro i k hik
    split at hik <;> cases hik
    next hk =>
    obtain ⟨s, h1, h2⟩ := hcell i hk
    exact ⟨s, f s, h1, compactArr_getElem? h1 hk, hR s h2⟩

/-- MAIN THEOREM: if `D` is closed in `st` (every cell of the region exists and stores only ids of the
    region), the compacted store is related to `st` by the collector's renaming -/
theorem compact_sim {D : Region} {st : St} (h : AgreeOn D st st) :
    Sim D.compactEmb st.traces st.traces st (compact D st) where
  thunks := compactArr_sim (fun i hi => by
    obtain ⟨s, h1, _, h3⟩ := h.thunks i hi
    exact ⟨s, h1, h3⟩) (fun _ => RTState.compact)
  envs := compactArr_sim (fun i hi => by
    obtain ⟨s, h1, _, h3⟩ := h.envs i hi
    exact ⟨s, h1, h3⟩) (fun _ h => .inl (REnv.compact h))
  objs := compactArr_sim (fun i hi => by
    obtain ⟨s, h1, _, h3⟩ := h.objs i hi
    exact ⟨s, h1, h3⟩) (fun _ => RObj.compact)
  funcs := compactArr_sim (fun i hi => by
    obtain ⟨s, h1, _, h3⟩ := h.funcs i hi
    exact ⟨s, h1, h3⟩) (fun _ => RFunc.compact)
  traces := ⟨[], rfl, rfl⟩
  wkcell := fun w hw => by cases hw
  rsvok := fun t ht => by cases ht

/-! ### Non-vacuity: a store with three thunks, the middle one garbage -/

namespace CompactExample

/-- thunk 0 is an array holding thunk 2; thunk 1 (garbage) refers to both; thunk 2 is a suspended
    expression in environment 0, which binds `x` to thunk 0; environment 1 is garbage -/
def st : St :=
  { thunks := #[.done (.arr [2, 2]), .done (.arr [0, 1]), .pending (.expr .null 0)]
    envs := #[⟨none, [("x", 0)], none⟩, ⟨some 0, [("y", 1)], none⟩]
    runs := #[1, 1, 0] }

/-- thunks 0 and 2, environment 0 -/
def D : Region :=
  { t := fun i => i == 0 || i == 2, e := fun i => i == 0, o := fun _ => false, f := fun _ => false }

theorem closed : AgreeOn D st st where
  thunks := fun i hi => by
    have hi' : i = 0 ∨ i = 2 := by simpa [D] using hi
    rcases hi' with rfl | rfl
    · exact ⟨_, rfl, rfl, .done (.arr (.cons rfl (.cons rfl .nil)))⟩
    · exact ⟨_, rfl, rfl, .pending (.expr _ rfl)⟩
  envs := fun i hi => by
    have hi' : i = 0 := by simpa [D] using hi
    subst hi'
    exact ⟨_, rfl, rfl, ⟨.none, .cons ⟨rfl, rfl⟩ .nil, .none⟩⟩
  objs := fun i hi => by simp [D] at hi
  funcs := fun i hi => by simp [D] at hi

/-- the hypothesis of `compact_sim` is satisfiable by a store with garbage -/
example : Sim D.compactEmb st.traces st.traces st (compact D st) := compact_sim closed

/-- the garbage is gone, thunk 2 has become thunk 1 (also inside thunk 0) -/
example : (compact D st).thunks.toList = [.done (.arr [1, 1]), .pending (.expr .null 0)] := rfl
example : (compact D st).envs.toList = [⟨none, [("x", 0)], none⟩] := rfl
example : (compact D st).runs = #[1, 0] := by decide
example : D.compactEmb.tm 2 = some 1 ∧ D.compactEmb.tm 1 = none := by decide

end CompactExample

end Rsj.Eval
