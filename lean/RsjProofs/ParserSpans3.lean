/-
  C15 span claims, part 3: the explicit-stack machine of `parse_expr`, `parse_root_expr`.
-/
import RsjProofs.ParserSpans2
namespace Rsj.Parser
variable {toks : List Token}

section
variable (hord : Ord toks)
include hord

theorem spec_parseMaybeSimpleExpr (st : PState toks) :
    Ok (parseMaybeSimpleExpr st) (fun r st' => match r with
      | some e => EPost st e st'
      | none => Same st st') := by
  have hst := st.prev_le_pos hord
  have mk : ∀ {sp : Span} {st0 st' : PState toks}, Same st st0 → Tok st0 sp st' →
      SpanOK toks sp.start sp.stop sp ∧ sp.start = st.pos ∧ sp.stop = st'.prev ∧ st.pos ≤ st'.prev ∧
        st.prev ≤ st.pos ∧ st'.prev ≤ st'.pos ∧ st'.rem.length < st.rem.length := by
    intro sp st0 st' hs ht
    exact ⟨⟨Nat.le_refl _, by nums, Nat.le_refl _, ht.isStart, ht.isStop⟩, by nums, by nums, by nums, by nums, by nums, by nums⟩
  unfold parseMaybeSimpleExpr
  refine Ok.bind (spec_eatSimple hord .Null false st) ?_
  intro r st1 h1
  cases r with
  | some sp => exact Ok.pure (mk ⟨rfl, rfl, rfl⟩ h1)
  | none =>
  dsimp only
  refine Ok.bind (spec_eatSimple hord .False_ false st1) ?_
  intro r st2 h2
  cases r with
  | some sp => exact Ok.pure (mk h1 h2)
  | none =>
  dsimp only
  have s2 : Same st st2 := by nums
  refine Ok.bind (spec_eatSimple hord .True_ false st2) ?_
  intro r st3 h3
  cases r with
  | some sp => exact Ok.pure (mk s2 h3)
  | none =>
  dsimp only
  have s3 : Same st st3 := by nums
  refine Ok.bind (spec_eatSimple hord .Self_ false st3) ?_
  intro r st4 h4
  cases r with
  | some sp => exact Ok.pure (mk s3 h4)
  | none =>
  dsimp only
  have s4 : Same st st4 := by nums
  refine Ok.bind (spec_eatSimple hord .Dollar false st4) ?_
  intro r st5 h5
  cases r with
  | some sp => exact Ok.pure (mk s4 h5)
  | none =>
  dsimp only
  have s5 : Same st st5 := by nums
  refine Ok.bind (spec_eatString hord false st5) ?_
  intro r st6 h6
  cases r with
  | some p => obtain ⟨s, sp⟩ := p; exact Ok.pure (mk s5 h6)
  | none =>
  dsimp only at h6 ⊢
  have s6 : Same st st6 := by nums
  refine Ok.bind (spec_eatTextBlock hord false st6) ?_
  intro r st7 h7
  cases r with
  | some p => obtain ⟨s, sp⟩ := p; exact Ok.pure (mk s6 h7)
  | none =>
  dsimp only at h7 ⊢
  have s7 : Same st st7 := by nums
  refine Ok.bind (spec_eatNumber hord false st7) ?_
  intro r st8 h8
  cases r with
  | some p => obtain ⟨s, sp⟩ := p; exact Ok.pure (mk s7 h8)
  | none =>
  dsimp only at h8 ⊢
  have s8 : Same st st8 := by nums
  refine Ok.bind (spec_eatIdent hord false st8) ?_
  intro r st9 h9
  cases r with
  | some i =>
    dsimp only at h9 ⊢
    have := mk s8 h9
    exact Ok.pure ⟨⟨this.1, rfl⟩, this.2⟩
  | none =>
    dsimp only at h9 ⊢
    exact Ok.pure (by nums)


omit hord in
/-- a token span stored on the stack: not inverted, aligned, before the current expression -/
def ItemSp (toks : List Token) (sp : Span) (cs : Nat) : Prop :=
  sp.start ≤ sp.stop ∧ sp.stop ≤ cs ∧ IsStart toks sp.start

/-- Stack invariant: `cs` is the start of the expression being built on top of the stack, `s0`
    the start of the expression the whole `parse_expr` call will return. -/
def StackOK (toks : List Token) (s0 : Nat) : List StackItem → Nat → Prop
  | [], cs => cs = s0
  | .binaryLhs _ :: r, cs => StackOK toks s0 r cs
  | .suffix :: r, cs => StackOK toks s0 r cs
  | .binaryRhs _ lhs _ :: r, cs =>
    lhs.WF toks lhs.span.start lhs.span.stop ∧ lhs.span.stop ≤ cs ∧ StackOK toks s0 r lhs.span.start
  | .unary _ sp :: r, cs => ItemSp toks sp cs ∧ StackOK toks s0 r sp.start
  | .arrayItem0 sp :: r, cs => ItemSp toks sp cs ∧ StackOK toks s0 r sp.start
  | .arrayItemN sp items :: r, cs =>
    ItemSp toks sp cs ∧ WFExprs toks items sp.start cs ∧ StackOK toks s0 r sp.start
  | .paren sp :: r, cs => ItemSp toks sp cs ∧ StackOK toks s0 r sp.start

/-- `n0` = number of remaining tokens when `parse_expr` was entered: a finished operand has
    consumed at least one token. -/
def StateOK (toks : List Token) (s0 n0 : Nat) (stack : List StackItem) : State → PState toks → Prop
  | .parsed e, st =>
    e.WF toks e.span.start e.span.stop ∧ e.span.stop = st.prev ∧ StackOK toks s0 stack e.span.start ∧
      st.rem.length < n0
  | .binaryRhs _ lhs, st =>
    lhs.WF toks lhs.span.start lhs.span.stop ∧ lhs.span.stop = st.prev ∧
      StackOK toks s0 stack lhs.span.start ∧ st.rem.length < n0
  | .binary _, st => StackOK toks s0 stack st.pos ∧ st.rem.length ≤ n0
  | .unary, st => StackOK toks s0 stack st.pos ∧ st.rem.length ≤ n0
  | .primary, st => StackOK toks s0 stack st.pos ∧ st.rem.length ≤ n0

/-- post-condition of one machine step -/
def StepPost (s0 n0 : Nat) (st : PState toks) (r : List StackItem × State) (st' : PState toks) : Prop :=
  StateOK toks s0 n0 r.1 r.2 st' ∧ Fwd st st'

omit hord in
theorem stateOK_nextStateOf {s0 n0 : Nat} {stack : List StackItem} {st : PState toks} (k : BinKind)
    (h : StackOK toks s0 stack st.pos ∧ st.rem.length ≤ n0) : StateOK toks s0 n0 stack (nextStateOf k) st := by
  unfold nextStateOf
  cases k.nextState <;> exact h

theorem spec_unaryStep (s0 n0 : Nat) (stack : List StackItem) (st : PState toks)
    (h : StackOK toks s0 stack st.pos) (hn : st.rem.length ≤ n0) : Ok (unaryStep stack st) (StepPost s0 n0 st) := by
  have hst := st.prev_le_pos hord
  unfold unaryStep
  refine Ok.bind (spec_eatFirst hord false unaryOps st) ?_
  intro r st1 h1
  cases r with
  | some p =>
    obtain ⟨t, op, opSp⟩ := p
    dsimp only at h1 ⊢
    have hS := h1.isStart
    refine Ok.pure ⟨⟨⟨⟨by nums, by nums, hS⟩, ?_⟩, by nums⟩, by nums⟩
    have : opSp.start = st.pos := by nums
    rw [this]; exact h
  | none =>
    dsimp only at h1 ⊢
    refine Ok.pure ⟨⟨?_, by nums⟩, by nums⟩
    have : st1.pos = st.pos := by nums
    show StackOK toks s0 stack st1.pos
    rw [this]; exact h

theorem spec_binaryRhsStep (s0 n0 : Nat) (k : BinKind) (lhs : Expr) (stack : List StackItem) (st : PState toks)
    (h : StateOK toks s0 n0 stack (.binaryRhs k lhs) st) :
    Ok (binaryRhsStep k lhs stack st) (StepPost s0 n0 st) := by
  have hst := st.prev_le_pos hord
  obtain ⟨hwf, hstop, hstack, hn⟩ := h
  have hle := hwf.spanOK.2.1
  have hS := hwf.spanOK.2.2.2.1
  unfold binaryRhsStep
  refine Ok.bind (spec_eatFirst hord false k.ops st) ?_
  intro r st1 h1
  cases r with
  | none =>
    dsimp only at h1 ⊢
    have hs : Same st1 (st1.push .binaryOp) := same_push _ _
    exact Ok.pure ⟨⟨hwf, by nums, hstack, by nums⟩, by nums⟩
  | some p =>
    obtain ⟨tok, op, sp⟩ := p
    dsimp only at h1 ⊢
    have f1 := h1.fwd
    split
    · refine Ok.bind (spec_eatSimple hord inSuperHead true st1) ?_
      intro s st2 h2
      cases s with
      | none => exact Ok.error
      | some superSp =>
        have f2 := Tok.fwd h2
        refine Ok.pure ⟨⟨⟨surround_ok hS h2.isStop (Nat.le_refl _) (by nums) (Nat.le_refl _), ?_, ?_, rfl, rfl⟩, by nums, hstack, by nums⟩, by nums⟩
        · exact hwf.mono (Nat.le_refl _) (by nums)
        · exact h2.spanOK (by nums) (by nums)
    · refine Ok.pure ⟨stateOK_nextStateOf k ⟨⟨hwf, by nums, hstack⟩, by nums⟩, f1⟩


variable {pe : PState toks → Except (Err toks) (Expr × PState toks)} (hpe : PeOK pe)
include hpe

theorem spec_parsedStep (s0 n0 : Nat) (fuel : Nat) (e : Expr) (item : StackItem) (stack : List StackItem)
    (st : PState toks) (h : StateOK toks s0 n0 (item :: stack) (.parsed e) st) :
    Ok (parsedStep pe fuel e item stack st) (StepPost s0 n0 st) := by
  have hst := st.prev_le_pos hord
  obtain ⟨hwf, hstop, hstack, hn⟩ := h
  have hle := hwf.spanOK.2.1
  have hS := hwf.spanOK.2.2.2.1
  have hE := hwf.spanOK.2.2.2.2
  cases item with
  | binaryLhs k => exact Ok.pure ⟨⟨hwf, hstop, hstack, hn⟩, by nums⟩
  | binaryRhs k lhs op =>
    obtain ⟨hl, hls, hrest⟩ := hstack
    have hlS := hl.spanOK.2.2.2.1
    have hlle := hl.spanOK.2.1
    refine Ok.pure ⟨⟨⟨surround_ok hlS hE (Nat.le_refl _) (by nums) (Nat.le_refl _), ?_, ?_, rfl, rfl⟩, hstop, hrest, hn⟩, by nums⟩
    · exact hl.mono (Nat.le_refl _) (by nums)
    · exact hwf.mono (by nums) (Nat.le_refl _)
  | unary op opSp =>
    obtain ⟨⟨h1, h2, h3⟩, hrest⟩ := hstack
    refine Ok.pure ⟨⟨⟨surround_ok h3 hE (Nat.le_refl _) (by nums) (Nat.le_refl _), ?_, rfl⟩, hstop, hrest, hn⟩, by nums⟩
    exact hwf.mono (by nums) (Nat.le_refl _)
  | suffix =>
    unfold parsedStep
    refine Ok.bind (spec_parseSuffixExpr hord hpe fuel e st hwf hstop hst) ?_
    intro e' st1 h1
    obtain ⟨a, b, c, d⟩ := h1
    refine Ok.pure ⟨⟨a, c, ?_, by nums⟩, d⟩
    rw [b]; exact hstack
  | paren startSp =>
    obtain ⟨⟨h1, h2, h3⟩, hrest⟩ := hstack
    unfold parsedStep
    refine Ok.bind (spec_expectSimple hord .RightParen true st) ?_
    intro endSp st1 h4
    have f4 := h4.fwd
    refine Ok.pure ⟨⟨⟨surround_ok h3 h4.isStop (Nat.le_refl _) (by nums) (Nat.le_refl _), ?_⟩, by nums, hrest, by nums⟩, f4⟩
    exact hwf.mono (by nums) (by nums)
  | arrayItem0 startSp =>
    obtain ⟨⟨h1, h2, h3⟩, hrest⟩ := hstack
    unfold parsedStep
    refine Ok.bind (spec_eatSimple hord .Comma true st) ?_
    intro comma st1 hc
    have f1 := hc.fwd hord
    dsimp only
    refine Ok.bind (spec_maybeParseCompSpec hord hpe fuel st1 startSp.start (by nums)) ?_
    intro cs st2 h5
    cases cs with
    | some spec =>
      obtain ⟨hspec, f2, _⟩ := h5
      dsimp only
      refine Ok.bind (spec_expectSimple hord .RightBracket true st2) ?_
      intro endSp st3 h6
      have f3 := h6.fwd
      refine Ok.pure ⟨⟨⟨surround_ok h3 h6.isStop (Nat.le_refl _) (by nums) (Nat.le_refl _), ?_, ?_⟩, by nums, hrest, by nums⟩, by nums⟩
      · exact hwf.mono (by nums) (by nums)
      · exact hspec.mono (Nat.le_refl _) (by nums)
    | none =>
      have s2 : Same st1 st2 := h5
      dsimp only
      refine Ok.bind (spec_eatSimple hord .RightBracket true st2) ?_
      intro rb st3 h6
      have f3 := h6.fwd hord
      cases rb with
      | some endSp =>
        refine Ok.pure ⟨⟨⟨surround_ok h3 h6.isStop (Nat.le_refl _) (by nums) (Nat.le_refl _), ?_, trivial⟩, by nums, hrest, by nums⟩, by nums⟩
        exact hwf.mono (by nums) (by nums)
      | none =>
        dsimp only
        split
        · refine Ok.pure ⟨⟨?_, by nums⟩, by nums⟩
          show StackOK toks s0 (.arrayItemN startSp [e] :: stack) st3.pos
          exact ⟨⟨h1, by nums, h3⟩, ⟨hwf.mono (by nums) (by nums), trivial⟩, hrest⟩
        · exact Ok.error
  | arrayItemN startSp items =>
    obtain ⟨⟨h1, h2, h3⟩, hitems, hrest⟩ := hstack
    unfold parsedStep
    dsimp only
    have hitems' : ∀ hi, st.prev ≤ hi → WFExprs toks (items ++ [e]) startSp.start hi := by
      intro hi hh
      exact WFExprs.append (hitems.mono (Nat.le_refl _) (by nums)) (hwf.mono (by nums) (by nums))
    refine Ok.bind (spec_eatSimple hord .Comma true st) ?_
    intro comma st1 hc
    have f1 := hc.fwd hord
    dsimp only
    refine Ok.bind (spec_eatSimple hord .RightBracket true st1) ?_
    intro rb st2 h6
    have f2 := h6.fwd hord
    cases rb with
    | some endSp =>
      refine Ok.pure ⟨⟨⟨surround_ok h3 h6.isStop (Nat.le_refl _) (by nums) (Nat.le_refl _), ?_⟩, by nums, hrest, by nums⟩, by nums⟩
      exact hitems' _ (by nums)
    | none =>
      dsimp only
      split
      · refine Ok.pure ⟨⟨?_, by nums⟩, by nums⟩
        show StackOK toks s0 (.arrayItemN startSp (items ++ [e]) :: stack) st2.pos
        exact ⟨⟨h1, by nums, h3⟩, hitems' _ (by nums), hrest⟩
      · exact Ok.error


theorem spec_primaryStep (s0 n0 : Nat) (fuel : Nat) (stack : List StackItem) (st : PState toks)
    (h : StackOK toks s0 stack st.pos) (hn : st.rem.length ≤ n0) :
    Ok (primaryStep pe fuel stack st) (StepPost s0 n0 st) := by
  have hst := st.prev_le_pos hord
  have done : ∀ (e : Expr) (st' : PState toks), e.WF toks e.span.start e.span.stop → e.span.start = st.pos →
      e.span.stop = st'.prev → Fwd st st' → st'.rem.length < st.rem.length →
      StepPost s0 n0 st (stack, .parsed e) st' := by
    intro e st' h1 h2 h3 h4 h5
    refine ⟨⟨h1, h3, ?_, by nums⟩, h4⟩
    rw [h2]; exact h
  -- `keyword e` forms: import / importstr / importbin / error
  have kw : ∀ (mk : Expr → Span → Expr) (st1 st2 : PState toks) (startSp : Span),
      (∀ e sp, (mk e sp).span = sp) →
      (∀ e sp, (mk e sp).WF toks sp.start sp.stop ↔
        SpanOK toks sp.start sp.stop sp ∧ e.WF toks sp.start sp.stop ∧ e.span.stop = sp.stop) →
      Same st st1 → Tok st1 startSp st2 →
      Ok (do
        let (e, st) ← pe st2
        pure ((stack, State.parsed (mk e (surround startSp e.span))), st))
        (StepPost s0 n0 st) := by
    intro mk st1 st2 startSp hsp hwf hs ht
    refine Ok.bind (hpe st2) ?_
    intro e st3 h3
    have f3 := h3.fwd
    refine Ok.pure (done _ st3 ?_ ?_ ?_ ?_ (by nums))
    · rw [hsp]
      refine (hwf _ _).2 ⟨surround_ok ht.isStart h3.isStop (Nat.le_refl _) (by nums) (Nat.le_refl _), ?_, rfl⟩
      exact h3.wf (by nums) (by nums)
    · rw [hsp]; nums
    · rw [hsp]; nums
    · nums
  unfold primaryStep
  refine Ok.bind (spec_parseMaybeSimpleExpr hord st) ?_
  intro se st1 h1
  cases se with
  | some e =>
    dsimp only at h1 ⊢
    exact Ok.pure (done e st1 h1.1 h1.2.1 h1.2.2.1 h1.fwd (by nums))
  | none =>
  dsimp only at h1 ⊢
  refine Ok.bind (spec_eatSimple hord .LeftBrace false st1) ?_
  intro r st2 h2
  cases r with
  | some startSp =>
    dsimp only
    refine Ok.bind (spec_parseObjInside hord hpe fuel st2 startSp.start (by nums)) ?_
    intro r st3 h3
    obtain ⟨o, endSp⟩ := r
    obtain ⟨ho, hend⟩ := h3
    have f3 := hend.fwd
    refine Ok.pure (done _ st3 ⟨surround_ok h2.isStart hend.isStop (Nat.le_refl _) (by nums) (Nat.le_refl _), ?_⟩
      (by nums) (by nums) (by nums) (by nums))
    exact ho.mono (Nat.le_refl _) (by nums)
  | none =>
  dsimp only
  have s2 : Same st st2 := by nums
  refine Ok.bind (spec_eatSimple hord .LeftBracket false st2) ?_
  intro r st3 h3
  cases r with
  | some startSp =>
    dsimp only
    refine Ok.bind (spec_eatSimple hord .RightBracket true st3) ?_
    intro rb st4 h4
    have f4 := h4.fwd hord
    cases rb with
    | some endSp =>
      exact Ok.pure (done _ st4 ⟨surround_ok h3.isStart h4.isStop (Nat.le_refl _) (by nums) (Nat.le_refl _), trivial⟩
        (by nums) (by nums) (by nums) (by nums))
    | none =>
      refine Ok.pure ⟨⟨?_, by nums⟩, by nums⟩
      show StackOK toks s0 (.arrayItem0 startSp :: stack) st4.pos
      refine ⟨⟨by nums, by nums, h3.isStart⟩, ?_⟩
      have : startSp.start = st.pos := by nums
      rw [this]; exact h
  | none =>
  dsimp only
  have s3 : Same st st3 := by nums
  refine Ok.bind (spec_eatSimple hord .Super false st3) ?_
  intro r st4 h4
  cases r with
  | some superSp =>
    dsimp only
    refine Ok.bind (spec_eatSimple hord .Dot true st4) ?_
    intro dot st5 h5
    have f5 := h5.fwd hord
    cases dot with
    | some _ =>
      dsimp only
      refine Ok.bind (spec_expectIdent hord true st5) ?_
      intro name st6 h6
      have f6 := h6.fwd
      refine Ok.pure (done _ st6 ⟨surround_ok h4.isStart h6.isStop (Nat.le_refl _) (by nums) (Nat.le_refl _), ?_, ?_, rfl, rfl⟩
        (by nums) (by nums) (by nums) (by nums))
      · exact h4.spanOK (by nums) (by nums)
      · exact h6.spanOK (by nums) (by nums)
    | none =>
      dsimp only
      refine Ok.bind (spec_eatSimple hord .LeftBracket true st5) ?_
      intro lb st6 h6
      have f6 := h6.fwd hord
      cases lb with
      | none => exact Ok.error
      | some _ =>
        dsimp only
        refine Ok.bind (hpe st6) ?_
        intro i st7 h7
        have f7 := h7.fwd
        dsimp only
        refine Ok.bind (spec_expectSimple hord .RightBracket true st7) ?_
        intro endSp st8 h8
        have f8 := h8.fwd
        refine Ok.pure (done _ st8 ⟨surround_ok h4.isStart h8.isStop (Nat.le_refl _) (by nums) (Nat.le_refl _), ?_, ?_, rfl⟩
          (by nums) (by nums) (by nums) (by nums))
        · exact h4.spanOK (by nums) (by nums)
        · exact h7.wf (by nums) (by nums)
  | none =>
  dsimp only
  have s4 : Same st st4 := by nums
  refine Ok.bind (spec_eatSimple hord .Local false st4) ?_
  intro r st5 h5
  cases r with
  | some startSp =>
    dsimp only
    refine Ok.bind (spec_parseBind hord hpe fuel st5 startSp.start (by nums)) ?_
    intro b0 st6 h6
    obtain ⟨hb0, f6, _⟩ := h6
    dsimp only
    refine Ok.bind (spec_bindsLoop hord hpe fuel [b0] st6 startSp.start (by nums) ⟨hb0, trivial⟩ (by nums)) ?_
    intro binds st7 h7
    obtain ⟨hbinds, f7⟩ := h7
    dsimp only
    refine Ok.bind (spec_expectSimple hord .Semicolon true st7) ?_
    intro _ st8 h8
    have f8 := h8.fwd
    dsimp only
    refine Ok.bind (hpe st8) ?_
    intro inner st9 h9
    have f9 := h9.fwd
    refine Ok.pure (done _ st9 ⟨surround_ok h5.isStart h9.isStop (Nat.le_refl _) (by nums) (Nat.le_refl _), ?_, ?_, rfl⟩
      (by nums) (by nums) (by nums) (by nums))
    · exact hbinds.mono (Nat.le_refl _) (by nums)
    · exact h9.wf (by nums) (by nums)
  | none =>
  dsimp only
  have s5 : Same st st5 := by nums
  refine Ok.bind (spec_eatSimple hord .If false st5) ?_
  intro r st6 h6
  cases r with
  | some ifSp =>
    dsimp only
    refine Ok.bind (hpe st6) ?_
    intro cond st7 h7
    have f7 := h7.fwd
    dsimp only
    refine Ok.bind (spec_expectSimple hord .Then true st7) ?_
    intro _ st8 h8
    have f8 := h8.fwd
    dsimp only
    refine Ok.bind (hpe st8) ?_
    intro thenB st9 h9
    have f9 := h9.fwd
    dsimp only
    refine Ok.bind (spec_eatSimple hord .Else true st9) ?_
    intro el st10 h10
    have f10 := h10.fwd hord
    cases el with
    | some _ =>
      dsimp only
      refine Ok.bind (hpe st10) ?_
      intro elseB st11 h11
      have f11 := h11.fwd
      refine Ok.pure (done _ st11 ⟨surround_ok h6.isStart h11.isStop (Nat.le_refl _) (by nums) (Nat.le_refl _), ?_, ?_, ?_, rfl⟩
        (by nums) (by nums) (by nums) (by nums))
      · exact h7.wf (by nums) (by nums)
      · exact h9.wf (by nums) (by nums)
      · exact h11.wf (by nums) (by nums)
    | none =>
      refine Ok.pure (done _ st10 ⟨surround_ok h6.isStart h9.isStop (Nat.le_refl _) (by nums) (Nat.le_refl _), ?_, ?_, trivial, rfl⟩
        (by nums) (by nums) (by nums) (by nums))
      · exact h7.wf (by nums) (by nums)
      · exact h9.wf (by nums) (by nums)
  | none =>
  dsimp only
  have s6 : Same st st6 := by nums
  refine Ok.bind (spec_eatSimple hord .Function false st6) ?_
  intro r st7 h7
  cases r with
  | some startSp =>
    dsimp only
    refine Ok.bind (spec_expectSimple hord .LeftParen true st7) ?_
    intro _ st8 h8
    have f8 := h8.fwd
    dsimp only
    refine Ok.bind (spec_parseParams hord hpe fuel st8 startSp.start (by nums)) ?_
    intro r st9 h9
    obtain ⟨params, endSp⟩ := r
    obtain ⟨hps, hend⟩ := h9
    have f9 := hend.fwd
    dsimp only
    refine Ok.bind (hpe st9) ?_
    intro body st10 h10
    have f10 := h10.fwd
    refine Ok.pure (done _ st10 ⟨surround_ok h7.isStart h10.isStop (Nat.le_refl _) (by nums) (Nat.le_refl _), ?_, ?_, rfl⟩
      (by nums) (by nums) (by nums) (by nums))
    · exact hps.mono (Nat.le_refl _) (by nums)
    · exact h10.wf (by nums) (by nums)
  | none =>
  dsimp only
  have s7 : Same st st7 := by nums
  refine Ok.bind (spec_maybeParseAssert hord hpe false st7) ?_
  intro r st8 h8
  cases r with
  | some p =>
    obtain ⟨startSp, a⟩ := p
    obtain ⟨ha1, ha2, ha3, f8, _⟩ := h8
    dsimp only
    refine Ok.bind (spec_expectSimple hord .Semicolon true st8) ?_
    intro _ st9 h9
    have f9 := h9.fwd
    dsimp only
    refine Ok.bind (hpe st9) ?_
    intro inner st10 h10
    have f10 := h10.fwd
    refine Ok.pure (done _ st10 ⟨surround_ok ha2 h10.isStop (Nat.le_refl _) (by nums) (Nat.le_refl _), ?_, ?_, rfl⟩
      (by nums) (by nums) (by nums) (by nums))
    · exact ha3.mono (by nums) (by nums)
    · exact h10.wf (by nums) (by nums)
  | none =>
  have s8 : Same st st8 := by have : Same st7 st8 := h8; nums
  dsimp only
  refine Ok.bind (spec_eatSimple hord .Import false st8) ?_
  intro r st9 h9
  cases r with
  | some startSp => exact kw Expr.import_ st8 st9 startSp (fun _ _ => rfl) (fun _ _ => Iff.rfl) s8 h9
  | none =>
  dsimp only
  have s9 : Same st st9 := by nums
  refine Ok.bind (spec_eatSimple hord .Importstr false st9) ?_
  intro r st10 h10
  cases r with
  | some startSp => exact kw Expr.importStr st9 st10 startSp (fun _ _ => rfl) (fun _ _ => Iff.rfl) s9 h10
  | none =>
  dsimp only
  have s10 : Same st st10 := by nums
  refine Ok.bind (spec_eatSimple hord .Importbin false st10) ?_
  intro r st11 h11
  cases r with
  | some startSp => exact kw Expr.importBin st10 st11 startSp (fun _ _ => rfl) (fun _ _ => Iff.rfl) s10 h11
  | none =>
  dsimp only
  have s11 : Same st st11 := by nums
  refine Ok.bind (spec_eatSimple hord .Error false st11) ?_
  intro r st12 h12
  cases r with
  | some startSp => exact kw Expr.error_ st11 st12 startSp (fun _ _ => rfl) (fun _ _ => Iff.rfl) s11 h12
  | none =>
  dsimp only
  have s12 : Same st st12 := by nums
  refine Ok.bind (spec_eatSimple hord .LeftParen false st12) ?_
  intro r st13 h13
  cases r with
  | some startSp =>
    refine Ok.pure ⟨⟨?_, by nums⟩, by nums⟩
    show StackOK toks s0 (.paren startSp :: stack) st13.pos
    refine ⟨⟨by nums, by nums, h13.isStart⟩, ?_⟩
    have : startSp.start = st.pos := by nums
    rw [this]; exact h
  | none => exact Ok.error


/-- result of the whole `parse_expr` loop -/
def LoopPost (s0 n0 : Nat) (st : PState toks) (e : Expr) (st' : PState toks) : Prop :=
  e.WF toks e.span.start e.span.stop ∧ e.span.start = s0 ∧ e.span.stop = st'.prev ∧ Fwd st st' ∧
    st'.rem.length < n0

theorem spec_exprLoop (s0 n0 : Nat) : ∀ (fuel : Nat) (stack : List StackItem) (state : State) (st : PState toks),
    StateOK toks s0 n0 stack state st → Ok (exprLoop pe fuel stack state st) (LoopPost s0 n0 st) := by
  intro fuel
  induction fuel with
  | zero => intro stack state st _; exact Ok.error
  | succ fuel ih =>
    intro stack state st h
    have hst := st.prev_le_pos hord
    have next : ∀ (m : Except (Err toks) ((List StackItem × State) × PState toks)),
        Ok m (StepPost s0 n0 st) →
        Ok (do
          let ((stack, state), st) ← m
          exprLoop pe fuel stack state st) (LoopPost s0 n0 st) := by
      intro m hm
      refine Ok.bind hm ?_
      intro r st1 h1
      obtain ⟨stack', state'⟩ := r
      obtain ⟨hs, f1⟩ := h1
      dsimp only
      refine Ok.mono (ih stack' state' st1 hs) ?_
      intro e s hr
      exact ⟨hr.1, hr.2.1, hr.2.2.1, f1.trans hr.2.2.2.1, hr.2.2.2.2⟩
    unfold exprLoop
    cases state with
    | parsed e =>
      cases stack with
      | nil => exact Ok.pure ⟨h.1, h.2.2.1, h.2.1, by nums, h.2.2.2⟩
      | cons item stack => exact next _ (spec_parsedStep hord hpe s0 n0 fuel e item stack st h)
    | binary k =>
      dsimp only
      refine Ok.mono (ih (.binaryLhs k :: stack) (nextStateOf k) st (stateOK_nextStateOf k h)) ?_
      intro e s hr; exact hr
    | binaryRhs k lhs => exact next _ (spec_binaryRhsStep hord s0 n0 k lhs stack st h)
    | unary => exact next _ (spec_unaryStep hord s0 n0 stack st h.1 h.2)
    | primary => exact next _ (spec_primaryStep hord hpe s0 n0 fuel stack st h.1 h.2)

omit hpe in
theorem spec_parseExprF : ∀ fuel : Nat, PeOK (toks := toks) (parseExprF fuel) := by
  intro fuel
  induction fuel with
  | zero => intro st; exact Ok.error
  | succ fuel ih =>
    intro st
    unfold parseExprF
    have h0 : StateOK toks st.pos st.rem.length [] initState st := ⟨rfl, Nat.le_refl _⟩
    refine Ok.mono (spec_exprLoop hord ih st.pos st.rem.length fuel [] initState st h0) ?_
    intro e s hr
    obtain ⟨a, b, c, d, e'⟩ := hr
    have := a.spanOK.2.1
    exact ⟨a, b, c, by nums, by nums, by nums, e'⟩

end
theorem eatEof_true {toks : List Token} {st st' : PState toks} {add : Bool}
    (h : eatEof add st = .ok (true, st')) : st.cur.kind = .eof ∧ st.rem = [] := by
  unfold eatEof at h
  split at h
  · next hk =>
    split at h
    · next hr => exact ⟨hk, by simpa using hr⟩
    · cases h
  · cases h

theorem parseRootF_ok {toks : List Token} {fuel : Nat} {st : PState toks} {e : Expr}
    (h : parseRootF fuel st = .ok e) :
    ∃ st1, parseExprF fuel st = .ok (e, st1) ∧ st1.cur.kind = .eof ∧ st1.rem = [] := by
  unfold parseRootF at h
  cases h1 : parseExprF fuel st with
  | error err => rw [h1] at h; cases h
  | ok r =>
    obtain ⟨e1, st1⟩ := r
    rw [h1] at h
    simp only [bind, Except.bind] at h
    cases h2 : eatEof true st1 with
    | error err => rw [h2] at h; cases h
    | ok r2 =>
      obtain ⟨b, st2⟩ := r2
      rw [h2] at h
      dsimp only at h
      cases b with
      | false => cases h
      | true =>
        simp only [if_true, pure, Except.pure] at h
        cases h
        exact ⟨st1, rfl, eatEof_true h2⟩

/-- **Spans of a successful parse** (used by `C15_spans_nested`). -/
theorem parse_ok_spans {toks : List Token} {e : Expr} (hord : Ord toks) (h : parse toks = .ok e) :
    e.WF toks e.span.start e.span.stop ∧
    (∃ t0 rest, toks = t0 :: rest ∧ e.span.start = t0.span.start) ∧
    (∃ body tl eof, toks = body ++ [tl, eof] ∧ eof.kind = .eof ∧ e.span.stop = tl.span.stop) := by
  unfold parse parseWithFuel at h
  split at h
  · cases h
  · next t r =>
    dsimp only at h
    split at h
    · next e' hroot =>
      cases h
      obtain ⟨st1, hp, hk, hr⟩ := parseRootF_ok hroot
      have hpost := spec_parseExprF hord _ _ _ _ hp
      obtain ⟨hwf, hs, he, _, _, _, hlt⟩ := hpost
      refine ⟨hwf, ⟨t, r, rfl, hs⟩, ?_⟩
      have happ := st1.pre_append
      rw [hr] at happ
      have hlen : st1.pre ≠ [] := by
        intro hnil
        rw [hnil] at happ
        have h1 : ([] ++ [st1.cur]).length = (t :: r).length := congrArg List.length happ
        simp only [hr, List.length_nil, List.length_cons, List.nil_append] at hlt h1
        omega
      obtain ⟨body, tl, hb⟩ : ∃ body tl, st1.pre = body ++ [tl] :=
        ⟨st1.pre.dropLast, st1.pre.getLast hlen, (List.dropLast_concat_getLast hlen).symm⟩
      refine ⟨body, tl, st1.cur, ?_, hk, ?_⟩
      · rw [hb] at happ
        simpa using happ.symm
      · rw [he]
        unfold PState.prev
        rw [hb]; simp
    · cases h
    · cases h


end Rsj.Parser
