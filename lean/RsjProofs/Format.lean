/-
  Helper lemmas for C19 (std.format): field padding, `decorate_digits`, the
  octal / decimal / hexadecimal digit loops.
-/
import RsjModel.Format
namespace Rsj.Format

/-! ## Field padding -/

theorem padField_length (left : Bool) (fw : Nat) (s : List Char) :
    fw ≤ (padField left fw s).length := by
  unfold padField
  split
  · split <;> simp only [List.length_append, List.length_replicate] <;> omega
  · omega

theorem padField_left (fw : Nat) (s : List Char) :
    padField true fw s = s ++ List.replicate (fw - s.length) ' ' := by
  unfold padField
  split
  · rfl
  · have : fw - s.length = 0 := by omega
    rw [this]; simp

theorem padField_right (fw : Nat) (s : List Char) :
    padField false fw s = List.replicate (fw - s.length) ' ' ++ s := by
  unfold padField
  split
  · rfl
  · have : fw - s.length = 0 := by omega
    rw [this]; simp

theorem padField_of_le (left : Bool) {fw : Nat} {s : List Char} (h : fw ≤ s.length) :
    padField left fw s = s := by
  unfold padField
  rw [if_neg (by omega)]

/-! ## `decorate_digits` -/

theorem signStr_length_le (neg plus blank : Bool) : (signStr neg plus blank).length ≤ 1 := by
  unfold signStr; split
  · simp
  · split
    · simp
    · split <;> simp

theorem decorate_eq (digits : List Char) (neg : Bool) (mc md : Nat) (plus blank : Bool) :
    decorate digits neg mc md plus blank =
      signStr neg plus blank ++
        List.replicate (max (md - digits.length)
          (mc - ((signStr neg plus blank).length + digits.length))) '0' ++ digits := rfl

theorem decorate_length (digits : List Char) (neg : Bool) (mc md : Nat) (plus blank : Bool) :
    (decorate digits neg mc md plus blank).length =
      max mc ((signStr neg plus blank).length + max md digits.length) := by
  rw [decorate_eq]
  simp only [List.length_append, List.length_replicate]
  omega

theorem renderInt_eq (neg : Bool) (m mc md : Nat) (blank plus : Bool) (zp : List Char) :
    renderInt neg m mc md blank plus zp =
      signStr neg plus blank ++
        List.replicate (max (md - (octDigits m zp).length)
          (mc - ((signStr neg plus blank).length + (octDigits m zp).length))) '0' ++ octDigits m zp := rfl

theorem renderHex_eq (b mc md : Nat) (blank plus alt cap : Bool) :
    renderHex b mc md blank plus alt cap =
      (signStr (isNegInt b) plus blank ++ hexPrefix alt cap) ++
        List.replicate (max (md - (hexDigits (truncAbs b) cap).length)
          (mc - ((signStr (isNegInt b) plus blank ++ hexPrefix alt cap).length +
                  (hexDigits (truncAbs b) cap).length))) '0' ++ hexDigits (truncAbs b) cap := rfl

/-! ## Digit loops -/

/-- value of a most-significant-first digit list -/
def ofDigits (r : Nat) (ds : List Nat) : Nat := ds.foldl (fun a d => a * r + d) 0

/-- the digit loop on numbers (the model's `digitLoop` is its image under the numeral map) -/
def digitLoopN (radix : Nat) : Nat → Nat → List Nat → List Nat
  | 0, _, acc => acc
  | fuel + 1, m, acc =>
    if m = 0 then acc else digitLoopN radix fuel (m / radix) (m % radix :: acc)

def natDigitsN (radix m : Nat) : List Nat := digitLoopN radix m m []

theorem digitLoop_map (radix : Nat) (num : Nat → Char) (fuel m : Nat) (acc : List Nat) :
    digitLoop radix num fuel m (acc.map num) = (digitLoopN radix fuel m acc).map num := by
  induction fuel generalizing m acc with
  | zero => rfl
  | succ f ih =>
    unfold digitLoop digitLoopN
    split
    · rfl
    · have := ih (m / radix) (m % radix :: acc)
      simpa using this

theorem natDigits_map (radix : Nat) (num : Nat → Char) (m : Nat) :
    natDigits radix num m = (natDigitsN radix m).map num := by
  have := digitLoop_map radix num m m []
  simpa [natDigits, natDigitsN] using this

theorem digitLoopN_value {r : Nat} (hr : 2 ≤ r) (fuel m : Nat) (acc : List Nat) (hm : m ≤ fuel) :
    (digitLoopN r fuel m acc).foldl (fun a d => a * r + d) 0 =
      acc.foldl (fun a d => a * r + d) m := by
  induction fuel generalizing m acc with
  | zero =>
    have : m = 0 := by omega
    subst this; rfl
  | succ f ih =>
    unfold digitLoopN
    split
    · next h0 => subst h0; rfl
    · next h0 =>
      have hlt : m / r < m := Nat.div_lt_self (by omega) (by omega)
      rw [ih (m / r) (m % r :: acc) (by omega)]
      simp only [List.foldl_cons]
      rw [Nat.div_add_mod' m r]

theorem digitLoopN_lt {r : Nat} (hr : 2 ≤ r) (fuel m : Nat) (acc : List Nat)
    (hacc : ∀ d ∈ acc, d < r) : ∀ d ∈ digitLoopN r fuel m acc, d < r := by
  induction fuel generalizing m acc with
  | zero => exact hacc
  | succ f ih =>
    unfold digitLoopN
    split
    · exact hacc
    · apply ih
      intro d hd
      rcases List.mem_cons.mp hd with rfl | hd
      · exact Nat.mod_lt _ (by omega)
      · exact hacc d hd

theorem digitLoopN_head {r : Nat} (hr : 2 ≤ r) (fuel m : Nat) (acc : List Nat)
    (hm : m ≤ fuel) (hpos : 0 < m) :
    ∃ d rest, digitLoopN r fuel m acc = d :: rest ∧ d ≠ 0 := by
  induction fuel generalizing m acc with
  | zero => omega
  | succ f ih =>
    unfold digitLoopN
    rw [if_neg (by omega)]
    by_cases hq : m / r = 0
    · rw [hq]
      have hlt : m < r := by
        rcases Nat.div_eq_zero_iff.mp hq with h | h
        · omega
        · exact h
      refine ⟨m % r, acc, ?_, ?_⟩
      · cases f <;> simp [digitLoopN]
      · rw [Nat.mod_eq_of_lt hlt]; omega
    · have hlt : m / r < m := Nat.div_lt_self (by omega) (by omega)
      exact ih (m / r) (m % r :: acc) (by omega) (Nat.pos_of_ne_zero hq)

/-- The digit loop is correct: the digits of `m > 0` in radix `r ≥ 2` evaluate back
    to `m`, are all below the radix, and start with a non-zero digit. -/
theorem natDigitsN_spec {r : Nat} (hr : 2 ≤ r) {m : Nat} (hm : 0 < m) :
    ofDigits r (natDigitsN r m) = m ∧ (∀ d ∈ natDigitsN r m, d < r) ∧
      ∃ d rest, natDigitsN r m = d :: rest ∧ d ≠ 0 := by
  refine ⟨?_, ?_, ?_⟩
  · have := digitLoopN_value hr m m [] (Nat.le_refl _)
    simpa [ofDigits, natDigitsN] using this
  · exact digitLoopN_lt hr m m [] (by intro d hd; cases hd)
  · exact digitLoopN_head hr m m [] (Nat.le_refl _) hm

/-- numeric value of a numeral character (inverse of `lowerNum` / `upperNum`) -/
def charVal (c : Char) : Nat := (hexVal c).getD 0

theorem charVal_lowerNum : ∀ d, d < 16 → charVal (lowerNum d) = d := by decide

theorem charVal_upperNum : ∀ d, d < 16 → charVal (upperNum d) = d := by decide

theorem map_charVal_num {num : Nat → Char} (hnum : ∀ d, d < 16 → charVal (num d) = d)
    {ds : List Nat} (h : ∀ d ∈ ds, d < 16) : (ds.map num).map charVal = ds := by
  induction ds with
  | nil => rfl
  | cons d ds ih =>
    simp only [List.map_cons]
    rw [hnum d (h d (List.mem_cons_self ..)), ih (fun x hx => h x (List.mem_cons_of_mem _ hx))]

end Rsj.Format
