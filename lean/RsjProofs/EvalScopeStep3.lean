import RsjProofs.EvalScopeStep2
/-!
  C09, run-time half: `step` on object literals and object comprehensions.
-/
open Std.Do
set_option mvcgen.warning false
namespace Rsj.Eval.Scope
open Rsj.Core Rsj.Eval Rsj.Analyze

/-! ### Object literals -/

/-- the layer under construction: the fields added so far carry no environment of their own and
    their expressions are value expressions of members of the literal -/
def ObjAcc (ms : Members) (layer0 layer : Layer) : Prop :=
  ∃ fs : List Field, layer = { layer0 with fields := fs } ∧
    ∀ f ∈ fs, f.baseEnv = none ∧ (∀ ep, f.expr = some ep → ∃ m ∈ membersList ms, memberValue m = some ep.1) ∧
      (f.thunk = none → f.expr.isSome = true)

theorem ObjAcc.init (ms : Members) (layer0 : Layer) (h : layer0.fields = []) : ObjAcc ms layer0 layer0 :=
  ⟨[], by cases layer0; simp_all, by simp⟩

theorem ObjAcc.step {ms : Members} {layer0 layer r : Layer} {m : Members} (h : ObjAcc ms layer0 layer)
    (ha : AddedFields m layer r) (hm : m ∈ membersList ms) : ObjAcc ms layer0 r := by
  obtain ⟨fs, rfl, hfs⟩ := h
  obtain ⟨fs', rfl, hfs'⟩ := ha
  refine ⟨fs ++ fs', rfl, ?_⟩
  intro f hf
  rcases List.mem_append.1 hf with h | h
  · exact hfs f h
  · exact ⟨(hfs' f h).1, fun ep hep => ⟨m, hm, (hfs' f h).2.1 ep hep⟩, (hfs' f h).2.2⟩

theorem object_layerOk {envs : Array Env} {env : EId} {Γ : AEnv} {ms : Members} {isTop : Bool} {layer : Layer}
    (hΓ : EnvOk envs env Γ) (htop : isTop = false → EnvOk envs env objΓ) (hws : WSObj ms Γ)
    (hacc : ObjAcc ms { isTop := isTop, locals := memberLocals ms, baseEnv := some env, env := none,
                        fields := [], asserts := memberAsserts ms } layer) :
    LayerOk (EnvOk envs) layer := by
  obtain ⟨fs, rfl, hfs⟩ := hacc
  simp only [WSObj] at hws
  obtain ⟨h1, h2, h3⟩ := WSMembers_mem ms Γ _ hws.2.2
  refine ⟨?_, ?_, ?_⟩
  · intro b hb
    cases hb
    refine ⟨Γ, hΓ, htop, ?_, ?_, ?_⟩
    · intro p hp
      show WS p.2 (objEnv Γ ((memberLocals ms).map Prod.fst))
      rw [map_fst_memberLocals]; exact h1 p hp
    · intro a ha
      show WS a.1 (objEnv Γ ((memberLocals ms).map Prod.fst)) ∧ WSOpt a.2 (objEnv Γ ((memberLocals ms).map Prod.fst))
      rw [map_fst_memberLocals]; exact h2 a ha
    · intro f hf _ ep hep
      show WS ep.1 (objEnv Γ ((memberLocals ms).map Prod.fst))
      rw [map_fst_memberLocals]
      obtain ⟨m, hm, hv⟩ := (hfs f hf).2.1 ep hep
      exact MemberOk_value (h3 m hm) hv
  · intro f hf b hb
    rw [(hfs f hf).1] at hb; cases hb
  · intro e he; cases he

theorem object_layerShape {ms : Members} {isTop : Bool} {env : EId} {layer : Layer}
    (hacc : ObjAcc ms { isTop := isTop, locals := memberLocals ms, baseEnv := some env, env := none,
                        fields := [], asserts := memberAsserts ms } layer) : LayerShape layer := by
  obtain ⟨fs, rfl, hfs⟩ := hacc
  exact ⟨fun _ _ _ _ => rfl, fun _ => rfl, fun f hf => (hfs f hf).2.2⟩

theorem member_taskOk {a b : St} {env : EId} {Γ : AEnv} {ms : Members} {m : Members} {d : Nat}
    (hk : EnvOk a.envs env Γ) (hS : S a b) (hws : WSObj ms Γ) (hm : m ∈ membersList ms) :
    ∀ ne p v ps ve rest, m = .fieldDyn ne p v ps ve rest → TaskOk b.envs (.eval ne env false d) := by
  intro ne p v ps ve rest hmm
  simp only [WSObj] at hws
  obtain ⟨_, _, h3⟩ := WSMembers_mem ms Γ _ hws.2.2
  have := h3 m hm
  subst hmm
  exact ⟨Γ, hS.env _ _ hk, this.1⟩

theorem top_envOk {a b : St} {env : EId} {penv : Env} (hp : a.envs[env]? = some penv) (hS : S a b) :
    penv.obj.isNone = false → EnvOk b.envs env objΓ := by
  intro h
  refine hS.env _ _ (envOk_objΓ.2 ⟨penv, hp, ?_⟩)
  cases ho : penv.obj <;> simp_all

/-! ### Object comprehensions -/

/-- the layer of a comprehension under construction: every field carries its own environment, whose
    static view is the environment after the clauses -/
def CompAcc (envs : Array Env) (Γ' : AEnv) (isTop : Bool) (body : Expr) (layer0 layer : Layer) : Prop :=
  ∃ fs : List Field, layer = { layer0 with fields := fs } ∧
    ∀ f ∈ fs, ∃ b, f.baseEnv = some b ∧ EnvOk envs b Γ' ∧ (isTop = false → EnvOk envs b objΓ) ∧
      (∀ ep, f.expr = some ep → ep.1 = body) ∧ (f.thunk = none → f.expr.isSome = true)

theorem CompAcc.init (envs : Array Env) (Γ' : AEnv) (isTop : Bool) (body : Expr) (layer0 : Layer)
    (h : layer0.fields = []) : CompAcc envs Γ' isTop body layer0 layer0 :=
  ⟨[], by cases layer0; simp_all, by simp⟩

theorem CompAcc.mono {a b : St} {Γ' : AEnv} {isTop : Bool} {body : Expr} {layer0 layer : Layer}
    (h : CompAcc a.envs Γ' isTop body layer0 layer) (hS : S a b) : CompAcc b.envs Γ' isTop body layer0 layer := by
  obtain ⟨fs, h1, h2⟩ := h
  refine ⟨fs, h1, ?_⟩
  intro f hf
  obtain ⟨b', g1, g2, g3, g4⟩ := h2 f hf
  exact ⟨b', g1, hS.env _ _ g2, fun ht => hS.env _ _ (g3 ht), g4⟩

theorem CompAcc.step {envs : Array Env} {Γ' : AEnv} {isTop : Bool} {body : Expr} {layer0 layer r : Layer}
    {outer : EId} (h : CompAcc envs Γ' isTop body layer0 layer) (ha : AddedField body (some outer) layer r)
    (hk : EnvOk envs outer Γ') (ht : isTop = false → EnvOk envs outer objΓ) :
    CompAcc envs Γ' isTop body layer0 r := by
  obtain ⟨fs, rfl, hfs⟩ := h
  obtain ⟨f, rfl, hb, he⟩ := ha
  refine ⟨fs ++ [f], rfl, ?_⟩
  intro g hg
  rcases List.mem_append.1 hg with h | h
  · exact hfs g h
  · simp only [List.mem_singleton] at h
    subst h
    exact ⟨outer, hb, hk, ht, he⟩

/-- the empty layer of a comprehension -/
abbrev compLayer0 (isTop : Bool) (locals : Binds) : Layer :=
  { isTop := isTop, locals := bindsList locals, baseEnv := none, env := none, fields := [], asserts := [] }

theorem comp_layerOk {envs : Array Env} {Γ' : AEnv} {isTop : Bool} {body : Expr} {locals : Binds} {layer : Layer}
    (hacc : CompAcc envs Γ' isTop body (compLayer0 isTop locals) layer)
    (hloc : WSBinds locals (objEnv Γ' (bindNames locals))) (hbody : WS body (objEnv Γ' (bindNames locals))) :
    LayerOk (EnvOk envs) layer := by
  obtain ⟨fs, rfl, hfs⟩ := hacc
  have hm := WSBinds_mem locals _ hloc
  refine ⟨?_, ?_, ?_⟩
  · intro b hb; cases hb
  · intro f hf b hb
    obtain ⟨b', g1, g2, g3, g4, _⟩ := hfs f hf
    rw [g1] at hb; cases hb
    refine ⟨Γ', g2, g3, ?_, ?_⟩
    · intro p hp
      show WS p.2 (objEnv Γ' ((bindsList locals).map Prod.fst))
      rw [map_fst_bindsList]; exact hm p hp
    · intro ep hep
      show WS ep.1 (objEnv Γ' ((bindsList locals).map Prod.fst))
      rw [map_fst_bindsList, g4 ep hep]; exact hbody
  · intro e he; cases he

theorem comp_layerShape {envs : Array Env} {Γ' : AEnv} {isTop : Bool} {body : Expr} {locals : Binds} {layer : Layer}
    (hacc : CompAcc envs Γ' isTop body (compLayer0 isTop locals) layer) : LayerShape layer := by
  obtain ⟨fs, rfl, hfs⟩ := hacc
  refine ⟨?_, fun h => absurd rfl h, ?_⟩
  · intro f hf hb _
    obtain ⟨b', g1, _⟩ := hfs f hf
    rw [g1] at hb; cases hb
  · intro f hf
    obtain ⟨b', _, _, _, _, g5⟩ := hfs f hf
    exact g5

theorem layerOk_singleton {EO : EId → AEnv → Prop} {l r : Layer} (h : l ∈ [r]) (hr : LayerOk EO r)
    (hs : LayerShape r) : LayerOk EO l ∧ LayerShape l := by
  simp only [List.mem_singleton] at h
  subst h; exact ⟨hr, hs⟩

/-- a child environment inherits the object context -/
theorem child_objΓ {envs : Array Env} {env outer : EId} {vars : List (String × TId)}
    (hnew : ∀ Γ Γ', EnvOk envs env Γ → (Γ'.isObj = true → Γ.isObj = true) →
      (∀ n, Γ'.has n = true → n ∈ vars.map Prod.fst ∨ Γ.has n = true) → EnvOk envs outer Γ')
    (h : EnvOk envs env objΓ) : EnvOk envs outer objΓ :=
  hnew objΓ objΓ h (fun h => h) (fun n hn => by simp [objΓ, AEnv.has] at hn)

/-- the environment of one binding set of an object comprehension -/
theorem comp_outer {a b : St} {env outer : EId} {Γ : AEnv} {spec : Specs} {sets : List (List (String × TId))}
    {vars : List (String × TId)} {penv : Env}
    (hnew : ∀ Γ Γ', EnvOk b.envs env Γ → (Γ'.isObj = true → Γ.isObj = true) →
      (∀ n, Γ'.has n = true → n ∈ vars.map Prod.fst ∨ Γ.has n = true) → EnvOk b.envs outer Γ')
    (hk : EnvOk a.envs env Γ) (hp : a.envs[env]? = some penv) (hS : S a b)
    (hcov : Cov (forVars (specsList spec)) sets) (hmem : vars ∈ sets) :
    EnvOk b.envs outer (specEnv spec Γ) ∧ (penv.obj.isNone = false → EnvOk b.envs outer objΓ) := by
  constructor
  · refine hnew Γ _ (hS.env _ _ hk) ?_ ?_
    · rw [isObj_specEnv]; exact fun h => h
    · intro n hn
      rw [has_specEnv] at hn
      rcases hn with h | h
      · exact .inl (hcov vars hmem n h)
      · exact .inr h
  · intro h
    exact child_objΓ hnew (top_envOk hp hS h)

section
variable (cfg : Cfg) (rec : Task → M Value) (hrec : RecOk rec)
include hrec

theorem step_eval_object (s : St) (ms : Members) (env : EId) (tail : Bool) (d : Nat) (hI : Inv s)
    (Γ : AEnv) (hΓ : EnvOk s.envs env Γ) (hws : WS (.object ms) Γ) :
    ⦃fun st => ⌜st = s⌝⦄ step cfg rec (.eval (.object ms) env tail d) ⦃Q s (fun _ _ => True)⦄ := by
  have h1 := getEnv_spec
  have h2 := objectMember_spec rec hrec
  have h3 := allocObj_spec
  have hws' : WSObj ms Γ := by simpa only [WS] using hws
  clear hws
  obtain ⟨penv, hpenv⟩ : ∃ penv, s.envs[env]? = some penv := ⟨s.envs[env]'hΓ.inRange, by simp [hΓ.inRange]⟩
  qstart
  unfold step
  mvcgen [h1, h2, h3]
  case inv1 =>
    exact ⟨fun (cur, layer) st => ⌜Inv st ∧ S s st ∧
        ObjAcc ms { isTop := penv.obj.isNone, locals := memberLocals ms, baseEnv := some env, env := none,
                    fields := [], asserts := memberAsserts ms } layer⌝,
      fun e st => ⌜(NonPanic e → Inv st) ∧ Good e⌝, fun _ => ⌜True⌝, ()⟩
  all_goals clear h1 h2 h3
  all_goals vcprep
  all_goals first
    | eclose
    | exact member_taskOk hΓ (by schain) hws' (mem_of_split (by assumption)) _ _ _ _ _ _ rfl
    | exact ⟨by assumption, by schain, ObjAcc.step (by assumption) (by assumption) (mem_of_split (by assumption))⟩
    | (rename_i hr
       obtain rfl := Option.some.inj (hpenv.symm.trans hr)
       exact ⟨hI, S.refl _, ObjAcc.init _ _ rfl⟩)
    | exact layerOk_singleton (by assumption)
        (object_layerOk (S.env (by schain) _ _ hΓ) (top_envOk hpenv (by schain)) hws' (by assumption))
        (object_layerShape (by assumption))

theorem step_eval_objectComp (s : St) (locals : Binds) (name : Expr) (plus : Bool) (body : Expr) (spec : Specs)
    (env : EId) (tail : Bool) (d : Nat) (hI : Inv s)
    (Γ : AEnv) (hΓ : EnvOk s.envs env Γ) (hws : WS (.objectComp locals name plus body spec) Γ) :
    ⦃fun st => ⌜st = s⌝⦄ step cfg rec (.eval (.objectComp locals name plus body spec) env tail d)
      ⦃Q s (fun _ _ => True)⦄ := by
  have h1 := getEnv_spec
  have h2 := evalSpecs_spec rec hrec
  have h3 := allocObj_spec
  have h4 := newEnv_spec
  have h5 := addField_spec
  have hr := rec_spec rec hrec
  simp only [WS] at hws
  obtain ⟨hw1, hw2, hw3, hw4, hw5⟩ := hws
  have hsp := SpecsOk_of_WSSpecs spec Γ hw1
  obtain ⟨penv, hpenv⟩ : ∃ penv, s.envs[env]? = some penv := ⟨s.envs[env]'hΓ.inRange, by simp [hΓ.inRange]⟩
  qstart
  unfold step
  mvcgen [h1, h2, h3, h4, h5, hr]
  case inv1 =>
    exact ⟨fun (cur, layer) st => ⌜Inv st ∧ S s st ∧
        CompAcc st.envs (specEnv spec Γ) penv.obj.isNone body (compLayer0 penv.obj.isNone locals) layer⌝,
      fun e st => ⌜(NonPanic e → Inv st) ∧ Good e⌝, fun _ => ⌜True⌝, ()⟩
  all_goals clear h1 h2 h3 h4 h5 hr
  all_goals vcprep
  all_goals first
    | eclose
    | exact ⟨Γ, hΓ, hsp⟩
    | exact comp_body_pre hΓ (by schain) hw4 (by assumption) (by assumption) (by simp)
    | (obtain ⟨k1, k2⟩ := comp_outer (by assumption) hΓ hpenv (by schain) (by assumption) (by simp)
       exact ⟨by assumption, by schain,
         (CompAcc.step (CompAcc.mono (by assumption) (by schain)) (by assumption) k1 k2).mono (by schain)⟩)
    | exact ⟨by assumption, by schain, CompAcc.mono (by assumption) (by schain)⟩
    | (rename_i hr
       obtain rfl := Option.some.inj (hpenv.symm.trans hr)
       exact ⟨by assumption, by schain, CompAcc.init _ _ _ _ _ rfl⟩)
    | exact layerOk_singleton (by assumption) (comp_layerOk (by assumption) hw3 hw5)
        (comp_layerShape (by assumption))

end
end Rsj.Eval.Scope
