import RsjProofs.EvalSafeBind
/-!
  C01 on the evaluator model: object members, comprehension clauses, argument binding of deferred
  calls, the computation of a pending thunk.
-/
open Std.Do
set_option mvcgen.warning false
namespace Rsj.Eval.Safe
open Rsj.Core Rsj.Eval Rsj.Eval.Scope

/-- every binding set binds existing thunks -/
def SetsRng (nt : Nat) (sets : List (List (String × TId))) : Prop :=
  ∀ vars ∈ sets, ∀ v ∈ vars, v.2 < nt

theorem SetsRng.mono {nt nt' : Nat} {sets : List (List (String × TId))} (h : SetsRng nt sets) (hle : nt ≤ nt') :
    SetsRng nt' sets := fun vars hv v hvv => Nat.lt_of_lt_of_le (h vars hv v hvv) hle

theorem setsRng_rebind {nt nt0 nt1 nt2 no nf : Nat} {sets next : List (List (String × TId))} {vals : List Value}
    {pref suff : List (List (String × TId) × Value)} {x : List (String × TId) × Value} {v : String}
    {p q : List TId} {t : TId}
    (hz : sets.zip vals = pref ++ x :: suff) (hs : SetsRng nt1 sets) (hn : SetsRng nt2 next)
    (hv : ∀ w ∈ vals, ValOk nt0 no nf w) (hx : x.2 = .arr (p ++ t :: q))
    (h0 : nt0 ≤ nt) (h1 : nt1 ≤ nt) (h2 : nt2 ≤ nt) :
    SetsRng nt (next ++ [x.1.filter (fun p => p.1 != v) ++ [(v, t)]]) := by
  intro vars hvars w hw
  rcases List.mem_append.1 hvars with h | h
  · exact Nat.lt_of_lt_of_le (hn vars h w hw) h2
  · simp only [List.mem_singleton] at h
    subst h
    rcases List.mem_append.1 hw with h' | h'
    · exact Nat.lt_of_lt_of_le (hs _ (mem_zip_fst hz) w (List.mem_filter.1 h').1) h1
    · simp only [List.mem_singleton] at h'
      subst h'
      have := hv _ (mem_zip_snd hz)
      rw [hx] at this
      exact Nat.lt_of_lt_of_le (this t (by simp)) h0

/-- invariant of the loops of `evalSpecs` over binding sets (`s1`: store at loop entry) -/
def setsInv (s s1 : St) {β} : PostCond (β × List (List (String × TId))) PS :=
  ⟨fun (_, sets) st => ⌜Safe st ∧ Le s st ∧ SzLe s1 st ∧ SetsRng st.thunks.size sets⌝,
   fun e st => ⌜Safe st ∧ Good2 e ∧ SzLe s st⌝, fun _ => ⌜True⌝, ()⟩

/-- invariant of the loop of `evalSpecs` that collects the values of a clause -/
def valsInv (s s1 : St) {β} : PostCond (β × List Value) PS :=
  ⟨fun (_, vals) st => ⌜Safe st ∧ Le s st ∧ SzLe s1 st ∧
      ∀ v ∈ vals, ValOk st.thunks.size st.objs.size st.funcs.size v⌝,
   fun e st => ⌜Safe st ∧ Good2 e ∧ SzLe s st⌝, fun _ => ⌜True⌝, ()⟩

theorem plan_facts {params : List (String × OptExpr)} {npos : Nat} {named : List String}
    {slots : List Bind.Slot}
    (h : Bind.bindPlan (params.map fun p => (p.1, hasDefault p.2)) npos named = .ok slots)
    {pref suff : List (Bind.Slot × String × OptExpr)} {cur : Bind.Slot × String × OptExpr}
    (hz : slots.zip params = pref ++ cur :: suff) :
    (∀ i, cur.1 = .pos i → i < npos) ∧ (∀ j, cur.1 = .named j → j < named.length) ∧
    (cur.1 = .dflt → ∃ de, cur.2.2 = .some de) := by
  have hm : cur ∈ slots.zip params := by rw [hz]; simp
  have hm' : (cur.1, (cur.2.1, hasDefault cur.2.2)) ∈
      slots.zip (params.map fun p => (p.1, hasDefault p.2)) := by
    rw [List.zip_map_right]
    exact List.mem_map.2 ⟨cur, hm, rfl⟩
  obtain ⟨a, b, c⟩ := bindPlan_slots h _ hm'
  refine ⟨a, b, fun hd => ?_⟩
  have := c hd
  simp only at this
  cases hq : cur.2.2 with
  | none => rw [hq] at this; simp [hasDefault] at this
  | some de => exact ⟨de, rfl⟩

theorem Good2_bindErr (e : Bind.BindErr) : Good2 (bindErr e) := by
  cases e <;> simp [bindErr, Good2]

theorem pos_missing_false {params : List (String × OptExpr)} {npos : Nat} {named : List String}
    {slots : List Bind.Slot} {pos : List TId}
    {pref suff : List (Bind.Slot × String × OptExpr)} {cur : Bind.Slot × String × OptExpr} {i : Nat}
    (hz : slots.zip params = pref ++ cur :: suff) (hc : cur.1 = .pos i) (hn : pos[i]? = none)
    (h : Bind.bindPlan (params.map fun p => (p.1, hasDefault p.2)) npos named = .ok slots)
    (hlen : npos = pos.length) : False := by
  have := (plan_facts h hz).1 i hc
  rw [hlen] at this
  simp [List.getElem?_eq_getElem this] at hn

theorem named_missing_false {params : List (String × OptExpr)} {npos : Nat} {named : List String}
    {slots : List Bind.Slot} {nmd : List TId}
    {pref suff : List (Bind.Slot × String × OptExpr)} {cur : Bind.Slot × String × OptExpr} {j : Nat}
    (hz : slots.zip params = pref ++ cur :: suff) (hc : cur.1 = .named j) (hn : nmd[j]? = none)
    (h : Bind.bindPlan (params.map fun p => (p.1, hasDefault p.2)) npos named = .ok slots)
    (hlen : named.length = nmd.length) : False := by
  have := (plan_facts h hz).2.1 j hc
  rw [hlen] at this
  simp [List.getElem?_eq_getElem this] at hn

theorem named_slot_false {params : List (String × OptExpr)} {npos : Nat}
    {slots : List Bind.Slot}
    {pref suff : List (Bind.Slot × String × OptExpr)} {cur : Bind.Slot × String × OptExpr} {j : Nat}
    (hz : slots.zip params = pref ++ cur :: suff) (hc : cur.1 = .named j)
    (h : Bind.bindPlan (params.map fun p => (p.1, hasDefault p.2)) npos [] = .ok slots) : False := by
  have := (plan_facts h hz).2.1 j hc
  simp at this

theorem dflt_missing_false {params : List (String × OptExpr)} {npos : Nat} {named : List String}
    {slots : List Bind.Slot}
    {pref suff : List (Bind.Slot × String × OptExpr)} {cur : Bind.Slot × String × OptExpr}
    (hz : slots.zip params = pref ++ cur :: suff) (hc : cur.1 = .dflt) (hn : cur.2.2 = .none)
    (h : Bind.bindPlan (params.map fun p => (p.1, hasDefault p.2)) npos named = .ok slots) : False := by
  obtain ⟨de, hde⟩ := (plan_facts h hz).2.2 hc
  rw [hn] at hde; cases hde

theorem default_shaped {ne : Nat} {fn : Func} {slots : List Bind.Slot}
    {pref suff : List (Bind.Slot × String × OptExpr)} {cur : Bind.Slot × String × OptExpr} {de : Expr}
    (hz : slots.zip fn.params = pref ++ cur :: suff) (hd : cur.2.2 = .some de) (hfn : FuncRng ne fn) :
    CoreShaped de := by
  have := hfn.2.2 cur.2 (mem_zip_snd hz)
  rw [hd] at this
  exact this

theorem pos_in_range {pos : List TId} {i : Nat} {t : TId} {n : Nat} (h : pos[i]? = some t)
    (hpos : ∀ t ∈ pos, t < n) : t < n := hpos t (mem_of_getElem? h)

theorem zip_rng {nt : Nat} {names : List String} {ts : List TId} (hts : ∀ t ∈ ts, t < nt) :
    ∀ v ∈ names.zip ts, v.2 < nt :=
  fun v hv => hts v.2 (List.of_mem_zip (a := v.1) (b := v.2) hv).2

theorem zip_rng' {nt : Nat} {names : List String} {ts : List TId} {v : String × TId}
    (hv : v ∈ names.zip ts) (hts : ∀ t ∈ ts, t < nt) : v.2 < nt := zip_rng hts v hv

theorem envRng_args {nt no : Nat} {p : Option EId} {names : List String} {ts : List TId} {penv : Env}
    (hts : ∀ t ∈ ts, t < nt) (hp : EnvRng nt no penv) :
    EnvRng nt no { parent := p, vars := names.zip ts, obj := penv.obj } :=
  ⟨fun v hv => hts v.2 (List.of_mem_zip (a := v.1) (b := v.2) hv).2, hp.2⟩

section
variable (cfg : Cfg) (rec : Task → M Value) (hrec : RecOk2 rec)
include hrec

theorem objectMember_spec2 (s : St) (env : EId) (d : Nat) (layer : Layer) (m : Members) (hS : Safe s)
    (henv : env < s.envs.size) (hm : MemberShaped m) :
    ⦃fun st => ⌜st = s⌝⦄ objectMember rec env d layer m
      ⦃Q2 s (fun r st => LayerAcc2 st.thunks.size st.envs.size layer r)⦄ := by
  have h1 := addField_spec2
  have hr := rec_spec2 rec hrec
  qstart2
  cases m <;> (unfold objectMember; mvcgen [h1, hr]; all_goals clear h1 hr; all_goals vcprep2)
  all_goals first
    | s2close
    | exact hm
    | exact hm.2
    | exact ⟨henv, hm.1⟩
    | exact ⟨by assumption, by s2close, LayerAcc2.refl _ _ _⟩

set_option maxHeartbeats 2000000 in
theorem evalSpecs_spec2 (s : St) (specs : List (Option String × Expr)) (env : EId) (d : Nat) (hS : Safe s)
    (henv : env < s.envs.size) (hsp : ∀ p ∈ specs, CoreShaped p.2)
    (hstart : ∃ v e rest, specs = (some v, e) :: rest) :
    ⦃fun st => ⌜st = s⌝⦄ evalSpecs rec specs env d
      ⦃Q2 s (fun sets st => SetsRng st.thunks.size sets)⦄ := by
  obtain ⟨v0, e0, rest0, rfl⟩ := hstart
  have h1 := newEnv_spec2
  have hr := rec_spec2 rec hrec
  qstart2
  unfold evalSpecs
  mvcgen [h1, hr]
  case inv1 => exact setsInv s ‹St›
  case inv2 => exact valsInv s ‹St›
  case inv3 => exact setsInv s ‹St›
  case inv4 => exact setsInv s ‹St›
  case inv5 => exact setsInv s ‹St›
  all_goals clear h1 hr
  all_goals (try simp only [setsInv, valsInv] at *)
  all_goals vcprep2
  all_goals first
    | s2close
    | (simp only [SetsRng] at *; s2close)
    | (have hz1 := mem_zip_fst (by assumption)
       have hz2 := mem_zip_snd (by assumption)
       simp only [SetsRng] at *
       s2close)
    | (refine ⟨by assumption, by s2close, by s2close, ?_⟩
       exact setsRng_rebind (by assumption) (by assumption) (by assumption) (by assumption) (by assumption)
         (by omega) (by omega) (by omega))

/-- invariant of the argument-binding loops: the thunks collected so far exist -/
def argsInv (s s1 : St) {β} : PostCond (β × List TId) PS := outInv s s1

omit hrec in
theorem bindThunkArgs_spec2 (s : St) (fn : Func) (pos : List TId) (hS : Safe s)
    (hfn : FuncRng s.envs.size fn) (hpos : ∀ t ∈ pos, t < s.thunks.size) :
    ⦃fun st => ⌜st = s⌝⦄ bindThunkArgs fn pos ⦃Q2 s (fun r st => ∀ t ∈ r, t < st.thunks.size)⦄ := by
  have h1 := allocEnv_spec2
  have h2 := setEnv_spec2
  have h3 := newThunk_spec2
  have h4 := getEnv_spec2
  qstart2
  unfold bindThunkArgs
  mvcgen [h1, h2, h3, h4]
  assign_invs (outInv s ‹St›)
  all_goals try (clear h1 h2 h3 h4)
  all_goals vcprep2
  all_goals first
    | s2close
    | exact ⟨hS, Good2_bindErr _, by omega, by omega, by omega, by omega⟩
    | exact ⟨by assumption, Good2_bindErr _, by omega, by omega, by omega, by omega⟩
    | (have ht := pos_in_range (by assumption) hpos; s2close)
    | (exfalso; exact pos_missing_false (by assumption) (by assumption) (by assumption) (by assumption) rfl)
    | (exfalso; exact named_slot_false (by assumption) (by assumption) (by assumption))
    | (exfalso; exact dflt_missing_false (by assumption) (by assumption) (by assumption) (by assumption))
    | exact default_shaped (by assumption) (by assumption) hfn
    | exact envRng_args (by assumption) (Safe.envs (by assumption) _ _ (by assumption))

theorem thunkBody_spec2 (s : St) (p : Pending) (d : Nat) (hS : Safe s)
    (hp : PendRng s.thunks.size s.envs.size s.funcs.size p) :
    ⦃fun st => ⌜st = s⌝⦄ thunkBody cfg rec p d
      ⦃Q2 s (fun v st => ValOk st.thunks.size st.objs.size st.funcs.size v)⦄ := by
  have h1 := getObjRef_spec2
  have h2 := fieldThunk_spec2
  have h3 := wantThunk_spec2 cfg rec hrec
  have h4 := binaryOp_spec2 cfg rec hrec
  have h5 := getFunc_spec2
  have h6 := bindThunkArgs_spec2
  have h7 := newEnv_spec2
  have hr := rec_spec2 rec hrec
  qstart2
  cases p <;> (unfold thunkBody; mvcgen [h1, h2, h3, h4, h5, h6, h7, hr])
  all_goals clear h1 h2 h3 h4 h5 h6 h7 hr
  all_goals vcprep2
  all_goals first
    | s2close
    | exact hp
    | exact hp.1
    | exact hp.2
    | exact zip_rng (by assumption)
    | exact zip_rng (by assumption) _ (by assumption)
    | (have hf := Safe.funcs (by assumption) _ _ (by assumption); exact hf.mono (by omega))
    | (have hf := Safe.funcs (by assumption) _ _ (by assumption)
       exact ⟨Nat.lt_of_lt_of_le hf.1 (by omega), hf.2.1⟩)

end
end Rsj.Eval.Safe
