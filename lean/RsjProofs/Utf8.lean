/-
  Lemmas about the model of `decode_cont_char` (RsjModel/Utf8.lean):
  bounds on the number of bytes consumed.
-/
import RsjModel.Utf8
namespace Rsj.Utf8

theorem safeGet_lt {rest : List Nat} {i : Nat} (h : safeGet rest i ≠ 0) : i < rest.length := by
  unfold safeGet at h
  by_cases hi : i < rest.length
  · exact hi
  · rw [List.getElem?_eq_none (by omega)] at h
    simp at h

theorem safeGet_cont {rest : List Nat} {i : Nat} (h : safeGet rest i &&& 192 = 128) : i < rest.length := by
  apply safeGet_lt
  intro h0
  rw [h0] at h
  simp at h

theorem ok3_lt {b0 : Nat} {rest : List Nat} (h : ok3 b0 (safeGet rest 0) = true) : 0 < rest.length := by
  apply safeGet_lt
  intro h0
  rw [h0] at h
  simp [ok3] at h

theorem ok4_lt {b0 : Nat} {rest : List Nat} (h : ok4 b0 (safeGet rest 0) = true) : 0 < rest.length := by
  apply safeGet_lt
  intro h0
  rw [h0] at h
  simp [ok4] at h

theorem fromU32_chr {k cp n c : Nat} (h : fromU32 k cp = .chr n c) : n = k ∧ c = cp := by
  unfold fromU32 at h
  split at h
  · cases h; exact ⟨rfl, rfl⟩
  · cases h

theorem decodeCont_chr_le {b : Nat} {rest : List Nat} {n c : Nat}
    (h : decodeCont b rest = .chr n c) : n ≤ rest.length := by
  unfold decodeCont at h
  split at h
  · cases h; omega
  split at h
  · simp only at h
    split at h
    · cases h
    · next hc =>
      have := fromU32_chr h
      have := safeGet_cont (Decidable.not_not.mp hc)
      omega
  split at h
  · simp only at h
    split at h
    · cases h
    split at h
    · cases h
    · next h3 hc =>
      have := fromU32_chr h
      have := safeGet_cont (Decidable.not_not.mp hc)
      omega
  split at h
  · simp only at h
    split at h
    · cases h
    split at h
    · cases h
    split at h
    · cases h
    · next h3 hc2 hc =>
      have := fromU32_chr h
      have := safeGet_cont (Decidable.not_not.mp hc)
      omega
  · cases h

theorem decodeCont_bad_le {b : Nat} {rest : List Nat} {n : Nat}
    (h : decodeCont b rest = .bad n) : n ≤ rest.length := by
  unfold decodeCont fromU32 at h
  dsimp only at h
  repeat' split at h
  all_goals first
    | (cases h; done)
    | (cases h; omega)
    | skip
  · next h3 _ => cases h; have := ok3_lt (by simpa using h3); omega
  · next h4 _ => cases h; have := ok4_lt (by simpa using h4); omega
  · next hc _ => cases h; have := safeGet_cont (Decidable.not_not.mp hc); omega
end Rsj.Utf8
