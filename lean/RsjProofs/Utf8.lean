/-
  Lemmas about the model of `decode_cont_char` (RsjModel/Utf8.lean):
  bounds on the number of bytes consumed, the code point computations as
  arithmetic, and absence of the `from_u32(..).unwrap()` panic.
-/
import RsjModel.Utf8
namespace Rsj.Utf8

theorem safeGet_lt {rest : List Nat} {i : Nat} (h : safeGet rest i ≠ 0) : i < rest.length := by
  unfold safeGet at h
  by_cases hi : i < rest.length
  · exact hi
  · rw [List.getElem?_eq_none (by omega)] at h
    simp at h

theorem safeGet_cont {rest : List Nat} {i : Nat} (h : safeGet rest i &&& 192 = 128) : i < rest.length := by
  apply safeGet_lt
  intro h0
  rw [h0] at h
  simp at h

theorem ok3_lt {b0 : Nat} {rest : List Nat} (h : ok3 b0 (safeGet rest 0) = true) : 0 < rest.length := by
  apply safeGet_lt
  intro h0
  rw [h0] at h
  simp [ok3] at h

theorem ok4_lt {b0 : Nat} {rest : List Nat} (h : ok4 b0 (safeGet rest 0) = true) : 0 < rest.length := by
  apply safeGet_lt
  intro h0
  rw [h0] at h
  simp [ok4] at h

theorem fromU32_chr {k cp n c : Nat} (h : fromU32 k cp = .chr n c) : n = k ∧ c = cp := by
  unfold fromU32 at h
  split at h
  · cases h; exact ⟨rfl, rfl⟩
  · cases h

theorem decodeCont_chr_le {b : Nat} {rest : List Nat} {n c : Nat}
    (h : decodeCont b rest = .chr n c) : n ≤ rest.length := by
  unfold decodeCont at h
  split at h
  · cases h; omega
  split at h
  · simp only at h
    split at h
    · cases h
    · next hc =>
      have := fromU32_chr h
      have := safeGet_cont (Decidable.not_not.mp hc)
      omega
  split at h
  · simp only at h
    split at h
    · cases h
    split at h
    · cases h
    · next h3 hc =>
      have := fromU32_chr h
      have := safeGet_cont (Decidable.not_not.mp hc)
      omega
  split at h
  · simp only at h
    split at h
    · cases h
    split at h
    · cases h
    split at h
    · cases h
    · next h3 hc2 hc =>
      have := fromU32_chr h
      have := safeGet_cont (Decidable.not_not.mp hc)
      omega
  · cases h

theorem decodeCont_bad_le {b : Nat} {rest : List Nat} {n : Nat}
    (h : decodeCont b rest = .bad n) : n ≤ rest.length := by
  unfold decodeCont fromU32 at h
  dsimp only at h
  repeat' split at h
  all_goals first
    | (cases h; done)
    | (cases h; omega)
    | skip
  · next h3 _ => cases h; have := ok3_lt (by simpa using h3); omega
  · next h4 _ => cases h; have := ok4_lt (by simpa using h4); omega
  · next hc _ => cases h; have := safeGet_cont (Decidable.not_not.mp hc); omega
theorem or_shift (a b i : Nat) (h : b < 2 ^ i) : (a <<< i) ||| b = a * 2 ^ i + b := by
  rw [← Nat.shiftLeft_add_eq_or_of_lt h, Nat.shiftLeft_eq]

theorem and63 (x : Nat) : x &&& 63 = x % 64 := Nat.and_two_pow_sub_one_eq_mod x 6
theorem and31 (x : Nat) : x &&& 31 = x % 32 := Nat.and_two_pow_sub_one_eq_mod x 5
theorem and15 (x : Nat) : x &&& 15 = x % 16 := Nat.and_two_pow_sub_one_eq_mod x 4
theorem and7 (x : Nat) : x &&& 7 = x % 8 := Nat.and_two_pow_sub_one_eq_mod x 3

theorem shl6 (x : Nat) : x <<< 6 = x * 64 := by have := Nat.shiftLeft_eq x 6; omega
theorem shl12 (x : Nat) : x <<< 12 = x * 4096 := by have := Nat.shiftLeft_eq x 12; omega
theorem pack6 (x y : Nat) : x * 2 ^ 12 + y * 64 = (x * 64 + y) <<< 6 := by rw [shl6]; omega
theorem pack12 (x y : Nat) : x * 2 ^ 18 + y * 4096 = (x * 64 + y) <<< 12 := by rw [shl12]; omega

theorem cp2_eq (b0 b1 : Nat) :
    ((b0 &&& 31) <<< 6) ||| (b1 &&& 63) = b0 % 32 * 64 + b1 % 64 := by
  rw [and31, and63, or_shift _ _ 6 (by omega)]

theorem cp3_eq (b0 b1 b2 : Nat) :
    ((b0 &&& 15) <<< 12) ||| ((b1 &&& 63) <<< 6) ||| (b2 &&& 63) =
      b0 % 16 * 4096 + b1 % 64 * 64 + b2 % 64 := by
  rw [and15, and63, and63, shl6, or_shift _ _ 12 (by omega), pack6, or_shift _ _ 6 (by omega)]
  omega

theorem cp4_eq (b0 b1 b2 b3 : Nat) :
    ((b0 &&& 7) <<< 18) ||| ((b1 &&& 63) <<< 12) ||| ((b2 &&& 63) <<< 6) ||| (b3 &&& 63) =
      b0 % 8 * 262144 + b1 % 64 * 4096 + b2 % 64 * 64 + b3 % 64 := by
  rw [and7, and63, and63, and63, shl12, shl6, or_shift _ _ 18 (by omega), pack12,
    or_shift _ _ 12 (by omega), pack6, or_shift _ _ 6 (by omega)]
  omega


theorem ok3_iff (b0 b1 : Nat) : ok3 b0 b1 = true ↔
    (b0 = 0xE0 ∧ 0xA0 ≤ b1 ∧ b1 ≤ 0xBF) ∨ (0xE1 ≤ b0 ∧ b0 ≤ 0xEC ∧ 0x80 ≤ b1 ∧ b1 ≤ 0xBF) ∨
    (b0 = 0xED ∧ 0x80 ≤ b1 ∧ b1 ≤ 0x9F) ∨ (0xEE ≤ b0 ∧ b0 ≤ 0xEF ∧ 0x80 ≤ b1 ∧ b1 ≤ 0xBF) := by
  simp [ok3, and_assoc, or_assoc]

theorem ok4_iff (b0 b1 : Nat) : ok4 b0 b1 = true ↔
    (b0 = 0xF0 ∧ 0x90 ≤ b1 ∧ b1 ≤ 0xBF) ∨ (0xF1 ≤ b0 ∧ b0 ≤ 0xF3 ∧ 0x80 ≤ b1 ∧ b1 ≤ 0xBF) ∨
    (b0 = 0xF4 ∧ 0x80 ≤ b1 ∧ b1 ≤ 0x8F) := by
  simp [ok4, and_assoc, or_assoc]

theorem isScalar_iff (c : Nat) : isScalar c = true ↔ c < 0xD800 ∨ (0xE000 ≤ c ∧ c < 0x110000) := by
  simp [isScalar]

theorem decodeCont_no_panic (b : Nat) (rest : List Nat) : decodeCont b rest ≠ .panic := by
  unfold decodeCont fromU32
  dsimp only
  rw [cp2_eq, cp3_eq, cp4_eq]
  repeat' split
  all_goals first
    | (intro h; cases h; done)
    | skip
  · next h1 h2 _ hs => rw [isScalar_iff] at hs; omega
  · next h1 h2 h3 h4 _ hs =>
    rw [isScalar_iff] at hs
    have := (ok3_iff _ _).mp (by simpa using h4)
    omega
  · next h1 h2 h3 h4 h5 _ _ hs =>
    rw [isScalar_iff] at hs
    have := (ok4_iff _ _).mp (by simpa using h5)
    omega

end Rsj.Utf8
