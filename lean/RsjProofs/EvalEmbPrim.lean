import RsjProofs.EvalEmbBase
/-!
  The store primitives of the evaluator model are invariant under store embeddings
  (`MRel` lemmas for `allocThunk … checkDepth`).
-/
namespace Rsj.Eval
open Rsj.Core
set_option linter.unusedSectionVars false
variable [Mode]

/-! ### what the primitives compute -/

theorem allocThunk_apply (s : TState) (st : St) :
    allocThunk s st = some (.ok st.thunks.size, { st with thunks := st.thunks.push s, runs := st.runs.push 0 }) := rfl
theorem allocEnv_apply (s : Env) (st : St) :
    allocEnv s st = some (.ok st.envs.size, { st with envs := st.envs.push s }) := rfl
theorem allocObj_apply (s : Obj) (st : St) :
    allocObj s st = some (.ok st.objs.size, { st with objs := st.objs.push s }) := rfl
theorem allocFunc_apply (s : Func) (st : St) :
    allocFunc s st = some (.ok st.funcs.size, { st with funcs := st.funcs.push s }) := rfl

theorem getThunk_apply (t : TId) (st : St) :
    getThunk t st = match st.thunks[t]? with
      | some s => some (.ok s, st)
      | none => some (.error (.internal "bad thunk id"), st) := by
  unfold getThunk
  rw [M_bind_app, get_app]
  simp only []
  cases st.thunks[t]? <;> rfl

theorem getEnv_apply (t : EId) (st : St) :
    getEnv t st = match st.envs[t]? with
      | some s => some (.ok s, st)
      | none => some (.error (.internal "env data not set"), st) := by
  unfold getEnv
  rw [M_bind_app, get_app]
  simp only []
  cases st.envs[t]? <;> rfl

theorem getObj_apply (t : OId) (st : St) :
    getObj t st = match st.objs[t]? with
      | some s => some (.ok s, st)
      | none => some (.error (.internal "attempted to access destroyed object"), st) := by
  unfold getObj
  rw [M_bind_app, get_app]
  simp only []
  cases st.objs[t]? <;> rfl

theorem getFunc_apply (t : FId) (st : St) :
    getFunc t st = match st.funcs[t]? with
      | some s => some (.ok s, st)
      | none => some (.error (.internal "bad function id"), st) := by
  unfold getFunc
  rw [M_bind_app, get_app]
  simp only []
  cases st.funcs[t]? <;> rfl

theorem switchState_app (t : TId) (st : St) :
    switchState t st = match st.thunks[t]? with
      | some (.pending p) =>
        some (.ok (.pending p),
          { st with thunks := st.thunks.setIfInBounds t (.inProgress p), runs := st.runs.modify t (· + 1) })
      | some s => some (.ok s, st)
      | none => some (.error (.internal "bad thunk id"), st) := by
  unfold switchState
  rw [M_bind_app, get_app]
  simp only []
  cases h : st.thunks[t]? with
  | none => rfl
  | some s => cases s <;> rfl

theorem finishThunk_app (t : TId) (v : Value) (st : St) :
    finishThunk t v st = match st.thunks[t]? with
      | some (.inProgress _) => some (.ok ⟨⟩, { st with thunks := st.thunks.setIfInBounds t (.done v) })
      | _ => some (.error (.internal "set_done on a thunk that is not in progress"), { st with tripped := true }) := by
  unfold finishThunk
  rw [M_bind_app, get_app]
  simp only []
  cases h : st.thunks[t]? with
  | none => rfl
  | some s => cases s <;> rfl

theorem setEnv_apply (e : EId) (v : Env) (st : St) :
    setEnv e v st = some (.ok ⟨⟩, { st with envs := st.envs.setIfInBounds e v }) := rfl
theorem setObj_apply (e : OId) (v : Obj) (st : St) :
    setObj e v st = some (.ok ⟨⟩, { st with objs := st.objs.setIfInBounds e v }) := rfl
theorem noteDepth_apply (d : Nat) (st : St) :
    noteDepth d st = some (.ok ⟨⟩, { st with deepest := max st.deepest d }) := rfl
theorem pushTrace_apply (m : String) (st : St) :
    pushTrace m st = some (.ok ⟨⟩, { st with traces := m :: st.traces }) := rfl

/-! ### allocation: the fresh id of the left store is mapped to the fresh id of the right store -/

theorem allocThunk_rel {ρ : Emb} {s s' : TState} (h : RTState ρ s s') :
    MRel ρ RT (allocThunk s) (allocThunk s') := by
  intro ta tb a b hs
  rw [allocThunk_apply, allocThunk_apply]
  have hle := Emb.le_extT b.thunks.size hs.thunks.fresh
  refine ⟨_, _, rfl, ρ.extT a.thunks.size b.thunks.size, hle, ?_, ext_self _ _ _⟩
  exact {
    thunks := hs.thunks.push (fun _ _ => Mono.mono hle) (Mono.mono hle h)
    envs := hs.envs.mono (fun _ _ => REnvC.mono hle)
    objs := hs.objs.mono (fun _ _ => Mono.mono hle)
    funcs := hs.funcs.mono (fun _ _ => Mono.mono hle)
    traces := hs.traces
    wkcell := hs.wkcell
    rsvok := fun t ht => by
      obtain ⟨h1, h2⟩ := hs.rsvok t ht
      refine ⟨by simp; omega, fun j => ?_⟩
      show ext ρ.tm _ _ j ≠ _
      unfold ext
      split
      · intro e
        have e2 : b.thunks.size = t := Option.some.inj e
        rw [← e2] at h1
        exact absurd h1 (Nat.lt_irrefl _)
      · exact h2 j }

theorem allocEnv_rel {ρ : Emb} {s s' : Env} (h : REnv ρ s s') :
    MRel ρ RE (allocEnv s) (allocEnv s') := by
  intro ta tb a b hs
  rw [allocEnv_apply, allocEnv_apply]
  have hle := Emb.le_extE b.envs.size hs.envs.fresh
  refine ⟨_, _, rfl, ρ.extE a.envs.size b.envs.size, hle, ?_, ext_self _ _ _⟩
  exact {
    thunks := hs.thunks.mono (fun _ _ => Mono.mono hle)
    envs := hs.envs.push (fun _ _ => REnvC.mono hle) (.inl (Mono.mono hle h))
    objs := hs.objs.mono (fun _ _ => Mono.mono hle)
    funcs := hs.funcs.mono (fun _ _ => Mono.mono hle)
    traces := hs.traces
    wkcell := fun w hw => by
      obtain ⟨h1, h2, h3⟩ := hs.wkcell w hw
      have hq : w.q < b.envs.size := by
        rcases Nat.lt_or_ge w.q b.envs.size with h | h
        · exact h
        · simp [Array.getElem?_eq_none h] at h1
      refine ⟨by simpa [Array.getElem?_push, Nat.ne_of_lt hq] using h1, fun j => ?_, h3⟩
      show ext ρ.em _ _ j ≠ _
      unfold ext
      split
      · intro e
        have e2 : b.envs.size = w.q := Option.some.inj e
        rw [← e2] at hq
        exact absurd hq (Nat.lt_irrefl _)
      · exact h2 j
    rsvok := hs.rsvok }

theorem allocObj_rel {ρ : Emb} {s s' : Obj} (h : RObj ρ s s') :
    MRel ρ RO (allocObj s) (allocObj s') := by
  intro ta tb a b hs
  rw [allocObj_apply, allocObj_apply]
  have hle := Emb.le_extO b.objs.size hs.objs.fresh
  refine ⟨_, _, rfl, ρ.extO a.objs.size b.objs.size, hle, ?_, ext_self _ _ _⟩
  exact {
    thunks := hs.thunks.mono (fun _ _ => Mono.mono hle)
    envs := hs.envs.mono (fun _ _ => REnvC.mono hle)
    objs := hs.objs.push (fun _ _ => Mono.mono hle) (Mono.mono hle h)
    funcs := hs.funcs.mono (fun _ _ => Mono.mono hle)
    traces := hs.traces
    wkcell := hs.wkcell, rsvok := hs.rsvok }

theorem allocFunc_rel {ρ : Emb} {s s' : Func} (h : RFunc ρ s s') :
    MRel ρ RF (allocFunc s) (allocFunc s') := by
  intro ta tb a b hs
  rw [allocFunc_apply, allocFunc_apply]
  have hle := Emb.le_extF b.funcs.size hs.funcs.fresh
  refine ⟨_, _, rfl, ρ.extF a.funcs.size b.funcs.size, hle, ?_, ext_self _ _ _⟩
  exact {
    thunks := hs.thunks.mono (fun _ _ => Mono.mono hle)
    envs := hs.envs.mono (fun _ _ => REnvC.mono hle)
    objs := hs.objs.mono (fun _ _ => Mono.mono hle)
    funcs := hs.funcs.push (fun _ _ => Mono.mono hle) (Mono.mono hle h)
    traces := hs.traces
    wkcell := hs.wkcell, rsvok := hs.rsvok }

/-! ### reads -/

theorem getThunk_rel {ρ : Emb} {t t' : TId} (h : RT ρ t t') : MRel ρ RTState (getThunk t) (getThunk t') := by
  intro ta tb a b hs
  obtain ⟨x, y, h1, h2, h3⟩ := hs.thunks.cell t t' h
  rw [getThunk_apply, getThunk_apply, h1, h2]
  exact ⟨_, _, rfl, ρ, Emb.le_refl ρ, hs, h3⟩

theorem getEnv_rel {ρ : Emb} {t t' : EId} (h : RE ρ t t') : MRel ρ REnvW (getEnv t) (getEnv t') := by
  intro ta tb a b hs
  obtain ⟨x, y, h1, h2, h3⟩ := hs.envs.cell t t' h
  rw [getEnv_apply, getEnv_apply, h1, h2]
  exact ⟨_, _, rfl, ρ, Emb.le_refl ρ, hs, h3.toW⟩

theorem getObj_rel {ρ : Emb} {t t' : OId} (h : RO ρ t t') : MRel ρ RObj (getObj t) (getObj t') := by
  intro ta tb a b hs
  obtain ⟨x, y, h1, h2, h3⟩ := hs.objs.cell t t' h
  rw [getObj_apply, getObj_apply, h1, h2]
  exact ⟨_, _, rfl, ρ, Emb.le_refl ρ, hs, h3⟩

theorem getFunc_rel {ρ : Emb} {t t' : FId} (h : RF ρ t t') : MRel ρ RFunc (getFunc t) (getFunc t') := by
  intro ta tb a b hs
  obtain ⟨x, y, h1, h2, h3⟩ := hs.funcs.cell t t' h
  rw [getFunc_apply, getFunc_apply, h1, h2]
  exact ⟨_, _, rfl, ρ, Emb.le_refl ρ, hs, h3⟩

/-! ### writes -/

theorem Sim.rsvok_set {ρ : Emb} {ta tb : List String} {a b : St} (hs : Sim ρ ta tb a b) (i : Nat) (x : TState) :
    ∀ t, t ∈ ρ.rsv → t < (b.thunks.setIfInBounds i x).size ∧ ∀ j, ρ.tm j ≠ some t :=
  fun t ht => by simpa using hs.rsvok t ht

theorem switchState_rel {ρ : Emb} {t t' : TId} (h : RT ρ t t') :
    MRel ρ RTState (switchState t) (switchState t') := by
  intro ta tb a b hs
  obtain ⟨x, y, h1, h2, h3⟩ := hs.thunks.cell t t' h
  rw [switchState_app, switchState_app, h1, h2]
  cases h3 with
  | pending hp =>
    exact ⟨_, _, rfl, ρ, Emb.le_refl ρ,
      { thunks := hs.thunks.set h (.inProgress hp), envs := hs.envs, objs := hs.objs, funcs := hs.funcs,
        traces := hs.traces, wkcell := hs.wkcell, rsvok := hs.rsvok_set _ _ }, .pending hp⟩
  | inProgress hp => exact ⟨_, _, rfl, ρ, Emb.le_refl ρ, hs, .inProgress hp⟩
  | inProgressLoose hp => exact ⟨_, _, rfl, ρ, Emb.le_refl ρ, hs, .inProgressLoose hp⟩
  | done hv => exact ⟨_, _, rfl, ρ, Emb.le_refl ρ, hs, .done hv⟩

theorem finishThunk_rel {ρ : Emb} {t t' : TId} {v v' : Value} (h : RT ρ t t') (hv : RVal ρ v v') :
    MRel ρ RTrue (finishThunk t v) (finishThunk t' v') := by
  intro ta tb a b hs
  obtain ⟨x, y, h1, h2, h3⟩ := hs.thunks.cell t t' h
  rw [finishThunk_app, finishThunk_app, h1, h2]
  cases h3 with
  | inProgress hp =>
    exact ⟨_, _, rfl, ρ, Emb.le_refl ρ,
      { thunks := hs.thunks.set h (.done hv), envs := hs.envs, objs := hs.objs, funcs := hs.funcs,
        traces := hs.traces, wkcell := hs.wkcell, rsvok := hs.rsvok_set _ _ }, trivial⟩
  | inProgressLoose hp =>
    exact ⟨_, _, rfl, ρ, Emb.le_refl ρ,
      { thunks := hs.thunks.set h (.done hv), envs := hs.envs, objs := hs.objs, funcs := hs.funcs,
        traces := hs.traces, wkcell := hs.wkcell, rsvok := hs.rsvok_set _ _ }, trivial⟩
  | pending hp =>
    exact .inr ⟨_, rfl, ρ, Emb.le_refl ρ,
      { thunks := hs.thunks, envs := hs.envs, objs := hs.objs, funcs := hs.funcs, traces := hs.traces,
        wkcell := hs.wkcell, rsvok := hs.rsvok }⟩
  | done hv =>
    exact .inr ⟨_, rfl, ρ, Emb.le_refl ρ,
      { thunks := hs.thunks, envs := hs.envs, objs := hs.objs, funcs := hs.funcs, traces := hs.traces,
        wkcell := hs.wkcell, rsvok := hs.rsvok }⟩

theorem setEnv_rel {ρ : Emb} {e e' : EId} {v v' : Env} (h : RE ρ e e') (hv : REnv ρ v v') :
    MRel ρ RTrue (setEnv e v) (setEnv e' v') := by
  intro ta tb a b hs
  rw [setEnv_apply, setEnv_apply]
  exact ⟨_, _, rfl, ρ, Emb.le_refl ρ,
    { thunks := hs.thunks, envs := hs.envs.set h (.inl hv), objs := hs.objs, funcs := hs.funcs, traces := hs.traces,
      wkcell := fun w hw => by
        obtain ⟨h1, h2, h3⟩ := hs.wkcell w hw
        have hne : e' ≠ w.q := fun e0 => h2 e (e0 ▸ h)
        exact ⟨by simpa [Array.getElem?_setIfInBounds, hne] using h1, h2, h3⟩
      rsvok := hs.rsvok },
    trivial⟩

theorem setObj_rel {ρ : Emb} {e e' : OId} {v v' : Obj} (h : RO ρ e e') (hv : RObj ρ v v') :
    MRel ρ RTrue (setObj e v) (setObj e' v') := by
  intro ta tb a b hs
  rw [setObj_apply, setObj_apply]
  exact ⟨_, _, rfl, ρ, Emb.le_refl ρ,
    { thunks := hs.thunks, envs := hs.envs, objs := hs.objs.set h hv, funcs := hs.funcs, traces := hs.traces,
      wkcell := hs.wkcell, rsvok := hs.rsvok },
    trivial⟩

theorem noteDepth_rel' {ρ : Emb} (d d' : Nat) : MRel ρ RTrue (noteDepth d) (noteDepth d') := by
  intro ta tb a b hs
  rw [noteDepth_apply, noteDepth_apply]
  exact ⟨_, _, rfl, ρ, Emb.le_refl ρ,
    { thunks := hs.thunks, envs := hs.envs, objs := hs.objs, funcs := hs.funcs, traces := hs.traces,
      wkcell := hs.wkcell, rsvok := hs.rsvok }, trivial⟩

theorem noteDepth_rel {ρ : Emb} (d : Nat) : MRel ρ RTrue (noteDepth d) (noteDepth d) := noteDepth_rel' d d

theorem pushTrace_rel {ρ : Emb} (m : String) : MRel ρ RTrue (pushTrace m) (pushTrace m) := by
  intro ta tb a b hs
  rw [pushTrace_apply, pushTrace_apply]
  exact ⟨_, _, rfl, ρ, Emb.le_refl ρ,
    { thunks := hs.thunks, envs := hs.envs, objs := hs.objs, funcs := hs.funcs,
      traces := by
        obtain ⟨new, h1, h2⟩ := hs.traces
        exact ⟨m :: new, by show m :: a.traces = _; rw [h1]; rfl, by show m :: b.traces = _; rw [h2]; rfl⟩
      wkcell := hs.wkcell, rsvok := hs.rsvok }, trivial⟩

/-- the depth check with a shifted depth and a (possibly larger) limit on the right -/
theorem checkDepth_rel {ρ : Emb} (cfg : Cfg) (d : Nat) {cfg' : Cfg} {d' : Nat} [hc : RCfg cfg cfg']
    (hd : RDep d d' := by rdep) : MRel ρ RTrue (checkDepth cfg d) (checkDepth cfg' d') := by
  have hd : d' = d + Mode.shift := hd
  unfold checkDepth
  by_cases h : d > cfg.maxStack
  · rw [if_pos h]
    by_cases hex : Mode.excuse .stackOverflow
    · intro ta tb a b hs
      exact .inl hex
    · have := hc.eq hex
      rw [if_pos (by omega)]
      exact MRel_throw rfl
  · rw [if_neg h, if_neg (by have := hc.le; omega)]
    exact MRel_pure trivial

theorem checkNum_rel {ρ : Emb} (f : Float) : MRel ρ RTrue (checkNum f) (checkNum f) := by
  unfold checkNum
  split
  · exact MRel_throw rfl
  · split
    · exact MRel_throw rfl
    · exact MRel_pure trivial

/-- a computation that does not depend on the store is related to itself -/
theorem MRel_const {α : Type} {ρ : Emb} (x : M α) (hx : ∃ r : Except Err α, ∀ st, x st = some (r, st)) :
    MRel ρ REq x x := by
  intro ta tb a b hs
  obtain ⟨r, hr⟩ := hx
  rw [hr a, hr b]
  cases r with
  | ok v => exact ⟨_, _, rfl, ρ, Emb.le_refl ρ, hs, rfl⟩
  | error e => exact .inr ⟨_, rfl, ρ, Emb.le_refl ρ, hs⟩

end Rsj.Eval
