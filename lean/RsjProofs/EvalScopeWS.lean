import RsjModel.Eval
import RsjProofs.Analyze
/-!
  C09, run-time half: what well-scopedness (`WS`) gives for the lists the evaluator iterates over
  (bindings, parameters, arguments, object members, comprehension clauses).
-/
namespace Rsj.Eval.Scope
open Rsj.Core Rsj.Eval Rsj.Analyze

theorem WS_stripParen (e : Expr) (Γ : AEnv) (h : WS e Γ) : WS (stripParen e) Γ := by
  fun_induction stripParen e with
  | case1 e ih => exact ih (by simpa [WS] using h)
  | case2 e hne => exact h

theorem map_fst_bindsList : ∀ bs : Binds, (bindsList bs).map Prod.fst = bindNames bs
  | .nil => rfl
  | .cons n ps e rest => by simp [bindsList, bindNames, map_fst_bindsList rest]

theorem map_fst_paramsList : ∀ ps : Params, (paramsList ps).map Prod.fst = paramNames ps
  | .nil => rfl
  | .cons n d rest => by simp [paramsList, paramNames, map_fst_paramsList rest]

theorem WSDefaults_mem : ∀ (ps : Params) (Γ : AEnv), WSDefaults ps Γ → ∀ p ∈ paramsList ps, WSOpt p.2 Γ
  | .nil, _, _ => by simp [paramsList]
  | .cons n d rest, Γ, h => by
    simp only [WSDefaults] at h
    intro p hp
    simp only [paramsList, List.mem_cons] at hp
    rcases hp with rfl | hp
    · exact h.1
    · exact WSDefaults_mem rest Γ h.2 p hp

/-- a function expression gives a well-scoped closure -/
theorem WS_func {ps : Params} {body : Expr} {Γ : AEnv} (h : WS (.func ps body) Γ) :
    (∀ p ∈ paramsList ps, WSOpt p.2 (Γ.add ((paramsList ps).map Prod.fst))) ∧
    WS body (Γ.add ((paramsList ps).map Prod.fst)) := by
  simp only [WS] at h
  rw [map_fst_paramsList]
  exact ⟨WSDefaults_mem ps _ h.2.1, h.2.2⟩

theorem WS_bindExpr_of {ps : OptParams} {e : Expr} {Γ : AEnv} :
    (match ps with
     | .none => WS e Γ
     | .some ps => (paramNames ps).Nodup ∧ WSDefaults ps (Γ.add (paramNames ps)) ∧ WS e (Γ.add (paramNames ps))) →
    WS (bindExpr ps e) Γ := by
  cases ps <;> simp [bindExpr, WS]

theorem WSBinds_mem : ∀ (bs : Binds) (Γ : AEnv), WSBinds bs Γ → ∀ p ∈ bindsList bs, WS p.2 Γ
  | .nil, _, _ => by simp [bindsList]
  | .cons n .none e rest, Γ, h => by
    simp only [WSBinds] at h
    intro p hp
    simp only [bindsList, List.mem_cons] at hp
    rcases hp with rfl | hp
    · exact h.1
    · exact WSBinds_mem rest Γ h.2 p hp
  | .cons n (.some ps) e rest, Γ, h => by
    simp only [WSBinds] at h
    intro p hp
    simp only [bindsList, List.mem_cons] at hp
    rcases hp with rfl | hp
    · simpa [bindExpr, WS] using h.1
    · exact WSBinds_mem rest Γ h.2 p hp

theorem WSExprs_mem : ∀ (es : Exprs) (Γ : AEnv), WSExprs es Γ → ∀ e ∈ exprsList es, WS e Γ
  | .nil, _, _ => by simp [exprsList]
  | .cons e rest, Γ, h => by
    simp only [WSExprs] at h
    intro p hp
    simp only [exprsList, List.mem_cons] at hp
    rcases hp with rfl | hp
    · exact h.1
    · exact WSExprs_mem rest Γ h.2 p hp

theorem WSArgs_mem : ∀ (as : Args) (b : Bool) (Γ : AEnv), WSArgs as b Γ → ∀ p ∈ argsSplit as, WS p.2 Γ
  | .nil, _, _, _ => by simp [argsSplit]
  | .pos e rest, b, Γ, h => by
    simp only [WSArgs] at h
    intro p hp
    simp only [argsSplit, List.mem_cons] at hp
    rcases hp with rfl | hp
    · exact h.2.1
    · exact WSArgs_mem rest b Γ h.2.2 p hp
  | .named n e rest, b, Γ, h => by
    simp only [WSArgs] at h
    intro p hp
    simp only [argsSplit, List.mem_cons] at hp
    rcases hp with rfl | hp
    · exact h.1
    · exact WSArgs_mem rest true Γ h.2 p hp

theorem map_fst_memberLocals : ∀ ms : Members, (memberLocals ms).map Prod.fst = memberLocalNames ms
  | .nil => rfl
  | .local_ n ps e rest => by simp [memberLocals, memberLocalNames, map_fst_memberLocals rest]
  | .assert_ _ _ rest => by simp [memberLocals, memberLocalNames, map_fst_memberLocals rest]
  | .fieldFix _ _ _ _ _ rest => by simp [memberLocals, memberLocalNames, map_fst_memberLocals rest]
  | .fieldDyn _ _ _ _ _ rest => by simp [memberLocals, memberLocalNames, map_fst_memberLocals rest]

/-- what `objectMember` needs of one member -/
def MemberOk (outer inner : AEnv) : Members → Prop
  | .fieldFix _ _ _ ps ve _ => WS (bindExpr ps ve) inner
  | .fieldDyn ne _ _ ps ve _ => WS ne outer ∧ WS (bindExpr ps ve) inner
  | _ => True

theorem WSMembers_mem : ∀ (ms : Members) (outer inner : AEnv), WSMembers ms outer inner →
    (∀ p ∈ memberLocals ms, WS p.2 inner) ∧
    (∀ a ∈ memberAsserts ms, WS a.1 inner ∧ WSOpt a.2 inner) ∧
    (∀ m ∈ membersList ms, MemberOk outer inner m)
  | .nil, _, _, _ => by simp [memberLocals, memberAsserts, membersList]
  | .local_ n .none e rest, outer, inner, h => by
    simp only [WSMembers] at h
    obtain ⟨h1, h2, h3⟩ := WSMembers_mem rest outer inner h.2
    simp only [memberLocals, memberAsserts, membersList, List.mem_cons, forall_eq_or_imp]
    exact ⟨⟨by simpa [bindExpr] using h.1, h1⟩, h2, trivial, h3⟩
  | .local_ n (.some ps) e rest, outer, inner, h => by
    simp only [WSMembers] at h
    obtain ⟨h1, h2, h3⟩ := WSMembers_mem rest outer inner h.2
    simp only [memberLocals, memberAsserts, membersList, List.mem_cons, forall_eq_or_imp]
    exact ⟨⟨by simpa [bindExpr, WS] using h.1, h1⟩, h2, trivial, h3⟩
  | .assert_ c m rest, outer, inner, h => by
    simp only [WSMembers] at h
    obtain ⟨h1, h2, h3⟩ := WSMembers_mem rest outer inner h.2.2
    simp only [memberLocals, memberAsserts, membersList, List.mem_cons, forall_eq_or_imp]
    exact ⟨h1, ⟨⟨h.1, h.2.1⟩, h2⟩, trivial, h3⟩
  | .fieldFix n p v .none e rest, outer, inner, h => by
    simp only [WSMembers] at h
    obtain ⟨h1, h2, h3⟩ := WSMembers_mem rest outer inner h.2
    simp only [memberLocals, memberAsserts, membersList, List.mem_cons, forall_eq_or_imp]
    exact ⟨h1, h2, by simpa [MemberOk, bindExpr] using h.1, h3⟩
  | .fieldFix n p v (.some ps) e rest, outer, inner, h => by
    simp only [WSMembers] at h
    obtain ⟨h1, h2, h3⟩ := WSMembers_mem rest outer inner h.2
    simp only [memberLocals, memberAsserts, membersList, List.mem_cons, forall_eq_or_imp]
    exact ⟨h1, h2, by simpa [MemberOk, bindExpr, WS] using h.1, h3⟩
  | .fieldDyn ne p v .none e rest, outer, inner, h => by
    simp only [WSMembers] at h
    obtain ⟨h1, h2, h3⟩ := WSMembers_mem rest outer inner h.2.2
    simp only [memberLocals, memberAsserts, membersList, List.mem_cons, forall_eq_or_imp]
    exact ⟨h1, h2, by simpa [MemberOk, bindExpr] using ⟨h.2.1, h.1⟩, h3⟩
  | .fieldDyn ne p v (.some ps) e rest, outer, inner, h => by
    simp only [WSMembers] at h
    obtain ⟨h1, h2, h3⟩ := WSMembers_mem rest outer inner h.2.2
    simp only [memberLocals, memberAsserts, membersList, List.mem_cons, forall_eq_or_imp]
    exact ⟨h1, h2, by simpa [MemberOk, bindExpr, WS] using ⟨h.2.1, h.1⟩, h3⟩

/-! ### Comprehension clauses -/

/-- the clause list is well scoped, each `for` binding its variable for the clauses to its right -/
def SpecsOk : List (Option String × Expr) → AEnv → Prop
  | [], _ => True
  | (some v, e) :: rest, Γ => WS e Γ ∧ SpecsOk rest (Γ.add [v])
  | (none, c) :: rest, Γ => WS c Γ ∧ SpecsOk rest Γ

/-- the variables bound by the clauses -/
def forVars : List (Option String × Expr) → List String
  | [] => []
  | (some v, _) :: rest => v :: forVars rest
  | (none, _) :: rest => forVars rest

theorem SpecsOk_of_WSSpecs : ∀ (sp : Specs) (Γ : AEnv), WSSpecs sp Γ → SpecsOk (specsList sp) Γ
  | .nil, _, _ => trivial
  | .for_ v e rest, Γ, h => by
    simp only [WSSpecs] at h
    exact ⟨h.1, SpecsOk_of_WSSpecs rest _ h.2⟩
  | .if_ c rest, Γ, h => by
    simp only [WSSpecs] at h
    exact ⟨h.1, SpecsOk_of_WSSpecs rest _ h.2⟩

theorem has_specEnv : ∀ (sp : Specs) (Γ : AEnv) (n : String),
    (specEnv sp Γ).has n = true ↔ n ∈ forVars (specsList sp) ∨ Γ.has n = true
  | .nil, Γ, n => by simp [specEnv, specsList, forVars]
  | .for_ v e rest, Γ, n => by
    simp only [specEnv, specsList, forVars, List.mem_cons]
    rw [has_specEnv rest]
    simp [AEnv.add, AEnv.has]
    constructor
    · rintro (h | h | h) <;> simp [h]
    · rintro ((h | h) | h) <;> simp [h]
  | .if_ c rest, Γ, n => by
    simp only [specEnv, specsList, forVars]
    exact has_specEnv rest Γ n

theorem isObj_specEnv : ∀ (sp : Specs) (Γ : AEnv), (specEnv sp Γ).isObj = Γ.isObj
  | .nil, _ => rfl
  | .for_ v e rest, Γ => by simp only [specEnv]; rw [isObj_specEnv rest]; rfl
  | .if_ c rest, Γ => by simp only [specEnv]; exact isObj_specEnv rest Γ

/-- the environment after the clauses of the list -/
def specEnvL : List (Option String × Expr) → AEnv → AEnv
  | [], Γ => Γ
  | (some v, _) :: rest, Γ => specEnvL rest (Γ.add [v])
  | (none, _) :: rest, Γ => specEnvL rest Γ

theorem has_specEnvL : ∀ (l : List (Option String × Expr)) (Γ : AEnv) (n : String),
    (specEnvL l Γ).has n = true ↔ n ∈ forVars l ∨ Γ.has n = true
  | [], Γ, n => by simp [specEnvL, forVars]
  | (some v, e) :: rest, Γ, n => by
    simp only [specEnvL, forVars, List.mem_cons]
    rw [has_specEnvL rest]
    simp [AEnv.add, AEnv.has]
    constructor
    · rintro (h | h | h) <;> simp [h]
    · rintro ((h | h) | h) <;> simp [h]
  | (none, c) :: rest, Γ, n => by
    simp only [specEnvL, forVars]
    exact has_specEnvL rest Γ n

theorem isObj_specEnvL : ∀ (l : List (Option String × Expr)) (Γ : AEnv), (specEnvL l Γ).isObj = Γ.isObj
  | [], _ => rfl
  | (some v, e) :: rest, Γ => by simp only [specEnvL]; rw [isObj_specEnvL rest]; rfl
  | (none, c) :: rest, Γ => by simp only [specEnvL]; exact isObj_specEnvL rest Γ

/-- the clause after the prefix `l1` is well scoped in the environment after `l1` -/
theorem SpecsOk_mid : ∀ (l1 : List (Option String × Expr)) (x : Option String × Expr)
    (l2 : List (Option String × Expr)) (Γ : AEnv), SpecsOk (l1 ++ x :: l2) Γ → WS x.2 (specEnvL l1 Γ)
  | [], (some v, e), l2, Γ, h => by simp only [List.nil_append, SpecsOk] at h; exact h.1
  | [], (none, e), l2, Γ, h => by simp only [List.nil_append, SpecsOk] at h; exact h.1
  | (some v, e) :: rest, x, l2, Γ, h => by
    simp only [List.cons_append, SpecsOk] at h
    exact SpecsOk_mid rest x l2 _ h.2
  | (none, e) :: rest, x, l2, Γ, h => by
    simp only [List.cons_append, SpecsOk] at h
    exact SpecsOk_mid rest x l2 _ h.2

theorem forVars_append : ∀ (l1 l2 : List (Option String × Expr)), forVars (l1 ++ l2) = forVars l1 ++ forVars l2
  | [], l2 => rfl
  | (some v, e) :: rest, l2 => by simp [forVars, forVars_append rest l2]
  | (none, e) :: rest, l2 => by simp [forVars, forVars_append rest l2]

theorem specEnv_eq_specEnvL : ∀ (sp : Specs) (Γ : AEnv), specEnv sp Γ = specEnvL (specsList sp) Γ
  | .nil, _ => rfl
  | .for_ v e rest, Γ => by simp only [specEnv, specsList, specEnvL]; exact specEnv_eq_specEnvL rest _
  | .if_ c rest, Γ => by simp only [specEnv, specsList, specEnvL]; exact specEnv_eq_specEnvL rest _

end Rsj.Eval.Scope
