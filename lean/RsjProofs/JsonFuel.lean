/-
  The fuel of the model's outer loop (`run`, input length + 1) is never
  exhausted: every iteration of `parse_json`'s outer loop consumes at least one
  character.  So `Err.fuel` is not an outcome of `parseJson`.
-/
import RsjModel.Json
namespace Rsj.Json

/-- "not the fuel error" -/
def NF {α : Type} (r : Except Err α) : Prop := ∀ e, r = .error e → e ≠ .fuel

theorem NF.ok {α : Type} (a : α) : NF (Except.ok a : Except Err α) := by intro e he; cases he

theorem skipSpaces_len : ∀ s : Str, (skipSpaces s).length ≤ s.length
  | [] => by simp [skipSpaces]
  | c :: r => by
    rw [skipSpaces]
    split
    · have := skipSpaces_len r; simp; omega
    · simp

/-! numbers -/

theorem consTok_nf {c : Nat} {x : Except Err (Str × Str)} (h : NF x) : NF (consTok c x) := by
  cases x with
  | error e => intro e' he; cases he; exact h e rfl
  | ok p => intro e' he; cases p; cases he

theorem numScan_nf : ∀ (s : Str) (st : NState), NF (numScan st s)
  | [], st => by
    rw [numScan]; split
    · intro e he; cases he; simp
    · exact NF.ok _
  | c :: r, st => by
    rw [numScan]; split
    · exact consTok_nf (numScan_nf r _)
    · exact NF.ok _
    · intro e he; cases he; simp

theorem numScan_len : ∀ (s : Str) (st : NState) (t r : Str), numScan st s = .ok (t, r) →
    t.length + r.length = s.length
  | [], st, t, r, h => by
    rw [numScan] at h; split at h
    · cases h
    · cases h; rfl
  | c :: s, st, t, r, h => by
    rw [numScan] at h; split at h
    · next st' _ =>
      cases hx : numScan st' s with
      | error e => rw [hx] at h; cases h
      | ok p =>
        obtain ⟨t', r'⟩ := p
        rw [hx] at h
        simp only [consTok, Except.ok.injEq, Prod.mk.injEq] at h
        obtain ⟨rfl, rfl⟩ := h
        have := numScan_len s _ t' r' hx
        simp; omega
    · cases h; simp
    · cases h

theorem lexNumber_nf (s : Str) : NF (lexNumber s) := by
  unfold lexNumber
  split
  · next e h => intro e' he; cases he; exact numScan_nf s _ e h
  · exact NF.ok _
  · split
    · intro e he; cases he; simp
    · exact NF.ok _

theorem lexNumber_len {s t r : Str} (h : lexNumber s = .ok (some (t, r))) : r.length < s.length := by
  unfold lexNumber at h
  split at h
  · cases h
  · cases h
  · next c t' r' hs =>
    split at h
    · cases h
    · cases h
      have := numScan_len s _ _ _ hs
      simp at this; omega

/-! strings -/

theorem consStr_nf {c : Nat} {x : Except Err (Str × Str)} (h : NF x) : NF (consStr c x) := by
  cases x with
  | error e => intro e' he; cases he; exact h e rfl
  | ok p => intro e' he; cases p; cases he

theorem lexStrBody_nf (s : Str) : NF (lexStrBody s) := by
  fun_induction lexStrBody s <;> first
    | (intro e he; cases he; simp)
    | (apply consStr_nf; assumption)
    | exact NF.ok _

/-- remaining input after the string body is shorter by at least `k` when the
    recursive call's is -/
theorem consStr_len {c : Nat} {x : Except Err (Str × Str)} {n : Nat}
    (h : ∀ t r, x = .ok (t, r) → r.length < n) : ∀ t r, consStr c x = .ok (t, r) → r.length < n := by
  intro t r he
  cases x with
  | error e => cases he
  | ok p => obtain ⟨t', r'⟩ := p; cases he; exact h _ _ rfl

theorem lexStrBody_len (s : Str) : ∀ t r, lexStrBody s = .ok (t, r) → r.length < s.length := by
  fun_induction lexStrBody s <;> intro t r h
  all_goals first
    | (cases h; done)
    | (cases h; simp; done)
    | (rename_i ih; have := consStr_len (n := _) ih t r h; simp at this ⊢; omega)

theorem lexString_nf (s : Str) : NF (lexString s) := by
  unfold lexString
  split
  · split
    · exact NF.ok _
    · next e h => intro e' he; cases he; exact lexStrBody_nf _ e h
  · exact NF.ok _

theorem lexString_len {s t r : Str} (h : lexString s = .ok (some (t, r))) : r.length < s.length := by
  unfold lexString at h
  split at h
  · next r0 =>
    split at h
    · next p hp =>
      cases h
      have := lexStrBody_len r0 _ _ hp
      simp; omega
    · cases h
  · cases h

theorem lexKeyColon_nf (s : Str) : NF (lexKeyColon s) := by
  unfold lexKeyColon
  split
  · next e h => intro e' he; cases he; exact lexString_nf s e h
  · intro e he; cases he; simp
  · split
    · exact NF.ok _
    · intro e he; cases he; simp

theorem lexKeyColon_len {s k r : Str} (h : lexKeyColon s = .ok (k, r)) : r.length < s.length := by
  unfold lexKeyColon at h
  split at h
  · cases h
  · cases h
  · next k' r0 hs =>
    have h1 := lexString_len hs
    split at h
    · next r1 hsk =>
      cases h
      have h2 := skipSpaces_len r0
      have h3 := skipSpaces_len r1
      rw [hsk] at h2
      simp at h2; omega
    · cases h

theorem stripPrefix_len : ∀ (p s r : Str), stripPrefix p s = some r → r.length + p.length = s.length
  | [], s, r, h => by rw [stripPrefix] at h; cases h; rfl
  | _ :: _, [], r, h => by rw [stripPrefix] at h; cases h
  | a :: p, c :: s, r, h => by
    rw [stripPrefix] at h
    split at h
    · have := stripPrefix_len p s r h; simp; omega
    · cases h

/-! the outer loop -/

theorem startValue_nf (s : Str) : NF (startValue s) := by
  unfold startValue
  split; · exact NF.ok _
  split; · exact NF.ok _
  split; · exact NF.ok _
  split
  · next e h => intro e' he; cases he; exact lexNumber_nf s e h
  · exact NF.ok _
  split
  · next e h => intro e' he; cases he; exact lexString_nf s e h
  · exact NF.ok _
  split
  · split
    · exact NF.ok _
    · exact NF.ok _
  · split
    · exact NF.ok _
    · split
      · next e h => intro e' he; cases he; exact lexKeyColon_nf _ e h
      · exact NF.ok _
  · intro e he; cases he; simp

theorem startValue_len {s : Str} :
    (∀ v r, startValue s = .ok (.value v r) → r.length < s.length) ∧
    (∀ f r, startValue s = .ok (.push f r) → r.length < s.length) := by
  have key : ∀ st : Start, startValue s = .ok st →
      (match st with | .value _ r => r.length < s.length | .push _ r => r.length < s.length) := by
    intro st h
    unfold startValue at h
    split at h
    · next r hp =>
      cases h
      have := stripPrefix_len _ _ _ hp
      have := skipSpaces_len r
      simp [sNull] at *; omega
    split at h
    · next r hp =>
      cases h
      have := stripPrefix_len _ _ _ hp
      have := skipSpaces_len r
      simp [sFalse] at *; omega
    split at h
    · next r hp =>
      cases h
      have := stripPrefix_len _ _ _ hp
      have := skipSpaces_len r
      simp [sTrue] at *; omega
    split at h
    · cases h
    · next t r hl =>
      cases h
      have := lexNumber_len hl
      have := skipSpaces_len r
      simp; omega
    split at h
    · cases h
    · next t r hl =>
      cases h
      have := lexString_len hl
      have := skipSpaces_len r
      simp; omega
    split at h
    · next r0 _ _ _ _ _ =>
      have h0 := skipSpaces_len r0
      split at h
      · next r' hsk =>
        cases h
        have := skipSpaces_len r'
        rw [hsk] at h0
        simp at h0 ⊢; omega
      · cases h; simp; omega
    · next r0 _ _ _ _ _ =>
      have h0 := skipSpaces_len r0
      split at h
      · next r' hsk =>
        cases h
        have := skipSpaces_len r'
        rw [hsk] at h0
        simp at h0 ⊢; omega
      · split at h
        · cases h
        · next k r'' hk =>
          cases h
          have := lexKeyColon_len hk
          simp; omega
    · cases h
  exact ⟨fun v r h => key _ h, fun f r h => key _ h⟩

theorem unwind_nf : ∀ (st : List Frame) (v : JVal) (r : Str), NF (unwind v st r)
  | [], v, r => by
    rw [unwind]; split
    · exact NF.ok _
    · intro e he; cases he; simp
  | .arr items :: st, v, r => by
    rw [unwind.eq_def]; simp only []
    split
    · exact unwind_nf st _ _
    · exact NF.ok _
    · intro e he; cases he; simp
  | .obj fields key :: st, v, r => by
    rw [unwind.eq_def]; simp only []
    split
    · intro e he; cases he; simp
    · split
      · exact unwind_nf st _ _
      · split
        · next e h => intro e' he; cases he; exact lexKeyColon_nf _ e h
        · exact NF.ok _
      · intro e he; cases he; simp

theorem unwind_len : ∀ (st : List Frame) (v : JVal) (r : Str) (st' : List Frame) (r' : Str),
    unwind v st r = .ok (.more st' r') → r'.length < r.length
  | [], v, r, st', r', h => by
    rw [unwind] at h; split at h <;> cases h
  | .arr items :: st, v, r, st', r', h => by
    rw [unwind.eq_def] at h; simp only [] at h
    split at h
    · next r0 =>
      have := unwind_len st _ _ _ _ h
      have := skipSpaces_len r0
      simp; omega
    · next r0 =>
      cases h
      have := skipSpaces_len r0
      simp; omega
    · cases h
  | .obj fields key :: st, v, r, st', r', h => by
    rw [unwind.eq_def] at h; simp only [] at h
    split at h
    · cases h
    · split at h
      · next r0 =>
        have := unwind_len st _ _ _ _ h
        have := skipSpaces_len r0
        simp; omega
      · next r0 =>
        split at h
        · cases h
        · next k r1 hk =>
          cases h
          have := lexKeyColon_len hk
          have := skipSpaces_len r0
          simp; omega
      · cases h

theorem run_nf : ∀ (n : Nat) (st : List Frame) (rem : Str), rem.length < n → NF (run n st rem)
  | 0, _, _, h => by omega
  | n + 1, st, rem, h => by
    rw [run]
    split
    · next e he => intro e' h'; cases h'; exact startValue_nf rem e he
    · next f r hs =>
      have := startValue_len.2 f r hs
      exact run_nf n _ _ (by omega)
    · next v r hs =>
      have h1 := startValue_len.1 v r hs
      split
      · next e he => intro e' h'; cases h'; exact unwind_nf st v r e he
      · exact NF.ok _
      · next st' r' hu =>
        have := unwind_len st v r st' r' hu
        exact run_nf n _ _ (by omega)

/-- `Err.fuel` is not an outcome of `parseJson`. -/
theorem parseJson_nf (s : Str) : parseJson s ≠ .error .fuel := by
  intro h
  have := run_nf (s.length + 1) [] (skipSpaces s) (by have := skipSpaces_len s; omega)
  exact this _ h rfl

end Rsj.Json
