/-
  Helper lemmas for property C06 (numbers): the gate, the per-step gate of `std.sum`,
  64-bit wrapping, and finiteness of every producer of `RsjModel/Num.lean`.
-/
import RsjModel.Num
namespace Rsj.Num

theorem wrapI64_lo (x : Int) : -(2 ^ 64) ≤ wrapI64 x := by
  unfold wrapI64 TWO63 TWO64; omega
theorem wrapI64_hi (x : Int) : wrapI64 x ≤ 2 ^ 64 := by
  unfold wrapI64 TWO63 TWO64; omega

variable {F : Type} (alg : FloatAlg F)

theorem gate_ok {x r : F} (h : gate alg x = .ok r) : Finite alg r := by
  unfold gate at h
  split at h
  · cases h
  · split at h
    · cases h
    · cases h
      constructor <;> simp_all

theorem finiteCheck_ok {x r : F} (h : finiteCheck alg x = .ok r) : Finite alg r := by
  unfold finiteCheck at h
  split at h
  · cases h
    rename_i hc
    simp only [Bool.and_eq_true, Bool.not_eq_true'] at hc
    exact hc
  · cases h

theorem ofInt_wrap (hl : Lawful alg) (x : Int) : Finite alg (alg.ofInt (wrapI64 x)) :=
  hl.ofInt_finite _ (wrapI64_lo x) (wrapI64_hi x)

theorem sumLoop_finite {acc : F} {xs : List F} {r : F} (ha : Finite alg acc)
    (h : sumLoop alg acc xs = .ok r) : Finite alg r := by
  induction xs generalizing acc with
  | nil => unfold sumLoop at h; cases h; exact ha
  | cons x xs ih =>
    unfold sumLoop at h
    split at h
    · cases h
    · next s hs => exact ih (gate_ok alg hs) h

theorem parseNumRadix_ok {radix : Nat} {s : List Char} {r : F}
    (h : parseNumRadix alg radix s = .ok r) : Finite alg r := by
  unfold parseNumRadix at h
  split at h
  · cases h
  · dsimp only at h
    split at h
    · cases h
    · split at h
      · cases h
      · exact finiteCheck_ok alg h

theorem producers_finite (hl : Lawful alg) (p : Producer) (args : List F)
    (hfin : ∀ x ∈ args, Finite alg x) (r : F) (h : run alg p args = .ok r) : Finite alg r := by
  have zero_fin : Finite alg (alg.ofInt 0) := hl.ofInt_finite 0 (by omega) (by omega)
  have one_fin : Finite alg (alg.ofInt 1) := hl.ofInt_finite 1 (by omega) (by omega)
  have fu : ∀ n : Nat, Finite alg (alg.ofInt (fromU64 n)) := fun n => ofInt_wrap alg hl _
  unfold run at h
  split at h
  case h_4 | h_5 | h_6 | h_7 =>
    split at h
    · cases h
    · exact gate_ok alg h
  case h_8 =>
    split at h
    · cases h
    · split at h
      · cases h
      · split at h
        · cases h
        · dsimp only at h
          split at h
          · cases h
          · cases h; exact ofInt_wrap alg hl _
  case h_9 =>
    split at h
    · cases h
    · split at h
      · cases h
      · split at h
        · cases h
        · cases h; exact ofInt_wrap alg hl _
  case h_10 | h_11 | h_12 =>
    split at h
    · cases h; exact fu _
    · cases h
    · cases h
  case h_15 =>
    split at h
    · cases h
    · cases h; exact ofInt_wrap alg hl _
  case h_35 =>
    cases h
    rename_i x
    have := hl.exponent_i16 x
    exact hl.ofInt_finite _ (by omega) (by omega)
  case h_37 =>
    split at h
    · cases h
    · split at h
      · cases h
      · next s hs =>
        split at h
        · next hlen =>
          cases h
          refine hl.div_count_finite _ _ (sumLoop_finite alg zero_fin hs) ?_ hlen
          simp only [List.length_cons]; omega
        · cases h
  case h_38 =>
    split at h
    · cases h; exact hfin _ (by simp)
    · cases h; exact hl.neg_finite _ (hfin _ (by simp))
  case h_39 =>
    split at h
    · cases h; exact one_fin
    · split at h
      · cases h; exact hl.neg_finite _ one_fin
      · cases h; exact zero_fin
  case h_40 | h_41 =>
    split at h <;> (cases h; exact hfin _ (by simp))
  case h_42 =>
    split at h
    · cases h; exact hfin _ (by simp)
    · split at h <;> (cases h; exact hfin _ (by simp))
  case h_43 =>
    split at h
    · cases h
    · next y hy => cases h; exact hl.floor_finite _ (gate_ok alg hy)
  case h_44 =>
    split at h
    · next hb => cases h; exact hl.ofInt_finite _ hb.1 hb.2
    · cases h
  case h_49 => cases h
  all_goals first
    | exact gate_ok alg h
    | exact finiteCheck_ok alg h
    | exact parseNumRadix_ok alg h
    | exact sumLoop_finite alg zero_fin h
    | (cases h; first
        | exact hl.pi_finite
        | exact hfin _ (List.mem_singleton.mpr rfl)
        | exact hl.neg_finite _ (hfin _ (List.mem_singleton.mpr rfl))
        | exact hl.floor_finite _ (hfin _ (List.mem_singleton.mpr rfl))
        | exact hl.ceil_finite _ (hfin _ (List.mem_singleton.mpr rfl))
        | exact hl.mantissa_finite _ (hfin _ (List.mem_singleton.mpr rfl)))

/-- `producerOfName` is the inverse of `Producer.name` on parameterless producers. -/
theorem producerOfName_some {s : String} {p : Producer} (h : producerOfName s = some p) :
    s = p.name := by
  unfold producerOfName at h
  split at h <;> first | (cases h; rfl) | cases h

/-- Producers that the model gates on their final value yield finite values for *any*
    operands and without any law of the algebra (`std.sum`: for a non-empty array). -/
theorem gated_unconditional (p : Producer) (hp : p.name ∈ siteGated) (args : List F)
    (hs : p = .sum → args ≠ []) (r : F) (h : run alg p args = .ok r) : Finite alg r := by
  unfold run at h
  split at h
  case h_4 | h_5 | h_6 | h_7 =>
    split at h
    · cases h
    · exact gate_ok alg h
  case h_36 =>
    -- sum: the array is not empty, the last step of the loop is gated
    cases args with
    | nil => exact absurd rfl (hs rfl)
    | cons x xs =>
      unfold sumLoop at h
      split at h
      · cases h
      · next s hs' => exact sumLoop_finite alg (gate_ok alg hs') h
  all_goals first
    | exact gate_ok alg h
    | (cases h; done)
    | (exfalso; simp [Producer.name, siteGated] at hp; done)

end Rsj.Num
