/-
  C15: the parser model never ends in one of its `Fault` outcomes (the transcribed Rust panic sites
  and the model's own fuel bound) on a token list that ends in its only end-of-file token.
  Part 1: the predicate `NF m Q` ("`m` is not a fault, and if it succeeds `Q` holds"), the
  token-eating primitives, and the helper functions up to `parse_obj_inside`.

  Fuel: every inner loop is entered with more fuel than tokens remain (`st.rem.length < fuel`) and
  consumes a token per iteration.  Recursive calls of `parse_expr` (`pe`) happen only after a token
  of the current call was consumed (`PeNF pe N`: `pe` is fine on states with fewer than `N` tokens
  left).
-/
import RsjModel.Parser
import RsjProofs.ParserBasic
import RsjProofs.ParserRun2
namespace Rsj.Parser
variable {toks : List Token}

/-- the token list ends in an end-of-file token and has no other one -/
def EofLast (toks : List Token) : Prop :=
  ∃ body eof, toks = body ++ [eof] ∧ eof.kind = .eof ∧ ∀ t ∈ body, t.kind ≠ .eof

/-- `m` does not end in a `Fault`; if it succeeds, `Q` holds of value and state -/
def NF {α : Type} (m : Except (Err toks) (α × PState toks)) (Q : α → PState toks → Prop) : Prop :=
  match m with
  | .ok (a, s) => Q a s
  | .error (.expected _) => True
  | .error (.fault _) => False

theorem NF.pure {α : Type} {a : α} {s : PState toks} {Q : α → PState toks → Prop} (h : Q a s) :
    NF (Pure.pure (a, s) : Except (Err toks) (α × PState toks)) Q := h

theorem NF.ok {α : Type} {a : α} {s : PState toks} {Q : α → PState toks → Prop} (h : Q a s) :
    NF (Except.ok (a, s) : Except (Err toks) (α × PState toks)) Q := h

theorem NF.expected {α : Type} {s : PState toks} {Q : α → PState toks → Prop} :
    NF (reportExpected s : Except (Err toks) (α × PState toks)) Q := trivial

theorem NF.bind {α β : Type} {m : Except (Err toks) (α × PState toks)}
    {f : α × PState toks → Except (Err toks) (β × PState toks)}
    {P : α → PState toks → Prop} {Q : β → PState toks → Prop}
    (hm : NF m P) (hf : ∀ a s, P a s → NF (f (a, s)) Q) : NF (m >>= f) Q := by
  cases m with
  | error e =>
    cases e with
    | expected s => exact trivial
    | fault f => exact False.elim hm
  | ok x =>
    obtain ⟨a, s⟩ := x
    exact hf a s hm

theorem NF.mono {α : Type} {m : Except (Err toks) (α × PState toks)}
    {P Q : α → PState toks → Prop} (hm : NF m P) (h : ∀ a s, P a s → Q a s) : NF m Q := by
  cases m with
  | error e =>
    cases e with
    | expected s => exact trivial
    | fault f => exact False.elim hm
  | ok x =>
    obtain ⟨a, s⟩ := x
    exact h a s hm

/-- what `NF` says of the outcome -/
theorem NF.cases {α : Type} {m : Except (Err toks) (α × PState toks)} {Q : α → PState toks → Prop}
    (hm : NF m Q) : (∃ a s, m = .ok (a, s) ∧ Q a s) ∨ (∃ s, m = .error (.expected s)) := by
  cases m with
  | error e =>
    cases e with
    | expected s => exact Or.inr ⟨s, rfl⟩
    | fault f => exact False.elim hm
  | ok x =>
    obtain ⟨a, s⟩ := x
    exact Or.inl ⟨a, s, rfl, hm⟩

/-- close a goal `NF (pure …) Q` whose `Q` is arithmetic on the numbers of remaining tokens -/
macro "nf_done" : tactic =>
  `(tactic| (refine NF.pure ?_; (try dsimp only); first | omega | (refine ⟨fun _ => ?_, ?_⟩ <;> omega)))

/-- one token was consumed -/
def Adv (st st' : PState toks) : Prop := st.rem = st'.cur :: st'.rem
/-- nothing was consumed -/
def Sm (st st' : PState toks) : Prop := st'.cur = st.cur ∧ st'.rem = st.rem

theorem Adv.len {st st' : PState toks} (h : Adv st st') : st'.rem.length + 1 = st.rem.length := by
  unfold Adv at h; rw [h]; simp
theorem Sm.len {st st' : PState toks} (h : Sm st st') : st'.rem.length = st.rem.length := by rw [h.2]
theorem Sm.refl (st : PState toks) : Sm st st := ⟨rfl, rfl⟩
theorem Sm.trans {a b c : PState toks} (h1 : Sm a b) (h2 : Sm b c) : Sm a c :=
  ⟨by rw [h2.1, h1.1], by rw [h2.2, h1.2]⟩
theorem Sm.adv {a b c : PState toks} (h1 : Sm a b) (h2 : Adv b c) : Adv a c := by
  unfold Adv at *; rw [← h1.2]; exact h2
theorem sm_pushIf (st : PState toks) (add : Bool) (e : Expected) : Sm st (st.pushIf add e) := by
  unfold PState.pushIf PState.push; split <;> exact And.intro rfl rfl
theorem sm_push (st : PState toks) (e : Expected) : Sm st (st.push e) := ⟨rfl, rfl⟩

/-- result of an `eat_*` function -/
def EatP {α : Type} (st : PState toks) : Option α → PState toks → Prop
  | some _, st' => Adv st st'
  | none, st' => Sm st st'

/-- lengths only: an optional result consumed something, no result consumed nothing or less -/
def OptP {α : Type} (st : PState toks) (r : Option α) (st' : PState toks) : Prop :=
  (r.isSome = true → st'.rem.length < st.rem.length) ∧ st'.rem.length ≤ st.rem.length

theorem EatP.opt {α : Type} {st st' : PState toks} {r : Option α} (h : EatP st r st') : OptP st r st' := by
  cases r with
  | some a => have := Adv.len h; exact ⟨fun _ => by omega, by omega⟩
  | none =>
    have := Sm.len h
    refine ⟨fun h' => ?_, by omega⟩
    cases h'

section
variable (hE : EofLast toks)
include hE

/-- the current token is the last one exactly when it is the end-of-file token -/
theorem rem_nil_iff (st : PState toks) : st.rem = [] ↔ st.cur.kind = .eof := by
  obtain ⟨body, eof, htoks, hk, hb⟩ := hE
  obtain ⟨pre, hpre0⟩ := st.suffix
  have hpre : pre ++ st.cur :: st.rem = body ++ [eof] := hpre0.trans htoks
  constructor
  · intro hr
    rw [hr] at hpre
    have : pre ++ [st.cur] = body ++ [eof] := hpre
    have h2 := List.append_inj' this rfl
    have : st.cur = eof := by simpa using h2.2
    rw [this]; exact hk
  · intro hc
    cases hrem : st.rem with
    | nil => rfl
    | cons r rs =>
      exfalso
      rw [hrem] at hpre
      -- `cur` is in `body`
      have hne : r :: rs ≠ [] := by simp
      have hsplit : r :: rs = (r :: rs).dropLast ++ [(r :: rs).getLast hne] :=
        (List.dropLast_concat_getLast hne).symm
      rw [hsplit] at hpre
      have : (pre ++ st.cur :: (r :: rs).dropLast) ++ [(r :: rs).getLast hne] = body ++ [eof] := by
        rw [← hpre]; simp
      have h2 := List.append_inj' this rfl
      have hmem : st.cur ∈ body := by rw [← h2.1]; simp
      exact hb _ hmem hc

theorem advance_nf {st : PState toks} (h : st.cur.kind ≠ .eof) :
    ∃ st', st.advance = .ok st' ∧ Adv st st' := by
  have hr : st.rem ≠ [] := fun h0 => h ((rem_nil_iff hE st).1 h0)
  cases hadv : st.advance with
  | ok st' => exact ⟨st', rfl, (advance_spec hadv).1⟩
  | error e =>
    exfalso
    unfold PState.advance at hadv
    split at hadv
    · next h0 => exact hr h0
    · cases hadv

theorem nf_eatSimple (k : STok) (add : Bool) (st : PState toks) :
    NF (eatSimple k add st) (fun r st' => EatP st r st' ∧ (st.cur.kind = .simple k → r.isSome = true)) := by
  unfold eatSimple
  split
  · next hk =>
    obtain ⟨st', hadv, ha⟩ := advance_nf hE (st := st) (by rw [hk]; simp)
    rw [hadv]
    exact NF.ok ⟨ha, fun _ => rfl⟩
  · next hk => exact NF.ok ⟨sm_pushIf st add _, fun h => absurd h hk⟩

theorem nf_expectSimple (k : STok) (add : Bool) (st : PState toks) :
    NF (expectSimple k add st) (fun _ st' => Adv st st') := by
  unfold expectSimple
  refine NF.bind (nf_eatSimple hE k add st) ?_
  intro r s h
  cases r with
  | some sp => exact NF.pure h.1
  | none => exact NF.expected

theorem nf_eatIdent (add : Bool) (st : PState toks) :
    NF (eatIdent add st) (fun r st' => EatP st r st' ∧ (st.cur.kind.isIdent = true → r.isSome = true)) := by
  unfold eatIdent
  split
  · next v hk =>
    obtain ⟨st', hadv, ha⟩ := advance_nf hE (st := st) (by rw [hk]; simp)
    rw [hadv]
    exact NF.ok ⟨ha, fun _ => rfl⟩
  · next hk =>
    refine NF.ok ⟨sm_pushIf st add _, fun h => ?_⟩
    cases hc : st.cur.kind with
    | ident v => exact absurd hc (hk v)
    | _ => rw [hc] at h; cases h

theorem nf_expectIdent (add : Bool) (st : PState toks) :
    NF (expectIdent add st) (fun _ st' => Adv st st') := by
  unfold expectIdent
  refine NF.bind (nf_eatIdent hE add st) ?_
  intro r s h
  cases r with
  | some sp => exact NF.pure h.1
  | none => exact NF.expected

theorem nf_eatNumber (add : Bool) (st : PState toks) : NF (eatNumber add st) (EatP st) := by
  unfold eatNumber
  split
  · next v hk =>
    obtain ⟨st', hadv, ha⟩ := advance_nf hE (st := st) (by rw [hk]; simp)
    rw [hadv]
    exact NF.ok ha
  · exact NF.ok (sm_pushIf st add _)

theorem nf_eatString (add : Bool) (st : PState toks) : NF (eatString add st) (EatP st) := by
  unfold eatString
  split
  · next v hk =>
    obtain ⟨st', hadv, ha⟩ := advance_nf hE (st := st) (by rw [hk]; simp)
    rw [hadv]
    exact NF.ok ha
  · exact NF.ok (sm_pushIf st add _)

theorem nf_eatTextBlock (add : Bool) (st : PState toks) : NF (eatTextBlock add st) (EatP st) := by
  unfold eatTextBlock
  split
  · next v hk =>
    obtain ⟨st', hadv, ha⟩ := advance_nf hE (st := st) (by rw [hk]; simp)
    rw [hadv]
    exact NF.ok ha
  · exact NF.ok (sm_pushIf st add _)

theorem nf_eatFirst {α : Type} (add : Bool) : ∀ (l : List (STok × α)) (st : PState toks),
    NF (eatFirst add l st) (EatP st)
  | [], st => NF.ok (Sm.refl st)
  | (k, a) :: rest, st => by
    unfold eatFirst
    refine NF.bind (nf_eatSimple hE k add st) ?_
    intro r s h
    cases r with
    | some sp => exact NF.pure h.1
    | none =>
      dsimp only
      refine NF.mono (nf_eatFirst add rest s) ?_
      intro r2 s2 h2
      cases r2 with
      | some p => exact Sm.adv h.1 h2
      | none => exact Sm.trans h.1 h2

theorem nf_eatVisibility (add : Bool) (st : PState toks) : NF (eatVisibility add st) (EatP st) := by
  unfold eatVisibility
  refine NF.bind (nf_eatFirst hE add _ st) ?_
  intro r s h
  cases r with
  | some p => exact NF.pure h
  | none => exact NF.pure h

theorem nf_eatPlusVisibility (add : Bool) (st : PState toks) : NF (eatPlusVisibility add st) (EatP st) := by
  unfold eatPlusVisibility
  refine NF.bind (nf_eatFirst hE add _ st) ?_
  intro r s h
  cases r with
  | some p => exact NF.pure h
  | none => exact NF.pure h

/-- `pe` (the recursive `parse_expr`) is fine on states with fewer than `N` tokens after the
    current one, and consumes at least one token -/
def PeNF (pe : PState toks → Except (Err toks) (Expr × PState toks)) (N : Nat) : Prop :=
  ∀ st, st.rem.length < N → NF (pe st) (fun _ st' => st'.rem.length < st.rem.length)

variable {pe : PState toks → Except (Err toks) (Expr × PState toks)} {N : Nat} (hpe : PeNF pe N)
include hpe

theorem nf_paramsLoop : ∀ (fuel : Nat) (acc : List Param) (st : PState toks),
    st.rem.length < fuel → st.rem.length ≤ N →
    NF (paramsLoop pe fuel acc st) (fun _ st' => st'.rem.length < st.rem.length) := by
  intro fuel
  induction fuel with
  | zero => intro acc st hf _; omega
  | succ fuel ih =>
    intro acc st hf hN
    unfold paramsLoop
    refine NF.bind (nf_expectIdent hE true st) ?_
    intro name st1 h1
    have l1 := h1.len
    dsimp only
    refine NF.bind (nf_eatSimple hE .Eq true st1) ?_
    intro eq st2 h2
    have l2 := h2.1.opt.2
    dsimp only
    refine NF.bind (P := fun _ st3 => st3.rem.length ≤ st2.rem.length) ?_ ?_
    · cases eq with
      | some sp =>
        dsimp only
        refine NF.bind (hpe st2 (by omega)) ?_
        intro d st3 h3
        nf_done
      | none => exact NF.pure (Nat.le_refl _)
    · intro dflt st3 l3
      dsimp only
      refine NF.bind (nf_eatSimple hE .RightParen true st3) ?_
      intro r st4 h4
      have l4 := h4.1.opt.2
      cases r with
      | some endSp => nf_done
      | none =>
        dsimp only
        refine NF.bind (nf_eatSimple hE .Comma true st4) ?_
        intro c st5 h5
        have l5 := h5.1.opt.2
        cases c with
        | none => exact NF.expected
        | some _ =>
          dsimp only
          refine NF.bind (nf_eatSimple hE .RightParen true st5) ?_
          intro r2 st6 h6
          have l6 := h6.1.opt.2
          cases r2 with
          | some endSp => nf_done
          | none =>
            dsimp only
            refine NF.mono (ih _ st6 (by omega) (by omega)) ?_
            intro _ s hs
            omega

theorem nf_parseParams (fuel : Nat) (st : PState toks) (hf : st.rem.length < fuel) (hN : st.rem.length ≤ N) :
    NF (parseParams pe fuel st) (fun _ st' => st'.rem.length < st.rem.length) := by
  unfold parseParams
  refine NF.bind (nf_eatSimple hE .RightParen true st) ?_
  intro r st1 h1
  cases r with
  | some endSp => have := h1.1.len; nf_done
  | none =>
    have := Sm.len h1.1
    dsimp only
    refine NF.mono (nf_paramsLoop hE hpe fuel [] st1 (by omega) (by omega)) ?_
    intro _ s hs
    omega

theorem nf_parseArg (st : PState toks) (hN : st.rem.length < N) :
    NF (parseArg pe st) (fun _ st' => st'.rem.length < st.rem.length) := by
  unfold parseArg
  split
  · next hpk =>
    simp only [Bool.and_eq_true] at hpk
    obtain ⟨hp0, hp1⟩ := hpk
    refine NF.bind (nf_eatIdent hE false st) ?_
    intro name st1 h1
    have hsome := h1.2 (by simpa [peekIdent] using hp0)
    cases name with
    | none => cases hsome
    | some name =>
      dsimp only
      have ha : Adv st st1 := h1.1
      -- the token after the identifier is `=`
      have hc1 : st1.cur.kind = .simple .Eq := by
        unfold peekSimple at hp1
        unfold Adv at ha
        rw [ha] at hp1
        simpa using hp1
      refine NF.bind (nf_eatSimple hE .Eq false st1) ?_
      intro eq st2 h2
      have hsome2 := h2.2 hc1
      cases eq with
      | none => cases hsome2
      | some _ =>
        dsimp only
        have l1 := ha.len
        have l2 := Adv.len h2.1
        refine NF.bind (hpe st2 (by omega)) ?_
        intro v st3 h3
        nf_done
  · refine NF.bind (hpe st hN) ?_
    intro v st1 h1
    exact NF.pure h1

theorem nf_argsLoop : ∀ (fuel : Nat) (acc : List Arg) (st : PState toks),
    st.rem.length < fuel → st.rem.length < N →
    NF (argsLoop pe fuel acc st) (fun _ st' => st'.rem.length < st.rem.length) := by
  intro fuel
  induction fuel with
  | zero => intro acc st hf _; omega
  | succ fuel ih =>
    intro acc st hf hN
    unfold argsLoop
    refine NF.bind (nf_parseArg hE hpe st hN) ?_
    intro a st1 l1
    dsimp only
    refine NF.bind (nf_eatSimple hE .RightParen true st1) ?_
    intro r st2 h2
    have l2 := h2.1.opt.2
    cases r with
    | some endSp => nf_done
    | none =>
      dsimp only
      refine NF.bind (nf_eatSimple hE .Comma true st2) ?_
      intro c st3 h3
      have l3 := h3.1.opt.2
      cases c with
      | none => exact NF.expected
      | some _ =>
        dsimp only
        refine NF.bind (nf_eatSimple hE .RightParen true st3) ?_
        intro r2 st4 h4
        have l4 := h4.1.opt.2
        cases r2 with
        | some endSp => nf_done
        | none =>
          dsimp only
          refine NF.mono (ih _ st4 (by omega) (by omega)) ?_
          intro _ s hs
          omega

theorem nf_parseArgs (fuel : Nat) (st : PState toks) (hf : st.rem.length < fuel) (hN : st.rem.length < N) :
    NF (parseArgs pe fuel st) (fun _ st' => st'.rem.length < st.rem.length) := by
  unfold parseArgs
  refine NF.bind (nf_eatSimple hE .RightParen true st) ?_
  intro r st1 h1
  cases r with
  | some endSp => have := h1.1.len; nf_done
  | none =>
    have := Sm.len h1.1
    dsimp only
    refine NF.mono (nf_argsLoop hE hpe fuel [] st1 (by omega) (by omega)) ?_
    intro _ s hs
    omega

theorem nf_maybeParseAssert (add : Bool) (st : PState toks) (hN : st.rem.length ≤ N) :
    NF (maybeParseAssert pe add st) (OptP st) := by
  unfold maybeParseAssert
  refine NF.bind (nf_eatSimple hE .Assert add st) ?_
  intro r st1 h1
  cases r with
  | none => exact NF.pure h1.1.opt
  | some startSp =>
    have l1 := Adv.len h1.1
    dsimp only
    refine NF.bind (hpe st1 (by omega)) ?_
    intro cond st2 l2
    dsimp only
    refine NF.bind (nf_eatSimple hE .Colon true st2) ?_
    intro c st3 h3
    have l3 := h3.1.opt.2
    cases c with
    | some _ =>
      dsimp only
      refine NF.bind (hpe st3 (by omega)) ?_
      intro msg st4 l4
      nf_done
    | none => nf_done

theorem nf_parseBind (fuel : Nat) (st : PState toks) (hf : st.rem.length < fuel) (hN : st.rem.length ≤ N) :
    NF (parseBind pe fuel st) (fun _ st' => st'.rem.length < st.rem.length) := by
  unfold parseBind
  refine NF.bind (nf_expectIdent hE true st) ?_
  intro name st1 h1
  have l1 := h1.len
  dsimp only
  refine NF.bind (nf_eatSimple hE .LeftParen true st1) ?_
  intro lp st2 h2
  have l2 := h2.1.opt.2
  cases lp with
  | some startSp =>
    dsimp only
    refine NF.bind (nf_parseParams hE hpe fuel st2 (by omega) (by omega)) ?_
    intro r st3 l3
    obtain ⟨params, endSp⟩ := r
    dsimp only
    refine NF.bind (nf_expectSimple hE .Eq true st3) ?_
    intro _ st4 h4
    have l4 := h4.len
    dsimp only
    refine NF.bind (hpe st4 (by omega)) ?_
    intro v st5 l5
    nf_done
  | none =>
    dsimp only
    refine NF.bind (nf_expectSimple hE .Eq true st2) ?_
    intro _ st3 h3
    have l3 := h3.len
    dsimp only
    refine NF.bind (hpe st3 (by omega)) ?_
    intro v st4 l4
    nf_done

theorem nf_maybeParseObjLocal (fuel : Nat) (st : PState toks) (hf : st.rem.length ≤ fuel)
    (hN : st.rem.length ≤ N) : NF (maybeParseObjLocal pe fuel st) (OptP st) := by
  unfold maybeParseObjLocal
  refine NF.bind (nf_eatSimple hE .Local true st) ?_
  intro r st1 h1
  cases r with
  | none => exact NF.pure h1.1.opt
  | some _ =>
    have l1 := Adv.len h1.1
    dsimp only
    refine NF.bind (nf_parseBind hE hpe fuel st1 (by omega) (by omega)) ?_
    intro b st2 l2
    nf_done

theorem nf_maybeParseForSpec (st : PState toks) (hN : st.rem.length ≤ N) :
    NF (maybeParseForSpec pe st) (OptP st) := by
  unfold maybeParseForSpec
  refine NF.bind (nf_eatSimple hE .For true st) ?_
  intro r st1 h1
  cases r with
  | none => exact NF.pure h1.1.opt
  | some _ =>
    have l1 := Adv.len h1.1
    dsimp only
    refine NF.bind (nf_expectIdent hE true st1) ?_
    intro v st2 h2
    have l2 := h2.len
    dsimp only
    refine NF.bind (nf_expectSimple hE .In true st2) ?_
    intro _ st3 h3
    have l3 := h3.len
    dsimp only
    refine NF.bind (hpe st3 (by omega)) ?_
    intro inner st4 l4
    nf_done

theorem nf_maybeParseIfSpec (st : PState toks) (hN : st.rem.length ≤ N) :
    NF (maybeParseIfSpec pe st) (OptP st) := by
  unfold maybeParseIfSpec
  refine NF.bind (nf_eatSimple hE .If true st) ?_
  intro r st1 h1
  cases r with
  | none => exact NF.pure h1.1.opt
  | some _ =>
    have l1 := Adv.len h1.1
    dsimp only
    refine NF.bind (hpe st1 (by omega)) ?_
    intro c st2 l2
    nf_done

theorem nf_compSpecLoop : ∀ (fuel : Nat) (acc : List CompSpec) (st : PState toks),
    st.rem.length < fuel → st.rem.length ≤ N →
    NF (compSpecLoop pe fuel acc st) (fun _ st' => st'.rem.length ≤ st.rem.length) := by
  intro fuel
  induction fuel with
  | zero => intro acc st hf _; omega
  | succ fuel ih =>
    intro acc st hf hN
    unfold compSpecLoop
    refine NF.bind (nf_maybeParseForSpec hE hpe st hN) ?_
    intro f st1 h1
    cases f with
    | some s =>
      have l1 := h1.1 rfl
      dsimp only
      refine NF.mono (ih _ st1 (by omega) (by omega)) ?_
      intro _ s hs
      omega
    | none =>
      have l1 := h1.2
      dsimp only
      refine NF.bind (nf_maybeParseIfSpec hE hpe st1 (by omega)) ?_
      intro i st2 h2
      cases i with
      | some s =>
        have l2 := h2.1 rfl
        dsimp only
        refine NF.mono (ih _ st2 (by omega) (by omega)) ?_
        intro _ s hs
        omega
      | none => have l2 := h2.2; nf_done

theorem nf_maybeParseCompSpec (fuel : Nat) (st : PState toks) (hf : st.rem.length ≤ fuel)
    (hN : st.rem.length ≤ N) : NF (maybeParseCompSpec pe fuel st) (OptP st) := by
  unfold maybeParseCompSpec
  refine NF.bind (nf_maybeParseForSpec hE hpe st hN) ?_
  intro f st1 h1
  cases f with
  | none => exact NF.pure h1
  | some s =>
    have l1 := h1.1 rfl
    dsimp only
    refine NF.bind (nf_compSpecLoop hE hpe fuel [s] st1 (by omega) (by omega)) ?_
    intro parts st2 l2
    nf_done

theorem nf_maybeParseFieldName (st : PState toks) (hN : st.rem.length ≤ N) :
    NF (maybeParseFieldName pe st) (OptP st) := by
  unfold maybeParseFieldName
  refine NF.bind (nf_eatIdent hE true st) ?_
  intro r st1 h1
  cases r with
  | some i => exact NF.pure h1.1.opt
  | none =>
  have l1 := Sm.len h1.1
  dsimp only
  refine NF.bind (nf_eatString hE true st1) ?_
  intro r st2 h2
  cases r with
  | some p =>
    obtain ⟨s, sp⟩ := p
    have := Adv.len h2
    nf_done
  | none =>
  have l2 := Sm.len h2
  dsimp only
  refine NF.bind (nf_eatTextBlock hE true st2) ?_
  intro r st3 h3
  cases r with
  | some p =>
    obtain ⟨s, sp⟩ := p
    have := Adv.len h3
    nf_done
  | none =>
  have l3 := Sm.len h3
  dsimp only
  refine NF.bind (nf_eatSimple hE .LeftBracket true st3) ?_
  intro r st4 h4
  cases r with
  | none =>
    have l4 := Sm.len h4.1
    refine NF.pure ⟨fun h => ?_, ?_⟩
    · cases h
    · dsimp only; omega
  | some startSp =>
    have l4 := Adv.len h4.1
    dsimp only
    refine NF.bind (hpe st4 (by omega)) ?_
    intro e st5 l5
    dsimp only
    refine NF.bind (nf_expectSimple hE .RightBracket true st5) ?_
    intro endSp st6 h6
    have l6 := h6.len
    nf_done

theorem nf_maybeParseField (fuel : Nat) (st : PState toks) (hf : st.rem.length ≤ fuel)
    (hN : st.rem.length ≤ N) : NF (maybeParseField pe fuel st) (OptP st) := by
  unfold maybeParseField
  refine NF.bind (nf_maybeParseFieldName hE hpe st hN) ?_
  intro n st1 h1
  cases n with
  | none => exact NF.pure h1
  | some name =>
    have l1 := h1.1 rfl
    dsimp only
    refine NF.bind (nf_eatSimple hE .LeftParen true st1) ?_
    intro lp st2 h2
    have l2 := h2.1.opt.2
    cases lp with
    | some startSp =>
      dsimp only
      refine NF.bind (nf_parseParams hE hpe fuel st2 (by omega) (by omega)) ?_
      intro r st3 l3
      obtain ⟨params, endSp⟩ := r
      dsimp only
      refine NF.bind (nf_eatVisibility hE true st3) ?_
      intro vis st4 h4
      have l4 := h4.opt.2
      cases vis with
      | none => exact NF.expected
      | some vis =>
        dsimp only
        refine NF.bind (hpe st4 (by omega)) ?_
        intro v st5 l5
        nf_done
    | none =>
      dsimp only
      refine NF.bind (nf_eatPlusVisibility hE true st2) ?_
      intro pv st3 h3
      have l3 := h3.opt.2
      cases pv with
      | none => exact NF.expected
      | some p =>
        obtain ⟨plus, vis⟩ := p
        dsimp only
        refine NF.bind (hpe st3 (by omega)) ?_
        intro v st4 l4
        nf_done

end
end Rsj.Parser
