import RsjProofs.EvalSafeHoare
/-!
  C01 on the evaluator model: the object primitives keep every identifier in range.
-/
open Std.Do
set_option mvcgen.warning false
namespace Rsj.Eval.Safe
open Rsj.Core Rsj.Eval Rsj.Eval.Scope

theorem layer_rng {s : St} {o li : Nat} {ob : Obj} {layer : Layer} (hS : Safe s)
    (hob : s.objs[o]? = some ob) (hl : ob.layers[li]? = some layer) :
    LayerRng s.thunks.size s.envs.size layer :=
  hS.objs o ob hob layer (mem_of_getElem? hl)

theorem locals_shaped {s : St} {o li : Nat} {ob : Obj} {layer : Layer} {pref suff : List (String × Expr)}
    {cur : String × Expr} (hsplit : layer.locals = pref ++ cur :: suff) (hl : ob.layers[li]? = some layer)
    (hob : s.objs[o]? = some ob) (hS : Safe s) : CoreShaped cur.2 :=
  (layer_rng hS hob hl).2.2.1 cur (mem_of_split hsplit)

theorem layer_set_rng {nt ne : Nat} {ls : List Layer} {li : Nat} {x l : Layer} (hmem : l ∈ ls.set li x)
    (hls : ∀ l ∈ ls, LayerRng nt ne l) (hx : LayerRng nt ne x) : LayerRng nt ne l := by
  rcases List.mem_or_eq_of_mem_set hmem with h | rfl
  · exact hls l h
  · exact hx

theorem initObjectEnv_spec2 (s : St) (o : OId) (li : Nat) (b : EId) (hS : Safe s) (ho : o < s.objs.size) :
    ⦃fun st => ⌜st = s⌝⦄ initObjectEnv o li b ⦃Q2 s (fun r st => r < st.envs.size)⦄ := by
  have h1 := getObj_spec2
  have h2 := getEnv_spec2
  have h3 := allocEnv_spec2
  have h4 := newThunk_spec2
  have h5 := setEnv_spec2
  qstart2
  unfold initObjectEnv
  mvcgen [h1, h2, h3, h4, h5]
  case inv1 =>
    exact ⟨fun (cur, vars) st => ⌜Safe st ∧ Le s st ∧ s.envs.size < st.envs.size ∧
        ∀ v ∈ vars, v.2 < st.thunks.size⌝,
      fun e st => ⌜Safe st ∧ Good2 e ∧ SzLe s st⌝, fun _ => ⌜True⌝, ()⟩
  all_goals clear h1 h2 h3 h4 h5
  all_goals vcprep2
  all_goals first
    | s2close
    | exact locals_shaped (by assumption) (by assumption) (by assumption) (by assumption)
    | safe_grind

theorem layerEnv_spec2 (s : St) (o : OId) (li : Nat) (hS : Safe s) (ho : o < s.objs.size) :
    ⦃fun st => ⌜st = s⌝⦄ layerEnv o li ⦃Q2 s (fun r st => r < st.envs.size)⦄ := by
  have h1 := getObj_spec2
  have h3 := initObjectEnv_spec2
  have h4 := setObj_spec2
  qstart2
  unfold layerEnv
  mvcgen [h1, h3, h4]
  all_goals clear h1 h3 h4
  all_goals vcprep2
  all_goals first
    | s2close
    | exact layer_set_rng (by assumption) (Safe.objs (by assumption) _ _ (by assumption)) (by safe_grind)

/-- the field found by `find_field` is in range -/
theorem found_field_rng {s : St} {o : Nat} {ob : Obj} {start li : Nat} {name : String} {f : Field}
    (hfind : findField ob start name = some (li, f)) (hob : s.objs[o]? = some ob) (hS : Safe s) :
    FieldRng s.thunks.size s.envs.size f := by
  obtain ⟨layer, hl, hf⟩ := findField_some hfind
  exact (hS.layer hob hl).2.2.2.2 f hf

/-- `find_object_field_thunk` caches the thunk in the field -/
abbrev setThunkIn (name : String) (t : TId) (g : Field) : Field :=
  if g.name == name then { g with thunk := some t } else g

theorem layer_mapThunk_rng {nt ne : Nat} {layer : Layer} {name : String} {t : TId}
    (h : LayerRng nt ne layer) (ht : t < nt) :
    LayerRng nt ne { layer with fields := layer.fields.map (setThunkIn name t) } := by
  refine ⟨h.1, h.2.1, h.2.2.1, h.2.2.2.1, ?_⟩
  intro f hf
  obtain ⟨g, hg, rfl⟩ := List.mem_map.1 hf
  have hgr := h.2.2.2.2 g hg
  unfold setThunkIn
  split
  · exact ⟨hgr.1, fun u hu => by cases hu; exact ht, hgr.2.2⟩
  · exact hgr

set_option maxHeartbeats 800000 in
theorem fieldThunk_spec2 (s : St) (o : OId) (start : Nat) (name : String) (hS : Safe s) (ho : o < s.objs.size) :
    ⦃fun st => ⌜st = s⌝⦄ fieldThunk o start name
      ⦃Q2 s (fun r st => ∀ t, r = some t → t < st.thunks.size)⦄ := by
  have h1 := getObj_spec2
  have h2 := initObjectEnv_spec2
  have h3 := layerEnv_spec2
  have h4 := setObj_spec2
  have h5 := allocThunk_spec2
  qstart2
  unfold fieldThunk
  mvcgen [h1, h2, h3, h4, h5]
  all_goals clear h1 h2 h3 h4 h5
  all_goals vcprep2
  all_goals first
    | s2close
    | (have hf := found_field_rng (by assumption) (by assumption) (by assumption); safe_grind)
    | (have hf := found_field_rng (by assumption) (by assumption) (by assumption)
       exact ⟨by assumption, ⟨⟨by omega, by omega, by omega, by omega⟩, Prog.refl _⟩, hf.2.1 _ (by assumption)⟩)
    | exact layer_set_rng (by assumption) (Safe.objs (by assumption) _ _ (by assumption))
        (layer_mapThunk_rng (Safe.layer (by assumption) (by assumption) (by assumption)) (by assumption))

/-- the layer under construction: the fields added to `layer0` so far are in range -/
def LayerAcc2 (nt ne : Nat) (layer0 layer : Layer) : Prop :=
  ∃ fs : List Field, layer = { layer0 with fields := layer0.fields ++ fs } ∧ ∀ f ∈ fs, FieldRng nt ne f

theorem LayerAcc2.refl (nt ne : Nat) (layer : Layer) : LayerAcc2 nt ne layer layer :=
  ⟨[], by simp, by simp⟩

theorem LayerAcc2.mono {nt ne nt' ne' : Nat} {layer0 layer : Layer} (h : LayerAcc2 nt ne layer0 layer)
    (h1 : nt ≤ nt') (h2 : ne ≤ ne') : LayerAcc2 nt' ne' layer0 layer := by
  obtain ⟨fs, g1, g2⟩ := h
  exact ⟨fs, g1, fun f hf => (g2 f hf).mono h1 h2⟩

theorem LayerAcc2.trans {nt ne : Nat} {a b c : Layer} (h1 : LayerAcc2 nt ne a b) (h2 : LayerAcc2 nt ne b c) :
    LayerAcc2 nt ne a c := by
  obtain ⟨fs, rfl, g2⟩ := h1
  obtain ⟨fs', rfl, g2'⟩ := h2
  refine ⟨fs ++ fs', by simp, ?_⟩
  intro f hf
  rcases List.mem_append.1 hf with h | h
  · exact g2 f h
  · exact g2' f h

theorem addField_spec2 (s : St) (layer : Layer) (name : String) (plus : Bool) (vis : Vis) (value : Expr)
    (baseEnv : Option EId) (hS : Safe s) (hb : ∀ b, baseEnv = some b → b < s.envs.size)
    (hc : CoreShaped value) :
    ⦃fun st => ⌜st = s⌝⦄ addField layer name plus vis value baseEnv
      ⦃Q2 s (fun r st => LayerAcc2 st.thunks.size st.envs.size layer r)⦄ := by
  have h5 := allocThunk_spec2
  qstart2
  unfold addField
  mvcgen [h5]
  all_goals clear h5
  all_goals vcprep2
  all_goals first
    | s2close
    | exact literalValue_ok (by assumption) _ _ _
    | exact ⟨hS, ⟨⟨by omega, by omega, by omega, by omega⟩, Prog.refl _⟩, [_], rfl,
        (by intro f hf; simp only [List.mem_singleton] at hf; subst hf
            exact ⟨hb, fun t h => (by cases h), fun ep h => (by cases h; exact hc)⟩)⟩
    | exact ⟨by assumption, ⟨⟨by omega, by omega, by omega, by omega⟩, by pchain⟩, [_], rfl,
        (by intro f hf; simp only [List.mem_singleton] at hf; subst hf
            exact ⟨fun b h => Nat.lt_of_lt_of_le (hb b h) (by omega), fun t h => (by cases h; assumption),
              fun ep h => (by cases h)⟩)⟩

end Rsj.Eval.Safe
