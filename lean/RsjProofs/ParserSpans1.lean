/-
  C15 span claims, part 1: partial-correctness specifications (`Ok`) of the parser functions
  that do not involve the explicit-stack machine.  All numeric side conditions are linear facts
  about `pos` (start of the current token) and `prev` (end of the last consumed token).
-/
import RsjProofs.ParserSpec
namespace Rsj.Parser
variable {toks : List Token}

/-- `sp` is a token consumed at or after `st` and the last one consumed before `st'` -/
def End (st : PState toks) (sp : Span) (st' : PState toks) : Prop :=
  st.pos ≤ sp.start ∧ sp.start ≤ sp.stop ∧ sp.stop = st'.prev ∧ IsStart toks sp.start ∧
    IsStop toks sp.stop ∧ st.prev ≤ st.pos ∧ st'.prev ≤ st'.pos ∧ st'.rem.length < st.rem.length

/-- an expression was parsed between `st` and `st'` -/
def EPost (st : PState toks) (e : Expr) (st' : PState toks) : Prop :=
  e.WF toks e.span.start e.span.stop ∧ e.span.start = st.pos ∧ e.span.stop = st'.prev ∧
    st.pos ≤ st'.prev ∧ st.prev ≤ st.pos ∧ st'.prev ≤ st'.pos ∧ st'.rem.length < st.rem.length

def Fwd (st st' : PState toks) : Prop :=
  st.pos ≤ st'.pos ∧ st.prev ≤ st'.prev ∧ st.prev ≤ st.pos ∧ st'.prev ≤ st'.pos ∧
    st'.rem.length ≤ st.rem.length

/-- post-condition of `maybe_parse_assert` -/
def AssertPost (st : PState toks) : Option (Span × Assert) → PState toks → Prop
  | none, st' => Same st st'
  | some (startSp, a), st' =>
    startSp.start = st.pos ∧ IsStart toks startSp.start ∧ a.WF toks st.pos st'.prev ∧
      Fwd st st' ∧ st.pos ≤ st'.prev

/-- post-condition of the `maybe_parse_*` functions: nothing consumed, or a well-formed item -/
def MaybePost {α : Type} (wf : α → Nat → Nat → Prop) (L : Nat) (st : PState toks) :
    Option α → PState toks → Prop
  | none, st' => Same st st'
  | some a, st' => wf a L st'.prev ∧ Fwd st st' ∧ st.pos ≤ st'.prev

/-- unfold the numeric abstractions everywhere and call `omega` -/
macro "nums" : tactic =>
  `(tactic| first
    | omega
    | (simp only [Fwd, Same, Tok, End, EPost, EatPost, AssertPost, MaybePost, SpanOK, surround,
    Expr.span_null, Expr.span_bool, Expr.span_selfObj, Expr.span_dollar, Expr.span_str, Expr.span_textBlock, Expr.span_number, Expr.span_paren, Expr.span_object, Expr.span_array,
    Expr.span_arrayComp, Expr.span_field, Expr.span_index, Expr.span_slice, Expr.span_superField, Expr.span_superIndex, Expr.span_call, Expr.span_ident, Expr.span_local, Expr.span_ite,
    Expr.span_binary, Expr.span_unary, Expr.span_objExt, Expr.span_func, Expr.span_assert, Expr.span_import, Expr.span_importStr, Expr.span_importBin, Expr.span_error, Expr.span_inSuper] at * <;> omega))

theorem Expr.WF.spanOK {e : Expr} {lo hi : Nat} (h : e.WF toks lo hi) : SpanOK toks lo hi e.span := by
  cases e <;> simp only [Expr.WF] at h <;> first | exact h | exact h.1

theorem EPost.wf {st st' : PState toks} {e : Expr} (h : EPost st e st') {lo hi : Nat}
    (h1 : lo ≤ st.pos) (h2 : st'.prev ≤ hi) : e.WF toks lo hi :=
  h.1.mono (by rw [h.2.1]; exact h1) (by rw [h.2.2.1]; exact h2)

theorem EPost.isStart {st st' : PState toks} {e : Expr} (h : EPost st e st') : IsStart toks e.span.start :=
  h.1.spanOK.2.2.2.1
theorem EPost.isStop {st st' : PState toks} {e : Expr} (h : EPost st e st') : IsStop toks e.span.stop :=
  h.1.spanOK.2.2.2.2

theorem Tok.isStart {st st' : PState toks} {sp : Span} (h : Tok st sp st') : IsStart toks sp.start := h.2.2.2.1
theorem Tok.isStop {st st' : PState toks} {sp : Span} (h : Tok st sp st') : IsStop toks sp.stop := h.2.2.2.2.1
theorem End.isStart {st st' : PState toks} {sp : Span} (h : End st sp st') : IsStart toks sp.start := h.2.2.2.1
theorem End.isStop {st st' : PState toks} {sp : Span} (h : End st sp st') : IsStop toks sp.stop := h.2.2.2.2.1

theorem Tok.spanOK {st st' : PState toks} {sp : Span} (h : Tok st sp st') {lo hi : Nat}
    (h1 : lo ≤ st.pos) (h2 : st'.prev ≤ hi) : SpanOK toks lo hi sp :=
  ⟨by nums, by nums, by nums, h.isStart, h.isStop⟩

theorem Tok.toEnd {st st' : PState toks} {sp : Span} (h : Tok st sp st') : End st sp st' :=
  ⟨by nums, by nums, by nums, h.isStart, h.isStop, by nums, by nums, by nums⟩

theorem End.weaken {st0 st st' : PState toks} {sp : Span} (h : End st sp st') (hf : Fwd st0 st) : End st0 sp st' :=
  ⟨by nums, by nums, by nums, h.isStart, h.isStop, by nums, by nums, by nums⟩

theorem Tok.fwd {st st' : PState toks} {sp : Span} (h : Tok st sp st') : Fwd st st' := by nums
theorem End.fwd {st st' : PState toks} {sp : Span} (h : End st sp st') : Fwd st st' := by nums
theorem EPost.fwd {st st' : PState toks} {e : Expr} (h : EPost st e st') : Fwd st st' := by nums
theorem Fwd.trans {a b c : PState toks} (h1 : Fwd a b) (h2 : Fwd b c) : Fwd a c := by nums

/-- span of a construct that begins with token/expression span `a` (at `st`) and ends with `b` (before `st'`) -/
theorem surround_ok {a b : Span} {lo hi : Nat} (ha : IsStart toks a.start) (hb : IsStop toks b.stop)
    (h1 : lo ≤ a.start) (h2 : a.start ≤ b.stop) (h3 : b.stop ≤ hi) : SpanOK toks lo hi (surround a b) :=
  ⟨h1, h2, h3, ha, hb⟩

def PeOK (pe : PState toks → Except (Err toks) (Expr × PState toks)) : Prop :=
  ∀ st, Ok (pe st) (EPost st)

section
variable (hord : Ord toks)
include hord

theorem EatPost.fwd {st st' : PState toks} {r : Option Span} (h : EatPost st r st') : Fwd st st' := by
  have := st.prev_le_pos hord
  cases r <;> nums

variable {pe : PState toks → Except (Err toks) (Expr × PState toks)} (hpe : PeOK pe)
include hpe

theorem spec_paramsLoop : ∀ (fuel : Nat) (acc : List Param) (st : PState toks) (L : Nat),
    L ≤ st.pos → WFParams toks acc L st.prev →
    Ok (paramsLoop pe fuel acc st) (fun r st' => WFParams toks r.1 L st'.prev ∧ End st r.2 st') := by
  intro fuel
  induction fuel with
  | zero => intro acc st L _ _; exact Ok.error
  | succ fuel ih =>
    intro acc st L hL hacc
    unfold paramsLoop
    refine Ok.bind (spec_expectIdent hord true st) ?_
    intro name st1 h1
    dsimp only
    refine Ok.bind (spec_eatSimple hord .Eq true st1) ?_
    intro eq st2 h2
    have f2 := h2.fwd hord
    dsimp only
    refine Ok.bind (P := fun d st3 => WFOpt toks d L st3.prev ∧ Fwd st2 st3) ?_ ?_
    · cases eq with
      | some sp =>
        dsimp only
        refine Ok.bind (hpe st2) ?_
        intro d st3 h3
        exact Ok.pure ⟨h3.wf (by nums) (Nat.le_refl _), h3.fwd⟩
      | none => exact Ok.pure ⟨trivial, by nums⟩
    · intro dflt st3 h3
      obtain ⟨hd, f3⟩ := h3
      dsimp only
      have hacc' : WFParams toks (acc ++ [Param.mk name dflt]) L st3.prev :=
        WFParams.append (hacc.mono (Nat.le_refl _) (by nums)) ⟨h1.spanOK hL (by nums), hd⟩
      refine Ok.bind (spec_eatSimple hord .RightParen true st3) ?_
      intro r st4 h4
      have f4 := h4.fwd hord
      cases r with
      | some endSp =>
        exact Ok.pure ⟨hacc'.mono (Nat.le_refl _) (by nums), (Tok.toEnd h4).weaken (by nums)⟩
      | none =>
        dsimp only
        refine Ok.bind (spec_eatSimple hord .Comma true st4) ?_
        intro c st5 h5
        have f5 := h5.fwd hord
        cases c with
        | none => exact Ok.error
        | some _ =>
          dsimp only
          refine Ok.bind (spec_eatSimple hord .RightParen true st5) ?_
          intro r2 st6 h6
          have f6 := h6.fwd hord
          cases r2 with
          | some endSp =>
            exact Ok.pure ⟨hacc'.mono (Nat.le_refl _) (by nums), (Tok.toEnd h6).weaken (by nums)⟩
          | none =>
            dsimp only
            refine Ok.mono (ih _ st6 L (by nums) (hacc'.mono (Nat.le_refl _) (by nums))) ?_
            intro r s hr
            exact ⟨hr.1, hr.2.weaken (by nums)⟩


theorem spec_parseParams (fuel : Nat) (st : PState toks) (L : Nat) (hL : L ≤ st.pos) :
    Ok (parseParams pe fuel st) (fun r st' => WFParams toks r.1 L st'.prev ∧ End st r.2 st') := by
  unfold parseParams
  refine Ok.bind (spec_eatSimple hord .RightParen true st) ?_
  intro r st1 h1
  have f1 := h1.fwd hord
  cases r with
  | some endSp => exact Ok.pure ⟨trivial, Tok.toEnd h1⟩
  | none =>
    dsimp only
    refine Ok.mono (spec_paramsLoop hord hpe fuel [] st1 L (by nums) trivial) ?_
    intro r s hr
    exact ⟨hr.1, hr.2.weaken f1⟩

theorem spec_parseArg (st : PState toks) (L : Nat) (hL : L ≤ st.pos) :
    Ok (parseArg pe st) (fun a st' => a.WF toks L st'.prev ∧ Fwd st st') := by
  unfold parseArg
  split
  · refine Ok.bind (spec_eatIdent hord false st) ?_
    intro name st1 h1
    cases name with
    | none => exact Ok.error
    | some name =>
      dsimp only
      refine Ok.bind (spec_eatSimple hord .Eq false st1) ?_
      intro eq st2 h2
      have f2 := h2.fwd hord
      cases eq with
      | none => exact Ok.error
      | some _ =>
        dsimp only
        refine Ok.bind (hpe st2) ?_
        intro v st3 h3
        have f3 := h3.fwd
        exact Ok.pure ⟨⟨h1.spanOK hL (by nums), h3.wf (by nums) (Nat.le_refl _)⟩, by nums⟩
  · refine Ok.bind (hpe st) ?_
    intro v st1 h1
    exact Ok.pure ⟨h1.wf hL (Nat.le_refl _), h1.fwd⟩

theorem spec_argsLoop : ∀ (fuel : Nat) (acc : List Arg) (st : PState toks) (L : Nat),
    L ≤ st.pos → WFArgs toks acc L st.prev →
    Ok (argsLoop pe fuel acc st) (fun r st' => WFArgs toks r.1 L st'.prev ∧ End st r.2 st') := by
  intro fuel
  induction fuel with
  | zero => intro acc st L _ _; exact Ok.error
  | succ fuel ih =>
    intro acc st L hL hacc
    unfold argsLoop
    refine Ok.bind (spec_parseArg hord hpe st L hL) ?_
    intro a st1 h1
    obtain ⟨ha, f1⟩ := h1
    dsimp only
    have hacc' : WFArgs toks (acc ++ [a]) L st1.prev :=
      WFArgs.append (hacc.mono (Nat.le_refl _) (by nums)) ha
    refine Ok.bind (spec_eatSimple hord .RightParen true st1) ?_
    intro r st2 h2
    have f2 := h2.fwd hord
    cases r with
    | some endSp =>
      exact Ok.pure ⟨hacc'.mono (Nat.le_refl _) (by nums), (Tok.toEnd h2).weaken f1⟩
    | none =>
      dsimp only
      refine Ok.bind (spec_eatSimple hord .Comma true st2) ?_
      intro c st3 h3
      have f3 := h3.fwd hord
      cases c with
      | none => exact Ok.error
      | some _ =>
        dsimp only
        refine Ok.bind (spec_eatSimple hord .RightParen true st3) ?_
        intro r2 st4 h4
        have f4 := h4.fwd hord
        cases r2 with
        | some endSp =>
          exact Ok.pure ⟨hacc'.mono (Nat.le_refl _) (by nums), (Tok.toEnd h4).weaken (by nums)⟩
        | none =>
          dsimp only
          refine Ok.mono (ih _ st4 L (by nums) (hacc'.mono (Nat.le_refl _) (by nums))) ?_
          intro r s hr
          exact ⟨hr.1, hr.2.weaken (by nums)⟩

theorem spec_parseArgs (fuel : Nat) (st : PState toks) (L : Nat) (hL : L ≤ st.pos) :
    Ok (parseArgs pe fuel st) (fun r st' => WFArgs toks r.1 L st'.prev ∧ End st r.2 st') := by
  unfold parseArgs
  refine Ok.bind (spec_eatSimple hord .RightParen true st) ?_
  intro r st1 h1
  have f1 := h1.fwd hord
  cases r with
  | some endSp => exact Ok.pure ⟨trivial, Tok.toEnd h1⟩
  | none =>
    dsimp only
    refine Ok.mono (spec_argsLoop hord hpe fuel [] st1 L (by nums) trivial) ?_
    intro r s hr
    exact ⟨hr.1, hr.2.weaken f1⟩

theorem spec_maybeParseAssert (add : Bool) (st : PState toks) :
    Ok (maybeParseAssert pe add st) (AssertPost st) := by
  unfold maybeParseAssert
  refine Ok.bind (spec_eatSimple hord .Assert add st) ?_
  intro r st1 h1
  have f1 := h1.fwd hord
  cases r with
  | none => exact Ok.pure h1
  | some startSp =>
    dsimp only
    refine Ok.bind (hpe st1) ?_
    intro cond st2 h2
    have f2 := h2.fwd
    dsimp only
    refine Ok.bind (spec_eatSimple hord .Colon true st2) ?_
    intro c st3 h3
    have f3 := h3.fwd hord
    cases c with
    | some _ =>
      dsimp only
      refine Ok.bind (hpe st3) ?_
      intro msg st4 h4
      have f4 := h4.fwd
      refine Ok.pure ⟨by nums, h1.isStart, ⟨?_, ?_, ?_, rfl⟩, by nums, by nums⟩
      · exact surround_ok h1.isStart h4.isStop (by nums) (by nums) (by nums)
      · exact h2.wf (by nums) (by nums)
      · exact h4.wf (by nums) (by nums)
    | none =>
      refine Ok.pure ⟨by nums, h1.isStart, ⟨?_, ?_, trivial, rfl⟩, by nums, by nums⟩
      · exact surround_ok h1.isStart h2.isStop (by nums) (by nums) (by nums)
      · exact h2.wf (by nums) (by nums)

theorem spec_parseBind (fuel : Nat) (st : PState toks) (L : Nat) (hL : L ≤ st.pos) :
    Ok (parseBind pe fuel st) (fun b st' => b.WF toks L st'.prev ∧ Fwd st st' ∧ st.pos ≤ st'.prev) := by
  unfold parseBind
  refine Ok.bind (spec_expectIdent hord true st) ?_
  intro name st1 h1
  have f1 := h1.fwd
  dsimp only
  refine Ok.bind (spec_eatSimple hord .LeftParen true st1) ?_
  intro lp st2 h2
  have f2 := h2.fwd hord
  cases lp with
  | some startSp =>
    dsimp only
    refine Ok.bind (spec_parseParams hord hpe fuel st2 startSp.start (by nums)) ?_
    intro r st3 h3
    obtain ⟨params, endSp⟩ := r
    obtain ⟨hps, hend⟩ := h3
    have f3 := hend.fwd
    dsimp only
    refine Ok.bind (spec_expectSimple hord .Eq true st3) ?_
    intro _ st4 h4
    have f4 := h4.fwd
    dsimp only
    refine Ok.bind (hpe st4) ?_
    intro v st5 h5
    have f5 := h5.fwd
    refine Ok.pure ⟨⟨h1.spanOK hL (by nums), fun _ => ⟨?_, ?_⟩, (fun hh => by cases hh), h5.wf (by nums) (Nat.le_refl _)⟩,
      by nums, by nums⟩
    · exact surround_ok h2.isStart hend.isStop (by nums) (by nums) (by nums)
    · exact hps.mono (Nat.le_refl _) (by nums)
  | none =>
    dsimp only
    refine Ok.bind (spec_expectSimple hord .Eq true st2) ?_
    intro _ st3 h3
    have f3 := h3.fwd
    dsimp only
    refine Ok.bind (hpe st3) ?_
    intro v st4 h4
    have f4 := h4.fwd
    exact Ok.pure ⟨⟨h1.spanOK hL (by nums), (fun hh => by cases hh), fun _ => rfl, h4.wf (by nums) (Nat.le_refl _)⟩,
      by nums, by nums⟩


theorem spec_maybeParseObjLocal (fuel : Nat) (st : PState toks) (L : Nat) (hL : L ≤ st.pos) :
    Ok (maybeParseObjLocal pe fuel st) (MaybePost (Bind.WF toks) L st) := by
  unfold maybeParseObjLocal
  refine Ok.bind (spec_eatSimple hord .Local true st) ?_
  intro r st1 h1
  have f1 := h1.fwd hord
  cases r with
  | none => exact Ok.pure h1
  | some _ =>
    dsimp only
    refine Ok.bind (spec_parseBind hord hpe fuel st1 L (by nums)) ?_
    intro b st2 h2
    exact Ok.pure ⟨h2.1, by nums, by nums⟩

theorem spec_maybeParseForSpec (st : PState toks) (L : Nat) (hL : L ≤ st.pos) :
    Ok (maybeParseForSpec pe st) (MaybePost (CompSpec.WF toks) L st) := by
  unfold maybeParseForSpec
  refine Ok.bind (spec_eatSimple hord .For true st) ?_
  intro r st1 h1
  have f1 := h1.fwd hord
  cases r with
  | none => exact Ok.pure h1
  | some _ =>
    dsimp only
    refine Ok.bind (spec_expectIdent hord true st1) ?_
    intro v st2 h2
    have f2 := h2.fwd
    dsimp only
    refine Ok.bind (spec_expectSimple hord .In true st2) ?_
    intro _ st3 h3
    have f3 := h3.fwd
    dsimp only
    refine Ok.bind (hpe st3) ?_
    intro inner st4 h4
    have f4 := h4.fwd
    exact Ok.pure ⟨⟨h2.spanOK (by nums) (by nums), h4.wf (by nums) (Nat.le_refl _)⟩, by nums, by nums⟩

theorem spec_maybeParseIfSpec (st : PState toks) (L : Nat) (hL : L ≤ st.pos) :
    Ok (maybeParseIfSpec pe st) (MaybePost (CompSpec.WF toks) L st) := by
  unfold maybeParseIfSpec
  refine Ok.bind (spec_eatSimple hord .If true st) ?_
  intro r st1 h1
  have f1 := h1.fwd hord
  cases r with
  | none => exact Ok.pure h1
  | some _ =>
    dsimp only
    refine Ok.bind (hpe st1) ?_
    intro c st2 h2
    have f2 := h2.fwd
    exact Ok.pure ⟨h2.wf (by nums) (Nat.le_refl _), by nums, by nums⟩

theorem spec_compSpecLoop : ∀ (fuel : Nat) (acc : List CompSpec) (st : PState toks) (L : Nat),
    L ≤ st.pos → WFSpecs toks acc L st.prev → st.prev ≤ st.pos →
    Ok (compSpecLoop pe fuel acc st) (fun r st' => WFSpecs toks r L st'.prev ∧ Fwd st st') := by
  intro fuel
  induction fuel with
  | zero => intro acc st L _ _ _; exact Ok.error
  | succ fuel ih =>
    intro acc st L hL hacc hst
    unfold compSpecLoop
    refine Ok.bind (spec_maybeParseForSpec hord hpe st L hL) ?_
    intro f st1 h1
    cases f with
    | some s =>
      obtain ⟨hs, f1, _⟩ := h1
      dsimp only
      refine Ok.mono (ih _ st1 L (by nums)
        (WFSpecs.append (hacc.mono (Nat.le_refl _) (by nums)) hs) (by nums)) ?_
      intro r s' hr
      exact ⟨hr.1, by nums⟩
    | none =>
      dsimp only
      refine Ok.bind (spec_maybeParseIfSpec hord hpe st1 L (by nums)) ?_
      intro i st2 h2
      cases i with
      | some s =>
        obtain ⟨hs, f2, _⟩ := h2
        dsimp only
        refine Ok.mono (ih _ st2 L (by nums)
          (WFSpecs.append (hacc.mono (Nat.le_refl _) (by nums)) hs) (by nums)) ?_
        intro r s' hr
        exact ⟨hr.1, by nums⟩
      | none => exact Ok.pure ⟨hacc.mono (Nat.le_refl _) (by nums), by nums⟩

theorem spec_maybeParseCompSpec (fuel : Nat) (st : PState toks) (L : Nat) (hL : L ≤ st.pos) :
    Ok (maybeParseCompSpec pe fuel st) (MaybePost (WFSpecs toks) L st) := by
  unfold maybeParseCompSpec
  refine Ok.bind (spec_maybeParseForSpec hord hpe st L hL) ?_
  intro f st1 h1
  cases f with
  | none => exact Ok.pure h1
  | some s =>
    obtain ⟨hs, f1, hp⟩ := h1
    dsimp only
    refine Ok.bind (spec_compSpecLoop hord hpe fuel [s] st1 L (by nums) ⟨hs, trivial⟩ (by nums)) ?_
    intro parts st2 h2
    exact Ok.pure ⟨h2.1, by nums, by nums⟩


omit hpe in
theorem spec_eatString (add : Bool) (st : PState toks) :
    Ok (eatString add st) (fun r st' => match r with
      | some p => Tok st p.2 st'
      | none => Same st st') := by
  unfold eatString
  split
  · intro r s h
    cases hadv : st.advance with
    | error e => rw [hadv] at h; cases h
    | ok st1 =>
      rw [hadv] at h
      cases h
      exact tok_of_advance hord hadv
  · exact Ok.ok (same_pushIf st add _)

omit hpe in
theorem spec_eatTextBlock (add : Bool) (st : PState toks) :
    Ok (eatTextBlock add st) (fun r st' => match r with
      | some p => Tok st p.2 st'
      | none => Same st st') := by
  unfold eatTextBlock
  split
  · intro r s h
    cases hadv : st.advance with
    | error e => rw [hadv] at h; cases h
    | ok st1 =>
      rw [hadv] at h
      cases h
      exact tok_of_advance hord hadv
  · exact Ok.ok (same_pushIf st add _)

omit hpe in
theorem spec_eatNumber (add : Bool) (st : PState toks) :
    Ok (eatNumber add st) (fun r st' => match r with
      | some p => Tok st p.2 st'
      | none => Same st st') := by
  unfold eatNumber
  split
  · intro r s h
    cases hadv : st.advance with
    | error e => rw [hadv] at h; cases h
    | ok st1 =>
      rw [hadv] at h
      cases h
      exact tok_of_advance hord hadv
  · exact Ok.ok (same_pushIf st add _)

theorem spec_maybeParseFieldName (st : PState toks) (L : Nat) (hL : L ≤ st.pos) :
    Ok (maybeParseFieldName pe st) (MaybePost (FieldName.WF toks) L st) := by
  have hst := st.prev_le_pos hord
  unfold maybeParseFieldName
  refine Ok.bind (spec_eatIdent hord true st) ?_
  intro r st1 h1
  cases r with
  | some i =>
    dsimp only at h1 ⊢
    exact Ok.pure ⟨h1.spanOK hL (Nat.le_refl _), h1.fwd, by nums⟩
  | none =>
    dsimp only at h1 ⊢
    refine Ok.bind (spec_eatString hord true st1) ?_
    intro r st2 h2
    cases r with
    | some p =>
      obtain ⟨s, sp⟩ := p
      dsimp only at h2 ⊢
      exact Ok.pure ⟨h2.spanOK (by nums) (Nat.le_refl _), by nums, by nums⟩
    | none =>
      dsimp only at h2 ⊢
      refine Ok.bind (spec_eatTextBlock hord true st2) ?_
      intro r st3 h3
      cases r with
      | some p =>
        obtain ⟨s, sp⟩ := p
        dsimp only at h3 ⊢
        exact Ok.pure ⟨h3.spanOK (by nums) (Nat.le_refl _), by nums, by nums⟩
      | none =>
        dsimp only at h3 ⊢
        refine Ok.bind (spec_eatSimple hord .LeftBracket true st3) ?_
        intro r st4 h4
        cases r with
        | none => exact Ok.pure (by nums)
        | some startSp =>
          dsimp only
          refine Ok.bind (hpe st4) ?_
          intro e st5 h5
          dsimp only
          refine Ok.bind (spec_expectSimple hord .RightBracket true st5) ?_
          intro endSp st6 h6
          refine Ok.pure ⟨⟨?_, ?_⟩, by nums, by nums⟩
          · exact surround_ok h4.isStart h6.isStop (by nums) (by nums) (by nums)
          · exact h5.wf (by nums) (by nums)

omit hpe in
theorem spec_eatFirst {α : Type} (add : Bool) : ∀ (l : List (STok × α)) (st : PState toks),
    Ok (eatFirst add l st) (fun r st' => match r with
      | some p => Tok st p.2.2 st'
      | none => Same st st')
  | [], st => by
    unfold eatFirst
    exact Ok.ok (same_of_eq rfl rfl)
  | (k, a) :: rest, st => by
    unfold eatFirst
    refine Ok.bind (spec_eatSimple hord k add st) ?_
    intro r st1 h1
    cases r with
    | some sp => exact Ok.pure h1
    | none =>
      dsimp only
      refine Ok.mono (spec_eatFirst add rest st1) ?_
      intro r s hr
      cases r with
      | some p =>
        dsimp only at hr ⊢
        exact ⟨by nums, by nums, by nums, hr.isStart, hr.isStop, by nums, by nums, by nums⟩
      | none => dsimp only at hr ⊢; nums

omit hpe in
theorem spec_eatVisibility (add : Bool) (st : PState toks) :
    Ok (eatVisibility add st) (fun r st' => match r with
      | some _ => Fwd st st' ∧ st.pos ≤ st'.prev
      | none => Same st st') := by
  unfold eatVisibility
  refine Ok.bind (spec_eatFirst hord add _ st) ?_
  intro r st1 h1
  cases r with
  | some p => exact Ok.pure ⟨Tok.fwd h1, by nums⟩
  | none => exact Ok.pure h1

omit hpe in
theorem spec_eatPlusVisibility (add : Bool) (st : PState toks) :
    Ok (eatPlusVisibility add st) (fun r st' => match r with
      | some _ => Fwd st st' ∧ st.pos ≤ st'.prev
      | none => Same st st') := by
  unfold eatPlusVisibility
  refine Ok.bind (spec_eatFirst hord add _ st) ?_
  intro r st1 h1
  cases r with
  | some p => exact Ok.pure ⟨Tok.fwd h1, by nums⟩
  | none => exact Ok.pure h1

theorem spec_maybeParseField (fuel : Nat) (st : PState toks) (L : Nat) (hL : L ≤ st.pos) :
    Ok (maybeParseField pe fuel st) (MaybePost (Field.WF toks) L st) := by
  unfold maybeParseField
  refine Ok.bind (spec_maybeParseFieldName hord hpe st L hL) ?_
  intro n st1 h1
  cases n with
  | none => exact Ok.pure h1
  | some name =>
    obtain ⟨hn, f1, hp1⟩ := h1
    dsimp only
    refine Ok.bind (spec_eatSimple hord .LeftParen true st1) ?_
    intro lp st2 h2
    have f2 := h2.fwd hord
    cases lp with
    | some startSp =>
      dsimp only
      refine Ok.bind (spec_parseParams hord hpe fuel st2 startSp.start (by nums)) ?_
      intro r st3 h3
      obtain ⟨params, endSp⟩ := r
      obtain ⟨hps, hend⟩ := h3
      have f3 := hend.fwd
      dsimp only
      refine Ok.bind (spec_eatVisibility hord true st3) ?_
      intro vis st4 h4
      cases vis with
      | none => exact Ok.error
      | some vis =>
        obtain ⟨f4, hp4⟩ := h4
        dsimp only
        refine Ok.bind (hpe st4) ?_
        intro v st5 h5
        have f5 := h5.fwd
        refine Ok.pure ⟨⟨hn.mono (Nat.le_refl _) (by nums), ?_, ?_, h5.wf (by nums) (Nat.le_refl _)⟩, by nums, by nums⟩
        · exact surround_ok h2.isStart hend.isStop (by nums) (by nums) (by nums)
        · exact hps.mono (Nat.le_refl _) (by nums)
    | none =>
      dsimp only
      refine Ok.bind (spec_eatPlusVisibility hord true st2) ?_
      intro pv st3 h3
      cases pv with
      | none => exact Ok.error
      | some pv =>
        obtain ⟨plus, vis⟩ := pv
        obtain ⟨f3, hp3⟩ := h3
        dsimp only
        refine Ok.bind (hpe st3) ?_
        intro v st4 h4
        have f4 := h4.fwd
        exact Ok.pure ⟨⟨hn.mono (Nat.le_refl _) (by nums), h4.wf (by nums) (Nat.le_refl _)⟩, by nums, by nums⟩


def CompFieldOK (toks : List Token) (L H : Nat) : Option (Expr × Bool × Expr) → Prop
  | none => True
  | some (n, _, b) => n.WF toks L H ∧ b.WF toks L H

omit hord hpe in
theorem spec_makeCompLoop {L H : Nat} : ∀ (ms : List Member) (l1 : List Bind) (f : Option (Expr × Bool × Expr))
    (l2 : List Bind) (r : List Bind × Option (Expr × Bool × Expr) × List Bind),
    WFMembers toks ms L H → WFBinds toks l1 L H → CompFieldOK toks L H f → WFBinds toks l2 L H →
    makeCompLoop ms l1 f l2 = .ok r →
    WFBinds toks r.1 L H ∧ CompFieldOK toks L H r.2.1 ∧ WFBinds toks r.2.2 L H := by
  intro ms
  induction ms with
  | nil =>
    intro l1 f l2 r _ h1 hf h2 h
    simp only [makeCompLoop] at h
    cases h
    exact ⟨h1, hf, h2⟩
  | cons m ms ih =>
    intro l1 f l2 r hms h1 hf h2 h
    obtain ⟨hm, hms⟩ := hms
    cases m with
    | local_ b =>
      simp only [makeCompLoop] at h
      split at h
      · exact ih _ _ _ r hms (WFBinds.append h1 hm) hf h2 h
      · exact ih _ _ _ r hms h1 hf (WFBinds.append h2 hm) h
    | assert_ a => simp only [makeCompLoop] at h; cases h
    | field fl =>
      cases fl with
      | func n ps psp v e => simp only [makeCompLoop] at h; cases h
      | value n plus vis e =>
        cases n with
        | ident i => simp only [makeCompLoop] at h; cases h
        | str s sp => simp only [makeCompLoop] at h; cases h
        | expr name sp =>
          cases vis with
          | Hidden => simp only [makeCompLoop] at h; cases h
          | ForceVisible => simp only [makeCompLoop] at h; cases h
          | Default =>
            simp only [makeCompLoop] at h
            split at h
            · refine ih _ _ _ r hms h1 ?_ h2 h
              obtain ⟨⟨hsp, hname⟩, he⟩ := hm
              exact ⟨hname.mono hsp.1 hsp.2.2.1, he⟩
            · cases h

omit hord hpe in
theorem spec_makeComp {L H : Nat} (ms : List Member) (spec : List CompSpec) (o : ObjInside)
    (hms : WFMembers toks ms L H) (hs : WFSpecs toks spec L H) (h : makeComp ms spec = .ok o) :
    o.WF toks L H := by
  unfold makeComp at h
  split at h
  · next l1 name plus body l2 heq =>
    cases h
    have := spec_makeCompLoop ms [] none [] _ hms trivial trivial trivial heq
    exact ⟨this.1, this.2.1.1, this.2.1.2, this.2.2, hs⟩
  · cases h
  · cases h

end
end Rsj.Parser
