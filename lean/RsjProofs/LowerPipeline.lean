import RsjModel.Pipeline
import RsjProofs.EvalMono
/-!
  Facts about the whole-pipeline model `Rsj.Pipeline.runSource` (RsjModel/Pipeline.lean) that do not
  need the invariants of the evaluator: how the answer line is assembled from the stages, that the
  static stages do not depend on limit / fuel / trace flag, and that the evaluation of a whole
  program (`programProg` = load, evaluate, force deeply, manifest) is monotone in the fuel.
-/
namespace Rsj.Eval
open Rsj.Core Lean.Order

variable {γ : Type} [PartialOrder γ]

/-- `requestProg` with the evaluator as a parameter -/
def requestWith (r : Task → M Value) (t : TId) : M String := do
  let v ← r (.force t 0)
  let _ ← r (.deep v 0)
  match ← r (.manifest v 0 true) with
  | .str s => pure s
  | _ => throw (.internal "manifest did not return a string")

/-- `programProg` with the evaluator as a parameter -/
def programWith (r : Task → M Value) (e : Expr) : M String := do
  let stdT ← allocThunk (.done .null)
  let root ← allocEnv { parent := none, vars := [("std", stdT)], obj := none }
  let t ← allocThunk (.pending (.expr e root))
  requestWith r t

theorem programProg_eq_with (cfg : Cfg) (fuel : Nat) (e : Expr) :
    programProg cfg fuel e = programWith (run cfg fuel) e := rfl

theorem monotone_requestWith (f : γ → Task → M Value) (t : TId) (hmono : monotone f) :
    monotone (fun x => requestWith (f x) t) := by
  unfold requestWith
  mono_all hmono

theorem monotone_programWith (f : γ → Task → M Value) (e : Expr) (hmono : monotone f) :
    monotone (fun x => programWith (f x) e) := by
  have := fun t => monotone_requestWith f t hmono
  unfold programWith
  mono_all hmono
  all_goals exact this _

theorem bottom_le' (x : M Value) : (bottom : M Value) ⊑ x := by
  intro s
  exact FlatOrder.rel.bot

theorem run_le_succ' (cfg : Cfg) (n : Nat) : ∀ t, run cfg n t ⊑ run cfg (n + 1) t := by
  induction n with
  | zero => intro t; exact bottom_le' _
  | succ n ih =>
    intro t
    show stepN cfg (run cfg n) t ⊑ stepN cfg (run cfg (n + 1)) t
    exact monotone_stepN cfg (fun (r : Task → M Value) => r) t (fun _ _ h => h) (run cfg n) (run cfg (n + 1)) ih

theorem run_le_of_le' (cfg : Cfg) {n m : Nat} (h : n ≤ m) : ∀ t, run cfg n t ⊑ run cfg m t := by
  induction h with
  | refl => intro t; exact PartialOrder.rel_refl
  | step _ ih => intro t; exact PartialOrder.rel_trans (ih t) (run_le_succ' cfg _ t)

theorem flat_some' {α : Type} {a b : Option α} (h : a ⊑ b) {r : α} (ha : a = some r) : b = some r := by
  cases h with
  | bot => cases ha
  | refl => exact ha

/-- a whole program: once it has an outcome with `n` levels of fuel it has that outcome with more -/
theorem programProg_fuel_mono (cfg : Cfg) {n m : Nat} (h : n ≤ m) (e : Expr)
    (r : Except Err String × St) (hr : programProg cfg n e {} = some r) : programProg cfg m e {} = some r := by
  have hm : programProg cfg n e ⊑ programProg cfg m e := by
    rw [programProg_eq_with, programProg_eq_with]
    exact monotone_programWith (fun (r : Task → M Value) => r) e (fun _ _ h => h) (run cfg n) (run cfg m)
      (run_le_of_le' cfg h)
  exact flat_some' (hm {}) hr

theorem evalProgram_eq_prog (cfg : Cfg) (fuel : Nat) (e : Expr) :
    evalProgram cfg fuel e = match programProg cfg fuel e {} with
      | none => ("gas", {})
      | some (.ok s, st) => ("ok " ++ s, st)
      | some (.error er, st) => (showErr er, restoreInProgress st) := rfl

theorem evalProgram_fuel_mono (cfg : Cfg) {n m : Nat} (h : n ≤ m) (e : Expr)
    (hr : programProg cfg n e {} ≠ none) : evalProgram cfg m e = evalProgram cfg n e := by
  cases hx : programProg cfg n e {} with
  | none => exact absurd hx hr
  | some r =>
    rw [evalProgram_eq_prog, evalProgram_eq_prog, hx, programProg_fuel_mono cfg h e r hx]

end Rsj.Eval

namespace Rsj.Pipeline
open Rsj.Eval

/-- the line answered when the fuel does not suffice -/
def gasLine (traces : Bool) : String := "gas" ++ (if traces then showTraces {} else "")

theorem evalLine_gas (ms fuel : Nat) (tr : Bool) (e : Core.Expr) (h : programProg { maxStack := ms } fuel e {} = none) :
    evalLine ms fuel tr e = gasLine tr := by
  unfold evalLine gasLine
  rw [evalProgram_eq_prog, h]

theorem evalLine_fuel_mono (ms : Nat) {n m : Nat} (h : n ≤ m) (tr : Bool) (e : Core.Expr)
    (hg : evalLine ms n tr e ≠ gasLine tr) : evalLine ms m tr e = evalLine ms n tr e := by
  have hr : programProg { maxStack := ms } n e {} ≠ none := fun hx => hg (evalLine_gas ms n tr e hx)
  unfold evalLine
  rw [evalProgram_fuel_mono { maxStack := ms } h e hr]

/-- the answer is the evaluation line exactly for an accepted program -/
theorem runSource_ok {src : List Nat} {e : Core.Expr} (h : front [] Analyze.rootEnv src = .ok e)
    (ms fuel : Nat) (tr : Bool) : runSource ms fuel tr src = evalLine ms fuel tr e := by
  unfold runSource
  rw [h]
  simp only [Front.answer]

/-- whatever the static stages answer does not depend on limit, fuel or trace flag -/
theorem runSource_static {src : List Nat} (h : ∀ e, front [] Analyze.rootEnv src ≠ .ok e)
    (ms fuel ms' fuel' : Nat) (tr tr' : Bool) :
    runSource ms fuel tr src = runSource ms' fuel' tr' src := by
  unfold runSource
  cases hf : front [] Analyze.rootEnv src with
  | ok e => exact absurd hf (h e)
  | _ => simp only [Front.answer]

theorem front_analyzeErr {src : List Nat} {toks : List Lexer.Token} {ast : Parser.Expr} {e : Core.Expr}
    {er : Analyze.AErr} {libs : List (String × String)} {env : Analyze.AEnv}
    (hl : Lexer.lexAll src false = .ok toks) (hp : Parser.parse (convTokens toks) = .ok ast)
    (hlo : Lower.lowerWith libs ast = .ok e) (ha : Analyze.analyze e env = .error er) :
    front libs env src = .analyzeErr er := by
  unfold front
  simp only [hl, hp, hlo, ha]

theorem front_ok {src : List Nat} {toks : List Lexer.Token} {ast : Parser.Expr} {e : Core.Expr}
    {libs : List (String × String)} {env : Analyze.AEnv}
    (hl : Lexer.lexAll src false = .ok toks) (hp : Parser.parse (convTokens toks) = .ok ast)
    (hlo : Lower.lowerWith libs ast = .ok e) (ha : Analyze.analyze e env = .ok ()) :
    front libs env src = .ok e := by
  unfold front
  simp only [hl, hp, hlo, ha]

/-- an accepted program went through every stage -/
theorem front_ok_inv {src : List Nat} {e : Core.Expr} {libs : List (String × String)} {env : Analyze.AEnv}
    (h : front libs env src = .ok e) :
    ∃ toks ast, Lexer.lexAll src false = .ok toks ∧ Parser.parse (convTokens toks) = .ok ast ∧
      Lower.lowerWith libs ast = .ok e ∧ Analyze.analyze e env = .ok () := by
  unfold front at h
  cases hl : Lexer.lexAll src false with
  | err e => simp [hl] at h
  | panic s => simp [hl] at h
  | fuel => simp [hl] at h
  | ok toks =>
    simp only [hl] at h
    cases hp : Parser.parse (convTokens toks) with
    | expected sp ex act => simp [hp] at h
    | fault f => simp [hp] at h
    | ok ast =>
      simp only [hp] at h
      cases hlo : Lower.lowerWith libs ast with
      | error le => cases le <;> simp [hlo] at h
      | ok e' =>
        simp only [hlo] at h
        cases ha : Analyze.analyze e' env with
        | error er => simp [ha] at h
        | ok u =>
          simp only [ha] at h
          cases h
          exact ⟨toks, ast, rfl, hp, hlo, ha⟩

/-- the lexer stage never ends in one of its panic sites / out of fuel -/
theorem front_ne_lexFault {src : List Nat} {libs : List (String × String)} {env : Analyze.AEnv}
    (hlex : (∃ toks, Lexer.lexAll src false = .ok toks) ∨ (∃ e, Lexer.lexAll src false = .err e))
    (s : String) : front libs env src ≠ .lexFault s := by
  unfold front
  rcases hlex with ⟨toks, hl⟩ | ⟨e, hl⟩
  · simp only [hl]
    cases Parser.parse (convTokens toks) with
    | expected sp ex act => simp
    | fault f => simp
    | ok ast =>
      simp only []
      cases Lower.lowerWith libs ast with
      | error le => cases le <;> simp
      | ok e' =>
        simp only []
        cases Analyze.analyze e' env with
        | error er => simp
        | ok u => simp
  · simp [hl]

end Rsj.Pipeline
