/-
  Lemmas about the lexer model (RsjModel/Lexer.lean): every `eat_*` primitive
  and every scanner advances the cursor inside the input, every token consumes
  at least one byte, error spans lie inside the input, the fuel given to the
  loops always suffices; consequences for the `lex_to_eof` loop (tiling,
  located error, dropping whitespace/comments).
-/
import RsjModel.Lexer
import RsjProofs.Utf8
namespace Rsj.Lexer

namespace Cur

theorem eatByte_some {c c' : Cur} {b : Nat} (h : c.eatByte b = some c') :
    c'.pos = c.pos + 1 ∧ c'.rest.length + 1 = c.rest.length := by
  unfold eatByte at h
  split at h
  · next x t hr =>
    split at h
    · cases h; simp [hr]
    · cases h
  · cases h

theorem eatByteIf_some {c c' : Cur} {p : Nat → Bool} (h : c.eatByteIf p = some c') :
    c'.pos = c.pos + 1 ∧ c'.rest.length + 1 = c.rest.length := by
  unfold eatByteIf at h
  split at h
  · next x t hr =>
    split at h
    · cases h; simp [hr]
    · cases h
  · cases h

theorem eatMapByte_some {α : Type} {c c' : Cur} {f : Nat → Option α} {r : α}
    (h : c.eatMapByte f = some (r, c')) :
    c'.pos = c.pos + 1 ∧ c'.rest.length + 1 = c.rest.length := by
  unfold eatMapByte at h
  split at h
  · next x t hr =>
    split at h
    · cases h; simp [hr]
    · cases h
  · cases h

theorem eatAnyByte_some {c c' : Cur} {b : Nat} (h : c.eatAnyByte = some (b, c')) :
    c'.pos = c.pos + 1 ∧ c'.rest.length + 1 = c.rest.length := by
  unfold eatAnyByte at h
  split at h
  · next x t hr => cases h; simp [hr]
  · cases h

theorem isPrefixOf_length {s l : List Nat} (h : s.isPrefixOf l = true) : s.length ≤ l.length := by
  have := List.isPrefixOf_iff_prefix.mp h
  exact this.length_le

theorem eatSlice_some {c c' : Cur} {s : List Nat} (h : c.eatSlice s = some c') :
    c'.pos = c.pos + s.length ∧ c'.rest.length + s.length = c.rest.length := by
  unfold eatSlice at h
  split at h
  · next hp =>
    cases h
    have := isPrefixOf_length hp
    refine ⟨rfl, ?_⟩
    show (c.rest.drop s.length).length + s.length = c.rest.length
    rw [List.length_drop]; omega
  · cases h

theorem eatWhileAux_spec (p : Nat → Bool) (pos : Nat) (rest : List Nat) :
    (eatWhileAux p pos rest).pos + (eatWhileAux p pos rest).rest.length = pos + rest.length ∧
    pos ≤ (eatWhileAux p pos rest).pos := by
  induction rest generalizing pos with
  | nil => simp [eatWhileAux]
  | cons x t ih =>
    unfold eatWhileAux
    split
    · have := ih (pos + 1)
      simp only [List.length_cons]
      omega
    · simp

theorem eatWhile_spec (c : Cur) (p : Nat → Bool) :
    (c.eatWhile p).pos + (c.eatWhile p).rest.length = c.pos + c.rest.length ∧
    c.pos ≤ (c.eatWhile p).pos := eatWhileAux_spec p c.pos c.rest

end Cur

theorem eatContAnyChar_some {c c' : Cur} {b : Nat} {r : CharRes}
    (h : eatContAnyChar c b = .some r c') :
    c'.pos + c'.rest.length = c.pos + c.rest.length ∧ c.pos ≤ c'.pos := by
  unfold eatContAnyChar at h
  split at h
  · next n chr hd =>
    cases h
    have := Utf8.decodeCont_chr_le hd
    simp only [List.length_drop]; omega
  · next n hd =>
    cases h
    have := Utf8.decodeCont_bad_le hd
    simp only [List.length_drop]; omega
  · cases h

theorem eatAnyChar_some {c c' : Cur} {r : CharRes} (h : eatAnyChar c = .some r c') :
    c'.pos + c'.rest.length = c.pos + c.rest.length ∧ c.pos < c'.pos := by
  unfold eatAnyChar at h
  split at h
  · cases h
  · next b c1 hb =>
    have h1 := Cur.eatAnyByte_some hb
    split at h
    · cases h
    · next r' c2 hc =>
      cases h
      have h2 := eatContAnyChar_some hc
      omega

theorem eatAnyChar_eof {c : Cur} (h : eatAnyChar c = .eof) : c.rest = [] := by
  unfold eatAnyChar at h
  split at h
  · next hb =>
    unfold Cur.eatAnyByte at hb
    split at hb
    · cases hb
    · assumption
  · split at h <;> cases h

/-- Postcondition of a scanner that has already consumed the first byte:
    `tot` = input length, `sp` = token start. -/
def Scan (tot sp : Nat) : Res → Prop
  | .tok k c' => k ≠ .eof ∧ sp < c'.pos ∧ c'.pos + c'.rest.length = tot
  | .err _ s e => s ≤ e ∧ e ≤ tot
  | .panic _ => True
  | .fuel => False

theorem slComment_spec (pos : Nat) (rest : List Nat) :
    (slComment pos rest).pos + (slComment pos rest).rest.length = pos + rest.length ∧
    pos ≤ (slComment pos rest).pos := by
  induction rest generalizing pos with
  | nil => simp [slComment]
  | cons x t ih =>
    unfold slComment
    split
    · simp only [List.length_cons]; omega
    · have := ih (pos + 1)
      simp only [List.length_cons]; omega

theorem mlComment_spec (start sp : Nat) (pos : Nat) (rest : List Nat) (h1 : start ≤ pos) (h2 : sp < pos) :
    Scan (pos + rest.length) sp (mlComment start pos rest) := by
  induction rest generalizing pos with
  | nil => simp [mlComment, Scan]; omega
  | cons x t ih =>
    unfold mlComment
    split
    · simp only [Scan, List.length_cons]
      refine ⟨by simp, by omega, by omega⟩
    · have := ih (pos + 1) (by omega) (by omega)
      simp only [List.length_cons]
      rw [show pos + (t.length + 1) = pos + 1 + t.length by omega]
      exact this

theorem opLoop_spec (tot : Nat) (sure : Cur) (pos : Nat) (rest : List Nat)
    (hs : sure.pos + sure.rest.length = tot) (hp : pos + rest.length = tot) (hle : sure.pos ≤ pos) :
    (opLoop sure pos rest).pos + (opLoop sure pos rest).rest.length = tot ∧
    sure.pos ≤ (opLoop sure pos rest).pos := by
  induction rest generalizing pos sure with
  | nil => simp [opLoop, hs]
  | cons x t ih =>
    unfold opLoop
    simp only [List.length_cons] at hp
    split
    · simp [hs]
    split
    · have := ih ⟨pos + 1, t⟩ (pos + 1) (by simp; omega) (by omega) (by simp)
      simp only at this
      omega
    split
    · exact ih sure (pos + 1) hs (by omega) (by omega)
    · simp [hs]

theorem lexOperator_spec (tot : Nat) (start c : Cur) (hc : c.pos + c.rest.length = tot)
    (hlt : start.pos < c.pos) : Scan tot start.pos (lexOperator start c) := by
  have := opLoop_spec tot c c.pos c.rest hc hc (Nat.le_refl _)
  unfold lexOperator
  simp only
  split
  · simp only [Scan]; refine ⟨by simp, by omega, this.1⟩
  · split
    · simp only [Scan]; refine ⟨by simp, by omega, this.1⟩
    · simp [Scan]

theorem lexIdent_spec (tot : Nat) (start c : Cur) (hc : c.pos + c.rest.length = tot)
    (hlt : start.pos < c.pos) : Scan tot start.pos (lexIdent start c) := by
  have := Cur.eatWhile_spec c isIdentCont
  unfold lexIdent
  simp only
  split
  · simp only [Scan]; refine ⟨by simp, by omega, by omega⟩
  · split
    · simp only [Scan]; refine ⟨by simp, by omega, by omega⟩
    · simp [Scan]


def NumOk (tot pos : Nat) : NumRes → Prop
  | .done _ c' => c'.pos + c'.rest.length = tot ∧ pos ≤ c'.pos
  | .err _ s e => s ≤ e ∧ e ≤ tot

theorem NumOk.mono {tot tot' p p' : Nat} {r : NumRes} (h : NumOk tot p r) (ht : tot = tot')
    (hp : p' ≤ p) : NumOk tot' p' r := by
  subst ht
  cases r with
  | done a c => exact ⟨h.1, Nat.le_trans hp h.2⟩
  | err k s e => exact h

theorem numLoop_spec (st : NState) (acc : NumAcc) (pos : Nat) (rest : List Nat) :
    NumOk (pos + rest.length) pos (numLoop st acc pos rest) := by
  induction rest generalizing st acc pos with
  | nil =>
    unfold numLoop
    cases st <;> simp only [] <;> (try split) <;> simp [NumOk] <;> omega
  | cons x t ih =>
    unfold numLoop
    cases st <;> simp only [] <;> repeat' split
    all_goals first
      | exact NumOk.mono (ih _ _ _) (by simp only [List.length_cons]; omega) (by omega)
      | (simp only [NumOk, List.length_cons]; omega)
      | exact ⟨rfl, Nat.le_refl _⟩

theorem lexNumber_spec (tot : Nat) (start c : Cur) (chr0 : Nat) (hc : c.pos + c.rest.length = tot)
    (hlt : start.pos < c.pos) : Scan tot start.pos (lexNumber start c chr0) := by
  unfold lexNumber
  simp only
  have := numLoop_spec (.intDigits false)
    { leadingZero := chr0 == 48, digits := [chr0], implicitExp := 0,
      explicitExp := some 0, explicitExpSign := false } c.pos c.rest
  split
  · next k s e hn => rw [hn] at this; simp only [NumOk] at this; simp only [Scan]; omega
  · next acc c' hn =>
    rw [hn] at this; simp only [NumOk] at this
    split
    · simp only [Scan]; omega
    · simp only [Scan]; refine ⟨by simp, by omega, by omega⟩

theorem eatCodeunit_spec (c : Cur) :
    (eatCodeunit c).2.pos + (eatCodeunit c).2.rest.length = c.pos + c.rest.length ∧
    c.pos ≤ (eatCodeunit c).2.pos ∧
    ((eatCodeunit c).1 ≠ none → (eatCodeunit c).2.pos = c.pos + 4) := by
  unfold eatCodeunit
  split
  · simp
  next d0 c1 h1 =>
  have e1 := Cur.eatMapByte_some h1
  split
  · simp; omega
  next d1 c2 h2 =>
  have e2 := Cur.eatMapByte_some h2
  split
  · simp; omega
  next d2 c3 h3 =>
  have e3 := Cur.eatMapByte_some h3
  split
  · simp; omega
  next d3 c4 h4 =>
  have e4 := Cur.eatMapByte_some h4
  simp; omega

/-- Postcondition of an escape: `c` is the cursor after the backslash. -/
def EscOk (tot : Nat) (c : Cur) : EscRes → Prop
  | .push _ c' => c'.pos + c'.rest.length = tot ∧ c.pos < c'.pos
  | .err _ s e => s ≤ e ∧ e ≤ tot
  | .panic => True

theorem lexUnicodeEscape_spec (tot es : Nat) (c0 c : Cur) (hc : c.pos + c.rest.length = tot)
    (hes : es + 2 = c.pos) (h0 : c0.pos < c.pos) : EscOk tot c0 (lexUnicodeEscape es c) := by
  unfold lexUnicodeEscape
  have k1 := eatCodeunit_spec c
  split
  · next c1 h1 => rw [h1] at k1; simp only [EscOk]; simp only at k1; omega
  · next cu1 c1 h1 =>
    rw [h1] at k1; simp only at k1
    have k14 := k1.2.2 (by simp)
    split
    · next c2 h2 =>
      have e2 : c2.pos = c1.pos + 2 ∧ c2.rest.length + 2 = c1.rest.length := by
        split at h2
        · exact Cur.eatSlice_some h2
        · cases h2
      have k2 := eatCodeunit_spec c2
      split
      · next c3 h3 => rw [h3] at k2; simp only [EscOk]; simp only at k2; omega
      · next cu2 c3 h3 =>
        rw [h3] at k2; simp only at k2
        split
        · simp only [EscOk]; omega
        · simp only [EscOk]; omega
    · split
      · simp only [EscOk]; omega
      · simp only [EscOk]; omega

theorem lexEscape_spec (tot start : Nat) (c : Cur) (hc : c.pos + c.rest.length = tot)
    (hs : start < c.pos) : EscOk tot c (lexEscape start c) := by
  unfold lexEscape
  simp only
  split
  · next chr c1 h1 => have := Cur.eatMapByte_some h1; simp only [EscOk]; omega
  · split
    · next c1 h1 =>
      have := Cur.eatByte_some h1
      exact lexUnicodeEscape_spec tot (c.pos - 1) c c1 (by omega) (by omega) (by omega)
    · split
      · simp only [EscOk]; omega
      · trivial
      · next r c1 h1 => have := eatAnyChar_some h1; simp only [EscOk]; omega

theorem quotedLoop_spec (tot start delim : Nat) (f : Nat) (c : Cur) (str : List Nat)
    (hc : c.pos + c.rest.length = tot) (hs : start < c.pos) (hf : c.rest.length < f) :
    Scan tot start (quotedLoop start delim f c str) := by
  induction f generalizing c str with
  | zero => omega
  | succ f ih =>
    unfold quotedLoop
    split
    · next c1 h1 => have := Cur.eatByte_some h1; simp only [Scan]; refine ⟨by simp, by omega, by omega⟩
    · split
      · next c1 h1 =>
        have e1 := Cur.eatByte_some h1
        have k := lexEscape_spec tot start c1 (by omega) (by omega)
        split
        · next chr c2 h2 =>
          rw [h2] at k; simp only [EscOk] at k
          exact ih c2 _ (by omega) (by omega) (by omega)
        · next kk s e h2 => rw [h2] at k; simp only [EscOk] at k; simp only [Scan]; omega
        · trivial
      · split
        · simp only [Scan]; omega
        · trivial
        · next r c1 h1 =>
          have := eatAnyChar_some h1
          exact ih c1 _ (by omega) (by omega) (by omega)

theorem verbatimLoop_spec (tot start delim : Nat) (f : Nat) (c : Cur) (str : List Nat)
    (hc : c.pos + c.rest.length = tot) (hs : start < c.pos) (hf : c.rest.length < f) :
    Scan tot start (verbatimLoop start delim f c str) := by
  induction f generalizing c str with
  | zero => omega
  | succ f ih =>
    unfold verbatimLoop
    split
    · next c1 h1 =>
      have e1 := Cur.eatByte_some h1
      split
      · next c2 h2 =>
        have e2 := Cur.eatByte_some h2
        exact ih c2 _ (by omega) (by omega) (by omega)
      · simp only [Scan]; refine ⟨by simp, by omega, by omega⟩
    · split
      · simp only [Scan]; omega
      · trivial
      · next r c1 h1 =>
        have := eatAnyChar_some h1
        exact ih c1 _ (by omega) (by omega) (by omega)

theorem Cur.eatByteB_spec (c : Cur) (b : Nat) :
    (c.eatByteB b).2.pos + (c.eatByteB b).2.rest.length = c.pos + c.rest.length ∧
    c.pos ≤ (c.eatByteB b).2.pos := by
  unfold Cur.eatByteB
  split
  · next c' h => have := Cur.eatByte_some h; simp only; omega
  · simp

def TbFirstOk (tot : Nat) (p : Nat) : TbFirst → Prop
  | .found pfx c' _ => c'.pos + c'.rest.length = tot ∧ p < c'.pos ∧ pfx ≠ []
  | .err _ s e => s ≤ e ∧ e ≤ tot
  | .fuel => False

theorem tbFirst_spec (tot : Nat) (f : Nat) (c : Cur) (str : List Nat)
    (hc : c.pos + c.rest.length = tot) (hf : c.rest.length < f) :
    TbFirstOk tot c.pos (tbFirst f c str) := by
  induction f generalizing c str with
  | zero => omega
  | succ f ih =>
    unfold tbFirst
    simp only
    have k1 := Cur.eatWhile_spec c isSpTab
    have k2 := Cur.eatByteB_spec (c.eatWhile isSpTab) 13
    generalize (c.eatWhile isSpTab).eatByteB 13 = r at k2 ⊢
    split
    · split
      · next c3 h3 =>
        have e3 := Cur.eatByte_some h3
        have := ih c3 (10 :: if r.1 = true then 13 :: str else str) (by omega) (by omega)
        cases hr : tbFirst f c3 (10 :: if r.1 = true then 13 :: str else str) with
        | found pfx c' s' => rw [hr] at this; simp only [TbFirstOk] at this ⊢; exact ⟨this.1, by omega, this.2.2⟩
        | err k s e => rw [hr] at this; exact this
        | fuel => rw [hr] at this; exact this
      · simp only [TbFirstOk]; omega
    · next hne =>
      simp only [TbFirstOk]
      refine ⟨by omega, ?_, ?_⟩
      · -- the prefix is non-empty, so eatWhile advanced
        have h1 : (c.rest.take ((c.eatWhile isSpTab).pos - c.pos)) ≠ [] := by
          intro h; apply hne; rw [h]; rfl
        have : (c.eatWhile isSpTab).pos - c.pos ≠ 0 := by
          intro h0; apply h1; rw [h0]; rfl
        omega
      · intro h; apply hne; rw [h]; rfl

theorem tbEmptyLines_spec (pos : Nat) (rest str : List Nat) :
    (tbEmptyLines pos rest str).1.pos + (tbEmptyLines pos rest str).1.rest.length = pos + rest.length ∧
    pos ≤ (tbEmptyLines pos rest str).1.pos := by
  fun_induction tbEmptyLines pos rest str with
  | case1 => simp
  | case2 pos t str ih => simp only [List.length_cons]; omega
  | case3 pos str t' h ih => simp only [List.length_cons]; omega
  | case4 => simp

theorem tbLoop_spec (tot start : Nat) (pfx : List Nat) (strip : Bool) (f : Nat) (c : Cur)
    (str : List Nat) (hc : c.pos + c.rest.length = tot) (hs : start < c.pos)
    (hf : c.rest.length < f) : Scan tot start (tbLoop start pfx strip f c str) := by
  induction f generalizing c str with
  | zero => omega
  | succ f ih =>
    unfold tbLoop
    split
    · next c1 h1 =>
      have e1 := Cur.eatByte_some h1
      have k := tbEmptyLines_spec c1.pos c1.rest (10 :: str)
      generalize tbEmptyLines c1.pos c1.rest (10 :: str) = m at k
      simp only at k ⊢
      split
      · next c3 h3 =>
        have e3 := Cur.eatSlice_some h3
        exact ih c3 _ (by omega) (by omega) (by omega)
      · have k3 := Cur.eatWhile_spec m.1 isSpTab
        split
        · next c4 h4 =>
          have e4 := Cur.eatSlice_some h4
          simp only [List.length_cons, List.length_nil] at e4
          split
          · split
            · simp only [Scan]; refine ⟨by simp, by omega, by omega⟩
            · trivial
          · simp only [Scan]; refine ⟨by simp, by omega, by omega⟩
        · simp only [Scan]; omega
    · split
      · simp only [Scan]; omega
      · trivial
      · next r c1 h1 =>
        have := eatAnyChar_some h1
        exact ih c1 _ (by omega) (by omega) (by omega)

theorem lexTextBlock_spec (tot : Nat) (start c : Cur) (hc : c.pos + c.rest.length = tot)
    (hlt : start.pos < c.pos) : Scan tot start.pos (lexTextBlock start c) := by
  unfold lexTextBlock
  simp only
  have k1 := Cur.eatByteB_spec c 45
  generalize c.eatByteB 45 = m at k1 ⊢
  have k2 := Cur.eatWhile_spec m.2 isSpTabCr
  split
  · simp only [Scan]; omega
  · next c3 h3 =>
    have e3 := Cur.eatByte_some h3
    have k4 := tbFirst_spec tot (c3.rest.length + 1) c3 [] (by omega) (by omega)
    split
    · next h => rw [h] at k4; exact k4
    · next k s e h => rw [h] at k4; exact k4
    · next pfx c4 str h =>
      rw [h] at k4; simp only [TbFirstOk] at k4
      exact tbLoop_spec tot start.pos pfx m.1 _ c4 str (by omega) (by omega) (by omega)

/-- Postcondition of `next_token` at cursor `c`. -/
def Good (c : Cur) : Res → Prop
  | .tok k c' => (k = .eof → c.rest = [] ∧ c' = c) ∧ (k ≠ .eof → c.pos < c'.pos) ∧
      c'.pos + c'.rest.length = c.pos + c.rest.length
  | .err _ s e => s ≤ e ∧ e ≤ c.pos + c.rest.length
  | .panic _ => True
  | .fuel => False

theorem Scan.good {c : Cur} {r : Res} (h : Scan (c.pos + c.rest.length) c.pos r) : Good c r := by
  cases r with
  | tok k c' => exact ⟨fun hk => absurd hk h.1, fun _ => h.2.1, h.2.2⟩
  | err k s e => exact h
  | panic s => trivial
  | fuel => exact h

theorem lexSingleLineComment_spec (tot sp : Nat) (c : Cur) (hc : c.pos + c.rest.length = tot)
    (hlt : sp < c.pos) : Scan tot sp (lexSingleLineComment c) := by
  have := slComment_spec c.pos c.rest
  unfold lexSingleLineComment
  simp only [Scan]
  refine ⟨by simp, by omega, by omega⟩

theorem nextToken_good (c : Cur) : Good c (nextToken c) := by
  unfold nextToken
  split
  · next hr => simp [Good, hr]
  next x t hr =>
  have hc1 : (⟨c.pos + 1, t⟩ : Cur).pos + (⟨c.pos + 1, t⟩ : Cur).rest.length = c.pos + c.rest.length := by
    simp [hr]; omega
  have hlt : c.pos < (⟨c.pos + 1, t⟩ : Cur).pos := by simp
  generalize (⟨c.pos + 1, t⟩ : Cur) = c1 at hc1 hlt
  simp only
  split
  · simp only [Good]; refine ⟨by simp, fun _ => hlt, hc1⟩
  split
  · split
    · next c2 h2 =>
      have := Cur.eatByte_some h2
      exact Scan.good (lexSingleLineComment_spec _ _ c2 (by omega) (by omega))
    · split
      · next c2 h2 =>
        have := Cur.eatByte_some h2
        unfold lexMultiLineComment
        exact Scan.good (by
          have := mlComment_spec c.pos c.pos c2.pos c2.rest (by omega) (by omega)
          rw [show c.pos + c.rest.length = c2.pos + c2.rest.length by omega]
          exact this)
      · exact Scan.good (lexOperator_spec _ c c1 hc1 hlt)
  split
  · split
    · next c2 h2 =>
      have := Cur.eatSlice_some h2
      simp only [List.length_cons, List.length_nil] at this
      exact Scan.good (lexTextBlock_spec _ c c2 (by omega) (by omega))
    · exact Scan.good (lexOperator_spec _ c c1 hc1 hlt)
  split
  · exact Scan.good (lexOperator_spec _ c c1 hc1 hlt)
  split
  · have := Cur.eatWhile_spec c1 isWs
    simp only [Good]; refine ⟨by simp, fun _ => by omega, by omega⟩
  split
  · exact Scan.good (lexSingleLineComment_spec _ _ c1 hc1 hlt)
  split
  · exact Scan.good (lexNumber_spec _ c c1 x hc1 hlt)
  split
  · exact Scan.good (lexIdent_spec _ c c1 hc1 hlt)
  split
  · split
    · next c2 h2 =>
      have := Cur.eatByte_some h2
      unfold lexVerbatimString
      exact Scan.good (verbatimLoop_spec _ c.pos 39 _ c2 [] (by omega) (by omega) (by omega))
    · split
      · next c2 h2 =>
        have := Cur.eatByte_some h2
        unfold lexVerbatimString
        exact Scan.good (verbatimLoop_spec _ c.pos 34 _ c2 [] (by omega) (by omega) (by omega))
      · simp only [Good]; omega
  split
  · unfold lexQuotedString
    exact Scan.good (quotedLoop_spec _ c.pos 39 _ c1 [] hc1 hlt (by omega))
  split
  · unfold lexQuotedString
    exact Scan.good (quotedLoop_spec _ c.pos 34 _ c1 [] hc1 hlt (by omega))
  · split
    · trivial
    · next chr c2 h2 => have := eatContAnyChar_some h2; simp only [Good]; omega
    · next n c2 h2 => have := eatContAnyChar_some h2; simp only [Good]; omega

/-! ### The `lex_to_eof` loop -/

/-- `toks` tile `[p, N)` and end with an end-of-file token at `(N, N)`. -/
def Tiles (N : Nat) : Nat → List Token → Prop
  | _, [] => False
  | p, t :: rest => t.start = p ∧
      ((t.kind = .eof ∧ rest = [] ∧ t.stop = p ∧ p = N) ∨
       (t.kind ≠ .eof ∧ p < t.stop ∧ Tiles N t.stop rest))

theorem lexLoop_true_tiles (f : Nat) (c : Cur) (acc toks : List Token)
    (h : lexLoop true f c acc = .ok toks) :
    ∃ suf, toks = acc.reverse ++ suf ∧ Tiles (c.pos + c.rest.length) c.pos suf := by
  induction f generalizing c acc with
  | zero => simp [lexLoop] at h
  | succ f ih =>
    unfold lexLoop at h
    have g := nextToken_good c
    split at h
    · cases h
    · cases h
    · cases h
    · next k c' hn =>
      rw [hn] at g
      simp only [Good] at g
      simp only [Bool.true_or, if_true] at h
      by_cases hk : k = .eof
      · rw [if_pos hk] at h
        cases h
        have g1 := g.1 hk
        refine ⟨[⟨k, c.pos, c'.pos⟩], by simp, ?_⟩
        simp only [Tiles]
        refine ⟨trivial, Or.inl ⟨hk, trivial, ?_, ?_⟩⟩
        · rw [g1.2]
        · rw [g1.1]; simp
      · rw [if_neg hk] at h
        obtain ⟨suf, h1, h2⟩ := ih c' _ h
        refine ⟨⟨k, c.pos, c'.pos⟩ :: suf, by simp [h1], ?_⟩
        simp only [Tiles]
        refine ⟨trivial, Or.inr ⟨hk, g.2.1 hk, ?_⟩⟩
        rw [← g.2.2]; exact h2

theorem lexLoop_no_fuel (flag : Bool) (f : Nat) (c : Cur) (acc : List Token)
    (hf : c.rest.length < f) : lexLoop flag f c acc ≠ .fuel := by
  induction f generalizing c acc with
  | zero => omega
  | succ f ih =>
    unfold lexLoop
    have g := nextToken_good c
    split
    · simp
    · simp
    · next hn => rw [hn] at g; exact absurd g (by simp [Good])
    · next k c' hn =>
      rw [hn] at g
      simp only [Good] at g
      by_cases hk : k = .eof
      · simp only [hk, if_true]; simp
      · simp only [if_neg hk]
        have := g.2.1 hk
        exact ih c' _ (by omega)

theorem lexLoop_err (flag : Bool) (f : Nat) (c : Cur) (acc : List Token) (e : LexErr)
    (h : lexLoop flag f c acc = .err e) : e.start ≤ e.stop ∧ e.stop ≤ c.pos + c.rest.length := by
  induction f generalizing c acc with
  | zero => simp [lexLoop] at h
  | succ f ih =>
    unfold lexLoop at h
    have g := nextToken_good c
    split at h
    · next k s e' hn => rw [hn] at g; cases h; exact g
    · cases h
    · cases h
    · next k c' hn =>
      rw [hn] at g
      simp only [Good] at g
      by_cases hk : k = .eof
      · simp only [hk, if_true] at h; cases h
      · simp only [if_neg hk] at h
        have := ih c' _ h
        omega

/-- Drop whitespace and comment tokens from a successful outcome. -/
def Outcome.dropTrivia : Outcome → Outcome
  | .ok toks => .ok (toks.filter notTrivia)
  | o => o

theorem lexLoop_drop (f : Nat) (c : Cur) (acc : List Token) :
    lexLoop false f c (acc.filter notTrivia) = (lexLoop true f c acc).dropTrivia := by
  induction f generalizing c acc with
  | zero => rfl
  | succ f ih =>
    unfold lexLoop
    split
    · rfl
    · rfl
    · rfl
    · next k c' hn =>
      have hacc : (if (false || !isTrivia k) = true then
            (⟨k, c.pos, c'.pos⟩ : Token) :: acc.filter notTrivia else acc.filter notTrivia) =
          ((⟨k, c.pos, c'.pos⟩ : Token) :: acc).filter notTrivia := by
        simp only [Bool.false_or, List.filter_cons, notTrivia]; rfl
      simp only [Bool.true_or, if_true]
      rw [hacc]
      by_cases hk : k = .eof
      · simp only [if_pos hk, Outcome.dropTrivia, List.filter_reverse]
      · simp only [if_neg hk]; exact ih c' _

theorem Tiles.head {N p : Nat} {toks : List Token} (h : Tiles N p toks) :
    ∃ t rest, toks = t :: rest ∧ t.start = p := by
  cases toks with
  | nil => exact absurd h (by simp [Tiles])
  | cons t rest => exact ⟨t, rest, rfl, h.1⟩

theorem Tiles.adj {N p : Nat} {toks : List Token} (h : Tiles N p toks) :
    ∀ i (hi : i + 1 < toks.length), toks[i].stop = toks[i + 1].start ∧ toks[i].kind ≠ .eof ∧
      toks[i].start < toks[i].stop := by
  induction toks generalizing p with
  | nil => intro i hi; simp at hi
  | cons t rest ih =>
    intro i hi
    simp only [Tiles] at h
    rcases h.2 with ⟨_, hr, _, _⟩ | ⟨hk, hlt, ht⟩
    · subst hr; simp at hi
    · cases i with
      | zero =>
        obtain ⟨t2, r2, hr, hs⟩ := ht.head
        subst hr
        simp only [List.getElem_cons_zero, List.getElem_cons_succ]
        exact ⟨hs.symm, hk, by omega⟩
      | succ j =>
        simp only [List.getElem_cons_succ]
        exact ih ht j (by simpa using hi)

theorem Tiles.last {N p : Nat} {toks : List Token} (h : Tiles N p toks) :
    ∀ t, toks.getLast? = some t → t.kind = .eof ∧ t.start = N ∧ t.stop = N := by
  induction toks generalizing p with
  | nil => exact absurd h (by simp [Tiles])
  | cons t rest ih =>
    intro tl htl
    simp only [Tiles] at h
    rcases h.2 with ⟨hk, hr, hs, hp⟩ | ⟨hk, hlt, ht⟩
    · subst hr
      simp at htl
      subst htl
      exact ⟨hk, by omega, by omega⟩
    · obtain ⟨t2, r2, hr, _⟩ := ht.head
      subst hr
      rw [List.getLast?_cons_cons] at htl
      exact ih ht tl htl

theorem Tiles.le {N p : Nat} {toks : List Token} (h : Tiles N p toks) : p ≤ N := by
  induction toks generalizing p with
  | nil => exact absurd h (by simp [Tiles])
  | cons t rest ih =>
    simp only [Tiles] at h
    rcases h.2 with ⟨_, _, _, hp⟩ | ⟨_, hlt, ht⟩
    · omega
    · have := ih ht; omega

end Rsj.Lexer
