/-
  YAML round trip: the specification reader `readYaml` (RsjProofs/YamlRead.lean)
  applied to the text written by the model of `std.manifestYamlDoc`
  (RsjModel/Yaml.lean) returns exactly the value, for every value whose numbers are
  number tokens and whose objects have distinct keys (`ValOK`), that contains no
  string value ending in a line feed (`NoBlock`: no `|` block scalar is written) and
  whose bare keys are strings under the YAML 1.2 core schema (`KeysOK`; automatic
  with `quote_keys = true`, `keysOK_true`).

  Parts: `YamlRoundtripA` (lines, scalars, keys, first-line shapes),
  `YamlRoundtripS` (`|` block scalars), `YamlRoundtripB` (the block reader by mutual
  induction, fuel bounds).  `readYaml_top` is the common top level of this theorem
  and of `readYaml_manifest_nl` (RsjProofs/YamlBlock.lean: documents followed by a
  line break, with `|` scalars).
-/
import RsjProofs.YamlRoundtripB
namespace Rsj.Yaml
open Rsj.Json

/-- `readYaml` on a text whose first line is a flow scalar, followed by empty lines only -/
theorem readYaml_of_scalar' {text l : Str} {ls : List Str} {v : JVal} (h : linesOf text = l :: ls)
    (hbl : allBlank ls = true) (h1 : readScalar l = some v) : readYaml text = some v := by
  unfold readYaml
  rw [h]
  simp only [hbl, if_true, h1]

theorem readYaml_of_scalar {text l : Str} {v : JVal} (h : linesOf text = [l])
    (h1 : readScalar l = some v) : readYaml text = some v :=
  readYaml_of_scalar' h rfl h1

/-- `readYaml` on a text whose lines are a block collection at indentation 0 -/
theorem readYaml_of_block' {text l : Str} {ls rest : List Str} {v : JVal} (h : linesOf text = l :: ls)
    (h1 : readScalar l = none) (h2 : l ≠ [124])
    (h3 : readBlock (4 * text.length + 4) 0 0 (l :: ls) = some (v, rest)) (hbl : allBlank rest = true) :
    readYaml text = some v := by
  unfold readYaml
  rw [h]
  have e : (if allBlank ls then readScalar l else none) = none := by
    split
    · exact h1
    · rfl
  simp only []
  rw [e]
  simp only [if_neg h2, h3, hbl, if_true]

theorem readYaml_of_block {text l : Str} {ls : List Str} {v : JVal} (h : linesOf text = l :: ls)
    (h1 : readScalar l = none) (h2 : l ≠ [124])
    (h3 : readBlock (4 * text.length + 4) 0 0 (l :: ls) = some (v, [])) : readYaml text = some v :=
  readYaml_of_block' h h1 h2 h3 rfl

/-- `readYaml` on a text whose first line is `|` -/
theorem readYaml_of_bar {text s : Str} {ls rest : List Str} (h : linesOf text = [124] :: ls)
    (h3 : readBlockScalar 0 ls = some (s, rest)) (hbl : allBlank rest = true) :
    readYaml text = some (.str s) := by
  unfold readYaml
  rw [h]
  have e : (if allBlank ls then readScalar [124] else none) = none := by
    split
    · exact readScalar_bar
    · rfl
  simp only []
  rw [e]
  simp only [if_true, h3, hbl]

theorem rel_allBlank {R R' : List Str} (hR : R = [] ∨ R = [[]]) (h : Rel R R') : allBlank R' = true := by
  rcases hR with rfl | rfl
  · rw [h.nil]; rfl
  · exact h.allBlank

/-- the common top level: the lines of the text are those of the value, followed by
    nothing (then no `|` scalar may occur) or by one empty line -/
theorem readYaml_top (iaio qk : Bool) (v : JVal) (hv : ValOK v) (hb : BlockOK v) (hk : KeysOK qk v)
    (text : Str) (R : List Str) (hlines : linesOf text = valL iaio qk 0 false false v ++ R)
    (hR : (R = [] ∧ NoBlock v) ∨ R = [[]]) (hfuel : needE v ≤ 4 * text.length + 3) :
    readYaml text = some v := by
  have hR1 : R = [] ∨ R = [[]] := hR.imp (·.1) id
  have hne : R ≠ [] ∨ NoBlock v := by
    rcases hR with ⟨_, h⟩ | rfl
    · exact Or.inr h
    · exact Or.inl (by simp)
  have hRblank : allBlank R = true := by rcases hR1 with rfl | rfl <;> rfl
  have hstopS : StopSeq (2 * 0) R := by
    rcases hR1 with rfl | rfl
    · trivial
    · exact Or.inl rfl
  have hstopM : StopMap (2 * 0) R := by
    rcases hR1 with rfl | rfl
    · trivial
    · exact Or.inl rfl
  have hrest : RestOK R := by
    rcases hR1 with rfl | rfl
    · trivial
    · exact Or.inr ⟨rfl, rfl⟩
  rcases val_cases v hv with ⟨t, hrs, hl⟩ | ⟨y, ys, rfl⟩ | ⟨k, y, fs, rfl⟩ | ⟨s0, body, rfl, hbody⟩
  · rw [hl, lead_top, List.nil_append, List.singleton_append] at hlines
    exact readYaml_of_scalar' hlines hRblank hrs
  · rw [ValOK] at hv; rw [BlockOK] at hb; rw [KeysOK] at hk; rw [needE] at hfuel
    rw [NoBlock] at hne
    have e : valL iaio qk 0 false false (.arr (y :: ys)) = seqL iaio qk 0 (y :: ys) := by
      rw [valL]; simp
    rw [e] at hlines
    obtain ⟨R', hblock, hrel⟩ := readBlock_seq (rt_seq iaio qk (y :: ys)) 0 (4 * text.length + 4)
      0 0 R hv hb hk (by omega) (Nat.le_refl _) hstopS hrest hne
    obtain ⟨s, more, hy⟩ := valL_ne_nil iaio qk (0 + 1) true false y
    have had := itemHead hy
    rw [seqL_cons ys hy, List.cons_append] at hlines hblock
    have e0 : rep 0 indent ++ 45 :: s = 45 :: s := rfl
    rw [e0] at hlines hblock
    exact readYaml_of_block' hlines (readScalar_dashline had) (by intro h; cases h) hblock
      (rel_allBlank hR1 hrel)
  · rw [ValOK] at hv; rw [BlockOK] at hb; rw [KeysOK] at hk; rw [needE] at hfuel
    rw [NoBlock] at hne
    have hkey : KeyOK qk k := by rw [KeysOKF] at hk; exact hk.1
    have e : valL iaio qk 0 false false (.obj ((k, y) :: fs)) = fieldsL iaio qk 0 (rep 0 indent) ((k, y) :: fs) := by
      rw [valL]; simp
    rw [e] at hlines
    obtain ⟨R', hblock, hrel⟩ := readBlock_map (rt_map iaio qk ((k, y) :: fs)) 0
      (4 * text.length + 4) 0 0 R hv.1 hv.2 hb hk (by omega) (Nat.le_refl _) hstopM hrest hne
    obtain ⟨s, more, hy⟩ := valL_ne_nil iaio qk (0 + 1) false true y
    rw [fieldsL_cons _ fs hy, List.cons_append] at hlines hblock
    have e0 : rep 0 indent ++ (yamlKey qk k ++ 58 :: s) = yamlKey qk k ++ 58 :: s := rfl
    rw [e0] at hlines hblock
    exact readYaml_of_block' hlines (readScalar_keyline hkey s) (keyline_ne_bar qk k s) hblock
      (rel_allBlank hR1 hrel)
  · rw [BlockOK] at hb
    have hRe : R = [[]] := by
      rcases hR with ⟨_, h⟩ | h
      · rw [NoBlock, hbody] at h; cases h
      · exact h
    subst hRe
    rw [valL_block hbody, List.cons_append] at hlines
    simp only [lead_top, List.nil_append, Bool.or_self, Bool.false_eq_true, if_false] at hlines
    obtain ⟨R', h, hrel⟩ := readBlockScalar_block (hb body hbody) 2 0 (by omega) [[]] (Or.inl rfl)
    have e1 : rep (0 + 1) indent = spaces 2 := rfl
    rw [e1] at hlines
    rw [stripSuffixNl_some s0 body hbody]
    exact readYaml_of_bar hlines h hrel.allBlank

/-- **Round trip.**  The reader of the YAML sub-language returns exactly the value
    that `std.manifestYamlDoc` was given. -/
theorem readYaml_manifest (iaio qk : Bool) (v : JVal) (hv : ValOK v) (hb : NoBlock v) (hk : KeysOK qk v) :
    readYaml (manifestYamlDoc iaio qk v) = some v := by
  refine readYaml_top iaio qk v hv (NoBlock.blockOK v hb) hk _ [] ?_ (Or.inl ⟨rfl, hb⟩)
    (needE_le iaio qk 0 false false v)
  rw [List.append_nil]
  exact linesOf_manifest iaio qk v hv

/-- with `quote_keys = true` (the default) there is no condition on the keys -/
theorem readYaml_manifest_quoted (iaio : Bool) (v : JVal) (hv : ValOK v) (hb : NoBlock v) :
    readYaml (manifestYamlDoc iaio true v) = some v :=
  readYaml_manifest iaio true v hv hb (keysOK_true v)

end Rsj.Yaml

#print axioms Rsj.Yaml.readYaml_manifest
