import RsjProofs.EvalEmbBuiltins
/-!
  Store-embedding invariance of the builtins `std_mapWithIndex std_mapWithKey std_join std_range std_member
  std_count std_all std_any` of the evaluator model: on related argument thunks (and related depths) the two
  runs give the same error or related values, and related final stores.
-/
set_option linter.unusedVariables false
namespace Rsj.Eval
open Rsj.Core
set_option linter.unusedSectionVars false
variable [Mode]

section
variable {cfg cfg' : Cfg} [RCfg cfg cfg'] {rec rec' : Task → M Value} (hrec : RecRel rec rec')
include hrec

/-- `std.mapWithIndex`: per element a finished index thunk and a related deferred call -/
theorem std_mapWithIndex_rel {ρ : Emb} {t0 t0' t1 t1' : TId} (d1 : Nat) {d1' : Nat} (ht0 : RT ρ t0 t0')
    (ht1 : RT ρ t1 t1') (hd : RDep d1 d1' := by rdep) :
    MRel ρ RVal (std_mapWithIndex rec t0 t1 d1) (std_mapWithIndex rec' t0' t1' d1') := by
  unfold std_mapWithIndex
  mbind (hrec _ _ _ (.force d1 ht0)) with fv fv' hfv
  mbind (hrec _ _ _ (.force d1 ht1)) with av av' hav
  cases hfv <;> simp only [] <;> try exact MRel_throw rfl
  rename_i f f' hf
  cases hav <;> simp only [] <;> try exact MRel_throw rfl
  · rename_i s
    mnorm
    refine MRel_bind (Q₁ := RList RT) ?_ ?_
    · mfor (RList RT) with acc acc' hacc c hc
      · exact .nil
      · mbind (allocThunk_rel (.done (.num (Float.ofNat c.2)))) with ix ix' hix
        mbind (allocThunk_rel (.done (.str (String.singleton c.1)))) with a a' ha
        mbind (allocThunk_rel (.pending (.call hf (.cons hix (.cons ha .nil))))) with t t' ht
        exact MRel_pure (.yield (hacc.snoc ht))
    · mcont out out' hout
      exact MRel_pure (.arr hout)
  · rename_i xs ys hitems
    mnorm
    refine MRel_bind (Q₁ := RList RT) ?_ ?_
    · refine MRel_forIn (RProd RT REq) (RList RT) (hitems.zipIdx 0) .nil ?_
      intro ρ' hle it it' acc acc' _ _ hit hacc
      lift_hyps hle
      have h2 : it.2 = it'.2 := hit.2
      rw [h2]
      mbind (allocThunk_rel (.done (.num (Float.ofNat it'.2)))) with ix ix' hix
      mbind (allocThunk_rel (.pending (.call hf (.cons hix (.cons hit.1 .nil))))) with t t' ht
      exact MRel_pure (.yield (hacc.snoc ht))
    · mcont out out' hout
      exact MRel_pure (.arr hout)

/-- `std.mapWithKey`: a related one-layer object of deferred calls, then the asserts of the related source objects -/
theorem std_mapWithKey_rel {ρ : Emb} {t0 t0' t1 t1' : TId} (d1 : Nat) {d1' : Nat} (ht0 : RT ρ t0 t0')
    (ht1 : RT ρ t1 t1') (hd : RDep d1 d1' := by rdep) :
    MRel ρ RVal (std_mapWithKey rec t0 t1 d1) (std_mapWithKey rec' t0' t1' d1') := by
  unfold std_mapWithKey
  mbind (hrec _ _ _ (.force d1 ht0)) with fv fv' hfv
  mbind (hrec _ _ _ (.force d1 ht1)) with ov ov' hov
  cases hfv <;> simp only [] <;> try exact MRel_throw rfl
  rename_i f f' hf
  cases hov <;> simp only [] <;> try exact MRel_throw rfl
  rename_i o o' ho
  mnorm
  mbind (getObj_rel ho) with ob ob' hob
  rw [visibleFields_rel hob]
  refine MRel_bind (Q₁ := RList RField) ?_ ?_
  · mfor (RList RField) with acc acc' hacc name hname
    · exact .nil
    · mbind (fieldThunk_rel 0 name ho) with oft oft' hoft
      cases hoft
      · exact MRel_throw rfl
      · rename_i ft ft' hft
        simp only []
        mbind (allocThunk_rel (.done (.str name))) with k k' hk
        mbind (allocThunk_rel (.pending (.call hf (.cons hk (.cons hft .nil))))) with t t' ht
        exact MRel_pure (.yield (hacc.snoc ⟨rfl, rfl, .none, rfl, .some ht⟩))
  · mcont fields fields' hfields
    mbind (allocObj_rel ⟨.cons ⟨rfl, rfl, .none, .none, hfields, rfl⟩ .nil, rfl, rfl⟩) with r r' hr
    mbind (hrec _ _ _ (.asserts d1 ho)) with u u' hu
    exact MRel_pure (.obj hr)

/-- `std.join`: the same string resp. related lists of thunks (loop state: output and the flag `first`) -/
theorem std_join_rel {ρ : Emb} {t0 t0' t1 t1' : TId} (d1 : Nat) {d1' : Nat} (ht0 : RT ρ t0 t0')
    (ht1 : RT ρ t1 t1') (hd : RDep d1 d1' := by rdep) :
    MRel ρ RVal (std_join rec t0 t1 d1) (std_join rec' t0' t1' d1') := by
  unfold std_join
  mbind (hrec _ _ _ (.force d1 ht0)) with sv sv' hsv
  mbind (hrec _ _ _ (.force d1 ht1)) with av av' hav
  cases hav <;> simp only [] <;> try exact MRel_throw rfl
  rename_i items items' hitems
  cases hsv <;> simp only [] <;> try exact MRel_throw rfl
  · rename_i sep
    mnorm
    refine MRel_bind (Q₁ := RProd REq REq) ?_ ?_
    · refine MRel_forIn RT (RProd REq REq) hitems ⟨rfl, rfl⟩ ?_
      intro ρ' hle it it' acc acc' _ _ hit hacc
      lift_hyps hle
      have h1 : acc.1 = acc'.1 := hacc.1
      have h2 : acc.2 = acc'.2 := hacc.2
      rw [h1, h2]
      mbind (hrec _ _ _ (.force d1 hit)) with v v' hv
      cases hv <;> simp only [] <;> first
        | exact MRel_throw rfl
        | exact MRel_pure (.yield ⟨rfl, rfl⟩)
    · mcont out out' hout
      have h1 : out.1 = out'.1 := hout.1
      rw [h1]
      exact MRel_pure (.str _)
  · rename_i sep sep' hsep
    mnorm
    refine MRel_bind (Q₁ := RProd (RList RT) REq) ?_ ?_
    · refine MRel_forIn RT (RProd (RList RT) REq) hitems ⟨.nil, rfl⟩ ?_
      intro ρ' hle it it' acc acc' _ _ hit hacc
      lift_hyps hle
      have h2 : acc.2 = acc'.2 := hacc.2
      rw [h2]
      mbind (hrec _ _ _ (.force d1 hit)) with v v' hv
      cases hv <;> simp only [] <;> try exact MRel_throw rfl
      · exact MRel_pure (.yield ⟨hacc.1, rfl⟩)
      · rename_i part part' hpart
        refine MRel_pure (.yield ⟨?_, rfl⟩)
        show RList RT _ _ _
        split
        · exact hpart
        · exact (hacc.1.append hsep).append hpart
    · mcont out out' hout
      exact MRel_pure (.arr hout.1)

/-- `std.range`: the same numbers in freshly allocated (related) thunks -/
theorem std_range_rel {ρ : Emb} {t0 t0' t1 t1' : TId} (d1 : Nat) {d1' : Nat} (ht0 : RT ρ t0 t0')
    (ht1 : RT ρ t1 t1') (hd : RDep d1 d1' := by rdep) :
    MRel ρ RVal (std_range rec t0 t1 d1) (std_range rec' t0' t1' d1') := by
  unfold std_range
  mbind (hrec _ _ _ (.force d1 ht0)) with fv fv' hfv
  mbind (hrec _ _ _ (.force d1 ht1)) with tv tv' htv
  cases hfv <;> simp only [] <;> try exact MRel_throw rfl
  rename_i a
  cases htv <;> simp only [] <;> try exact MRel_throw rfl
  rename_i b
  cases std_i32Exact a with
  | none => exact MRel_throw rfl
  | some lo =>
    simp only []
    cases std_i32Exact b with
    | none => exact MRel_throw rfl
    | some hi =>
      mnorm
      split
      · exact MRel_throw rfl
      · refine MRel_bind (Q₁ := RList RT) ?_ ?_
        · mfor (RList RT) with acc acc' hacc i hi
          · exact .nil
          · mbind (allocThunk_rel (.done (.num (intToFloat (lo + Int.ofNat i))))) with t t' ht
            exact MRel_pure (.yield (hacc.snoc ht))
        · mcont out out' hout
          exact MRel_pure (.arr hout)

/-- `std.member`: the same boolean (loop with early `return`) -/
theorem std_member_rel {ρ : Emb} {t0 t0' t1 t1' : TId} (d1 : Nat) {d1' : Nat} (ht0 : RT ρ t0 t0')
    (ht1 : RT ρ t1 t1') (hd : RDep d1 d1' := by rdep) :
    MRel ρ RVal (std_member rec t0 t1 d1) (std_member rec' t0' t1' d1') := by
  unfold std_member
  mbind (hrec _ _ _ (.force d1 ht0)) with sv sv' hsv
  cases hsv <;> simp only [] <;> try exact MRel_throw rfl
  · rename_i s
    mbind (hrec _ _ _ (.force d1 ht1)) with nv nv' hnv
    cases hnv <;> simp only [] <;> try exact MRel_throw rfl
    exact MRel_pure (.bool _)
  · rename_i items items' hitems
    mnorm
    have he : items.isEmpty = items'.isEmpty := by cases hitems <;> rfl
    rw [he]
    split
    · exact MRel_pure (.bool _)
    · mbind (hrec _ _ _ (.force d1 ht1)) with x x' hx
      refine MRel_bind (Q₁ := RProd (ROpt RVal) RTrue) ?_ ?_
      · refine MRel_forIn RT _ hitems ⟨.none, trivial⟩ ?_
        intro ρ' hle it it' acc acc' _ _ hit hacc
        lift_hyps hle
        mbind (hrec _ _ _ (.force d1 hit)) with iv iv' hiv
        mbind (hrec _ _ _ (.equals d1 hx hiv)) with r r' hr
        cases hr <;> try simp only []
        all_goals first | exact MRel_pure (.yield ⟨.none, trivial⟩) | skip
        rename_i bb
        cases bb
        · exact MRel_pure (.yield ⟨.none, trivial⟩)
        · exact MRel_pure (.done ⟨.some (.bool _), trivial⟩)
      · mcont s s' hs
        gcases hs.1
        · exact MRel_pure (.bool _)
        · exact MRel_pure ‹_›

/-- `std.count`: the same number -/
theorem std_count_rel {ρ : Emb} {t0 t0' t1 t1' : TId} (d1 : Nat) {d1' : Nat} (ht0 : RT ρ t0 t0')
    (ht1 : RT ρ t1 t1') (hd : RDep d1 d1' := by rdep) :
    MRel ρ RVal (std_count rec t0 t1 d1) (std_count rec' t0' t1' d1') := by
  unfold std_count
  mbind (hrec _ _ _ (.force d1 ht0)) with sv sv' hsv
  cases hsv <;> simp only [] <;> try exact MRel_throw rfl
  · rename_i items items' hitems
    mnorm
    have he : items.isEmpty = items'.isEmpty := by cases hitems <;> rfl
    rw [he]
    split
    · exact MRel_pure (.num _)
    · mbind (hrec _ _ _ (.force d1 ht1)) with x x' hx
      refine MRel_bind (Q₁ := REq) ?_ ?_
      · refine MRel_forIn RT REq hitems rfl ?_
        intro ρ' hle it it' acc acc' _ _ hit hacc
        lift_hyps hle
        cases hacc
        mbind (hrec _ _ _ (.force d1 hit)) with iv iv' hiv
        mbind (hrec _ _ _ (.equals d1 hx hiv)) with r r' hr
        cases hr <;> try simp only []
        all_goals first | exact MRel_pure (.yield rfl) | skip
        rename_i bb
        cases bb
        · exact MRel_pure (.yield rfl)
        · exact MRel_pure (.yield rfl)
      · mcont k k' hk
        cases hk
        exact MRel_pure (.num _)

/-- `std.all`: the same boolean or the same error -/
theorem std_all_rel {ρ : Emb} {t t' : TId} (d1 : Nat) {d1' : Nat} (ht : RT ρ t t')
    (hd : RDep d1 d1' := by rdep) :
    MRel ρ RVal (std_all rec t d1) (std_all rec' t' d1') := by
  unfold std_all
  mbind (hrec _ _ _ (.force d1 ht)) with sv sv' hsv
  cases hsv <;> simp only [] <;> try exact MRel_throw rfl
  · rename_i items items' hitems
    mnorm
    refine MRel_bind (Q₁ := RProd (ROpt RVal) RTrue) ?_ ?_
    · refine MRel_forIn (RProd RT REq) _ (hitems.zipIdx 0) ⟨.none, trivial⟩ ?_
      intro ρ' hle it it' acc acc' _ _ hit hacc
      lift_hyps hle
      have h2 : it.2 = it'.2 := hit.2
      rw [h2]
      mbind (hrec _ _ _ (.force d1 hit.1)) with v v' hv
      cases hv <;> try simp only []
      all_goals first | exact MRel_throw rfl | skip
      rename_i bb
      cases bb
      · exact MRel_pure (.done ⟨.some (.bool _), trivial⟩)
      · exact MRel_pure (.yield ⟨.none, trivial⟩)
    · mcont s s' hs
      gcases hs.1
      · exact MRel_pure (.bool _)
      · exact MRel_pure ‹_›

/-- `std.any`: the same boolean or the same error -/
theorem std_any_rel {ρ : Emb} {t t' : TId} (d1 : Nat) {d1' : Nat} (ht : RT ρ t t')
    (hd : RDep d1 d1' := by rdep) :
    MRel ρ RVal (std_any rec t d1) (std_any rec' t' d1') := by
  unfold std_any
  mbind (hrec _ _ _ (.force d1 ht)) with sv sv' hsv
  cases hsv <;> simp only [] <;> try exact MRel_throw rfl
  · rename_i items items' hitems
    mnorm
    refine MRel_bind (Q₁ := RProd (ROpt RVal) RTrue) ?_ ?_
    · refine MRel_forIn (RProd RT REq) _ (hitems.zipIdx 0) ⟨.none, trivial⟩ ?_
      intro ρ' hle it it' acc acc' _ _ hit hacc
      lift_hyps hle
      have h2 : it.2 = it'.2 := hit.2
      rw [h2]
      mbind (hrec _ _ _ (.force d1 hit.1)) with v v' hv
      cases hv <;> try simp only []
      all_goals first | exact MRel_throw rfl | skip
      rename_i bb
      cases bb
      · exact MRel_pure (.yield ⟨.none, trivial⟩)
      · exact MRel_pure (.done ⟨.some (.bool _), trivial⟩)
    · mcont s s' hs
      gcases hs.1
      · exact MRel_pure (.bool _)
      · exact MRel_pure ‹_›

end
end Rsj.Eval
