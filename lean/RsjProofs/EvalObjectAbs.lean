/-
  Object algebra of the evaluator model, part 3: the evaluator's objects refine
  the stand-alone object model `RsjModel/Object.lean` (on which C07 is proved).

  `absObj` forgets everything but, per layer, the list of
  `(name, visibility, plus-flag)`; the field body is abstracted to `lit 0`
  (the structural functions never look at it).  Evaluator objects contain no
  `Removed` markers, so `absObj o` is always `Closed`.

  `findField` and `extendObject` refine unconditionally.  `fieldsOrder` /
  `visibleFields` / `hasVisibleField` refine for objects whose layers list
  each name at most once (`ObjWF`): a `FHashMap` layer of the implementation
  cannot do otherwise, `addField` refuses a repeated name, and `extendObject`
  preserves it (`objWF_extendObject`).  Without `ObjWF` the two models
  genuinely differ (the evaluator's fold visits a repeated name twice, the
  object model's `Layer.get` only sees the first), which is why the hypothesis
  is explicit.
-/
import RsjProofs.EvalObjectAlg
import RsjProofs.ObjectEval
set_option linter.unusedSimpArgs false
namespace Rsj.Eval
open Rsj.Core

/-! ### the abstraction -/

def absVis : Vis → Object.Vis
  | .default => .default
  | .hidden => .hidden
  | .force => .forceVisible

/-- the `bool` of `expr: Option<(&Expr, bool)>`; a precomputed field is never `+:` -/
def plusOf (f : Field) : Bool :=
  match f.expr with
  | some (_, p) => p
  | none => false

def absField (f : Field) : Object.Name × Object.Field :=
  (f.name, .normal (absVis f.vis) (plusOf f) (.lit 0))

def absLayer (l : Layer) : Object.Layer := l.fields.map absField

def absObj (o : Obj) : Object.Obj := o.layers.map absLayer

/-- a lookup result, abstracted -/
def absFound (r : Option (Nat × Field)) : Option (Nat × Object.Vis × Bool × Object.FExpr) :=
  r.map (fun p => (p.1, absVis p.2.vis, plusOf p.2, Object.FExpr.lit 0))

/-- every layer lists each name at most once -/
def LayerNodup (l : Layer) : Prop := (l.fields.map (fun f => f.name)).Nodup
def ObjWF (o : Obj) : Prop := ∀ l ∈ o.layers, LayerNodup l

theorem absVis_injective {a b : Vis} (h : absVis a = absVis b) : a = b := by
  cases a <;> cases b <;> simp [absVis] at h ⊢

theorem absVis_hidden_iff (v : Vis) : absVis v = Object.Vis.hidden ↔ v = Vis.hidden := by
  cases v <;> simp [absVis]

@[simp] theorem plusOf_cloneField (f : Field) : plusOf (cloneField f) = plusOf f := rfl

theorem absField_cloneField (f : Field) : absField (cloneField f) = absField f := rfl

theorem absLayer_cloneLayer (l : Layer) : absLayer (cloneLayer l) = absLayer l := by
  unfold absLayer
  rw [cloneLayer_fields, List.map_map]
  rfl

@[simp] theorem absObj_length (o : Obj) : (absObj o).length = o.layers.length := by simp [absObj]

/-- **`extendObject` refines `extend`** (same argument order: `lhs + rhs`, the layers of `rhs` on top) -/
theorem absObj_extendObject (a b : Obj) :
    absObj (extendObject a b) = Object.extend (absObj a) (absObj b) := by
  unfold absObj Object.extend
  rw [extendObject_layers, List.map_map, ← List.map_append]
  apply List.map_congr_left
  intro l _
  exact absLayer_cloneLayer l

/-! ### `findField` -/

theorem absLayer_get (l : Layer) (n : String) :
    Object.Layer.get (absLayer l) n =
      (l.fields.find? (fun f => f.name == n)).map
        (fun f => Object.Field.normal (absVis f.vis) (plusOf f) (.lit 0)) := by
  unfold Object.Layer.get absLayer
  induction l.fields with
  | nil => rfl
  | cons f fs ih =>
    simp only [List.map_cons, absField, List.lookup, List.find?]
    rw [show (n == f.name) = (f.name == n) from BEq.comm]
    cases f.name == n with
    | true => rfl
    | false => exact ih

theorem findFrom_abs (n : String) (ls : List Layer) (i : Nat) :
    Object.findFrom (ls.map absLayer) 0 i n = absFound (findField.go n ls i) := by
  induction ls generalizing i with
  | nil => rfl
  | cons l ls ih =>
    simp only [List.map_cons, Object.findFrom, absLayer_get, go_cons]
    cases l.fields.find? (fun f => f.name == n) with
    | some f => rfl
    | none => exact ih (i + 1)

/-- **`findField` refines `findField`**: same layer index, same visibility, same plus-flag -/
theorem findField_abs (o : Obj) (s : Nat) (n : String) :
    Object.findField (absObj o) s n = absFound (findField o s n) := by
  unfold Object.findField absObj
  rw [← List.map_drop, findFrom_abs]
  rfl

theorem absFound_isSome (r : Option (Nat × Field)) : (absFound r).isSome = r.isSome := by
  cases r <;> rfl

theorem hasField_abs (o : Obj) (s : Nat) (n : String) :
    Object.hasField (absObj o) s n = (findField o s n).isSome := by
  unfold Object.hasField
  rw [findField_abs, absFound_isSome]

/-! ### no removal markers -/

theorem residual_abs (ls : List Layer) (n : String) : Object.residual (ls.map absLayer) 0 n = 0 := by
  induction ls with
  | nil => rfl
  | cons l ls ih =>
    simp only [List.map_cons, Object.residual, absLayer_get]
    cases l.fields.find? (fun f => f.name == n) with
    | some f => exact ih
    | none => exact ih

/-- evaluator objects are `Closed` -/
theorem closed_absObj (o : Obj) : Object.Closed (absObj o) := fun n => residual_abs o.layers n

/-! ### the visibility walk -/

theorem filter_name_of_nodup (fs : List Field) (n : String) (h : (fs.map (fun f => f.name)).Nodup) :
    fs.filter (fun f => f.name == n) = (fs.find? (fun f => f.name == n)).toList := by
  induction fs with
  | nil => rfl
  | cons f fs ih =>
    simp only [List.map_cons, List.nodup_cons] at h
    simp only [List.filter_cons, List.find?_cons]
    cases hb : (f.name == n) with
    | true =>
      simp only [if_true, Option.toList_some]
      congr 1
      rw [List.filter_eq_nil_iff]
      intro g hg hgn
      simp only [beq_iff_eq] at hb hgn
      apply h.1
      rw [hb, ← hgn]
      exact List.mem_map.mpr ⟨g, hg, rfl⟩
    | false =>
      simp only [Bool.false_eq_true, if_false]
      exact ih h.2

theorem visList_abs (ls : List Layer) (h : ∀ l ∈ ls, LayerNodup l) (n : String) :
    Object.visList (ls.map absLayer) 0 n = (visOf (ls.flatMap (fun l => l.fields)) n).map absVis := by
  induction ls with
  | nil => rfl
  | cons l ls ih =>
    have ih' := ih (fun l' hl' => h l' (List.mem_cons_of_mem _ hl'))
    have hl : visOf l.fields n = ((l.fields.find? (fun f => f.name == n)).map (fun f => f.vis)).toList := by
      unfold visOf
      rw [filter_name_of_nodup l.fields n (h l (by simp))]
      cases l.fields.find? (fun f => f.name == n) <;> rfl
    simp only [List.map_cons, Object.visList, absLayer_get, List.flatMap_cons, visOf_append, List.map_append, hl]
    cases l.fields.find? (fun f => f.name == n) with
    | some f => simp [ih']
    | none => simpa using ih'

theorem firstNonDefault_abs (w : List Vis) :
    Object.firstNonDefault (w.map absVis) = (firstNonDefault w).map absVis := by
  induction w with
  | nil => rfl
  | cons v w ih => cases v <;> simp [Object.firstNonDefault, firstNonDefault, absVis, ih]

theorem resolve_abs (w : List Vis) : Object.resolve (w.map absVis) = (resolveVis w).map absVis := by
  cases w with
  | nil => rfl
  | cons v w =>
    simp only [List.map_cons, Object.resolve, resolveVis, Option.map_some]
    rw [← List.map_cons, firstNonDefault_abs]
    cases firstNonDefault (v :: w) <;> rfl

/-- the visibility `get_fields_order` computes, in both models -/
theorem finalVis_abs (o : Obj) (h : ObjWF o) (n : String) :
    Object.finalVis (absObj o) n = (lookupVis (fieldsOrder o) n).map absVis := by
  rw [Object.finalVis_eq, lookupVis_fieldsOrder]
  unfold absObj
  rw [visList_abs o.layers h n, resolve_abs]
  rfl

/-! ### `fieldsOrder` -/

theorem sortedInsert_sorted (k : String) (l : List String) (h : l.Pairwise (fun a b => a < b)) :
    (Object.sortedInsert k l).Pairwise (fun a b => a < b) := by
  induction l with
  | nil => simp [Object.sortedInsert]
  | cons x t ih =>
    rw [List.pairwise_cons] at h
    simp only [Object.sortedInsert]
    split
    · next hlt =>
      rw [List.pairwise_cons]
      refine ⟨?_, List.pairwise_cons.mpr h⟩
      intro y hy
      rcases List.mem_cons.mp hy with e | hy
      · subst e; exact hlt
      · exact String.lt_trans hlt (h.1 y hy)
    · next hnlt =>
      split
      · exact List.pairwise_cons.mpr h
      · next hne =>
        rw [List.pairwise_cons]
        refine ⟨?_, ih h.2⟩
        intro y hy
        rcases (Object.mem_sortedInsert k y t).mp hy with e | hy
        · subst e; exact str_lt_of_not_lt_of_ne hnlt hne
        · exact h.1 y hy

/-- the key set of the `BTreeMap` is strictly increasing -/
theorem names_sorted (o : Object.Obj) : (Object.names o).Pairwise (fun a b => a < b) := by
  unfold Object.names
  induction Object.rawNames o with
  | nil => simp
  | cons x t ih => exact sortedInsert_sorted x _ ih

theorem object_fieldsOrder_sorted (o : Object.Obj) :
    (Object.fieldsOrder o).Pairwise (fun p q => p.1 < q.1) := by
  unfold Object.fieldsOrder
  apply List.Pairwise.filterMap _ _ (names_sorted o)
  intro a a' haa b hb b' hb'
  cases h1 : Object.finalVis o a with
  | none => rw [h1] at hb; simp at hb
  | some v =>
    cases h2 : Object.finalVis o a' with
    | none => rw [h2] at hb'; simp at hb'
    | some v' =>
      rw [h1] at hb; rw [h2] at hb'
      simp only [Option.map_some, Option.some.injEq] at hb hb'
      subst hb; subst hb'; exact haa

/-- **`fieldsOrder` refines `fieldsOrder`**: same names, same order, same visibilities -/
theorem fieldsOrder_abs (o : Obj) (h : ObjWF o) :
    (fieldsOrder o).map (fun p => (p.1, absVis p.2)) = Object.fieldsOrder (absObj o) := by
  apply eq_of_pairwise_of_mem_iff (fun p q : Object.Name × Object.Vis => p.1 < q.1)
    (fun a b h1 h2 => String.lt_asymm h1 h2)
  · rw [List.pairwise_map]; exact fieldsOrder_sorted o
  · exact object_fieldsOrder_sorted _
  · intro x
    obtain ⟨n, v'⟩ := x
    rw [Object.mem_fieldsOrder, finalVis_abs o h]
    simp only [List.mem_map, Prod.mk.injEq, Prod.exists]
    constructor
    · rintro ⟨a, v, hm, rfl, rfl⟩
      rw [(mem_iff_lookupVis (fieldsOrder_sorted o) a v).mp hm]; rfl
    · intro hl
      cases hv : lookupVis (fieldsOrder o) n with
      | none => rw [hv] at hl; cases hl
      | some v =>
        rw [hv] at hl
        simp only [Option.map_some, Option.some.injEq] at hl
        exact ⟨n, v, lookupVis_some_mem hv, rfl, hl⟩

/-- **`visibleFields` refines `visibleFields`** -/
theorem visibleFields_abs (o : Obj) (h : ObjWF o) :
    visibleFields o = Object.visibleFields (absObj o) := by
  unfold Object.visibleFields visibleFields
  rw [← fieldsOrder_abs o h, List.filterMap_map]
  congr 1
  funext p
  simp only [Function.comp]
  by_cases hv : p.2 = Vis.hidden
  · simp [hv, absVis]
  · have h1 : (p.2 == Vis.hidden) = false := by simp [hv]
    have h2 : absVis p.2 ≠ Object.Vis.hidden := fun e => hv ((absVis_hidden_iff _).mp e)
    simp [h1, h2]

theorem object_mem_visibleFields (o : Object.Obj) (n : Object.Name) :
    n ∈ Object.visibleFields o ↔ Object.hasVisibleField o n = true := by
  rw [Object.visibleFields_eq, Object.hasVisibleField_iff]
  simp only [List.mem_map, List.mem_filter, Prod.exists, exists_and_right, exists_eq_right]
  constructor
  · rintro ⟨v, hm, hv⟩; exact ⟨v, hm, by simpa using hv⟩
  · rintro ⟨v, hm, hv⟩; exact ⟨v, hm, by simpa using hv⟩

/-- **`hasVisibleField` refines `hasVisibleField`** (the evaluator model reads the list, the
    object model walks the layers) -/
theorem hasVisibleField_abs (o : Obj) (h : ObjWF o) (n : String) :
    hasVisibleField o n = Object.hasVisibleField (absObj o) n := by
  have h1 := hasVisibleField_iff o n
  have h2 := object_mem_visibleFields (absObj o) n
  rw [← visibleFields_abs o h] at h2
  cases ha : hasVisibleField o n <;> cases hb : Object.hasVisibleField (absObj o) n <;> simp_all

theorem objLength_abs (o : Obj) (h : ObjWF o) :
    (visibleFields o).length = Object.objLength (absObj o) := by
  unfold Object.objLength; rw [visibleFields_abs o h]

/-! ### `ObjWF` is an invariant of the object constructors -/

theorem layerNodup_cloneLayer (l : Layer) (h : LayerNodup l) : LayerNodup (cloneLayer l) := by
  unfold LayerNodup at *
  rw [cloneLayer_fields, List.map_map]
  exact h

theorem objWF_extendObject {a b : Obj} (ha : ObjWF a) (hb : ObjWF b) : ObjWF (extendObject a b) := by
  intro l hl
  rw [extendObject_layers, List.mem_map] at hl
  obtain ⟨l0, hl0, rfl⟩ := hl
  apply layerNodup_cloneLayer
  rcases List.mem_append.mp hl0 with h | h
  · exact hb l0 h
  · exact ha l0 h

/-- what `add_object_field` does to the layer when it does not fail: one more field, whose
    name was not there -/
theorem layerNodup_snoc (l : Layer) (f : Field) (h : LayerNodup l)
    (hn : l.fields.any (fun g => g.name == f.name) = false) :
    LayerNodup { l with fields := l.fields ++ [f] } := by
  unfold LayerNodup at *
  simp only [List.map_append, List.map_cons, List.map_nil]
  rw [List.nodup_append]
  refine ⟨h, by simp, ?_⟩
  intro a ha b hb
  simp only [List.mem_cons, List.not_mem_nil, or_false] at hb
  subst hb
  obtain ⟨g, hg, rfl⟩ := List.mem_map.mp ha
  intro e
  have := List.any_eq_false.mp hn g hg
  simp [e] at this

/-! ### sample objects for the non-vacuity examples of RsjProps/C07Eval.lean -/

def exField (n : String) (v : Vis) : Field :=
  { name := n, vis := v, baseEnv := none, expr := some (.null, false), thunk := none }
def exLayer (fs : List Field) : Layer :=
  { isTop := true, locals := [], baseEnv := none, env := none, fields := fs, asserts := [] }
def exObj (ls : List Layer) : Obj := { layers := ls, assertsChecked := false }

end Rsj.Eval
