import RsjProofs.EvalNoNaNHelpers
/-!
  "partial_cmp of NaN": binary operators, the generic pure-builtin path (under `SpecNN`: the pure
  function returns NaN-free numbers on NaN-free arguments), object members.
-/
open Std.Do
set_option mvcgen.warning false
namespace Rsj.Eval.NoNaN
open Rsj.Core Rsj.Eval Rsj.Eval.Scope

def PrimNN : Prim → Prop
  | .num f => f.isNaN = false
  | _ => True

def OutNN : PureOut → Prop
  | .prim p => PrimNN p
  | .arr items => ∀ p ∈ items, PrimNN p

def PArgNN : PArg → Prop
  | .num f => f.isNaN = false
  | _ => True

/-- the pure function of a builtin returns NaN-free numbers on NaN-free arguments -/
def SpecNN (spec : PureSpec) : Prop :=
  ∀ args, (∀ a ∈ args, PArgNN a) →
    (∀ out, spec.run args = .ok (.done out) → OutNN out) ∧
    (∀ i item finish, spec.run args = .ok (.elems i item finish) →
      ∀ bytes out, finish bytes = .ok out → OutNN out)

/-- … for every pure builtin of the table -/
def PureNaNFree : Prop := ∀ p, SpecNN (pureSpec p)

theorem mem_split {α} {l pref suff : List α} {x : α} (h : l = pref ++ x :: suff) : x ∈ l := by
  rw [h]; simp

theorem mem_pair {v a b : Value} (h : v ∈ [a, b]) (ha : VNN a) (hb : VNN b) : VNN v := by
  simp only [List.mem_cons, List.mem_singleton, List.not_mem_nil, or_false] at h
  rcases h with rfl | rfl <;> assumption

theorem view_nn {v : Value} (h : VNN v) : PArgNN v.view := by
  cases v <;> first | exact h | trivial

theorem toValue_nn {p : Prim} (h : PrimNN p) : VNN p.toValue := by
  cases p <;> first | exact h | trivial

theorem Good3_toErr (e : PErr) : Good3 e.toErr := by
  cases e <;> simp [PErr.toErr, Good3]

syntax "oclose" : tactic
macro_rules
  | `(tactic| oclose) => `(tactic| first
    | nclose
    | exact Good3_toErr _
    | (simp only [VNN, TSNN, TaskNN]; oclose)
    | (refine ⟨?_, ?_⟩ <;> oclose)
    | exact toValue_nn (by assumption)
    | (intro _; oclose))

section
variable (F : FloatNaNFacts) (cfg : Cfg) (rec : Task → M Value) (hrec : RecOk3 rec)
include F hrec

@[spec] theorem binaryOp_nn (op : BinOp) (l r : Value) (d : Nat) (hs : Bool) :
    ⦃fun st => ⌜NN st⌝⦄ binaryOp cfg rec op l r d hs ⦃Q3 VNN⦄ := by
  have hr := rec_nn F rec hrec
  unfold binaryOp
  mvcgen [hr]
  all_goals (try clear hr)
  all_goals vcp
  all_goals first
    | oclose
    | exact ⟨by assumption, intToFloat_nn F _⟩

@[spec] theorem forceAll_nn (ts : List TId) (d1 : Nat) :
    ⦃fun st => ⌜NN st⌝⦄ forceAll rec ts d1 ⦃Q3 (fun vals => ∀ v ∈ vals, VNN v)⦄ := by
  have hr := rec_nn F rec hrec
  unfold forceAll
  mvcgen [hr]
  on_invs exact inv3 (fun vals => ∀ v ∈ vals, VNN v)
  all_goals (try clear hr)
  all_goals vcp
  all_goals first
    | oclose
    | (refine ⟨by assumption, ?_⟩; intro v hv; simp only [List.mem_append, List.mem_singleton] at hv
       rcases hv with hv | rfl
       · exact (by assumption : ∀ v ∈ _, VNN v) v hv
       · assumption)
    | exact ⟨by assumption, fun v hv => by cases hv⟩

@[spec] theorem coerceAll_nn (vals : List Value) (d1 : Nat) :
    ⦃fun st => ⌜NN st⌝⦄ coerceAll rec vals d1 ⦃Q3 (fun vals => ∀ v ∈ vals, VNN v)⦄ := by
  have hr := rec_nn F rec hrec
  unfold coerceAll
  mvcgen [hr]
  on_invs exact inv3 (fun vals => ∀ v ∈ vals, VNN v)
  all_goals (try clear hr)
  all_goals vcp
  all_goals first
    | oclose
    | (refine ⟨by assumption, ?_⟩; intro v hv; simp only [List.mem_append, List.mem_singleton] at hv
       rcases hv with hv | rfl
       · exact (by assumption : ∀ v ∈ _, VNN v) v hv
       · trivial)
    | exact ⟨by assumption, fun v hv => by cases hv⟩

omit F hrec in
@[spec] theorem allocPrims_nn (items : List Prim) (h : ∀ p ∈ items, PrimNN p) :
    ⦃fun st => ⌜NN st⌝⦄ allocPrims items ⦃Q3 (fun _ => True)⦄ := by
  unfold allocPrims
  mvcgen
  on_invs exact inv3 (fun _ => True)
  all_goals vcp
  all_goals first
    | oclose
    | exact toValue_nn (h _ (mem_split (by assumption)))
    | exact toValue_nn (h _ (by simp))

omit F hrec in
@[spec] theorem pureOut_nn (o : PureOut) (h : OutNN o) :
    ⦃fun st => ⌜NN st⌝⦄ pureOut o ⦃Q3 VNN⦄ := by
  cases o <;> (unfold pureOut; mvcgen; all_goals vcp)
  all_goals first
    | oclose
    | exact h
    | exact ⟨by assumption, toValue_nn h⟩

@[spec] theorem forceBytes_nn (items : List TId) (item : PArg → Except PErr Nat) (d1 : Nat) :
    ⦃fun st => ⌜NN st⌝⦄ forceBytes rec items item d1 ⦃Q3 (fun _ => True)⦄ := by
  have hr := rec_nn F rec hrec
  unfold forceBytes; mvcgen [hr]
  on_invs exact inv3 (fun _ => True)
  all_goals (try clear hr); all_goals vcp; all_goals oclose

omit F hrec in
@[spec] theorem fmtTakeW_nn (spec : Option Format.FW) (items : List TId) (i : Nat) :
    ⦃fun st => ⌜NN st⌝⦄ fmtTakeW spec items i ⦃Q3 (fun _ => True)⦄ := by
  unfold fmtTakeW; mvcgen; all_goals vcp; all_goals oclose

@[spec] theorem fmtForceOpt_nn (t : Option TId) (d : Nat) :
    ⦃fun st => ⌜NN st⌝⦄ fmtForceOpt rec t d ⦃Q3 (fun _ => True)⦄ := by
  unfold fmtForceOpt; nnrec

@[spec] theorem fmtItem_nn (c : Format.Code) (v : Value) (d : Nat) :
    ⦃fun st => ⌜NN st⌝⦄ fmtItem rec c v d ⦃Q3 (fun _ => True)⦄ := by
  have h1 := coerceToString_nn F rec hrec
  unfold fmtItem; mvcgen [h1]; all_goals (try clear h1); all_goals vcp; all_goals oclose

@[spec] theorem fmtArrayCode_nn (c : Format.Code) (items : List TId) (i : Nat) (d : Nat) :
    ⦃fun st => ⌜NN st⌝⦄ fmtArrayCode rec c items i d ⦃Q3 (fun _ => True)⦄ := by
  have hr := rec_nn F rec hrec
  have h1 := fmtForceOpt_nn F rec hrec
  have h2 := fmtItem_nn F rec hrec
  unfold fmtArrayCode; mvcgen [hr, h1, h2]; all_goals (try clear hr h1 h2); all_goals vcp; all_goals oclose

@[spec] theorem fmtArrayPart_nn (p : Format.Part) (items : List TId) (i : Nat) (out : List Char) (d : Nat) :
    ⦃fun st => ⌜NN st⌝⦄ fmtArrayPart rec p items i out d ⦃Q3 (fun _ => True)⦄ := by
  have h1 := fmtArrayCode_nn F rec hrec
  unfold fmtArrayPart; mvcgen [h1]; all_goals (try clear h1); all_goals vcp; all_goals oclose

@[spec] theorem fmtArray_nn (parts : List Format.Part) (items : List TId) (d : Nat) :
    ⦃fun st => ⌜NN st⌝⦄ fmtArray rec parts items d ⦃Q3 VNN⦄ := by
  have h1 := fmtArrayPart_nn F rec hrec
  unfold fmtArray; mvcgen [h1]
  on_invs exact inv3 (fun _ => True)
  all_goals (try clear h1); all_goals vcp; all_goals oclose

@[spec] theorem fmtObjectCode_nn (c : Format.Code) (o : OId) (d : Nat) :
    ⦃fun st => ⌜NN st⌝⦄ fmtObjectCode rec c o d ⦃Q3 (fun _ => True)⦄ := by
  have hr := rec_nn F rec hrec
  have h2 := fmtItem_nn F rec hrec
  unfold fmtObjectCode; mvcgen [hr, h2]; all_goals (try clear hr h2); all_goals vcp; all_goals oclose

@[spec] theorem fmtObjectPart_nn (p : Format.Part) (o : OId) (out : List Char) (d : Nat) :
    ⦃fun st => ⌜NN st⌝⦄ fmtObjectPart rec p o out d ⦃Q3 (fun _ => True)⦄ := by
  have h1 := fmtObjectCode_nn F rec hrec
  unfold fmtObjectPart; mvcgen [h1]; all_goals (try clear h1); all_goals vcp; all_goals oclose

@[spec] theorem fmtObject_nn (parts : List Format.Part) (o : OId) (d : Nat) :
    ⦃fun st => ⌜NN st⌝⦄ fmtObject rec parts o d ⦃Q3 VNN⦄ := by
  have h1 := fmtObjectPart_nn F rec hrec
  unfold fmtObject; mvcgen [h1]
  on_invs exact inv3 (fun _ => True)
  all_goals (try clear h1); all_goals vcp; all_goals oclose

@[spec] theorem pureFinish_nn (spec : PureSpec) (vals : List Value) (d1 : Nat) (hs : SpecNN spec)
    (hv : ∀ v ∈ vals, VNN v) :
    ⦃fun st => ⌜NN st⌝⦄ pureFinish rec spec vals d1 ⦃Q3 VNN⦄ := by
  have hargs : ∀ a ∈ vals.map Value.view, PArgNN a := by
    intro a ha
    obtain ⟨v, hv', rfl⟩ := List.mem_map.1 ha
    exact view_nn (hv v hv')
  have hsp := hs _ hargs
  have h1 := forceBytes_nn F rec hrec
  have h2 := fmtArray_nn F rec hrec
  have h3 := fmtObject_nn F rec hrec
  unfold pureFinish; mvcgen [h1, h2, h3]; all_goals (try clear h1 h2 h3); all_goals vcp
  all_goals first
    | oclose
    | exact (by assumption : ∀ out, _ → OutNN out) _ (by assumption)
    | exact (by assumption : ∀ i item finish, _ → ∀ bytes out, _ → OutNN out) _ _ _ (by assumption) _ _ (by assumption)
    | exact hv _ (List.mem_of_getElem? (by assumption))

@[spec] theorem binaryOp3_nn (op : BinOp) (l r : Value) (d : Nat) (hs : Bool) (hp : PureNaNFree)
    (hl : VNN l) (hr' : VNN r) :
    ⦃fun st => ⌜NN st⌝⦄ binaryOp3 cfg rec op l r d hs ⦃Q3 VNN⦄ := by
  have h1 := pureFinish_nn F rec hrec
  have h2 := binaryOp_nn F cfg rec hrec
  have hf : SpecNN spec_format := hp .format
  unfold binaryOp3; mvcgen [h1, h2]; all_goals (try clear h1 h2); all_goals vcp
  all_goals first
    | oclose
    | exact hf
    | exact mem_pair (by assumption) (by assumption) (by assumption)

@[spec] theorem std_pure_nn (spec : PureSpec) (ts : List TId) (d1 : Nat) (hs : SpecNN spec) :
    ⦃fun st => ⌜NN st⌝⦄ std_pure rec spec ts d1 ⦃Q3 VNN⦄ := by
  have h1 := pureFinish_nn F rec hrec
  have h2 := forceAll_nn F rec hrec
  have h3 := coerceAll_nn F rec hrec
  unfold std_pure; mvcgen [h1, h2, h3]; all_goals (try clear h1 h2 h3); all_goals vcp
  all_goals first
    | oclose
    | exact (by assumption : ∀ v ∈ _, VNN v) _ (by assumption)

@[spec] theorem objectMember_nn (env : EId) (d : Nat) (layer : Layer) (m : Members) :
    ⦃fun st => ⌜NN st⌝⦄ objectMember rec env d layer m ⦃Q3 (fun _ => True)⦄ := by
  unfold objectMember; nnrec

@[spec] theorem sliceArg_nn (env : EId) (d : Nat) (x : OptExpr) :
    ⦃fun st => ⌜NN st⌝⦄ sliceArg rec env d x ⦃Q3 VNN⦄ := by
  have hr := rec_nn F rec hrec
  cases x <;> (unfold sliceArg; mvcgen [hr]; all_goals (try clear hr); all_goals vcp; all_goals oclose)

end
end Rsj.Eval.NoNaN
