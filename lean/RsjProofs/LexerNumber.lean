/-
  Number literals: a declarative reading of the literal text (`litParts`,
  `litValue`), the state-machine invariant of `lex_number`, and the theorem
  that a number token carries exactly the digits / exponent / rational value
  of the text it spans.
-/
import RsjProofs.Lexer
set_option linter.unusedSimpArgs false
namespace Rsj.Lexer

/-! ### Specification side: the parts of a number literal, read off its text -/

/-- Value of a string of ASCII decimal digits. -/
def ofDigits (ds : List Nat) : Nat := ds.foldl (fun a d => a * 10 + (d - 48)) 0

def notUnderscore (b : Nat) : Bool := b != 95
def notExp (b : Nat) : Bool := !isExpChar b
def notDot (b : Nat) : Bool := b != 46

structure LitParts where
  ip : List Nat      -- integer digits
  fp : List Nat      -- fractional digits
  neg : Bool         -- exponent sign is '-'
  ed : List Nat      -- exponent digits
deriving Repr, DecidableEq

/-- Parts of an underscore-free literal. -/
def litPartsF (t : List Nat) : LitParts :=
  let mant := t.takeWhile notExp
  let ex := (t.dropWhile notExp).drop 1
  let ip := mant.takeWhile notDot
  let fp := (mant.dropWhile notDot).drop 1
  match ex with
  | 45 :: r => ⟨ip, fp, true, r⟩
  | 43 :: r => ⟨ip, fp, false, r⟩
  | r => ⟨ip, fp, false, r⟩

/-- Parts of a number literal: drop the `_` separators, split at `e`/`E`, split the mantissa at `.`. -/
def litParts (text : List Nat) : LitParts := litPartsF (text.filter notUnderscore)

def AllDig (l : List Nat) : Prop := ∀ b ∈ l, isDigit b = true

theorem isDigit_facts {x : Nat} (h : isDigit x = true) :
    notUnderscore x = true ∧ notExp x = true ∧ notDot x = true := by
  simp [isDigit] at h
  simp [notUnderscore, notExp, notDot, isExpChar]
  omega

theorem takeWhile_all {p : Nat → Bool} {l : List Nat} (h : ∀ b ∈ l, p b = true) :
    l.takeWhile p = l ∧ l.dropWhile p = [] := by
  induction l with
  | nil => simp
  | cons a t ih =>
    have ha := h a (by simp)
    have := ih (fun b hb => h b (List.mem_cons_of_mem _ hb))
    simp [List.takeWhile, List.dropWhile, ha, this]

theorem takeWhile_stop {p : Nat → Bool} {l r : List Nat} {x : Nat} (h : ∀ b ∈ l, p b = true)
    (hx : p x = false) :
    (l ++ x :: r).takeWhile p = l ∧ (l ++ x :: r).dropWhile p = x :: r := by
  induction l with
  | nil => simp [List.takeWhile, List.dropWhile, hx]
  | cons a t ih =>
    have ha := h a (by simp)
    have := ih (fun b hb => h b (List.mem_cons_of_mem _ hb))
    simp [List.takeWhile, List.dropWhile, ha, this]

def mantOf (I F : List Nat) : List Nat := if F = [] then I else I ++ 46 :: F

theorem AllDig.notExp {l : List Nat} (h : AllDig l) : ∀ b ∈ l, notExp b = true :=
  fun b hb => (isDigit_facts (h b hb)).2.1
theorem AllDig.notDot {l : List Nat} (h : AllDig l) : ∀ b ∈ l, notDot b = true :=
  fun b hb => (isDigit_facts (h b hb)).2.2

theorem mantOf_notExp {I F : List Nat} (hI : AllDig I) (hF : AllDig F) :
    ∀ b ∈ mantOf I F, notExp b = true := by
  intro b hb
  unfold mantOf at hb
  split at hb
  · exact hI.notExp b hb
  · simp only [List.mem_append, List.mem_cons] at hb
    rcases hb with hb | rfl | hb
    · exact hI.notExp b hb
    · simp [notExp, isExpChar]
    · exact hF.notExp b hb

theorem mantOf_split {I F : List Nat} (hI : AllDig I) (hF : AllDig F) :
    (mantOf I F).takeWhile notDot = I ∧ ((mantOf I F).dropWhile notDot).drop 1 = F := by
  unfold mantOf
  split
  · next h => subst h; have := takeWhile_all hI.notDot; simp [this]
  · have := takeWhile_stop (r := F) hI.notDot (show notDot 46 = false by simp [notDot])
    simp [this]

/-- The parts of `mantissa e sign digits`. -/
theorem litPartsF_exp {I F ED sgs : List Nat} {ec : Nat} (hI : AllDig I) (hF : AllDig F)
    (hED : AllDig ED) (hec : isExpChar ec = true)
    (hs : sgs = [] ∨ sgs = [43] ∨ sgs = [45]) :
    litPartsF (mantOf I F ++ ec :: (sgs ++ ED)) = ⟨I, F, sgs == [45], ED⟩ := by
  have h1 := takeWhile_stop (r := sgs ++ ED) (mantOf_notExp hI hF)
    (show notExp ec = false by simp [notExp, hec])
  have h2 := mantOf_split hI hF
  unfold litPartsF
  simp only [h1, h2, List.drop_succ_cons, List.drop_zero]
  rcases hs with rfl | rfl | rfl
  · simp only [List.nil_append]
    cases ED with
    | nil => rfl
    | cons d t =>
      have hd := hED d (by simp)
      simp [isDigit] at hd
      split
      · next h => simp at h; omega
      · next h => simp at h; omega
      · rfl
  · rfl
  · rfl

/-- The parts of a literal without exponent. -/
theorem litPartsF_mant {I F : List Nat} (hI : AllDig I) (hF : AllDig F) :
    litPartsF (mantOf I F) = ⟨I, F, false, []⟩ := by
  have h1 := takeWhile_all (mantOf_notExp hI hF)
  have h2 := mantOf_split hI hF
  unfold litPartsF
  simp only [h1, h2, List.drop_nil]

/-! ### The state machine invariant -/

def Core (acc : NumAcc) (I F : List Nat) : Prop :=
  AllDig I ∧ AllDig F ∧ acc.digits = I ++ F ∧ acc.implicitExp = -(F.length : Int)

def E0 (acc : NumAcc) : Prop := acc.explicitExp = some 0 ∧ acc.explicitExpSign = false

def SgOk (sgs : List Nat) (sign : Bool) : Prop :=
  (sgs = [] ∧ sign = false) ∨ (sgs = [43] ∧ sign = false) ∨ (sgs = [45] ∧ sign = true)

/-- `S` is the text consumed so far with the `_` separators removed. -/
def NInv : NState → NumAcc → List Nat → Prop
  | .intDigits _, acc, S => ∃ I, S = I ∧ Core acc I [] ∧ E0 acc
  | .dot, acc, S => ∃ I, S = I ++ [46] ∧ Core acc I [] ∧ E0 acc
  | .fracDigits _, acc, S => ∃ I F, S = I ++ 46 :: F ∧ F ≠ [] ∧ Core acc I F ∧ E0 acc
  | .exp, acc, S => ∃ I F ec, isExpChar ec = true ∧ S = mantOf I F ++ [ec] ∧ Core acc I F ∧ E0 acc
  | .expSign, acc, S => ∃ I F ec sg, isExpChar ec = true ∧ S = mantOf I F ++ [ec, sg] ∧ Core acc I F ∧
      acc.explicitExp = some 0 ∧ SgOk [sg] acc.explicitExpSign
  | .expDigits _, acc, S => ∃ I F ec sgs ED, isExpChar ec = true ∧ S = mantOf I F ++ ec :: (sgs ++ ED) ∧
      ED ≠ [] ∧ AllDig ED ∧ Core acc I F ∧ (∀ v, acc.explicitExp = some v → v = ofDigits ED) ∧
      SgOk sgs acc.explicitExpSign

/-- What the accumulator of a finished number says, against the parts of the literal. -/
def Parsed (acc : NumAcc) (S : List Nat) : Prop :=
  acc.digits = (litPartsF S).ip ++ (litPartsF S).fp ∧
  acc.implicitExp = -((litPartsF S).fp.length : Int) ∧
  (∀ v, acc.explicitExp = some v → v = ofDigits (litPartsF S).ed) ∧
  acc.explicitExpSign = (litPartsF S).neg

theorem mantOf_nil (I : List Nat) : mantOf I [] = I := by simp [mantOf]
theorem mantOf_cons (I F : List Nat) (h : F ≠ []) : mantOf I F = I ++ 46 :: F := by simp [mantOf, h]

theorem ofDigits_nil : ofDigits [] = 0 := rfl
theorem ofDigits_snoc (l : List Nat) (d : Nat) : ofDigits (l ++ [d]) = ofDigits l * 10 + (d - 48) := by
  simp [ofDigits, List.foldl_append]

theorem parsed_int {acc : NumAcc} {S : List Nat} {u : Bool} (h : NInv (.intDigits u) acc S) :
    Parsed acc S := by
  obtain ⟨I, rfl, ⟨hI, hF, hd, hi⟩, he, hs⟩ := h
  have := litPartsF_mant hI hF
  rw [mantOf_nil] at this
  unfold Parsed
  rw [this]
  refine ⟨hd, by simpa using hi, ?_, hs⟩
  intro v hv; rw [he] at hv; cases hv; rfl

theorem parsed_frac {acc : NumAcc} {S : List Nat} {u : Bool} (h : NInv (.fracDigits u) acc S) :
    Parsed acc S := by
  obtain ⟨I, F, rfl, hne, ⟨hI, hF, hd, hi⟩, he, hs⟩ := h
  have := litPartsF_mant hI hF
  rw [mantOf_cons _ _ hne] at this
  unfold Parsed
  rw [this]
  refine ⟨hd, hi, ?_, hs⟩
  intro v hv; rw [he] at hv; cases hv; rfl

theorem parsed_exp {acc : NumAcc} {S : List Nat} {u : Bool} (h : NInv (.expDigits u) acc S) :
    Parsed acc S := by
  obtain ⟨I, F, ec, sgs, ED, hec, rfl, hne, hED, ⟨hI, hF, hd, hi⟩, he, hs⟩ := h
  have hs' : sgs = [] ∨ sgs = [43] ∨ sgs = [45] := by
    rcases hs with ⟨h, _⟩ | ⟨h, _⟩ | ⟨h, _⟩ <;> simp [h]
  have := litPartsF_exp hI hF hED hec hs'
  unfold Parsed
  rw [this]
  refine ⟨hd, hi, he, ?_⟩
  rcases hs with ⟨h, h'⟩ | ⟨h, h'⟩ | ⟨h, h'⟩ <;> simp [h, h']

/-! ### Transitions -/

theorem AllDig.snoc {l : List Nat} {x : Nat} (h : AllDig l) (hx : isDigit x = true) : AllDig (l ++ [x]) := by
  intro b hb
  simp only [List.mem_append, List.mem_singleton] at hb
  rcases hb with hb | rfl
  · exact h b hb
  · exact hx

theorem AllDig.nil : AllDig [] := by intro b hb; cases hb

theorem t_int_digit {u : Bool} {acc : NumAcc} {S : List Nat} {x : Nat} (h : NInv (.intDigits u) acc S)
    (hx : isDigit x = true) :
    NInv (.intDigits false) { acc with digits := acc.digits ++ [x] } (S ++ [x]) := by
  obtain ⟨I, rfl, ⟨hI, hF, hd, hi⟩, he⟩ := h
  refine ⟨S ++ [x], rfl, ⟨hI.snoc hx, hF, ?_, hi⟩, he⟩
  simp only [List.append_nil] at hd ⊢; rw [hd]

theorem t_int_dot {u : Bool} {acc : NumAcc} {S : List Nat} (h : NInv (.intDigits u) acc S) :
    NInv .dot acc (S ++ [46]) := by
  obtain ⟨I, rfl, hc, he⟩ := h
  exact ⟨S, rfl, hc, he⟩

theorem t_int_exp {u : Bool} {acc : NumAcc} {S : List Nat} {x : Nat} (h : NInv (.intDigits u) acc S)
    (hx : isExpChar x = true) : NInv .exp acc (S ++ [x]) := by
  obtain ⟨I, rfl, hc, he⟩ := h
  exact ⟨S, [], x, hx, by rw [mantOf_nil], hc, he⟩

theorem t_dot_digit {acc : NumAcc} {S : List Nat} {x : Nat} (h : NInv .dot acc S)
    (hx : isDigit x = true) :
    NInv (.fracDigits false)
      { acc with digits := acc.digits ++ [x], implicitExp := acc.implicitExp - 1 } (S ++ [x]) := by
  obtain ⟨I, rfl, ⟨hI, hF, hd, hi⟩, he⟩ := h
  refine ⟨I, [x], by simp, by simp, ⟨hI, AllDig.nil.snoc hx, ?_, ?_⟩, he⟩
  · simp only [List.append_nil] at hd; simp [hd]
  · simp only [List.length_nil] at hi; simp [hi]

theorem t_frac_digit {u : Bool} {acc : NumAcc} {S : List Nat} {x : Nat}
    (h : NInv (.fracDigits u) acc S) (hx : isDigit x = true) :
    NInv (.fracDigits false)
      { acc with digits := acc.digits ++ [x], implicitExp := acc.implicitExp - 1 } (S ++ [x]) := by
  obtain ⟨I, F, rfl, hne, ⟨hI, hF, hd, hi⟩, he⟩ := h
  refine ⟨I, F ++ [x], by simp, by simp, ⟨hI, hF.snoc hx, ?_, ?_⟩, he⟩
  · simp [hd]
  · simp only [List.length_append, List.length_cons, List.length_nil]; rw [hi]; omega

theorem t_frac_exp {u : Bool} {acc : NumAcc} {S : List Nat} {x : Nat}
    (h : NInv (.fracDigits u) acc S) (hx : isExpChar x = true) : NInv .exp acc (S ++ [x]) := by
  obtain ⟨I, F, rfl, hne, hc, he⟩ := h
  exact ⟨I, F, x, hx, by rw [mantOf_cons _ _ hne], hc, he⟩

theorem t_exp_sign {acc : NumAcc} {S : List Nat} (h : NInv .exp acc S) (neg : Bool) :
    NInv .expSign (if neg then { acc with explicitExpSign := true } else acc)
      (S ++ [if neg then 45 else 43]) := by
  obtain ⟨I, F, ec, hec, rfl, hc, he, hs⟩ := h
  cases neg
  · exact ⟨I, F, ec, 43, hec, by simp, hc, he, Or.inr (Or.inl ⟨rfl, hs⟩)⟩
  · exact ⟨I, F, ec, 45, hec, by simp, hc, he, Or.inr (Or.inr ⟨rfl, rfl⟩)⟩

theorem ofDigits_single (x : Nat) : ofDigits [x] = x - 48 := by simp [ofDigits]

theorem t_exp_digit {acc : NumAcc} {S : List Nat} {x : Nat} (h : NInv .exp acc S)
    (hx : isDigit x = true) :
    NInv (.expDigits false) { acc with explicitExp := some (x - 48) } (S ++ [x]) := by
  obtain ⟨I, F, ec, hec, rfl, hc, he, hs⟩ := h
  refine ⟨I, F, ec, [], [x], hec, by simp, by simp, AllDig.nil.snoc hx, hc, ?_, Or.inl ⟨rfl, hs⟩⟩
  intro v hv; cases hv; rw [ofDigits_single]

theorem t_sign_digit {acc : NumAcc} {S : List Nat} {x : Nat} (h : NInv .expSign acc S)
    (hx : isDigit x = true) :
    NInv (.expDigits false) { acc with explicitExp := some (x - 48) } (S ++ [x]) := by
  obtain ⟨I, F, ec, sg, hec, rfl, hc, he, hs⟩ := h
  refine ⟨I, F, ec, [sg], [x], hec, by simp, by simp, AllDig.nil.snoc hx, hc, ?_, hs⟩
  intro v hv; cases hv; rw [ofDigits_single]

theorem expPush_some {e : Option Nat} {d v : Nat} (h : expPush e d = some v) :
    ∃ e', e = some e' ∧ v = e' * 10 + d := by
  unfold expPush at h
  split at h
  · cases h
  · next e' =>
    split at h
    · split at h
      · cases h; exact ⟨e', rfl, rfl⟩
      · cases h
    · cases h

theorem t_expd_digit {u : Bool} {acc : NumAcc} {S : List Nat} {x : Nat}
    (h : NInv (.expDigits u) acc S) (hx : isDigit x = true) :
    NInv (.expDigits false) { acc with explicitExp := expPush acc.explicitExp (x - 48) } (S ++ [x]) := by
  obtain ⟨I, F, ec, sgs, ED, hec, rfl, hne, hED, hc, he, hs⟩ := h
  refine ⟨I, F, ec, sgs, ED ++ [x], hec, by simp, by simp, hED.snoc hx, hc, ?_, hs⟩
  intro v hv
  obtain ⟨e', h1, h2⟩ := expPush_some hv
  rw [ofDigits_snoc, ← he e' h1, h2]

theorem NInv.underscore_int {u : Bool} {acc : NumAcc} {S : List Nat} (h : NInv (.intDigits u) acc S) :
    NInv (.intDigits true) acc S := h
theorem NInv.underscore_frac {u : Bool} {acc : NumAcc} {S : List Nat} (h : NInv (.fracDigits u) acc S) :
    NInv (.fracDigits true) acc S := h
theorem NInv.underscore_expd {u : Bool} {acc : NumAcc} {S : List Nat} (h : NInv (.expDigits u) acc S) :
    NInv (.expDigits true) acc S := h

theorem filter_snoc_keep (seen : List Nat) {x : Nat} (hx : notUnderscore x = true) :
    (seen ++ [x]).filter notUnderscore = seen.filter notUnderscore ++ [x] := by
  simp [List.filter_append, hx]

theorem filter_snoc_drop (seen : List Nat) :
    (seen ++ [95]).filter notUnderscore = seen.filter notUnderscore := by
  simp [List.filter_append, notUnderscore]

/-- Conclusion of `numLoop_parsed`. -/
def NumDone (rest : List Nat) (pos : Nat) (seen : List Nat) (acc' : NumAcc) (c' : Cur) : Prop :=
  ∃ consumed, rest = consumed ++ c'.rest ∧ c'.pos = pos + consumed.length ∧
    Parsed acc' ((seen ++ consumed).filter notUnderscore)

theorem NumDone.stop {rest : List Nat} {pos : Nat} {seen : List Nat} {acc : NumAcc}
    (h : Parsed acc (seen.filter notUnderscore)) : NumDone rest pos seen acc ⟨pos, rest⟩ :=
  ⟨[], by simp, by simp, by simpa using h⟩

theorem NumDone.cons {x : Nat} {t : List Nat} {pos : Nat} {seen : List Nat} {acc' : NumAcc} {c' : Cur}
    (h : NumDone t (pos + 1) (seen ++ [x]) acc' c') : NumDone (x :: t) pos seen acc' c' := by
  obtain ⟨consumed, h1, h2, h3⟩ := h
  refine ⟨x :: consumed, by simp [h1], by rw [h2]; simp; omega, ?_⟩
  simpa using h3

theorem numLoop_parsed (rest : List Nat) : ∀ (st : NState) (acc : NumAcc) (pos : Nat) (seen : List Nat)
    (acc' : NumAcc) (c' : Cur), NInv st acc (seen.filter notUnderscore) →
    numLoop st acc pos rest = .done acc' c' → NumDone rest pos seen acc' c' := by
  induction rest with
  | nil =>
    intro st acc pos seen acc' c' hinv h
    unfold numLoop at h
    cases st <;> simp only [] at h
    · split at h
      · cases h
      · cases h; exact NumDone.stop (parsed_int hinv)
    · cases h
    · split at h
      · cases h
      · cases h; exact NumDone.stop (parsed_frac hinv)
    · cases h
    · cases h
    · split at h
      · cases h
      · cases h; exact NumDone.stop (parsed_exp hinv)
  | cons x t ih =>
    intro st acc pos seen acc' c' hinv h
    unfold numLoop at h
    have keep : ∀ {st' acc2}, notUnderscore x = true → NInv st' acc2 (seen.filter notUnderscore ++ [x]) →
        numLoop st' acc2 (pos + 1) t = .done acc' c' → NumDone (x :: t) pos seen acc' c' := by
      intro st' acc2 hx hi hn
      exact NumDone.cons (ih st' acc2 (pos + 1) (seen ++ [x]) acc' c'
        (by rw [filter_snoc_keep _ hx]; exact hi) hn)
    have drop : ∀ {st' acc2}, (x == 95) = true → NInv st' acc2 (seen.filter notUnderscore) →
        numLoop st' acc2 (pos + 1) t = .done acc' c' → NumDone (x :: t) pos seen acc' c' := by
      intro st' acc2 hx hi hn
      have : x = 95 := by simpa using hx
      subst this
      exact NumDone.cons (ih st' acc2 (pos + 1) (seen ++ [95]) acc' c'
        (by rw [filter_snoc_drop]; exact hi) hn)
    cases st <;> simp only [] at h
    · -- intDigits
      split at h
      · next hx =>
        split at h
        · cases h
        · exact keep (isDigit_facts hx).1 (t_int_digit hinv hx) h
      split at h
      · next hx => exact drop (by simp at hx; simp [hx.2]) hinv.underscore_int h
      split at h
      · cases h
      split at h
      · next hx =>
        have : x = 46 := by simpa using hx
        subst this
        exact keep (by simp [notUnderscore]) (t_int_dot hinv) h
      split at h
      · next hx =>
        exact keep (by simp [isExpChar] at hx; rcases hx with rfl | rfl <;> simp [notUnderscore])
          (t_int_exp hinv hx) h
      · cases h; exact NumDone.stop (parsed_int hinv)
    · -- dot
      split at h
      · next hx => exact keep (isDigit_facts hx).1 (t_dot_digit hinv hx) h
      · cases h
    · -- fracDigits
      split at h
      · next hx => exact keep (isDigit_facts hx).1 (t_frac_digit hinv hx) h
      split at h
      · next hx => exact drop (by simp at hx; simp [hx.2]) hinv.underscore_frac h
      split at h
      · cases h
      split at h
      · next hx =>
        exact keep (by simp [isExpChar] at hx; rcases hx with rfl | rfl <;> simp [notUnderscore])
          (t_frac_exp hinv hx) h
      · cases h; exact NumDone.stop (parsed_frac hinv)
    · -- exp
      split at h
      · next hx =>
        have : x = 43 := by simpa using hx
        subst this
        exact keep (by simp [notUnderscore]) (t_exp_sign hinv false) h
      split at h
      · next hx =>
        have : x = 45 := by simpa using hx
        subst this
        exact keep (by simp [notUnderscore]) (t_exp_sign hinv true) h
      split at h
      · next hx => exact keep (isDigit_facts hx).1 (t_exp_digit hinv hx) h
      · cases h
    · -- expSign
      split at h
      · next hx => exact keep (isDigit_facts hx).1 (t_sign_digit hinv hx) h
      · cases h
    · -- expDigits
      split at h
      · next hx => exact keep (isDigit_facts hx).1 (t_expd_digit hinv hx) h
      split at h
      · next hx => exact drop (by simp at hx; simp [hx.2]) hinv.underscore_expd h
      split at h
      · cases h
      · cases h; exact NumDone.stop (parsed_exp hinv)

/-- The exponent denoted by the parts of a literal. -/
def LitParts.exp (P : LitParts) : Int :=
  (if P.neg then -(ofDigits P.ed : Int) else (ofDigits P.ed : Int)) - (P.fp.length : Int)

/-- `lex_number`: digits and exponent of the token are the parts of the literal text. -/
theorem lexNumber_parts (start c c' : Cur) (chr0 : Nat) (digits : List Nat) (exp : Int)
    (h0 : isDigit chr0 = true) (hr : start.rest = chr0 :: c.rest) (hp : c.pos = start.pos + 1)
    (h : lexNumber start c chr0 = .tok (.number digits exp) c') :
    digits = (litParts (start.rest.take (c'.pos - start.pos))).ip ++
             (litParts (start.rest.take (c'.pos - start.pos))).fp ∧
    exp = (litParts (start.rest.take (c'.pos - start.pos))).exp := by
  unfold lexNumber at h
  simp only at h
  split at h
  · cases h
  · next acc c2 hn =>
    have hinv : NInv (.intDigits false)
        { leadingZero := chr0 == 48, digits := [chr0], implicitExp := 0, explicitExp := some 0,
          explicitExpSign := false } (([chr0] : List Nat).filter notUnderscore) := by
      have : ([chr0] : List Nat).filter notUnderscore = [chr0] := by
        simp [(isDigit_facts h0).1]
      rw [this]
      refine ⟨[chr0], rfl, ⟨?_, AllDig.nil, by simp, by simp⟩, rfl, rfl⟩
      exact AllDig.nil.snoc h0
    obtain ⟨consumed, h1, h2, hpar⟩ := numLoop_parsed c.rest _ _ c.pos [chr0] acc c2 hinv hn
    split at h
    · cases h
    · next ee he =>
      cases h
      have htext : start.rest.take (c'.pos - start.pos) = [chr0] ++ consumed := by
        rw [hr, h1, h2, hp, show start.pos + 1 + consumed.length - start.pos = consumed.length + 1 by omega]
        simp
      unfold litParts
      rw [htext]
      obtain ⟨p1, p2, p3, p4⟩ := hpar
      refine ⟨p1, ?_⟩
      unfold effExp at he
      split at he
      · cases he
      · next e hexp =>
        have hv := p3 e hexp
        by_cases hlim : e < I64_LIM
        · rw [if_pos hlim] at he
          dsimp only at he
          generalize hr : (if acc.explicitExpSign = true then acc.implicitExp - (e : Int)
            else acc.implicitExp + (e : Int)) = r at he
          by_cases hrange : -(I64_LIM : Int) ≤ r ∧ r < (I64_LIM : Int)
          · rw [if_pos hrange] at he
            simp only [Option.some.injEq] at he
            unfold LitParts.exp
            rw [← p4, ← he, ← hr, p2, hv]
            cases acc.explicitExpSign <;> simp <;> omega
          · rw [if_neg hrange] at he; cases he
        · rw [if_neg hlim] at he; cases he

/-! ### Number tokens come from `lex_number` only -/

def Kind.isNumber : Kind → Bool
  | .number _ _ => true
  | _ => false

/-- `r` is not a number token. -/
def NotNum : Res → Prop
  | .tok k _ => k.isNumber = false
  | _ => True

theorem mlComment_notNum (start pos : Nat) (rest : List Nat) : NotNum (mlComment start pos rest) := by
  induction rest generalizing pos with
  | nil => simp [mlComment, NotNum]
  | cons x t ih =>
    unfold mlComment
    split
    · simp [NotNum, Kind.isNumber]
    · exact ih _

theorem lexOperator_notNum (start c : Cur) : NotNum (lexOperator start c) := by
  unfold lexOperator
  simp only
  split
  · simp [NotNum, Kind.isNumber]
  · split <;> simp [NotNum, Kind.isNumber]

theorem lexIdent_notNum (start c : Cur) : NotNum (lexIdent start c) := by
  unfold lexIdent
  simp only
  split
  · simp [NotNum, Kind.isNumber]
  · split <;> simp [NotNum, Kind.isNumber]

theorem quotedLoop_notNum (start delim f : Nat) (c : Cur) (str : List Nat) :
    NotNum (quotedLoop start delim f c str) := by
  induction f generalizing c str with
  | zero => simp [quotedLoop, NotNum]
  | succ f ih =>
    unfold quotedLoop
    split
    · simp [NotNum, Kind.isNumber]
    · split
      · split
        · exact ih _ _
        · simp [NotNum]
        · simp [NotNum]
      · split
        · simp [NotNum]
        · simp [NotNum]
        · exact ih _ _

theorem verbatimLoop_notNum (start delim f : Nat) (c : Cur) (str : List Nat) :
    NotNum (verbatimLoop start delim f c str) := by
  induction f generalizing c str with
  | zero => simp [verbatimLoop, NotNum]
  | succ f ih =>
    unfold verbatimLoop
    split
    · split
      · exact ih _ _
      · simp [NotNum, Kind.isNumber]
    · split
      · simp [NotNum]
      · simp [NotNum]
      · exact ih _ _

theorem tbLoop_notNum (start : Nat) (pfx : List Nat) (strip : Bool) (f : Nat) (c : Cur)
    (str : List Nat) : NotNum (tbLoop start pfx strip f c str) := by
  induction f generalizing c str with
  | zero => simp [tbLoop, NotNum]
  | succ f ih =>
    unfold tbLoop
    split
    · simp only
      split
      · exact ih _ _
      · split
        · split
          · split <;> simp [NotNum, Kind.isNumber]
          · simp [NotNum, Kind.isNumber]
        · simp [NotNum]
    · split
      · simp [NotNum]
      · simp [NotNum]
      · exact ih _ _

theorem lexTextBlock_notNum (start c : Cur) : NotNum (lexTextBlock start c) := by
  unfold lexTextBlock
  simp only
  split
  · simp [NotNum]
  · split
    · simp [NotNum]
    · simp [NotNum]
    · exact tbLoop_notNum _ _ _ _ _ _

theorem NotNum.elim {r : Res} {d : List Nat} {e : Int} {c' : Cur} (h : NotNum r)
    (hr : r = .tok (.number d e) c') : False := by
  subst hr; simp [NotNum, Kind.isNumber] at h

/-- A number token is produced by `lex_number`, started by a digit. -/
theorem nextToken_number_inv {c c' : Cur} {d : List Nat} {e : Int}
    (h : nextToken c = .tok (.number d e) c') :
    ∃ x t, c.rest = x :: t ∧ isDigit x = true ∧
      lexNumber c ⟨c.pos + 1, t⟩ x = .tok (.number d e) c' := by
  unfold nextToken at h
  split at h
  · cases h
  next x t hr =>
  simp only at h
  split at h
  · cases h
  split at h
  · split at h
    · simp [lexSingleLineComment] at h
    · split at h
      · exact (mlComment_notNum _ _ _).elim h |>.elim
      · exact (lexOperator_notNum _ _).elim h |>.elim
  split at h
  · split at h
    · exact (lexTextBlock_notNum _ _).elim h |>.elim
    · exact (lexOperator_notNum _ _).elim h |>.elim
  split at h
  · exact (lexOperator_notNum _ _).elim h |>.elim
  split at h
  · cases h
  split at h
  · simp [lexSingleLineComment] at h
  split at h
  · next hx => exact ⟨x, t, hr, hx, h⟩
  split at h
  · exact (lexIdent_notNum _ _).elim h |>.elim
  split at h
  · split at h
    · exact (verbatimLoop_notNum _ _ _ _ _).elim h |>.elim
    · split at h
      · exact (verbatimLoop_notNum _ _ _ _ _).elim h |>.elim
      · cases h
  split at h
  · exact (quotedLoop_notNum _ _ _ _ _).elim h |>.elim
  split at h
  · exact (quotedLoop_notNum _ _ _ _ _).elim h |>.elim
  · split at h <;> cases h

/-- **Number tokens.** Whenever `next_token` returns a number token, its `digits`
    are the integer digits followed by the fractional digits of the literal text
    it spans, and its `exp` is the literal's exponent minus the number of
    fractional digits. -/
theorem nextToken_number_parts {c c' : Cur} {d : List Nat} {e : Int}
    (h : nextToken c = .tok (.number d e) c') :
    d = (litParts (c.rest.take (c'.pos - c.pos))).ip ++ (litParts (c.rest.take (c'.pos - c.pos))).fp ∧
    e = (litParts (c.rest.take (c'.pos - c.pos))).exp := by
  obtain ⟨x, t, hr, hx, hn⟩ := nextToken_number_inv h
  exact lexNumber_parts c ⟨c.pos + 1, t⟩ c' x d e hx hr rfl hn

/-! ### The rational value of a literal -/

/-- Value denoted by a number token: `digits × 10^exp`. -/
def numValue (digits : List Nat) (exp : Int) : Rat := (ofDigits digits : Rat) * (10 : Rat) ^ exp

/-- Value denoted by the parts of a literal: `(ip + 0.fp) × 10^(±ed)`. -/
def LitParts.value (P : LitParts) : Rat :=
  ((ofDigits P.ip : Rat) + (ofDigits P.fp : Rat) / (10 : Rat) ^ P.fp.length) *
    (10 : Rat) ^ (if P.neg then -(ofDigits P.ed : Int) else (ofDigits P.ed : Int))

/-- The rational number denoted by the text of a number literal (underscores ignored). -/
def litValue (text : List Nat) : Rat := (litParts text).value

theorem foldl_digits (b : List Nat) (acc : Nat) :
    b.foldl (fun a d => a * 10 + (d - 48)) acc =
      acc * 10 ^ b.length + b.foldl (fun a d => a * 10 + (d - 48)) 0 := by
  induction b generalizing acc with
  | nil => simp
  | cons d t ih =>
    simp only [List.foldl_cons, List.length_cons]
    rw [ih (acc * 10 + (d - 48)), ih (0 * 10 + (d - 48))]
    grind

theorem ofDigits_append (a b : List Nat) :
    ofDigits (a ++ b) = ofDigits a * 10 ^ b.length + ofDigits b := by
  unfold ofDigits
  rw [List.foldl_append, foldl_digits]

theorem pow10_ne_zero (k : Nat) : (10 : Rat) ^ k ≠ 0 := by
  induction k with
  | zero => simp
  | succ k ih => rw [Rat.pow_succ]; intro h; rcases Rat.mul_eq_zero.mp h with h | h
                 · exact ih h
                 · revert h; decide

theorem LitParts.value_eq (P : LitParts) : numValue (P.ip ++ P.fp) P.exp = P.value := by
  unfold numValue LitParts.value LitParts.exp
  generalize (if P.neg then -(ofDigits P.ed : Int) else (ofDigits P.ed : Int)) = E
  rw [ofDigits_append, Int.sub_eq_add_neg, Rat.zpow_add (by decide), Rat.zpow_neg, Rat.zpow_natCast,
    Rat.natCast_add, Rat.natCast_mul, Rat.natCast_pow]
  have hX := pow10_ne_zero P.fp.length
  have h10 : ((10 : Nat) : Rat) = 10 := rfl
  rw [h10]
  generalize (10 : Rat) ^ P.fp.length = X at hX ⊢
  generalize (10 : Rat) ^ E = Z
  grind

end Rsj.Lexer
