/-
  Helper lemmas for C17 (part 6): `sort` commutes with mapping the elements when keys
  correspond (the algorithm only looks at keys).  Used to transfer the position-tagged
  specification to arbitrary arrays (`arr = arr.zipIdx.map Prod.fst`).
-/
import RsjProofs.Sort
namespace Rsj.Sort

variable {α β κ : Type} {O : KeyOrd κ} {key : α → κ}

theorem exceptMap_ok {ε : Type} (g : α → β) (x : α) :
    Except.map g (.ok x : Except ε α) = .ok (g x) := rfl

theorem exceptMap_error {ε : Type} (g : α → β) (e : ε) :
    Except.map g (.error e : Except ε α) = .error e := rfl

theorem quick_map (f : β → α) : ∀ (fuel : Nat) (l : List β),
    quick O key fuel (l.map f) = (quick O (fun b => key (f b)) fuel l).map (List.map f) := by
  intro fuel
  induction fuel with
  | zero => intro l; rfl
  | succ fuel ih =>
    intro l
    match l with
    | [] => rfl
    | [_] => rfl
    | pivot :: c :: rest' =>
      simp only [List.map_cons, quick]
      rw [← List.map_cons (f := f) (a := c) (l := rest')]
      generalize c :: rest' = rest
      have hopt : ∀ (p : β → Bool) (q : α → Bool), (∀ b, q (f b) = p b) →
          (if ((rest.map f).filter q).length > 1 then quick O key fuel ((rest.map f).filter q)
            else .ok ((rest.map f).filter q)) =
          (if (rest.filter p).length > 1 then quick O (fun b => key (f b)) fuel (rest.filter p)
            else .ok (rest.filter p)).map (List.map f) := by
        intro p q hpq
        have : (rest.map f).filter q = (rest.filter p).map f := by
          rw [List.filter_map]; congr 1; apply List.filter_congr; intro b _; exact hpq b
        rw [this, List.length_map]
        split
        · exact ih _
        · rfl
      rw [hopt (fun item => ltB O (fun b => key (f b)) item pivot)
            (fun item => ltB O key item (f pivot)) (fun _ => rfl),
          hopt (fun item => !ltB O (fun b => key (f b)) item pivot)
            (fun item => !ltB O key item (f pivot)) (fun _ => rfl)]
      cases (if (rest.filter fun item => ltB O (fun b => key (f b)) item pivot).length > 1 then
          quick O (fun b => key (f b)) fuel (rest.filter fun item => ltB O (fun b => key (f b)) item pivot)
          else .ok (rest.filter fun item => ltB O (fun b => key (f b)) item pivot)) with
      | error e => rfl
      | ok lt' =>
        simp only [exceptMap_ok]
        cases (if (rest.filter fun item => !ltB O (fun b => key (f b)) item pivot).length > 1 then
            quick O (fun b => key (f b)) fuel
              (rest.filter fun item => !ltB O (fun b => key (f b)) item pivot)
            else .ok (rest.filter fun item => !ltB O (fun b => key (f b)) item pivot)) with
        | error e => rfl
        | ok ge' => simp [exceptMap_ok]

theorem sortSlice_map (f : β → α) (thr : Nat) : ∀ (fuel : Nat) (l : List β),
    sortSlice O key thr fuel (l.map f) =
      (sortSlice O (fun b => key (f b)) thr fuel l).map (List.map f) := by
  intro fuel
  induction fuel with
  | zero => intro l; rfl
  | succ fuel ih =>
    intro l
    simp only [sortSlice, List.length_map]
    split
    · rw [← List.map_take, ← List.map_drop, ih, ih]
      cases sortSlice O (fun b => key (f b)) thr fuel (l.take (l.length / 2)) with
      | error e => rfl
      | ok left =>
        simp only [exceptMap_ok]
        cases sortSlice O (fun b => key (f b)) thr fuel (l.drop (l.length / 2)) with
        | error e => rfl
        | ok right =>
          simp only [exceptMap_ok]
          rw [List.map_merge (s := leB O key)]
          intro a _ b _; rfl
    · split
      · exact quick_map f _ _
      · rfl

theorem sort_map (f : β → α) (thr : Nat) (l : List β) :
    sort O key thr (l.map f) = (sort O (fun b => key (f b)) thr l).map (List.map f) := by
  unfold sort
  simp only [List.length_map]
  split
  · rfl
  · exact sortSlice_map f thr _ l

theorem posSorted_zipIdx (arr : List α) :
    PosSorted (fun p : α × Nat => p.2) arr.zipIdx := by
  unfold PosSorted
  have h : (arr.zipIdx.map Prod.snd).Pairwise (· < ·) := by
    rw [List.zipIdx_map_snd]; exact List.pairwise_lt_range'
  exact List.pairwise_map.mp h

/-- `std.sort` of an arbitrary array: the elements tagged with their input position,
    rearranged by key, then position. -/
theorem sort_array (h : Lawful O) {thr : Nat} (hthr : 1 ≤ thr) (arr : List α) :
    ∃ r : List (α × Nat), sort O key thr arr = .ok (r.map Prod.fst) ∧ r.Perm arr.zipIdx ∧
      r.Pairwise (fun x y => O.cmp (key x.1) (key y.1) = .lt ∨
        (O.cmp (key x.1) (key y.1) = .eq ∧ x.2 < y.2)) := by
  obtain ⟨r, e, p, s⟩ := sort_spec (key := fun b : α × Nat => key b.1) h hthr arr.zipIdx
    (posSorted_zipIdx arr)
  refine ⟨r, ?_, p, s⟩
  have := sort_map (O := O) (key := key) (Prod.fst : α × Nat → α) thr arr.zipIdx
  rw [List.zipIdx_map_fst, e] at this
  exact this

end Rsj.Sort
