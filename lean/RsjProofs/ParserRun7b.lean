/-
  C15 print/parse, part 7b: call arguments and the `( … )` postfix form.
-/
import RsjProofs.ParserRun7
namespace Rsj.Parser

section
variable {toks : List Token} (pe : PState toks → Except (Err toks) (Expr × PState toks)) (R : Nat)

omit pe R in
theorem stopTok_comma : StopTok (sim .Comma) :=
  ⟨by simp [NotSuffixStart, sim], noOp_of_not_binop (by intro k hk; simp only [sim, TokKind.simple.injEq] at hk; subst hk; decide)⟩

omit pe R in
theorem peekIdent0 {st : PState toks} {a : TokKind} {ks : List TokKind} (h : st.kinds = a :: ks) :
    peekIdent 0 st = a.isIdent := by
  unfold peekIdent
  rw [(PState.kinds_cons h).1]

omit pe R in
theorem prArg_pos (e : Expr) : prArg false (.positional e) = P e 0 := by
  simp [prArg, sub_false, P]

omit pe R in
theorem prArg_named (n : Ident) (e : Expr) : prArg false (.named n e) = .ident n.value :: sim .Eq :: P e 0 := by
  simp [prArg, sub_false, P]

omit pe R in
theorem P_nonempty {e : Expr} (h : Frag e) (lvl : Nat) : ∃ a l, P e lvl = a :: l ∧
    (a = sim .Super → ∃ r2, l = sim .Dot :: r2 ∨ l = sim .LeftBracket :: r2) := by
  have := (first_tok h lvl).1
  cases hp : P e lvl with
  | nil => rw [hp] at this; exact this.elim
  | cons a l => rw [hp] at this; exact ⟨a, l, rfl, this.2⟩

/-- one argument -/
theorem arg_step {a : Arg} (hf : Frag a.expr) (hh : Handles pe R a.expr) {st : PState toks} {tk : TokKind}
    {T : List TokKind} (hk : st.kinds = prArg false a ++ tk :: T) (hlen : st.kinds.length < R)
    (hstop : StopTok tk) (hne : tk ≠ sim .Eq) :
    ∃ a' st', parseArg pe st = .ok (a', st') ∧ a'.erase = a.erase ∧ st'.kinds = tk :: T := by
  cases a with
  | positional e =>
    simp only [Arg.expr] at hf hh
    rw [prArg_pos] at hk
    obtain ⟨e', st', hp, he, hk'⟩ := hh st tk T hk hlen hstop
    refine ⟨.positional e', st', ?_, by simp [Arg.erase, he], hk'⟩
    have hsec := (sec_tok hf 0).append hne T
    rw [← hk] at hsec
    obtain ⟨x, X, hx, _⟩ := P_nonempty hf 0
    have hk2 : st.kinds = x :: (X ++ tk :: T) := by rw [hk, hx]; rfl
    obtain ⟨b, ks, hbk⟩ : ∃ b ks, X ++ tk :: T = b :: ks := by
      cases X with
      | nil => exact ⟨tk, T, rfl⟩
      | cons b l => exact ⟨b, l ++ tk :: T, rfl⟩
    rw [hbk] at hk2
    have hb : b ≠ sim .Eq := hsec.2 x b ks hk2
    unfold parseArg
    rw [peek1 .Eq hk2]
    have : decide (b = TokKind.simple STok.Eq) = false := by simpa [sim] using hb
    rw [this, Bool.and_false]
    simp only [Bool.false_eq_true, if_false]
    rw [hp]; rfl
  | named n e =>
    simp only [Arg.expr] at hf hh
    rw [prArg_named] at hk
    have hk0 : st.kinds = .ident n.value :: sim .Eq :: (P e 0 ++ tk :: T) := by rw [hk]; rfl
    obtain ⟨x, X, hx, _⟩ := P_nonempty hf 0
    have hk1 : st.kinds = .ident n.value :: sim .Eq :: x :: (X ++ tk :: T) := by rw [hk0, hx]; rfl
    obtain ⟨st1, he1, hks1⟩ := eatIdent_hit false hk1
    obtain ⟨st2, he2, hks2⟩ := eatSimple_hit false hks1
    have hks2' : st2.kinds = P e 0 ++ tk :: T := by rw [hks2, hx]; rfl
    obtain ⟨e', st', hp, he, hk'⟩ := hh st2 tk T hks2' (by
      have : st2.kinds.length ≤ st.kinds.length := by rw [hks2, hk1]; simp
      omega) hstop
    refine ⟨.named ⟨n.value, st.cur.span⟩ e', st', ?_, by simp [Arg.erase, he, Ident.erase], hk'⟩
    unfold parseArg
    rw [peekIdent0 hk1, peek1 .Eq hk1]
    simp only [TokKind.isIdent, sim, decide_true, Bool.and_self, if_true]
    rw [he1]; simp only [bind, Except.bind]
    rw [he2]; simp only []
    rw [hp]; rfl


omit pe R in
theorem prArg_head {a : Arg} (hf : Frag a.expr) : ∃ z Z, prArg false a = z :: Z ∧ z ≠ sim .RightParen := by
  cases a with
  | positional e =>
    simp only [Arg.expr] at hf
    rw [prArg_pos]
    have := (first_tok hf 0).1
    cases hp : P e 0 with
    | nil => rw [hp] at this; exact this.elim
    | cons z Z =>
      rw [hp] at this
      refine ⟨z, Z, rfl, ?_⟩
      intro hz
      have h1 := this.1
      rw [hz] at h1
      simp [ExprStart, sim] at h1
  | named n e => rw [prArg_named]; exact ⟨_, _, rfl, by simp [sim]⟩

omit pe R in
theorem prArgs_head : ∀ (args : List Arg), args ≠ [] → (∀ a ∈ args, Frag a.expr) →
    ∃ z Z, prArgs false args = z :: Z ∧ z ≠ sim .RightParen
  | [], h, _ => absurd rfl h
  | [a], _, hf => by
    obtain ⟨z, Z, h1, h2⟩ := prArg_head (hf a (by simp))
    exact ⟨z, Z, by simp [prArgs, h1], h2⟩
  | a :: b :: rest, _, hf => by
    obtain ⟨z, Z, h1, h2⟩ := prArg_head (hf a (by simp))
    exact ⟨z, Z ++ sim .Comma :: prArgs false (b :: rest), by simp [prArgs, h1], h2⟩

omit pe R in
theorem prArg_length_pos {a : Arg} (hf : Frag a.expr) : 1 ≤ (prArg false a).length := by
  obtain ⟨z, Z, h, _⟩ := prArg_head hf
  rw [h]; simp

omit pe R in
theorem prArgs_length : ∀ (args : List Arg), (∀ a ∈ args, Frag a.expr) → args.length ≤ (prArgs false args).length
  | [], _ => by simp
  | [a], hf => by
    have := prArg_length_pos (hf a (by simp))
    simp [prArgs]; omega
  | a :: b :: rest, hf => by
    have h1 := prArg_length_pos (hf a (by simp))
    have h2 := prArgs_length (b :: rest) (fun x hx => hf x (by simp [hx]))
    simp [prArgs] at h2 ⊢; omega

/-- the argument loop of `parse_args` on a printed, non-empty argument list -/
theorem args_loop : ∀ (args : List Arg), args ≠ [] → (∀ a ∈ args, Frag a.expr ∧ Handles pe R a.expr) →
    ∀ (acc : List Arg) (st : PState toks) (y : TokKind) (Y : List TokKind),
    st.kinds = prArgs false args ++ sim .RightParen :: y :: Y → st.kinds.length < R →
    ∃ args' sp st', eraseArgs args' = eraseArgs args ∧ st'.kinds = y :: Y ∧
      ∀ fuel, args.length ≤ fuel → argsLoop pe fuel acc st = .ok ((acc ++ args', sp), st')
  | [], h, _, _, _, _, _, _, _ => absurd rfl h
  | [a], _, hall, acc, st, y, Y, hk, hlen => by
    have hk0 : st.kinds = prArg false a ++ sim .RightParen :: y :: Y := by simpa [prArgs] using hk
    obtain ⟨a', st1, hp, hea, hk1⟩ := arg_step pe R (hall a (by simp)).1 (hall a (by simp)).2 hk0 hlen
      stopTok_rparen (by simp [sim])
    obtain ⟨st2, he2, hk2⟩ := eatSimple_hit true hk1
    refine ⟨[a'], st1.cur.span, st2, by simp [eraseArgs, hea], hk2, ?_⟩
    intro fuel hfuel
    obtain ⟨f, rfl⟩ : ∃ f, fuel = f + 1 := ⟨fuel - 1, by simp at hfuel; omega⟩
    rw [argsLoop, hp]; simp only [bind, Except.bind]
    rw [he2]; rfl
  | a :: b :: rest, _, hall, acc, st, y, Y, hk, hlen => by
    have hk0 : st.kinds = prArg false a ++ sim .Comma :: (prArgs false (b :: rest) ++ sim .RightParen :: y :: Y) := by
      simpa [prArgs] using hk
    obtain ⟨a', st1, hp, hea, hk1⟩ := arg_step pe R (hall a (by simp)).1 (hall a (by simp)).2 hk0 hlen
      stopTok_comma (by simp [sim])
    have hc1 := cur_kind_of_kinds hk1
    have hm1 : eatSimple .RightParen true st1 = .ok (none, st1.pushIf true (.simple .RightParen)) :=
      eatSimple_miss true (by rw [hc1]; simp [sim])
    obtain ⟨z, Z, hz, hzne⟩ := prArgs_head (b :: rest) (by simp) (fun x hx => (hall x (by simp [hx])).1)
    have hk1' : (st1.pushIf true (.simple .RightParen)).kinds =
        sim .Comma :: z :: (Z ++ sim .RightParen :: y :: Y) := by
      rw [kinds_pushIf, hk1, hz]; rfl
    obtain ⟨st2, he2, hk2⟩ := eatSimple_hit true hk1'
    have hc2 := cur_kind_of_kinds hk2
    have hm2 : eatSimple .RightParen true st2 = .ok (none, st2.pushIf true (.simple .RightParen)) :=
      eatSimple_miss true (by rw [hc2]; simpa [sim] using hzne)
    have hlen1 : st1.kinds.length ≤ st.kinds.length := by rw [hk1, hk0]; simp
    have hlen2 : (st2.pushIf true (.simple .RightParen)).kinds.length < R := by
      rw [kinds_pushIf, hk2]
      rw [hk1] at hlen1
      rw [hz] at hlen1
      simp at hlen1 ⊢
      omega
    obtain ⟨args', sp, st3, hea', hk3, hloop⟩ := args_loop (b :: rest) (by simp)
      (fun x hx => hall x (by simp [hx])) (acc ++ [a']) (st2.pushIf true (.simple .RightParen)) y Y
      (by rw [kinds_pushIf, hk2, hz]; rfl) hlen2
    refine ⟨a' :: args', sp, st3, by simp [eraseArgs, hea, hea'], hk3, ?_⟩
    intro fuel hfuel
    obtain ⟨f, rfl⟩ : ∃ f, fuel = f + 1 := ⟨fuel - 1, by simp at hfuel; omega⟩
    rw [argsLoop, hp]; simp only [bind, Except.bind]
    rw [hm1]; simp only []
    rw [he2]; simp only []
    rw [hm2]; simp only []
    rw [hloop f (by simp at hfuel ⊢; omega)]
    simp


/-- one iteration of the postfix loop on `( args ) [tailstrict]` -/
theorem suffix_call {st : PState toks} (lhs : Expr) (args : List Arg) (ts : Bool)
    (hall : ∀ a ∈ args, Frag a.expr ∧ Handles pe R a.expr) {y : TokKind} {Y : List TokKind}
    (hk : st.kinds = sim .LeftParen :: (prArgs false args ++ sim .RightParen ::
      ((if ts then [sim .Tailstrict] else []) ++ y :: Y)))
    (hlen : st.kinds.length ≤ R) (hy : y ≠ sim .Tailstrict) :
    ∃ args' sp st', eraseArgs args' = eraseArgs args ∧ st'.kinds = y :: Y ∧
      ∀ f, args.length ≤ f →
        parseSuffixExpr pe (f + 1) lhs st = parseSuffixExpr pe f (.call lhs args' ts sp) st' := by
  have hc := (PState.kinds_cons hk).1
  have hm0 : eatSimple .Dot true st = .ok (none, st.pushIf true (.simple .Dot)) :=
    eatSimple_miss true (by rw [hc]; simp [sim])
  have hm1 : eatSimple .LeftBracket true (st.pushIf true (.simple .Dot)) =
      .ok (none, (st.pushIf true (.simple .Dot)).pushIf true (.simple .LeftBracket)) :=
    eatSimple_miss true (by rw [cur_pushIf, hc]; simp [sim])
  -- tokens after the `)`
  obtain ⟨y', Y', hy'⟩ : ∃ y' Y', (if ts then [sim .Tailstrict] else []) ++ y :: Y = y' :: Y' := by
    cases ts
    · exact ⟨y, Y, rfl⟩
    · exact ⟨sim .Tailstrict, y :: Y, rfl⟩
  rw [hy'] at hk
  -- `tailstrict` (or not) in a state whose tokens are `y' :: Y'`
  have tail : ∀ st2 : PState toks, st2.kinds = y' :: Y' →
      ∃ (tsr : Option Span) (st3 : PState toks), eatSimple .Tailstrict true st2 = .ok (tsr, st3) ∧
        tsr.isSome = ts ∧ st3.kinds = y :: Y := by
    intro st2 hk2
    cases ts with
    | false =>
      simp only [Bool.false_eq_true, if_false, List.nil_append, List.cons.injEq] at hy'
      obtain ⟨rfl, rfl⟩ := hy'
      exact ⟨none, _, eatSimple_miss true (by rw [cur_kind_of_kinds hk2]; exact hy), rfl,
        by rw [kinds_pushIf, hk2]⟩
    | true =>
      simp only [if_true, List.cons_append, List.nil_append, List.cons.injEq] at hy'
      obtain ⟨rfl, rfl⟩ := hy'
      obtain ⟨st3, he3, hk3⟩ := eatSimple_hit true hk2
      exact ⟨some st2.cur.span, st3, he3, rfl, hk3⟩
  cases args with
  | nil =>
    have hk0 : st.kinds = sim .LeftParen :: sim .RightParen :: y' :: Y' := by simpa [prArgs] using hk
    obtain ⟨st1, he1, hk1⟩ := eatSimple_hit (st := (st.pushIf true (.simple .Dot)).pushIf true (.simple .LeftBracket))
      true (by rw [kinds_pushIf, kinds_pushIf]; exact hk0)
    obtain ⟨st2, he2, hk2⟩ := eatSimple_hit true hk1
    obtain ⟨tsr, st3, he3, hts, hk3⟩ := tail st2 hk2
    refine ⟨[], surround lhs.span (tsr.getD st1.cur.span), st3, rfl, hk3, fun f _ => ?_⟩
    rw [parseSuffixExpr, hm0]; simp only [bind, Except.bind]
    rw [hm1]; simp only []
    rw [he1]; simp only []
    rw [he2]; simp only [pure, Except.pure]
    rw [he3]; simp only []
    rw [hts]
  | cons a rest =>
    obtain ⟨z, Z, hz, hzne⟩ := prArgs_head (a :: rest) (by simp) (fun x hx => (hall x hx).1)
    have hk0 : st.kinds = sim .LeftParen :: z :: (Z ++ sim .RightParen :: y' :: Y') := by
      rw [hk, hz]; rfl
    obtain ⟨st1, he1, hk1⟩ := eatSimple_hit (st := (st.pushIf true (.simple .Dot)).pushIf true (.simple .LeftBracket))
      true (by rw [kinds_pushIf, kinds_pushIf]; exact hk0)
    have hc1 := cur_kind_of_kinds hk1
    have hm2 : eatSimple .RightParen true st1 = .ok (none, st1.pushIf true (.simple .RightParen)) :=
      eatSimple_miss true (by rw [hc1]; simpa [sim] using hzne)
    have hm3 : eatSimple .RightParen true (st1.pushIf true (.simple .RightParen)) =
        .ok (none, (st1.pushIf true (.simple .RightParen)).pushIf true (.simple .RightParen)) :=
      eatSimple_miss true (by rw [cur_pushIf, hc1]; simpa [sim] using hzne)
    obtain ⟨args', sp, st2, hea, hk2, hloop⟩ := args_loop pe R (a :: rest) (by simp) hall []
      ((st1.pushIf true (.simple .RightParen)).pushIf true (.simple .RightParen)) y' Y'
      (by rw [kinds_pushIf, kinds_pushIf, hk1, hz]; rfl)
      (by
        rw [kinds_pushIf, kinds_pushIf, hk1]
        rw [hk0] at hlen
        simp at hlen ⊢; omega)
    obtain ⟨tsr, st3, he3, hts, hk3⟩ := tail st2 hk2
    refine ⟨args', surround lhs.span (tsr.getD sp), st3, hea, hk3, fun f hf => ?_⟩
    rw [parseSuffixExpr, hm0]; simp only [bind, Except.bind]
    rw [hm1]; simp only []
    rw [he1]; simp only []
    rw [hm2]; simp only []
    unfold parseArgs
    rw [hm3]; simp only [bind, Except.bind]
    rw [hloop f hf]; simp only [List.nil_append]
    rw [he3]; simp only []
    rw [hts]

end
end Rsj.Parser
