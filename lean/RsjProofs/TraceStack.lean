/-
  Helper lemmas for C10 (depth accounting): counter semantics of words of pushes, soundness of
  the bracketing criterion `lo` with respect to the path language `Lang` of extracted code, and
  the stack invariant of the machine `stepM`/`run` of RsjModel/TraceStack.lean.
-/
import RsjModel.TraceStack
namespace Rsj.TraceStack

/-! ### Words of pushes -/

theorem execA_append (u v : List Act) (n : Nat) :
    execA (u ++ v) n = (execA u n).bind (execA v) := by
  induction u generalizing n with
  | nil => simp [execA]
  | cons a r ih =>
    cases a with
    | P => simp only [List.cons_append, execA, ih]
    | D =>
      cases n with
      | zero => simp [execA]
      | succ k => simp only [List.cons_append, execA, ih]
    | O => simp only [List.cons_append, execA, ih]

theorem execA_shift {w : List Act} {n m : Nat} (k : Nat) (h : execA w n = some m) :
    execA w (n + k) = some (m + k) := by
  induction w generalizing n with
  | nil => simp only [execA] at h ⊢; cases h; rfl
  | cons a r ih =>
    cases a with
    | P =>
      simp only [execA] at h ⊢
      have := ih h
      rw [show n + k + 1 = n + 1 + k by omega]; exact this
    | D =>
      cases n with
      | zero => simp [execA] at h
      | succ j =>
        simp only [execA] at h
        have := ih h
        rw [show j + 1 + k = (j + k) + 1 by omega]
        simp only [execA]; exact this
    | O => simp only [execA] at h ⊢; exact ih h

theorem execA_prefix {u v : List Act} {n m : Nat} (h : execA (u ++ v) n = some m) :
    ∃ m1, execA u n = some m1 := by
  rw [execA_append] at h
  cases hu : execA u n with
  | none => rw [hu] at h; cases h
  | some m1 => exact ⟨m1, rfl⟩

/-- A word of pushes is *bracketed*: run from counter 0 it never underflows, i.e. every
    `delay_trace_item` is preceded by an unmatched `push_trace_item` of the same word. -/
def Bracketed (w : List Act) : Prop := ∃ m, execA w 0 = some m

theorem Bracketed.prefix {u v : List Act} (h : Bracketed (u ++ v)) : Bracketed u := by
  obtain ⟨m, hm⟩ := h
  exact execA_prefix hm

/-- What `execA` computes, in terms of counting: the result is `n + #P - #D`, and it is defined
    iff every prefix has `#D ≤ n + #P`. -/
theorem execA_some_iff (w : List Act) (n m : Nat) :
    execA w n = some m ↔
      (m + w.count .D = n + w.count .P ∧
       ∀ pre, pre <+: w → pre.count .D ≤ n + pre.count .P) := by
  induction w generalizing n with
  | nil =>
    simp only [execA, List.count_nil, Nat.add_zero, Option.some.injEq, List.prefix_nil]
    constructor
    · intro h; subst h; exact ⟨rfl, by intro pre hp; subst hp; simp⟩
    · intro h; exact h.1.symm
  | cons a r ih =>
    cases a with
    | P =>
      simp only [execA, ih, List.prefix_cons_iff]
      constructor
      · rintro ⟨h1, h2⟩
        refine ⟨by simp; omega, ?_⟩
        rintro pre (rfl | ⟨t, rfl, ht⟩)
        · simp
        · have := h2 t ht; simp; omega
      · rintro ⟨h1, h2⟩
        refine ⟨by simp at h1; omega, ?_⟩
        intro t ht
        have := h2 (.P :: t) (Or.inr ⟨t, rfl, ht⟩)
        simp at this; omega
    | O =>
      simp only [execA, ih, List.prefix_cons_iff]
      constructor
      · rintro ⟨h1, h2⟩
        refine ⟨by simp; omega, ?_⟩
        rintro pre (rfl | ⟨t, rfl, ht⟩)
        · simp
        · have := h2 t ht; simp; omega
      · rintro ⟨h1, h2⟩
        refine ⟨by simp at h1; omega, ?_⟩
        intro t ht
        have := h2 (.O :: t) (Or.inr ⟨t, rfl, ht⟩)
        simp at this; omega
    | D =>
      cases n with
      | zero =>
        simp only [execA, List.prefix_cons_iff]
        constructor
        · intro h; cases h
        · rintro ⟨_, h2⟩
          have := h2 [.D] (Or.inr ⟨[], rfl, List.nil_prefix⟩)
          simp at this
      | succ k =>
        simp only [execA, ih, List.prefix_cons_iff]
        constructor
        · rintro ⟨h1, h2⟩
          refine ⟨by simp; omega, ?_⟩
          rintro pre (rfl | ⟨t, rfl, ht⟩)
          · simp
          · have := h2 t ht; simp; omega
        · rintro ⟨h1, h2⟩
          refine ⟨by simp at h1; omega, ?_⟩
          intro t ht
          have := h2 (.D :: t) (Or.inr ⟨t, rfl, ht⟩)
          simp at this; omega

/-- Bracketed = the running count `#P − #D` never goes negative. -/
theorem bracketed_iff (w : List Act) :
    Bracketed w ↔ ∀ pre, pre <+: w → pre.count .D ≤ pre.count .P := by
  unfold Bracketed
  constructor
  · rintro ⟨m, hm⟩ pre hp
    have := ((execA_some_iff w 0 m).mp hm).2 pre hp
    omega
  · intro h
    have hw := h w (List.prefix_refl w)
    refine ⟨w.count .P - w.count .D, (execA_some_iff w 0 _).mpr ⟨by omega, ?_⟩⟩
    intro pre hp; have := h pre hp; omega

/-! ### Paths through extracted code, and soundness of the criterion -/

/-- `Lang tbl c w`: `w` is the word of pushes along some path through `c`.  Every iteration of a
    loop and every callee may stop after any prefix of one of its words (`break`, `continue`,
    `return`, `?`); a callee is any function of the table with that name. -/
inductive Lang (tbl : List (String × Code)) : Code → List Act → Prop
  | skip : Lang tbl .skip []
  | P : Lang tbl .P [.P]
  | D : Lang tbl .D [.D]
  | O : Lang tbl .O [.O]
  | seq {a b : Code} {u v : List Act} : Lang tbl a u → Lang tbl b v → Lang tbl (.seq a b) (u ++ v)
  | altL {a b : Code} {u : List Act} : Lang tbl a u → Lang tbl (.alt a b) u
  | altR {a b : Code} {v : List Act} : Lang tbl b v → Lang tbl (.alt a b) v
  | starNil {a : Code} : Lang tbl (.star a) []
  | starCons {a : Code} {u u' v : List Act} :
      Lang tbl a (u ++ u') → Lang tbl (.star a) v → Lang tbl (.star a) (u ++ v)
  | call {f : String} {c : Code} {w w' : List Act} :
      (f, c) ∈ tbl → Lang tbl c (w ++ w') → Lang tbl (.call f) w

theorem lo_sound {tbl : List (String × Code)} (htbl : tableOK tbl = true)
    {c : Code} {w : List Act} (hl : Lang tbl c w) :
    ∀ b b', lo c b = some b' → ∃ m, execA w b = some m ∧ b' ≤ m := by
  have hent : ∀ f c, (f, c) ∈ tbl → ∃ x, lo c 0 = some x := by
    intro f c hm
    unfold tableOK at htbl
    have := (List.all_eq_true.mp htbl) (f, c) hm
    exact Option.isSome_iff_exists.mp this
  induction hl with
  | skip => intro b b' h; simp only [lo] at h; cases h; exact ⟨b, rfl, Nat.le_refl _⟩
  | P => intro b b' h; simp only [lo] at h; cases h; exact ⟨b + 1, rfl, Nat.le_refl _⟩
  | O => intro b b' h; simp only [lo] at h; cases h; exact ⟨b, rfl, Nat.le_refl _⟩
  | D =>
    intro b b' h
    cases b with
    | zero => simp [lo] at h
    | succ k =>
      simp only [lo, Option.some.injEq] at h; subst h; exact ⟨k, rfl, Nat.le_refl _⟩
  | @seq a c u v _ _ iha ihc =>
    intro b b' h
    simp only [lo] at h
    split at h
    · next b1 h1 =>
      obtain ⟨m1, hm1, hle1⟩ := iha b b1 h1
      obtain ⟨m2, hm2, hle2⟩ := ihc b1 b' h
      have := execA_shift (m1 - b1) hm2
      rw [show b1 + (m1 - b1) = m1 by omega] at this
      refine ⟨m2 + (m1 - b1), ?_, by omega⟩
      rw [execA_append, hm1]; exact this
    · cases h
  | @altL a c u _ ih =>
    intro b b' h
    simp only [lo] at h
    split at h
    · next x y hx hy =>
      cases h
      obtain ⟨m, hm, hle⟩ := ih b x hx
      exact ⟨m, hm, by omega⟩
    · cases h
  | @altR a c v _ ih =>
    intro b b' h
    simp only [lo] at h
    split at h
    · next x y hx hy =>
      cases h
      obtain ⟨m, hm, hle⟩ := ih b y hy
      exact ⟨m, hm, by omega⟩
    · cases h
  | starNil =>
    intro b b' h
    simp only [lo] at h
    split at h
    · cases h; exact ⟨b, rfl, Nat.le_refl _⟩
    · cases h
  | @starCons a u u' v _ _ iha ihs =>
    intro b b' h
    obtain ⟨m2, hm2, hle2⟩ := ihs b b' h
    simp only [lo] at h
    split at h
    · next x hx =>
      cases h
      obtain ⟨m, hm, _⟩ := iha 0 x hx
      obtain ⟨k, hk⟩ := execA_prefix hm
      have h1 := execA_shift b hk
      rw [Nat.zero_add] at h1
      have h2 := execA_shift k hm2
      refine ⟨m2 + k, ?_, by omega⟩
      rw [execA_append, h1, Nat.add_comm k b]; exact h2
    · cases h
  | @call f c w w' hmem _ ih =>
    intro b b' h
    simp only [lo] at h; cases h
    obtain ⟨x, hx⟩ := hent f c hmem
    obtain ⟨m, hm, _⟩ := ih 0 x hx
    obtain ⟨k, hk⟩ := execA_prefix hm
    have h1 := execA_shift b hk
    rw [Nat.zero_add] at h1
    exact ⟨k + b, h1, by omega⟩

/-- Every word (and every prefix of a word) of every entry of a table that passes the criterion
    is bracketed. -/
theorem table_bracketed {tbl : List (String × Code)} (htbl : tableOK tbl = true)
    {f : String} {c : Code} (hm : (f, c) ∈ tbl) {w w' : List Act} (hl : Lang tbl c (w ++ w')) :
    Bracketed w := by
  unfold tableOK at htbl
  have := (List.all_eq_true.mp htbl) (f, c) hm
  obtain ⟨x, hx⟩ := Option.isSome_iff_exists.mp this
  obtain ⟨m, hm', _⟩ := lo_sound (by unfold tableOK; exact htbl) hl 0 x hx
  exact execA_prefix hm'

/-! ### The stack invariant -/

/-- Counter effect of one stack item, read bottom-up. -/
def stepItem : Item → Nat → Option Nat
  | .trace, n => some (n + 1)
  | .delayed, 0 => none
  | .delayed, n + 1 => some n
  | .other, n => some n

/-- The counter value determined by a stack (head = top): replay it bottom-up; `none` if some
    delayed item has no trace item below it to cancel. -/
def depth : List Item → Option Nat
  | [] => some 0
  | x :: r => (depth r).bind (stepItem x)

/-- The same, bottom-first with a start value. -/
def bal : List Item → Nat → Option Nat
  | [], n => some n
  | x :: r, n => (stepItem x n).bind (bal r)

/-- **The invariant**: the counter is what the stack says. -/
def Inv (s : St) : Prop := depth s.stack = some s.len

theorem bal_append (l l' : List Item) (n : Nat) : bal (l ++ l') n = (bal l n).bind (bal l') := by
  induction l generalizing n with
  | nil => simp [bal]
  | cons x r ih =>
    simp only [List.cons_append, bal]
    cases stepItem x n with
    | none => simp
    | some k => simp [ih]

theorem depth_eq_bal (st : List Item) : depth st = bal st.reverse 0 := by
  induction st with
  | nil => rfl
  | cons x r ih =>
    simp only [depth, List.reverse_cons, bal_append, ih]
    cases bal r.reverse 0 with
    | none => rfl
    | some k =>
      simp only [Option.bind_some, bal]
      cases stepItem x k <;> rfl

theorem depth_tail {x : Item} {r : List Item} {n : Nat} (h : depth (x :: r) = some n) :
    ∃ m, depth r = some m ∧ stepItem x m = some n := by
  simp only [depth] at h
  cases hr : depth r with
  | none => rw [hr] at h; cases h
  | some m => rw [hr] at h; exact ⟨m, rfl, h⟩

/-- Explicit content of `depth st = some n`. -/
theorem depth_counts {st : List Item} {n : Nat} (h : depth st = some n) :
    n + st.count .delayed = st.count .trace ∧
    ∀ t, t <:+ st → t.count .delayed ≤ t.count .trace := by
  induction st generalizing n with
  | nil =>
    simp only [depth, Option.some.injEq] at h
    subst h
    refine ⟨by simp, ?_⟩
    intro t ht; rw [List.suffix_nil.mp ht]; simp
  | cons x r ih =>
    obtain ⟨m, hr, hs⟩ := depth_tail h
    obtain ⟨h1, h2⟩ := ih hr
    have hcount : n + (x :: r).count .delayed = (x :: r).count .trace := by
      cases x with
      | trace => simp only [stepItem, Option.some.injEq] at hs; simp; omega
      | other => simp only [stepItem, Option.some.injEq] at hs; simp; omega
      | delayed =>
        cases m with
        | zero => simp [stepItem] at hs
        | succ k => simp only [stepItem, Option.some.injEq] at hs; simp; omega
    refine ⟨hcount, ?_⟩
    intro t ht
    rcases List.suffix_cons_iff.mp ht with rfl | ht'
    · omega
    · exact h2 t ht'

theorem traceWalk_ok (l : List Item) (i : Nat) (acc : List Nat) (n : Nat)
    (h : bal l acc.length = some n) :
    ∃ t, traceWalk l i acc = .ok t ∧ t.length = n := by
  induction l generalizing i acc with
  | nil =>
    simp only [bal, Option.some.injEq] at h
    exact ⟨acc.reverse, rfl, by simp [h]⟩
  | cons x r ih =>
    cases x with
    | trace =>
      simp only [bal, stepItem, Option.bind_some] at h
      simp only [traceWalk]
      exact ih (i + 1) (i :: acc) (by simpa using h)
    | other =>
      simp only [bal, stepItem, Option.bind_some] at h
      simp only [traceWalk]
      exact ih (i + 1) acc h
    | delayed =>
      cases acc with
      | nil => simp [bal, stepItem] at h
      | cons a acc' =>
        simp only [bal, List.length_cons, stepItem, Option.bind_some] at h
        simp only [traceWalk]
        exact ih (i + 1) acc' h

/-- `get_stack_trace` cannot hit its `unwrap`, and reports exactly `len` frames. -/
theorem getStackTrace_ok {s : St} (h : Inv s) :
    ∃ t, getStackTrace s = .ok t ∧ t.length = s.len := by
  unfold Inv at h
  rw [depth_eq_bal] at h
  exact traceWalk_ok s.stack.reverse 0 [] s.len (by simpa using h)

theorem act_inv {s : St} (h : Inv s) (a : Act) (hd : a = .D → 1 ≤ s.len) :
    ∃ s', act s a = .ok s' ∧ Inv s' ∧
      s'.len + (if a = .D then 1 else 0) = s.len + (if a = .P then 1 else 0) := by
  unfold Inv at h
  obtain ⟨stack, len⟩ := s
  simp only at h hd
  cases a with
  | P => exact ⟨_, rfl, by simp [Inv, depth, h, stepItem], by simp⟩
  | O => exact ⟨_, rfl, by simp [Inv, depth, h, stepItem], by simp⟩
  | D =>
    have := hd rfl
    cases len with
    | zero => omega
    | succ k =>
      exact ⟨⟨.delayed :: stack, k⟩, by simp [act, decLen], by simp [Inv, depth, h, stepItem],
        by simp⟩

/-- A handler word that is bracketed relative to a start value below the counter keeps the
    invariant and shifts the counter like `execA`. -/
theorem acts_inv (w : List Act) : ∀ (s : St) (j k : Nat), Inv s → j ≤ s.len → execA w j = some k →
    ∃ s', acts s w = .ok s' ∧ Inv s' ∧ s'.len + j = s.len + k := by
  induction w with
  | nil =>
    intro s j k hi hj he
    simp only [execA, Option.some.injEq] at he
    exact ⟨s, rfl, hi, by omega⟩
  | cons a r ih =>
    intro s j k hi hj he
    cases a with
    | P =>
      simp only [execA] at he
      obtain ⟨s1, h1, hi1, hl1⟩ := act_inv hi .P (by intro h; cases h)
      obtain ⟨s', h2, hi2, hl2⟩ := ih s1 (j + 1) k hi1 (by simp at hl1; omega) he
      exact ⟨s', by simp only [acts, h1]; exact h2, hi2, by simp at hl1; omega⟩
    | O =>
      simp only [execA] at he
      obtain ⟨s1, h1, hi1, hl1⟩ := act_inv hi .O (by intro h; cases h)
      obtain ⟨s', h2, hi2, hl2⟩ := ih s1 j k hi1 (by simp at hl1; omega) he
      exact ⟨s', by simp only [acts, h1]; exact h2, hi2, by simp at hl1; omega⟩
    | D =>
      cases j with
      | zero => simp [execA] at he
      | succ j' =>
        simp only [execA] at he
        obtain ⟨s1, h1, hi1, hl1⟩ := act_inv hi .D (by intro _; omega)
        obtain ⟨s', h2, hi2, hl2⟩ := ih s1 j' k hi1 (by simp at hl1; omega) he
        exact ⟨s', by simp only [acts, h1]; exact h2, hi2, by simp at hl1; omega⟩

/-- Popping keeps the invariant and never underflows. -/
theorem pop_inv {s : St} (h : Inv s) :
    (popItem s = none ∧ s.stack = [] ∧ s.len = 0) ∨
    (∃ it s1, popItem s = some (it, .ok s1) ∧ Inv s1 ∧ s.stack = it :: s1.stack ∧
      s1.len = (match it with | .trace => s.len - 1 | .delayed => s.len + 1 | .other => s.len) ∧
      (it = .trace → 1 ≤ s.len)) := by
  unfold Inv at h
  obtain ⟨stack, len⟩ := s
  simp only at h
  cases stack with
  | nil =>
    left
    simp only [depth, Option.some.injEq] at h
    exact ⟨rfl, rfl, h.symm⟩
  | cons x r =>
    right
    obtain ⟨m, hr, hs⟩ := depth_tail h
    cases x with
    | trace =>
      simp only [stepItem, Option.some.injEq] at hs
      subst hs
      exact ⟨.trace, ⟨r, m⟩, by simp [popItem, decLen], hr, rfl, by simp, by intro _; simp⟩
    | other =>
      simp only [stepItem, Option.some.injEq] at hs
      subst hs
      exact ⟨.other, ⟨r, m⟩, by simp [popItem], hr, rfl, by simp, by intro h; cases h⟩
    | delayed =>
      cases m with
      | zero => simp [stepItem] at hs
      | succ k =>
        simp only [stepItem, Option.some.injEq] at hs
        subst hs
        exact ⟨.delayed, ⟨r, k + 1⟩, by simp [popItem], hr, rfl, by simp, by intro h; cases h⟩

/-- Initial stacks of `eval`: a few ordinary states, counter 0. -/
def Init (s : St) : Prop := s.len = 0 ∧ ∀ x ∈ s.stack, x = .other

theorem init_inv {s : St} (h : Init s) : Inv s := by
  obtain ⟨stack, len⟩ := s
  obtain ⟨h0, hall⟩ := h
  simp only at h0 hall
  subst h0
  unfold Inv
  simp only
  induction stack with
  | nil => rfl
  | cons x r ih =>
    have hx := hall x (List.mem_cons_self)
    subst hx
    simp only [depth, ih (fun y hy => hall y (List.mem_cons_of_mem _ hy)), Option.bind_some,
      stepItem]

/-- The possible results of one machine step, made explicit. -/
inductive StepCase {σ : Type} (H : σ → List Act × Option σ) (max : Nat) (h : σ) (s : St) :
    StepRes σ → Prop
  | finished : s.stack = [] → s.len = 0 → StepCase H max h s (.halt (.done h))
  | popped (it : Item) (s1 : St) : it ≠ .other → popItem s = some (it, .ok s1) → Inv s1 →
      s1.len ≤ max → StepCase H max h s (.next h s1)
  | poppedOverflow (it : Item) (s1 : St) (t : List Nat) : it ≠ .other →
      popItem s = some (it, .ok s1) → getStackTrace s1 = .ok t → t.length = s1.len →
      max < s1.len → StepCase H max h s (.halt (.stackOverflow t))
  | handled (s1 s2 : St) (h' : σ) : popItem s = some (.other, .ok s1) →
      acts s1 (H h).1 = .ok s2 → (H h).2 = some h' → Inv s2 → s2.len ≤ max →
      StepCase H max h s (.next h' s2)
  | handledOverflow (s1 s2 : St) (h' : σ) (t : List Nat) : popItem s = some (.other, .ok s1) →
      acts s1 (H h).1 = .ok s2 → (H h).2 = some h' → getStackTrace s2 = .ok t →
      t.length = s2.len → max < s2.len → StepCase H max h s (.halt (.stackOverflow t))
  | handlerError (s1 s2 : St) (t : List Nat) : popItem s = some (.other, .ok s1) →
      acts s1 (H h).1 = .ok s2 → (H h).2 = none → getStackTrace s2 = .ok t →
      t.length = s2.len → StepCase H max h s (.halt (.evalError t))

/-- From a state satisfying the invariant, with a bracketed handler word, one machine step is
    one of the six panic-free cases above. -/
theorem stepM_cases {σ : Type} (H : σ → List Act × Option σ) (max : Nat) (h : σ) {s : St}
    (hi : Inv s) (hB : Bracketed (H h).1) : StepCase H max h s (stepM H max h s) := by
  rcases pop_inv hi with ⟨hp, hs, hl⟩ | ⟨it, s1, hp, hi1, hs, hl1, _⟩
  · have : stepM H max h s = .halt (.done h) := by simp [stepM, hp, hl]
    rw [this]; exact .finished hs hl
  · cases it with
    | trace =>
      by_cases hgt : s1.len > max
      · obtain ⟨t, ht, hlen⟩ := getStackTrace_ok hi1
        have : stepM H max h s = .halt (.stackOverflow t) := by
          simp [stepM, hp, hgt, report, ht]
        rw [this]
        exact .poppedOverflow .trace s1 t (by intro h; cases h) hp ht hlen hgt
      · have : stepM H max h s = .next h s1 := by simp [stepM, hp, hgt]
        rw [this]
        exact .popped .trace s1 (by intro h; cases h) hp hi1 (by omega)
    | delayed =>
      by_cases hgt : s1.len > max
      · obtain ⟨t, ht, hlen⟩ := getStackTrace_ok hi1
        have : stepM H max h s = .halt (.stackOverflow t) := by
          simp [stepM, hp, hgt, report, ht]
        rw [this]
        exact .poppedOverflow .delayed s1 t (by intro h; cases h) hp ht hlen hgt
      · have : stepM H max h s = .next h s1 := by simp [stepM, hp, hgt]
        rw [this]
        exact .popped .delayed s1 (by intro h; cases h) hp hi1 (by omega)
    | other =>
      obtain ⟨k, hk⟩ := hB
      obtain ⟨s2, ha, hi2, hl2⟩ := acts_inv (H h).1 s1 0 k hi1 (Nat.zero_le _) hk
      obtain ⟨t, ht, hlen⟩ := getStackTrace_ok hi2
      cases hn : (H h).2 with
      | none =>
        have : stepM H max h s = .halt (.evalError t) := by
          simp [stepM, hp, ha, hn, report, ht]
        rw [this]
        exact .handlerError s1 s2 t hp ha hn ht hlen
      | some h' =>
        by_cases hgt : s2.len > max
        · have : stepM H max h s = .halt (.stackOverflow t) := by
            simp [stepM, hp, ha, hn, hgt, report, ht]
          rw [this]
          exact .handledOverflow s1 s2 h' t hp ha hn ht hlen hgt
        · have : stepM H max h s = .next h' s2 := by simp [stepM, hp, ha, hn, hgt]
          rw [this]
          exact .handled s1 s2 h' hp ha hn hi2 (by omega)

end Rsj.TraceStack
