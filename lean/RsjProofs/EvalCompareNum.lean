/-
  C08 on the evaluator model, part 1: numbers and strings.

  The evaluator model compares `Float`s with `==` and `<`; the comparison model
  (`RsjModel/Compare.lean`) is parametric in an abstract number type `ν` with decidable
  equality and a three-way comparison, `-0` and `0` being one element.  Lean's `Float`
  operations are opaque to the kernel, so what is needed of them is stated explicitly, as the
  class `FloatLaws` (a `Prop`): on floats that are not NaN, `==` / `<` form a strict total
  order up to `==`; `<=` is "not greater"; `-1 < 0 < 1`.  Every law is a theorem of IEEE 754
  (binary64, `partial_cmp`), none mentions NaN operands; the evaluator never stores a NaN in a
  value (`checkNum`).

  `FNum` is the quotient of the non-NaN floats by `==`; it is a lawful `NumOrd`.

  Strings: the evaluator model uses `String` with `==` and `compare`; the comparison model
  lists of code points with `=` and `cmpCps`.  `absStr` is injective and order preserving.
-/
import RsjProofs.Compare
namespace Rsj.Eval.Cmp
open Rsj.Compare

/-- a float that can sit inside a value: not NaN -/
def FOk (x : Float) : Prop := x.isNaN = false

instance (x : Float) : Decidable (FOk x) := inferInstanceAs (Decidable (x.isNaN = false))

/-- What the transfer needs of IEEE 754 comparison on non-NaN doubles. -/
class FloatLaws : Prop where
  beq_refl : ∀ x : Float, FOk x → (x == x) = true
  /-- totality -/
  tri : ∀ x y : Float, FOk x → FOk y → x < y ∨ (x == y) = true ∨ y < x
  lt_not_beq : ∀ x y : Float, FOk x → FOk y → x < y → (x == y) = false
  lt_not_beq' : ∀ x y : Float, FOk x → FOk y → x < y → (y == x) = false
  lt_asymm : ∀ x y : Float, FOk x → FOk y → x < y → ¬ y < x
  lt_trans : ∀ x y z : Float, FOk x → FOk y → FOk z → x < y → y < z → x < z
  lt_beq : ∀ x y z : Float, FOk x → FOk y → FOk z → x < y → (y == z) = true → x < z
  beq_lt : ∀ x y z : Float, FOk x → FOk y → FOk z → (x == y) = true → y < z → x < z
  le_iff : ∀ x y : Float, FOk x → FOk y → (x ≤ y ↔ ¬ y < x)
  ok_neg1 : FOk (-1.0)
  ok_zero : FOk 0.0
  ok_one : FOk 1.0
  neg1_lt_zero : (-1.0 : Float) < 0.0
  zero_lt_one : (0.0 : Float) < 1.0

section
variable [L : FloatLaws]

theorem beq_symm {x y : Float} (hx : FOk x) (hy : FOk y) (h : (x == y) = true) : (y == x) = true := by
  rcases L.tri y x hy hx with h1 | h1 | h1
  · rw [L.lt_not_beq' y x hy hx h1] at h; cases h
  · exact h1
  · rw [L.lt_not_beq x y hx hy h1] at h; cases h

theorem beq_trans {x y z : Float} (hx : FOk x) (hy : FOk y) (hz : FOk z)
    (h1 : (x == y) = true) (h2 : (y == z) = true) : (x == z) = true := by
  rcases L.tri x z hx hz with h | h | h
  · have := L.lt_beq x z y hx hz hy h (beq_symm hy hz h2)
    rw [L.lt_not_beq x y hx hy this] at h1; cases h1
  · exact h
  · have := L.lt_beq z x y hz hx hy h h1
    rw [L.lt_not_beq' z y hz hy this] at h2; cases h2

/-- the non-NaN doubles -/
abbrev NF := { x : Float // FOk x }

instance nfSetoid : Setoid NF where
  r a b := (a.1 == b.1) = true
  iseqv := ⟨fun a => L.beq_refl a.1 a.2, fun {a b} h => beq_symm a.2 b.2 h,
    fun {a b c} h1 h2 => beq_trans a.2 b.2 c.2 h1 h2⟩

instance (a b : NF) : Decidable (a ≈ b) := inferInstanceAs (Decidable ((a.1 == b.1) = true))

/-- numbers up to `==` (`-0 = 0`) -/
abbrev FNum : Type := Quotient nfSetoid

/-- `partial_cmp` on non-NaN doubles -/
def cmpF (x y : Float) : Ordering :=
  if x < y then .lt else if (x == y) = true then .eq else .gt

theorem cmpF_congr {a b c d : Float} (ha : FOk a) (hb : FOk b) (hc : FOk c) (hd : FOk d)
    (h1 : (a == c) = true) (h2 : (b == d) = true) : cmpF a b = cmpF c d := by
  unfold cmpF
  rcases L.tri a b ha hb with h | h | h
  · have h' : c < d := L.beq_lt c a d hc ha hd (beq_symm ha hc h1) (L.lt_beq a b d ha hb hd h h2)
    rw [if_pos h, if_pos h']
  · have h' : (c == d) = true := beq_trans hc ha hd (beq_symm ha hc h1) (beq_trans ha hb hd h h2)
    have n1 : ¬ a < b := fun hl => by rw [L.lt_not_beq a b ha hb hl] at h; cases h
    have n2 : ¬ c < d := fun hl => by rw [L.lt_not_beq c d hc hd hl] at h'; cases h'
    rw [if_neg n1, if_neg n2, if_pos h, if_pos h']
  · have h' : d < c := L.beq_lt d b c hd hb hc (beq_symm hb hd h2) (L.lt_beq b a c hb ha hc h h1)
    have n1 : ¬ a < b := L.lt_asymm b a hb ha h
    have n2 : ¬ c < d := L.lt_asymm d c hd hc h'
    have e1 : (a == b) = false := L.lt_not_beq' b a hb ha h
    have e2 : (c == d) = false := L.lt_not_beq' d c hd hc h'
    rw [if_neg n1, if_neg n2, e1, e2]

def oneF : Ordering → NF
  | .lt => ⟨-1.0, L.ok_neg1⟩
  | .eq => ⟨0.0, L.ok_zero⟩
  | .gt => ⟨1.0, L.ok_one⟩

instance : NumOrd FNum where
  cmp := Quotient.lift₂ (fun a b : NF => cmpF a.1 b.1)
    (fun a b c d h1 h2 => cmpF_congr a.2 b.2 c.2 d.2 h1 h2)
  ofOrdering o := Quotient.mk _ (oneF o)

/-- abstraction of a number (NaN, which never sits in a value, goes to 0) -/
def absNum (x : Float) : FNum :=
  if h : FOk x then Quotient.mk _ ⟨x, h⟩ else Quotient.mk _ ⟨0.0, L.ok_zero⟩

theorem absNum_ok {x : Float} (h : FOk x) : absNum x = Quotient.mk _ ⟨x, h⟩ := by
  unfold absNum; rw [dif_pos h]

theorem absNum_eq_iff {x y : Float} (hx : FOk x) (hy : FOk y) :
    absNum x = absNum y ↔ (x == y) = true := by
  rw [absNum_ok hx, absNum_ok hy]
  constructor
  · intro h; exact Quotient.exact h
  · intro h; exact Quotient.sound h

theorem beq_eq_decide {x y : Float} (hx : FOk x) (hy : FOk y) :
    (x == y) = decide (absNum x = absNum y) := by
  cases h : (x == y)
  · symm; apply decide_eq_false; intro he
    rw [(absNum_eq_iff hx hy).mp he] at h; cases h
  · symm; exact decide_eq_true ((absNum_eq_iff hx hy).mpr h)

theorem cmp_absNum {x y : Float} (hx : FOk x) (hy : FOk y) :
    NumOrd.cmp (absNum x) (absNum y) = cmpF x y := by
  rw [absNum_ok hx, absNum_ok hy]; rfl

theorem absNum_neg1 : absNum (-1.0) = NumOrd.ofOrdering .lt := absNum_ok L.ok_neg1
theorem absNum_zero : absNum 0.0 = NumOrd.ofOrdering .eq := absNum_ok L.ok_zero
theorem absNum_one : absNum 1.0 = NumOrd.ofOrdering .gt := absNum_ok L.ok_one

theorem cmpF_eq_iff {x y : Float} (hx : FOk x) (hy : FOk y) : cmpF x y = .eq ↔ (x == y) = true := by
  unfold cmpF
  constructor
  · intro h
    split at h
    · cases h
    · split at h
      · assumption
      · cases h
  · intro h
    have n1 : ¬ x < y := fun hl => by rw [L.lt_not_beq x y hx hy hl] at h; cases h
    rw [if_neg n1, if_pos h]

omit L in
theorem cmpF_lt_iff {x y : Float} : cmpF x y = .lt ↔ x < y := by
  unfold cmpF
  constructor
  · intro h
    split at h
    · assumption
    · split at h <;> cases h
  · intro h; rw [if_pos h]

theorem cmpF_gt_iff {x y : Float} (hx : FOk x) (hy : FOk y) : cmpF x y = .gt ↔ y < x := by
  unfold cmpF
  constructor
  · intro h
    split at h
    · cases h
    · rename_i n1
      split at h
      · cases h
      · rename_i n2
        rcases L.tri x y hx hy with h' | h' | h'
        · exact absurd h' n1
        · exact absurd h' n2
        · exact h'
  · intro h
    rw [if_neg (L.lt_asymm y x hy hx h), L.lt_not_beq' y x hy hx h]
    rfl

theorem cmpF_swap {x y : Float} (hx : FOk x) (hy : FOk y) : cmpF y x = (cmpF x y).swap := by
  cases h : cmpF x y with
  | lt => exact (cmpF_gt_iff hy hx).mpr (cmpF_lt_iff.mp h)
  | eq => exact (cmpF_eq_iff hy hx).mpr (beq_symm hx hy ((cmpF_eq_iff hx hy).mp h))
  | gt => exact cmpF_lt_iff.mpr ((cmpF_gt_iff hx hy).mp h)

instance : LawfulNumOrd FNum where
  cmp_eq_iff a b := by
    induction a using Quotient.inductionOn with | _ a =>
    induction b using Quotient.inductionOn with | _ b =>
    show cmpF a.1 b.1 = .eq ↔ _
    rw [cmpF_eq_iff a.2 b.2]
    exact ⟨fun h => Quotient.sound h, fun h => Quotient.exact h⟩
  cmp_swap a b := by
    induction a using Quotient.inductionOn with | _ a =>
    induction b using Quotient.inductionOn with | _ b =>
    exact cmpF_swap a.2 b.2
  cmp_lt_trans a b c := by
    induction a using Quotient.inductionOn with | _ a =>
    induction b using Quotient.inductionOn with | _ b =>
    induction c using Quotient.inductionOn with | _ c =>
    show cmpF a.1 b.1 = .lt → cmpF b.1 c.1 = .lt → cmpF a.1 c.1 = .lt
    intro h1 h2
    exact cmpF_lt_iff.mpr (L.lt_trans _ _ _ a.2 b.2 c.2 (cmpF_lt_iff.mp h1) (cmpF_lt_iff.mp h2))

/-- the three results of `compare`, as floats -/
def ordF : Ordering → Float
  | .lt => -1.0
  | .eq => 0.0
  | .gt => 1.0

theorem ordF_ok (o : Ordering) : FOk (ordF o) := by
  cases o
  · exact L.ok_neg1
  · exact L.ok_zero
  · exact L.ok_one

theorem absNum_ordF (o : Ordering) : absNum (ordF o) = NumOrd.ofOrdering o := by
  cases o
  · exact absNum_neg1
  · exact absNum_zero
  · exact absNum_one

/-- `c == 0.0` on a comparison result -/
theorem ordF_beq_zero (o : Ordering) : (ordF o == 0.0) = (o == .eq) := by
  cases o
  · exact L.lt_not_beq _ _ L.ok_neg1 L.ok_zero L.neg1_lt_zero
  · exact L.beq_refl _ L.ok_zero
  · exact L.lt_not_beq' _ _ L.ok_zero L.ok_one L.zero_lt_one

/-- `c < 0.0` -/
theorem ordF_lt_zero (o : Ordering) : decide (ordF o < 0.0) = (o == .lt) := by
  cases o
  · exact decide_eq_true L.neg1_lt_zero
  · apply decide_eq_false; intro h
    have := L.lt_not_beq _ _ L.ok_zero L.ok_zero h
    rw [L.beq_refl _ L.ok_zero] at this; cases this
  · exact decide_eq_false (L.lt_asymm _ _ L.ok_zero L.ok_one L.zero_lt_one)

/-- `c > 0.0` -/
theorem ordF_gt_zero (o : Ordering) : decide (ordF o > 0.0) = (o == .gt) := by
  cases o
  · exact decide_eq_false (L.lt_asymm _ _ L.ok_neg1 L.ok_zero L.neg1_lt_zero)
  · apply decide_eq_false; intro h
    have := L.lt_not_beq _ _ L.ok_zero L.ok_zero h
    rw [L.beq_refl _ L.ok_zero] at this; cases this
  · exact decide_eq_true L.zero_lt_one

/-- `c <= 0.0` -/
theorem ordF_le_zero (o : Ordering) : decide (ordF o ≤ 0.0) = (o != .gt) := by
  have h := L.le_iff (ordF o) 0.0 (ordF_ok o) L.ok_zero
  have g := ordF_gt_zero o
  cases o
  · exact decide_eq_true (h.mpr (fun hh => by have := decide_eq_true hh; rw [g] at this; cases this))
  · exact decide_eq_true (h.mpr (fun hh => by have := decide_eq_true hh; rw [g] at this; cases this))
  · exact decide_eq_false (fun hh => h.mp hh L.zero_lt_one)

/-- `c >= 0.0` -/
theorem ordF_ge_zero (o : Ordering) : decide (ordF o ≥ 0.0) = (o != .lt) := by
  have h := L.le_iff 0.0 (ordF o) L.ok_zero (ordF_ok o)
  have g := ordF_lt_zero o
  cases o
  · exact decide_eq_false (fun hh => h.mp hh L.neg1_lt_zero)
  · exact decide_eq_true (h.mpr (fun hh => by have := decide_eq_true hh; rw [g] at this; cases this))
  · exact decide_eq_true (h.mpr (fun hh => by have := decide_eq_true hh; rw [g] at this; cases this))

end


/-! ### the laws are consistent

  `Float` is opaque to the kernel, so `FloatLaws` cannot be instantiated inside Lean.  The same
  laws over an arbitrary carrier (`OrdLaws`) hold of a toy model of IEEE comparison with a NaN
  (`Option Int`, `none` = NaN: every comparison with NaN is false), so they are satisfiable. -/

/-- `FloatLaws`, for an arbitrary carrier -/
structure OrdLaws {F : Type} (nan : F → Bool) (beq : F → F → Bool) (lt le : F → F → Prop)
    (m1 z p1 : F) : Prop where
  beq_refl : ∀ x, nan x = false → beq x x = true
  tri : ∀ x y, nan x = false → nan y = false → lt x y ∨ beq x y = true ∨ lt y x
  lt_not_beq : ∀ x y, nan x = false → nan y = false → lt x y → beq x y = false
  lt_not_beq' : ∀ x y, nan x = false → nan y = false → lt x y → beq y x = false
  lt_asymm : ∀ x y, nan x = false → nan y = false → lt x y → ¬ lt y x
  lt_trans : ∀ x y z, nan x = false → nan y = false → nan z = false → lt x y → lt y z → lt x z
  lt_beq : ∀ x y z, nan x = false → nan y = false → nan z = false → lt x y → beq y z = true → lt x z
  beq_lt : ∀ x y z, nan x = false → nan y = false → nan z = false → beq x y = true → lt y z → lt x z
  le_iff : ∀ x y, nan x = false → nan y = false → (le x y ↔ ¬ lt y x)
  ok_neg1 : nan m1 = false
  ok_zero : nan z = false
  ok_one : nan p1 = false
  neg1_lt_zero : lt m1 z
  zero_lt_one : lt z p1

/-- `FloatLaws` is `OrdLaws` at `Float` -/
theorem floatLaws_iff : FloatLaws ↔
    OrdLaws Float.isNaN (fun x y : Float => x == y) (fun x y : Float => x < y)
      (fun x y : Float => x ≤ y) (-1.0) 0.0 1.0 :=
  ⟨fun h => ⟨h.beq_refl, h.tri, h.lt_not_beq, h.lt_not_beq', h.lt_asymm, h.lt_trans, h.lt_beq,
      h.beq_lt, h.le_iff, h.ok_neg1, h.ok_zero, h.ok_one, h.neg1_lt_zero, h.zero_lt_one⟩,
   fun h => ⟨h.beq_refl, h.tri, h.lt_not_beq, h.lt_not_beq', h.lt_asymm, h.lt_trans, h.lt_beq,
      h.beq_lt, h.le_iff, h.ok_neg1, h.ok_zero, h.ok_one, h.neg1_lt_zero, h.zero_lt_one⟩⟩

/-- toy IEEE comparison: `none` is NaN -/
def toyBeq : Option Int → Option Int → Bool
  | some a, some b => a == b
  | _, _ => false
def toyLt : Option Int → Option Int → Prop
  | some a, some b => a < b
  | _, _ => False
def toyLe : Option Int → Option Int → Prop
  | some a, some b => a ≤ b
  | _, _ => False

/-- the laws hold of the toy model (with a NaN that compares false with everything) -/
theorem ordLaws_toy : OrdLaws (F := Option Int) Option.isNone toyBeq toyLt toyLe
    (some (-1)) (some 0) (some 1) := by
  refine ⟨?_, ?_, ?_, ?_, ?_, ?_, ?_, ?_, ?_, rfl, rfl, rfl, ?_, ?_⟩
  · intro x hx; cases x <;> simp_all [toyBeq]
  · intro x y hx hy
    cases x <;> cases y <;> simp_all [toyBeq, toyLt]
    omega
  · intro x y hx hy h
    cases x <;> cases y <;> simp_all [toyBeq, toyLt]
    omega
  · intro x y hx hy h
    cases x <;> cases y <;> simp_all [toyBeq, toyLt]
    omega
  · intro x y hx hy h
    cases x <;> cases y <;> simp_all [toyLt]
    omega
  · intro x y z hx hy hz h1 h2
    cases x <;> cases y <;> cases z <;> simp_all [toyLt]
    omega
  · intro x y z hx hy hz h1 h2
    cases x <;> cases y <;> cases z <;> simp_all [toyBeq, toyLt]
  · intro x y z hx hy hz h1 h2
    cases x <;> cases y <;> cases z <;> simp_all [toyBeq, toyLt]
  · intro x y hx hy
    cases x <;> cases y <;> simp_all [toyLe, toyLt]
  · show (-1 : Int) < 0; decide
  · show (0 : Int) < 1; decide

example : toyBeq none none = false ∧ ¬ toyLt none (some 0) ∧ ¬ toyLe (some 0) none := by
  refine ⟨rfl, ?_, ?_⟩ <;> (intro h; exact h)

/-! ### Strings -/

/-- code points of a string -/
def absStr (s : String) : List Nat := s.toList.map Char.toNat

theorem absStr_inj {a b : String} : absStr a = absStr b ↔ a = b := by
  constructor
  · intro h
    apply String.toList_inj.mp
    exact (List.map_inj_right (fun c d hcd => Char.toNat_inj.mp hcd)).mp h
  · intro h; rw [h]

theorem str_beq (a b : String) : (a == b) = decide (absStr a = absStr b) := by
  by_cases h : a = b
  · subst h; simp
  · have : absStr a ≠ absStr b := fun hh => h (absStr_inj.mp hh)
    simp [h, this]

theorem cmpCps_chars : ∀ a b : List Char,
    cmpCps (a.map Char.toNat) (b.map Char.toNat) =
      if a < b then .lt else if a = b then .eq else .gt
  | [], [] => by simp [cmpCps]
  | [], b :: bs => by simp [cmpCps]
  | a :: as, [] => by simp [cmpCps]
  | a :: as, b :: bs => by
    simp only [List.map_cons, cmpCps, List.cons_lt_cons_iff, List.cons.injEq]
    have ih := cmpCps_chars as bs
    have hlt : ∀ c d : Char, c.toNat < d.toNat ↔ c < d := fun c d => by
      show _ ↔ c.val < d.val
      rw [UInt32.lt_iff_toNat_lt]; rfl
    by_cases h1 : a < b
    · rw [if_pos ((hlt a b).mpr h1), if_pos (Or.inl h1)]
    · rw [if_neg (fun h => h1 ((hlt a b).mp h))]
      by_cases h2 : b < a
      · rw [if_pos ((hlt b a).mpr h2)]
        have hne : a ≠ b := fun h => by subst h; exact h1 h2
        have : ¬ (a < b ∨ a = b ∧ as < bs) := by
          rintro (h | ⟨h, _⟩)
          · exact h1 h
          · exact hne h
        rw [if_neg this, if_neg (fun h => hne h.1)]
      · rw [if_neg (fun h => h2 ((hlt b a).mp h))]
        have hab : a = b := by
          apply Char.toNat_inj.mp
          have := (not_congr (hlt a b)).mpr h1
          have := (not_congr (hlt b a)).mpr h2
          omega
        subst hab
        rw [ih]
        by_cases h3 : as < bs
        · rw [if_pos h3, if_pos (Or.inr ⟨rfl, h3⟩)]
        · have : ¬ (a < a ∨ a = a ∧ as < bs) := by
            rintro (h | ⟨_, h⟩)
            · exact h1 h
            · exact h3 h
          rw [if_neg h3, if_neg this]
          by_cases h4 : as = bs
          · rw [if_pos h4, if_pos ⟨rfl, h4⟩]
          · rw [if_neg h4, if_neg (fun h => h4 h.2)]

/-- `compare` on `String` is the code point lexicographic order of the comparison model. -/
theorem str_compare (a b : String) : compare a b = cmpCps (absStr a) (absStr b) := by
  show compareOfLessAndEq a b = _
  unfold compareOfLessAndEq absStr
  rw [cmpCps_chars]
  by_cases h1 : a < b
  · rw [if_pos h1, if_pos (String.lt_iff.mp h1)]
  · rw [if_neg h1, if_neg (fun h => h1 (String.lt_iff.mpr h))]
    by_cases h2 : a = b
    · rw [if_pos h2, if_pos (by rw [h2])]
    · rw [if_neg h2, if_neg (fun h => h2 (String.toList_inj.mp h))]

end Rsj.Eval.Cmp
