/-
  C15 print/parse, part 14: call arguments and the `( … )` postfix form, parameter lists,
  binds and assertions — over both printing modes, with the bracketed subexpressions handled by
  the recursive `parse_expr` (`PCh`).
-/
import RsjProofs.ParserRun13
namespace Rsj.Parser

section
variable {toks : List Token} (pe : PState toks → Except (Err toks) (Expr × PState toks)) (R : Nat)

omit pe R in
theorem prArg_pos2 (full : Bool) (e : Expr) : prArg full (.positional e) = sub full e 0 false false := by
  simp [prArg]

omit pe R in
theorem prArg_named2 (full : Bool) (n : Ident) (e : Expr) :
    prArg full (.named n e) = .ident n.value :: sim .Eq :: sub full e 0 false false := by
  simp [prArg]

omit pe R in
theorem stopTok_semicolon : StopTok (sim .Semicolon) :=
  stopTok_of (by simp [NotSuffixStart, sim]) .Semicolon rfl (by decide)
omit pe R in
theorem stopTok_rbrace : StopTok (sim .RightBrace) :=
  stopTok_of (by simp [NotSuffixStart, sim]) .RightBrace rfl (by decide)
omit pe R in
theorem stopTok_then : StopTok (sim .Then) :=
  stopTok_of (by simp [NotSuffixStart, sim]) .Then rfl (by decide)
omit pe R in
theorem stopTok_else : StopTok (sim .Else) :=
  stopTok_of (by simp [NotSuffixStart, sim]) .Else rfl (by decide)
omit pe R in
theorem stopTok_for : StopTok (sim .For) :=
  stopTok_of (by simp [NotSuffixStart, sim]) .For rfl (by decide)
omit pe R in
theorem stopTok_if : StopTok (sim .If) :=
  stopTok_of (by simp [NotSuffixStart, sim]) .If rfl (by decide)

/-- `parse_arg` on a token list that does not begin with `ident =` -/
theorem parseArg_pos {st : PState toks} {a b : TokKind} {ks : List TokKind} (h : st.kinds = a :: b :: ks)
    (hab : ∀ v, a = .ident v → b ≠ sim .Eq) :
    parseArg pe st = (match pe st with
      | .ok (v, st') => .ok (.positional v, st')
      | .error e => .error e) := by
  unfold parseArg
  rw [peekIdent0 h, peek1 .Eq h]
  have : (a.isIdent && decide (b = TokKind.simple STok.Eq)) = false := by
    cases a <;> simp only [TokKind.isIdent, Bool.false_and, Bool.true_and]
    next v => simpa [sim] using hab v rfl
  rw [this]
  simp only [Bool.false_eq_true, if_false]
  cases pe st with
  | error e => rfl
  | ok v => rfl

/-- one argument -/
theorem arg_step2 {full : Bool} {a : Arg} (hh : PCh pe R full a.expr) {st : PState toks} {tk : TokKind}
    {T : List TokKind} (hk : st.kinds = prArg full a ++ tk :: T) (hlen : st.kinds.length < R)
    (hstop : StopTok tk) (hne : tk ≠ sim .Eq) (hne2 : tk ≠ sim .Else) :
    ∃ a' st', parseArg pe st = .ok (a', st') ∧ a'.erase = a.erase ∧ st'.kinds = tk :: T := by
  cases a with
  | positional e =>
    simp only [Arg.expr] at hh
    rw [prArg_pos2] at hk
    obtain ⟨e', st', hp, he, hk'⟩ := hh.run pe R hk hlen hstop hne2
    refine ⟨.positional e', st', ?_, by simp [Arg.erase, he], hk'⟩
    have hho := (hh.2 false).append hne T
    rw [← hk] at hho
    cases hkk : st.kinds with
    | nil => rw [hkk] at hho; exact hho.elim
    | cons x rest =>
      rw [hkk] at hho
      cases rest with
      | nil =>
        -- only one token left: impossible, `tk` follows a non-empty expression
        exfalso
        obtain ⟨a0, m0, hm0, _, _⟩ := (hh.2 false).cons
        rw [hk, hm0] at hkk
        simp at hkk
      | cons b ks =>
        rw [parseArg_pos pe hkk (fun v hv => hho.2.2 v b ks hv rfl), hp]
  | named n e =>
    simp only [Arg.expr] at hh
    rw [prArg_named2] at hk
    obtain ⟨x, X, hx, _, _⟩ := (hh.2 false).cons
    have hk1 : st.kinds = .ident n.value :: sim .Eq :: x :: (X ++ tk :: T) := by rw [hk, hx]; rfl
    obtain ⟨st1, he1, hks1⟩ := eatIdent_hit false hk1
    obtain ⟨st2, he2, hks2⟩ := eatSimple_hit false hks1
    have hks2' : st2.kinds = sub full e 0 false false ++ tk :: T := by rw [hks2, hx]; rfl
    obtain ⟨e', st', hp, he, hk'⟩ := hh.run pe R hks2' (by
      have : st2.kinds.length ≤ st.kinds.length := by rw [hks2, hk1]; simp
      omega) hstop hne2
    refine ⟨.named ⟨n.value, st.cur.span⟩ e', st', ?_, by simp [Arg.erase, he, Ident.erase], hk'⟩
    unfold parseArg
    rw [peekIdent0 hk1, peek1 .Eq hk1]
    simp only [TokKind.isIdent, sim, decide_true, Bool.and_self, if_true]
    rw [he1]; simp only [bind, Except.bind]
    rw [he2]; simp only []
    rw [hp]; rfl

omit pe R in
theorem prArg_head2 {full : Bool} {a : Arg} (hf : HeadOK2 (sub full a.expr 0 false false)) :
    ∃ z Z, prArg full a = z :: Z ∧ z ≠ sim .RightParen := by
  cases a with
  | positional e =>
    simp only [Arg.expr] at hf
    rw [prArg_pos2]
    obtain ⟨z, Z, hz, hzs, _⟩ := hf.cons
    exact ⟨z, Z, hz, hzs.ne (by decide)⟩
  | named n e => rw [prArg_named2]; exact ⟨_, _, rfl, by simp [sim]⟩

omit pe R in
theorem prArgs_head2 {full : Bool} : ∀ (args : List Arg), args ≠ [] →
    (∀ a ∈ args, HeadOK2 (sub full a.expr 0 false false)) →
    ∃ z Z, prArgs full args = z :: Z ∧ z ≠ sim .RightParen
  | [], h, _ => absurd rfl h
  | [a], _, hf => by
    obtain ⟨z, Z, h1, h2⟩ := prArg_head2 (hf a (by simp))
    exact ⟨z, Z, by simp [prArgs, h1], h2⟩
  | a :: b :: rest, _, hf => by
    obtain ⟨z, Z, h1, h2⟩ := prArg_head2 (hf a (by simp))
    exact ⟨z, Z ++ sim .Comma :: prArgs full (b :: rest), by simp [prArgs, h1], h2⟩

omit pe R in
theorem prArgs_length2 {full : Bool} : ∀ (args : List Arg),
    (∀ a ∈ args, HeadOK2 (sub full a.expr 0 false false)) → args.length ≤ (prArgs full args).length
  | [], _ => by simp
  | [a], hf => by
    obtain ⟨z, Z, h, _⟩ := prArg_head2 (hf a (by simp))
    simp [prArgs, h]
  | a :: b :: rest, hf => by
    obtain ⟨z, Z, h, _⟩ := prArg_head2 (hf a (by simp))
    have h2 := prArgs_length2 (b :: rest) (fun x hx => hf x (by simp [hx]))
    simp [prArgs, h] at h2 ⊢; omega

/-- the argument loop of `parse_args` on a printed, non-empty argument list -/
theorem args_loop2 {full : Bool} : ∀ (args : List Arg), args ≠ [] → (∀ a ∈ args, PCh pe R full a.expr) →
    ∀ (acc : List Arg) (st : PState toks) (y : TokKind) (Y : List TokKind),
    st.kinds = prArgs full args ++ sim .RightParen :: y :: Y → st.kinds.length < R →
    ∃ args' sp st', eraseArgs args' = eraseArgs args ∧ st'.kinds = y :: Y ∧
      ∀ fuel, args.length ≤ fuel → argsLoop pe fuel acc st = .ok ((acc ++ args', sp), st')
  | [], h, _, _, _, _, _, _, _ => absurd rfl h
  | [a], _, hall, acc, st, y, Y, hk, hlen => by
    have hk0 : st.kinds = prArg full a ++ sim .RightParen :: y :: Y := by simpa [prArgs] using hk
    obtain ⟨a', st1, hp, hea, hk1⟩ := arg_step2 pe R (hall a (by simp)) hk0 hlen
      stopTok_rparen (by simp [sim]) (by simp [sim])
    obtain ⟨st2, he2, hk2⟩ := eatSimple_hit true hk1
    refine ⟨[a'], st1.cur.span, st2, by simp [eraseArgs, hea], hk2, ?_⟩
    intro fuel hfuel
    obtain ⟨f, rfl⟩ : ∃ f, fuel = f + 1 := ⟨fuel - 1, by simp at hfuel; omega⟩
    rw [argsLoop, hp]; simp only [bind, Except.bind]
    rw [he2]; rfl
  | a :: b :: rest, _, hall, acc, st, y, Y, hk, hlen => by
    have hk0 : st.kinds = prArg full a ++ sim .Comma :: (prArgs full (b :: rest) ++ sim .RightParen :: y :: Y) := by
      simpa [prArgs] using hk
    obtain ⟨a', st1, hp, hea, hk1⟩ := arg_step2 pe R (hall a (by simp)) hk0 hlen
      stopTok_comma (by simp [sim]) (by simp [sim])
    have hc1 := cur_kind_of_kinds hk1
    have hm1 : eatSimple .RightParen true st1 = .ok (none, st1.pushIf true (.simple .RightParen)) :=
      eatSimple_miss true (by rw [hc1]; simp [sim])
    obtain ⟨z, Z, hz, hzne⟩ := prArgs_head2 (full := full) (b :: rest) (by simp)
      (fun x hx => (hall x (by simp [hx])).2 false)
    have hk1' : (st1.pushIf true (.simple .RightParen)).kinds =
        sim .Comma :: z :: (Z ++ sim .RightParen :: y :: Y) := by
      rw [kinds_pushIf, hk1, hz]; rfl
    obtain ⟨st2, he2, hk2⟩ := eatSimple_hit true hk1'
    have hc2 := cur_kind_of_kinds hk2
    have hm2 : eatSimple .RightParen true st2 = .ok (none, st2.pushIf true (.simple .RightParen)) :=
      eatSimple_miss true (by rw [hc2]; simpa [sim] using hzne)
    have hlen1 : st1.kinds.length ≤ st.kinds.length := by rw [hk1, hk0]; simp
    have hlen2 : (st2.pushIf true (.simple .RightParen)).kinds.length < R := by
      rw [kinds_pushIf, hk2]
      rw [hk1] at hlen1
      rw [hz] at hlen1
      simp at hlen1 ⊢
      omega
    obtain ⟨args', sp, st3, hea', hk3, hloop⟩ := args_loop2 (b :: rest) (by simp)
      (fun x hx => hall x (by simp [hx])) (acc ++ [a']) (st2.pushIf true (.simple .RightParen)) y Y
      (by rw [kinds_pushIf, hk2, hz]; rfl) hlen2
    refine ⟨a' :: args', sp, st3, by simp [eraseArgs, hea, hea'], hk3, ?_⟩
    intro fuel hfuel
    obtain ⟨f, rfl⟩ : ∃ f, fuel = f + 1 := ⟨fuel - 1, by simp at hfuel; omega⟩
    rw [argsLoop, hp]; simp only [bind, Except.bind]
    rw [hm1]; simp only []
    rw [he2]; simp only []
    rw [hm2]; simp only []
    rw [hloop f (by simp at hfuel ⊢; omega)]
    simp

/-- the tokens of the postfix form `( args ) [tailstrict]` -/
def callToks (full : Bool) (args : List Arg) (ts : Bool) : Toks :=
  sim .LeftParen :: (prArgs full args ++ sim .RightParen :: (if ts then [sim .Tailstrict] else []))

/-- the postfix form `( args ) [tailstrict]` -/
theorem call_step {full : Bool} (args : List Arg) (ts : Bool) (hall : ∀ a ∈ args, PCh pe R full a.expr)
    (xe : Expr) : SLtok pe R (callToks full args ts) xe (.call xe (eraseArgs args) ts .zero) := by
  intro lhs st y Y hl hk hlen hy
  have hk : st.kinds = sim .LeftParen :: (prArgs full args ++ sim .RightParen ::
      ((if ts then [sim .Tailstrict] else []) ++ y :: Y)) := by
    rw [hk]; simp [callToks]
  have hc := (PState.kinds_cons hk).1
  have hm0 : eatSimple .Dot true st = .ok (none, st.pushIf true (.simple .Dot)) :=
    eatSimple_miss true (by rw [hc]; simp [sim])
  have hm1 : eatSimple .LeftBracket true (st.pushIf true (.simple .Dot)) =
      .ok (none, (st.pushIf true (.simple .Dot)).pushIf true (.simple .LeftBracket)) :=
    eatSimple_miss true (by rw [cur_pushIf, hc]; simp [sim])
  obtain ⟨y', Y', hy'⟩ : ∃ y' Y', (if ts then [sim .Tailstrict] else []) ++ y :: Y = y' :: Y' := by
    cases ts
    · exact ⟨y, Y, rfl⟩
    · exact ⟨sim .Tailstrict, y :: Y, rfl⟩
  rw [hy'] at hk
  have tail : ∀ st2 : PState toks, st2.kinds = y' :: Y' →
      ∃ (tsr : Option Span) (st3 : PState toks), eatSimple .Tailstrict true st2 = .ok (tsr, st3) ∧
        tsr.isSome = ts ∧ st3.kinds = y :: Y := by
    intro st2 hk2
    cases ts with
    | false =>
      simp only [Bool.false_eq_true, if_false, List.nil_append, List.cons.injEq] at hy'
      obtain ⟨rfl, rfl⟩ := hy'
      exact ⟨none, _, eatSimple_miss true (by rw [cur_kind_of_kinds hk2]; exact hy), rfl,
        by rw [kinds_pushIf, hk2]⟩
    | true =>
      simp only [if_true, List.cons_append, List.nil_append, List.cons.injEq] at hy'
      obtain ⟨rfl, rfl⟩ := hy'
      obtain ⟨st3, he3, hk3⟩ := eatSimple_hit true hk2
      exact ⟨some st2.cur.span, st3, he3, rfl, hk3⟩
  have fin : ∀ (args' : List Arg) (sp : Span) (st3 : PState toks), eraseArgs args' = eraseArgs args →
      st3.kinds = y :: Y →
      (∀ f, args.length ≤ f →
        parseSuffixExpr pe (f + 1) lhs st = parseSuffixExpr pe f (.call lhs args' ts sp) st3) →
      ∃ t' st2, t'.erase = Expr.call xe (eraseArgs args) ts .zero ∧ st2.kinds = y :: Y ∧
        ∀ f, st.kinds.length + 1 ≤ f →
          ∃ f', st2.kinds.length + 1 ≤ f' ∧ parseSuffixExpr pe f lhs st = parseSuffixExpr pe f' t' st2 := by
    intro args' sp st3 hea hk3 hstep
    refine ⟨.call lhs args' ts sp, st3, by simp [Expr.erase, hl, hea], hk3, fun f hf => ?_⟩
    obtain ⟨f', rfl⟩ : ∃ f', f = f' + 1 := ⟨f - 1, by omega⟩
    have hal : args.length + 2 + (y :: Y).length ≤ st.kinds.length := by
      rw [hk]
      have := prArgs_length2 (full := full) args (fun a ha => (hall a ha).2 false)
      have h2 := congrArg List.length hy'
      simp at h2 ⊢
      omega
    refine ⟨f', ?_, hstep f' (by omega)⟩
    rw [hk3]; simp at hal ⊢; omega
  cases args with
  | nil =>
    have hk0 : st.kinds = sim .LeftParen :: sim .RightParen :: y' :: Y' := by simpa [prArgs] using hk
    obtain ⟨st1, he1, hk1⟩ := eatSimple_hit (st := (st.pushIf true (.simple .Dot)).pushIf true (.simple .LeftBracket))
      true (by rw [kinds_pushIf, kinds_pushIf]; exact hk0)
    obtain ⟨st2, he2, hk2⟩ := eatSimple_hit true hk1
    obtain ⟨tsr, st3, he3, hts, hk3⟩ := tail st2 hk2
    refine fin [] (surround lhs.span (tsr.getD st1.cur.span)) st3 rfl hk3 (fun f _ => ?_)
    rw [parseSuffixExpr, hm0]; simp only [bind, Except.bind]
    rw [hm1]; simp only []
    rw [he1]; simp only []
    rw [he2]; simp only [pure, Except.pure]
    rw [he3]; simp only []
    rw [hts]
  | cons a rest =>
    obtain ⟨z, Z, hz, hzne⟩ := prArgs_head2 (full := full) (a :: rest) (by simp) (fun x hx => (hall x hx).2 false)
    have hk0 : st.kinds = sim .LeftParen :: z :: (Z ++ sim .RightParen :: y' :: Y') := by
      rw [hk, hz]; rfl
    obtain ⟨st1, he1, hk1⟩ := eatSimple_hit (st := (st.pushIf true (.simple .Dot)).pushIf true (.simple .LeftBracket))
      true (by rw [kinds_pushIf, kinds_pushIf]; exact hk0)
    have hc1 := cur_kind_of_kinds hk1
    have hm2 : eatSimple .RightParen true st1 = .ok (none, st1.pushIf true (.simple .RightParen)) :=
      eatSimple_miss true (by rw [hc1]; simpa [sim] using hzne)
    have hm3 : eatSimple .RightParen true (st1.pushIf true (.simple .RightParen)) =
        .ok (none, (st1.pushIf true (.simple .RightParen)).pushIf true (.simple .RightParen)) :=
      eatSimple_miss true (by rw [cur_pushIf, hc1]; simpa [sim] using hzne)
    obtain ⟨args', sp, st2, hea, hk2, hloop⟩ := args_loop2 pe R (a :: rest) (by simp) hall []
      ((st1.pushIf true (.simple .RightParen)).pushIf true (.simple .RightParen)) y' Y'
      (by rw [kinds_pushIf, kinds_pushIf, hk1, hz]; rfl)
      (by
        rw [kinds_pushIf, kinds_pushIf, hk1]
        rw [hk0] at hlen
        simp at hlen ⊢; omega)
    obtain ⟨tsr, st3, he3, hts, hk3⟩ := tail st2 hk2
    refine fin args' (surround lhs.span (tsr.getD sp)) st3 hea hk3 (fun f hf => ?_)
    rw [parseSuffixExpr, hm0]; simp only [bind, Except.bind]
    rw [hm1]; simp only []
    rw [he1]; simp only []
    rw [hm2]; simp only []
    unfold parseArgs
    rw [hm3]; simp only [bind, Except.bind]
    rw [hloop f hf]; simp only [List.nil_append]
    rw [he3]; simp only []
    rw [hts]

/-! ### parameter lists -/

def Param.dflt : Param → Option Expr
  | .mk _ d => d

def Param.name : Param → Ident
  | .mk n _ => n

/-- name, optional `= default` of one parameter (the head of the loop body of `parse_params`) -/
def paramHead (st : PState toks) : Except (Err toks) (Param × PState toks) := do
  let (name, st) ← expectIdent true st
  let (eq, st) ← eatSimple .Eq true st
  let (dflt, st) ← (match eq with
    | some _ => do
      let (d, st) ← pe st
      pure (some d, st)
    | none => pure (none, st) : Except (Err toks) (Option Expr × PState toks))
  pure (Param.mk name dflt, st)

theorem paramsLoop_eq (fuel : Nat) (acc : List Param) (st : PState toks) :
    paramsLoop pe (fuel + 1) acc st = (match paramHead pe st with
      | .error e => .error e
      | .ok (p, st) =>
        match eatSimple .RightParen true st with
        | .error e => .error e
        | .ok (some endSp, st) => .ok ((acc ++ [p], endSp), st)
        | .ok (none, st) =>
          match eatSimple .Comma true st with
          | .error e => .error e
          | .ok (none, st) => reportExpected st
          | .ok (some _, st) =>
            match eatSimple .RightParen true st with
            | .error e => .error e
            | .ok (some endSp, st) => .ok ((acc ++ [p], endSp), st)
            | .ok (none, st) => paramsLoop pe fuel (acc ++ [p]) st) := by
  rw [paramsLoop]
  unfold paramHead
  simp only [bind, Except.bind, pure, Except.pure]
  cases expectIdent true st with
  | error e => rfl
  | ok v =>
    obtain ⟨name, st1⟩ := v
    simp only []
    cases eatSimple .Eq true st1 with
    | error e => rfl
    | ok v =>
      obtain ⟨eq, st2⟩ := v
      cases eq with
      | none =>
        simp only []
        cases eatSimple .RightParen true st2 with
        | error e => rfl
        | ok v =>
          obtain ⟨r, st3⟩ := v
          cases r with
          | some sp => rfl
          | none =>
            simp only []
            cases eatSimple .Comma true st3 with
            | error e => rfl
            | ok v =>
              obtain ⟨c, st4⟩ := v
              cases c with
              | none => rfl
              | some _ =>
                simp only []
                cases eatSimple .RightParen true st4 with
                | error e => rfl
                | ok v =>
                  obtain ⟨r, st5⟩ := v
                  cases r <;> rfl
      | some _ =>
        simp only []
        cases pe st2 with
        | error e => rfl
        | ok v =>
          obtain ⟨d, st2'⟩ := v
          simp only []
          cases eatSimple .RightParen true st2' with
          | error e => rfl
          | ok v =>
            obtain ⟨r, st3⟩ := v
            cases r with
            | some sp => rfl
            | none =>
              simp only []
              cases eatSimple .Comma true st3 with
              | error e => rfl
              | ok v =>
                obtain ⟨c, st4⟩ := v
                cases c with
                | none => rfl
                | some _ =>
                  simp only []
                  cases eatSimple .RightParen true st4 with
                  | error e => rfl
                  | ok v =>
                    obtain ⟨r, st5⟩ := v
                    cases r <;> rfl

omit pe R in
theorem prParam_none (full : Bool) (n : Ident) : prParam full (.mk n none) = [.ident n.value] := by
  simp [prParam]
omit pe R in
theorem prParam_some (full : Bool) (n : Ident) (d : Expr) :
    prParam full (.mk n (some d)) = .ident n.value :: sim .Eq :: sub full d 0 false false := by
  simp [prParam]

omit pe R in
theorem prParam_cons (full : Bool) (p : Param) : ∃ Z, prParam full p = .ident p.name.value :: Z := by
  obtain ⟨n, d⟩ := p
  cases d with
  | none => exact ⟨[], by rw [prParam_none]; rfl⟩
  | some d => exact ⟨_, by rw [prParam_some]; rfl⟩

/-- one parameter, followed by `,` or `)` -/
theorem param_step {full : Bool} {p : Param} (hp : ∀ d, p.dflt = some d → PCh pe R full d) {st : PState toks}
    {tk : TokKind} {T : List TokKind} (hk : st.kinds = prParam full p ++ tk :: T) (hlen : st.kinds.length ≤ R)
    (hstop : StopTok tk) (hne : tk ≠ sim .Eq) (hne2 : tk ≠ sim .Else) :
    ∃ p' st', paramHead pe st = .ok (p', st') ∧ p'.erase = p.erase ∧ st'.kinds = tk :: T := by
  obtain ⟨n, d⟩ := p
  cases d with
  | none =>
    rw [prParam_none] at hk
    obtain ⟨st1, he1, hk1⟩ := expectIdent_hit (v := n.value) (b := tk) (ks := T) true (by rw [hk]; rfl)
    have hm : eatSimple .Eq true st1 = .ok (none, st1.pushIf true (.simple .Eq)) :=
      eatSimple_miss true (by rw [cur_kind_of_kinds hk1]; simpa [sim] using hne)
    refine ⟨.mk ⟨n.value, st.cur.span⟩ none, st1.pushIf true (.simple .Eq), ?_, ?_, by rw [kinds_pushIf, hk1]⟩
    · unfold paramHead
      rw [he1]; simp only [bind, Except.bind]
      rw [hm]; rfl
    · simp [Param.erase, Ident.erase, eraseOpt]
  | some d =>
    rw [prParam_some] at hk
    have hd := hp d rfl
    obtain ⟨x, X, hx, _, _⟩ := (hd.2 false).cons
    have hk0 : st.kinds = .ident n.value :: sim .Eq :: x :: (X ++ tk :: T) := by rw [hk, hx]; rfl
    obtain ⟨st1, he1, hk1⟩ := expectIdent_hit true hk0
    obtain ⟨st2, he2, hk2⟩ := eatSimple_hit true hk1
    obtain ⟨d', st3, hpd, hde, hk3⟩ := hd.run pe R (st := st2) (tk := tk) (T := T) (by rw [hk2, hx]; rfl)
      (by rw [hk2]; rw [hk0] at hlen; simp at hlen ⊢; omega) hstop hne2
    refine ⟨.mk ⟨n.value, st.cur.span⟩ (some d'), st3, ?_, ?_, hk3⟩
    · unfold paramHead
      rw [he1]; simp only [bind, Except.bind]
      rw [he2]; simp only []
      rw [hpd]; rfl
    · simp [Param.erase, Ident.erase, eraseOpt, hde]

omit pe R in
theorem prParams_cons (full : Bool) (p : Param) (ps : List Param) :
    ∃ Z, prParams full (p :: ps) = .ident p.name.value :: Z := by
  obtain ⟨Z, hZ⟩ := prParam_cons full p
  cases ps with
  | nil => exact ⟨Z, by simp [prParams, hZ]⟩
  | cons q qs => exact ⟨Z ++ sim .Comma :: prParams full (q :: qs), by simp [prParams, hZ]⟩

omit pe R in
theorem prParams_length (full : Bool) : ∀ ps : List Param, ps.length ≤ (prParams full ps).length
  | [] => by simp
  | [p] => by
    obtain ⟨Z, hZ⟩ := prParam_cons full p
    simp [prParams, hZ]
  | p :: q :: qs => by
    obtain ⟨Z, hZ⟩ := prParam_cons full p
    have := prParams_length full (q :: qs)
    simp [prParams, hZ] at this ⊢; omega

/-- the loop of `parse_params` on a printed, non-empty parameter list -/
theorem params_loop {full : Bool} : ∀ (ps : List Param), ps ≠ [] →
    (∀ p ∈ ps, ∀ d, p.dflt = some d → PCh pe R full d) →
    ∀ (acc : List Param) (st : PState toks) (y : TokKind) (Y : List TokKind),
    st.kinds = prParams full ps ++ sim .RightParen :: y :: Y → st.kinds.length ≤ R →
    ∃ ps' sp st', eraseParams ps' = eraseParams ps ∧ st'.kinds = y :: Y ∧
      ∀ fuel, ps.length ≤ fuel → paramsLoop pe fuel acc st = .ok ((acc ++ ps', sp), st')
  | [], h, _, _, _, _, _, _, _ => absurd rfl h
  | [p], _, hall, acc, st, y, Y, hk, hlen => by
    have hk0 : st.kinds = prParam full p ++ sim .RightParen :: y :: Y := by simpa [prParams] using hk
    obtain ⟨p', st1, hp, hpe, hk1⟩ := param_step pe R (hall p (by simp)) hk0 hlen
      stopTok_rparen (by simp [sim]) (by simp [sim])
    obtain ⟨st2, he2, hk2⟩ := eatSimple_hit true hk1
    refine ⟨[p'], st1.cur.span, st2, by simp [eraseParams, hpe], hk2, ?_⟩
    intro fuel hfuel
    obtain ⟨f, rfl⟩ : ∃ f, fuel = f + 1 := ⟨fuel - 1, by simp at hfuel; omega⟩
    rw [paramsLoop_eq, hp]; simp only []
    rw [he2]
  | p :: q :: rest, _, hall, acc, st, y, Y, hk, hlen => by
    have hk0 : st.kinds = prParam full p ++ sim .Comma :: (prParams full (q :: rest) ++ sim .RightParen :: y :: Y) := by
      simpa [prParams] using hk
    obtain ⟨p', st1, hp, hpe, hk1⟩ := param_step pe R (hall p (by simp)) hk0 hlen
      stopTok_comma (by simp [sim]) (by simp [sim])
    have hc1 := cur_kind_of_kinds hk1
    have hm1 : eatSimple .RightParen true st1 = .ok (none, st1.pushIf true (.simple .RightParen)) :=
      eatSimple_miss true (by rw [hc1]; simp [sim])
    obtain ⟨Z, hz⟩ := prParams_cons full q rest
    have hk1' : (st1.pushIf true (.simple .RightParen)).kinds =
        sim .Comma :: .ident q.name.value :: (Z ++ sim .RightParen :: y :: Y) := by
      rw [kinds_pushIf, hk1, hz]; rfl
    obtain ⟨st2, he2, hk2⟩ := eatSimple_hit true hk1'
    have hc2 := cur_kind_of_kinds hk2
    have hm2 : eatSimple .RightParen true st2 = .ok (none, st2.pushIf true (.simple .RightParen)) :=
      eatSimple_miss true (by rw [hc2]; simp)
    have hlen1 : st1.kinds.length ≤ st.kinds.length := by rw [hk1, hk0]; simp
    have hlen2 : (st2.pushIf true (.simple .RightParen)).kinds.length ≤ R := by
      rw [kinds_pushIf, hk2]
      rw [hk1] at hlen1
      rw [hz] at hlen1
      simp at hlen1 ⊢
      omega
    obtain ⟨ps', sp, st3, hea', hk3, hloop⟩ := params_loop (q :: rest) (by simp)
      (fun x hx => hall x (by simp [hx])) (acc ++ [p']) (st2.pushIf true (.simple .RightParen)) y Y
      (by rw [kinds_pushIf, hk2, hz]; rfl) hlen2
    refine ⟨p' :: ps', sp, st3, by simp [eraseParams, hpe, hea'], hk3, ?_⟩
    intro fuel hfuel
    obtain ⟨f, rfl⟩ : ∃ f, fuel = f + 1 := ⟨fuel - 1, by simp at hfuel; omega⟩
    rw [paramsLoop_eq, hp]; simp only []
    rw [hm1]; simp only []
    rw [he2]; simp only []
    rw [hm2]; simp only []
    rw [hloop f (by simp at hfuel ⊢; omega)]
    simp

/-- `parse_params` (after the `(`) on a printed parameter list and its `)` -/
theorem parseParams_fwd {full : Bool} (ps : List Param)
    (hall : ∀ p ∈ ps, ∀ d, p.dflt = some d → PCh pe R full d)
    {st : PState toks} {y : TokKind} {Y : List TokKind}
    (hk : st.kinds = prParams full ps ++ sim .RightParen :: y :: Y) (hlen : st.kinds.length ≤ R) :
    ∃ ps' sp st', eraseParams ps' = eraseParams ps ∧ st'.kinds = y :: Y ∧
      ∀ fuel, ps.length ≤ fuel → parseParams pe fuel st = .ok ((ps', sp), st') := by
  cases ps with
  | nil =>
    obtain ⟨st1, he1, hk1⟩ := eatSimple_hit (k := .RightParen) (st := st) (b := y) (ks := Y) true
      (by rw [hk]; simp [prParams, sim])
    refine ⟨[], st.cur.span, st1, rfl, hk1, fun fuel _ => ?_⟩
    unfold parseParams
    rw [he1]; rfl
  | cons p rest =>
    obtain ⟨Z, hz⟩ := prParams_cons full p rest
    have hc : st.cur.kind = .ident p.name.value := by
      apply cur_kind_of_kinds (T := Z ++ sim .RightParen :: y :: Y)
      rw [hk, hz]; rfl
    have hm : eatSimple .RightParen true st = .ok (none, st.pushIf true (.simple .RightParen)) :=
      eatSimple_miss true (by rw [hc]; simp)
    obtain ⟨ps', sp, st3, hea, hk3, hloop⟩ := params_loop pe R (p :: rest) (by simp) hall []
      (st.pushIf true (.simple .RightParen)) y Y (by rw [kinds_pushIf]; exact hk) (by rw [kinds_pushIf]; exact hlen)
    refine ⟨ps', sp, st3, hea, hk3, fun fuel hf => ?_⟩
    unfold parseParams
    rw [hm]; simp only [bind, Except.bind]
    rw [hloop fuel hf]; rfl

/-! ### binds -/

def Bind.value : Bind → Expr
  | .mk _ _ _ _ v => v
def Bind.params : Bind → List Param
  | .mk _ _ ps _ _ => ps
def Bind.hasParams : Bind → Bool
  | .mk _ hp _ _ _ => hp
def Bind.name : Bind → Ident
  | .mk n _ _ _ _ => n

/-- what the machine lemmas need of a bind -/
structure BindOK (full : Bool) (b : Bind) : Prop where
  noParams : b.hasParams = false → b.params = []
  dflts : ∀ p ∈ b.params, ∀ d, p.dflt = some d → PCh pe R full d
  value : PCh pe R full b.value

omit pe R in
theorem prBind_cons (full : Bool) (b : Bind) : ∃ Z, prBind full b = .ident b.name.value :: Z := by
  obtain ⟨n, hp, ps, sp, v⟩ := b
  exact ⟨(if hp then sim .LeftParen :: (prParams full ps ++ [sim .RightParen]) else []) ++
    sim .Eq :: sub full v 0 false false, by simp [prBind, Bind.name]⟩

/-- `parse_bind` on a printed bind, followed by a token that ends an expression -/
theorem bind_step {full : Bool} {b : Bind} (hb : BindOK pe R full b) {st : PState toks} {tk : TokKind}
    {T : List TokKind} (hk : st.kinds = prBind full b ++ tk :: T) (hlen : st.kinds.length ≤ R)
    (hstop : StopTok tk) (hne2 : tk ≠ sim .Else) :
    ∃ b' st', b'.erase = b.erase ∧ st'.kinds = tk :: T ∧
      ∀ fuel, b.params.length ≤ fuel → parseBind pe fuel st = .ok (b', st') := by
  obtain ⟨n, hp, ps, sp, v⟩ := b
  obtain ⟨hnp, hdf, hv⟩ := hb
  simp only [Bind.hasParams, Bind.params, Bind.value] at hnp hdf hv
  obtain ⟨x, X, hx, _, _⟩ := (hv.2 false).cons
  cases hp with
  | false =>
    have hps := hnp rfl
    subst hps
    have hk0 : st.kinds = .ident n.value :: sim .Eq :: x :: (X ++ tk :: T) := by
      rw [hk]; simp [prBind, hx]
    obtain ⟨st1, he1, hk1⟩ := expectIdent_hit true hk0
    have hm : eatSimple .LeftParen true st1 = .ok (none, st1.pushIf true (.simple .LeftParen)) :=
      eatSimple_miss true (by rw [cur_kind_of_kinds hk1]; simp [sim])
    obtain ⟨st2, he2, hk2⟩ := expectSimple_hit (st := st1.pushIf true (.simple .LeftParen)) (k := .Eq) true
      (by rw [kinds_pushIf]; exact hk1)
    obtain ⟨v', st3, hpv, hve, hk3⟩ := hv.run pe R (st := st2) (tk := tk) (T := T) (by rw [hk2, hx]; rfl)
      (by rw [hk2]; rw [hk0] at hlen; simp at hlen ⊢; omega) hstop hne2
    refine ⟨.mk ⟨n.value, st.cur.span⟩ false [] Span.zero v', st3, ?_, hk3, fun fuel _ => ?_⟩
    · simp [Bind.erase, Ident.erase, eraseParams, hve]
    · unfold parseBind
      rw [he1]; simp only [bind, Except.bind]
      rw [hm]; simp only []
      rw [he2]; simp only []
      rw [hpv]; rfl
  | true =>
    obtain ⟨z, Z, hz⟩ := cons_of_append_cons (prParams full ps) (sim .RightParen)
      (sim .Eq :: (sub full v 0 false false ++ tk :: T))
    have hk0 : st.kinds = .ident n.value :: sim .LeftParen :: z :: Z := by
      rw [hk, ← hz]; simp [prBind]
    obtain ⟨st1, he1, hk1⟩ := expectIdent_hit true hk0
    obtain ⟨st2, he2, hk2⟩ := eatSimple_hit true hk1
    obtain ⟨ps', psp, st3, hpse, hk3, hpp⟩ := parseParams_fwd pe R ps hdf (st := st2) (y := sim .Eq)
      (Y := sub full v 0 false false ++ tk :: T) (by rw [hk2, hz])
      (by rw [hk2]; rw [hk0] at hlen; simp at hlen ⊢; omega)
    have hk3' : st3.kinds = sim .Eq :: x :: (X ++ tk :: T) := by rw [hk3, hx]; rfl
    obtain ⟨st4, he4, hk4⟩ := expectSimple_hit true hk3'
    obtain ⟨v', st5, hpv, hve, hk5⟩ := hv.run pe R (st := st4) (tk := tk) (T := T) (by rw [hk4, hx]; rfl)
      (by
        rw [hk4]
        have h1 : st3.kinds.length ≤ st2.kinds.length := by rw [hk3, hk2, ← hz]; simp <;> omega
        rw [hk3'] at h1; rw [hk2] at h1; rw [hk0] at hlen
        simp at hlen h1 ⊢; omega) hstop hne2
    refine ⟨.mk ⟨n.value, st.cur.span⟩ true ps' (surround st1.cur.span psp) v', st5, ?_, hk5, fun fuel hf => ?_⟩
    · simp [Bind.erase, Ident.erase, hpse, hve]
    · unfold parseBind
      rw [he1]; simp only [bind, Except.bind]
      rw [he2]; simp only []
      rw [hpp fuel hf]; simp only []
      rw [he4]; simp only []
      rw [hpv]; rfl

/-! ### assertions -/

def Assert.cond : Assert → Expr
  | .mk _ c _ => c
def Assert.msg : Assert → Option Expr
  | .mk _ _ m => m

structure AssertOK (full : Bool) (a : Assert) : Prop where
  cond : PCh pe R full a.cond
  msg : ∀ m, a.msg = some m → PCh pe R full m

omit pe R in
theorem prAssert_cons (full : Bool) (a : Assert) : ∃ Z, prAssert full a = sim .Assert :: Z := by
  obtain ⟨sp, c, m⟩ := a
  cases m with
  | none => exact ⟨sub full c 0 false false, by simp [prAssert]⟩
  | some m => exact ⟨sub full c 0 false false ++ sim .Colon :: sub full m 0 false false, by simp [prAssert]⟩

/-- `maybe_parse_assert` on a printed assertion, followed by `;`, `,` or `}` -/
theorem assert_step {full : Bool} {a : Assert} (ha : AssertOK pe R full a) (add : Bool) {st : PState toks}
    {tk : TokKind} {T : List TokKind} (hk : st.kinds = prAssert full a ++ tk :: T) (hlen : st.kinds.length ≤ R)
    (hstop : StopTok tk) (hne1 : tk ≠ sim .Colon) (hne2 : tk ≠ sim .Else) :
    ∃ a' st', maybeParseAssert pe add st = .ok (some (st.cur.span, a'), st') ∧ a'.erase = a.erase ∧
      st'.kinds = tk :: T := by
  obtain ⟨sp, c, m⟩ := a
  obtain ⟨hc, hm⟩ := ha
  simp only [Assert.cond, Assert.msg] at hc hm
  obtain ⟨x, X, hx, _, _⟩ := (hc.2 false).cons
  cases m with
  | none =>
    have hk0 : st.kinds = sim .Assert :: x :: (X ++ tk :: T) := by rw [hk]; simp [prAssert, hx]
    obtain ⟨st1, he1, hk1⟩ := eatSimple_hit add hk0
    obtain ⟨c', st2, hpc, hce, hk2⟩ := hc.run pe R (st := st1) (tk := tk) (T := T) (by rw [hk1, hx]; rfl)
      (by rw [hk1]; rw [hk0] at hlen; simp at hlen ⊢; omega) hstop hne2
    have hmiss : eatSimple .Colon true st2 = .ok (none, st2.pushIf true (.simple .Colon)) :=
      eatSimple_miss true (by rw [cur_kind_of_kinds hk2]; simpa [sim] using hne1)
    refine ⟨.mk (surround st.cur.span c'.span) c' none, st2.pushIf true (.simple .Colon), ?_, ?_,
      by rw [kinds_pushIf, hk2]⟩
    · unfold maybeParseAssert
      rw [he1]; simp only [bind, Except.bind]
      rw [hpc]; simp only []
      rw [hmiss]; rfl
    · simp [Assert.erase, hce, eraseOpt]
  | some m =>
    have hmm := hm m rfl
    obtain ⟨w, Wt, hw, _, _⟩ := (hmm.2 false).cons
    have hk0 : st.kinds = sim .Assert :: x :: (X ++ sim .Colon :: w :: (Wt ++ tk :: T)) := by
      rw [hk]; simp [prAssert, hx, hw]
    obtain ⟨st1, he1, hk1⟩ := eatSimple_hit add hk0
    obtain ⟨c', st2, hpc, hce, hk2⟩ := hc.run pe R (st := st1) (tk := sim .Colon) (T := w :: (Wt ++ tk :: T))
      (by rw [hk1, hx]; rfl)
      (by rw [hk1]; rw [hk0] at hlen; simp at hlen ⊢; omega) stopTok_colon (by simp [sim])
    obtain ⟨st3, he3, hk3⟩ := eatSimple_hit true hk2
    obtain ⟨m', st4, hpm, hme, hk4⟩ := hmm.run pe R (st := st3) (tk := tk) (T := T) (by rw [hk3, hw]; rfl)
      (by rw [hk3]; rw [hk0] at hlen; simp at hlen ⊢; omega) hstop hne2
    refine ⟨.mk (surround st.cur.span m'.span) c' (some m'), st4, ?_, ?_, hk4⟩
    · unfold maybeParseAssert
      rw [he1]; simp only [bind, Except.bind]
      rw [hpc]; simp only []
      rw [he3]; simp only []
      rw [hpm]; rfl
    · simp [Assert.erase, hce, hme, eraseOpt]

end
end Rsj.Parser
