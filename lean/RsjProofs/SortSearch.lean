/-
  Helper lemmas for C17 (part 4): the binary search of std.setMember and the scans of
  std.minArray / std.maxArray.
-/
import RsjProofs.Sort
namespace Rsj.Sort

variable {α κ : Type} {O : KeyOrd κ} {key : α → κ}

/-- Key-sorted (not necessarily strictly). -/
def Sorted (O : KeyOrd κ) (key : α → κ) (l : List α) : Prop :=
  l.Pairwise (fun x y => O.cmp (key x) (key y) ≠ .gt)

theorem Sorted.get {arr : List α} (hs : Sorted O key arr) {i j : Nat} (hij : i < j)
    (hj : j < arr.length) : O.cmp (key (arr[i]'(by omega))) (key arr[j]) ≠ .gt :=
  List.pairwise_iff_getElem.mp hs i j (by omega) hj hij

/-- `x` has a key-equal element in `arr` (left operand = the searched key). -/
def hasKey (O : KeyOrd κ) (key : α → κ) (kx : κ) (arr : List α) : Bool :=
  arr.any (fun y => O.cmp kx (key y) == .eq)

theorem hasKey_true {kx : κ} {arr : List α} {i : Nat} (hi : i < arr.length)
    (he : O.cmp kx (key arr[i]) = .eq) : hasKey O key kx arr = true := by
  simp only [hasKey, List.any_eq_true, beq_iff_eq]
  exact ⟨arr[i], List.getElem_mem hi, he⟩

theorem hasKey_false {kx : κ} {arr : List α}
    (hne : ∀ i (hi : i < arr.length), O.cmp kx (key arr[i]) ≠ .eq) :
    hasKey O key kx arr = false := by
  simp only [hasKey, List.any_eq_false, beq_iff_eq]
  intro y hy
  obtain ⟨i, hi, rfl⟩ := List.getElem_of_mem hy
  exact hne i hi

/-! ### std.setMember -/

theorem memberSlice_spec (h : Lawful O) (arr : List α) (kx : κ) (hs : Sorted O key arr) :
    ∀ (fuel start stop : Nat), start ≤ stop → stop < arr.length → stop - start < fuel →
      (∀ i (hi : i < arr.length), i < start → O.cmp kx (key arr[i]) = .gt) →
      (∀ i (hi : i < arr.length), stop < i → O.cmp kx (key arr[i]) = .lt) →
      memberSlice O key arr kx fuel start stop = .ok (hasKey O key kx arr) := by
  intro fuel
  induction fuel with
  | zero => intro start stop _ _ hf; omega
  | succ fuel ih =>
    intro start stop hss hstop hf hlo hhi
    simp only [memberSlice]
    rw [if_neg (by omega)]
    generalize hmid : start + (stop - start) / 2 = mid
    have hm1 : start ≤ mid := by omega
    have hm2 : mid ≤ stop := by omega
    have hml : mid < arr.length := by omega
    simp only [List.getElem?_eq_getElem hml]
    -- everything at or right of `mid` is above `kx` when `kx < arr[mid]`
    have above : O.cmp kx (key arr[mid]) = .lt →
        ∀ i (hi : i < arr.length), mid ≤ i → O.cmp kx (key arr[i]) = .lt := by
      intro hc i hi hmi
      by_cases he : i = mid
      · subst he; exact hc
      · exact h.lt_of_lt_of_le hc (hs.get (by omega) hi)
    -- everything at or left of `mid` is below `kx` when `kx > arr[mid]`
    have below : O.cmp kx (key arr[mid]) = .gt →
        ∀ i (hi : i < arr.length), i ≤ mid → O.cmp kx (key arr[i]) = .gt := by
      intro hc i hi hmi
      by_cases he : i = mid
      · subst he; exact hc
      · refine h.gt_of_gt_of_ge hc ?_
        intro hlt
        exact hs.get (i := i) (j := mid) (by omega) hml (h.lt_iff_gt.mp hlt)
    cases hc : O.cmp kx (key arr[mid]) with
    | eq => simp only; rw [hasKey_true hml hc]
    | lt =>
      simp only
      by_cases he : mid = start
      · rw [if_pos he, hasKey_false]
        intro i hi
        by_cases hlt : i < start
        · rw [hlo i hi hlt]; simp
        · rw [above hc i hi (by omega)]; simp
      · rw [if_neg he, if_neg (by omega)]
        exact ih start (mid - 1) (by omega) (by omega) (by omega) hlo
          (fun i hi hgt => above hc i hi (by omega))
    | gt =>
      simp only
      by_cases he : mid = stop
      · rw [if_pos he, hasKey_false]
        intro i hi
        by_cases hgt : stop < i
        · rw [hhi i hi hgt]; simp
        · rw [below hc i hi (by omega)]; simp
      · rw [if_neg he]
        exact ih (mid + 1) stop (by omega) hstop (by omega)
          (fun i hi hlt => below hc i hi (by omega)) hhi

theorem setMember_spec (h : Lawful O) (x : α) (arr : List α) (hs : Sorted O key arr) :
    setMember O key x arr = .ok (hasKey O key (key x) arr) := by
  unfold setMember
  by_cases he : arr.isEmpty
  · rw [if_pos he, List.isEmpty_iff.mp he]; rfl
  · rw [if_neg he]
    have hl : 0 < arr.length := by
      cases arr with
      | nil => simp at he
      | cons _ _ => simp
    exact memberSlice_spec h arr (key x) hs _ 0 (arr.length - 1) (by omega) (by omega) (by omega)
      (fun i _ hlt => by omega) (fun i hi hgt => by omega)

/-! ### std.minArray -/

theorem minLoop_spec (h : Lawful O) (arr : List α) :
    ∀ (todo cur mi : Nat) (hmi : mi < arr.length), mi < cur → cur + todo = arr.length →
      (∀ j (hj : j < arr.length), j < cur → O.cmp (key arr[mi]) (key arr[j]) ≠ .gt) →
      (∀ j (hj : j < arr.length), j < mi → O.cmp (key arr[j]) (key arr[mi]) = .gt) →
      ∃ i, ∃ (hi : i < arr.length), minLoop O key arr todo cur mi (key arr[mi]) = .ok arr[i] ∧
        (∀ j (hj : j < arr.length), O.cmp (key arr[i]) (key arr[j]) ≠ .gt) ∧
        (∀ j (hj : j < arr.length), j < i → O.cmp (key arr[j]) (key arr[i]) = .gt) := by
  intro todo
  induction todo with
  | zero =>
    intro cur mi hmi _ hcur hmin hfirst
    refine ⟨mi, hmi, ?_, fun j hj => hmin j hj (by omega), hfirst⟩
    simp only [minLoop, List.getElem?_eq_getElem hmi]
  | succ todo ih =>
    intro cur mi hmi hmc hcur hmin hfirst
    have hc : cur < arr.length := by omega
    simp only [minLoop, List.getElem?_eq_getElem hc]
    by_cases hgt : (O.cmp (key arr[mi]) (key arr[cur])).isGT = true
    · rw [if_pos hgt]
      have hg : O.cmp (key arr[mi]) (key arr[cur]) = .gt := by
        simpa [Ordering.isGT_iff_eq_gt] using hgt
      have hl : O.cmp (key arr[cur]) (key arr[mi]) = .lt := h.gt_iff_lt.mp hg
      have hall : ∀ j (hj : j < arr.length), j < cur →
          O.cmp (key arr[cur]) (key arr[j]) = .lt :=
        fun j hj hjc => h.lt_of_lt_of_le hl (hmin j hj hjc)
      refine ih (cur + 1) cur hc (by omega) (by omega) ?_ ?_
      · intro j hj hjc
        by_cases he : j = cur
        · subst he; rw [h.cmp_self]; simp
        · rw [hall j hj (by omega)]; simp
      · intro j hj hjc
        exact h.lt_iff_gt.mp (hall j hj hjc)
    · rw [if_neg hgt]
      refine ih (cur + 1) mi hmi (by omega) (by omega) ?_ hfirst
      intro j hj hjc
      by_cases he : j = cur
      · subst he
        intro hg; apply hgt; rw [hg]; rfl
      · exact hmin j hj (by omega)

theorem minArray_spec (h : Lawful O) (arr : List α) :
    (arr = [] ∧ minArray O key arr = .ok none) ∨
    ∃ i, ∃ (hi : i < arr.length), minArray O key arr = .ok (some arr[i]) ∧
      (∀ j (hj : j < arr.length), O.cmp (key arr[i]) (key arr[j]) ≠ .gt) ∧
      (∀ j (hj : j < arr.length), j < i → O.cmp (key arr[j]) (key arr[i]) = .gt) := by
  match arr with
  | [] => exact .inl ⟨rfl, rfl⟩
  | [x] =>
    refine .inr ⟨0, by simp, rfl, ?_, ?_⟩
    · intro j hj
      have : j = 0 := by simp at hj; omega
      subst this; simp [h.cmp_self]
    · intro j _ hj; omega
  | x0 :: x1 :: rest =>
    right
    obtain ⟨i, hi, e, p1, p2⟩ := minLoop_spec h (x0 :: x1 :: rest)
      ((x0 :: x1 :: rest).length - 1) 1 0 (by simp) (by omega) (by simp only [List.length_cons]; omega)
      (by
        intro j hj hj1
        have : j = 0 := by omega
        subst this; simp [h.cmp_self])
      (by intro j _ hj; omega)
    refine ⟨i, hi, ?_, p1, p2⟩
    simp only [List.getElem_cons_zero] at e
    simp only [minArray, e]

/-! ### std.maxArray -/

theorem maxLoop_spec (h : Lawful O) (arr : List α) :
    ∀ (todo cur mi : Nat) (hmi : mi < arr.length), mi < cur → cur + todo = arr.length →
      (∀ j (hj : j < arr.length), j < cur → O.cmp (key arr[mi]) (key arr[j]) ≠ .lt) →
      (∀ j (hj : j < arr.length), j < mi → O.cmp (key arr[j]) (key arr[mi]) = .lt) →
      ∃ i, ∃ (hi : i < arr.length), maxLoop O key arr todo cur mi (key arr[mi]) = .ok arr[i] ∧
        (∀ j (hj : j < arr.length), O.cmp (key arr[i]) (key arr[j]) ≠ .lt) ∧
        (∀ j (hj : j < arr.length), j < i → O.cmp (key arr[j]) (key arr[i]) = .lt) := by
  intro todo
  induction todo with
  | zero =>
    intro cur mi hmi _ hcur hmax hfirst
    refine ⟨mi, hmi, ?_, fun j hj => hmax j hj (by omega), hfirst⟩
    simp only [maxLoop, List.getElem?_eq_getElem hmi]
  | succ todo ih =>
    intro cur mi hmi hmc hcur hmax hfirst
    have hc : cur < arr.length := by omega
    simp only [maxLoop, List.getElem?_eq_getElem hc]
    by_cases hlt : (O.cmp (key arr[mi]) (key arr[cur])).isLT = true
    · rw [if_pos hlt]
      have hl : O.cmp (key arr[mi]) (key arr[cur]) = .lt := by
        simpa [Ordering.isLT_iff_eq_lt] using hlt
      have hall : ∀ j (hj : j < arr.length), j < cur →
          O.cmp (key arr[j]) (key arr[cur]) = .lt := by
        intro j hj hjc
        refine h.lt_of_le_of_lt ?_ hl
        intro hg; exact hmax j hj hjc (h.gt_iff_lt.mp hg)
      refine ih (cur + 1) cur hc (by omega) (by omega) ?_ ?_
      · intro j hj hjc
        by_cases he : j = cur
        · subst he; rw [h.cmp_self]; simp
        · rw [h.lt_iff_gt.mp (hall j hj (by omega))]; simp
      · intro j hj hjc
        exact hall j hj hjc
    · rw [if_neg hlt]
      refine ih (cur + 1) mi hmi (by omega) (by omega) ?_ hfirst
      intro j hj hjc
      by_cases he : j = cur
      · subst he
        intro hg; apply hlt; rw [hg]; rfl
      · exact hmax j hj (by omega)

theorem maxArray_spec (h : Lawful O) (arr : List α) :
    (arr = [] ∧ maxArray O key arr = .ok none) ∨
    ∃ i, ∃ (hi : i < arr.length), maxArray O key arr = .ok (some arr[i]) ∧
      (∀ j (hj : j < arr.length), O.cmp (key arr[i]) (key arr[j]) ≠ .lt) ∧
      (∀ j (hj : j < arr.length), j < i → O.cmp (key arr[j]) (key arr[i]) = .lt) := by
  match arr with
  | [] => exact .inl ⟨rfl, rfl⟩
  | [x] =>
    refine .inr ⟨0, by simp, rfl, ?_, ?_⟩
    · intro j hj
      have : j = 0 := by simp at hj; omega
      subst this; simp [h.cmp_self]
    · intro j _ hj; omega
  | x0 :: x1 :: rest =>
    right
    obtain ⟨i, hi, e, p1, p2⟩ := maxLoop_spec h (x0 :: x1 :: rest)
      ((x0 :: x1 :: rest).length - 1) 1 0 (by simp) (by omega) (by simp only [List.length_cons]; omega)
      (by
        intro j hj hj1
        have : j = 0 := by omega
        subst this; simp [h.cmp_self])
      (by intro j _ hj; omega)
    refine ⟨i, hi, ?_, p1, p2⟩
    simp only [List.getElem_cons_zero] at e
    simp only [maxArray, e]

end Rsj.Sort
