/-
  C15: the parser model never faults, part 2: object bodies (the `unreachable!()`s of `make_comp`),
  postfix forms, the explicit-stack machine with its termination measure, `parse_expr`,
  `parse_root_expr`, `Parser::new(..).parse_root_expr()`.

  Termination measure of the loop of `parse_expr`: every stack item and every state has a weight
  (`itemW`, `stateW`: the number of iterations needed to get rid of it without reading a token);
  an iteration either lowers the total weight or consumes a token and raises the weight by at
  most 33.  So `weight + 34 · (tokens left) + 2` iterations always suffice, and the model's
  `50 · tokens + 100` is more than that at every nesting depth.
-/
import RsjProofs.ParserNoFault1
namespace Rsj.Parser
variable {toks : List Token}

/-! ### `make_comp` -/

theorem makeCompLoop_snoc : ∀ (ms : List Member) (m : Member) (l1 : List Bind) (f : Option (Expr × Bool × Expr))
    (l2 : List Bind),
    makeCompLoop (ms ++ [m]) l1 f l2 =
      (match makeCompLoop ms l1 f l2 with
       | .ok (a, b, c) => makeCompLoop [m] a b c
       | .error e => .error e)
  | [], m, l1, f, l2 => by simp [makeCompLoop]
  | .local_ b :: ms, m, l1, f, l2 => by
    simp only [List.cons_append, makeCompLoop]
    split
    · exact makeCompLoop_snoc ms m _ f l2
    · exact makeCompLoop_snoc ms m l1 f _
  | .assert_ _ :: _, _, _, _, _ => by simp [makeCompLoop]
  | .field fd :: ms, m, l1, f, l2 => by
    cases fd with
    | func n ps psp vis e => simp [makeCompLoop]
    | value n plus vis body =>
      cases n with
      | ident i => simp [makeCompLoop]
      | str s sp => simp [makeCompLoop]
      | expr name nsp =>
        cases vis with
        | Hidden => simp [makeCompLoop]
        | ForceVisible => simp [makeCompLoop]
        | Default =>
          simp only [List.cons_append, makeCompLoop]
          split
          · exact makeCompLoop_snoc ms m l1 _ l2
          · rfl

/-- while `can_be_comp` holds, the members read so far are what `make_comp` accepts: object locals
    and at most one `[e]: v` field, exactly one when `has_comp_dyn_field` -/
def CompInv (members : List Member) (c h : Bool) : Prop :=
  c = true → ∃ l1 f l2, makeCompLoop members [] none [] = .ok (l1, f, l2) ∧ f.isSome = h

theorem CompInv.nil : CompInv [] true false := fun _ => ⟨[], none, [], rfl, rfl⟩

theorem CompInv.local_ {ms : List Member} {c h : Bool} (hi : CompInv ms c h) (b : Bind) :
    CompInv (ms ++ [.local_ b]) c h := by
  intro hc
  obtain ⟨l1, f, l2, hm, hf⟩ := hi hc
  rw [makeCompLoop_snoc, hm]
  simp only [makeCompLoop]
  split
  · exact ⟨_, _, _, rfl, hf⟩
  · exact ⟨_, _, _, rfl, hf⟩

theorem CompInv.assert_ {ms : List Member} {h : Bool} (a : Assert) : CompInv (ms ++ [.assert_ a]) false h :=
  fun hc => by cases hc

theorem CompInv.field {ms : List Member} {c h : Bool} (hi : CompInv ms c h) (fd : Field) :
    CompInv (ms ++ [.field fd]) (fieldFlags fd c h).1 (fieldFlags fd c h).2 := by
  intro hc
  have key : ∀ (name : Expr) (nsp : Span) (plus : Bool) (body : Expr),
      fd = .value (.expr name nsp) plus .Default body →
      ∃ l1 f l2, makeCompLoop (ms ++ [.field fd]) [] none [] = .ok (l1, f, l2) ∧
        f.isSome = (fieldFlags fd c h).2 := by
    intro name nsp plus body hfd
    subst hfd
    cases h with
    | true => simp [fieldFlags] at hc
    | false =>
      have hc' : c = true := by simpa [fieldFlags] using hc
      obtain ⟨l1, f, l2, hm, hf⟩ := hi hc'
      rw [makeCompLoop_snoc, hm]
      cases f with
      | some p => cases hf
      | none => exact ⟨l1, some (name, plus, body), l2, by simp [makeCompLoop], by simp [fieldFlags]⟩
  cases fd with
  | func n ps psp vis e => simp [fieldFlags] at hc
  | value n plus vis body =>
    cases n with
    | ident i => simp [fieldFlags] at hc
    | str s sp => simp [fieldFlags] at hc
    | expr name nsp =>
      cases vis with
      | Hidden => simp [fieldFlags] at hc
      | ForceVisible => simp [fieldFlags] at hc
      | Default => exact key name nsp plus body rfl

theorem CompInv.comp_ok {ms : List Member} {c h : Bool} (hi : CompInv ms c h) (hch : (c && h) = true)
    (spec : List CompSpec) : ∃ o, makeComp ms spec = .ok o := by
  simp only [Bool.and_eq_true] at hch
  obtain ⟨l1, f, l2, hm, hf⟩ := hi hch.1
  unfold makeComp
  rw [hm]
  cases f with
  | none => rw [hch.2] at hf; cases hf
  | some p =>
    obtain ⟨name, plus, body⟩ := p
    exact ⟨_, rfl⟩

section
variable (hE : EofLast toks) {pe : PState toks → Except (Err toks) (Expr × PState toks)} {N : Nat}
  (hpe : PeNF pe N)
include hE hpe

theorem nf_objLoop : ∀ (fuel : Nat) (members : List Member) (c h : Bool) (st : PState toks),
    st.rem.length < fuel → st.rem.length ≤ N → CompInv members c h →
    NF (objLoop pe fuel members c h st) (fun _ st' => st'.rem.length < st.rem.length) := by
  intro fuel
  induction fuel with
  | zero => intro members c h st hf _ _; omega
  | succ fuel ih =>
    intro members c h st hf hN hinv
    unfold objLoop
    refine NF.bind (nf_maybeParseObjLocal hE hpe fuel st (by omega) hN) ?_
    intro ol st1 h1
    dsimp only
    refine NF.bind (P := fun r st3 => CompInv r.1 r.2.1 r.2.2 ∧ st3.rem.length < st.rem.length) ?_ ?_
    · cases ol with
      | some b => exact NF.pure ⟨hinv.local_ b, h1.1 rfl⟩
      | none =>
        have l1 := h1.2
        dsimp only
        refine NF.bind (nf_maybeParseField hE hpe fuel st1 (by omega) (by omega)) ?_
        intro fl st2 h2
        cases fl with
        | some f =>
          have l2 := h2.1 rfl
          exact NF.pure ⟨hinv.field f, by first | omega | (dsimp only; omega)⟩
        | none =>
          have l2 := h2.2
          dsimp only
          refine NF.bind (nf_maybeParseAssert hE hpe true st2 (by omega)) ?_
          intro a st3 h3
          cases a with
          | none => exact NF.expected
          | some p =>
            obtain ⟨sp, a⟩ := p
            have l3 := h3.1 rfl
            exact NF.pure ⟨CompInv.assert_ a, by first | omega | (dsimp only; omega)⟩
    · intro r st3 h3
      obtain ⟨members', c', h'⟩ := r
      obtain ⟨hinv', l3⟩ := h3
      dsimp only at hinv' ⊢
      refine NF.bind (nf_eatSimple hE .RightBrace true st3) ?_
      intro rb st4 h4
      have l4 := h4.1.opt.2
      cases rb with
      | some endSp => nf_done
      | none =>
        dsimp only
        refine NF.bind (nf_eatSimple hE .Comma true st4) ?_
        intro cm st5 h5
        have l5 := h5.1.opt.2
        have comp : ∀ (st6 : PState toks) spec, (c' && h') = true → st6.rem.length ≤ st5.rem.length →
            NF (do
              let (endSp, st) ← expectSimple .RightBrace true st6
              let (o, st) ← liftFault (makeComp members' spec) st
              pure ((o, endSp), st))
              (fun _ st' => st'.rem.length < st.rem.length) := by
          intro st6 spec hch l6
          refine NF.bind (nf_expectSimple hE .RightBrace true st6) ?_
          intro endSp st7 h7
          have l7 := h7.len
          dsimp only
          obtain ⟨o, ho⟩ := hinv'.comp_ok hch spec
          rw [ho]
          simp only [liftFault]
          nf_done
        cases cm with
        | some _ =>
          dsimp only
          refine NF.bind (nf_eatSimple hE .RightBrace true st5) ?_
          intro rb2 st6 h6
          have l6 := h6.1.opt.2
          cases rb2 with
          | some endSp => nf_done
          | none =>
            dsimp only
            split
            · next hch =>
              refine NF.bind (nf_maybeParseCompSpec hE hpe fuel st6 (by omega) (by omega)) ?_
              intro cs st7 h7
              have l7 := h7.2
              cases cs with
              | some spec => exact comp st7 spec hch (by omega)
              | none =>
                dsimp only
                refine NF.mono (ih members' c' h' st7 (by omega) (by omega) hinv') ?_
                intro _ s hs
                omega
            · refine NF.mono (ih members' c' h' st6 (by omega) (by omega) hinv') ?_
              intro _ s hs
              omega
        | none =>
          dsimp only
          split
          · next hch =>
            refine NF.bind (nf_maybeParseCompSpec hE hpe fuel st5 (by omega) (by omega)) ?_
            intro cs st6 h6
            have l6 := h6.2
            cases cs with
            | some spec => exact comp st6 spec hch (by omega)
            | none => exact NF.expected
          · exact NF.expected

theorem nf_parseObjInside (fuel : Nat) (st : PState toks) (hf : st.rem.length < fuel) (hN : st.rem.length ≤ N) :
    NF (parseObjInside pe fuel st) (fun _ st' => st'.rem.length < st.rem.length) := by
  unfold parseObjInside
  refine NF.bind (nf_eatSimple hE .RightBrace true st) ?_
  intro rb st1 h1
  cases rb with
  | some endSp => have := Adv.len h1.1; nf_done
  | none =>
    have := Sm.len h1.1
    dsimp only
    refine NF.mono (nf_objLoop hE hpe fuel [] true false st1 (by omega) (by omega) CompInv.nil) ?_
    intro _ s hs
    omega

/-! ### postfix forms -/

theorem nf_sliceLast (st : PState toks) (hN : st.rem.length < N) :
    NF (sliceLast pe st) (fun _ st' => st'.rem.length < st.rem.length) := by
  unfold sliceLast
  refine NF.bind (nf_eatSimple hE .RightBracket true st) ?_
  intro rb st1 h1
  cases rb with
  | some endSp => have := Adv.len h1.1; nf_done
  | none =>
    have l1 := Sm.len h1.1
    dsimp only
    refine NF.bind (hpe st1 (by omega)) ?_
    intro i3 st2 l2
    dsimp only
    refine NF.bind (nf_expectSimple hE .RightBracket true st2) ?_
    intro endSp st3 h3
    have l3 := h3.len
    nf_done

theorem nf_sliceAfterColon (st : PState toks) (hN : st.rem.length < N) :
    NF (sliceAfterColon pe st) (fun _ st' => st'.rem.length < st.rem.length) := by
  unfold sliceAfterColon
  refine NF.bind (nf_eatSimple hE .RightBracket true st) ?_
  intro rb st1 h1
  cases rb with
  | some endSp => have := Adv.len h1.1; nf_done
  | none =>
    have l1 := Sm.len h1.1
    dsimp only
    refine NF.bind (nf_eatSimple hE .Colon true st1) ?_
    intro c st2 h2
    have l2 := h2.1.opt.2
    cases c with
    | some _ =>
      dsimp only
      refine NF.bind (nf_sliceLast hE hpe st2 (by omega)) ?_
      intro r st3 l3
      obtain ⟨i3, endSp⟩ := r
      nf_done
    | none =>
      dsimp only
      refine NF.bind (hpe st2 (by omega)) ?_
      intro i2 st3 l3
      dsimp only
      refine NF.bind (nf_eatSimple hE .RightBracket true st3) ?_
      intro rb2 st4 h4
      have l4 := h4.1.opt.2
      cases rb2 with
      | some endSp => nf_done
      | none =>
        dsimp only
        refine NF.bind (nf_eatSimple hE .Colon true st4) ?_
        intro c2 st5 h5
        have l5 := h5.1.opt.2
        cases c2 with
        | none => exact NF.expected
        | some _ =>
          dsimp only
          refine NF.bind (nf_sliceLast hE hpe st5 (by omega)) ?_
          intro r st6 l6
          obtain ⟨i3, endSp⟩ := r
          nf_done

theorem nf_parseIndexExpr (lhs : Expr) (st : PState toks) (hN : st.rem.length < N) :
    NF (parseIndexExpr pe lhs st) (fun _ st' => st'.rem.length < st.rem.length) := by
  unfold parseIndexExpr
  refine NF.bind (nf_eatSimple hE .Colon true st) ?_
  intro c st1 h1
  have l1 := h1.1.opt.2
  cases c with
  | some _ =>
    dsimp only
    refine NF.bind (nf_sliceAfterColon hE hpe st1 (by omega)) ?_
    intro r st2 l2
    obtain ⟨i2, i3, endSp⟩ := r
    nf_done
  | none =>
    dsimp only
    refine NF.bind (nf_eatSimple hE .ColonColon true st1) ?_
    intro cc st2 h2
    have l2 := h2.1.opt.2
    cases cc with
    | some _ =>
      dsimp only
      refine NF.bind (nf_sliceLast hE hpe st2 (by omega)) ?_
      intro r st3 l3
      obtain ⟨i3, endSp⟩ := r
      nf_done
    | none =>
      dsimp only
      refine NF.bind (hpe st2 (by omega)) ?_
      intro i1 st3 l3
      dsimp only
      refine NF.bind (nf_eatSimple hE .RightBracket true st3) ?_
      intro rb st4 h4
      have l4 := h4.1.opt.2
      cases rb with
      | some endSp => nf_done
      | none =>
        dsimp only
        refine NF.bind (nf_eatSimple hE .Colon true st4) ?_
        intro c2 st5 h5
        have l5 := h5.1.opt.2
        cases c2 with
        | some _ =>
          dsimp only
          refine NF.bind (nf_sliceAfterColon hE hpe st5 (by omega)) ?_
          intro r st6 l6
          obtain ⟨i2, i3, endSp⟩ := r
          nf_done
        | none =>
          dsimp only
          refine NF.bind (nf_eatSimple hE .ColonColon true st5) ?_
          intro cc2 st6 h6
          have l6 := h6.1.opt.2
          cases cc2 with
          | none => exact NF.expected
          | some _ =>
            dsimp only
            refine NF.bind (nf_sliceLast hE hpe st6 (by omega)) ?_
            intro r st7 l7
            obtain ⟨i3, endSp⟩ := r
            nf_done

theorem nf_parseSuffixExpr : ∀ (fuel : Nat) (lhs : Expr) (st : PState toks),
    st.rem.length < fuel → st.rem.length ≤ N →
    NF (parseSuffixExpr pe fuel lhs st) (fun _ st' => st'.rem.length ≤ st.rem.length) := by
  intro fuel
  induction fuel with
  | zero => intro lhs st hf _; omega
  | succ fuel ih =>
    intro lhs st hf hN
    have cont : ∀ (e : Expr) (st1 : PState toks), st1.rem.length < st.rem.length →
        NF (parseSuffixExpr pe fuel e st1) (fun _ st' => st'.rem.length ≤ st.rem.length) := by
      intro e st1 l1
      refine NF.mono (ih e st1 (by omega) (by omega)) ?_
      intro _ s hs
      omega
    unfold parseSuffixExpr
    refine NF.bind (nf_eatSimple hE .Dot true st) ?_
    intro dot st1 h1
    have l1 := h1.1.opt.2
    cases dot with
    | some _ =>
      have l1' := Adv.len h1.1
      dsimp only
      refine NF.bind (nf_expectIdent hE true st1) ?_
      intro name st2 h2
      have l2 := h2.len
      dsimp only
      exact cont _ st2 (by omega)
    | none =>
      dsimp only
      refine NF.bind (nf_eatSimple hE .LeftBracket true st1) ?_
      intro lb st2 h2
      have l2 := h2.1.opt.2
      cases lb with
      | some _ =>
        have l2' := Adv.len h2.1
        dsimp only
        refine NF.bind (nf_parseIndexExpr hE hpe lhs st2 (by omega)) ?_
        intro e st3 l3
        dsimp only
        exact cont e st3 (by omega)
      | none =>
        dsimp only
        refine NF.bind (nf_eatSimple hE .LeftParen true st2) ?_
        intro lp st3 h3
        have l3 := h3.1.opt.2
        cases lp with
        | some _ =>
          have l3' := Adv.len h3.1
          dsimp only
          refine NF.bind (nf_eatSimple hE .RightParen true st3) ?_
          intro rp st4 h4
          have l4 := h4.1.opt.2
          dsimp only
          refine NF.bind (P := fun _ st5 => st5.rem.length ≤ st4.rem.length) ?_ ?_
          · cases rp with
            | some endSp => nf_done
            | none =>
              dsimp only
              refine NF.mono (nf_parseArgs hE hpe fuel st4 (by omega) (by omega)) ?_
              intro _ s hs
              omega
          · intro r st5 l5
            obtain ⟨args, endSp⟩ := r
            dsimp only at l5 ⊢
            refine NF.bind (nf_eatSimple hE .Tailstrict true st5) ?_
            intro ts st6 h6
            have l6 := h6.1.opt.2
            dsimp only
            exact cont _ st6 (by omega)
        | none =>
          dsimp only
          refine NF.bind (nf_eatSimple hE .LeftBrace true st3) ?_
          intro lbr st4 h4
          have l4 := h4.1.opt.2
          cases lbr with
          | none => nf_done
          | some objStart =>
            have l4' := Adv.len h4.1
            dsimp only
            refine NF.bind (nf_parseObjInside hE hpe fuel st4 (by omega) (by omega)) ?_
            intro r st5 l5
            obtain ⟨o, objEnd⟩ := r
            dsimp only at l5 ⊢
            exact cont _ st5 (by omega)

theorem nf_bindsLoop : ∀ (fuel : Nat) (acc : List Bind) (st : PState toks),
    st.rem.length < fuel → st.rem.length ≤ N →
    NF (bindsLoop pe fuel acc st) (fun _ st' => st'.rem.length ≤ st.rem.length) := by
  intro fuel
  induction fuel with
  | zero => intro acc st hf _; omega
  | succ fuel ih =>
    intro acc st hf hN
    unfold bindsLoop
    refine NF.bind (nf_eatSimple hE .Comma true st) ?_
    intro c st1 h1
    have l1 := h1.1.opt.2
    cases c with
    | none => nf_done
    | some _ =>
      have l1' := Adv.len h1.1
      dsimp only
      refine NF.bind (nf_parseBind hE hpe fuel st1 (by omega) (by omega)) ?_
      intro b st2 l2
      dsimp only
      refine NF.mono (ih _ st2 (by omega) (by omega)) ?_
      intro _ s hs
      omega

end

/-! ### the machine -/

theorem nf_parseMaybeSimpleExpr (hE : EofLast toks) (st : PState toks) :
    NF (parseMaybeSimpleExpr st) (OptP st) := by
  unfold parseMaybeSimpleExpr
  refine NF.bind (nf_eatSimple hE .Null false st) ?_
  intro r st1 h1
  cases r with
  | some sp => have := Adv.len h1.1; nf_done
  | none =>
  have l1 := Sm.len h1.1
  dsimp only
  refine NF.bind (nf_eatSimple hE .False_ false st1) ?_
  intro r st2 h2
  cases r with
  | some sp => have := Adv.len h2.1; nf_done
  | none =>
  have l2 := Sm.len h2.1
  dsimp only
  refine NF.bind (nf_eatSimple hE .True_ false st2) ?_
  intro r st3 h3
  cases r with
  | some sp => have := Adv.len h3.1; nf_done
  | none =>
  have l3 := Sm.len h3.1
  dsimp only
  refine NF.bind (nf_eatSimple hE .Self_ false st3) ?_
  intro r st4 h4
  cases r with
  | some sp => have := Adv.len h4.1; nf_done
  | none =>
  have l4 := Sm.len h4.1
  dsimp only
  refine NF.bind (nf_eatSimple hE .Dollar false st4) ?_
  intro r st5 h5
  cases r with
  | some sp => have := Adv.len h5.1; nf_done
  | none =>
  have l5 := Sm.len h5.1
  dsimp only
  refine NF.bind (nf_eatString hE false st5) ?_
  intro r st6 h6
  cases r with
  | some p => obtain ⟨s, sp⟩ := p; have := Adv.len h6; nf_done
  | none =>
  have l6 := Sm.len h6
  dsimp only
  refine NF.bind (nf_eatTextBlock hE false st6) ?_
  intro r st7 h7
  cases r with
  | some p => obtain ⟨s, sp⟩ := p; have := Adv.len h7; nf_done
  | none =>
  have l7 := Sm.len h7
  dsimp only
  refine NF.bind (nf_eatNumber hE false st7) ?_
  intro r st8 h8
  cases r with
  | some p => obtain ⟨s, sp⟩ := p; have := Adv.len h8; nf_done
  | none =>
  have l8 := Sm.len h8
  dsimp only
  refine NF.bind (nf_eatIdent hE false st8) ?_
  intro r st9 h9
  cases r with
  | some i => have := Adv.len h9.1; nf_done
  | none =>
    have l9 := Sm.len h9.1
    refine NF.pure ⟨fun h => ?_, ?_⟩
    · cases h
    · first | omega | (dsimp only; omega)

/-- iterations needed to get rid of a stack item without reading a token -/
def itemW : StackItem → Nat
  | .binaryLhs _ => 2
  | .binaryRhs _ _ _ => 2
  | .unary _ _ => 1
  | .suffix => 1
  | .arrayItem0 _ => 1
  | .arrayItemN _ _ => 1
  | .paren _ => 1

def stackW : List StackItem → Nat
  | [] => 0
  | i :: r => itemW i + stackW r

/-- iterations needed to leave a state without reading a token -/
def stateW : State → Nat
  | .parsed _ => 0
  | .binaryRhs _ _ => 1
  | .binary k => 3 * (10 - k.prec) + 3
  | .unary => 3
  | .primary => 1

theorem stateW_next (k : BinKind) : stateW (nextStateOf k) + 3 = stateW (.binary k) := by
  cases k <;> rfl

theorem stateW_init : stateW initState = 33 := rfl

/-- one iteration: the weight drops, or a token is consumed and the weight grows by at most 33 -/
def StepP (stack : List StackItem) (state : State) (st : PState toks) (r : List StackItem × State)
    (st' : PState toks) : Prop :=
  stackW r.1 + stateW r.2 + 34 * st'.rem.length + 1 ≤ stackW stack + stateW state + 34 * st.rem.length ∧
    st'.rem.length ≤ st.rem.length

/-- states that are only reached after a token of this `parse_expr` call was read -/
def needsLt : State → Bool
  | .parsed _ => true
  | .binaryRhs _ _ => true
  | _ => false

theorem nf_unaryStep (hE : EofLast toks) (stack : List StackItem) (st : PState toks) :
    NF (unaryStep stack st) (fun r st' => StepP stack .unary st r st' ∧ needsLt r.2 = false) := by
  unfold unaryStep
  refine NF.bind (nf_eatFirst hE false unaryOps st) ?_
  intro r st1 h1
  cases r with
  | some p =>
    obtain ⟨t, op, opSp⟩ := p
    have l1 := Adv.len h1
    refine NF.pure ⟨⟨?_, ?_⟩, rfl⟩
    · simp only [stackW, itemW, stateW]; omega
    · first | omega | (dsimp only; omega)
  | none =>
    have l1 := Sm.len h1
    refine NF.pure ⟨⟨?_, ?_⟩, rfl⟩
    · simp only [stackW, itemW, stateW]; omega
    · first | omega | (dsimp only; omega)

theorem nf_binaryRhsStep (hE : EofLast toks) (k : BinKind) (lhs : Expr) (stack : List StackItem)
    (st : PState toks) : NF (binaryRhsStep k lhs stack st) (StepP stack (.binaryRhs k lhs) st) := by
  unfold binaryRhsStep
  refine NF.bind (nf_eatFirst hE false k.ops st) ?_
  intro r st1 h1
  cases r with
  | none =>
    have l1 := Sm.len h1
    refine NF.pure ⟨?_, ?_⟩
    · show stackW stack + stateW (.parsed lhs) + 34 * (st1.push .binaryOp).rem.length + 1 ≤ _
      have : (st1.push .binaryOp).rem.length = st1.rem.length := rfl
      simp only [stateW]; omega
    · show (st1.push .binaryOp).rem.length ≤ _
      have : (st1.push .binaryOp).rem.length = st1.rem.length := rfl
      omega
  | some p =>
    obtain ⟨tok, op, sp⟩ := p
    have l1 := Adv.len h1
    dsimp only
    split
    · next hc =>
      have hp0 : st1.cur.kind = .simple inSuperHead := by
        have := hc.2.2.1
        simpa [peekSimple] using this
      refine NF.bind (nf_eatSimple hE inSuperHead true st1) ?_
      intro s st2 h2
      have hsome := h2.2 hp0
      cases s with
      | none => cases hsome
      | some superSp =>
        have l2 := Adv.len h2.1
        refine NF.pure ⟨?_, ?_⟩
        · simp only [stateW]; omega
        · first | omega | (dsimp only; omega)
    · refine NF.pure ⟨?_, ?_⟩
      · have := stateW_next k
        have hk := prec_lt k
        simp only [stackW, itemW, stateW] at this ⊢
        omega
      · first | omega | (dsimp only; omega)

section
variable (hE : EofLast toks) {pe : PState toks → Except (Err toks) (Expr × PState toks)} {N : Nat}
  (hpe : PeNF pe N)
include hE hpe

theorem nf_parsedStep (fuel : Nat) (e : Expr) (item : StackItem) (stack : List StackItem) (st : PState toks)
    (hf : st.rem.length < fuel) (hN : st.rem.length ≤ N) :
    NF (parsedStep pe fuel e item stack st) (StepP (item :: stack) (.parsed e) st) := by
  cases item with
  | binaryLhs k => exact NF.pure ⟨by simp only [stackW, itemW, stateW]; omega, Nat.le_refl _⟩
  | binaryRhs k lhs op => exact NF.pure ⟨by simp only [stackW, itemW, stateW]; omega, Nat.le_refl _⟩
  | unary op opSp => exact NF.pure ⟨by simp only [stackW, itemW, stateW]; omega, Nat.le_refl _⟩
  | suffix =>
    unfold parsedStep
    refine NF.bind (nf_parseSuffixExpr hE hpe fuel e st hf hN) ?_
    intro e' st1 l1
    refine NF.pure ⟨?_, ?_⟩
    · simp only [stackW, itemW, stateW]; omega
    · first | omega | (dsimp only; omega)
  | paren startSp =>
    unfold parsedStep
    refine NF.bind (nf_expectSimple hE .RightParen true st) ?_
    intro endSp st1 h1
    have l1 := h1.len
    refine NF.pure ⟨?_, ?_⟩
    · simp only [stackW, itemW, stateW]; omega
    · first | omega | (dsimp only; omega)
  | arrayItem0 startSp =>
    unfold parsedStep
    refine NF.bind (nf_eatSimple hE .Comma true st) ?_
    intro comma st1 hc
    have l1 := hc.1.opt
    have l1le := l1.2
    dsimp only
    refine NF.bind (nf_maybeParseCompSpec hE hpe fuel st1 (by omega) (by omega)) ?_
    intro cs st2 h5
    have l2 := h5.2
    cases cs with
    | some spec =>
      dsimp only
      refine NF.bind (nf_expectSimple hE .RightBracket true st2) ?_
      intro endSp st3 h6
      have l3 := h6.len
      refine NF.pure ⟨?_, ?_⟩
      · simp only [stackW, itemW, stateW]; omega
      · first | omega | (dsimp only; omega)
    | none =>
      dsimp only
      refine NF.bind (nf_eatSimple hE .RightBracket true st2) ?_
      intro rb st3 h6
      have l3 := h6.1.opt.2
      cases rb with
      | some endSp =>
        refine NF.pure ⟨?_, ?_⟩
        · simp only [stackW, itemW, stateW]; omega
        · first | omega | (dsimp only; omega)
      | none =>
        dsimp only
        split
        · next hcm =>
          have l1' := l1.1 hcm
          refine NF.pure ⟨?_, ?_⟩
          · simp only [stackW, itemW, stateW_init]; omega
          · first | omega | (dsimp only; omega)
        · exact NF.expected
  | arrayItemN startSp items =>
    unfold parsedStep
    dsimp only
    refine NF.bind (nf_eatSimple hE .Comma true st) ?_
    intro comma st1 hc
    have l1 := hc.1.opt
    have l1le := l1.2
    dsimp only
    refine NF.bind (nf_eatSimple hE .RightBracket true st1) ?_
    intro rb st2 h6
    have l2 := h6.1.opt.2
    cases rb with
    | some endSp =>
      refine NF.pure ⟨?_, ?_⟩
      · simp only [stackW, itemW, stateW]; omega
      · first | omega | (dsimp only; omega)
    | none =>
      dsimp only
      split
      · next hcm =>
        have l1' := l1.1 hcm
        refine NF.pure ⟨?_, ?_⟩
        · simp only [stackW, itemW, stateW_init]; omega
        · first | omega | (dsimp only; omega)
      · exact NF.expected

/-- `State::Primary` always reads a token -/
theorem nf_primaryStep (fuel : Nat) (stack : List StackItem) (st : PState toks)
    (hf : st.rem.length < fuel) (hN : st.rem.length ≤ N) :
    NF (primaryStep pe fuel stack st)
      (fun r st' => StepP stack .primary st r st' ∧ st'.rem.length < st.rem.length) := by
  have done : ∀ (e : Expr) (st' : PState toks), st'.rem.length < st.rem.length →
      StepP stack .primary st (stack, .parsed e) st' ∧ st'.rem.length < st.rem.length := by
    intro e st' h
    refine ⟨⟨?_, by omega⟩, h⟩
    simp only [stateW]; omega
  have push : ∀ (item : StackItem) (st' : PState toks), itemW item = 1 → st'.rem.length + 1 ≤ st.rem.length →
      StepP stack .primary st (item :: stack, initState) st' ∧ st'.rem.length < st.rem.length := by
    intro item st' hw h
    refine ⟨⟨?_, by omega⟩, by omega⟩
    show stackW (item :: stack) + stateW initState + 34 * st'.rem.length + 1 ≤
      stackW stack + stateW State.primary + 34 * st.rem.length
    rw [show stackW (item :: stack) = itemW item + stackW stack from rfl, hw, stateW_init]
    simp only [stateW]; omega
  have kw : ∀ (mk : Expr → Span → Expr) (st2 : PState toks) (startSp : Span),
      st2.rem.length + 1 ≤ st.rem.length →
      NF (do
        let (e, st) ← pe st2
        pure ((stack, State.parsed (mk e (surround startSp e.span))), st))
        (fun r st' => StepP stack .primary st r st' ∧ st'.rem.length < st.rem.length) := by
    intro mk st2 startSp l2
    refine NF.bind (hpe st2 (by omega)) ?_
    intro e st3 l3
    exact NF.pure (done _ st3 (by omega))
  unfold primaryStep
  refine NF.bind (nf_parseMaybeSimpleExpr hE st) ?_
  intro se st1 h1
  cases se with
  | some e => exact NF.pure (done e st1 (h1.1 rfl))
  | none =>
  have l1 := h1.2
  dsimp only
  refine NF.bind (nf_eatSimple hE .LeftBrace false st1) ?_
  intro r st2 h2
  have l2 := h2.1.opt
  cases r with
  | some startSp =>
    have l2' := l2.1 rfl
    dsimp only
    refine NF.bind (nf_parseObjInside hE hpe fuel st2 (by omega) (by omega)) ?_
    intro r st3 l3
    obtain ⟨o, endSp⟩ := r
    exact NF.pure (done _ st3 (by omega))
  | none =>
  have l2' := l2.2
  dsimp only
  refine NF.bind (nf_eatSimple hE .LeftBracket false st2) ?_
  intro r st3 h3
  have l3 := h3.1.opt
  cases r with
  | some startSp =>
    have l3' := l3.1 rfl
    dsimp only
    refine NF.bind (nf_eatSimple hE .RightBracket true st3) ?_
    intro rb st4 h4
    have l4 := h4.1.opt.2
    cases rb with
    | some endSp => exact NF.pure (done _ st4 (by omega))
    | none => exact NF.pure (push _ st4 rfl (by omega))
  | none =>
  have l3' := l3.2
  dsimp only
  refine NF.bind (nf_eatSimple hE .Super false st3) ?_
  intro r st4 h4
  have l4 := h4.1.opt
  cases r with
  | some superSp =>
    have l4' := l4.1 rfl
    dsimp only
    refine NF.bind (nf_eatSimple hE .Dot true st4) ?_
    intro dot st5 h5
    have l5 := h5.1.opt.2
    cases dot with
    | some _ =>
      dsimp only
      refine NF.bind (nf_expectIdent hE true st5) ?_
      intro name st6 h6
      have l6 := h6.len
      exact NF.pure (done _ st6 (by omega))
    | none =>
      dsimp only
      refine NF.bind (nf_eatSimple hE .LeftBracket true st5) ?_
      intro lb st6 h6
      have l6 := h6.1.opt.2
      cases lb with
      | none => exact NF.expected
      | some _ =>
        dsimp only
        refine NF.bind (hpe st6 (by omega)) ?_
        intro i st7 l7
        dsimp only
        refine NF.bind (nf_expectSimple hE .RightBracket true st7) ?_
        intro endSp st8 h8
        have l8 := h8.len
        exact NF.pure (done _ st8 (by omega))
  | none =>
  have l4' := l4.2
  dsimp only
  refine NF.bind (nf_eatSimple hE .Local false st4) ?_
  intro r st5 h5
  have l5 := h5.1.opt
  cases r with
  | some startSp =>
    have l5' := l5.1 rfl
    dsimp only
    refine NF.bind (nf_parseBind hE hpe fuel st5 (by omega) (by omega)) ?_
    intro b0 st6 l6
    dsimp only
    refine NF.bind (nf_bindsLoop hE hpe fuel [b0] st6 (by omega) (by omega)) ?_
    intro binds st7 l7
    dsimp only
    refine NF.bind (nf_expectSimple hE .Semicolon true st7) ?_
    intro _ st8 h8
    have l8 := h8.len
    dsimp only
    refine NF.bind (hpe st8 (by omega)) ?_
    intro inner st9 l9
    exact NF.pure (done _ st9 (by omega))
  | none =>
  have l5' := l5.2
  dsimp only
  refine NF.bind (nf_eatSimple hE .If false st5) ?_
  intro r st6 h6
  have l6 := h6.1.opt
  cases r with
  | some ifSp =>
    have l6' := l6.1 rfl
    dsimp only
    refine NF.bind (hpe st6 (by omega)) ?_
    intro cond st7 l7
    dsimp only
    refine NF.bind (nf_expectSimple hE .Then true st7) ?_
    intro _ st8 h8
    have l8 := h8.len
    dsimp only
    refine NF.bind (hpe st8 (by omega)) ?_
    intro thenB st9 l9
    dsimp only
    refine NF.bind (nf_eatSimple hE .Else true st9) ?_
    intro el st10 h10
    have l10 := h10.1.opt.2
    cases el with
    | some _ =>
      dsimp only
      refine NF.bind (hpe st10 (by omega)) ?_
      intro elseB st11 l11
      exact NF.pure (done _ st11 (by omega))
    | none => exact NF.pure (done _ st10 (by omega))
  | none =>
  have l6' := l6.2
  dsimp only
  refine NF.bind (nf_eatSimple hE .Function false st6) ?_
  intro r st7 h7
  have l7 := h7.1.opt
  cases r with
  | some startSp =>
    have l7' := l7.1 rfl
    dsimp only
    refine NF.bind (nf_expectSimple hE .LeftParen true st7) ?_
    intro _ st8 h8
    have l8 := h8.len
    dsimp only
    refine NF.bind (nf_parseParams hE hpe fuel st8 (by omega) (by omega)) ?_
    intro r st9 l9
    obtain ⟨params, endSp⟩ := r
    dsimp only
    refine NF.bind (hpe st9 (by omega)) ?_
    intro body st10 l10
    exact NF.pure (done _ st10 (by omega))
  | none =>
  have l7' := l7.2
  dsimp only
  refine NF.bind (nf_maybeParseAssert hE hpe false st7 (by omega)) ?_
  intro r st8 h8
  cases r with
  | some p =>
    obtain ⟨startSp, a⟩ := p
    have l8 := h8.1 rfl
    dsimp only
    refine NF.bind (nf_expectSimple hE .Semicolon true st8) ?_
    intro _ st9 h9
    have l9 := h9.len
    dsimp only
    refine NF.bind (hpe st9 (by omega)) ?_
    intro inner st10 l10
    exact NF.pure (done _ st10 (by omega))
  | none =>
  have l8 := h8.2
  dsimp only
  refine NF.bind (nf_eatSimple hE .Import false st8) ?_
  intro r st9 h9
  have l9 := h9.1.opt
  cases r with
  | some startSp => exact kw Expr.import_ st9 startSp (by have := l9.1 rfl; omega)
  | none =>
  have l9' := l9.2
  dsimp only
  refine NF.bind (nf_eatSimple hE .Importstr false st9) ?_
  intro r st10 h10
  have l10 := h10.1.opt
  cases r with
  | some startSp => exact kw Expr.importStr st10 startSp (by have := l10.1 rfl; omega)
  | none =>
  have l10' := l10.2
  dsimp only
  refine NF.bind (nf_eatSimple hE .Importbin false st10) ?_
  intro r st11 h11
  have l11 := h11.1.opt
  cases r with
  | some startSp => exact kw Expr.importBin st11 startSp (by have := l11.1 rfl; omega)
  | none =>
  have l11' := l11.2
  dsimp only
  refine NF.bind (nf_eatSimple hE .Error false st11) ?_
  intro r st12 h12
  have l12 := h12.1.opt
  cases r with
  | some startSp => exact kw Expr.error_ st12 startSp (by have := l12.1 rfl; omega)
  | none =>
  have l12' := l12.2
  dsimp only
  refine NF.bind (nf_eatSimple hE .LeftParen false st12) ?_
  intro r st13 h13
  have l13 := h13.1.opt
  cases r with
  | some startSp => exact NF.pure (push _ st13 rfl (by have := l13.1 rfl; omega))
  | none => exact NF.expected

/-- **The loop of `parse_expr` has enough fuel** whenever `weight + 34 · tokens + 2 ≤ fuel`. -/
theorem nf_exprLoop (L0 : Nat) : ∀ (fuel : Nat) (stack : List StackItem) (state : State) (st : PState toks),
    stackW stack + stateW state + 34 * st.rem.length + 2 ≤ fuel → st.rem.length ≤ N → st.rem.length ≤ L0 →
    (needsLt state = true → st.rem.length < L0) →
    NF (exprLoop pe fuel stack state st) (fun _ st' => st'.rem.length < L0) := by
  intro fuel
  induction fuel with
  | zero => intro stack state st hf _ _ _; omega
  | succ fuel ih =>
    intro stack state st hf hN hL hlt
    have next : ∀ (m : Except (Err toks) ((List StackItem × State) × PState toks)),
        NF m (fun r st' => StepP stack state st r st' ∧ (needsLt r.2 = true → st'.rem.length < L0)) →
        NF (do
          let ((stack, state), st) ← m
          exprLoop pe fuel stack state st) (fun _ st' => st'.rem.length < L0) := by
      intro m hm
      refine NF.bind hm ?_
      intro r st1 h1
      obtain ⟨stack', state'⟩ := r
      obtain ⟨⟨hw, hle⟩, hn⟩ := h1
      dsimp only at hw hle hn ⊢
      exact ih stack' state' st1 (by omega) (by omega) (by omega) hn
    unfold exprLoop
    cases state with
    | parsed e =>
      have hl := hlt rfl
      cases stack with
      | nil => exact NF.pure hl
      | cons item stack =>
        refine next _ (NF.mono (nf_parsedStep hE hpe fuel e item stack st (by omega) hN) ?_)
        intro r s hr
        exact ⟨hr, fun _ => by have := hr.2; omega⟩
    | binary k =>
      dsimp only
      refine ih (.binaryLhs k :: stack) (nextStateOf k) st ?_ hN hL ?_
      · have := stateW_next k
        simp only [stackW, itemW] at hf ⊢
        omega
      · intro h
        exfalso
        revert h
        cases k <;> decide
    | binaryRhs k lhs =>
      have hl := hlt rfl
      refine next _ (NF.mono (nf_binaryRhsStep hE k lhs stack st) ?_)
      intro r s hr
      exact ⟨hr, fun _ => by have := hr.2; omega⟩
    | unary =>
      refine next _ (NF.mono (nf_unaryStep hE stack st) ?_)
      intro r s hr
      exact ⟨hr.1, fun hn => by rw [hr.2] at hn; cases hn⟩
    | primary =>
      refine next _ (NF.mono (nf_primaryStep hE hpe fuel stack st (by omega) hN) ?_)
      intro r s hr
      exact ⟨hr.1, fun _ => by have := hr.2; omega⟩

end
end Rsj.Parser
