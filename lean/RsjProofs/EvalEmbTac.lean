import Lean
import RsjProofs.EvalEmbPrim
import RsjProofs.EvalEmbLookup
/-!
  Tactics for relational proofs about the evaluator model (`MRel` goals), the lookup of variables,
  and the first helpers.
-/
namespace Rsj.Eval
open Rsj.Core
set_option linter.unusedSectionVars false
variable [Mode]

open Lean Elab Tactic Meta in
/-- `lift_hyps hle` with `hle : ρ ≤ ρ'`: every hypothesis `R ρ a b` with `Mono R` becomes `R ρ' a b` -/
elab "lift_hyps " hle:ident : tactic => do
  let mut failed : Array Lean.Expr := #[]
  let mut fuel := 200
  while fuel > 0 do
    fuel := fuel - 1
    let g ← getMainGoal
    let progress ← g.withContext do
      let hleE ← elabTerm hle none
      let hleT ← whnfR (← instantiateMVars (← inferType hleE))
      unless hleT.isAppOfArity ``LE.le 4 do throwError "lift_hyps: not an inequality of embeddings: {hleT}"
      let ρ := hleT.getArg! 2
      for d in ← getLCtx do
        if d.isImplementationDetail then continue
        if d.toExpr == hleE then continue
        let ty ← instantiateMVars d.type
        let n := ty.getAppNumArgs
        if n < 3 then continue
        if !(ty.getArg! (n - 3) == ρ) then continue
        if failed.contains ty then continue
        try
          let pf ← mkAppM ``Rsj.Eval.Mono.mono #[hleE, d.toExpr]
          let pfT ← instantiateMVars (← inferType pf)
          let r ← g.replace d.fvarId pf pfT
          replaceMainGoal [r.mvarId]
          return (true, failed)
        catch _ =>
          return (true, failed.push ty)
      return (false, failed)
    failed := progress.2
    if !progress.1 then break

open Lean Elab Tactic Meta in
/-- `gcases h` with `h : R ρ a b`: the (possibly compound) terms `a`, `b` are generalised in the goal
    and the relation fact is split by cases -/
elab "gcases " t:term : tactic => withMainContext do
  let e ← elabTerm t none
  let ty ← instantiateMVars (← inferType e)
  let n := ty.getAppNumArgs
  if n < 3 then throwError "gcases: not a relation fact: {ty}"
  let a := ty.getArg! (n - 2)
  let b := ty.getArg! (n - 1)
  let g ← getMainGoal
  let g ← g.assert `hh__ ty e
  let mut args : Array GeneralizeArg := #[]
  if !a.isFVar then args := args.push { expr := a }
  if !b.isFVar then args := args.push { expr := b }
  let (_, g) ← g.generalize args
  let (fv, g) ← g.intro1
  let gs ← g.cases fv
  replaceMainGoal (gs.map (·.mvarId)).toList

theorem M_throw_bind {α β : Type} (e : Err) (f : α → M β) : (throw e : M α) >>= f = throw e := by
  funext st
  rw [M_bind_app, throw_app, throw_app]

open Lean in
/-- the continuation of a bind: new embedding, related results, everything lifted -/
macro "mcont " v:ident w:ident h:ident : tactic => do
  let r := mkIdent `ρ'
  `(tactic| (intro $r hle__ $v $w $h; lift_hyps hle__; try clear hle__))

/-- `mbind h with v w hv`: the first computations of two binds are related by `h`; continue
    with the related results `hv : Q ρ' v w` under the extended embedding `ρ'` -/
syntax "mbind " term " with " ident ident ident : tactic
macro_rules
  | `(tactic| mbind $t with $v $w $h) => `(tactic| (refine MRel_bind $t ?_; mcont $v $w $h))

/-- side goals: relation facts from the context -/
syntax "rel_side" : tactic
macro_rules
  | `(tactic| rel_side) => `(tactic| first
    | assumption
    | rfl
    | trivial
    | exact RList.refl_eq _
    | exact REnvW.obj ‹_› | exact REnv.obj ‹_› | exact REnv.vars ‹_› | exact REnv.parent ‹_›
    | exact RFunc.env ‹_›
    | exact RObjRef.obj ‹_› | exact RObjRef.top ‹_›
    | exact RObj.layers ‹_›
    | exact RLayer.fields ‹_› | exact RLayer.env ‹_› | exact RLayer.baseEnv ‹_›
    | exact RField.thunk ‹_› | exact RField.baseEnv ‹_›
    | (apply RList.snoc <;> rel_side)
    | (apply RList.append <;> rel_side)
    | (constructor <;> (try dsimp only) <;> rel_side))

/-- loops over the same list on both sides -/
theorem MRel_forIn_same {α β β' : Type} {ρ : Emb} (I : Emb → β → β' → Prop) (l : List α)
    {f : α → β → M (ForInStep β)} {f' : α → β' → M (ForInStep β')} {b : β} {b' : β'}
    (hb : I ρ b b')
    (hf : ∀ ρ', ρ ≤ ρ' → ∀ acc acc', I ρ' acc acc' → ∀ x, x ∈ l → MRel ρ' (RStep I) (f x acc) (f' x acc')) :
    MRel ρ I (forIn l b f) (forIn l b' f') :=
  MRel_forIn REq I (RList.refl_eq l) hb (fun ρ' hle x x' acc acc' hx _ hxx h => by
    cases hxx; exact hf ρ' hle acc acc' h x hx)

/-- `mfor I with acc acc' h x hx`: a loop over one list with invariant `I`; first goal: the invariant
    holds initially, second goal: the body -/
syntax "mfor " term " with " ident ident ident ident ident : tactic
macro_rules
  | `(tactic| mfor $I with $acc $acc' $h $x $hx) =>
    `(tactic| (refine MRel_forIn_same $I _ ?_ ?_; rotate_left; (mcont $acc $acc' $h; intro $x $hx); rotate_left))

theorem RVars.zip_names {ρ : Emb} (names : List String) {ts ts' : List TId} (h : RList RT ρ ts ts') :
    RVars ρ (names.zip ts) (names.zip ts') := RList.zip (RList.refl_eq names) h

def RM {α β : Type} (Q : Emb → α → β → Prop) : Emb → M α → M β → Prop := fun ρ x y => MRel ρ Q x y

def RArrow {α β γ δ : Type} (Q₁ : Emb → α → β → Prop) (S : Emb → γ → δ → Prop) :
    Emb → (α → γ) → (β → δ) → Prop :=
  fun ρ f g => ∀ ρ', ρ ≤ ρ' → ∀ v w, Q₁ ρ' v w → S ρ' (f v) (g w)

instance {α β γ δ : Type} (Q₁ : Emb → α → β → Prop) (S : Emb → γ → δ → Prop) : Mono (RArrow Q₁ S) :=
  ⟨fun h r ρ' hle v w hvw => r ρ' (Emb.le_trans h hle) v w hvw⟩

theorem RArrow.app {α β γ δ : Type} {Q₁ : Emb → α → β → Prop} {Q : Emb → γ → δ → Prop} {ρ : Emb}
    {f : α → M γ} {g : β → M δ} (h : RArrow Q₁ (RM Q) ρ f g) {v : α} {w : β} (hvw : Q₁ ρ v w) :
    MRel ρ Q (f v) (g w) := h ρ (Emb.le_refl ρ) v w hvw

theorem MRel_jp {α β φ φ' : Type} {ρ : Emb} {Q : Emb → α → β → Prop} (R : Emb → φ → φ' → Prop)
    (F : φ) (F' : φ') (B : φ → M α) (B' : φ' → M β) (h1 : R ρ F F')
    (h2 : ∀ jp jp', R ρ jp jp' → MRel ρ Q (B jp) (B' jp')) : MRel ρ Q (B F) (B' F') := h2 F F' h1

open Lean Elab Tactic Meta in
/-- `mjp R`: both computations start with a join point `have jp := F; B`; first goal: the two join
    points are related by `R`, second goal: the bodies are related for all `R`-related join points -/
elab "mjp " r:term : tactic => withMainContext do
  let g ← getMainGoal
  let ty ← instantiateMVars (← g.getType)
  let ty := ty.consumeMData
  unless ty.isAppOf ``Rsj.Eval.MRel do throwError "mjp: not an MRel goal"
  let na := ty.getAppNumArgs
  let x := (ty.getArg! (na - 2)).consumeMData
  let y := (ty.getArg! (na - 1)).consumeMData
  let (.letE n t v b _) := x | throwError "mjp: left side is not a join point: {x}"
  let (.letE n' t' v' b' _) := y | throwError "mjp: right side is not a join point: {y}"
  let B := Lean.Expr.lam n t b .default
  let B' := Lean.Expr.lam n' t' b' .default
  let R ← elabTerm r none
  let pf ← mkAppOptM ``Rsj.Eval.MRel_jp #[none, none, none, none, none, ty.getArg! (na - 4), ty.getArg! (na - 3), R, v, v', B, B']
  let pfT ← inferType pf
  -- pf : h1 → h2 → MRel ..   (as a function of the two missing hypotheses)
  let (args, _, _) ← forallMetaTelescopeReducing pfT (some 2)
  let pf' := mkAppN pf args
  let pfT' ← inferType pf'
  unless ← isDefEq pfT' ty do throwError "mjp: type mismatch"
  g.assign pf'
  let g2 := args[1]!.mvarId!
  let g2T ← instantiateMVars (← g2.getType)
  let g2' ← g2.replaceTargetDefEq (← Core.betaReduce g2T)
  replaceMainGoal [args[0]!.mvarId!, g2']

/-- a relation that is only required under a condition -/
def RImp {α β : Type} (c : Prop) (R : Emb → α → β → Prop) : Emb → α → β → Prop := fun ρ a b => c → R ρ a b
instance {α β : Type} (c : Prop) (R : Emb → α → β → Prop) [Mono R] : Mono (RImp c R) :=
  ⟨fun h r hc => Mono.mono h (r hc)⟩

open Lean Meta in
/-- number of occurrences of the loose bound variable `i` -/
def countBVar (e : Lean.Expr) (i : Nat) : Nat :=
  if !e.hasLooseBVars then 0 else
  match e with
  | .bvar j => if i == j then 1 else 0
  | .app f a => countBVar f i + countBVar a i
  | .lam _ t b _ => countBVar t i + countBVar b (i + 1)
  | .forallE _ t b _ => countBVar t i + countBVar b (i + 1)
  | .letE _ t v b _ => countBVar t i + countBVar v i + countBVar b (i + 1)
  | .mdata _ b => countBVar b i
  | .proj _ _ b => countBVar b i
  | _ => 0

open Lean in
def exprSize (e : Lean.Expr) : Nat :=
  match e with
  | .app f a => exprSize f + exprSize a + 1
  | .lam _ _ b _ => exprSize b + 1
  | .forallE _ t b _ => exprSize t + exprSize b + 1
  | .letE _ _ v b _ => exprSize v + exprSize b + 1
  | .mdata _ b => exprSize b
  | .proj _ _ b => exprSize b + 1
  | _ => 1

open Lean Elab Tactic Meta in
/-- inline all `have`/`let` bindings of the goal except join points (`__do_jp`) that are used more than once -/
elab "mzeta" : tactic => withMainContext do
  let g ← getMainGoal
  let ty ← instantiateMVars (← g.getType)
  let ty' ← Core.transform ty (pre := fun e =>
    match e with
    | .letE n _ v b _ =>
      if n.eraseMacroScopes == `__do_jp && countBVar b 0 > 1 && exprSize v > 40 then return .continue
      else return .visit (b.instantiate1 v)
    | _ => return .continue)
  let ty' ← Core.betaReduce ty'
  let g' ← g.replaceTargetDefEq ty'
  replaceMainGoal [g']

/-- normal form of the two computations: bindings inlined (join points that are used several times
    are kept, see `mjp`), `pure`/`throw` binds removed, binds associated to the right -/
macro "mnorm" : tactic =>
  `(tactic| (mzeta; try simp -zeta only [pure_bind, M_throw_bind, bind_assoc]; mzeta; try simp -zeta only [pure_bind, M_throw_bind, bind_assoc]))


abbrev RecRel (rec rec' : Task → M Value) : Prop :=
  ∀ (ρ : Emb) (t t' : Task), RTask ρ t t' → MRel ρ RVal (rec t) (rec' t')

/-! ### variables -/

theorem RProd.fst {α β γ δ : Type} {R : Emb → α → β → Prop} {S : Emb → γ → δ → Prop} {ρ : Emb} {p : α × γ} {q : β × δ}
    (h : RProd R S ρ p q) : R ρ p.1 q.1 := h.1
theorem RProd.snd {α β γ δ : Type} {R : Emb → α → β → Prop} {S : Emb → γ → δ → Prop} {ρ : Emb} {p : α × γ} {q : β × δ}
    (h : RProd R S ρ p q) : S ρ p.2 q.2 := h.2

theorem find_rel {ρ : Emb} {vs vs' : List (String × TId)} (h : RVars ρ vs vs') (n : String) :
    ROpt (RProd REq RT) ρ (vs.find? (fun p => p.1 == n)) (vs'.find? (fun p => p.1 == n)) := by
  induction h with
  | nil => exact .none
  | @cons a b as bs h1 _ ih =>
    have : a.1 = b.1 := h1.1
    simp only [List.find?_cons, this]
    split
    · exact .some h1
    · exact ih

/-- one step of the lookup -/
theorem lookupVar_succ (envs : Array Env) (e : EId) (n : String) (k : Nat) :
    lookupVar (k + 1) envs e n = match envs[e]? with
      | none => none
      | some env =>
        match env.vars.find? (fun p => p.1 == n) with
        | some p => some p.2
        | none =>
          match env.parent with
          | some p => lookupVar k envs p n
          | none => none := by
  cases h : envs[e]? with
  | none => simp [lookupVar, h]
  | some env =>
    cases h2 : env.vars.find? (fun p => p.1 == n) with
    | some p => simp [lookupVar, h, h2]
    | none => cases h3 : env.parent <;> simp [lookupVar, h, h2, h3]

theorem ROpt.cases_eq {α β : Type} {R : Emb → α → β → Prop} {ρ : Emb} {x : Option α} {y : Option β}
    (h : ROpt R ρ x y) : (x = Option.none ∧ y = Option.none) ∨ ∃ a b, x = Option.some a ∧ y = Option.some b ∧ R ρ a b := by
  cases h with
  | none => exact .inl ⟨rfl, rfl⟩
  | some h => exact .inr ⟨_, _, rfl, rfl, h⟩

/-- a successful lookup on the left succeeds on the right (which may have one extra frame) -/
theorem lookup_fwd {ρ : Emb} {ta tb : List String} {a b : St} (hs : Sim ρ ta tb a b) (n : String) :
    ∀ (k : Nat) {e e' : EId}, RE ρ e e' → ∀ t, lookupVar k a.envs e n = some t →
      ∃ t', lookupVar (k + 1) b.envs e' n = some t' ∧ RT ρ t t' := by
  intro k
  induction k with
  | zero => intro e e' _ t h; simp [lookupVar] at h
  | succ k ih =>
    intro e e' he t h
    obtain ⟨x, y, h1, h2, h3⟩ := hs.envs.cell e e' he
    rw [lookupVar_succ, h1] at h
    rw [lookupVar_succ, h2]
    simp only [] at h ⊢
    rcases h3 with h3 | ⟨w, td, w1, w2, w3, w4, w5, w6, w7⟩
    · rcases (find_rel h3.vars n).cases_eq with ⟨hfl, hfr⟩ | ⟨p, p', hfl, hfr, hp⟩
      · rw [hfl] at h
        rw [hfr]
        simp only [] at h ⊢
        rcases h3.parent.cases_eq with ⟨hpl, hpr⟩ | ⟨q, q', hpl, hpr, hq⟩
        · rw [hpl] at h; cases h
        · rw [hpl] at h
          rw [hpr]
          exact ih hq t h
      · rw [hfl] at h
        rw [hfr]
        cases h
        exact ⟨_, rfl, hp.snd⟩
    · -- the extra frame on the right
      rw [w6] at h
      cases hf : x.vars.find? (fun p => p.1 == n) with
      | none => rw [hf] at h; cases h
      | some p =>
        rw [hf] at h
        cases h
        have hpm : p ∈ x.vars := List.mem_of_find?_eq_some hf
        have hpn : (p.1 == n) = true := List.find?_some (p := fun q : String × TId => q.1 == n) hf
        have hne : (w.x == n) = false := by
          cases hx : w.x == n with
          | false => rfl
          | true =>
            have e1 : w.x = n := by simpa using hx
            have e2 : p.1 = n := by simpa using hpn
            exact absurd (e2.trans e1.symm) (w7 p hpm)
        obtain ⟨c1, _, _⟩ := hs.wkcell w w1
        rw [w3, w2]
        simp only [List.find?_cons, hne, List.find?_nil]
        rcases (find_rel w5.vars n).cases_eq with ⟨hfl, _⟩ | ⟨p1, p1', hfl, hfr, hp1⟩
        · rw [hf] at hfl; cases hfl
        · rw [hf] at hfl; cases hfl
          cases k with
          | zero => rw [lookupVar_succ, c1]; simp only []; rw [hfr]; exact ⟨_, rfl, hp1.snd⟩
          | succ k => rw [lookupVar_succ, c1]; simp only []; rw [hfr]; exact ⟨_, rfl, hp1.snd⟩

/-- a successful lookup on the right succeeds on the left, unless it found the variable of the extra frame
    (then the left lookup fails for every fuel, which is an excused error) -/
theorem lookup_bwd {ρ : Emb} {ta tb : List String} {a b : St} (hs : Sim ρ ta tb a b) (n : String) :
    ∀ (k : Nat) {e e' : EId}, RE ρ e e' → ∀ t', lookupVar k b.envs e' n = some t' →
      (∃ t, lookupVar k a.envs e n = some t ∧ RT ρ t t') ∨
      ((∀ K, lookupVar K a.envs e n = none) ∧ Mode.excuse (.internal "variable not found")) := by
  intro k
  induction k with
  | zero => intro e e' _ t h; simp [lookupVar] at h
  | succ k ih =>
    intro e e' he t' h
    obtain ⟨x, y, h1, h2, h3⟩ := hs.envs.cell e e' he
    rw [lookupVar_succ, h2] at h
    simp only [] at h
    rcases h3 with h3 | ⟨w, td, w1, w2, w3, w4, w5, w6, w7⟩
    · rcases (find_rel h3.vars n).cases_eq with ⟨hfl, hfr⟩ | ⟨p, p', hfl, hfr, hp⟩
      · rw [hfr] at h
        simp only [] at h
        rcases h3.parent.cases_eq with ⟨hpl, hpr⟩ | ⟨q, q', hpl, hpr, hq⟩
        · rw [hpr] at h; cases h
        · rw [hpr] at h
          rcases ih hq t' h with ⟨t, ht, hr⟩ | ⟨hn, hex⟩
          · refine .inl ⟨t, ?_, hr⟩
            rw [lookupVar_succ, h1]
            simp only []
            rw [hfl]
            simp only []
            rw [hpl]
            exact ht
          · refine .inr ⟨fun K => ?_, hex⟩
            cases K with
            | zero => simp [lookupVar]
            | succ K =>
              rw [lookupVar_succ, h1]
              simp only []
              rw [hfl]
              simp only []
              rw [hpl]
              exact hn K
      · rw [hfr] at h
        cases h
        refine .inl ⟨p.2, ?_, hp.snd⟩
        rw [lookupVar_succ, h1]
        simp only []
        rw [hfl]
    · obtain ⟨c1, _, hex⟩ := hs.wkcell w w1
      rw [w3, w2] at h
      simp only [List.find?_cons, List.find?_nil] at h
      cases hx : w.x == n with
      | true =>
        -- the right found the variable of the extra frame: the left never finds it
        refine .inr ⟨fun K => ?_, hex⟩
        cases K with
        | zero => simp [lookupVar]
        | succ K =>
          rw [lookupVar_succ, h1]
          simp only []
          have e1 : w.x = n := by simpa using hx
          have hnone : x.vars.find? (fun p => p.1 == n) = none := by
            rw [List.find?_eq_none]
            intro p hp hpn
            have e2 : p.1 = n := by simpa using hpn
            exact w7 p hp (e2.trans e1.symm)
          rw [hnone, w6]
      | false =>
        rw [hx] at h
        simp only [] at h
        cases k with
        | zero => simp [lookupVar] at h
        | succ k =>
          rw [lookupVar_succ, c1] at h
          simp only [] at h
          rcases (find_rel w5.vars n).cases_eq with ⟨hfl, hfr⟩ | ⟨p, p', hfl, hfr, hp⟩
          · rw [hfr] at h
            simp only [] at h
            have hp := w5.parent
            rw [w6] at hp
            rcases hp.cases_eq with ⟨_, hpr⟩ | ⟨_, _, hpl, _, _⟩
            · rw [hpr] at h; cases h
            · cases hpl
          · rw [hfr] at h
            cases h
            refine .inl ⟨p.2, ?_, hp.snd⟩
            rw [lookupVar_succ, h1]
            simp only []
            rw [hfl]

theorem getVar_apply (e : EId) (n : String) (st : St) :
    getVar e n st = match lookupVar (st.envs.size + 1) st.envs e n with
      | some t => some (.ok t, st)
      | none => some (.error (.internal "variable not found"), st) := by
  unfold getVar
  rw [M_bind_app, get_app]
  simp only []
  cases lookupVar (st.envs.size + 1) st.envs e n <;> rfl

theorem getVar_rel {ρ : Emb} {e e' : EId} (n : String) (h : RE ρ e e') :
    MRel ρ RT (getVar e n) (getVar e' n) := by
  intro ta tb a b hs
  rw [getVar_apply, getVar_apply]
  cases hl : lookupVar (a.envs.size + 1) a.envs e n with
  | some t =>
    obtain ⟨t', h1, h2⟩ := lookup_fwd hs n _ h t hl
    have h3 := lookupVar_some_size _ _ _ _ _ h1
    rw [lookupVar_mono_of_some _ _ _ _ _ _ (Nat.le_succ _) h3]
    exact ⟨_, _, rfl, ρ, Emb.le_refl ρ, hs, h2⟩
  | none =>
    cases hr : lookupVar (b.envs.size + 1) b.envs e' n with
    | none => exact .inr ⟨_, rfl, ρ, Emb.le_refl ρ, hs⟩
    | some t' =>
      rcases lookup_bwd hs n _ h t' hr with ⟨t, h1, _⟩ | ⟨_, hex⟩
      · have h3 := lookupVar_some_size _ _ _ _ _ h1
        rw [lookupVar_mono_of_some _ _ _ _ _ _ (Nat.le_succ _) h3] at hl
        cases hl
      · exact .inl hex

end Rsj.Eval
