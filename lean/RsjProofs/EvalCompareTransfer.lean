/-
  C08 on the evaluator model, part 7: reading a run of `equals` / `compare` back as a verdict of
  the comparison model (the evaluator model is deterministic), and laziness.
-/
import RsjProofs.EvalCompareOps
set_option linter.unusedSectionVars false
namespace Rsj.Eval.Cmp
open Rsj.Core Rsj.Eval
open Rsj.Compare (structEq eqList eqFields lexCompare cmpThunks)

variable [L : FloatLaws]

theorem ordF_inj {o o' : Ordering} (h : ordF o = ordF o') : o = o' := by
  have h1 := ordF_lt_zero o
  have h2 := ordF_gt_zero o
  rw [h, ordF_lt_zero] at h1
  rw [h, ordF_gt_zero] at h2
  cases o <;> cases o' <;> first | rfl | exact absurd h1 (by decide) | exact absurd h2 (by decide)

theorem outB_ok_inv {x : Except Compare.Err Bool} {r : Bool} (h : Except.ok (Value.bool r) = outB x) :
    x = .ok r := by
  cases x with
  | error e => cases h
  | ok r' => injection h with h; injection h with h; rw [h]

theorem outO_ok_inv {x : Except Compare.Err Ordering} {o : Ordering}
    (h : Except.ok (Value.num (ordF o)) = outO x) : x = .ok o := by
  cases x with
  | error e => cases h
  | ok o' => injection h with h; injection h with h; rw [ordF_inj h]

omit L in
theorem lexCompare_ok_types {ν : Type} [Compare.NumOrd ν] {x y : Compare.Value ν} {o : Ordering}
    (h : lexCompare x y = .ok o) :
    (x.ty = .number ∧ y.ty = .number) ∨ (x.ty = .string ∧ y.ty = .string) ∨
      (x.ty = .array ∧ y.ty = .array) := by
  cases x <;> cases y <;> simp [lexCompare, Compare.Value.ty] at h ⊢

/-- an `equals` that answered, read back -/
theorem equals_inv {cfg : Cfg} {st st' : St} {h n : Nat} {a b : Value} {d : Nat} {r : Bool}
    (ha : Evald st h a) (hb : Evald st h b) (hn : h + 1 ≤ n) (hd : d + h ≤ cfg.maxStack)
    (hr : run cfg n (.equals a b d) st = some (.ok (.bool r), st')) :
    structEq (absVal st h a) (absVal st h b) = .ok r :=
  outB_ok_inv ((run_equals_ret cfg st h n hn a b d ha hb hd).of_run hr).1

/-- a `compare` that answered, read back: the answer is `-1`, `0` or `1` -/
theorem compare_inv {cfg : Cfg} {st st' : St} {h n : Nat} {a b : Value} {d : Nat} {v : Value}
    (ha : Evald st h a) (hb : Evald st h b) (hn : h + 1 ≤ n) (hd : d + h ≤ cfg.maxStack)
    (hr : run cfg n (.compare a b d) st = some (.ok v, st')) :
    ∃ o, v = .num (ordF o) ∧ lexCompare (absVal st h a) (absVal st h b) = .ok o := by
  have h1 := ((run_compare_ret cfg st h n hn a b d ha hb hd).of_run hr).1
  cases hs : lexCompare (absVal st h a) (absVal st h b) with
  | error e => rw [hs] at h1; cases h1
  | ok o =>
    rw [hs] at h1
    injection h1 with h1
    exact ⟨o, h1, rfl⟩

/-! ### laziness: what is never forced -/

/-- arrays of different lengths are unequal without anything being looked at: no hypothesis on the
    store, the element thunks may be pending, failing or dangling -/
theorem run_equals_arr_length (cfg : Cfg) (n : Nat) (st : St) (xs ys : List TId) (d : Nat)
    (h : xs.length ≠ ys.length) :
    Ret (run cfg (n + 1) (.equals (.arr xs) (.arr ys) d)) st (.ok (.bool false)) := by
  rw [run_succ]
  refine Ret.bind_ok (Ret_noteDepth _ _) ?_
  rw [step_equals_arr]
  have : (xs.length != ys.length) = true := by simp [h]
  rw [this, if_pos rfl]
  exact Ret.pure _ _

/-- objects with different visible field names are unequal without a field being evaluated or an
    assertion being run -/
theorem run_equals_obj_names (cfg : Cfg) (n : Nat) (st : St) (x y : OId) (obx oby : Obj) (d : Nat)
    (hox : st.objs[x]? = some obx) (hoy : st.objs[y]? = some oby)
    (h : visibleFields obx ≠ visibleFields oby) :
    Ret (run cfg (n + 1) (.equals (.obj x) (.obj y) d)) st (.ok (.bool false)) := by
  rw [run_succ]
  refine Ret.bind_ok (Ret_noteDepth _ _) ?_
  rw [step_equals_obj]
  refine Ret.bind_ok (Ret_getObj hox) ?_
  refine Ret.bind_ok (Ret_getObj hoy) ?_
  have : (visibleFields obx != visibleFields oby) = true := by simp [h]
  simp only [this, if_true]
  exact Ret.pure _ _

/-- `compareLists` stops at the first pair that is not equal: if the evaluated prefixes `p`, `q`
    (of equal length) already decide the order (`o ≠ eq`) or fail, the rest `xs'`, `ys'` of the
    arrays is never forced — no hypothesis on it. -/
theorem compareLists_prefix {cfg : Cfg} {rec : Task → M Value} {st : St} {h : Nat}
    (R : RecCmp cfg rec st (h + 1)) (d : Nat) (hd : d + (h + 1) ≤ cfg.maxStack) (xs' ys' : List TId) :
    ∀ p q : List TId, p.length = q.length →
      (∀ t ∈ p, ∃ w, st.thunks[t]? = some (.done w) ∧ Evald st h w) →
      (∀ t ∈ q, ∃ w, st.thunks[t]? = some (.done w) ∧ Evald st h w) →
      cmpThunks (p.map (absThunkWith (absVal st h) st)) (q.map (absThunkWith (absVal st h) st)) ≠ .ok .eq →
      Ret (compareLists cfg rec d (p ++ xs') (q ++ ys')) st
        (outO (cmpThunks (p.map (absThunkWith (absVal st h) st)) (q.map (absThunkWith (absVal st h) st)))) := by
  intro p
  induction p with
  | nil =>
    intro q hl _ _ hne
    cases q with
    | nil => exact absurd (by rw [List.map_nil, cmpThunks]) hne
    | cons y q => cases hl
  | cons x p ih =>
    intro q hl hx hy hne
    cases q with
    | nil => cases hl
    | cons y q =>
      obtain ⟨wx, hwx, ewx⟩ := hx x (List.mem_cons_self ..)
      obtain ⟨wy, hwy, ewy⟩ := hy y (List.mem_cons_self ..)
      have ih' := ih q (by simpa using hl) (fun t ht => hx t (List.mem_cons_of_mem _ ht))
        (fun t ht => hy t (List.mem_cons_of_mem _ ht))
      rw [List.map_cons, List.map_cons, absThunk_done hwx, absThunk_done hwy, cmpThunks] at hne ⊢
      rw [List.cons_append, List.cons_append, compareLists_cons]
      refine Ret.bind_ok (Ret_checkDepth (by omega)) ?_
      refine Ret.bind_ok (R.force (Nat.succ_pos _) x wx _ hwx) ?_
      refine Ret.bind_ok (R.force (Nat.succ_pos _) y wy _ hwy) ?_
      have he := R.compare h rfl wx wy (d + 1) ewx ewy (by omega)
      cases hs : lexCompare (absVal st h wx) (absVal st h wy) with
      | error e =>
        rw [hs] at he
        exact Ret.bind_err he
      | ok o =>
        rw [hs] at he hne
        refine Ret.bind_ok he ?_
        show Ret (if (ordF o == 0.0) = true then compareLists cfg rec d (p ++ xs') (q ++ ys')
          else pure (Value.num (ordF o))) st _
        rw [ordF_beq_zero]
        cases o with
        | eq => exact ih' hne
        | lt => exact Ret.pure _ _
        | gt => exact Ret.pure _ _

/-- the same for the loop of `equals`: it stops at the first pair that is not equal -/
theorem eqArrLoop_prefix {cfg : Cfg} {rec : Task → M Value} {st : St} {h : Nat}
    (R : RecEq cfg rec st (h + 1)) (d : Nat) (hd : d + (h + 1) ≤ cfg.maxStack) (xs' ys' : List TId) :
    ∀ p q : List TId, p.length = q.length →
      (∀ t ∈ p, ∃ w, st.thunks[t]? = some (.done w) ∧ Evald st h w) →
      (∀ t ∈ q, ∃ w, st.thunks[t]? = some (.done w) ∧ Evald st h w) →
      eqList (p.map (absThunkWith (absVal st h) st)) (q.map (absThunkWith (absVal st h) st)) ≠ .ok true →
      Ret (eqArrLoop cfg rec d ((p ++ xs').zip (q ++ ys'))) st
        (outB (eqList (p.map (absThunkWith (absVal st h) st)) (q.map (absThunkWith (absVal st h) st)))) := by
  intro p
  induction p with
  | nil =>
    intro q hl _ _ hne
    cases q with
    | nil => exact absurd (by rw [List.map_nil, eqList]) hne
    | cons y q => cases hl
  | cons x p ih =>
    intro q hl hx hy hne
    cases q with
    | nil => cases hl
    | cons y q =>
      obtain ⟨wx, hwx, ewx⟩ := hx x (List.mem_cons_self ..)
      obtain ⟨wy, hwy, ewy⟩ := hy y (List.mem_cons_self ..)
      have ih' := ih q (by simpa using hl) (fun t ht => hx t (List.mem_cons_of_mem _ ht))
        (fun t ht => hy t (List.mem_cons_of_mem _ ht))
      rw [List.map_cons, List.map_cons, absThunk_done hwx, absThunk_done hwy, eqList] at hne ⊢
      rw [List.cons_append, List.cons_append, List.zip_cons_cons, eqArrLoop_cons]
      refine Ret.bind_ok (Ret_checkDepth (by omega)) ?_
      refine Ret.bind_ok (R.force (Nat.succ_pos _) x wx _ hwx) ?_
      refine Ret.bind_ok (R.force (Nat.succ_pos _) y wy _ hwy) ?_
      have he := R.equals h rfl wx wy (d + 1) ewx ewy (by omega)
      cases hs : structEq (absVal st h wx) (absVal st h wy) with
      | error e =>
        rw [hs] at he
        exact Ret.bind_err he
      | ok r =>
        rw [hs] at he hne
        cases r with
        | true => exact Ret.bind_ok he (ih' hne)
        | false => exact Ret.bind_ok he (Ret.pure _ _)

/-- **Laziness of `compare` on arrays.**  `p`, `q`: evaluated prefixes of equal length whose
    comparison is decided (not `eq`) or fails; `xs'`, `ys'`: arbitrary thunk ids (pending, failing,
    dangling).  The comparison of `p ++ xs'` with `q ++ ys'` is the comparison of `p` with `q`. -/
theorem run_compare_prefix (cfg : Cfg) (st : St) (h n : Nat) (hn : h + 2 ≤ n) (p q xs' ys' : List TId)
    (d : Nat) (hl : p.length = q.length) (hp : Evald st (h + 1) (.arr p)) (hq : Evald st (h + 1) (.arr q))
    (hd : d + (h + 1) ≤ cfg.maxStack)
    (hne : lexCompare (absVal st (h + 1) (.arr p)) (absVal st (h + 1) (.arr q)) ≠ .ok .eq) :
    Ret (run cfg n (.compare (.arr (p ++ xs')) (.arr (q ++ ys')) d)) st
      (outO (lexCompare (absVal st (h + 1) (.arr p)) (absVal st (h + 1) (.arr q)))) := by
  obtain ⟨n, rfl⟩ : ∃ m, n = m + 1 := ⟨n - 1, by omega⟩
  obtain ⟨n, rfl⟩ : ∃ m, n = m + 1 := ⟨n - 1, by omega⟩
  rw [run_succ]
  refine Ret.bind_ok (Ret_noteDepth _ _) ?_
  rw [step_compare]
  rw [absVal_arr, absVal_arr, lexCompare] at hne ⊢
  refine compareLists_prefix ⟨?_, ?_⟩ d hd xs' ys' p q hl hp hq hne
  · intro _ t v d' ht; exact run_force_done cfg n d' ht
  · intro h' e a' b' d' ha' hb' hd'
    have e3 : h = h' := by omega
    subst e3
    exact run_compare_ret cfg st h (n + 1) (by omega) a' b' d' ha' hb' hd'

/-- **Laziness of `equals` on arrays** (same length, so the loop is entered): it stops at the first
    pair that is not equal; what follows is never forced. -/
theorem run_equals_prefix (cfg : Cfg) (st : St) (h n : Nat) (hn : h + 2 ≤ n) (p q xs' ys' : List TId)
    (d : Nat) (hl : p.length = q.length) (hl' : xs'.length = ys'.length)
    (hp : Evald st (h + 1) (.arr p)) (hq : Evald st (h + 1) (.arr q))
    (hd : d + (h + 1) ≤ cfg.maxStack)
    (hne : structEq (absVal st (h + 1) (.arr p)) (absVal st (h + 1) (.arr q)) ≠ .ok true) :
    Ret (run cfg n (.equals (.arr (p ++ xs')) (.arr (q ++ ys')) d)) st
      (outB (structEq (absVal st (h + 1) (.arr p)) (absVal st (h + 1) (.arr q)))) := by
  obtain ⟨n, rfl⟩ : ∃ m, n = m + 1 := ⟨n - 1, by omega⟩
  obtain ⟨n, rfl⟩ : ∃ m, n = m + 1 := ⟨n - 1, by omega⟩
  rw [run_succ]
  refine Ret.bind_ok (Ret_noteDepth _ _) ?_
  rw [step_equals_arr]
  have hlen : ((p ++ xs').length != (q ++ ys').length) = false := by
    simp [List.length_append, hl, hl']
  rw [hlen]
  rw [absVal_arr, absVal_arr, Compare.structEq_arr, List.length_map, List.length_map, if_pos hl] at hne ⊢
  refine eqArrLoop_prefix ⟨?_, ?_, ?_⟩ d hd xs' ys' p q hl hp hq hne
  · intro _ t v d' ht; exact run_force_done cfg n d' ht
  · intro _ o ob d' ho hc; exact run_asserts_checked cfg n d' ho hc
  · intro h' e a' b' d' ha' hb' hd'
    have e3 : h = h' := by omega
    subst e3
    exact run_equals_ret cfg st h (n + 1) (by omega) a' b' d' ha' hb' hd'

end Rsj.Eval.Cmp
