/-
  Helper lemmas for C19: the host formatter is never asked for a precision above
  `MAX_HOST_PREC` (so never panics on it), and which panic sites are reachable.
-/
import RsjProofs.FormatMachine
namespace Rsj.Format

/-- Two hosts that agree on every precision up to `MAX_HOST_PREC`. -/
structure HostAgree (h h' : Host) : Prop where
  fixed : ∀ ab p, p ≤ MAX_HOST_PREC → h.fixed ab p = h'.fixed ab p
  exp : ∀ ab p, p ≤ MAX_HOST_PREC → h.exp ab p = h'.exp ab p
  disp : ∀ ab, h.disp ab = h'.disp ab
  log : ∀ ab, h.log10floor ab = h'.log10floor ab
  numStr : ∀ b, h.numStr b = h'.numStr b

/-- Contract of `{:e}`: the output contains an `e` followed by a decimal `i32`. -/
def HostExpWF (h : Host) : Prop :=
  ∀ ab p s, h.exp ab p = some s →
    ∃ mant e v, splitAt1 'e' s = some (mant, e) ∧ parseI32 e = some v

theorem max_le_limit : MAX_HOST_PREC ≤ HOST_LIMIT := by decide

theorem min_prec_le (prec : Nat) : min prec MAX_HOST_PREC ≤ MAX_HOST_PREC := Nat.min_le_right _ _

section agree
variable {h h' : Host} (A : HostAgree h h')
include A

theorem callFixed_agree {ab p : Nat} (hp : p ≤ MAX_HOST_PREC) :
    callFixed h ab p = callFixed h' ab p := by
  unfold callFixed; rw [A.fixed ab p hp]

theorem callExp_agree {ab p : Nat} (hp : p ≤ MAX_HOST_PREC) :
    callExp h ab p = callExp h' ab p := by
  unfold callExp; rw [A.exp ab p hp]

theorem callLog_agree (ab : Nat) : callLog h ab = callLog h' ab := by
  unfold callLog; rw [A.log ab]

theorem displayInt_agree (ab : Nat) : displayInt h ab = displayInt h' ab := by
  unfold displayInt; rw [A.disp ab]

theorem renderFloatDef_agree (b prec zp : Nat) (pl bl ep tz : Bool) :
    renderFloatDef h b prec zp pl bl ep tz = renderFloatDef h' b prec zp pl bl ep tz := by
  unfold renderFloatDef
  simp only [callFixed_agree A (min_prec_le prec)]

theorem renderFloatExp_agree (b prec zp : Nat) (pl bl ep tz up : Bool) :
    renderFloatExp h b prec zp pl bl ep tz up = renderFloatExp h' b prec zp pl bl ep tz up := by
  unfold renderFloatExp
  simp only [callExp_agree A (min_prec_le prec)]

theorem renderFloatG_agree (b fpprec zp : Nat) (pl bl alt up : Bool) :
    renderFloatG h b fpprec zp pl bl alt up = renderFloatG h' b fpprec zp pl bl alt up := by
  unfold renderFloatG
  simp only [callLog_agree A, displayInt_agree A, renderFloatExp_agree A, renderFloatDef_agree A]

theorem renderCode_agree (c : Code) (fw prec : Nat) (v : Val) :
    renderCode h c fw prec v = renderCode h' c fw prec v := by
  unfold renderCode
  simp only [displayInt_agree A, renderFloatExp_agree A, renderFloatDef_agree A,
    renderFloatG_agree A, A.numStr]

end agree

/-! ## Reachable panic sites -/

theorem callFixed_no_panic (h : Host) (ab : Nat) {p : Nat} (hp : p ≤ MAX_HOST_PREC) (k : Nat) :
    callFixed h ab p ≠ .error (.hostPanic k) := by
  have : ¬ p > HOST_LIMIT := by have := max_le_limit; omega
  unfold callFixed; rw [if_neg this]
  split <;> simp

theorem callExp_no_panic (h : Host) (ab : Nat) {p : Nat} (hp : p ≤ MAX_HOST_PREC) (k : Nat) :
    callExp h ab p ≠ .error (.hostPanic k) := by
  have : ¬ p > HOST_LIMIT := by have := max_le_limit; omega
  unfold callExp; rw [if_neg this]
  split <;> simp

theorem callLog_no_panic (h : Host) (ab k : Nat) : callLog h ab ≠ .error (.hostPanic k) := by
  unfold callLog; split <;> simp

theorem displayInt_no_panic (h : Host) (ab k : Nat) :
    displayInt h ab ≠ .error (.hostPanic k) := by
  unfold displayInt
  simp only
  split
  · simp
  · split
    · simp
    · split <;> simp

theorem needNum_no_panic (c : Char) (v : Val) (k : Nat) : needNum c v ≠ .error (.hostPanic k) := by
  unfold needNum; split <;> simp

theorem renderFloatDef_no_panic (h : Host) (b prec zp : Nat) (pl bl ep tz : Bool) (k : Nat) :
    renderFloatDef h b prec zp pl bl ep tz ≠ .error (.hostPanic k) := by
  intro hk
  unfold renderFloatDef at hk
  simp only at hk
  split at hk
  · next e he =>
    cases hk
    exact callFixed_no_panic h _ (min_prec_le prec) k he
  · cases hk

theorem renderFloatExp_panic {h : Host} {b prec zp : Nat} {pl bl ep tz up : Bool} {k : Nat}
    (hk : renderFloatExp h b prec zp pl bl ep tz up = .error (.hostPanic k)) :
    (k = 1 ∨ k = 2) ∧ ¬ HostExpWF h := by
  unfold renderFloatExp at hk
  simp only at hk
  split at hk
  · next e he =>
    cases hk
    exact absurd he (callExp_no_panic h _ (min_prec_le prec) k)
  · next ds hds =>
    have hsome : ∃ s, h.exp (absBits b) (min prec MAX_HOST_PREC) = some s ∧ s = ds := by
      unfold callExp at hds
      split at hds
      · cases hds
      · split at hds
        · next s hs => cases hds; exact ⟨_, hs, rfl⟩
        · cases hds
    obtain ⟨s, hs, rfl⟩ := hsome
    split at hk
    · next hsplit =>
      cases hk
      refine ⟨Or.inl rfl, fun wf => ?_⟩
      obtain ⟨mant, e, v, h1, _⟩ := wf _ _ _ hs
      rw [h1] at hsplit; cases hsplit
    · next mant expS hsplit =>
      split at hk
      · next hparse =>
        cases hk
        refine ⟨Or.inr rfl, fun wf => ?_⟩
        obtain ⟨mant', e', v, h1, h2⟩ := wf _ _ _ hs
        rw [h1] at hsplit; cases hsplit
        rw [h2] at hparse; cases hparse
      · cases hk

theorem renderFloatG_panic {h : Host} {b fpprec zp : Nat} {pl bl alt up : Bool} {k : Nat}
    (hk : renderFloatG h b fpprec zp pl bl alt up = .error (.hostPanic k)) :
    (k = 1 ∨ k = 2) ∧ ¬ HostExpWF h := by
  unfold renderFloatG at hk
  split at hk
  · next e he =>
    cases hk
    split at he
    · cases he
    · exact absurd he (callLog_no_panic h _ k)
  · split at hk
    · exact renderFloatExp_panic hk
    · split at hk
      · next e he =>
        cases hk
        split at he
        · cases he
        · split at he
          · cases he
          · next e' he' => cases he; exact absurd he' (displayInt_no_panic h _ k)
      · exact absurd hk (renderFloatDef_no_panic _ _ _ _ _ _ _ _ _)

/-- Which panics `do_std_format_code` can reach: never the host-precision panic;
    `unreachable!()` only for `%%`; the `unwrap()`s only if the host's `{:e}` output
    violates its contract. -/
theorem renderCode_panic {h : Host} {c : Code} {fw prec : Nat} {v : Val} {k : Nat}
    (hk : renderCode h c fw prec v = .error (.hostPanic k)) :
    (k = 3 ∧ c.conv = .pct) ∨ ((k = 1 ∨ k = 2) ∧ ¬ HostExpWF h) := by
  unfold renderCode at hk
  simp only at hk
  split at hk
  · -- dec
    split at hk
    · next e he => cases hk; exact absurd he (needNum_no_panic _ _ k)
    · split at hk
      · next e he => cases hk; exact absurd he (displayInt_no_panic _ _ k)
      · cases hk
  · split at hk
    · next e he => cases hk; exact absurd he (needNum_no_panic _ _ k)
    · cases hk
  · split at hk
    · next e he => cases hk; exact absurd he (needNum_no_panic _ _ k)
    · cases hk
  · split at hk
    · next e he => cases hk; exact absurd he (needNum_no_panic _ _ k)
    · cases hk
  · split at hk
    · next e he => cases hk; exact absurd he (needNum_no_panic _ _ k)
    · exact Or.inr (renderFloatExp_panic hk)
  · split at hk
    · next e he => cases hk; exact absurd he (needNum_no_panic _ _ k)
    · exact Or.inr (renderFloatExp_panic hk)
  · split at hk
    · next e he => cases hk; exact absurd he (needNum_no_panic _ _ k)
    · exact absurd hk (renderFloatDef_no_panic _ _ _ _ _ _ _ _ _)
  · split at hk
    · next e he => cases hk; exact absurd he (needNum_no_panic _ _ k)
    · exact absurd hk (renderFloatDef_no_panic _ _ _ _ _ _ _ _ _)
  · split at hk
    · next e he => cases hk; exact absurd he (needNum_no_panic _ _ k)
    · exact Or.inr (renderFloatG_panic hk)
  · split at hk
    · next e he => cases hk; exact absurd he (needNum_no_panic _ _ k)
    · exact Or.inr (renderFloatG_panic hk)
  · -- chr
    split at hk
    · split at hk <;> cases hk
    · split at hk
      · cases hk
      · split at hk <;> cases hk
    · cases hk
  · -- str
    split at hk
    · cases hk
    · cases hk
    · split at hk <;> cases hk
  · -- pct
    next hc =>
    cases hk
    exact Or.inl ⟨rfl, hc⟩

/-- a render error of the array machine comes from rendering a non-`%%` directive -/
theorem stepArray_render_err {h : Host} {c : Code} {arr : List Val} {i : Nat} {e : RErr}
    (hs : stepArray h c arr i = .error (.render e)) :
    c.conv ≠ .pct ∧ ∃ fw prec item, renderCode h c fw prec item = .error e := by
  unfold stepArray at hs
  split at hs
  · next e1 h1 => cases hs; have := (takeW_err h1).1; cases this
  · split at hs
    · next e2 h2 => cases hs; have := (takeW_err h2).1; cases this
    · split at hs
      · next ep hp =>
        cases hs
        split at hp
        · rcases evalPrec_err hp with h0 | ⟨ty, h0⟩ <;> cases h0
        · cases hp
      · split at hs
        · next ew hw =>
          cases hs
          split at hw
          · rcases evalWidth_err hw with h0 | ⟨ty, h0⟩ <;> cases h0
          · cases hw
        · split at hs
          · cases hs
          · next hpct =>
            split at hs
            · cases hs
            · split at hs
              · next e' hr => cases hs; exact ⟨hpct, _, _, _, hr⟩
              · cases hs

theorem fmtArrayGo_render_err {h : Host} {arr : List Val} {parts : List Part} {i : Nat}
    {acc : List Char} {e : RErr} (hs : fmtArrayGo h arr parts i acc = .error (.render e)) :
    ∃ c fw prec item, c.conv ≠ .pct ∧ renderCode h c fw prec item = .error e := by
  induction parts generalizing i acc with
  | nil => unfold fmtArrayGo at hs; split at hs <;> cases hs
  | cons p ps ih =>
    cases p with
    | lit s => unfold fmtArrayGo at hs; exact ih hs
    | code c =>
      unfold fmtArrayGo at hs
      split at hs
      · next e' hstep =>
        cases hs
        obtain ⟨h1, fw, prec, item, h2⟩ := stepArray_render_err hstep
        exact ⟨c, fw, prec, item, h1, h2⟩
      · exact ih hs

theorem stepObject_render_err {h : Host} {c : Code} {o : List (List Char × Val)} {e : RErr}
    (hs : stepObject h c o = .error (.render e)) :
    c.conv ≠ .pct ∧ ∃ fw prec item, renderCode h c fw prec item = .error e := by
  unfold stepObject at hs
  split at hs
  · next e1 h1 =>
    cases hs
    unfold objWidth at h1; split at h1 <;> cases h1
  · split at hs
    · next e2 h2 =>
      cases hs
      unfold objWidth at h2; split at h2 <;> cases h2
    · split at hs
      · cases hs
      · next hpct =>
        split at hs
        · cases hs
        · split at hs
          · cases hs
          · split at hs
            · next e' hr => cases hs; exact ⟨hpct, _, _, _, hr⟩
            · cases hs

theorem fmtObjectGo_render_err {h : Host} {o : List (List Char × Val)} {parts : List Part}
    {acc : List Char} {e : RErr} (hs : fmtObjectGo h o parts acc = .error (.render e)) :
    ∃ c fw prec item, c.conv ≠ .pct ∧ renderCode h c fw prec item = .error e := by
  induction parts generalizing acc with
  | nil => unfold fmtObjectGo at hs; cases hs
  | cons p ps ih =>
    cases p with
    | lit s => unfold fmtObjectGo at hs; exact ih hs
    | code c =>
      unfold fmtObjectGo at hs
      split at hs
      · next e' hstep =>
        cases hs
        obtain ⟨h1, fw, prec, item, h2⟩ := stepObject_render_err hstep
        exact ⟨c, fw, prec, item, h1, h2⟩
      · exact ih hs

end Rsj.Format
