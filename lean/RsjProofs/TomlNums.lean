/-
  The value as the TOML writer spells it (`numsV`: integer tokens of magnitude
  ≥ 2^63 get `.0`, `RsjProofs/Toml.lean`) keeps the side conditions of the round
  trip: number tokens stay number tokens (`RsjProofs/TomlNum.lean`), keys and nulls
  are untouched; and it is the value itself when no such token occurs.
-/
import RsjProofs.Toml
import RsjProofs.TomlNum
namespace Rsj.Toml
open Rsj.Json

theorem keysOf_numsF : (fs : List (Str × JVal)) → keysOf (numsF fs) = keysOf fs
  | [] => by simp [numsF, keysOf]
  | (k, x) :: xs => by
    have := keysOf_numsF xs
    simp only [keysOf] at this ⊢
    simp [numsF, this]

mutual
theorem valOK_numsV : (v : JVal) → ValOK v → ValOK (numsV v)
  | .null, _ => by simp [numsV, ValOK]
  | .bool _, _ => by simp [numsV, ValOK]
  | .num t, h => by
    rw [ValOK] at h
    rw [numsV, ValOK]; exact numTok_tomlNum h
  | .str _, _ => by simp [numsV, ValOK]
  | .arr xs, h => by
    rw [ValOK] at h
    rw [numsV, ValOK]; exact itemsOK_numsL xs h
  | .obj fs, h => by
    rw [ValOK] at h
    rw [numsV, ValOK, keysOf_numsF]; exact ⟨fieldsOK_numsF fs h.1, h.2⟩
theorem itemsOK_numsL : (xs : List JVal) → ItemsOK xs → ItemsOK (numsL xs)
  | [], _ => by simp [numsL, ItemsOK]
  | x :: xs, h => by
    rw [ItemsOK] at h
    rw [numsL, ItemsOK]; exact ⟨valOK_numsV x h.1, itemsOK_numsL xs h.2⟩
theorem fieldsOK_numsF : (fs : List (Str × JVal)) → FieldsOK fs → FieldsOK (numsF fs)
  | [], _ => by simp [numsF, FieldsOK]
  | (k, x) :: xs, h => by
    rw [FieldsOK] at h
    rw [numsF, FieldsOK]; exact ⟨valOK_numsV x h.1, fieldsOK_numsF xs h.2⟩
end

mutual
theorem hasNull_numsV : (v : JVal) → hasNull (numsV v) = hasNull v
  | .null => by simp [numsV]
  | .bool _ => by simp [numsV]
  | .num _ => by simp [numsV, hasNull]
  | .str _ => by simp [numsV]
  | .arr xs => by rw [numsV, hasNull, hasNull, hasNullL_numsL xs]
  | .obj fs => by rw [numsV, hasNull, hasNull, hasNullF_numsF fs]
theorem hasNullL_numsL : (xs : List JVal) → hasNullL (numsL xs) = hasNullL xs
  | [] => by simp [numsL]
  | x :: xs => by rw [numsL, hasNullL, hasNullL, hasNull_numsV x, hasNullL_numsL xs]
theorem hasNullF_numsF : (fs : List (Str × JVal)) → hasNullF (numsF fs) = hasNullF fs
  | [] => by simp [numsF]
  | (k, x) :: xs => by rw [numsF, hasNullF, hasNullF, hasNull_numsV x, hasNullF_numsF xs]
end

mutual
/-- no number token is an integer literal of magnitude ≥ 2^63 -/
def NoBigInt : JVal → Prop
  | .num t => bigInt t = false
  | .arr xs => NoBigIntL xs
  | .obj fs => NoBigIntF fs
  | _ => True
def NoBigIntL : List JVal → Prop
  | [] => True
  | x :: xs => NoBigInt x ∧ NoBigIntL xs
def NoBigIntF : List (Str × JVal) → Prop
  | [] => True
  | (_, x) :: xs => NoBigInt x ∧ NoBigIntF xs
end

mutual
/-- without such tokens the writer spells every number as it is -/
theorem numsV_eq_self : (v : JVal) → NoBigInt v → numsV v = v
  | .null, _ => by simp [numsV]
  | .bool _, _ => by simp [numsV]
  | .num t, h => by
    rw [NoBigInt] at h
    simp [numsV, tomlNum, h]
  | .str _, _ => by simp [numsV]
  | .arr xs, h => by rw [NoBigInt] at h; rw [numsV, numsL_eq_self xs h]
  | .obj fs, h => by rw [NoBigInt] at h; rw [numsV, numsF_eq_self fs h]
theorem numsL_eq_self : (xs : List JVal) → NoBigIntL xs → numsL xs = xs
  | [], _ => by simp [numsL]
  | x :: xs, h => by rw [NoBigIntL] at h; rw [numsL, numsV_eq_self x h.1, numsL_eq_self xs h.2]
theorem numsF_eq_self : (fs : List (Str × JVal)) → NoBigIntF fs → numsF fs = fs
  | [], _ => by simp [numsF]
  | (k, x) :: xs, h => by rw [NoBigIntF] at h; rw [numsF, numsV_eq_self x h.1, numsF_eq_self xs h.2]
end

/-- what the writer does to a number token: nothing, or `.0` after an integer literal -/
theorem tomlNum_cases (t : Str) :
    tomlNum t = t ∨ (tomlNum t = t ++ [46, 48] ∧ isIntLit t = true) := by
  unfold tomlNum
  cases h : bigInt t
  · exact Or.inl (by simp)
  · refine Or.inr ⟨by simp, ?_⟩
    simp only [bigInt, Bool.and_eq_true] at h; exact h.1

end Rsj.Toml
