/-
  C08 on the evaluator model, part 6: the operator arms `== != < <= > >=` of `step (.eval (.binary …))`
  on top of the tasks `equals` / `compare`; function-free values (`Pure` abstraction) and values
  that have an order (`HasSort` abstraction).
-/
import RsjProofs.EvalCompareOrd
import RsjProofs.CompareOrd
set_option linter.unusedSectionVars false
namespace Rsj.Eval.Cmp
open Rsj.Core Rsj.Eval
open Rsj.Compare (structEq eqList eqFields lexCompare cmpThunks)

variable [L : FloatLaws]

/-! ### the operators -/

/-- the verdict of an ordering operator on the result of the three-way comparison -/
def ordTest : BinOp → Ordering → Bool
  | .lt, o => o == .lt
  | .le, o => o != .gt
  | .gt, o => o == .gt
  | _, o => o != .lt

/-- the sign test of the operator arm, on the float `-1 / 0 / 1` -/
theorem sign_test (op : BinOp) (o : Ordering) :
    (match op with
      | .lt => decide (ordF o < 0.0) | .le => decide (ordF o ≤ 0.0) | .gt => decide (ordF o > 0.0)
      | _ => decide (ordF o ≥ 0.0)) = ordTest op o := by
  cases op <;> first
    | exact ordF_lt_zero o | exact ordF_le_zero o | exact ordF_gt_zero o | exact ordF_ge_zero o

/-- the outcome of an ordering operator for a verdict of `lexCompare` -/
def outOrdOp (op : BinOp) : Except Compare.Err Ordering → Except Err Value
  | .ok o => .ok (.bool (ordTest op o))
  | .error e => .error (absErr e)

/-- the outcome of `==` / `!=` for a verdict of `structEq` -/
def outEqOp (op : BinOp) : Except Compare.Err Bool → Except Err Value
  | .ok r => .ok (.bool (if op == .eq then r else !r))
  | .error e => .error (absErr e)

theorem bind_eq_of_ok {α β} {m : M α} {f : α → M β} {st s1 : St} {a : α}
    (h : m st = some (.ok a, s1)) : (m >>= f) st = f a s1 := by
  rw [bind_apply, h]

theorem bind_eq_of_err {α β} {m : M α} {f : α → M β} {st s1 : St} {e : Err}
    (h : m st = some (.error e, s1)) : (m >>= f) st = some (.error e, s1) := by
  rw [bind_apply, h]

theorem checkDepth_apply {cfg : Cfg} {d : Nat} (h : d ≤ cfg.maxStack) (st : St) :
    checkDepth cfg d st = some (.ok (), st) := by
  unfold checkDepth
  rw [if_neg (by omega)]; rfl

/-- one level of `run`: the ghost counter is raised, then `step` -/
theorem run_succ_apply (cfg : Cfg) (n : Nat) (t : Task) (st : St) :
    run cfg (n + 1) t st = step cfg (run cfg n) t { st with deepest := max st.deepest t.depth } := by
  rw [run_succ]
  exact bind_eq_of_ok rfl

theorem run_succ_eval (cfg : Cfg) (n : Nat) (e : Expr) (env : EId) (tail : Bool) (d : Nat) (st : St) :
    run cfg (n + 1) (.eval e env tail d) st =
      step cfg (run cfg n) (.eval e env tail d) { st with deepest := max st.deepest d } :=
  run_succ_apply cfg n _ st

/-- `m` started in `st` ends in `st'` (up to the ghost depth counter) with `r` -/
def RetTo {α} (m : M α) (st st' : St) (r : Except Err α) : Prop :=
  ∃ k, m st = some (r, { st' with deepest := k })

/-- The arms `< <= > >=`: once the operands are evaluated to deeply evaluated values `av`, `bv`
    (in the store `s2` reached after both), the operator is the sign test `ordTest` of the one
    three-way comparison, or its error. -/
theorem binary_ord_ret (cfg : Cfg) (n h : Nat) (op : BinOp) (a b : Expr) (env : EId) (tail : Bool)
    (d : Nat) (st s1 s2 : St) (av bv : Value)
    (hop : op = .lt ∨ op = .le ∨ op = .gt ∨ op = .ge)
    (h1 : run cfg n (.eval a env false (d + 1)) { st with deepest := max st.deepest d } = some (.ok av, s1))
    (h2 : run cfg n (.eval b env false (d + 1)) s1 = some (.ok bv, s2))
    (ha : Evald s2 h av) (hb : Evald s2 h bv) (hn : h + 1 ≤ n) (hd : d + 1 + h ≤ cfg.maxStack) :
    RetTo (run cfg (n + 1) (.eval (.binary op a b) env tail d)) st s2
      (outOrdOp op (lexCompare (absVal s2 h av) (absVal s2 h bv))) := by
  obtain ⟨k, hk⟩ := (run_compare_ret cfg s2 h n hn av bv (d + 1) ha hb hd).run
  refine ⟨k, ?_⟩
  rw [run_succ_eval, step_binary_ord cfg _ op a b env tail d hop,
    bind_eq_of_ok (checkDepth_apply (by omega) _), bind_eq_of_ok h1, bind_eq_of_ok h2]
  cases hs : lexCompare (absVal s2 h av) (absVal s2 h bv) with
  | error e =>
    rw [hs] at hk
    exact bind_eq_of_err hk
  | ok o =>
    rw [hs] at hk
    rw [bind_eq_of_ok hk]
    show some (Except.ok (Value.bool (match (generalizing := false) op with
      | .lt => decide (ordF o < 0.0) | .le => decide (ordF o ≤ 0.0) | .gt => decide (ordF o > 0.0)
      | _ => decide (ordF o ≥ 0.0))), _) = _
    rw [sign_test]
    rfl

/-- The arms `==` and `!=`: one `equals`; `!=` negates its answer and has the same errors. -/
theorem binary_eq_ret (cfg : Cfg) (n h : Nat) (op : BinOp) (a b : Expr) (env : EId) (tail : Bool)
    (d : Nat) (st s1 s2 : St) (av bv : Value) (hop : op = .eq ∨ op = .ne)
    (h1 : run cfg n (.eval a env false (d + 1)) { st with deepest := max st.deepest d } = some (.ok av, s1))
    (h2 : run cfg n (.eval b env false (d + 1)) s1 = some (.ok bv, s2))
    (ha : Evald s2 h av) (hb : Evald s2 h bv) (hn : h + 1 ≤ n) (hd : d + 1 + h ≤ cfg.maxStack) :
    RetTo (run cfg (n + 1) (.eval (.binary op a b) env tail d)) st s2
      (outEqOp op (structEq (absVal s2 h av) (absVal s2 h bv))) := by
  obtain ⟨k, hk⟩ := (run_equals_ret cfg s2 h n hn av bv (d + 1) ha hb hd).run
  refine ⟨k, ?_⟩
  rw [run_succ_eval, step_binary_eq cfg _ op a b env tail d hop,
    bind_eq_of_ok (checkDepth_apply (by omega) _), bind_eq_of_ok h1, bind_eq_of_ok h2]
  cases hs : structEq (absVal s2 h av) (absVal s2 h bv) with
  | error e =>
    rw [hs] at hk
    exact bind_eq_of_err hk
  | ok r =>
    rw [hs] at hk
    rw [bind_eq_of_ok hk]
    rfl

/-! ### function-free values -/

/-- no function in a visible position (within height `h`) -/
def FuncFree (st : St) : Nat → Value → Prop
  | 0 => fun v =>
    match v with
    | .func _ => False
    | _ => True
  | h + 1 => fun v =>
    match v with
    | .func _ => False
    | .arr items => ∀ t ∈ items, ∀ w, st.thunks[t]? = some (.done w) → FuncFree st h w
    | .obj o => ∀ ob, st.objs[o]? = some ob → ∀ name ∈ visibleFields ob, ∀ li f t w,
        findField ob 0 name = some (li, f) → f.thunk = some t → st.thunks[t]? = some (.done w) →
        FuncFree st h w
    | _ => True

theorem abs_pure {st : St} : ∀ {h : Nat} {v : Value}, Evald st h v → FuncFree st h v →
    Compare.Pure (absVal st h v)
  | 0, v, hv, hf => by
    cases v <;> first | exact hv.elim | exact hf.elim | constructor
  | h + 1, v, hv, hf => by
    cases v with
    | null => exact .null
    | bool b => exact .bool b
    | num f => exact .num _
    | str s => exact .str _
    | func f => exact hf.elim
    | arr items =>
      rw [absVal_arr]
      refine .arr _ ?_ ?_
      · intro e he
        obtain ⟨t, ht, hte⟩ := List.mem_map.mp he
        obtain ⟨w, h1, _⟩ := hv t ht
        rw [absThunk_done h1] at hte; cases hte
      · intro x hx
        obtain ⟨t, ht, hte⟩ := List.mem_map.mp hx
        obtain ⟨w, h1, h2⟩ := hv t ht
        rw [absThunk_done h1] at hte
        injection hte with hte
        subst hte
        exact abs_pure h2 (hf t ht w h1)
    | obj o =>
      obtain ⟨ob, h1, h2, h3⟩ := hv
      rw [absVal_obj st h h1]
      refine .obj _ ?_ ?_
      · intro k e he
        obtain ⟨name, hn, hne⟩ := List.mem_map.mp he
        obtain ⟨li, f, t, w, g1, g2, g3, g4⟩ := h3 name hn
        rw [absField_done g1 g2 g3] at hne
        injection hne with _ hne; cases hne
      · intro k x hx
        obtain ⟨name, hn, hne⟩ := List.mem_map.mp hx
        obtain ⟨li, f, t, w, g1, g2, g3, g4⟩ := h3 name hn
        rw [absField_done g1 g2 g3] at hne
        injection hne with _ hne
        injection hne with hne
        subst hne
        exact abs_pure g4 (hf ob h1 name hn li f t w g1 g2 g3)

/-! ### values that have an order -/

open Rsj.Compare (VSort HasSort)

/-- `v` is a number, a string, or an array of values of sort `s` (all element thunks evaluated) -/
def SortE (st : St) : VSort → Value → Prop
  | .num => fun v => ∃ f, v = .num f ∧ FOk f
  | .str => fun v => ∃ s, v = .str s
  | .arr s => fun v => ∃ items, v = .arr items ∧
      ∀ t ∈ items, ∃ w, st.thunks[t]? = some (.done w) ∧ SortE st s w

/-- nesting height of a sort -/
def sortHeight : VSort → Nat
  | .num => 0
  | .str => 0
  | .arr s => sortHeight s + 1

theorem sortE_evald {st : St} : ∀ {s : VSort} {v : Value}, SortE st s v →
    Evald st (sortHeight s) v ∧ HasSort s (absVal st (sortHeight s) v)
  | .num, v, hv => by
    obtain ⟨f, rfl, hf⟩ := hv
    exact ⟨hf, .num _⟩
  | .str, v, hv => by
    obtain ⟨s, rfl⟩ := hv
    exact ⟨trivial, .str _⟩
  | .arr s, v, hv => by
    obtain ⟨items, rfl, hi⟩ := hv
    refine ⟨?_, ?_⟩
    · intro t ht
      obtain ⟨w, h1, h2⟩ := hi t ht
      exact ⟨w, h1, (sortE_evald h2).1⟩
    · show HasSort (.arr s) (absVal st (sortHeight s + 1) (.arr items))
      rw [absVal_arr]
      refine .arr _ _ ?_ ?_
      · intro e he
        obtain ⟨t, ht, hte⟩ := List.mem_map.mp he
        obtain ⟨w, h1, _⟩ := hi t ht
        rw [absThunk_done h1] at hte; cases hte
      · intro x hx
        obtain ⟨t, ht, hte⟩ := List.mem_map.mp hx
        obtain ⟨w, h1, h2⟩ := hi t ht
        rw [absThunk_done h1] at hte
        injection hte with hte
        subst hte
        exact (sortE_evald h2).2

end Rsj.Eval.Cmp
