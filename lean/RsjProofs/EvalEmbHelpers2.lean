import RsjProofs.EvalEmbHelpers1
/-! Store-embedding invariance: pure facts about objects and values, and the small helpers that call
    the evaluator recursively. -/
set_option linter.unusedVariables false
namespace Rsj.Eval
open Rsj.Core
set_option linter.unusedSectionVars false
variable [Mode]

theorem typeName_rel {ρ : Emb} {v v' : Value} (h : RVal ρ v v') : typeName v = typeName v' := by
  cases h <;> rfl

theorem typeStr_rel {ρ : Emb} {v v' : Value} (h : RVal ρ v v') : typeStr v = typeStr v' := by
  cases h <;> rfl

theorem RList.foldl_eq {α β γ : Type} {R : Emb → α → β → Prop} {ρ : Emb} {l : List α} {l' : List β}
    (F : γ → α → γ) (F' : γ → β → γ) (h : RList R ρ l l') (hF : ∀ acc a b, R ρ a b → F acc a = F' acc b)
    (acc : γ) : l.foldl F acc = l'.foldl F' acc := by
  induction h generalizing acc with
  | nil => rfl
  | cons h1 _ ih => simp only [List.foldl_cons, hF _ _ _ h1, ih]

/-- the order of the fields depends only on names and visibilities -/
theorem fieldsOrder_rel {ρ : Emb} {o o' : Obj} (h : RObj ρ o o') : fieldsOrder o = fieldsOrder o' := by
  unfold fieldsOrder
  exact RList.foldl_eq _ _ h.layers (fun acc a b hab =>
    RList.foldl_eq _ _ hab.fields (fun acc f f' hf => by simp only [hf.name, hf.vis]) acc) []

theorem visibleFields_rel {ρ : Emb} {o o' : Obj} (h : RObj ρ o o') : visibleFields o = visibleFields o' := by
  unfold visibleFields
  rw [fieldsOrder_rel h]

theorem hasVisibleField_rel {ρ : Emb} {o o' : Obj} (h : RObj ρ o o') (n : String) :
    hasVisibleField o n = hasVisibleField o' n := by
  unfold hasVisibleField
  rw [visibleFields_rel h]

theorem cloneField_rel {ρ : Emb} {f f' : Field} (h : RField ρ f f') : RField ρ (cloneField f) (cloneField f') := by
  unfold cloneField
  refine ⟨h.name, h.vis, h.baseEnv, h.expr, ?_⟩
  dsimp only
  rw [h.expr]
  split
  · exact .none
  · exact h.thunk

theorem cloneLayer_rel {ρ : Emb} {l l' : Layer} (h : RLayer ρ l l') : RLayer ρ (cloneLayer l) (cloneLayer l') :=
  ⟨h.isTop, h.locals, h.baseEnv, .none, h.fields.map (fun _ _ => cloneField_rel), h.asserts⟩

theorem extendObject_rel {ρ : Emb} {l l' r r' : Obj} (hl : RObj ρ l l') (hr : RObj ρ r r') :
    RObj ρ (extendObject l r) (extendObject l' r') :=
  ⟨(hr.layers.append hl.layers).map (fun _ _ => cloneLayer_rel), rfl, rfl⟩

theorem findField_isSome_rel {ρ : Emb} {o o' : Obj} (h : RObj ρ o o') (start : Nat) (n : String) :
    (findField o start n).isSome = (findField o' start n).isSome := by
  gcases (findField_rel h start n) <;> rfl

theorem RList.filter_same {α β : Type} {R : Emb → α → β → Prop} {ρ : Emb} {l : List α} {l' : List β}
    (h : RList R ρ l l') (p : α → Bool) (q : β → Bool) (hpq : ∀ a b, R ρ a b → p a = q b) :
    RList R ρ (l.filter p) (l'.filter q) := by
  induction h with
  | nil => exact .nil
  | @cons a b as bs h1 _ ih =>
    simp only [List.filter_cons, hpq a b h1]
    split
    · exact .cons h1 ih
    · exact ih

theorem RList.zipIdx {α β : Type} {R : Emb → α → β → Prop} {ρ : Emb} {l : List α} {l' : List β}
    (h : RList R ρ l l') (k : Nat) : RList (RProd R REq) ρ (l.zipIdx k) (l'.zipIdx k) := by
  induction h generalizing k with
  | nil => exact .nil
  | cons h1 _ ih => exact .cons ⟨h1, rfl⟩ (ih _)

theorem stepBy_rel {α β : Type} {R : Emb → α → β → Prop} {ρ : Emb} {l : List α} {l' : List β}
    (h : RList R ρ l l') (k : Nat) : RList R ρ (stepBy l k) (stepBy l' k) := by
  unfold stepBy
  refine RList.map (R := RProd R REq) ?_ (fun a b hab => hab.1)
  exact (h.zipIdx 0).filter_same _ _ (fun a b hab => by rw [show a.2 = b.2 from hab.2])

section
variable {cfg cfg' : Cfg} [RCfg cfg cfg'] {rec rec' : Task → M Value} (hrec : RecRel rec rec')
include hrec

theorem recStr_rel {ρ : Emb} {t t' : Task} (ht : RTask ρ t t') : MRel ρ REq (recStr rec t) (recStr rec' t') := by
  unfold recStr
  mbind (hrec _ _ _ ht) with v v' hv
  cases hv <;> first | exact MRel_throw rfl | exact MRel_pure rfl

theorem wantThunk_rel {ρ : Emb} {t t' : TId} (d : Nat) {d' : Nat} (h : RT ρ t t') (hd : RDep d d' := by rdep) :
    MRel ρ RVal (wantThunk cfg rec t d) (wantThunk cfg' rec' t' d') := by
  unfold wantThunk
  mbind (getThunk_rel h) with s s' hs
  cases hs <;> simp only []
  · mbind (checkDepth_rel _ _) with u u' hu
    exact hrec _ _ _ (.force _ h)
  · mbind (checkDepth_rel _ _) with u u' hu
    exact hrec _ _ _ (.force _ h)
  · mbind (checkDepth_rel _ _) with u u' hu
    exact hrec _ _ _ (.force _ h)
  · exact MRel_pure ‹_›

theorem wantField_rel {ρ : Emb} {o o' : OId} (name : String) (d : Nat) {d' : Nat} (ho : RO ρ o o') (hd : RDep d d' := by rdep) :
    MRel ρ RVal (wantField cfg rec o name d) (wantField cfg' rec' o' name d') := by
  unfold wantField
  mbind (fieldThunk_rel 0 name ho) with t t' ht
  gcases ht
  · exact MRel_throw rfl
  · rename_i t t' ht
    mnorm
    mbind (getObj_rel ho) with ob ob' hob
    rw [hob.assertsChecked]
    split
    · exact wantThunk_rel hrec d ht
    · mbind (checkDepth_rel _ _) with u u' hu
      mbind (hrec _ _ _ (.asserts (d + 1) ho)) with a a' ha
      exact hrec _ _ _ (.force _ ht)

theorem wantSuperField_rel {ρ : Emb} {env env' : EId} (name : String) (d : Nat) {d' : Nat} (he : RE ρ env env') (hd : RDep d d' := by rdep) :
    MRel ρ RVal (wantSuperField cfg rec env name d) (wantSuperField cfg' rec' env' name d') := by
  unfold wantSuperField
  mnorm
  mbind (getObjRef_rel he) with r r' hr
  mbind (getObj_rel hr.obj) with ob ob' hob
  rw [hr.layer, hob.layers.length_eq]
  split
  · exact MRel_throw rfl
  · mbind (fieldThunk_rel (r'.layer + 1) name hr.obj) with t t' ht
    gcases ht
    · exact MRel_throw rfl
    · exact wantThunk_rel hrec d ‹_›

theorem coerceToString_rel {ρ : Emb} {v v' : Value} (d : Nat) {d' : Nat} (hv : RVal ρ v v') (hd : RDep d d' := by rdep) :
    MRel ρ REq (coerceToString rec v d) (coerceToString rec' v' d') := by
  unfold coerceToString
  cases hv <;> simp only []
  · exact recStr_rel hrec (.manifest d false .null)
  · exact recStr_rel hrec (.manifest d false (.bool _))
  · exact recStr_rel hrec (.manifest d false (.num _))
  · exact MRel_pure rfl
  · exact recStr_rel hrec (.manifest d false (.arr ‹_›))
  · exact recStr_rel hrec (.manifest d false (.obj ‹_›))
  · exact recStr_rel hrec (.manifest d false (.func ‹_›))

theorem objectMember_rel {ρ : Emb} {env env' : EId} {layer layer' : Layer} (d : Nat) {d' : Nat} (m : Members)
    (he : RE ρ env env') (hl : RLayer ρ layer layer') (hd : RDep d d' := by rdep) :
    MRel ρ RLayer (objectMember rec env d layer m) (objectMember rec' env' d' layer' m) := by
  cases m with
  | nil => unfold objectMember; exact MRel_pure hl
  | local_ n ps e rest => unfold objectMember; exact MRel_pure hl
  | assert_ c m rest => unfold objectMember; exact MRel_pure hl
  | fieldFix n plus vis ps ve rest =>
    unfold objectMember
    exact addField_rel n plus vis _ hl .none
  | fieldDyn ne plus vis ps ve rest =>
    unfold objectMember
    mbind (hrec _ _ _ (.eval ne false d he)) with v v' hv
    cases hv <;> simp only []
    · exact MRel_pure hl
    · exact MRel_throw rfl
    · exact MRel_throw rfl
    · exact addField_rel _ plus vis _ hl .none
    · exact MRel_throw rfl
    · exact MRel_throw rfl
    · exact MRel_throw rfl

theorem sliceArg_rel {ρ : Emb} {env env' : EId} (d : Nat) {d' : Nat} (x : OptExpr) (he : RE ρ env env') (hd : RDep d d' := by rdep) :
    MRel ρ RVal (sliceArg rec env d x) (sliceArg rec' env' d' x) := by
  cases x with
  | none => unfold sliceArg; exact MRel_pure .null
  | some e => unfold sliceArg; exact hrec _ _ _ (.eval e false d he)

end
end Rsj.Eval
