/-
  C15 print/parse, part 21: the induction over `Frag2` trees, `parse_expr` and `parse_root_expr` on
  printed trees, for minimal and full parenthesisation.
-/
import RsjProofs.ParserRun20
namespace Rsj.Parser

section
variable {toks : List Token} (pe : PState toks → Except (Err toks) (Expr × PState toks)) (R : Nat)

/-- **one node** from its direct subexpressions -/
theorem node_all (full : Bool) (t : Expr) (hwf : NodeWF t) (hs : ∀ x ∈ skids t, SK pe R full x)
    (hp : ∀ x ∈ pkids t, PCh pe R full x) :
    ShapeW (pr full t) ∧ AllW pe R (pr full t) t.erase := by
  cases t with
  | null sp => exact node_atom pe R (.null sp)
  | bool b sp =>
    cases b
    · exact node_atom pe R (.false_ sp)
    · exact node_atom pe R (.true_ sp)
  | selfObj sp => exact node_atom pe R (.selfObj sp)
  | dollar sp => exact node_atom pe R (.dollar sp)
  | str s sp => exact node_atom pe R (.str s sp)
  | textBlock s sp => exact node_atom pe R (.textBlock s sp)
  | number n sp => exact node_atom pe R (.number n sp)
  | ident i sp => exact node_atom pe R (.ident i sp)
  | paren e sp => exact node_paren pe R sp (hs e (by simp [skids]))
  | object o sp => exact node_object pe R sp (objOK_of pe R hwf hp)
  | array items sp => exact node_array pe R sp hs
  | arrayComp e spec sp =>
    exact node_arrayComp pe R sp (hs e (by simp [skids])) (specsOK_of pe R hwf hp)
  | field e name sp =>
    have hW : ∀ lvl o el, pr full (.field e name sp) lvl o el =
        sub full e suffixPrec true false ++ sim .Dot :: [.ident name.value] := by
      intro lvl o el; rw [pr]
    have := node_suffix pe R hW (by decide) (by decide) (by decide) (hs e (by simp [skids]))
      (field_step2 pe R name.value e.erase)
    simpa [Expr.erase, Ident.erase] using this
  | index e i sp =>
    have hW : ∀ lvl o el, pr full (.index e i sp) lvl o el =
        sub full e suffixPrec true false ++ sim .LeftBracket :: (sub full i 0 false false ++ [sim .RightBracket]) := by
      intro lvl o el; rw [pr]
    exact node_suffix pe R hW (by decide) (by decide) (by decide) (hs e (by simp [skids]))
      (index_step pe R (hp i (by simp [pkids])) e.erase)
  | slice e i1 i2 i3 sp =>
    have hW : ∀ lvl o el, pr full (.slice e i1 i2 i3 sp) lvl o el =
        sub full e suffixPrec true false ++ sim .LeftBracket :: (sliceMid full i1 i2 i3 ++ [sim .RightBracket]) := by
      intro lvl o el; rw [pr.eq_def]; rfl
    exact node_suffix pe R hW (by decide) (by decide) (by decide) (hs e (by simp [skids]))
      (slice_step pe R (fun x hx => hp x (by simp [pkids, hx, optL]))
        (fun x hx => hp x (by simp [pkids, hx, optL])) (fun x hx => hp x (by simp [pkids, hx, optL])) e.erase)
  | superField ssp name sp => exact node_superField pe R full ssp name sp
  | superIndex ssp i sp => exact node_superIndex pe R ssp sp (hp i (by simp [pkids]))
  | call f args ts sp =>
    have hW : ∀ lvl o el, pr full (.call f args ts sp) lvl o el =
        sub full f suffixPrec true false ++ sim .LeftParen ::
          (prArgs full args ++ sim .RightParen :: (if ts then [sim .Tailstrict] else [])) := by
      intro lvl o el; rw [pr]
    exact node_suffix pe R hW (by decide) (by decide) (by decide) (hs f (by simp [skids]))
      (call_step pe R args ts (fun a ha => hp a.expr (by simp only [pkids]; exact List.mem_map.mpr ⟨a, ha, rfl⟩))
        f.erase)
  | local_ binds body sp =>
    obtain ⟨hne, hbwf⟩ := hwf
    cases binds with
    | nil => exact absurd rfl hne
    | cons b0 bs =>
      have hW : ∀ lvl o el, pr full (.local_ (b0 :: bs) body sp) lvl o el =
          if o then parens (localToks full (b0 :: bs) body false) else localToks full (b0 :: bs) body el := by
        intro lvl o el; rw [pr]; rfl
      exact node_prefix pe R (k := .Local) (fun o _ => o) (localToks full (b0 :: bs) body) hW rfl (fun _ _ h => h)
        (by decide) (by decide) (by decide) (by decide) (by decide) (by decide) (fun el => ⟨_, rfl⟩)
        (fun el _ => local_head pe R (bindsOK_of pe R hbwf (fun x hx => hp x (by simp [pkids, hx])))
          (hp body (by simp [pkids])) el)
  | ite_ c t e sp =>
    have hc := hp c (by simp [pkids])
    have ht := hp t (by simp [pkids])
    cases e with
    | none =>
      have hW : ∀ lvl o el, pr full (.ite_ c t none sp) lvl o el =
          if o || el then parens (iteToks full c t none false) else iteToks full c t none el := by
        intro lvl o el; simp only [pr]; rfl
      refine node_prefix pe R (k := .If) (fun o el => o || el) (iteToks full c t none) hW rfl
        (fun o el h => by cases o <;> simp_all)
        (by decide) (by decide) (by decide) (by decide) (by decide) (by decide) (fun el => ⟨_, rfl⟩)
        (fun el hel => ?_)
      have : el = false := by simpa using hel
      subst this
      exact ite_none_head pe R hc ht
    | some e =>
      have hW : ∀ lvl o el, pr full (.ite_ c t (some e) sp) lvl o el =
          if o then parens (iteToks full c t (some e) false) else iteToks full c t (some e) el := by
        intro lvl o el; simp only [pr]; rfl
      exact node_prefix pe R (k := .If) (fun o _ => o) (iteToks full c t (some e)) hW rfl (fun _ _ h => h)
        (by decide) (by decide) (by decide) (by decide) (by decide) (by decide) (fun el => ⟨_, rfl⟩)
        (fun el _ => ite_some_head pe R hc ht (hp e (by simp [pkids, optL])) el)
  | binary l op r sp => exact node_binary pe R op sp (hs l (by simp [skids])) (hs r (by simp [skids]))
  | unary op e sp => exact node_unary pe R op sp (hs e (by simp [skids]))
  | objExt e o osp sp =>
    have hW : ∀ lvl o' el, pr full (.objExt e o osp sp) lvl o' el =
        sub full e suffixPrec true false ++ sim .LeftBrace :: (prObjInside full o ++ [sim .RightBrace]) := by
      intro lvl o' el; rw [pr]
    exact node_suffix pe R hW (by decide) (by decide) (by decide) (hs e (by simp [skids]))
      (objExt_step pe R (objOK_of pe R hwf hp) e.erase)
  | func ps body sp =>
    have hW : ∀ lvl o el, pr full (.func ps body sp) lvl o el =
        if o then parens (funcToks full ps body false) else funcToks full ps body el := by
      intro lvl o el; rw [pr]; rfl
    exact node_prefix pe R (k := .Function) (fun o _ => o) (funcToks full ps body) hW rfl (fun _ _ h => h)
      (by decide) (by decide) (by decide) (by decide) (by decide) (by decide) (fun el => ⟨_, rfl⟩)
      (fun el _ => func_head pe R (paramsOK_of pe R (fun x hx => hp x (by simp [pkids, hx])))
        (hp body (by simp [pkids])) el)
  | assert_ a body sp =>
    have hW : ∀ lvl o el, pr full (.assert_ a body sp) lvl o el =
        if o then parens (assertToks full a body false) else assertToks full a body el := by
      intro lvl o el; rw [pr]; rfl
    exact node_prefix pe R (k := .Assert) (fun o _ => o) (assertToks full a body) hW rfl (fun _ _ h => h)
      (by decide) (by decide) (by decide) (by decide) (by decide) (by decide)
      (fun el => by
        obtain ⟨Z, hz⟩ := prAssert_cons full a
        exact ⟨Z ++ sim .Semicolon :: sub full body 0 false el, by simp [assertToks, hz]⟩)
      (fun el _ => assert_head pe R (assertOK_of pe R (fun x hx => hp x (by simp [pkids, hx])))
        (hp body (by simp [pkids])) el)
  | import_ e sp =>
    have hW : ∀ lvl o el, pr full (.import_ e sp) lvl o el =
        if o then parens (sim .Import :: sub full e 0 false false) else sim .Import :: sub full e 0 false el := by
      intro lvl o el; rw [pr]
    exact node_prefix pe R (k := .Import) (fun o _ => o) (fun el => sim .Import :: sub full e 0 false el) hW rfl
      (fun _ _ h => h) (by decide) (by decide) (by decide) (by decide) (by decide) (by decide) (fun el => ⟨_, rfl⟩)
      (fun el _ => import_head pe R (hp e (by simp [pkids])) el)
  | importStr e sp =>
    have hW : ∀ lvl o el, pr full (.importStr e sp) lvl o el =
        if o then parens (sim .Importstr :: sub full e 0 false false) else sim .Importstr :: sub full e 0 false el := by
      intro lvl o el; rw [pr]
    exact node_prefix pe R (k := .Importstr) (fun o _ => o) (fun el => sim .Importstr :: sub full e 0 false el) hW rfl
      (fun _ _ h => h) (by decide) (by decide) (by decide) (by decide) (by decide) (by decide) (fun el => ⟨_, rfl⟩)
      (fun el _ => importStr_head pe R (hp e (by simp [pkids])) el)
  | importBin e sp =>
    have hW : ∀ lvl o el, pr full (.importBin e sp) lvl o el =
        if o then parens (sim .Importbin :: sub full e 0 false false) else sim .Importbin :: sub full e 0 false el := by
      intro lvl o el; rw [pr]
    exact node_prefix pe R (k := .Importbin) (fun o _ => o) (fun el => sim .Importbin :: sub full e 0 false el) hW rfl
      (fun _ _ h => h) (by decide) (by decide) (by decide) (by decide) (by decide) (by decide) (fun el => ⟨_, rfl⟩)
      (fun el _ => importBin_head pe R (hp e (by simp [pkids])) el)
  | error_ e sp =>
    have hW : ∀ lvl o el, pr full (.error_ e sp) lvl o el =
        if o then parens (sim .Error :: sub full e 0 false false) else sim .Error :: sub full e 0 false el := by
      intro lvl o el; rw [pr]
    exact node_prefix pe R (k := .Error) (fun o _ => o) (fun el => sim .Error :: sub full e 0 false el) hW rfl
      (fun _ _ h => h) (by decide) (by decide) (by decide) (by decide) (by decide) (by decide) (fun el => ⟨_, rfl⟩)
      (fun el _ => error_head pe R (hp e (by simp [pkids])) el)
  | inSuper e ssp sp => exact node_inSuper pe R ssp sp (hs e (by simp [skids]))

/-- **All machine statements for every tree of the fragment** whose bracketed subexpressions the
    recursive `parse_expr` handles — for the node itself and for it as a subexpression position. -/
theorem br2_all (full : Bool) {t : Expr} (h : Br2 (Hd pe R full) t) :
    (ShapeW (pr full t) ∧ AllW pe R (pr full t) t.erase) ∧ SK pe R full t := by
  induction h with
  | mk e hwf _ _ hq ih1 ih2 =>
    have hn := node_all pe R full e hwf (fun x hx => (ih1 x hx).2)
      (fun x hx => ⟨hq x hx, fun el => (ih2 x hx).2.1.head 0 false el⟩)
    exact ⟨hn, shape_sub full e hn.1, sub_allW pe R full e e.erase hn.2⟩

end

/-! ### `parse_expr` on printed trees -/

section
variable {toks : List Token}

/-- `parse_expr` (with enough fuel) reads back the subexpression position of `e` printed with
    `openRight = false` -/
def MainSub (toks : List Token) (full : Bool) (e : Expr) : Prop :=
  ∀ (f0 : Nat) (el : Bool) (st : PState toks) (tk : TokKind) (T : List TokKind),
    st.kinds = sub full e 0 false el ++ tk :: T → StopTok tk → (tk = sim .Else → el = true) →
    50 * st.kinds.length + 10 ≤ f0 →
    ∃ e' st', parseExprF f0 st = .ok (e', st') ∧ e'.erase = e.erase ∧ st'.kinds = tk :: T

/-- … and the node itself -/
def MainNode (toks : List Token) (full : Bool) (e : Expr) : Prop :=
  ∀ (f0 : Nat) (el : Bool) (st : PState toks) (tk : TokKind) (T : List TokKind),
    st.kinds = pr full e 0 false el ++ tk :: T → StopTok tk → (tk = sim .Else → el = true) →
    50 * st.kinds.length + 10 ≤ f0 →
    ∃ e' st', parseExprF f0 st = .ok (e', st') ∧ e'.erase = e.erase ∧ st'.kinds = tk :: T

/-- run the machine from the top on a position with all statements -/
theorem run_top {W : TokFn} {te : Expr} {f : Nat} {st : PState toks} {el : Bool} {tk : TokKind} {T : Toks}
    (hall : AllW (parseExprF (toks := toks) f) st.kinds.length W te)
    (hk : st.kinds = W 0 false el ++ tk :: T) (hstop : StopTok tk) (hel : tk = sim .Else → el = true)
    (hf : 50 * st.kinds.length + 10 ≤ f + 1) :
    ∃ e' st', parseExprF (f + 1) st = .ok (e', st') ∧ e'.erase = te ∧ st'.kinds = tk :: T := by
  obtain ⟨S', e', st', n, hb, he, hk', hn, hr⟩ := hall.lq initKind false el
    initKind [] st tk T (Nat.le_refl _) (by rw [initKind_prec]; exact hk) (Nat.le_refl _) hstop.1
    (fun j _ => hstop.2 j) ⟨fun _ => hstop, hel⟩
  have := Below_self hb
  subst this
  obtain ⟨st'', hstep, hk''⟩ := binaryRhs_miss (k := initKind) e' [] (st := st')
    (by rw [cur_kind_of_kinds hk']; exact hstop.2 _)
  have hreach := Reach.trans (parseExprF f) hr (Reach.binaryRhs (parseExprF f) (B := st.kinds.length + 2) hstep)
  have hlenP : (W 0 false el).length ≤ st.kinds.length := by rw [hk]; simp
  rw [initKind_prec] at hn
  refine ⟨e', st'', ?_, he, by rw [hk'', hk']⟩
  obtain ⟨g, hg⟩ : ∃ g, f = (g + 1) + (n + 1) := ⟨f - (n + 1) - 1, by omega⟩
  have hrun := hreach (g + 1) (by omega)
  rw [← hg] at hrun
  rw [parseExprF]
  show exprLoop (parseExprF f) f [] (.binary initKind) st = _
  rw [hrun, exprLoop]
  rfl

theorem main_of_br2 {full : Bool} {e : Expr} (h : Br2 (MainSub toks full) e) :
    MainNode toks full e ∧ MainSub toks full e := by
  have key : ∀ (f : Nat) (st : PState toks), 50 * st.kinds.length + 10 ≤ f + 1 →
      Br2 (Hd (parseExprF (toks := toks) f) st.kinds.length full) e := by
    intro f st hf
    refine Br2.imp (fun i hi => ?_) h
    intro el sti tk' T' hk' hlen hstop' hel'
    exact hi f el sti tk' T' hk' hstop' hel' (by omega)
  refine ⟨?_, ?_⟩
  · intro f0 el st tk T hk hstop hel hf
    obtain ⟨f, rfl⟩ : ∃ f, f0 = f + 1 := ⟨f0 - 1, by omega⟩
    exact run_top (br2_all _ _ full (key f st hf)).1.2 hk hstop hel hf
  · intro f0 el st tk T hk hstop hel hf
    obtain ⟨f, rfl⟩ : ∃ f, f0 = f + 1 := ⟨f0 - 1, by omega⟩
    exact run_top (br2_all _ _ full (key f st hf)).2.2 hk hstop hel hf

theorem frag2_main (full : Bool) {e : Expr} (h : Frag2 e) :
    Br2 (MainSub toks full) e ∧ MainNode toks full e ∧ MainSub toks full e := by
  induction h with
  | mk e hwf _ _ _ ih1 ih2 =>
    have hb : Br2 (MainSub toks full) e :=
      .mk e hwf (fun x hx => (ih1 x hx).1) (fun x hx => (ih2 x hx).1) (fun x hx => (ih2 x hx).2.2)
    exact ⟨hb, main_of_br2 hb⟩

end

/-- `parse_root_expr` on a printed tree followed by end-of-file -/
theorem parse_pr_frag2 (full : Bool) {e : Expr} (h : Frag2 e) (toks : List Token)
    (hk : toks.map (·.kind) = pr full e 0 false false ++ [.eof]) :
    ∃ e', parse toks = .ok e' ∧ e'.erase = e.erase := by
  unfold parse parseWithFuel
  split
  · simp at hk
  · next t r =>
    dsimp only
    have hk0 : ({ cur := t, rem := r, expected := [], suffix := List.suffix_refl _ } :
        PState (t :: r)).kinds = pr full e 0 false false ++ .eof :: [] := hk
    obtain ⟨e', st', hp, he, hk'⟩ := (frag2_main (toks := t :: r) full h).2.1 (fuelFor (t :: r)) false _ .eof [] hk0
      stopTok_eof (fun h => by simp [sim] at h)
      (by
        have : ({ cur := t, rem := r, expected := [], suffix := List.suffix_refl _ } :
          PState (t :: r)).kinds.length = (t :: r).length := by
          unfold PState.kinds; simp
        rw [this]; unfold fuelFor; omega)
    obtain ⟨st'', hEof⟩ := eatEof_hit hk'
    refine ⟨e', ?_, he⟩
    unfold parseRootF
    rw [hp]
    simp only [bind, Except.bind]
    rw [hEof]
    rfl

/-- **print / parse on the second fragment**, minimal parentheses -/
theorem parse_printMin_frag2 {e : Expr} (h : Frag2 e) (toks : List Token)
    (hk : toks.map (·.kind) = printMin e ++ [.eof]) : ∃ e', parse toks = .ok e' ∧ e'.erase = e.erase :=
  parse_pr_frag2 false h toks hk

/-- **print / parse on the second fragment**, every subexpression parenthesised -/
theorem parse_printFull_frag2 {e : Expr} (h : Frag2 e) (toks : List Token)
    (hk : toks.map (·.kind) = printFull e ++ [.eof]) : ∃ e', parse toks = .ok e' ∧ e'.erase = e.erase :=
  parse_pr_frag2 true h toks hk

end Rsj.Parser
