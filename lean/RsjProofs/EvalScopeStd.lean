import RsjProofs.EvalScopeHelpers2
/-!
  C09, run-time half: the builtins added after `std.makeArray` (`std_filter` … `std_sortSet`,
  `builtinCall2`) keep the store well scoped.
-/
open Std.Do
set_option mvcgen.warning false
namespace Rsj.Eval.Scope
open Rsj.Core Rsj.Eval Rsj.Analyze

theorem isObjEnv_of {a b : St} {env : EId} {Γ : AEnv} (hk : EnvOk a.envs env Γ) (hS : S a b)
    (ho : Γ.isObj = true) : IsObjEnv b.envs env := (hS.env _ _ hk).obj ho

theorem taskOk_mono {a b : St} {t : Task} (h : TaskOk a.envs t) (hS : S a b) : TaskOk b.envs t := by
  cases t with
  | eval e env tail d => obtain ⟨Γ, h1, h2⟩ := h; exact ⟨Γ, hS.env _ _ h1, h2⟩
  | _ => trivial

theorem taskOk_opt {a b : St} {env : EId} {Γ : AEnv} {x : OptExpr} {d : Nat}
    (hk : EnvOk a.envs env Γ) (hS : S a b) (hw : WSOpt x Γ) :
    ∀ e, x = .some e → TaskOk b.envs (.eval e env false d) := by
  intro e he; subst he
  exact ⟨Γ, hS.env _ _ hk, by simpa [WSOpt] using hw⟩

theorem newThunk_pre {a b : St} {env : EId} {Γ : AEnv} {it : Expr} (hk : EnvOk a.envs env Γ) (hS : S a b)
    (hw : WS it Γ) : ∃ Γ, EnvOk b.envs env Γ ∧ WS it Γ := ⟨Γ, hS.env _ _ hk, hw⟩

theorem mem_of_split {α} {l pref suff : List α} {x : α} (h : l = pref ++ x :: suff) : x ∈ l := by
  rw [h]; simp

/-- the environment of one binding set of a comprehension types its body -/
theorem comp_body_pre {a b : St} {env ienv : EId} {Γ : AEnv} {spec : Specs} {body : Expr}
    {sets : List (List (String × TId))} {vars : List (String × TId)}
    (hk : EnvOk a.envs env Γ) (hS : S a b) (hw : WS body (specEnv spec Γ))
    (hnew : ∀ Γ Γ', EnvOk b.envs env Γ → (Γ'.isObj = true → Γ.isObj = true) →
      (∀ n, Γ'.has n = true → n ∈ vars.map Prod.fst ∨ Γ.has n = true) → EnvOk b.envs ienv Γ')
    (hcov : Cov (forVars (specsList spec)) sets) (hmem : vars ∈ sets) :
    ∃ Γ', EnvOk b.envs ienv Γ' ∧ WS body Γ' := by
  refine ⟨specEnv spec Γ, hnew Γ _ (hS.env _ _ hk) ?_ ?_, hw⟩
  · rw [isObj_specEnv]; exact fun h => h
  · intro n hn
    rw [has_specEnv] at hn
    rcases hn with h | h
    · exact .inl (hcov vars hmem n h)
    · exact .inr h

syntax "eclose" : tactic
macro_rules
  | `(tactic| eclose) => `(tactic| first
    | sclose
    | (apply isObjEnv_of <;> first | assumption | schain)
    | (apply taskOk_opt <;> first | assumption | schain)
    | (apply taskOk_mono <;> first | assumption | schain)
    | (simp only [WSOpt] at *; apply taskOk_eval <;> first | assumption | schain)
    | exact (by assumption : Inv _).wf
    | exact (by assumption : EnvOk _ _ _).vars _ (by assumption)
    | exact ⟨_, by assumption, WS_func (by assumption)⟩)

set_option hygiene false in
/-- one case of `step` on an expression: verification conditions, then the closers -/
macro "ecase" : tactic => `(tactic|
  (unfold step
   mvcgen [g0, g1, g2, g3, g4, g5, g6, g7, g8, h1, h2, h3, h4, h5, h7, h10, hr]
   all_goals clear g0 g1 g2 g3 g4 g5 g6 g7 g8 h1 h2 h3 h4 h5 h7 h10 hr
   all_goals vcprep
   all_goals eclose))

theorem CallOk.mono {a b : St} {c : Expr × EId} (h : CallOk a.envs c) (hS : S a b) : CallOk b.envs c := by
  obtain ⟨Γ, h1, h2⟩ := h; exact ⟨Γ, hS.env _ _ h1, h2⟩

theorem callOk_taskOk {a b : St} {c : Expr × EId} {tail : Bool} {d : Nat} (h : CallOk a.envs c) (hS : S a b) :
    TaskOk b.envs (.eval c.1 c.2 tail d) := by
  obtain ⟨Γ, h1, h2⟩ := h; exact ⟨Γ, hS.env _ _ h1, h2⟩

/-- prepared applications stay well scoped; one more is added -/
theorem calls_cons {a b : St} {calls : List (Expr × EId)} {c : Expr × EId}
    (h : ∀ c ∈ calls, CallOk a.envs c) (hS : S a b) (hc : CallOk b.envs c) :
    ∀ x ∈ c :: calls, CallOk b.envs x := by
  intro x hx
  rcases List.mem_cons.1 hx with rfl | hx
  · exact hc
  · exact (h x hx).mono hS

theorem mem_zipIdx_split {α} {l : List α} {pref suff : List (α × Nat)} {cur : α × Nat}
    (h : l.zipIdx = pref ++ cur :: suff) : cur.1 ∈ l := by
  have : cur ∈ l.zipIdx := by rw [h]; simp
  obtain ⟨c1, c2⟩ := cur
  exact (List.mem_zipIdx this).2.2 ▸ List.getElem_mem _

theorem mem_zip_zipIdx_split {α β} {l1 : List α} {l2 : List β} {pref suff : List ((α × β) × Nat)}
    {cur : (α × β) × Nat} (h : (l1.zip l2).zipIdx = pref ++ cur :: suff) : cur.1.2 ∈ l2 :=
  (List.of_mem_zip (a := cur.1.1) (b := cur.1.2) (mem_zipIdx_split h)).2

section
variable (cfg : Cfg) (rec : Task → M Value) (hrec : RecOk rec)
include hrec

omit hrec in
/-- `std_bindCall`: body and environment of the application are well scoped -/
theorem std_bindCall_spec (s : St) (f : FId) (args : List TId) (hI : Inv s) :
    ⦃fun st => ⌜st = s⌝⦄ std_bindCall f args ⦃Q s (fun r st => CallOk st.envs r)⦄ := by
  have h5 := getFunc_spec
  have h6 := bindThunkArgs_spec
  have h7 := newEnv_spec
  qstart
  unfold std_bindCall
  mvcgen [h5, h6, h7]
  all_goals clear h5 h6 h7
  all_goals vcprep
  all_goals first
    | eclose
    | exact hI.g.funcs _ _ (by assumption)
    | exact func_env_lt (by assumption) (by schain) (by assumption)
    | exact ⟨by assumption, by schain,
        call_taskOk (tail := true) (d := 0) (by assumption) (by schain) (by assumption) (by assumption) (by assumption)⟩

set_option hygiene false in
/-- the closers of the verification conditions of a builtin -/
macro "bcase" : tactic => `(tactic|
  (all_goals (try clear g1 g2 g3 g4 g5 g6 g7 hr)
   all_goals vcprep
   all_goals first
     | eclose
     | exact ⟨by assumption, by schain, by schain, calls_cons (by assumption) (by schain) (by assumption)⟩
     | exact ⟨by assumption, by schain, by schain, fun c hc => by cases hc⟩
     | exact ⟨by assumption, by schain, by schain, fun c hc => absurd hc List.not_mem_nil⟩
     | exact callOk_taskOk (tail := true) ((by assumption : ∀ c ∈ _, CallOk _ c) _ (mem_zip_zipIdx_split (by assumption))) (by schain)
     | exact callOk_taskOk (tail := true) ((by assumption : ∀ c ∈ _, CallOk _ c) _ (mem_zipIdx_split (by assumption))) (by schain)
     | exact callOk_taskOk (tail := true) (by assumption) (by schain)))

theorem std_filter_spec (s : St) (t0 t1 : TId) (d1 : Nat) (hI : Inv s) :
    ⦃fun st => ⌜st = s⌝⦄ std_filter cfg rec t0 t1 d1 ⦃Q s (fun _ _ => True)⦄ := by
  have g1 := std_bindCall_spec
  have g2 := checkDepth_spec
  have g3 := allocThunk_spec
  have g4 := getObj_spec
  have g5 := fieldThunk_spec
  have g6 := recStr_spec rec hrec
  have g7 := coerceToString_spec rec hrec
  have hr := rec_spec rec hrec
  qstart
  unfold std_filter
  mvcgen [g1, g2, g3, g4, g5, g6, g7, hr]
  on_invs first | exact callsInv s ‹St› | exact loopInv1 s ‹St›
  bcase

set_option hygiene false in
/-- a builtin: verification conditions with the specs of the helpers, the invariants, the closers -/
macro "bstd" : tactic => `(tactic|
  (have g1 := std_bindCall_spec
   have g2 := checkDepth_spec
   have g3 := allocThunk_spec
   have g4 := getObj_spec
   have g5 := fieldThunk_spec
   have g6 := recStr_spec rec hrec
   have g7 := coerceToString_spec rec hrec
   have hr := rec_spec rec hrec
   qstart
   mvcgen [g1, g2, g3, g4, g5, g6, g7, hr]
   on_invs first | exact callsInv s ‹St› | exact loopInv1 s ‹St›
   bcase))

theorem std_foldl_spec (s : St) (t0 t1 t2 : TId) (d1 : Nat) (hI : Inv s) :
    ⦃fun st => ⌜st = s⌝⦄ std_foldl cfg rec t0 t1 t2 d1 ⦃Q s (fun _ _ => True)⦄ := by
  unfold std_foldl; bstd

theorem std_foldr_spec (s : St) (t0 t1 t2 : TId) (d1 : Nat) (hI : Inv s) :
    ⦃fun st => ⌜st = s⌝⦄ std_foldr cfg rec t0 t1 t2 d1 ⦃Q s (fun _ _ => True)⦄ := by
  unfold std_foldr; bstd

theorem std_flatMap_spec (s : St) (t0 t1 : TId) (d1 : Nat) (hI : Inv s) :
    ⦃fun st => ⌜st = s⌝⦄ std_flatMap cfg rec t0 t1 d1 ⦃Q s (fun _ _ => True)⦄ := by
  unfold std_flatMap; bstd

theorem std_mapWithIndex_spec (s : St) (t0 t1 : TId) (d1 : Nat) (hI : Inv s) :
    ⦃fun st => ⌜st = s⌝⦄ std_mapWithIndex rec t0 t1 d1 ⦃Q s (fun _ _ => True)⦄ := by
  unfold std_mapWithIndex; bstd

theorem std_filterMap_spec (s : St) (t0 t1 t2 : TId) (d1 : Nat) (hI : Inv s) :
    ⦃fun st => ⌜st = s⌝⦄ std_filterMap cfg rec t0 t1 t2 d1 ⦃Q s (fun _ _ => True)⦄ := by
  unfold std_filterMap; bstd

theorem std_join_spec (s : St) (t0 t1 : TId) (d1 : Nat) (hI : Inv s) :
    ⦃fun st => ⌜st = s⌝⦄ std_join rec t0 t1 d1 ⦃Q s (fun _ _ => True)⦄ := by
  unfold std_join; bstd

set_option maxRecDepth 4096 in
theorem std_range_spec (s : St) (t0 t1 : TId) (d1 : Nat) (hI : Inv s) :
    ⦃fun st => ⌜st = s⌝⦄ std_range rec t0 t1 d1 ⦃Q s (fun _ _ => True)⦄ := by
  unfold std_range; bstd

theorem std_member_spec (s : St) (t0 t1 : TId) (d1 : Nat) (hI : Inv s) :
    ⦃fun st => ⌜st = s⌝⦄ std_member rec t0 t1 d1 ⦃Q s (fun _ _ => True)⦄ := by
  unfold std_member; bstd

theorem std_count_spec (s : St) (t0 t1 : TId) (d1 : Nat) (hI : Inv s) :
    ⦃fun st => ⌜st = s⌝⦄ std_count rec t0 t1 d1 ⦃Q s (fun _ _ => True)⦄ := by
  unfold std_count; bstd

theorem std_all_spec (s : St) (t : TId) (d1 : Nat) (hI : Inv s) :
    ⦃fun st => ⌜st = s⌝⦄ std_all rec t d1 ⦃Q s (fun _ _ => True)⦄ := by
  unfold std_all; bstd

theorem std_any_spec (s : St) (t : TId) (d1 : Nat) (hI : Inv s) :
    ⦃fun st => ⌜st = s⌝⦄ std_any rec t d1 ⦃Q s (fun _ _ => True)⦄ := by
  unfold std_any; bstd

theorem std_equals_spec (s : St) (t0 t1 : TId) (d1 : Nat) (hI : Inv s) :
    ⦃fun st => ⌜st = s⌝⦄ std_equals rec t0 t1 d1 ⦃Q s (fun _ _ => True)⦄ := by
  unfold std_equals; bstd

theorem std_compare_spec (s : St) (t0 t1 : TId) (d1 : Nat) (hI : Inv s) :
    ⦃fun st => ⌜st = s⌝⦄ std_compare rec t0 t1 d1 ⦃Q s (fun _ _ => True)⦄ := by
  unfold std_compare; bstd

theorem std_primitiveEquals_spec (s : St) (t0 t1 : TId) (d1 : Nat) (hI : Inv s) :
    ⦃fun st => ⌜st = s⌝⦄ std_primitiveEquals rec t0 t1 d1 ⦃Q s (fun _ _ => True)⦄ := by
  unfold std_primitiveEquals; bstd

theorem std_assertEqual_spec (s : St) (t0 t1 : TId) (d1 : Nat) (hI : Inv s) :
    ⦃fun st => ⌜st = s⌝⦄ std_assertEqual rec t0 t1 d1 ⦃Q s (fun _ _ => True)⦄ := by
  unfold std_assertEqual; bstd

theorem std_toString_spec (s : St) (t : TId) (d1 : Nat) (hI : Inv s) :
    ⦃fun st => ⌜st = s⌝⦄ std_toString rec t d1 ⦃Q s (fun _ _ => True)⦄ := by
  unfold std_toString; bstd

theorem std_sortKeys_spec (s : St) (kf : Option FId) (items : List TId) (d1 : Nat) (hI : Inv s) :
    ⦃fun st => ⌜st = s⌝⦄ std_sortKeys cfg rec kf items d1 ⦃Q s (fun _ _ => True)⦄ := by
  unfold std_sortKeys; bstd

end

/-! ### Walking over the visible fields of an object -/

/-- object `o` exists and lists every name of `ns` -/
def NamesOk (st : St) (o : OId) (ns : List String) : Prop :=
  ∃ ob, st.objs[o]? = some ob ∧ ∀ n ∈ ns, n ∈ objNames ob

theorem NamesOk.mono {a b : St} {o : OId} {ns : List String} (h : NamesOk a o ns) (hS : S a b) :
    NamesOk b o ns := by
  obtain ⟨ob, h1, h2⟩ := h
  obtain ⟨ob', k1, k2⟩ := hS.objs o ob h1
  exact ⟨ob', k1, by rw [objNames_static k2]; exact h2⟩

theorem NamesOk.tail {st : St} {o : OId} {n : String} {ns : List String} (h : NamesOk st o (n :: ns)) :
    NamesOk st o ns := by
  obtain ⟨ob, h1, h2⟩ := h
  exact ⟨ob, h1, fun m hm => h2 m (List.mem_cons_of_mem _ hm)⟩

theorem NamesOk.visible {st : St} {o : OId} {ob : Obj} (h : st.objs[o]? = some ob) :
    NamesOk st o (visibleFields ob) :=
  ⟨ob, h, fun _ hn => visible_mem_names hn⟩

/-- the field thunk of a listed name is found -/
theorem NamesOk.found {st : St} {o : OId} {n : String} {ns : List String} (h : NamesOk st o (n :: ns))
    {r : Option TId}
    (hr : ∀ ob, st.objs[o]? = some ob → (findField ob 0 n).isSome = true → r.isSome = true) :
    r ≠ none := by
  obtain ⟨ob, h1, h2⟩ := h
  have := hr ob h1 (findField_isSome (h2 n (by simp)))
  intro hn; rw [hn] at this; cases this

theorem NamesOk.nil {st : St} {o : OId} {ns : List String} (h : NamesOk st o ns) : NamesOk st o [] := by
  obtain ⟨ob, h1, _⟩ := h
  exact ⟨ob, h1, by simp⟩

theorem NamesOk.found_false {a st : St} {o : OId} {n : String} {ns : List String} {r : Option TId}
    (hn : ∀ t, r = some t → False)
    (hr : ∀ ob, st.objs[o]? = some ob → (findField ob 0 n).isSome = true → r.isSome = true)
    (h : NamesOk a o (n :: ns)) (hS : S a st) : False := by
  have := NamesOk.found (h.mono hS) hr
  cases r with
  | none => exact this rfl
  | some t => exact hn t rfl

theorem namesOk_pair {st : St} {x y : OId} {rx ry : Obj} (hx : st.objs[x]? = some rx)
    (hy : st.objs[y]? = some ry) (hne : ¬(visibleFields rx != visibleFields ry) = true) :
    NamesOk st x (visibleFields rx) ∧ NamesOk st y (visibleFields rx) := by
  have hxy : visibleFields rx = visibleFields ry := by simpa using hne
  exact ⟨NamesOk.visible hx, hxy ▸ NamesOk.visible hy⟩


/-! ### `std.mapWithKey` -/

/-- `std.mapWithKey` after its arguments have been checked -/
def mapWithKeyObj (rec : Task → M Value) (f : FId) (o : OId) (d1 : Nat) : M Value := do
  let mut fields : List Field := []
  for name in visibleFields (← getObj o) do
    let some ft ← fieldThunk o 0 name | throw (.internal "visible field without thunk")
    let k ← allocThunk (.done (.str name))
    let t ← allocThunk (.pending (.call f [k, ft]))
    fields := fields ++ [{ name, vis := .default, baseEnv := none, expr := none, thunk := some t }]
  let r ← allocObj { layers := [{ isTop := false, locals := [], baseEnv := none, env := none,
                                  fields := fields, asserts := [] }], assertsChecked := true }
  let _ ← rec (.asserts o d1)
  pure (.obj r)

theorem std_mapWithKey_eq (rec : Task → M Value) (t0 t1 : TId) (d1 : Nat) :
    std_mapWithKey rec t0 t1 d1 = (do
      let fv ← rec (.force t0 d1)
      let ov ← rec (.force t1 d1)
      let .func f := fv | throw (.rt "InvalidStdFuncArgType" s!"mapWithKey/0/{typeName fv}")
      let .obj o := ov | throw (.rt "InvalidStdFuncArgType" s!"mapWithKey/1/{typeName ov}")
      mapWithKeyObj rec f o d1) := by
  unfold std_mapWithKey mapWithKeyObj; rfl

/-- the fields of the object made by `std.mapWithKey`: a thunk, no expression -/
def MapFields (fields : List Field) : Prop :=
  ∀ f ∈ fields, f.baseEnv = none ∧ f.expr = none ∧ f.thunk.isSome = true

theorem MapFields.snoc {fields : List Field} (h : MapFields fields) (name : String) (t : TId) :
    MapFields (fields ++ [{ name, vis := .default, baseEnv := none, expr := none, thunk := some t }]) := by
  intro f hf
  rcases List.mem_append.1 hf with h1 | h1
  · exact h f h1
  · simp only [List.mem_singleton] at h1; subst h1; exact ⟨rfl, rfl, rfl⟩

/-- the layer of the object made by `std.mapWithKey` -/
abbrev mapLayer (fields : List Field) : Layer :=
  { isTop := false, locals := [], baseEnv := none, env := none, fields := fields, asserts := [] }

theorem mapLayer_ok {EO : EId → AEnv → Prop} {fields : List Field} (h : MapFields fields) :
    ∀ layer ∈ [mapLayer fields], LayerOk EO layer ∧ LayerShape layer := by
  intro layer hl
  simp only [List.mem_singleton] at hl; subst hl
  constructor
  · unfold LayerOk
    refine ⟨?_, ?_, ?_⟩
    · intro b hb; cases hb
    · intro f hf b hb; rw [(h f hf).1] at hb; cases hb
    · intro e he; cases he
  · refine ⟨?_, ?_, ?_⟩
    · intro f hf _ he; rw [(h f hf).2.1] at he; cases he
    · intro ha; exact absurd rfl ha
    · intro f hf ht; have := (h f hf).2.2; rw [ht] at this; cases this

section
variable {cfg : Cfg} (rec : Task → M Value) (hrec : RecOk rec)
include hrec

theorem mapWithKeyObj_spec (s : St) (f : FId) (o : OId) (d1 : Nat) (hI : Inv s) :
    ⦃fun st => ⌜st = s⌝⦄ mapWithKeyObj rec f o d1 ⦃Q s (fun _ _ => True)⦄ := by
  have g3 := allocThunk_spec
  have g4 := getObj_spec
  have g5 := fieldThunk_spec
  have g8 := allocObj_spec
  have hr := rec_spec rec hrec
  qstart
  unfold mapWithKeyObj
  mvcgen [g3, g4, g5, g8, hr]
  case inv1 =>
    exact ⟨fun (cur, fields) st => ⌜Inv st ∧ S s st ∧ NamesOk st o cur.suffix ∧ MapFields fields⌝,
      fun e st => ⌜(NonPanic e → Inv st) ∧ Good e⌝, fun _ => ⌜True⌝, ()⟩
  all_goals clear g3 g4 g5 g8 hr
  all_goals vcprep
  all_goals first
    | eclose
    | exact ⟨by assumption, by schain, (NamesOk.mono (by assumption) (by schain)).tail,
        MapFields.snoc (by assumption) _ _⟩
    | exact ⟨by assumption, by schain, NamesOk.visible (by assumption), fun _ h => by cases h⟩
    | exact mapLayer_ok (by assumption) _ (by assumption)
    | (exfalso
       exact NamesOk.found_false (by assumption) (by assumption) (by assumption) (by schain))

theorem std_mapWithKey_spec (s : St) (t0 t1 : TId) (d1 : Nat) (hI : Inv s) :
    ⦃fun st => ⌜st = s⌝⦄ std_mapWithKey rec t0 t1 d1 ⦃Q s (fun _ _ => True)⦄ := by
  have g9 := mapWithKeyObj_spec rec hrec
  have hr := rec_spec rec hrec
  qstart
  rw [std_mapWithKey_eq]
  mvcgen [g9, hr]
  all_goals clear g9 hr
  all_goals vcprep
  all_goals eclose

/-! ### `std.sort`, `std.set` -/

theorem std_qsort_spec (keys : List Value) (d1 fuel : Nat) (xs : List Nat) (s : St) (hI : Inv s) :
    ⦃fun st => ⌜st = s⌝⦄ std_qsort rec keys d1 fuel xs ⦃Q s (fun _ _ => True)⦄ := by
  have hr := rec_spec rec hrec
  induction fuel generalizing xs s with
  | zero =>
    qstart
    unfold std_qsort; mvcgen; all_goals vcprep; all_goals eclose
  | succ fuel ih =>
    match xs with
    | [] => qstart; unfold std_qsort; mvcgen; all_goals vcprep; all_goals eclose
    | [x] => qstart; unfold std_qsort; mvcgen; all_goals vcprep; all_goals eclose
    | pivot :: y :: rest =>
      qstart
      unfold std_qsort
      mvcgen [hr, ih]
      on_invs exact loopInv1 s ‹St›
      all_goals clear hr ih
      all_goals vcprep
      all_goals eclose

theorem std_sortSet_spec (s : St) (uniq : Bool) (t0 : TId) (t1 : Option TId) (d1 : Nat) (hI : Inv s) :
    ⦃fun st => ⌜st = s⌝⦄ std_sortSet cfg rec uniq t0 t1 d1 ⦃Q s (fun _ _ => True)⦄ := by
  have g1 := std_sortKeys_spec (cfg := cfg) rec hrec
  have g2 := std_qsort_spec rec hrec
  have hr := rec_spec rec hrec
  qstart
  unfold std_sortSet
  mvcgen [g1, g2, hr]
  on_invs exact loopInv1 s ‹St›
  all_goals clear g1 g2 hr
  all_goals vcprep
  all_goals eclose

theorem builtinCall2_spec (s : St) (b : Builtin) (ts : List TId) (d1 : Nat) (hI : Inv s) :
    ⦃fun st => ⌜st = s⌝⦄ builtinCall2 cfg rec b ts d1 ⦃Q s (fun _ _ => True)⦄ := by
  have k0 := builtinCall_spec rec hrec
  have k1 := std_filter_spec (cfg := cfg) rec hrec
  have k2 := std_foldl_spec (cfg := cfg) rec hrec
  have k3 := std_foldr_spec (cfg := cfg) rec hrec
  have k4 := std_flatMap_spec (cfg := cfg) rec hrec
  have k5 := std_mapWithIndex_spec rec hrec
  have k6 := std_mapWithKey_spec rec hrec
  have k7 := std_filterMap_spec (cfg := cfg) rec hrec
  have k8 := std_join_spec rec hrec
  have k9 := std_range_spec rec hrec
  have k10 := std_member_spec rec hrec
  have k11 := std_count_spec rec hrec
  have k12 := std_all_spec rec hrec
  have k13 := std_any_spec rec hrec
  have k14 := std_equals_spec rec hrec
  have k15 := std_compare_spec rec hrec
  have k16 := std_primitiveEquals_spec rec hrec
  have k17 := std_assertEqual_spec rec hrec
  have k18 := std_toString_spec rec hrec
  have k19 := std_sortSet_spec (cfg := cfg) rec hrec
  qstart
  unfold builtinCall2
  mvcgen [k0, k1, k2, k3, k4, k5, k6, k7, k8, k9, k10, k11, k12, k13, k14, k15, k16, k17, k18, k19]
  all_goals clear k0 k1 k2 k3 k4 k5 k6 k7 k8 k9 k10 k11 k12 k13 k14 k15 k16 k17 k18 k19
  all_goals vcprep
  all_goals eclose

omit hrec in
/-- the error of a pure builtin is not one of the scoping panics -/
theorem Good_toErr (e : PErr) : Good e.toErr := by
  cases e <;> simp [PErr.toErr, Good]

set_option hygiene false in
/-- the closers of the verification conditions of the generic pure builtin -/
macro "pcase" : tactic => `(tactic|
  (all_goals vcprep
   all_goals first
     | eclose
     | exact ⟨fun _ => by assumption, Good_toErr _⟩
     | exact ⟨Good_toErr _, fun _ => by assumption⟩))

theorem allocPrims_spec (s : St) (items : List Prim) (hI : Inv s) :
    ⦃fun st => ⌜st = s⌝⦄ allocPrims items ⦃Q s (fun _ _ => True)⦄ := by
  have g3 := allocThunk_spec
  qstart
  unfold allocPrims
  mvcgen [g3]
  on_invs exact loopInv1 s ‹St›
  all_goals clear g3
  pcase

theorem pureOut_spec (s : St) (o : PureOut) (hI : Inv s) :
    ⦃fun st => ⌜st = s⌝⦄ pureOut o ⦃Q s (fun _ _ => True)⦄ := by
  have g3 := allocPrims_spec rec hrec
  qstart
  unfold pureOut
  mvcgen [g3]
  all_goals clear g3
  pcase

theorem forceAll_spec (s : St) (ts : List TId) (d1 : Nat) (hI : Inv s) :
    ⦃fun st => ⌜st = s⌝⦄ forceAll rec ts d1 ⦃Q s (fun _ _ => True)⦄ := by
  have hr := rec_spec rec hrec
  qstart
  unfold forceAll
  mvcgen [hr]
  on_invs exact loopInv1 s ‹St›
  all_goals clear hr
  pcase

theorem coerceAll_spec (s : St) (vals : List Value) (d1 : Nat) (hI : Inv s) :
    ⦃fun st => ⌜st = s⌝⦄ coerceAll rec vals d1 ⦃Q s (fun _ _ => True)⦄ := by
  have g7 := coerceToString_spec rec hrec
  qstart
  unfold coerceAll
  mvcgen [g7]
  on_invs exact loopInv1 s ‹St›
  all_goals clear g7
  pcase

theorem forceBytes_spec (s : St) (items : List TId) (item : PArg → Except PErr Nat) (d1 : Nat) (hI : Inv s) :
    ⦃fun st => ⌜st = s⌝⦄ forceBytes rec items item d1 ⦃Q s (fun _ _ => True)⦄ := by
  have hr := rec_spec rec hrec
  qstart
  unfold forceBytes
  mvcgen [hr]
  on_invs exact loopInv1 s ‹St›
  all_goals clear hr
  pcase

theorem fmtTakeW_spec (s : St) (spec : Option Format.FW) (items : List TId) (i : Nat) (hI : Inv s) :
    ⦃fun st => ⌜st = s⌝⦄ fmtTakeW spec items i ⦃Q s (fun _ _ => True)⦄ := by
  qstart
  unfold fmtTakeW
  mvcgen
  pcase

theorem fmtForceOpt_spec (s : St) (t : Option TId) (d : Nat) (hI : Inv s) :
    ⦃fun st => ⌜st = s⌝⦄ fmtForceOpt rec t d ⦃Q s (fun _ _ => True)⦄ := by
  have hr := rec_spec rec hrec
  qstart
  unfold fmtForceOpt
  mvcgen [hr]
  all_goals clear hr
  pcase

theorem fmtItem_spec (s : St) (c : Format.Code) (v : Value) (d : Nat) (hI : Inv s) :
    ⦃fun st => ⌜st = s⌝⦄ fmtItem rec c v d ⦃Q s (fun _ _ => True)⦄ := by
  have g7 := coerceToString_spec rec hrec
  qstart
  unfold fmtItem
  mvcgen [g7]
  all_goals clear g7
  pcase

theorem fmtArrayCode_spec (s : St) (c : Format.Code) (items : List TId) (i d : Nat) (hI : Inv s) :
    ⦃fun st => ⌜st = s⌝⦄ fmtArrayCode rec c items i d ⦃Q s (fun _ _ => True)⦄ := by
  have hr := rec_spec rec hrec
  have g0 := fmtTakeW_spec rec hrec
  have g1 := fmtForceOpt_spec rec hrec
  have g2 := fmtItem_spec rec hrec
  qstart
  unfold fmtArrayCode
  mvcgen [hr, g0, g1, g2]
  all_goals clear hr g0 g1 g2
  pcase

theorem fmtArrayPart_spec (s : St) (p : Format.Part) (items : List TId) (i : Nat) (out : List Char) (d : Nat) (hI : Inv s) :
    ⦃fun st => ⌜st = s⌝⦄ fmtArrayPart rec p items i out d ⦃Q s (fun _ _ => True)⦄ := by
  have g := fmtArrayCode_spec rec hrec
  qstart
  cases p <;> (unfold fmtArrayPart; mvcgen [g]; all_goals (try clear g); pcase)

theorem fmtArray_spec (s : St) (parts : List Format.Part) (items : List TId) (d : Nat) (hI : Inv s) :
    ⦃fun st => ⌜st = s⌝⦄ fmtArray rec parts items d ⦃Q s (fun _ _ => True)⦄ := by
  have g := fmtArrayPart_spec rec hrec
  qstart
  unfold fmtArray
  mvcgen [g]
  on_invs exact loopInv1 s ‹St›
  all_goals clear g
  pcase

theorem fmtObjectCode_spec (s : St) (c : Format.Code) (o : OId) (d : Nat) (hI : Inv s) :
    ⦃fun st => ⌜st = s⌝⦄ fmtObjectCode rec c o d ⦃Q s (fun _ _ => True)⦄ := by
  have hr := rec_spec rec hrec
  have g2 := fmtItem_spec rec hrec
  have g5 := fieldThunk_spec
  qstart
  unfold fmtObjectCode
  mvcgen [hr, g2, g5]
  all_goals clear hr g2 g5
  pcase

theorem fmtObjectPart_spec (s : St) (p : Format.Part) (o : OId) (out : List Char) (d : Nat) (hI : Inv s) :
    ⦃fun st => ⌜st = s⌝⦄ fmtObjectPart rec p o out d ⦃Q s (fun _ _ => True)⦄ := by
  have g := fmtObjectCode_spec rec hrec
  qstart
  cases p <;> (unfold fmtObjectPart; mvcgen [g]; all_goals (try clear g); pcase)

theorem fmtObject_spec (s : St) (parts : List Format.Part) (o : OId) (d : Nat) (hI : Inv s) :
    ⦃fun st => ⌜st = s⌝⦄ fmtObject rec parts o d ⦃Q s (fun _ _ => True)⦄ := by
  have g := fmtObjectPart_spec rec hrec
  qstart
  unfold fmtObject
  mvcgen [g]
  on_invs exact loopInv1 s ‹St›
  all_goals clear g
  pcase

theorem pureFinish_spec (s : St) (spec : PureSpec) (vals : List Value) (d1 : Nat) (hI : Inv s) :
    ⦃fun st => ⌜st = s⌝⦄ pureFinish rec spec vals d1 ⦃Q s (fun _ _ => True)⦄ := by
  have g3 := forceBytes_spec rec hrec
  have g4 := pureOut_spec rec hrec
  have g5 := fmtArray_spec rec hrec
  have g6 := fmtObject_spec rec hrec
  have g7 := allocThunk_spec
  qstart
  unfold pureFinish
  mvcgen [g3, g4, g5, g6, g7]
  all_goals clear g3 g4 g5 g6 g7
  pcase

theorem binaryOp3_spec (s : St) (op : BinOp) (l r : Value) (d : Nat) (hs : Bool) (hI : Inv s) :
    ⦃fun st => ⌜st = s⌝⦄ binaryOp3 cfg rec op l r d hs ⦃Q s (fun _ _ => True)⦄ := by
  have g0 := binaryOp_spec cfg rec hrec
  have g1 := pureFinish_spec rec hrec
  have g2 := checkDepth_spec
  qstart
  unfold binaryOp3
  mvcgen [g0, g1, g2]
  all_goals clear g0 g1 g2
  pcase

/-- the generic pure builtin keeps the store well scoped: it forces thunks and allocates finished ones -/
theorem std_pure_spec (s : St) (spec : PureSpec) (ts : List TId) (d1 : Nat) (hI : Inv s) :
    ⦃fun st => ⌜st = s⌝⦄ std_pure rec spec ts d1 ⦃Q s (fun _ _ => True)⦄ := by
  have g1 := forceAll_spec rec hrec
  have g2 := coerceAll_spec rec hrec
  have g3 := pureFinish_spec rec hrec
  qstart
  unfold std_pure
  mvcgen [g1, g2, g3]
  all_goals clear g1 g2 g3
  pcase

theorem builtinCall3_spec (s : St) (b : Builtin) (ts : List TId) (d1 : Nat) (hI : Inv s) :
    ⦃fun st => ⌜st = s⌝⦄ builtinCall3 cfg rec b ts d1 ⦃Q s (fun _ _ => True)⦄ := by
  have k0 := builtinCall2_spec (cfg := cfg) rec hrec
  have k1 := std_pure_spec rec hrec
  qstart
  unfold builtinCall3
  mvcgen [k0, k1]
  all_goals clear k0 k1
  pcase

end
end Rsj.Eval.Scope
