/-
  Acceptance direction for text blocks: `lex_text_block` only succeeds on
  `|||` [`-`] ws* LF line* ws* `|||` with every line empty (`""` / CR) or
  starting with the first line's space/tab prefix, and the token's text is the
  lossy decoding of the lines without that prefix (inversion of `tbFirst`,
  `tbEmptyLines`, `tbLoop`).
-/
import RsjProofs.LexerTextBlock
import RsjProofs.LexerNoPanic
import RsjProofs.LexerSuffix
import RsjProofs.LexerAcceptKinds
import RsjProofs.LexerAcceptEsc
import RsjProofs.LexerAcceptDec
set_option linter.unusedSimpArgs false
namespace Rsj.Lexer
open Rsj.Utf8

/-- The bytes of a list of lines, each followed by LF. -/
abbrev joinLF (lines : List (List Nat)) : List Nat := lines.flatMap (fun l => l ++ [10])

/-- The text the lines denote before decoding: every line without the prefix. -/
abbrev stripFlat (pfx : List Nat) (lines : List (List Nat)) : List Nat :=
  lines.flatMap (fun l => (if pfx <+: l then l.drop pfx.length else l) ++ [10])

def IsEmptyLine (e : List Nat) : Prop := e = [] ∨ e = [13]

theorem joinLF_ascii {emp : List (List Nat)} (h : ∀ e ∈ emp, IsEmptyLine e) :
    ∀ b ∈ joinLF emp, b < 128 := by
  intro b hb
  simp only [joinLF, List.mem_flatMap, List.mem_append, List.mem_cons, List.mem_nil_iff, or_false] at hb
  obtain ⟨e, he, hb | rfl⟩ := hb
  · rcases h e he with rfl | rfl
    · simp at hb
    · simp at hb; omega
  · omega

theorem stripFlat_empty {pfx : List Nat} (hpne : pfx ≠ []) (hpfx : ∀ b ∈ pfx, isSpTab b = true)
    {emp : List (List Nat)} (h : ∀ e ∈ emp, IsEmptyLine e) : stripFlat pfx emp = joinLF emp := by
  induction emp with
  | nil => rfl
  | cons e rest ih =>
    have hrest := ih (fun e he => h e (List.mem_cons_of_mem _ he))
    simp only [stripFlat, joinLF, List.flatMap_cons] at hrest ⊢
    rw [hrest]
    congr 2
    obtain ⟨y, pr, rfl⟩ : ∃ y pr, pfx = y :: pr := by
      cases pfx with
      | nil => exact absurd rfl hpne
      | cons y pr => exact ⟨y, pr, rfl⟩
    have hy := isSpTab_ne (hpfx y (by simp))
    rcases h e (by simp) with rfl | rfl
    · simp
    · rw [if_neg]
      intro hp
      rcases hp with ⟨s, hs⟩
      simp at hs
      omega

/-- Inversion of the "fully empty lines" loop. -/
theorem tbEmptyLines_inv (pos : Nat) (rest str : List Nat) :
    ∃ emp : List (List Nat), (∀ e ∈ emp, IsEmptyLine e) ∧
      rest = joinLF emp ++ (tbEmptyLines pos rest str).1.rest ∧
      (tbEmptyLines pos rest str).2 = (joinLF emp).reverse ++ str := by
  fun_induction tbEmptyLines pos rest str with
  | case1 => exact ⟨[], by simp, by simp, by simp⟩
  | case2 pos t str ih =>
    obtain ⟨emp, h1, h2, h3⟩ := ih
    refine ⟨[] :: emp, ?_, ?_, ?_⟩
    · intro e he
      rcases List.mem_cons.mp he with rfl | he
      · exact Or.inl rfl
      · exact h1 e he
    · simp only [joinLF, List.flatMap_cons, List.nil_append, List.cons_append] at h2 ⊢
      rw [← h2]
    · rw [h3]; simp [joinLF]
  | case3 pos str t' h ih =>
    obtain ⟨emp, h1, h2, h3⟩ := ih
    refine ⟨[13] :: emp, ?_, ?_, ?_⟩
    · intro e he
      rcases List.mem_cons.mp he with rfl | he
      · exact Or.inr rfl
      · exact h1 e he
    · simp only [joinLF, List.flatMap_cons, List.nil_append, List.cons_append] at h2 ⊢
      rw [← h2]
    · rw [h3]; simp [joinLF]
  | case4 => exact ⟨[], by simp, by simp, by simp⟩

theorem eatWhile_inv (p : Nat) (r : List Nat) (q : Nat → Bool) :
    ∃ pre, r = pre ++ (Cur.eatWhile ⟨p, r⟩ q).rest ∧ (Cur.eatWhile ⟨p, r⟩ q).pos = p + pre.length ∧
      ∀ b ∈ pre, q b = true :=
  eatWhileAux_split q p r

theorem not_mem_sptab {l : List Nat} (h : ∀ b ∈ l, isSpTab b = true) : 10 ∉ l := by
  intro hm
  have := h 10 hm
  simp [isSpTab] at this

/-- **Acceptance, text block lines.** Whenever the `'outer` loop of
    `lex_text_block` returns a token, what it consumed is: the rest of the
    current line, LF, then lines that are empty (`""` / CR) or start with the
    prefix, then the terminator `ws* |||`; the token's text is what was built
    so far followed by the decoded lines without their prefix. -/
theorem tbLoop_inv (start : Nat) (pfx : List Nat) (strip : Bool) (hpne : pfx ≠ [])
    (hpfx : ∀ b ∈ pfx, isSpTab b = true) :
    ∀ (f p : Nat) (r str out : List Nat) (c' : Cur),
      tbLoop start pfx strip f ⟨p, r⟩ str = .tok (.textBlock out) c' →
      ∃ (content : List Nat) (lines : List (List Nat)) (term o : List Nat),
        r = content ++ 10 :: (joinLF lines ++ term ++ 124 :: 124 :: 124 :: c'.rest) ∧
        10 ∉ content ∧ (∀ l ∈ lines, 10 ∉ l ∧ (l = [] ∨ l = [13] ∨ pfx <+: l)) ∧
        (∀ b ∈ term, isSpTab b = true) ∧
        Dec (content ++ 10 :: stripFlat pfx lines) o ∧ out = finishTb strip (str.reverse ++ o) := by
  intro f
  induction f with
  | zero => intro p r str out c' h; simp [tbLoop] at h
  | succ f ih =>
    intro p r str out c' h
    unfold tbLoop at h
    split at h
    · next c1 he =>
      obtain ⟨u, rfl, rfl⟩ := eatByte_inv he
      obtain ⟨emp, hemp, hu, hs2⟩ := tbEmptyLines_inv (p + 1) u (10 :: str)
      obtain ⟨s2, hhead⟩ := tbEmptyLines_head (p + 1) u (10 :: str) ⟨_, rfl⟩
      simp only at h
      generalize tbEmptyLines (p + 1) u (10 :: str) = m at h hu hs2 hhead
      obtain ⟨⟨p2, r2⟩, str2⟩ := m
      simp only at h hu hs2 hhead
      have hasc := joinLF_ascii hemp
      have hempl : ∀ l ∈ emp, 10 ∉ l ∧ (l = [] ∨ l = [13] ∨ pfx <+: l) := by
        intro l hl
        rcases hemp l hl with rfl | rfl
        · exact ⟨by simp, Or.inl rfl⟩
        · exact ⟨by simp, Or.inr (Or.inl rfl)⟩
      split at h
      · next c3 hsl =>
        obtain ⟨t3, rfl, rfl⟩ := eatSlice_inv hsl
        obtain ⟨content', lines', term, o', hr, hc, hl, ht, hdec, hout⟩ := ih _ _ _ _ _ h
        refine ⟨[], emp ++ (pfx ++ content') :: lines', term, 10 :: (joinLF emp ++ o'), ?_, by simp, ?_, ht,
          ?_, ?_⟩
        · rw [hu, hr]
          simp [joinLF]
        · intro l hl'
          rcases List.mem_append.mp hl' with hl' | hl'
          · exact hempl l hl'
          · rcases List.mem_cons.mp hl' with rfl | hl'
            · refine ⟨?_, Or.inr (Or.inr (List.prefix_append _ _))⟩
              intro hm
              rcases List.mem_append.mp hm with hm | hm
              · exact not_mem_sptab hpfx hm
              · exact hc hm
            · exact hl l hl'
        · have e : stripFlat pfx (emp ++ (pfx ++ content') :: lines') =
              joinLF emp ++ (content' ++ 10 :: stripFlat pfx lines') := by
            have := stripFlat_empty hpne hpfx hemp
            simp only [stripFlat, joinLF, List.flatMap_append, List.flatMap_cons] at this ⊢
            rw [this]
            simp [List.prefix_append]
          rw [e, List.nil_append]
          exact Dec.cons_ascii (by omega) (Dec.ascii_append hasc hdec)
        · rw [hout, hs2]
          simp
      · next hnsl =>
        obtain ⟨term, hterm, _, htws⟩ := eatWhile_inv p2 r2 isSpTab
        generalize Cur.eatWhile ⟨p2, r2⟩ isSpTab = c3 at h hterm
        obtain ⟨p3, r3⟩ := c3
        split at h
        · next c4 hbar =>
          obtain ⟨t4, rfl, rfl⟩ := eatSlice_inv hbar
          have hfin : out = finishTb strip (str.reverse ++ 10 :: joinLF emp) ∧ c' = ⟨p3 + 3, t4⟩ := by
            cases strip with
            | false =>
              simp only [Bool.false_eq_true, if_false, Res.tok.injEq, Kind.textBlock.injEq] at h
              obtain ⟨rfl, rfl⟩ := h
              refine ⟨?_, rfl⟩
              rw [hs2]; simp [finishTb]
            | true =>
              subst hhead
              simp only [if_true, Res.tok.injEq, Kind.textBlock.injEq] at h
              obtain ⟨rfl, rfl⟩ := h
              refine ⟨?_, rfl⟩
              have : str.reverse ++ 10 :: joinLF emp = s2.reverse ++ [10] := by
                have := congrArg List.reverse hs2
                simpa using this.symm
              simp only [finishTb, if_true]
              rw [this, List.dropLast_concat]
          obtain ⟨rfl, rfl⟩ := hfin
          refine ⟨[], emp, term, 10 :: joinLF emp, ?_, by simp, hempl, htws, ?_, rfl⟩
          · rw [hu, hterm]
            simp
          · rw [stripFlat_empty hpne hpfx hemp, List.nil_append]
            have := Dec.ascii_append (a := 10 :: joinLF emp) (t := []) (o := []) ?_ Dec.nil
            · simpa using this
            · intro b hb
              rcases List.mem_cons.mp hb with rfl | hb
              · omega
              · exact hasc b hb
        · cases h
    next hn10 =>
    split at h
    · cases h
    · cases h
    next cr c1 hea =>
    obtain ⟨b, t, n, rfl, hone, rfl⟩ := eatAnyChar_dec hea
    have hb10 : b ≠ 10 := by
      intro hb; subst hb; simp [Cur.eatByte] at hn10
    obtain ⟨content', lines', term, o', hr, hc, hl, ht, hdec, hout⟩ := ih _ _ _ _ _ h
    refine ⟨b :: (t.take n ++ content'), lines', term, cr.orRepl :: o', ?_, ?_, hl, ht, ?_, ?_⟩
    · conv => lhs; rw [← List.take_append_drop n t, hr]
      simp
    · intro hm
      rcases List.mem_cons.mp hm with hm | hm
      · exact hb10 hm.symm
      · rcases List.mem_append.mp hm with hm | hm
        · have := hone.take_ge 10 hm; omega
        · exact hc hm
    · exact Dec.step_line hone (by omega) hr hdec
    · rw [hout]; simp

theorem eatByteB_inv (p : Nat) (r : List Nat) (b : Nat) :
    ∃ crb, ((crb = [] ∧ (Cur.eatByteB ⟨p, r⟩ b).1 = false) ∨ (crb = [b] ∧ (Cur.eatByteB ⟨p, r⟩ b).1 = true)) ∧
      r = crb ++ (Cur.eatByteB ⟨p, r⟩ b).2.rest := by
  unfold Cur.eatByteB
  split
  · next c1 he =>
    obtain ⟨u, rfl, rfl⟩ := eatByte_inv he
    exact ⟨[b], Or.inr ⟨rfl, rfl⟩, rfl⟩
  · exact ⟨[], Or.inl ⟨rfl, rfl⟩, rfl⟩

/-- **Acceptance, first loop of a text block**: fully empty lines (`""` / CR),
    then the non-empty space/tab prefix of the first text line and an optional CR. -/
theorem tbFirst_inv :
    ∀ (f p : Nat) (r str pfx : List Nat) (c4 : Cur) (str4 : List Nat),
      tbFirst f ⟨p, r⟩ str = .found pfx c4 str4 →
      ∃ (emp : List (List Nat)) (crb : List Nat), (∀ e ∈ emp, IsEmptyLine e) ∧ (crb = [] ∨ crb = [13]) ∧
        r = joinLF emp ++ (pfx ++ (crb ++ c4.rest)) ∧ str4 = (joinLF emp ++ crb).reverse ++ str ∧
        pfx ≠ [] ∧ ∀ b ∈ pfx, isSpTab b = true := by
  intro f
  induction f with
  | zero => intro p r str pfx c4 str4 h; simp [tbFirst] at h
  | succ f ih =>
    intro p r str pfx c4 str4 h
    unfold tbFirst at h
    simp only at h
    obtain ⟨pre, hpre, hpos, hsp⟩ := eatWhile_inv p r isSpTab
    generalize Cur.eatWhile ⟨p, r⟩ isSpTab = c1 at h hpre hpos
    obtain ⟨p1, r1⟩ := c1
    simp only at hpre hpos
    have htake : r.take (p1 - p) = pre := by
      rw [hpos, hpre, Nat.add_sub_cancel_left, List.take_left']
      rfl
    rw [htake] at h
    obtain ⟨crb, hcrb, hr1⟩ := eatByteB_inv p1 r1 13
    generalize Cur.eatByteB ⟨p1, r1⟩ 13 = m at h hcrb hr1
    obtain ⟨flag, ⟨p2, r2⟩⟩ := m
    simp only at h hcrb hr1
    have hstr : (if flag = true then 13 :: str else str) = crb.reverse ++ str := by
      rcases hcrb with ⟨rfl, rfl⟩ | ⟨rfl, rfl⟩ <;> simp
    have hcrb' : crb = [] ∨ crb = [13] := by
      rcases hcrb with ⟨rfl, _⟩ | ⟨rfl, _⟩ <;> simp
    rw [hstr] at h
    split at h
    · next hemp =>
      have hpre0 : pre = [] := by simpa using hemp
      split at h
      · next c3 he =>
        obtain ⟨u, rfl, rfl⟩ := eatByte_inv he
        obtain ⟨emp, crb2, h1, h2, h3, h4, h5, h6⟩ := ih _ _ _ _ _ _ h
        refine ⟨crb :: emp, crb2, ?_, h2, ?_, ?_, h5, h6⟩
        · intro e he'
          rcases List.mem_cons.mp he' with rfl | he'
          · exact hcrb'
          · exact h1 e he'
        · rw [hpre, hpre0, hr1, h3]
          simp [joinLF]
        · rw [h4]
          simp [joinLF]
      · cases h
    · next hne =>
      simp only [TbFirst.found.injEq] at h
      obtain ⟨rfl, rfl, rfl⟩ := h
      refine ⟨[], crb, by simp, hcrb', ?_, by simp, ?_, hsp⟩
      · rw [hpre, hr1]; simp
      · intro h0; subst h0; simp at hne

/-- **Acceptance, whole text block** (`c` is the cursor after `|||`). -/
theorem lexTextBlock_inv {start : Cur} {p : Nat} {r out : List Nat} {c' : Cur}
    (h : lexTextBlock start ⟨p, r⟩ = .tok (.textBlock out) c') :
    ∃ (strip : Bool) (hdr pfx : List Nat) (lines : List (List Nat)) (term o : List Nat),
      r = (if strip then [45] else []) ++ hdr ++ 10 ::
        (joinLF lines ++ term ++ 124 :: 124 :: 124 :: c'.rest) ∧
      (∀ b ∈ hdr, isSpTabCr b = true) ∧ (∀ b ∈ term, isSpTab b = true) ∧
      pfx ≠ [] ∧ (∀ b ∈ pfx, isSpTab b = true) ∧
      (∀ l ∈ lines, 10 ∉ l ∧ (l = [] ∨ l = [13] ∨ pfx <+: l)) ∧
      Dec (stripFlat pfx lines) o ∧ out = finishTb strip o := by
  unfold lexTextBlock at h
  simp only at h
  obtain ⟨dash, hdash, hr0⟩ := eatByteB_inv p r 45
  generalize Cur.eatByteB ⟨p, r⟩ 45 = m at h hdash hr0
  obtain ⟨strip, ⟨p1, r1⟩⟩ := m
  simp only at h hdash hr0
  have hdash' : dash = if strip = true then [45] else [] := by
    rcases hdash with ⟨rfl, rfl⟩ | ⟨rfl, rfl⟩ <;> simp
  obtain ⟨hdr, hhdr, _, hhdrws⟩ := eatWhile_inv p1 r1 isSpTabCr
  generalize Cur.eatWhile ⟨p1, r1⟩ isSpTabCr = c2 at h hhdr
  obtain ⟨p2, r2⟩ := c2
  simp only at hhdr
  split at h
  · cases h
  next c3 he =>
  obtain ⟨u, rfl, rfl⟩ := eatByte_inv he
  simp only at h
  split at h
  · cases h
  · cases h
  next pfx c4 str4 hfirst =>
  obtain ⟨emp, crb, hemp, hcrb, hu, hstr4, hpne, hpfx⟩ := tbFirst_inv _ _ _ _ _ _ _ hfirst
  obtain ⟨p4, r4⟩ := c4
  simp only at hu
  obtain ⟨content, lines', term, o, hr4, hc, hl, ht, hdec, hout⟩ :=
    tbLoop_inv start.pos pfx strip hpne hpfx _ _ _ _ _ _ h
  have hasc := joinLF_ascii hemp
  have hcrbasc : ∀ b ∈ crb, b < 128 := by
    rcases hcrb with rfl | rfl <;> simp
  refine ⟨strip, hdr, pfx, emp ++ (pfx ++ (crb ++ content)) :: lines', term, joinLF emp ++ (crb ++ o), ?_,
    hhdrws, ht, hpne, hpfx, ?_, ?_, ?_⟩
  · rw [hr0, hhdr, hu, hr4, hdash']
    simp [joinLF]
  · intro l hl'
    rcases List.mem_append.mp hl' with hl' | hl'
    · rcases hemp l hl' with rfl | rfl
      · exact ⟨by simp, Or.inl rfl⟩
      · exact ⟨by simp, Or.inr (Or.inl rfl)⟩
    · rcases List.mem_cons.mp hl' with rfl | hl'
      · refine ⟨?_, Or.inr (Or.inr (List.prefix_append _ _))⟩
        intro hm
        rcases List.mem_append.mp hm with hm | hm
        · exact not_mem_sptab hpfx hm
        · rcases List.mem_append.mp hm with hm | hm
          · have := hcrbasc 10 hm
            rcases hcrb with rfl | rfl <;> simp at hm
          · exact hc hm
      · exact hl l hl'
  · have e : stripFlat pfx (emp ++ (pfx ++ (crb ++ content)) :: lines') =
        joinLF emp ++ (crb ++ (content ++ 10 :: stripFlat pfx lines')) := by
      have := stripFlat_empty hpne hpfx hemp
      simp only [stripFlat, joinLF, List.flatMap_append, List.flatMap_cons] at this ⊢
      rw [this]
      simp [List.prefix_append]
    rw [e]
    exact Dec.ascii_append hasc (Dec.ascii_append hcrbasc hdec)
  · rw [hout, hstr4]
    simp

theorem mem_stripFlat {pfx : List Nat} {lines : List (List Nat)} {b : Nat}
    (h : b ∈ stripFlat pfx lines) : b ∈ joinLF lines := by
  simp only [stripFlat, joinLF, List.mem_flatMap, List.mem_append, List.mem_cons, List.mem_nil_iff,
    or_false] at h ⊢
  obtain ⟨l, hl, hb | rfl⟩ := h
  · refine ⟨l, hl, Or.inl ?_⟩
    split at hb
    · exact List.mem_of_mem_drop hb
    · exact hb
  · exact ⟨l, hl, Or.inr rfl⟩

/-- **Text block tokens, token-driven direction.** On byte input, every
    `TextBlock` token `next_token` returns spans
    `|||` [`-`] ws* LF line* ws* `|||` where every line is empty (`""` or a lone
    CR) or starts with the non-empty space/tab prefix `pfx`, and the token's
    text is the lossy decoding of the lines without that prefix (LF kept, so CR
    LF line ends keep their CR), minus the final LF for `|||-`. -/
theorem nextToken_textBlock_value {c c' : Cur} {out : List Nat} (hb : IsBytes c.rest)
    (h : nextToken c = .tok (.textBlock out) c') :
    ∃ (strip : Bool) (hdr pfx : List Nat) (lines : List (List Nat)) (term : List Nat),
      c.rest.take (c'.pos - c.pos) =
        124 :: 124 :: 124 :: ((if strip then [45] else []) ++ hdr ++ 10 ::
          (lines.flatMap (fun l => l ++ [10]) ++ term ++ [124, 124, 124])) ∧
      (∀ b ∈ hdr, isSpTabCr b = true) ∧ (∀ b ∈ term, isSpTab b = true) ∧
      pfx ≠ [] ∧ (∀ b ∈ pfx, isSpTab b = true) ∧
      (∀ l ∈ lines, 10 ∉ l ∧ (l = [] ∨ l = [13] ∨ pfx <+: l)) ∧
      ∃ full, Lossy (lines.flatMap (fun l => (if pfx <+: l then l.drop pfx.length else l) ++ [10])) full ∧
        out = finishTb strip full := by
  have hsuf := nextToken_suf c
  rw [h] at hsuf
  obtain ⟨_, hdrop⟩ := hsuf
  obtain ⟨t, hr, hq⟩ := nextToken_textBlock_inv h
  obtain ⟨strip, hdr, pfx, lines, term, o, ht, h1, h2, h3, h4, h5, hdec, hout⟩ := lexTextBlock_inv hq
  refine ⟨strip, hdr, pfx, lines, term, ?_, h1, h2, h3, h4, h5, o, ?_, hout⟩
  · have hsplit := List.take_append_drop (c'.pos - c.pos) c.rest
    rw [← hdrop] at hsplit
    have hall : c.rest = (124 :: 124 :: 124 :: ((if strip then [45] else []) ++ hdr ++ 10 ::
        (lines.flatMap (fun l => l ++ [10]) ++ term ++ [124, 124, 124]))) ++ c'.rest := by
      rw [hr, ht]; simp
    exact List.append_cancel_right (hsplit.trans hall)
  · apply hdec.toLossy
    intro b hbm
    have hj := mem_stripFlat hbm
    apply hb
    rw [hr, ht]
    simp only [List.mem_cons, List.mem_append]
    right; right; right; right; right; left; left
    exact hj

/-! ### Why the byte hypothesis is needed -/

/-- Every character of a lossy decoding other than U+FFFD has its whole
    encoding among the decoded bytes. -/
theorem _root_.Rsj.Utf8.Lossy.enc_mem {bs full : List Nat} (h : Lossy bs full) {v : Nat} (hv : v ∈ full)
    (hne : v ≠ 0xFFFD) : ∀ b ∈ enc v, b ∈ bs := by
  induction h with
  | nil => cases hv
  | @step bs n r out hnil hstep _ ih =>
    rcases List.mem_cons.mp hv with hv | hv
    · cases hstep with
      | scalar c hs =>
        simp only [Option.getD_some] at hv
        subst hv
        intro b hb
        exact hs.2.subset hb
      | replace n _ _ => simp only [Option.getD_none] at hv; exact absurd hv hne
    · intro b hb
      exact List.mem_of_mem_drop (ih hv b hb)

/-- A text block whose line contains the non-byte `384` after the lead byte
    `0xC2`: the model takes `384` for a continuation byte and decodes U+0080,
    which no lossy decoding of these "bytes" contains. -/
theorem textblock_token_nonbyte :
    nextToken ⟨0, [124, 124, 124, 10, 32, 0xC2, 384, 10, 124, 124, 124]⟩ =
      .tok (.textBlock [128, 10]) ⟨11, []⟩ ∧
    ¬ ∃ (strip : Bool) (hdr pfx : List Nat) (lines : List (List Nat)) (term : List Nat),
      ([124, 124, 124, 10, 32, 0xC2, 384, 10, 124, 124, 124] : List Nat).take (11 - 0) =
        124 :: 124 :: 124 :: ((if strip then [45] else []) ++ hdr ++ 10 ::
          (lines.flatMap (fun l => l ++ [10]) ++ term ++ [124, 124, 124])) ∧
      (∀ b ∈ hdr, isSpTabCr b = true) ∧ (∀ b ∈ term, isSpTab b = true) ∧
      pfx ≠ [] ∧ (∀ b ∈ pfx, isSpTab b = true) ∧
      (∀ l ∈ lines, 10 ∉ l ∧ (l = [] ∨ l = [13] ∨ pfx <+: l)) ∧
      ∃ full, Lossy (lines.flatMap (fun l => (if pfx <+: l then l.drop pfx.length else l) ++ [10])) full ∧
        [128, 10] = finishTb strip full := by
  refine ⟨by decide +kernel, ?_⟩
  rintro ⟨strip, hdr, pfx, lines, term, hspan, _, _, _, _, _, full, hl, hout⟩
  have hv : 128 ∈ full := by
    unfold finishTb at hout
    split at hout
    · exact List.dropLast_subset full (by rw [← hout]; simp)
    · rw [← hout]; simp
  have h80 := hl.enc_mem hv (by decide) 0x80 (by decide)
  have hj := mem_stripFlat h80
  have : 0x80 ∈ ([124, 124, 124, 10, 32, 0xC2, 384, 10, 124, 124, 124] : List Nat).take (11 - 0) := by
    rw [hspan]
    simp only [List.mem_cons, List.mem_append]
    right; right; right; right; right; left; left
    exact hj
  revert this
  decide

end Rsj.Lexer
