/-
  Helper lemmas for `do_std_find_substr` (property C18): the byte-offset /
  character-index bookkeeping of the literal loop computes exactly the list of
  all character positions at which the pattern occurs.
-/
import RsjProofs.StrSlice
namespace Rsj.Str

/-- Reference: all positions (offset by `k`) at which `p` is a prefix of the rest. -/
def matchesFrom (p : Str) : Str → Nat → List Nat
  | [], _ => []
  | c :: cs, k =>
    if p.isPrefixOf (c :: cs) then k :: matchesFrom p cs (k + 1) else matchesFrom p cs (k + 1)

theorem matchesFrom_cons (p : Str) (c : Nat) (cs : Str) (k : Nat) :
    matchesFrom p (c :: cs) k =
      if p.isPrefixOf (c :: cs) then k :: matchesFrom p cs (k + 1) else matchesFrom p cs (k + 1) := rfl

theorem mem_matchesFrom (p : Str) (s : Str) : ∀ (k i : Nat),
    i ∈ matchesFrom p s k ↔ ∃ j, i = k + j ∧ j < s.length ∧ p.isPrefixOf (s.drop j) = true := by
  induction s with
  | nil => intro k i; simp [matchesFrom]
  | cons c cs ih =>
    intro k i
    unfold matchesFrom
    constructor
    · intro h
      split at h
      · next hp =>
        rcases List.mem_cons.mp h with rfl | h'
        · exact ⟨0, rfl, by simp, by simpa using hp⟩
        · obtain ⟨j, rfl, hj, hpj⟩ := (ih (k + 1) i).mp h'
          exact ⟨j + 1, by omega, by simp; omega, by simpa using hpj⟩
      · obtain ⟨j, rfl, hj, hpj⟩ := (ih (k + 1) i).mp h
        exact ⟨j + 1, by omega, by simp; omega, by simpa using hpj⟩
    · rintro ⟨j, rfl, hj, hpj⟩
      cases j with
      | zero =>
        have hp : p.isPrefixOf (c :: cs) = true := by simpa using hpj
        rw [if_pos hp]; simp
      | succ j =>
        have hmem : k + (j + 1) ∈ matchesFrom p cs (k + 1) :=
          (ih (k + 1) (k + (j + 1))).mpr ⟨j, by omega, by simpa using hj, by simpa using hpj⟩
        split
        · exact List.mem_cons_of_mem _ hmem
        · exact hmem

theorem matchesFrom_ge (p s : Str) (k i : Nat) (h : i ∈ matchesFrom p s k) : k ≤ i := by
  obtain ⟨j, rfl, _, _⟩ := (mem_matchesFrom p s k i).mp h
  omega

theorem matchesFrom_pairwise (p : Str) (s : Str) : ∀ k, (matchesFrom p s k).Pairwise (· < ·) := by
  induction s with
  | nil => intro k; simp [matchesFrom]
  | cons c cs ih =>
    intro k
    unfold matchesFrom
    split
    · refine List.Pairwise.cons ?_ (ih (k + 1))
      intro a ha
      have := matchesFrom_ge p cs (k + 1) a ha
      omega
    · exact ih (k + 1)

/-- No occurrence inside the first `pre.length` positions: they can be skipped. -/
theorem matchesFrom_skip (p : Str) (pre post : Str) : ∀ k,
    (∀ j, j < pre.length → p.isPrefixOf ((pre ++ post).drop j) = false) →
    matchesFrom p (pre ++ post) k = matchesFrom p post (k + pre.length) := by
  induction pre with
  | nil => intro k _; simp
  | cons c cs ih =>
    intro k h
    have h0 := h 0 (by simp)
    simp only [List.drop_zero] at h0
    simp only [List.cons_append] at h0 ⊢
    rw [matchesFrom_cons, if_neg (by simp [h0])]
    rw [ih (k + 1)]
    · have : k + 1 + cs.length = k + (cs.length + 1) := by omega
      simp only [List.length_cons, this]
    · intro j hj
      have := h (j + 1) (by simp; omega)
      simpa using this

/-- Contract of `str::find` as modelled: the byte offset returned is the byte length of
    the text before the leftmost occurrence. -/
theorem find_some (p : Str) (s : Str) : ∀ i, find p s = some i →
    ∃ pre post, s = pre ++ post ∧ i = byteLen pre ∧ p.isPrefixOf post = true ∧
      ∀ j, j < pre.length → p.isPrefixOf ((pre ++ post).drop j) = false := by
  induction s with
  | nil =>
    intro i h
    unfold find at h
    split at h
    · next hp => cases h; exact ⟨[], [], rfl, rfl, hp, by simp⟩
    · cases h
  | cons c cs ih =>
    intro i h
    unfold find at h
    split at h
    · next hp => cases h; exact ⟨[], c :: cs, rfl, rfl, hp, by simp⟩
    · next hp =>
      cases hf : find p cs with
      | none => rw [hf] at h; cases h
      | some i' =>
        rw [hf] at h
        simp only [Option.map_some, Option.some.injEq] at h
        obtain ⟨pre, post, hs, hi, hpp, hno⟩ := ih i' hf
        refine ⟨c :: pre, post, by rw [hs]; rfl, by rw [← h, hi]; simp [byteLen]; omega, hpp, ?_⟩
        intro j hj
        cases j with
        | zero =>
          simp only [List.drop_zero, List.cons_append, ← hs]
          exact Bool.eq_false_iff.mpr hp
        | succ j =>
          have := hno j (by simpa using hj)
          simpa using this

theorem find_none (p : Str) (s : Str) : ∀ k, find p s = none → matchesFrom p s k = [] := by
  induction s with
  | nil => intro k _; rfl
  | cons c cs ih =>
    intro k h
    unfold find at h
    split at h
    · cases h
    · next hp =>
      unfold matchesFrom
      rw [if_neg hp]
      apply ih
      cases hf : find p cs with
      | none => rfl
      | some i => rw [hf] at h; cases h

/-- `split_at` at the byte length of a prefix succeeds (it is a character boundary). -/
theorem splitAt_append (pre post : Str) :
    splitAt (pre ++ post) (byteLen pre) = some (pre, post) := by
  induction pre with
  | nil => simp [byteLen, splitAt]
  | cons c cs ih =>
    have hpos := utf8Len_pos c
    simp only [List.cons_append, byteLen]
    obtain ⟨m, hm⟩ : ∃ m, utf8Len c + byteLen cs = m + 1 := ⟨utf8Len c + byteLen cs - 1, by omega⟩
    rw [hm]
    unfold splitAt
    rw [if_pos (by omega)]
    have : m + 1 - utf8Len c = byteLen cs := by omega
    rw [this, ih]
    rfl

/-- `&after[first_pat_chr_len..]` where `after` starts with the pattern's first character. -/
theorem sliceFrom_head (c : Nat) (cs : Str) : sliceFrom (c :: cs) (utf8Len c) = some cs := by
  have := splitAt_append [c] cs
  simp only [byteLen, List.cons_append, List.nil_append, Nat.add_zero] at this
  unfold sliceFrom
  rw [this]
  rfl

theorem isPrefixOf_cons_some {c : Nat} {p' post : Str}
    (h : (c :: p').isPrefixOf post = true) : ∃ post', post = c :: post' := by
  cases post with
  | nil => simp at h
  | cons d ds =>
    simp only [List.isPrefixOf, Bool.and_eq_true, beq_iff_eq] at h
    exact ⟨ds, by rw [h.1]⟩

/-- The literal loop computes the reference list, never panics, never runs out of fuel. -/
theorem findSubstrLoop_eq (c0 : Nat) (p' : Str) : ∀ (f : Nat) (rem : Str) (k : Nat),
    rem.length < f →
    findSubstrLoop (c0 :: p') (utf8Len c0) f rem k = .ok (matchesFrom (c0 :: p') rem k) := by
  intro f
  induction f with
  | zero => intro rem k h; omega
  | succ f ih =>
    intro rem k hlen
    unfold findSubstrLoop
    cases hf : find (c0 :: p') rem with
    | none => simp only; rw [find_none _ _ k hf]
    | some i =>
      obtain ⟨pre, post, hs, hi, hpp, hno⟩ := find_some _ _ i hf
      obtain ⟨post', hpost⟩ := isPrefixOf_cons_some hpp
      subst hs hi hpost
      simp only
      rw [splitAt_append]
      simp only
      rw [sliceFrom_head]
      simp only
      rw [ih post' (k + pre.length + 1) (by simp at hlen; omega)]
      simp only
      rw [matchesFrom_skip _ pre (c0 :: post') k hno]
      rw [matchesFrom_cons, if_pos hpp]

theorem findSubstr_eq (p s : Str) (hp : p ≠ []) : findSubstr p s = .ok (matchesFrom p s 0) := by
  cases p with
  | nil => exact absurd rfl hp
  | cons c0 p' =>
    unfold findSubstr
    exact findSubstrLoop_eq c0 p' (s.length + 1) s 0 (by omega)

end Rsj.Str
