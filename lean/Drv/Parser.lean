import RsjModel.Parser

/-! Stand-alone line-protocol driver for op `parse` (module `Rsj.Parser`). -/

def dispatchParser (line : String) : String :=
  match (line.trimAscii.toString.splitOn " ").filter (· ≠ "") with
  | [] => "bad-op"
  | op :: args => if op = "parse" then (Rsj.Parser.handle args).getD "bad-op" else "bad-op"

partial def loopParser (h : IO.FS.Stream) (out : IO.FS.Stream) : IO Unit := do
  let line ← h.getLine
  if line.isEmpty then return ()
  out.putStrLn (dispatchParser line)
  loopParser h out

def main : IO Unit := do
  let out ← IO.getStdout
  loopParser (← IO.getStdin) out
  out.flush
