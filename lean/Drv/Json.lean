import RsjModel.Json

/-! Stand-alone line-protocol driver for op `json` (module `Rsj.Json`). -/

def dispatchJson (line : String) : String :=
  match (line.trimAscii.toString.splitOn " ").filter (· ≠ "") with
  | [] => "bad-op"
  | op :: args => if op = "json" then (Rsj.Json.handle args).getD "bad-op" else "bad-op"

partial def loopJson (h : IO.FS.Stream) (out : IO.FS.Stream) : IO Unit := do
  let line ← h.getLine
  if line.isEmpty then return ()
  out.putStrLn (dispatchJson line)
  loopJson h out

def main : IO Unit := do
  let out ← IO.getStdout
  loopJson (← IO.getStdin) out
  out.flush
