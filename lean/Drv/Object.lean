import RsjModel.Object

/-! Stand-alone line-protocol driver for op `obj` (module `Rsj.Object`). -/

def dispatchObject (line : String) : String :=
  match (line.trimAscii.toString.splitOn " ").filter (· ≠ "") with
  | [] => "bad-op"
  | op :: args => if op = "obj" then (Rsj.Object.handle args).getD "bad-op" else "bad-op"

partial def loopObject (h : IO.FS.Stream) (out : IO.FS.Stream) : IO Unit := do
  let line ← h.getLine
  if line.isEmpty then return ()
  out.putStrLn (dispatchObject line)
  loopObject h out

def main : IO Unit := do
  let out ← IO.getStdout
  loopObject (← IO.getStdin) out
  out.flush
