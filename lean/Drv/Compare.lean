import RsjModel.Compare

/-! Stand-alone line-protocol driver for op `cmp` (module `Rsj.Compare`). -/

def dispatchCompare (line : String) : String :=
  match (line.trimAscii.toString.splitOn " ").filter (· ≠ "") with
  | [] => "bad-op"
  | op :: args => if op = "cmp" then (Rsj.Compare.handle args).getD "bad-op" else "bad-op"

partial def loopCompare (h : IO.FS.Stream) (out : IO.FS.Stream) : IO Unit := do
  let line ← h.getLine
  if line.isEmpty then return ()
  out.putStrLn (dispatchCompare line)
  loopCompare h out

def main : IO Unit := do
  let out ← IO.getStdout
  loopCompare (← IO.getStdin) out
  out.flush
