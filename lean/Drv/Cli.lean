import RsjModel.Cli

/-! Stand-alone line-protocol driver for op `cli` (module `Rsj.Cli`). -/

def dispatchCli (line : String) : String :=
  match (line.trimAscii.toString.splitOn " ").filter (· ≠ "") with
  | [] => "bad-op"
  | op :: args => if op = "cli" then (Rsj.Cli.handle args).getD "bad-op" else "bad-op"

partial def loopCli (h : IO.FS.Stream) (out : IO.FS.Stream) : IO Unit := do
  let line ← h.getLine
  if line.isEmpty then return ()
  out.putStrLn (dispatchCli line)
  loopCli h out

def main : IO Unit := do
  let out ← IO.getStdout
  loopCli (← IO.getStdin) out
  out.flush
