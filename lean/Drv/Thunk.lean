import RsjModel.Thunk

/-! Stand-alone line-protocol driver for op `thunk` (module `Rsj.Thunk`). -/

def dispatchThunk (line : String) : String :=
  match (line.trimAscii.toString.splitOn " ").filter (· ≠ "") with
  | [] => "bad-op"
  | op :: args => if op = "thunk" then (Rsj.Thunk.handle args).getD "bad-op" else "bad-op"

partial def loopThunk (h : IO.FS.Stream) (out : IO.FS.Stream) : IO Unit := do
  let line ← h.getLine
  if line.isEmpty then return ()
  out.putStrLn (dispatchThunk line)
  loopThunk h out

def main : IO Unit := do
  let out ← IO.getStdout
  loopThunk (← IO.getStdin) out
  out.flush
