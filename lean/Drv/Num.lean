import RsjModel.Num

/-! Stand-alone line-protocol driver for op `num` (module `Rsj.Num`). -/

def dispatchNum (line : String) : String :=
  match (line.trimAscii.toString.splitOn " ").filter (· ≠ "") with
  | [] => "bad-op"
  | op :: args => if op = "num" then (Rsj.Num.handle args).getD "bad-op" else "bad-op"

partial def loopNum (h : IO.FS.Stream) (out : IO.FS.Stream) : IO Unit := do
  let line ← h.getLine
  if line.isEmpty then return ()
  out.putStrLn (dispatchNum line)
  loopNum h out

def main : IO Unit := do
  let out ← IO.getStdout
  loopNum (← IO.getStdin) out
  out.flush
