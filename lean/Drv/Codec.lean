import RsjModel.Codec

/-! Stand-alone line-protocol driver for op `codec` (module `Rsj.Codec`). -/

def dispatchCodec (line : String) : String :=
  match (line.trimAscii.toString.splitOn " ").filter (· ≠ "") with
  | [] => "bad-op"
  | op :: args => if op = "codec" then (Rsj.Codec.handle args).getD "bad-op" else "bad-op"

partial def loopCodec (h : IO.FS.Stream) (out : IO.FS.Stream) : IO Unit := do
  let line ← h.getLine
  if line.isEmpty then return ()
  out.putStrLn (dispatchCodec line)
  loopCodec h out

def main : IO Unit := do
  let out ← IO.getStdout
  loopCodec (← IO.getStdin) out
  out.flush
