import RsjModel.Analyze

/-! Stand-alone line-protocol driver for op `ana` (module `Rsj.Analyze`). -/

def dispatchAnalyze (line : String) : String :=
  match (line.trimAscii.toString.splitOn " ").filter (· ≠ "") with
  | [] => "bad-op"
  | op :: args => if op = "ana" then (Rsj.Analyze.handle args).getD "bad-op" else "bad-op"

partial def loopAnalyze (h : IO.FS.Stream) (out : IO.FS.Stream) : IO Unit := do
  let line ← h.getLine
  if line.isEmpty then return ()
  out.putStrLn (dispatchAnalyze line)
  loopAnalyze h out

def main : IO Unit := do
  let out ← IO.getStdout
  loopAnalyze (← IO.getStdin) out
  out.flush
