import RsjModel.TraceStack

/-! Stand-alone line-protocol driver for op `tstack` (module `Rsj.TraceStack`). -/

def dispatchTraceStack (line : String) : String :=
  match (line.trimAscii.toString.splitOn " ").filter (· ≠ "") with
  | [] => "bad-op"
  | op :: args => if op = "tstack" then (Rsj.TraceStack.handle args).getD "bad-op" else "bad-op"

partial def loopTraceStack (h : IO.FS.Stream) (out : IO.FS.Stream) : IO Unit := do
  let line ← h.getLine
  if line.isEmpty then return ()
  out.putStrLn (dispatchTraceStack line)
  loopTraceStack h out

def main : IO Unit := do
  let out ← IO.getStdout
  loopTraceStack (← IO.getStdin) out
  out.flush
