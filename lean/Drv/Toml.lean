import RsjModel.Toml

/-! Stand-alone line-protocol driver for op `toml` (module `Rsj.Toml`). -/

def dispatchToml (line : String) : String :=
  match (line.trimAscii.toString.splitOn " ").filter (· ≠ "") with
  | [] => "bad-op"
  | op :: args => if op = "toml" then (Rsj.Toml.handle args).getD "bad-op" else "bad-op"

partial def loopToml (h : IO.FS.Stream) (out : IO.FS.Stream) : IO Unit := do
  let line ← h.getLine
  if line.isEmpty then return ()
  out.putStrLn (dispatchToml line)
  loopToml h out

def main : IO Unit := do
  let out ← IO.getStdout
  loopToml (← IO.getStdin) out
  out.flush
