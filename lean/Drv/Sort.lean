import RsjModel.Sort

/-! Stand-alone line-protocol driver for op `sort` (module `Rsj.Sort`). -/

def dispatchSort (line : String) : String :=
  match (line.trimAscii.toString.splitOn " ").filter (· ≠ "") with
  | [] => "bad-op"
  | op :: args => if op = "sort" then (Rsj.Sort.handle args).getD "bad-op" else "bad-op"

partial def loopSort (h : IO.FS.Stream) (out : IO.FS.Stream) : IO Unit := do
  let line ← h.getLine
  if line.isEmpty then return ()
  out.putStrLn (dispatchSort line)
  loopSort h out

def main : IO Unit := do
  let out ← IO.getStdout
  loopSort (← IO.getStdin) out
  out.flush
