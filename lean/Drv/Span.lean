import RsjModel.Span

/-! Stand-alone line-protocol driver for op `span` (module `Rsj.Span`). -/

def dispatchSpan (line : String) : String :=
  match (line.trimAscii.toString.splitOn " ").filter (· ≠ "") with
  | [] => "bad-op"
  | op :: args => if op = "span" then (Rsj.Span.handle args).getD "bad-op" else "bad-op"

partial def loopSpan (h : IO.FS.Stream) (out : IO.FS.Stream) : IO Unit := do
  let line ← h.getLine
  if line.isEmpty then return ()
  out.putStrLn (dispatchSpan line)
  loopSpan h out

def main : IO Unit := do
  let out ← IO.getStdout
  loopSpan (← IO.getStdin) out
  out.flush
