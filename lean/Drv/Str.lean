import RsjModel.Str

/-! Stand-alone line-protocol driver for op `str` (module `Rsj.Str`). -/

def dispatchStr (line : String) : String :=
  match (line.trimAscii.toString.splitOn " ").filter (· ≠ "") with
  | [] => "bad-op"
  | op :: args => if op = "str" then (Rsj.Str.handle args).getD "bad-op" else "bad-op"

partial def loopStr (h : IO.FS.Stream) (out : IO.FS.Stream) : IO Unit := do
  let line ← h.getLine
  if line.isEmpty then return ()
  out.putStrLn (dispatchStr line)
  loopStr h out

def main : IO Unit := do
  let out ← IO.getStdout
  loopStr (← IO.getStdin) out
  out.flush
