import RsjModel.Lexer

/-! Stand-alone line-protocol driver for op `lex` (module `Rsj.Lexer`). -/

def dispatchLexer (line : String) : String :=
  match (line.trimAscii.toString.splitOn " ").filter (· ≠ "") with
  | [] => "bad-op"
  | op :: args => if op = "lex" then (Rsj.Lexer.handle args).getD "bad-op" else "bad-op"

partial def loopLexer (h : IO.FS.Stream) (out : IO.FS.Stream) : IO Unit := do
  let line ← h.getLine
  if line.isEmpty then return ()
  out.putStrLn (dispatchLexer line)
  loopLexer h out

def main : IO Unit := do
  let out ← IO.getStdout
  loopLexer (← IO.getStdin) out
  out.flush
