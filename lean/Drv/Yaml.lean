import RsjModel.Yaml

/-! Stand-alone line-protocol driver for op `yaml` (module `Rsj.Yaml`). -/

def dispatchYaml (line : String) : String :=
  match (line.trimAscii.toString.splitOn " ").filter (· ≠ "") with
  | [] => "bad-op"
  | op :: args => if op = "yaml" then (Rsj.Yaml.handle args).getD "bad-op" else "bad-op"

partial def loopYaml (h : IO.FS.Stream) (out : IO.FS.Stream) : IO Unit := do
  let line ← h.getLine
  if line.isEmpty then return ()
  out.putStrLn (dispatchYaml line)
  loopYaml h out

def main : IO Unit := do
  let out ← IO.getStdout
  loopYaml (← IO.getStdin) out
  out.flush
