import RsjModel.Pipeline

/-! Stand-alone line-protocol driver for op `pipe` (module `Rsj.Pipeline`). -/

def dispatchPipeline (line : String) : String :=
  match (line.trimAscii.toString.splitOn " ").filter (· ≠ "") with
  | [] => "bad-op"
  | op :: args => if op = "pipe" then (Rsj.Pipeline.handle args).getD "bad-op" else "bad-op"

partial def loopPipeline (h : IO.FS.Stream) (out : IO.FS.Stream) : IO Unit := do
  let line ← h.getLine
  if line.isEmpty then return ()
  out.putStrLn (dispatchPipeline line)
  loopPipeline h out

def main : IO Unit := do
  let out ← IO.getStdout
  loopPipeline (← IO.getStdin) out
  out.flush
