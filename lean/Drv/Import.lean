import RsjModel.Import

/-! Stand-alone line-protocol driver for op `imp` (module `Rsj.Import`). -/

def dispatchImport (line : String) : String :=
  match (line.trimAscii.toString.splitOn " ").filter (· ≠ "") with
  | [] => "bad-op"
  | op :: args => if op = "imp" then (Rsj.Import.handle args).getD "bad-op" else "bad-op"

partial def loopImport (h : IO.FS.Stream) (out : IO.FS.Stream) : IO Unit := do
  let line ← h.getLine
  if line.isEmpty then return ()
  out.putStrLn (dispatchImport line)
  loopImport h out

def main : IO Unit := do
  let out ← IO.getStdout
  loopImport (← IO.getStdin) out
  out.flush
