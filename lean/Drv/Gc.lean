import RsjModel.Gc

/-! Stand-alone line-protocol driver for op `gcscript` (module `Rsj.Gc`). -/

def dispatchGc (line : String) : String :=
  match (line.trimAscii.toString.splitOn " ").filter (· ≠ "") with
  | [] => "bad-op"
  | op :: args => if op = "gcscript" then (Rsj.Gc.handle args).getD "bad-op" else "bad-op"

partial def loopGc (h : IO.FS.Stream) (out : IO.FS.Stream) : IO Unit := do
  let line ← h.getLine
  if line.isEmpty then return ()
  out.putStrLn (dispatchGc line)
  loopGc h out

def main : IO Unit := do
  let out ← IO.getStdout
  loopGc (← IO.getStdin) out
  out.flush
