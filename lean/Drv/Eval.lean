import RsjModel.Eval

/-! Stand-alone line-protocol driver for op `core` (module `Rsj.Eval`). -/

def dispatchEval (line : String) : String :=
  match (line.trimAscii.toString.splitOn " ").filter (· ≠ "") with
  | [] => "bad-op"
  | op :: args => if op = "core" then (Rsj.Eval.handle args).getD "bad-op" else "bad-op"

partial def loopEval (h : IO.FS.Stream) (out : IO.FS.Stream) : IO Unit := do
  let line ← h.getLine
  if line.isEmpty then return ()
  out.putStrLn (dispatchEval line)
  loopEval h out

def main : IO Unit := do
  let out ← IO.getStdout
  loopEval (← IO.getStdin) out
  out.flush
