import RsjModel.Format

/-! Stand-alone line-protocol driver for op `fmt` (module `Rsj.Format`). -/

def dispatchFormat (line : String) : String :=
  match (line.trimAscii.toString.splitOn " ").filter (· ≠ "") with
  | [] => "bad-op"
  | op :: args => if op = "fmt" then (Rsj.Format.handle args).getD "bad-op" else "bad-op"

partial def loopFormat (h : IO.FS.Stream) (out : IO.FS.Stream) : IO Unit := do
  let line ← h.getLine
  if line.isEmpty then return ()
  out.putStrLn (dispatchFormat line)
  loopFormat h out

def main : IO Unit := do
  let out ← IO.getStdout
  loopFormat (← IO.getStdin) out
  out.flush
