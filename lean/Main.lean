import RsjModel.Util
import RsjModel.Span
import RsjModel.Gc
import RsjModel.Sort
import RsjModel.Lexer
import RsjModel.Parser
import RsjModel.Json
import RsjModel.Codec
import RsjModel.Object
import RsjModel.Format
import RsjModel.Str
import RsjModel.Compare
import RsjModel.Eval
import RsjModel.Analyze
import RsjModel.Thunk
import RsjModel.TraceStack
import RsjModel.Num
import RsjModel.Cli
import RsjModel.Import

open Rsj

def dispatch (line : String) : String :=
  match (line.trimAscii.toString.splitOn " ").filter (· ≠ "") with
  | [] => "bad-op"
  | op :: args =>
    let r : Option String :=
      match op with
      | "span" => Span.handle args
      | "gcscript" => Gc.handle args
      | "sort" => Sort.handle args
      | "lex" => Lexer.handle args
      | "parse" => Parser.handle args
      | "json" => Json.handle args
      | "codec" => Codec.handle args
      | "obj" => Object.handle args
      | "fmt" => Format.handle args
      | "str" => Str.handle args
      | "cmp" => Compare.handle args
      | "core" => Eval.handle args
      | "ana" => Analyze.handle args
      | "thunk" => Thunk.handle args
      | "tstack" => TraceStack.handle args
      | "num" => Num.handle args
      | "cli" => Cli.handle args
      | "imp" => Import.handle args
      | _ => none
    r.getD "bad-op"

partial def loop (h : IO.FS.Stream) (out : IO.FS.Stream) : IO Unit := do
  let line ← h.getLine
  if line.isEmpty then return ()
  out.putStrLn (dispatch line)
  loop h out

def main : IO Unit := do
  let out ← IO.getStdout
  loop (← IO.getStdin) out
  out.flush
