import RsjModel.Util
import RsjModel.Span

open Rsj

def dispatch (line : String) : String :=
  match (line.trimAscii.toString.splitOn " ").filter (· ≠ "") with
  | [] => "bad-op"
  | op :: args =>
    let r : Option String :=
      match op with
      | "span" => Span.handle args
      | _ => none
    r.getD "bad-op"

partial def loop (h : IO.FS.Stream) (out : IO.FS.Stream) : IO Unit := do
  let line ← h.getLine
  if line.isEmpty then return ()
  out.putStrLn (dispatch line)
  loop h out

def main : IO Unit := do
  let out ← IO.getStdout
  loop (← IO.getStdin) out
  out.flush
