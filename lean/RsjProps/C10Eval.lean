/-
  C10 (optional part) — raising the frame limit never changes the outcome of a program that
  did not overflow, on the evaluator model RsjModel/Eval.lean (the model the C02 check compares
  with the implementation).  Kept apart from RsjProps/C10.lean on purpose.
-/
import RsjProofs.TraceStackEvalLimit
import RsjProofs.EvalDepth
namespace Rsj.Eval
open Rsj.Core

/-- **C10 eval_limit_monotone.**  If a task evaluates to a value under frame limit `s` (with
    `n` levels of fuel, from store `st`), it evaluates to the same value and the same final store
    under every limit `s' ≥ s` with the same fuel. -/
theorem C10_eval_limit_monotone {s s' : Nat} (hle : s ≤ s') (n : Nat) (task : Task) (st st' : St)
    (v : Value) (h : run { maxStack := s } n task st = some (.ok v, st')) :
    run { maxStack := s' } n task st = some (.ok v, st') := by
  rcases (Rel.run hle n task).h st with heq | ⟨st'', hso⟩
  · rw [← heq]; exact h
  · rw [h] at hso; cases hso

/-- More generally: every outcome other than a reported stack overflow – a value, any other
    error (with its store), or running out of fuel – is the same under the larger limit. -/
theorem C10_eval_limit_monotone_any {s s' : Nat} (hle : s ≤ s') (n : Nat) (task : Task) (st : St)
    (hno : ∀ st', run { maxStack := s } n task st ≠ some (.error .stackOverflow, st')) :
    run { maxStack := s' } n task st = run { maxStack := s } n task st := by
  rcases (Rel.run hle n task).h st with heq | ⟨st'', hso⟩
  · exact heq.symm
  · exact absurd hso (hno st'')

/-- The same for any computation sequenced from evaluator runs (as `evalProgram` does: force,
    deep-evaluate, manifest): `Rel` is closed under `>>=`. -/
theorem C10_eval_limit_monotone_seq {s s' : Nat} (hle : s ≤ s') (n : Nat) (t1 : Task)
    (t2 : Value → Task) (st st' : St) (v : Value)
    (h : (run { maxStack := s } n t1 >>= fun a => run { maxStack := s } n (t2 a)) st
      = some (.ok v, st')) :
    (run { maxStack := s' } n t1 >>= fun a => run { maxStack := s' } n (t2 a)) st
      = some (.ok v, st') := by
  have hr : Rel (run { maxStack := s } n t1 >>= fun a => run { maxStack := s } n (t2 a))
      (run { maxStack := s' } n t1 >>= fun a => run { maxStack := s' } n (t2 a)) :=
    Rel.bind (Rel.run hle n t1) (fun a => Rel.run hle n (t2 a))
  rcases hr.h st with heq | ⟨st'', hso⟩
  · rw [← heq]; exact h
  · rw [h] at hso; cases hso

/-- **C10 eval_limit_monotone, whole programs.**  If the model's `evalProgram` (load, evaluate,
    deep-evaluate, manifest – what the C02 check compares with the implementation) does not answer
    `StackOverflow` under limit `s`, it gives the very same answer and final store under every
    `s' ≥ s`. -/
theorem C10_evalProgram_limit_monotone {s s' : Nat} (hle : s ≤ s') (fuel : Nat) (e : Expr)
    (h : (evalProgram { maxStack := s } fuel e).1 ≠ showErr .stackOverflow) :
    evalProgram { maxStack := s' } fuel e = evalProgram { maxStack := s } fuel e := by
  rw [evalProgram_eq, evalProgram_eq] at *
  rcases (Rel.progOf hle fuel e).h {} with heq | ⟨st', hso⟩
  · rw [heq]
  · rw [hso] at h; exact absurd rfl h

/-! Non-vacuity: the limit matters.  Comparing `[t0] == [t0]` needs one frame
    (`CompareArrayItem`): under limit 0 it is a stack overflow, under limit 1 it is `true`; the
    theorem then gives the same value under limit 5 (checked independently by evaluation). -/
def demoSt : St := { thunks := #[.done (.bool true)], runs := #[0] }
example : run { maxStack := 0 } 3 (.equals (.arr [0]) (.arr [0]) 0) demoSt
    = some (.error .stackOverflow, demoSt) := rfl
example : run { maxStack := 1 } 3 (.equals (.arr [0]) (.arr [0]) 0) demoSt
    = some (.ok (.bool true), { demoSt with deepest := 1 }) := rfl
example : run { maxStack := 5 } 3 (.equals (.arr [0]) (.arr [0]) 0) demoSt
    = some (.ok (.bool true), { demoSt with deepest := 1 }) :=
  C10_eval_limit_monotone (s := 1) (s' := 5) (by decide) 3 _ demoSt _ _ rfl

/-! ### The limit bounds the depth of evaluation -/

/-- **C10 (recursion depth is bounded by the configured limit), on the evaluator model.** The
    model records the depth (number of trace items) of every evaluator step it starts in the ghost
    counter `deepest`. For every task whose own depth is within the limit, every fuel and every
    store whose counter is within the limit, the counter is within the limit afterwards — whether
    the task returns a value or an error: no step ever starts deeper than `maxStack`, because every
    descent in `step` is guarded by the depth check (the verification conditions of
    `RsjProofs/EvalDepth.lean` check this call site by call site). -/
theorem C10_eval_never_deeper_than_limit (cfg : Cfg) (n : Nat) (task : Task) (st : St)
    (ht : task.depth ≤ cfg.maxStack) (hs : st.deepest ≤ cfg.maxStack)
    (r : Except Err Value) (st' : St) (h : run cfg n task st = some (r, st')) :
    st'.deepest ≤ cfg.maxStack := by
  have := (Depth.wp_MD _ cfg.maxStack st).1 (Depth.run_spec cfg n task st ⟨ht, hs⟩)
  rw [h] at this
  exact this

/-- the same for a whole program evaluated from the empty store (evaluate, force deeply, manifest) -/
theorem C10_eval_program_never_deeper_than_limit (cfg : Cfg) (fuel : Nat) (e : Expr)
    (r : Except Err String) (st' : St) (h : programProg cfg fuel e {} = some (r, st')) :
    st'.deepest ≤ cfg.maxStack := by
  have := (Depth.wp_MD _ cfg.maxStack {}).1 (Depth.programProg_spec cfg fuel e {} (Nat.zero_le _))
  rw [h] at this
  exact this

/-- non-vacuity: the counter does record depth — comparing `[t0] == [t0]` under limit 1 works at depth 1 -/
example : (run { maxStack := 1 } 3 (.equals (.arr [0]) (.arr [0]) 0) demoSt).map (fun p => p.2.deepest) = some 1 := rfl

end Rsj.Eval

open Rsj.Eval in
#print axioms C10_eval_limit_monotone
open Rsj.Eval in
#print axioms C10_eval_limit_monotone_any
open Rsj.Eval in
#print axioms C10_eval_limit_monotone_seq
open Rsj.Eval in
#print axioms C10_evalProgram_limit_monotone
open Rsj.Eval in
#print axioms C10_eval_never_deeper_than_limit
open Rsj.Eval in
#print axioms C10_eval_program_never_deeper_than_limit
