/-
  C18 — strings are sequences of code points in every string function.
-/
import RsjProofs.StrSlice
namespace Rsj.Str

/-- **C18 length_is_codepoints.** -/
theorem C18_length_is_codepoints (s : Str) : length s = List.length s := rfl

end Rsj.Str

open Rsj.Str in
#print axioms C18_length_is_codepoints
