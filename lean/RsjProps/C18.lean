/-
  C18 — strings are sequences of code points in every string function.

  Property theorems about the model `RsjModel/Str.lean` (a Rust `str` = the list of
  its Unicode scalar values, byte offsets = sums of `utf8Len`).  Helper lemmas live
  in `RsjProofs/StrSlice.lean`, `StrFind.lean`, `StrSplit.lean`.

  Numeric arguments are finite f64 values abstracted to `Num` (sign, ⌊|x|⌋, has a
  fraction); `Num.ofNat n` / `Num.ofInt i` are the integers, every `Num` with
  `frac = true` is a fractional value.  The only standing hypothesis is that a
  string has at most `usize::MAX` characters (Rust strings are < 2^63 bytes).
-/
import RsjProofs.StrSlice
import RsjProofs.StrFind
import RsjProofs.StrSplit
namespace Rsj.Str

theorem U32_MAX_eq : U32_MAX = 2 ^ 32 - 1 := rfl

/-! ## length / indexing -/

/-- **C18 length_is_codepoints.** `std.length` of a string is the number of scalar
    values, whatever their UTF-8 width. -/
theorem C18_length_is_codepoints (s : Str) : length s = List.length s := rfl

/-- `std.length` is not the byte length as soon as one character is not ASCII. -/
example : length [0x61, 0xE9, 0x1F600] = 3 ∧ byteLen [0x61, 0xE9, 0x1F600] = 7 := by decide

/-- **C18 index_is_nth_codepoint.** For an integer index that fits `usize`, `s[i]` is the
    one-character string holding the `i`-th scalar value; beyond the end the error reports
    the index and the length *in characters*. -/
theorem C18_index_is_nth_codepoint (s : Str) (i : Nat) (hi : i ≤ USIZE_MAX) :
    index s (Num.ofNat i) =
      match s[i]? with
      | some c => .ok [c]
      | none => .error (.indexOutOfRange i s.length) := by
  unfold index Num.tryToUsizeExact Num.ofNat
  simp only [Bool.false_eq_true, if_false, Bool.false_and, if_pos hi]
  cases s[i]? <;> rfl

/-- Negative and fractional indices are rejected (never wrapped / truncated). -/
theorem C18_index_invalid (s : Str) (x : Num)
    (h : x.frac = true ∨ (x.neg = true ∧ 0 < x.int)) : index s x = .error .indexNotValid := by
  unfold index Num.tryToUsizeExact
  rcases h with h | ⟨h1, h2⟩
  · simp [h]
  · by_cases hf : x.frac = true
    · simp [hf]
    · simp [hf, h1, h2]

/-- An integer index beyond `usize::MAX` never yields a character. -/
theorem C18_index_huge (s : Str) (hs : s.length ≤ USIZE_MAX) (i : Nat) (hi : USIZE_MAX < i) :
    ∃ e, index s (Num.ofNat i) = .error e := by
  have h1 : ¬ i ≤ USIZE_MAX := by omega
  by_cases h2 : i = USIZE_MAX + 1
  · refine ⟨.indexOutOfRange USIZE_MAX s.length, ?_⟩
    have h3 : ¬ (USIZE_MAX + 1 ≤ USIZE_MAX) := by omega
    simp [index, Num.tryToUsizeExact, Num.ofNat, h2, h3, List.getElem?_eq_none hs]
  · exact ⟨.indexNotValid, by simp [index, Num.tryToUsizeExact, Num.ofNat, h1, h2]⟩

example : index [0x61, 0xE9, 0x1F600] (Num.ofNat 2) = .ok [0x1F600] := rfl
example : index [0x61, 0xE9, 0x1F600] (Num.ofNat 3) = .error (.indexOutOfRange 3 3) := rfl

/-! ## slicing -/

/-- **C18 slice_spec.** For every combination of absent / integer start, end and step
    (negative, beyond the end, `end < start`, beyond `usize` included; step ≥ 1), the slice
    succeeds and its `j`-th character is the character of `s` at position `lo + j*step`
    as long as that position is `< hi`, where negative bounds count from the end
    (saturating at 0), an absent start is 0, an absent end is the length.  This determines
    the result list completely (`List.ext_getElem?`). -/
theorem C18_slice_spec (s : Str) (hs : s.length ≤ USIZE_MAX) (a b k : Option Int)
    (hk : ∀ x, k = some x → 1 ≤ x) :
    ∃ r, sliceString s (a.map Num.ofInt) (b.map Num.ofInt) (k.map Num.ofInt) = .ok r ∧
      ∀ j, r[j]? =
        if (a.map (normIdx s.length)).getD 0 + j * (k.map Int.toNat).getD 1 <
            (b.map (normIdx s.length)).getD s.length
        then s[(a.map (normIdx s.length)).getD 0 + j * (k.map Int.toNat).getD 1]?
        else none := by
  have hr := getSliceRange_ofInt s.length a b k hk
  have hA : (a.map (clampIdx s.length)).getD 0 ≤ USIZE_MAX := by
    cases a with
    | none => simp
    | some i =>
      simp only [Option.map_some, Option.getD_some, clampIdx]
      split <;> omega
  have hab : (a.map (clampIdx s.length)).getD 0 ≤
      (b.map (fun i => max (clampIdx s.length i) ((a.map (clampIdx s.length)).getD 0))).getD
        USIZE_MAX := by
    cases b with
    | none => simpa using hA
    | some i => simp only [Option.map_some, Option.getD_some]; omega
  have hk1 : 1 ≤ (k.map (fun i => min i.toNat USIZE_MAX)).getD 1 := by
    cases k with
    | none => simp
    | some i =>
      have := hk i rfl
      simp only [Option.map_some, Option.getD_some]
      rw [USIZE_MAX_eq]; omega
  obtain ⟨r, hr1, hr2⟩ := sliceString_of_range hr hab hk1
  refine ⟨r, hr1, ?_⟩
  intro j
  rw [hr2 j]
  exact slice_obs s hs a b k j

theorem sliceString_error {s : Str} {st en sp : Option Num} {e : Err}
    (h : getSliceRange s.length st en sp = .error e) : sliceString s st en sp = .error e := by
  unfold sliceString; rw [h]

/-- Fractional slice components and steps below 1 are errors (start, end, step checked in
    this order). -/
theorem C18_slice_errors (s : Str) (x : Num) (st en sp : Option Num) :
    (x.frac = true → sliceString s (some x) en sp = .error .sliceStart) ∧
    (x.frac = true → (∀ y, st = some y → y.frac = false) →
      sliceString s st (some x) sp = .error .sliceEnd) ∧
    ((x.frac = true ∨ x.neg = true ∨ x.int = 0) → (∀ y, st = some y → y.frac = false) →
      (∀ y, en = some y → y.frac = false) → sliceString s st en (some x) = .error .sliceStep) := by
  refine ⟨?_, ?_, ?_⟩
  · intro h
    apply sliceString_error
    simp [getSliceRange, Num.notInt, h]
  · intro h hst
    apply sliceString_error
    cases st with
    | none => simp [getSliceRange, Num.notInt, h]
    | some y =>
      have := hst y rfl
      cases hlz : y.ltZero <;> simp [getSliceRange, Num.notInt, this, h, hlz]
  · intro h hst hen
    apply sliceString_error
    have hstep : x.frac = true ∨ x.ltOne = true := by
      unfold Num.ltOne
      rcases h with h | h | h <;> simp [h]
    cases st with
    | none =>
      cases en with
      | none => simp [getSliceRange, Num.notInt, hstep]
      | some z =>
        have := hen z rfl
        simp [getSliceRange, Num.notInt, this, hstep]
    | some y =>
      have hy := hst y rfl
      cases hlz : y.ltZero <;> cases en with
      | none => simp [getSliceRange, Num.notInt, hy, hlz, hstep]
      | some z =>
        have := hen z rfl
        simp [getSliceRange, Num.notInt, hy, hlz, this, hstep]

example : sliceString [0x1F600, 0x61, 0xE9, 0x65E5, 0x62] (some (Num.ofInt (-3))) none
    (some (Num.ofInt 2)) = .ok [0xE9, 0x62] := rfl
example : sliceString [0x1F600, 0x61, 0xE9] (some (Num.ofInt 2)) (some (Num.ofInt 1)) none
    = .ok [] := rfl
/-! ## substr -/

/-- **C18 substr_spec.** `std.substr(s, from, len)` with natural-number arguments (however
    large) is `len` characters starting at character `from`. -/
theorem C18_substr_spec (s : Str) (hs : s.length ≤ USIZE_MAX) (f l : Nat) :
    substr s (Num.ofNat f) (Num.ofNat l) = .ok ((s.drop f).take l) := by
  unfold substr Num.ofNat Num.notInt Num.ltZero Num.asUsize
  simp only [Bool.false_and, Bool.or_self, Bool.false_eq_true, if_false]
  congr 1
  have h1 : s.drop (min f USIZE_MAX) = s.drop f := by
    by_cases hf : f ≤ USIZE_MAX
    · rw [Nat.min_eq_left hf]
    · rw [Nat.min_eq_right (by omega), List.drop_eq_nil_of_le hs,
        List.drop_eq_nil_of_le (by omega)]
  rw [h1]
  by_cases hl : l ≤ USIZE_MAX
  · rw [Nat.min_eq_left hl]
  · have hlen : (s.drop f).length ≤ USIZE_MAX := by rw [List.length_drop]; omega
    rw [Nat.min_eq_right (by omega), List.take_of_length_le hlen,
      List.take_of_length_le (by omega)]

/-- Negative / fractional `from` or `len` are the documented errors. -/
theorem C18_substr_errors (s : Str) (x y : Num)
    (hx : x.frac = true ∨ (x.neg = true ∧ 0 < x.int)) :
    substr s x y = .error .substrFrom ∧
    substr s (Num.ofNat 0) x = .error .substrLen := by
  have hbad : (x.notInt || x.ltZero) = true := by
    unfold Num.notInt Num.ltZero
    rcases hx with h | ⟨h1, h2⟩
    · simp [h]
    · simp [h1, h2]
  constructor
  · unfold substr; rw [if_pos hbad]
  · unfold substr
    rw [if_neg (by decide), if_pos hbad]

example : substr [0xE9, 0xE9, 0x61, 0x62] (Num.ofNat 1) (Num.ofNat (10 ^ 18)) =
    .ok [0xE9, 0x61, 0x62] := rfl

/-- `-0` (the f64 produced by the Jsonnet expression `-0`) behaves as `0` everywhere. -/
theorem C18_negative_zero (s : Str) (y : Num) (o1 o2 : Option Num) :
    index s ⟨true, 0, false⟩ = index s (Num.ofNat 0) ∧
    substr s ⟨true, 0, false⟩ y = substr s (Num.ofNat 0) y ∧
    substr s (Num.ofNat 0) ⟨true, 0, false⟩ = substr s (Num.ofNat 0) (Num.ofNat 0) ∧
    sliceString s (some ⟨true, 0, false⟩) o1 o2 = sliceString s (some (Num.ofNat 0)) o1 o2 :=
  ⟨rfl, rfl, rfl, rfl⟩

/-! ## findSubstr -/

/-- **C18 findSubstr_spec.** The literal loop of `do_std_find_substr` (byte offset from
    `str::find`, `split_at`, byte slice past the pattern's first character, running
    character index) never panics and returns exactly the character positions at which
    the pattern occurs — every one (overlapping occurrences included) and only those —
    in strictly increasing order; the empty pattern has no match. -/
theorem C18_findSubstr_spec (p s : Str) :
    ∃ l, findSubstr p s = .ok l ∧
      (∀ i, i ∈ l ↔ p ≠ [] ∧ p <+: s.drop i) ∧
      l.Pairwise (· < ·) := by
  cases hp : p with
  | nil => exact ⟨[], rfl, by simp, List.Pairwise.nil⟩
  | cons c p' =>
    have hne : c :: p' ≠ [] := by simp
    refine ⟨matchesFrom (c :: p') s 0, findSubstr_eq _ s hne, ?_, matchesFrom_pairwise _ s 0⟩
    intro i
    rw [mem_matchesFrom]
    constructor
    · rintro ⟨j, rfl, _, hj⟩
      exact ⟨hne, by simpa using List.isPrefixOf_iff_prefix.mp hj⟩
    · rintro ⟨_, hpre⟩
      refine ⟨i, by omega, ?_, List.isPrefixOf_iff_prefix.mpr hpre⟩
      by_cases hi : i < s.length
      · exact hi
      · rw [List.drop_eq_nil_of_le (by omega)] at hpre
        simp at hpre

/-- Overlapping occurrences behind a 2-byte and before a 4-byte character. -/
example : findSubstr [0x61, 0x61] [0xE9, 0x61, 0x61, 0x61, 0x1F600, 0x61, 0x61] =
    .ok [1, 2, 5] := rfl

/-! ## split / join -/

/-- `std.join` (string separator, array of strings) is `List.intercalate`. -/
theorem C18_join_spec (sep : Str) (xs : List Str) :
    join sep xs = (xs.intersperse sep).flatten := join_eq_intersperse sep xs

/-- **C18 join_split.** `std.join(c, std.split(s, c)) == s` for every non-empty `c`;
    an empty `c` is the documented error. -/
theorem C18_join_split (s sep : Str) :
    (sep ≠ [] → ∃ l, stdSplit s sep = .ok l ∧ join sep l = s) ∧
    (sep = [] → stdSplit s sep = .error .emptyDelim) := by
  constructor
  · intro h
    refine ⟨split sep s, ?_, join_split sep s⟩
    unfold stdSplit
    cases sep with
    | nil => exact absurd rfl h
    | cons => rfl
  · rintro rfl; rfl

/-- `std.split` cuts at the leftmost occurrence of the separator and continues behind it
    (non-overlapping leftmost scanning); `splitOnce_some` / `splitOnce_none` pin the cut:
    `s = a ++ sep ++ b` with no occurrence of `sep` starting before `a.length`. -/
theorem C18_split_leftmost (s sep : Str) (hsep : sep ≠ []) :
    (split sep s = match splitOnce sep s with
      | none => [s]
      | some (a, b) => a :: split sep b) ∧
    (∀ a b, splitOnce sep s = some (a, b) →
      s = a ++ sep ++ b ∧ ∀ j, j < a.length → ¬ sep <+: s.drop j) ∧
    (splitOnce sep s = none → ∀ j, ¬ sep <+: s.drop j) := by
  refine ⟨split_unfold sep hsep s, ?_, ?_⟩
  · intro a b h
    obtain ⟨h1, h2⟩ := splitOnce_some sep s a b h
    refine ⟨h1, fun j hj hp => ?_⟩
    have := h2 j hj
    rw [List.isPrefixOf_iff_prefix.mpr hp] at this
    cases this
  · intro h j hp
    by_cases hj : j ≤ s.length
    · have := splitOnce_none sep s h j hj
      rw [List.isPrefixOf_iff_prefix.mpr hp] at this
      cases this
    · rw [List.drop_eq_nil_of_le (by omega)] at hp
      exact hsep (List.prefix_nil.mp hp)

/-- Number of separators found by non-overlapping leftmost scanning. -/
def occurrences (sep s : Str) : Nat := (split sep s).length - 1

theorem tryToUsize_ofNat (n : Nat) :
    (Num.ofNat n).tryToUsize =
      if n ≤ USIZE_MAX then some n else if n = USIZE_MAX + 1 then some USIZE_MAX else none := by
  by_cases h : n ≤ USIZE_MAX
  · simp [Num.tryToUsize, Num.tryToUsizeExact, Num.trunc, Num.ofNat, h]
  · by_cases h2 : n = USIZE_MAX + 1
    · have h3 : ¬ (USIZE_MAX + 1 ≤ USIZE_MAX) := by omega
      simp [Num.tryToUsize, Num.tryToUsizeExact, Num.trunc, Num.ofNat, h2, h3]
    · simp [Num.tryToUsize, Num.tryToUsizeExact, Num.trunc, Num.ofNat, h, h2]

theorem decodeMaxsplits_ofNat (n : Nat) :
    decodeMaxsplits (Num.ofNat n) = .ok (if n < USIZE_MAX then some (n + 1) else none) := by
  unfold decodeMaxsplits
  rw [tryToUsize_ofNat]
  have h0 : (Num.ofNat n).notInt = false := rfl
  have h1 : (Num.ofNat n).ltZero = false := rfl
  simp only [h0, h1, Bool.false_eq_true, if_false]
  by_cases hn : n < USIZE_MAX
  · rw [if_pos (by omega), if_pos hn]
    simp only
    rw [if_pos (by omega)]
  · rw [if_neg hn]
    by_cases h2 : n ≤ USIZE_MAX
    · rw [if_pos h2]
      simp only
      rw [if_neg (by omega)]
    · rw [if_neg h2]
      by_cases h3 : n = USIZE_MAX + 1
      · rw [if_pos h3]
        simp only
        rw [if_neg (by omega)]
      · rw [if_neg h3]

/-- **C18 splitLimit_spec.** `std.splitLimit(s, c, n)` (any natural `n`, however large)
    splits at the first `n` separators: its first `n` pieces are those of the full split
    and the last one is the unsplit rest; with fewer than `n` separators it is the full
    split.  Consequently the pieces joined by `c` give `s` back and there are
    `min(n, occurrences) + 1` of them. -/
theorem C18_splitLimit_spec (s sep : Str) (hsep : sep ≠ []) (hs : s.length < USIZE_MAX) (n : Nat) :
    ∃ l, splitLimit s sep (Num.ofNat n) = .ok l ∧
      l = (if n < (split sep s).length then
             (split sep s).take n ++ [join sep ((split sep s).drop n)]
           else split sep s) ∧
      join sep l = s ∧
      l.length = min n (occurrences sep s) + 1 := by
  have hlen := splitN_length_le sep hsep (s.length + 2) s
  have hpos : 0 < (split sep s).length := List.length_pos_iff.mpr (split_ne_nil sep s)
  have hfl : (split sep s).length ≤ s.length + 1 := hlen
  have hsem : sep.isEmpty = false := by cases sep with
    | nil => exact absurd rfl hsep
    | cons => rfl
  by_cases hn : n < USIZE_MAX
  · refine ⟨splitN sep (n + 1) s, ?_, splitN_split sep hsep n s, join_splitN sep n s, ?_⟩
    · unfold splitLimit
      rw [hsem, decodeMaxsplits_ofNat, if_pos hn]; rfl
    · rw [splitN_split sep hsep n s]
      unfold occurrences
      split
      · simp [List.length_take]; omega
      · omega
  · refine ⟨split sep s, ?_, ?_, join_split sep s, ?_⟩
    · unfold splitLimit
      rw [hsem, decodeMaxsplits_ofNat, if_neg hn]; rfl
    · rw [if_neg (by omega)]
    · unfold occurrences; omega

/-- `maxsplits = -1` is the unlimited split; other negative values and fractions are errors. -/
theorem C18_splitLimit_args (s sep : Str) (hsep : sep ≠ []) (x : Num) :
    splitLimit s sep (Num.ofInt (-1)) = .ok (split sep s) ∧
    (x.frac = true → splitLimit s sep x = .error .maxsplitsNotInt) ∧
    (x.frac = false → x.neg = true → 2 ≤ x.int → splitLimit s sep x = .error .maxsplitsNeg) := by
  have hsem : sep.isEmpty = false := by cases sep with
    | nil => exact absurd rfl hsep
    | cons => rfl
  refine ⟨?_, ?_, ?_⟩
  · unfold splitLimit; rw [hsem]; rfl
  · intro h
    unfold splitLimit decodeMaxsplits Num.notInt
    rw [hsem, h]; rfl
  · intro h1 h2 h3
    unfold splitLimit decodeMaxsplits Num.notInt Num.ltZero
    rw [hsem, h1, h2]
    have : decide (0 < x.int) = true := by simp; omega
    simp only [this, Bool.or_false, Bool.and_self, if_true, Bool.false_eq_true, if_false]
    rw [if_neg (by omega)]

/-- The pieces found by right-to-left non-overlapping scanning, in string order. -/
def rsplitAll (sep s : Str) : List Str := (rsplitN sep (s.length + 2) s).reverse

/-- Right-to-left scanning cuts at the rightmost occurrence and continues before it. -/
theorem C18_rsplit_rightmost (s sep : Str) (hsep : sep ≠ []) :
    (rsplitAll sep s = match rsplitOnce sep s with
      | none => [s]
      | some (a, b) => rsplitAll sep a ++ [b]) ∧
    (∀ a b, rsplitOnce sep s = some (a, b) →
      s = a ++ sep ++ b ∧ ∀ j, a.length < j → ¬ sep <+: s.drop j) := by
  constructor
  · unfold rsplitAll
    rw [rsplitN_unfold sep hsep s]
    cases rsplitOnce sep s with
    | none => rfl
    | some p => simp
  · intro a b h
    obtain ⟨h1, h2⟩ := rsplitOnce_some sep s a b h
    refine ⟨h1, fun j hj hp => ?_⟩
    by_cases hj' : j ≤ s.length
    · have := h2 j hj hj'
      rw [List.isPrefixOf_iff_prefix.mpr hp] at this
      cases this
    · rw [List.drop_eq_nil_of_le (by omega)] at hp
      exact hsep (List.prefix_nil.mp hp)
theorem decodeMaxsplitsR_ofNat (n : Nat) :
    decodeMaxsplitsR (Num.ofNat n) = .ok (some (if n < USIZE_MAX then n + 1 else USIZE_MAX)) := by
  unfold decodeMaxsplitsR
  rw [tryToUsize_ofNat]
  have h0 : (Num.ofNat n).notInt = false := rfl
  have h1 : (Num.ofNat n).ltZero = false := rfl
  simp only [h0, h1, Bool.false_eq_true, if_false]
  by_cases hn : n < USIZE_MAX
  · rw [if_pos (by omega), if_pos hn]
    simp only
    rw [if_pos (by omega)]
  · rw [if_neg hn]
    by_cases h2 : n ≤ USIZE_MAX
    · rw [if_pos h2]
      simp only
      rw [if_neg (by omega)]
    · rw [if_neg h2]
      by_cases h3 : n = USIZE_MAX + 1
      · rw [if_pos h3]
        simp only
        rw [if_neg (by omega)]
      · rw [if_neg h3]

/-- **C18 splitLimitR_spec.** `std.splitLimitR(s, c, n)` (any natural `n`, however large)
    splits at the last `n` separators: its last `n` pieces are those of the right-to-left
    split and the first one is the unsplit front; with fewer than `n` separators it is the
    whole right-to-left split.  The pieces joined by `c` give `s` back and there are
    `min(n, occurrences from the right) + 1` of them. -/
theorem C18_splitLimitR_spec (s sep : Str) (hsep : sep ≠ []) (hs : s.length + 2 ≤ USIZE_MAX)
    (n : Nat) :
    ∃ l, splitLimitR s sep (Num.ofNat n) = .ok l ∧
      l = (if n < (rsplitAll sep s).length then
             join sep ((rsplitAll sep s).take ((rsplitAll sep s).length - n)) ::
               (rsplitAll sep s).drop ((rsplitAll sep s).length - n)
           else rsplitAll sep s) ∧
      join sep l = s ∧
      l.length = min n ((rsplitAll sep s).length - 1) + 1 := by
  have hsem : sep.isEmpty = false := by cases sep with
    | nil => exact absurd rfl hsep
    | cons => rfl
  -- the limit actually used, `m + 1`
  obtain ⟨m, hm, hdec⟩ : ∃ m, (m = n ∨ (s.length + 1 ≤ m ∧ s.length + 1 ≤ n)) ∧
      decodeMaxsplitsR (Num.ofNat n) = .ok (some (m + 1)) := by
    rw [decodeMaxsplitsR_ofNat]
    by_cases hn : n < USIZE_MAX
    · exact ⟨n, Or.inl rfl, by rw [if_pos hn]⟩
    · refine ⟨USIZE_MAX - 1, Or.inr ⟨by omega, by omega⟩, ?_⟩
      rw [if_neg hn]
      have : USIZE_MAX - 1 + 1 = USIZE_MAX := by omega
      rw [this]
  have hrun : splitLimitR s sep (Num.ofNat n) = .ok (rsplitN sep (m + 1) s).reverse := by
    unfold splitLimitR
    rw [hsem, hdec]; rfl
  have hRlen := rsplitN_length_le sep hsep (s.length + 2) s
  have hRpos : 0 < (rsplitN sep (s.length + 2) s).length :=
    List.length_pos_iff.mpr (rsplitN_ne_nil sep (s.length + 1) s)
  -- the limit `m + 1` behaves like `n + 1`
  have hmn : rsplitN sep (m + 1) s = rsplitN sep (n + 1) s := by
    rcases hm with rfl | ⟨h1, h2⟩
    · rfl
    · rw [← rsplitN_stable sep hsep s (m + 1) (by omega),
        ← rsplitN_stable sep hsep s (n + 1) (by omega)]
  have hfull := rsplitN_stable sep hsep s (n + 1 + (s.length + 2)) (by omega)
  refine ⟨(rsplitN sep (n + 1) s).reverse, by rw [hrun, hmn], ?_, join_rsplitN sep n s, ?_⟩
  · unfold rsplitAll
    simp only [List.length_reverse]
    split
    · next h =>
      have hlt := h
      rw [hfull] at h
      rw [rsplitN_take_drop sep n (s.length + 2) s h, ← hfull]
      simp [List.take_reverse, List.drop_reverse]
      have e : (rsplitN sep (s.length + 2) s).length -
          ((rsplitN sep (s.length + 2) s).length - n) = n := by omega
      rw [e]
      exact ⟨rfl, by omega⟩
    · next h =>
      rw [hfull] at h
      rw [rsplitN_of_length_le sep n (s.length + 2) s (by omega), ← hfull]
  · unfold rsplitAll
    simp only [List.length_reverse]
    by_cases h : n < (rsplitN sep (s.length + 2) s).length
    · have h' := h
      rw [hfull] at h'
      rw [rsplitN_take_drop sep n (s.length + 2) s h', ← hfull]
      simp [List.length_take]; omega
    · have h' := h
      rw [hfull] at h'
      rw [rsplitN_of_length_le sep n (s.length + 2) s (by omega), ← hfull]
      omega

/-- `maxsplits = -1` selects the left-to-right full split (as in the reference library). -/
theorem C18_splitLimitR_minus_one (s sep : Str) (hsep : sep ≠ []) :
    splitLimitR s sep (Num.ofInt (-1)) = .ok (split sep s) := by
  have hsem : sep.isEmpty = false := by cases sep with
    | nil => exact absurd rfl hsep
    | cons => rfl
  unfold splitLimitR; rw [hsem]; rfl

/-- Self-overlapping separator: left and right scanning differ, both rebuild the string. -/
example : splitLimit [0xE9, 0x61, 0x61, 0x61] [0x61, 0x61] (Num.ofNat 1) = .ok [[0xE9], [0x61]] ∧
    splitLimitR [0xE9, 0x61, 0x61, 0x61] [0x61, 0x61] (Num.ofNat 1) = .ok [[0xE9, 0x61], []] :=
  ⟨rfl, rfl⟩

/-! ## strip -/

/-- **C18 strip_spec.** `lstripChars` removes exactly the maximal prefix of listed
    characters, `rstripChars` the maximal suffix, `stripChars` both; no fuel / panic
    outcome is reachable. -/
theorem C18_strip_spec (s cs : Str) :
    lstripChars s cs = .ok (s.dropWhile (cs.contains ·)) ∧
    rstripChars s cs = .ok (s.reverse.dropWhile (cs.contains ·)).reverse ∧
    stripChars s cs =
      .ok ((s.dropWhile (cs.contains ·)).reverse.dropWhile (cs.contains ·)).reverse := by
  refine ⟨lstripLoop_eq cs _ s (by omega), rstripLoop_eq' cs _ s (by omega), ?_⟩
  unfold stripChars
  rw [lstripLoop_eq cs _ s (by omega)]
  exact rstripLoop_eq' cs _ _ (by omega)

/-- Maximality: what `lstripChars` removes consists of listed characters only, and what is
    left does not start with one. -/
theorem C18_lstrip_maximal (s cs : Str) :
    ∃ pre r, lstripChars s cs = .ok r ∧ s = pre ++ r ∧ (∀ c ∈ pre, c ∈ cs) ∧
      (∀ c, r.head? = some c → c ∉ cs) := by
  refine ⟨s.takeWhile (cs.contains ·), s.dropWhile (cs.contains ·), (C18_strip_spec s cs).1,
    List.takeWhile_append_dropWhile.symm, ?_, ?_⟩
  · intro c hc
    exact List.contains_iff_mem.mp (takeWhile_all s c hc)
  · intro c hc hmem
    have := List.head?_dropWhile_not (cs.contains ·) s
    rw [hc] at this
    simp only at this
    rw [List.contains_iff_mem.mpr hmem] at this
    cases this

/-- Maximality for `rstripChars` (mirror image). -/
theorem C18_rstrip_maximal (s cs : Str) :
    ∃ r suf, rstripChars s cs = .ok r ∧ s = r ++ suf ∧ (∀ c ∈ suf, c ∈ cs) ∧
      (∀ c, r.getLast? = some c → c ∉ cs) := by
  refine ⟨(s.reverse.dropWhile (cs.contains ·)).reverse,
    (s.reverse.takeWhile (cs.contains ·)).reverse, (C18_strip_spec s cs).2.1, ?_, ?_, ?_⟩
  · rw [← List.reverse_append, List.takeWhile_append_dropWhile, List.reverse_reverse]
  · intro c hc
    exact List.contains_iff_mem.mp (takeWhile_all s.reverse c (List.mem_reverse.mp hc))
  · intro c hc hmem
    have := List.head?_dropWhile_not (cs.contains ·) s.reverse
    rw [List.getLast?_reverse] at hc
    rw [hc] at this
    simp only at this
    rw [List.contains_iff_mem.mpr hmem] at this
    cases this

example : stripChars [0xE9, 0x1F600, 0x61, 0xE9] [0xE9, 0x1F600] = .ok [0x61] := rfl

/-! ## strReplace -/

/-- **C18 strReplace_spec.** For a non-empty `from`, `std.strReplace(s, from, to)` is
    `std.join(to, std.split(s, from))`; an empty `from` inserts `to` at every character
    boundary (both ends included), as `str::replace` does. -/
theorem C18_strReplace_spec (s frm to : Str) :
    (frm ≠ [] → strReplace s frm to = join to (split frm s)) ∧
    (frm = [] → strReplace s frm to = to ++ s.flatMap (fun c => c :: to)) := by
  constructor
  · exact replace_eq_join_split s frm to
  · rintro rfl; rfl

example : strReplace [0xE9, 0x61, 0x61, 0x61] [0x61, 0x61] [0x1F600] = [0xE9, 0x1F600, 0x61] := by
  decide

/-! ## codepoint / char, stringChars, reverse, map, flatMap, padding -/

/-- **C18 char_codepoint_inverse.** `std.char` and `std.codepoint` are mutually inverse
    between Unicode scalar values and one-character strings; other numbers / strings are
    errors. -/
theorem C18_char_codepoint_inverse :
    (∀ c, isScalar c = true → char (Num.ofNat c) = .ok [c] ∧ codepoint [c] = .ok c) ∧
    (∀ s c, codepoint s = .ok c → s = [c]) ∧
    (∀ x s, char x = .ok s → ∃ c, s = [c] ∧ isScalar c = true ∧ codepoint s = .ok c) ∧
    (∀ n, isScalar n = false → char (Num.ofNat n) = .error .badCodepoint) := by
  refine ⟨?_, ?_, ?_, ?_⟩
  · intro c hc
    refine ⟨?_, rfl⟩
    have hlt : c ≤ U32_MAX := by
      unfold isScalar at hc
      rw [U32_MAX_eq]
      simp at hc; omega
    unfold char Num.tryToU32 Num.trunc Num.ofNat
    simp [hlt, hc]
  · intro s c h
    unfold codepoint at h
    split at h
    · cases h; rfl
    · cases h
  · intro x s h
    unfold char at h
    split at h
    · next v hv =>
      split at h
      · next hs => cases h; exact ⟨v, rfl, hs, rfl⟩
      · cases h
    · cases h
  · intro n hn
    unfold char
    split
    · next v hv =>
      unfold Num.tryToU32 Num.trunc Num.ofNat at hv
      simp only [Bool.false_and, Bool.false_eq_true, if_false] at hv
      split at hv
      · cases hv; rw [if_neg (by simp [hn])]
      · cases hv
    · rfl

example : char (Num.ofNat 0x1F600) = .ok [0x1F600] ∧ char (Num.ofNat 0xD800) = .error .badCodepoint ∧
    codepoint [0x1F600] = .ok 0x1F600 ∧ codepoint [0x61, 0x301] = .error .notSingleChar :=
  ⟨rfl, rfl, rfl, rfl⟩

/-- **C18 stringChars_spec.** One one-character string per scalar value, in order. -/
theorem C18_stringChars_spec (s : Str) :
    stringChars s = s.map (fun c => [c]) ∧
    (stringChars s).length = s.length ∧
    (stringChars s).flatten = s ∧
    ∀ i : Nat, (stringChars s)[i]? = s[i]?.map (fun c => [c]) := by
  refine ⟨rfl, by simp [stringChars], ?_, fun i => by simp [stringChars]⟩
  unfold stringChars
  induction s with
  | nil => rfl
  | cons c r ih => simp [ih]

/-- **C18 reverse.** `std.reverse` of a string lists its scalar values in reverse order
    (`List.reverse` on code points); reversing the concatenation again gives the characters
    of the original string. -/
theorem C18_reverse_involutive (s : Str) :
    reverse s = s.reverse.map (fun c => [c]) ∧
    (reverse s).flatten = s.reverse ∧
    reverse (reverse s).flatten = stringChars s := by
  have hfl : ∀ t : Str, (t.map (fun c => [c])).flatten = t := by
    intro t
    induction t with
    | nil => rfl
    | cons c r ih => simp [ih]
  refine ⟨rfl, hfl _, ?_⟩
  unfold reverse stringChars
  rw [hfl, List.reverse_reverse]

/-- `std.map` / `std.flatMap` over a string apply the function once per scalar value. -/
theorem C18_map_flatMap_spec {α : Type} (f : Str → α) (g : Str → Str) (s : Str) :
    (mapStr f s).length = s.length ∧
    (∀ i : Nat, (mapStr f s)[i]? = s[i]?.map (fun c => f [c])) ∧
    flatMapStr g s = s.flatMap (fun c => g [c]) := by
  refine ⟨by simp [mapStr], fun i => by simp [mapStr], ?_⟩
  unfold flatMapStr
  rw [List.flatMap_def]

/-- **C18 padding_counts_chars.** A `std.format` field is padded with spaces to the field
    width measured in characters: the result has `max(width, chars)` characters, and is the
    rendered text preceded (or, left-aligned, followed) by spaces only. -/
theorem C18_padding_counts_chars (s : Str) (fw : Nat) (left : Bool) :
    (pad s fw left).length = max s.length fw ∧
    pad s fw left =
      (if left then s ++ List.replicate (fw - s.length) 32
       else List.replicate (fw - s.length) 32 ++ s) := by
  unfold pad
  by_cases h : s.length < fw
  · simp only [h, if_true]
    cases left <;> simp <;> omega
  · simp only [h, if_false]
    have : fw - s.length = 0 := by omega
    rw [this]
    cases left <;> simp <;> omega

example : pad [0xE9, 0xE9] 3 false = [32, 0xE9, 0xE9] := by decide

/-! ## trim, ASCII case, startsWith / endsWith -/

theorem C18_trim_case_affix_spec (s a b : Str) :
    trim s = ((s.dropWhile isTrimChar).reverse.dropWhile isTrimChar).reverse ∧
    (asciiUpper s).length = s.length ∧ (asciiLower s).length = s.length ∧
    (∀ i : Nat, (asciiUpper s)[i]? = s[i]?.map (fun c => if 97 ≤ c ∧ c ≤ 122 then c - 32 else c)) ∧
    (∀ i : Nat, (asciiLower s)[i]? = s[i]?.map (fun c => if 65 ≤ c ∧ c ≤ 90 then c + 32 else c)) ∧
    (startsWith a b = true ↔ b <+: a) ∧
    (endsWith a b = true ↔ b <:+ a) := by
  refine ⟨rfl, by simp [asciiUpper], by simp [asciiLower], fun i => by simp [asciiUpper],
    fun i => by simp [asciiLower], ?_, ?_⟩
  · unfold startsWith; exact List.isPrefixOf_iff_prefix
  · unfold endsWith
    rw [List.isPrefixOf_iff_prefix, List.reverse_prefix]

end Rsj.Str

open Rsj.Str in
#print axioms C18_length_is_codepoints
open Rsj.Str in
#print axioms C18_index_is_nth_codepoint
open Rsj.Str in
#print axioms C18_index_invalid
open Rsj.Str in
#print axioms C18_index_huge
open Rsj.Str in
#print axioms C18_slice_spec
open Rsj.Str in
#print axioms C18_slice_errors
open Rsj.Str in
#print axioms C18_substr_spec
open Rsj.Str in
#print axioms C18_substr_errors
open Rsj.Str in
#print axioms C18_negative_zero
open Rsj.Str in
#print axioms C18_findSubstr_spec
open Rsj.Str in
#print axioms C18_join_spec
open Rsj.Str in
#print axioms C18_join_split
open Rsj.Str in
#print axioms C18_split_leftmost
open Rsj.Str in
#print axioms C18_splitLimit_spec
open Rsj.Str in
#print axioms C18_splitLimit_args
open Rsj.Str in
#print axioms C18_rsplit_rightmost
open Rsj.Str in
#print axioms C18_splitLimitR_spec
open Rsj.Str in
#print axioms C18_splitLimitR_minus_one
open Rsj.Str in
#print axioms C18_strip_spec
open Rsj.Str in
#print axioms C18_lstrip_maximal
open Rsj.Str in
#print axioms C18_rstrip_maximal
open Rsj.Str in
#print axioms C18_strReplace_spec
open Rsj.Str in
#print axioms C18_char_codepoint_inverse
open Rsj.Str in
#print axioms C18_stringChars_spec
open Rsj.Str in
#print axioms C18_reverse_involutive
open Rsj.Str in
#print axioms C18_map_flatMap_spec
open Rsj.Str in
#print axioms C18_padding_counts_chars
open Rsj.Str in
#print axioms C18_trim_case_affix_spec
