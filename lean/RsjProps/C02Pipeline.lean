/-
  C02 / C09 / C01 on the WHOLE-PIPELINE model `Rsj.Pipeline.runSource` (RsjModel/Pipeline.lean):
  source bytes → lexer model → parser model → lowering (RsjModel/Lower.lean) → analyzer model →
  evaluator model → answer line.  The checks c02 / c04 / c09 / c10 / c11 compare this function with
  the implementation on the very source text the implementation evaluates (op `pipe`), so the
  Python S-expression printer is no longer part of the trusted tie.

  (a) `C02_lower_*`: the core image of each sugared source form is the left-hand side of the
      desugaring law of RsjProps/C02.lean / C02Eval.lean, and the image of the DESUGARED source form
      is its right-hand side: the laws now speak about source programs.
  (b) `C09_pipeline_static_errors_first`: a program rejected by static analysis is answered with that
      error whatever the limit, the fuel and the trace flag are; nothing is evaluated.
  (c) `C01_pipeline_total`: the answer is always one of the listed lines; the lexer stage never ends
      in one of its panic sites (C01_lex_never_panics).
  (d) `C02_pipeline_fuel_monotone`: more fuel never changes an answer other than `gas`.
  (`C09_pipeline_no_unbound` is in RsjProps/C09Pipeline.lean: its proof family cannot be imported here.)
-/
import RsjProofs.Lower
import RsjProofs.LowerPipeline
import RsjProps.C02
import RsjProps.C02Eval
import RsjProps.C01
namespace Rsj.Pipeline
open Rsj.Eval Rsj.Lower

/-! ### (a) the lowering produces the forms the desugaring laws speak about -/

/-- **`e { … }` is `e + { … }`.**  The image of `e { members }` is `Core.objExt e' ms'` where `e'` is
    the image of `e` and `{ ms' }` the image of the object `{ members }` in the same scope; the image of
    the source `e + { members }` is `e' + { ms' }`; and the two evaluate identically. -/
theorem C02_lower_objext (libs : List (String × String)) {e : Parser.Expr} {ms : List Parser.Member}
    {osp sp : Parser.Span} {lib tail : Bool} {c : Core.Expr}
    (h : lowerE libs (.objExt e (.members ms) osp sp) lib tail = .ok c) :
    ∃ e' ms', c = .objExt e' ms' ∧
      (∀ sp1 sp2 tail', lowerE libs (.binary e .Add (.object (.members ms) sp1) sp2) lib tail' =
        .ok (.binary .add e' (.object ms'))) ∧
      ∀ (cfg : Cfg) (n : Nat) (env : EId) (t : Bool) (d : Nat),
        run cfg (n + 1) (.eval c env t d) = run cfg (n + 1) (.eval (.binary .add e' (.object ms')) env t d) := by
  obtain ⟨e', ms', he, hobj, rfl⟩ := lowerE_objExt_members libs h
  refine ⟨e', ms', rfl, ?_, fun cfg n env t d => C02_desugar_objext cfg n e' ms' env t d⟩
  intro sp1 sp2 tail'
  exact lowerE_binary_intro libs he (hobj sp1 false)

/-- **`local f(ps) = b, …; e` is `local f = function(ps) b, …; e`.** -/
theorem C02_lower_local_function (libs : List (String × String)) {name : Parser.Ident}
    {params : List Parser.Param} {psp sp : Parser.Span} {value body : Parser.Expr} {rest : List Parser.Bind}
    {lib tail : Bool} {c : Core.Expr}
    (h : lowerE libs (.local_ (.mk name true params psp value :: rest) body sp) lib tail = .ok c) :
    ∃ f ps b r body', c = .local_ (.cons f (.some ps) b r) body' ∧
      (∀ psp' sp1 sp2, lowerE libs (.local_ (.mk name false [] psp' (.func params value sp1) :: rest) body sp2) lib tail =
        .ok (.local_ (.cons f .none (.func ps b) r) body')) ∧
      ∀ (cfg : Cfg) (n : Nat) (env : EId) (t : Bool) (d : Nat),
        run cfg (n + 1) (.eval c env t d) =
        run cfg (n + 1) (.eval (.local_ (.cons f .none (.func ps b) r) body') env t d) := by
  obtain ⟨bs, body', hb, hbody, rfl⟩ := lowerE_local libs h
  obtain ⟨f, ps, b, r, hn, hps, hv, hr, rfl⟩ := lowerBinds_cons_fn libs hb
  refine ⟨f, ps, b, r, body', rfl, ?_, fun cfg n env t d => C02_desugar_local_function cfg n f ps b r body' env t d⟩
  intro psp' sp1 sp2
  have hstd : bindsBindStd (.mk name false [] psp' (.func params value sp1) :: rest) =
      bindsBindStd (.mk name true params psp value :: rest) := by
    rw [bindsBindStd_cons, bindsBindStd_cons]
  apply lowerE_local_intro libs
  · rw [hstd]
    exact lowerBinds_cons_plain libs hn (lowerE_func libs hps hv) hr
  · rw [hstd]
    exact hbody

/-- **A method field `f(ps): b` is `f: function(ps) b`** (first member of an object; the field name is an
    identifier; a method never has `+`). -/
theorem C02_lower_method (libs : List (String × String)) {i : Parser.Ident} {params : List Parser.Param}
    {psp sp : Parser.Span} {v : Parser.Visibility} {e : Parser.Expr} {rest : List Parser.Member}
    {lib tail : Bool} {c : Core.Expr}
    (h : lowerE libs (.object (.members (.field (.func (.ident i) params psp v e) :: rest)) sp) lib tail = .ok c) :
    ∃ f ps b r, c = .object (.fieldFix f false (vis v) (.some ps) b r) ∧
      (∀ sp1 sp2 tail', lowerE libs
          (.object (.members (.field (.value (.ident i) false v (.func params e sp1)) :: rest)) sp2) lib tail' =
        .ok (.object (.fieldFix f false (vis v) .none (.func ps b) r))) ∧
      ∀ (cfg : Cfg) (n : Nat) (env : EId) (t : Bool) (d : Nat),
        run cfg (n + 1) (.eval c env t d) =
        run cfg (n + 1) (.eval (.object (.fieldFix f false (vis v) .none (.func ps b) r)) env t d) := by
  rw [lowerE_object] at h
  obtain ⟨ms', hm, rfl⟩ := lowerObj_members libs h
  obtain ⟨n, ps, b, r, hn, hps, hb, hr, rfl⟩ := lowerMembers_cons_method libs hm
  obtain ⟨f, _, rfl⟩ := lowerFieldName_ident libs hn
  refine ⟨f, ps, b, r, rfl, ?_, fun cfg n env t d => C02_desugar_method cfg n f false (vis v) ps b r env t d⟩
  intro sp1 sp2 tail'
  rw [lowerE_object]
  apply lowerObj_members_intro libs
  rw [membersBindStd_field] at hr hps hb ⊢
  exact lowerMembers_cons_value_intro libs hn (lowerE_func libs hps hb) hr

/-- **`if c then a` is `if c then a else null`.** -/
theorem C02_lower_if_without_else (libs : List (String × String)) {c a : Parser.Expr} {sp : Parser.Span}
    {lib tail : Bool} {r : Core.Expr} (h : lowerE libs (.ite_ c a none sp) lib tail = .ok r) :
    ∃ c' a', r = .if_ c' a' .none ∧
      (∀ sp1 sp2, lowerE libs (.ite_ c a (some (.null sp1)) sp2) lib tail = .ok (.if_ c' a' (.some .null))) ∧
      ∀ (cfg : Cfg) (n : Nat) (env : EId) (t : Bool) (d : Nat),
        run cfg (n + 2) (.eval r env t d) = run cfg (n + 2) (.eval (.if_ c' a' (.some .null)) env t d) := by
  obtain ⟨c', a', el', hc, ha, hel, rfl⟩ := lowerE_if libs h
  rw [lowerOpt_none] at hel
  cases hel
  refine ⟨c', a', rfl, ?_, fun cfg n env t d => C02_desugar_if_without_else cfg n c' a' env t d⟩
  intro sp1 sp2
  exact lowerE_if_intro libs hc ha (lowerOpt_some libs (lowerE_null libs sp1 lib tail))

/-- **`assert c : m; e`**: condition and message are lowered outside tail position, the continuation keeps
    the tail position of the whole expression (an `assert` does not end a tail call), and the image is
    `Core.assert_` of the three images; an object-level `assert` is the member `Core.Members.assert_` of the
    images in the scope of the object's locals. -/
theorem C02_lower_assert (libs : List (String × String)) :
    (∀ {asp sp : Parser.Span} {cond body : Parser.Expr} {msg : Option Parser.Expr} {lib tail : Bool} {c : Core.Expr},
      lowerE libs (.assert_ (.mk asp cond msg) body sp) lib tail = .ok c →
      ∃ c' m' b', lowerE libs cond lib false = .ok c' ∧ lowerOpt libs msg lib false = .ok m' ∧
        lowerE libs body lib tail = .ok b' ∧ c = .assert_ c' m' b') ∧
    (∀ {asp : Parser.Span} {cond : Parser.Expr} {msg : Option Parser.Expr} {rest : List Parser.Member}
       {outer inner : Bool} {m : Core.Members},
      lowerMembers libs (.assert_ (.mk asp cond msg) :: rest) outer inner = .ok m →
      ∃ c' m' r, lowerE libs cond inner false = .ok c' ∧ lowerOpt libs msg inner false = .ok m' ∧
        lowerMembers libs rest outer inner = .ok r ∧ m = .assert_ c' m' r) :=
  ⟨fun h => lowerE_assert libs h, fun h => lowerMembers_cons_assert libs h⟩

/-- Parentheses are kept (`(e)` ↦ `Core.paren e'`, evaluating as `e'` outside tail position:
    `C02_desugar_paren`), and `tailstrict` survives only where `can_be_tailstrict` holds. -/
theorem C02_lower_paren_tailstrict (libs : List (String × String)) :
    (∀ {e : Parser.Expr} {sp : Parser.Span} {lib tail : Bool} {c : Core.Expr},
      lowerE libs (.paren e sp) lib tail = .ok c →
      ∃ e', lowerE libs e lib false = .ok e' ∧ c = .paren e' ∧
        ∀ (cfg : Cfg) (n : Nat) (env : EId) (t : Bool) (d : Nat),
          run cfg (n + 2) (.eval c env t d) = run cfg (n + 1) (.eval e' env false d)) ∧
    (∀ {f : Parser.Expr} {args : List Parser.Arg} {ts : Bool} {sp : Parser.Span} {lib tail : Bool} {c : Core.Expr},
      (if lib then stdCallee f else none) = none → lowerE libs (.call f args ts sp) lib tail = .ok c →
      ∃ f' as', c = .call f' as' (tail && ts)) := by
  refine ⟨?_, ?_⟩
  · intro e sp lib tail c h
    obtain ⟨e', he, rfl⟩ := lowerE_paren libs h
    exact ⟨e', he, rfl, fun cfg n env t d => C02_desugar_paren cfg n e' env t d⟩
  · intro f args ts sp lib tail c hf h
    obtain ⟨f', as', _, _, rfl⟩ := lowerE_call libs hf h
    exact ⟨f', as', rfl⟩

/-- A library call is lowered to `Core.builtin` only for a modelled name, positional arguments, no
    `tailstrict` and an accepted number of arguments; a rebound `std` is an ordinary variable. -/
theorem C02_lower_std (libs : List (String × String)) :
    (∀ {f : Parser.Expr} {args : List Parser.Arg} {ts : Bool} {sp : Parser.Span} {tail : Bool} {nameHex : String}
       {c : Core.Expr}, stdCallee f = some nameHex → lowerE libs (.call f args ts sp) true tail = .ok c →
      ∃ b as' name, c = .builtin b as' ∧ decStr nameHex = .ok name ∧ Core.parseBuiltin name = some b ∧
        allPositional args = true ∧ ts = false ∧ builtinArityOk b args.length = true) ∧
    (∀ {id : Parser.Ident} {sp : Parser.Span} {tail : Bool} {n : String},
      decStr id.value = .ok n → lowerE libs (.ident id sp) false tail = .ok (.var n)) := by
  refine ⟨?_, fun hn => lowerE_ident_rebound libs hn⟩
  intro f args ts sp tail nameHex c hf h
  obtain ⟨b, as', hb, _, rfl⟩ := lowerE_std_call libs hf h
  obtain ⟨name, hn, hp, hpos, hts, har⟩ := builtinOf_ok hb
  exact ⟨b, as', name, rfl, hn, hp, hpos, hts, har⟩

/-- **Number literals.**  The bit pattern `Lower.numBits digits exp` that the lowering injects with
    `Float.ofBits` is THE round-to-nearest-even binary64 image of the rational `digits · 10^exp` (the value
    `format!("{digits}e{exp}").parse::<f64>()` of analyze.rs denotes, Rust's parser being correctly rounded):
    it satisfies the specification `Dec.isNearestEven` and nothing else does (C06). -/
theorem C02_lower_number (digits : List Nat) (exp : Int) (b : Nat) :
    Dec.isNearestEven (Dec.decFrac (Dec.ofDigits (digits.map (· - 48))) exp).1
        (Dec.decFrac (Dec.ofDigits (digits.map (· - 48))) exp).2 b = true ↔ b = numBits digits exp :=
  Rsj.Dec.C06_roundDec_iff _ _ _

/-! ### (b) static errors first -/

/-- **C09 on the pipeline: static errors come first.**  If the source lexes, parses and lowers, and the
    analyzer rejects the lowered program, then `runSource` answers that static error — the same line for
    every frame limit, every fuel and with or without traces: no trace suffix, nothing was evaluated. -/
theorem C09_pipeline_static_errors_first {src : List Nat} {toks : List Lexer.Token} {ast : Parser.Expr}
    {e : Core.Expr} {er : Analyze.AErr}
    (hl : Lexer.lexAll src false = .ok toks) (hp : Parser.parse (convTokens toks) = .ok ast)
    (hlo : Lower.lower ast = .ok e) (ha : Analyze.analyze e { isObj := false, vars := ["std"] } = .error er)
    (maxStack fuel : Nat) (traces : Bool) :
    runSource maxStack fuel traces src = "err analyze " ++ Analyze.showErr er := by
  have hf : front [] Analyze.rootEnv src = .analyzeErr er := front_analyzeErr hl hp hlo ha
  unfold runSource
  rw [hf]
  simp only [Front.answer]

/-- the same for every static outcome: whatever is not an accepted program is answered independently of
    limit, fuel and trace flag -/
theorem C09_pipeline_static_answer_independent {src : List Nat}
    (h : ∀ e, front [] Analyze.rootEnv src ≠ .ok e) (ms fuel ms' fuel' : Nat) (tr tr' : Bool) :
    runSource ms fuel tr src = runSource ms' fuel' tr' src :=
  runSource_static h ms fuel ms' fuel' tr tr'

/-! ### (c) totality -/

/-- the answer lines of `runSource` -/
inductive IsAnswer (traces : Bool) : String → Prop
  | lexErr (e : Lexer.LexErr) : IsAnswer traces (lexErrLine e)
  | parseErr (sp : Parser.Span) (ex : List Parser.Expected) (act : Parser.Actual) : IsAnswer traces (parseErrLine sp ex act)
  /-- one of the parser's panic sites (`unreachable!` / `unwrap` in `make_comp`, `in super`, `parse_arg`, token
      exhaustion) or the parser model's fuel -/
  | parseFault (f : Parser.Fault) : IsAnswer traces ("panic " ++ Core.strHex ("parser: " ++ f.show))
  | unsupported (m : String) : IsAnswer traces ("unsupported " ++ Core.strHex m)
  | badPayload (w : String) : IsAnswer traces ("panic " ++ Core.strHex ("lowering: bad token payload " ++ w))
  | analyzeErr (er : Analyze.AErr) : IsAnswer traces ("err analyze " ++ Analyze.showErr er)
  | gas : IsAnswer traces (gasLine traces)
  | ok (v : String) (st : St) : IsAnswer traces ("ok " ++ v ++ (if traces then showTraces st else ""))
  /-- `err eval <Kind> <hexdetail>` / `panic <hex>` / `unsupported <hex>` of the evaluator model -/
  | evalErr (er : Err) (st : St) : IsAnswer traces (showErr er ++ (if traces then showTraces st else ""))

theorem evalLine_isAnswer (ms fuel : Nat) (tr : Bool) (e : Core.Expr) : IsAnswer tr (evalLine ms fuel tr e) := by
  unfold evalLine
  rw [evalProgram_eq_prog]
  cases programProg { maxStack := ms } fuel e {} with
  | none => exact IsAnswer.gas
  | some r =>
    obtain ⟨r, st⟩ := r
    cases r with
    | ok s => exact IsAnswer.ok s st
    | error er => exact IsAnswer.evalErr er _

/-- **C01 on the pipeline: every source is answered.**  For every byte sequence, limit, fuel and trace flag
    the answer of `runSource` is one of the lines of `IsAnswer`: a lexical / syntax / static error, an
    `unsupported` use of the library, `gas`, a value, or an evaluation error.  In particular it is never the
    rendering of one of the LEXER's panic sites or of the lexer model running out of fuel
    (`C01_lex_never_panics` = `C14_lex_total`), which is why `IsAnswer` has no constructor for them. -/
theorem C01_pipeline_total (maxStack fuel : Nat) (traces : Bool) (src : List Nat) :
    IsAnswer traces (runSource maxStack fuel traces src) := by
  have hlex := Rsj.C01.C01_lex_never_panics src false
  unfold runSource
  cases hf : front [] Analyze.rootEnv src with
  | lexErr e => exact IsAnswer.lexErr e
  | lexFault s => exact absurd hf (front_ne_lexFault hlex s)
  | parseErr sp ex act => exact IsAnswer.parseErr sp ex act
  | parseFault f => exact IsAnswer.parseFault f
  | unsupported m => exact IsAnswer.unsupported m
  | badPayload w => exact IsAnswer.badPayload w
  | analyzeErr er => exact IsAnswer.analyzeErr er
  | ok e => exact evalLine_isAnswer maxStack fuel traces e

/-! ### (d) fuel monotonicity -/

/-- **C02 on the pipeline: more fuel never changes an answer other than `gas`.** -/
theorem C02_pipeline_fuel_monotone (maxStack : Nat) {n m : Nat} (h : n ≤ m) (traces : Bool) (src : List Nat)
    (hg : runSource maxStack n traces src ≠ gasLine traces) :
    runSource maxStack m traces src = runSource maxStack n traces src := by
  cases hf : front [] Analyze.rootEnv src with
  | ok e =>
    rw [runSource_ok hf] at hg ⊢
    rw [runSource_ok hf]
    exact evalLine_fuel_mono maxStack h traces e hg
  | _ => exact runSource_static (by intro e he; rw [hf] at he; cases he) _ _ _ _ _ _

/-- two fuels that both suffice give the same answer -/
theorem C02_pipeline_deterministic (maxStack : Nat) (n m : Nat) (traces : Bool) (src : List Nat)
    (hn : runSource maxStack n traces src ≠ gasLine traces) (hm : runSource maxStack m traces src ≠ gasLine traces) :
    runSource maxStack n traces src = runSource maxStack m traces src := by
  rcases Nat.le_total n m with h | h
  · exact (C02_pipeline_fuel_monotone maxStack h traces src hn).symm
  · exact C02_pipeline_fuel_monotone maxStack h traces src hm

/-! ### Non-vacuity: the hypotheses are satisfiable by concrete sources / syntax trees -/

/-- the source `true` (bytes 116 114 117 101) is accepted by all static stages -/
theorem front_true : front [] Analyze.rootEnv [116, 114, 117, 101] = .ok .true_ :=
  front_ok (toks := [⟨.simple .True, 0, 4⟩, ⟨.eof, 4, 4⟩]) (ast := .bool true ⟨0, 4⟩) rfl rfl
    (by simp [Lower.lowerWith, Lower.lowerE]) (by simp [Analyze.analyze])

theorem runSource_true : runSource 500 3 false [116, 114, 117, 101] = "ok true" := by
  rw [runSource_ok front_true]
  rfl

/-- `C02_pipeline_fuel_monotone` applies: with 3 levels of fuel the answer is not `gas` … -/
example : runSource 500 3 false [116, 114, 117, 101] ≠ gasLine false := by
  rw [runSource_true]; decide

/-- … hence it is `ok true` with any larger fuel -/
example (m : Nat) (h : 3 ≤ m) : runSource 500 m false [116, 114, 117, 101] = "ok true" := by
  rw [C02_pipeline_fuel_monotone 500 h false _ (by rw [runSource_true]; decide), runSource_true]

/-- … while with no fuel at all the answer is `gas` (the hypothesis of the theorem is needed) -/
example : runSource 500 0 false [116, 114, 117, 101] = gasLine false := by
  rw [runSource_ok front_true]
  rfl

/-- the source `self` (bytes 115 101 108 102) is rejected statically: the hypotheses of
    `C09_pipeline_static_errors_first` hold for it -/
example : ∀ maxStack fuel traces,
    runSource maxStack fuel traces [115, 101, 108, 102] = "err analyze SelfOutsideObject -" :=
  C09_pipeline_static_errors_first (toks := [⟨.simple .Self_, 0, 4⟩, ⟨.eof, 4, 4⟩]) (ast := .selfObj ⟨0, 4⟩)
    (e := .self_) (er := .selfOutsideObject) rfl rfl (by simp [Lower.lower, Lower.lowerWith, Lower.lowerE])
    (by simp [Analyze.analyze])

/-- `{} {}` -/
example : ∃ c, lowerE [] (.objExt (.object (.members []) ⟨0, 2⟩) (.members []) ⟨3, 5⟩ ⟨0, 5⟩) true false = .ok c :=
  ⟨.objExt (.object .nil) .nil, by simp [lowerE, lowerObj, lowerMembers, extend]; rfl⟩

/-- `if true then null` -/
example : ∃ c, lowerE [] (.ite_ (.bool true ⟨3, 7⟩) (.null ⟨13, 17⟩) none ⟨0, 17⟩) true false = .ok c :=
  ⟨_, by simp [lowerE, lowerOpt]; rfl⟩

theorem f_ne_std : ("f" == "std") = false := by decide
theorem x_ne_std : ("x" == "std") = false := by decide

/-- `local f(x) = x; null` -/
example : ∃ c, lowerE [] (.local_ [.mk ⟨"f", ⟨6, 7⟩⟩ true [.mk ⟨"x", ⟨8, 9⟩⟩ none] ⟨7, 10⟩
      (.ident ⟨"x", ⟨13, 14⟩⟩ ⟨13, 14⟩)] (.null ⟨16, 20⟩) ⟨0, 20⟩) true false = .ok c :=
  ⟨.local_ (.cons "f" (.some (.cons "x" .none .nil)) (.var "x") .nil) .null, by
    simp [lowerE, lowerBinds, lowerParams, lowerOpt, bindsBindStd, paramsBindStd, isStd, decStr, f_ne_std, x_ne_std]
    rfl⟩

/-- `{ f(x): x }` -/
example : ∃ c, lowerE [] (.object (.members [.field (.func (.ident ⟨"f", ⟨2, 3⟩⟩) [.mk ⟨"x", ⟨4, 5⟩⟩ none]
      ⟨3, 6⟩ .Default (.ident ⟨"x", ⟨8, 9⟩⟩ ⟨8, 9⟩))]) ⟨0, 11⟩) true false = .ok c :=
  ⟨.object (.fieldFix "f" false .default (.some (.cons "x" .none .nil)) (.var "x") .nil), by
    simp [lowerE, lowerObj, lowerMembers, lowerFieldName, lowerParams, lowerOpt, membersBindStd, paramsBindStd, isStd,
      decStr, x_ne_std, mkField, vis]
    rfl⟩

end Rsj.Pipeline

open Rsj.Pipeline in
#print axioms C02_lower_objext
open Rsj.Pipeline in
#print axioms C02_lower_local_function
open Rsj.Pipeline in
#print axioms C02_lower_method
open Rsj.Pipeline in
#print axioms C02_lower_if_without_else
open Rsj.Pipeline in
#print axioms C02_lower_assert
open Rsj.Pipeline in
#print axioms C02_lower_paren_tailstrict
open Rsj.Pipeline in
#print axioms C02_lower_std
open Rsj.Pipeline in
#print axioms C02_lower_number
open Rsj.Pipeline in
#print axioms C09_pipeline_static_errors_first
open Rsj.Pipeline in
#print axioms C09_pipeline_static_answer_independent
open Rsj.Pipeline in
#print axioms C01_pipeline_total
open Rsj.Pipeline in
#print axioms C02_pipeline_fuel_monotone
open Rsj.Pipeline in
#print axioms C02_pipeline_deterministic
