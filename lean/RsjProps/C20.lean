/-
  C20 — parsing, encoding and hashing builtins compute the standard functions.
  Property theorems only (helper lemmas live in RsjProofs/Codec*.lean).

  Strings are lists of Unicode scalar values, byte arrays lists of naturals
  below 256 (`Bytes`).  Digests (md5/sha1/sha2/sha3 crates), `str::parse::<f64>`
  and the YAML scanner are outside the model (cross-checked by checks/c20.py).
-/
import RsjProofs.CodecBase64
import RsjProofs.CodecRadix
import RsjProofs.CodecUtf8Spec
import RsjProofs.CodecEscape
import RsjProofs.CodecJson
import RsjProofs.JsonExactSound
import RsjProofs.JsonExactComplete
namespace Rsj.Codec

/-- A byte array. -/
def Bytes (bs : List Nat) : Prop := ∀ b ∈ bs, b < 256

/-! ## base64 -/

/-- **C20 base64_roundtrip.** For every byte array the encoder succeeds (its table
    indexing never leaves the 64-entry table) and `decode_base64` maps the encoding
    back to exactly the input bytes. -/
theorem C20_base64_roundtrip (bs : List Nat) (h : Bytes bs) :
    ∃ s, encode bs = some s ∧ decode s = .ok bs := by
  refine ⟨encSpec bs, encode_eq_spec bs h, ?_⟩
  unfold decode
  rw [if_neg (by rw [encSpec_length]; omega)]
  exact decodeChunks_spec bs h

/-- **C20 base64_canonical.** The encoding of `n` bytes has length `4⌈n/3⌉`, consists
    of alphabet characters followed by exactly `(3 - n % 3) % 3` padding characters
    (`=` occurs only at the end), and is accepted by the RFC 4648 grammar. -/
theorem C20_base64_canonical (bs : List Nat) (h : Bytes bs) :
    ∃ s body, encode bs = some s ∧ s.length = 4 * ((bs.length + 2) / 3) ∧
      s = body ++ List.replicate ((3 - bs.length % 3) % 3) PAD ∧ (∀ c ∈ body, c ∈ encMap) ∧
      B64Form s := by
  obtain ⟨body, hb, hm⟩ := encSpec_canonical bs h
  refine ⟨encSpec bs, body, encode_eq_spec bs h, encSpec_length bs, hb, hm, ?_⟩
  apply decodeChunks_ok (encSpec bs) (bs := bs)
  exact decodeChunks_spec bs h

/-- **C20 base64_decode_rejects.** A string whose length is not a multiple of 4 is
    rejected with the length error; a string containing a character that is neither
    in the alphabet nor `=` is rejected. -/
theorem C20_base64_decode_rejects (cs : List Nat) :
    (cs.length % 4 ≠ 0 → decode cs = .error .length) ∧
    (∀ c ∈ cs, c ∉ encMap → c ≠ PAD → ∀ bs, decode cs ≠ .ok bs) := by
  constructor
  · intro h; unfold decode; rw [if_pos h]
  · intro c hc hna hnp bs hok
    unfold decode at hok
    split at hok
    · cases hok
    · rcases form_chars (decodeChunks_ok cs hok) c hc with h | h
      · exact hna h
      · exact hnp h

/-- **C20 base64_decode_accepts_iff.** `decode_base64` accepts exactly the strings of
    the RFC 4648 section 4 grammar: groups of four alphabet characters, the last
    group possibly `xx==` or `xxx=` (so `=` anywhere else is rejected as well). -/
theorem C20_base64_decode_accepts_iff (cs : List Nat) : (∃ bs, decode cs = .ok bs) ↔ B64Form cs := by
  constructor
  · rintro ⟨bs, h⟩
    unfold decode at h
    split at h
    · cases h
    · exact decodeChunks_ok cs h
  · intro h
    unfold decode
    rw [if_neg (by rw [form_length h]; omega)]
    exact form_decodeChunks h

/-- **C20 base64 of strings.** `std.base64(str)` fails exactly when some code point
    exceeds 255, and otherwise `std.base64Decode` returns the string. -/
theorem C20_base64_string (s : List Nat) :
    (Bytes s → ∃ e, encodeStr s = .ok e ∧ decode e = .ok s) ∧
    (¬ Bytes s → encodeStr s = .error .codepoint) := by
  constructor
  · intro h
    obtain ⟨e, he, hd⟩ := C20_base64_roundtrip s h
    refine ⟨e, ?_, hd⟩
    unfold encodeStr
    have : s.all (· < 256) = true := by
      rw [List.all_eq_true]; intro x hx; simpa using h x hx
    rw [this, he]; rfl
  · intro h
    unfold encodeStr
    have : ¬ (s.all (· < 256) = true) := by
      intro hall; apply h
      rw [List.all_eq_true] at hall
      intro x hx; simpa using hall x hx
    rw [if_neg this]

/-! ## parse_num_radix (std.parseOctal, std.parseHex, YAML 0o / 0x scalars) -/

/-- The characters of `s` are all digits of the radix. -/
def AllDigits (r : Radix) (s : List Nat) : Prop := ∀ c ∈ s, (toDigit r c).isSome = true

/-- `Σ dᵢ · rⁱ`: the exact integer a digit string denotes. -/
def radixValue (r : Radix) (s : List Nat) : Nat := valOf r.base (digs r s)

theorem allDigits_firstBad {r : Radix} {s : List Nat} (h : AllDigits r s) : firstBad r s = none := by
  induction s with
  | nil => rfl
  | cons c s ih =>
    simp only [firstBad]
    have hc := h c (by simp)
    cases hd : toDigit r c with
    | none => rw [hd] at hc; cases hc
    | some d => exact ih (fun x hx => h x (by simp [hx]))

/-- **C20 radix_rounding.** For every non-empty digit string of any length, the result
    is the exact value `Σ dᵢ·rⁱ` rounded once to the nearest double (ties to even,
    `roundNE`, characterised by `C20_roundNE_nearest`), or `Overflow` exactly when
    that rounding exceeds the largest finite double.  (This is the statement the
    sticky-bit fix makes true: digits beyond the 128-bit window are not dropped.) -/
theorem C20_radix_rounding (r : Radix) (s : List Nat) (hne : s ≠ []) (hd : AllDigits r s) :
    parseNumRadix r s =
      if roundNE (radixValue r s) ≤ maxFinite then .ok (roundNE (radixValue r s))
      else .error .overflow :=
  parse_valid r s hne (allDigits_firstBad hd)

/-- **C20 radix_exact.** Within the window (at most 32 hex / 42 octal digits) the value
    is computed exactly in the 128-bit accumulator and rounded once; it is never an
    overflow. -/
theorem C20_radix_exact (r : Radix) (s : List Nat) (hne : s ≠ []) (hd : AllDigits r s)
    (hlen : s.length ≤ r.maxDigits) :
    parseNumRadix r s = .ok (roundNE (radixValue r s)) ∧ radixValue r s < 2 ^ 128 := by
  have hlt : radixValue r s < 2 ^ 128 := by
    unfold radixValue
    have h1 := valOf_lt (digs_lt r s)
    rw [digs_length] at h1
    have h2 : r.base ^ s.length ≤ r.base ^ r.maxDigits := Nat.pow_le_pow_right (base_pos r) hlen
    have h3 := base_pow_max r
    rw [U128_eq] at h3
    omega
  refine ⟨?_, hlt⟩
  rw [C20_radix_rounding r s hne hd, if_pos (roundNE_u128 hlt)]

/-- **C20 roundNE_nearest.** `roundNE n` is the nearest double, ties to even: below `2^53`
    it is `n` itself; above, with `S = 2^(⌊log2 n⌋ - 52)` the spacing of doubles at `n`,
    it is `m · S` with `m ≤ 2^53`, at distance at most `S/2` from `n`, and `m` is even
    when the distance is exactly `S/2`. -/
theorem C20_roundNE_nearest (n : Nat) :
    (n < 2 ^ 53 → roundNE n = n) ∧
    (2 ^ 53 ≤ n → ∃ m, roundNE n = m * 2 ^ (n.log2 - 52) ∧ m ≤ 2 ^ 53 ∧
      2 * (roundNE n - n) ≤ 2 ^ (n.log2 - 52) ∧ 2 * (n - roundNE n) ≤ 2 ^ (n.log2 - 52) ∧
      ((2 * (roundNE n - n) = 2 ^ (n.log2 - 52) ∨ 2 * (n - roundNE n) = 2 ^ (n.log2 - 52)) → m % 2 = 0)) :=
  ⟨roundNE_small, roundNE_nearest⟩

/-- **C20 radix_errors.** The empty string is `Empty`; otherwise the first character
    that is not a digit of the radix is reported (wherever it stands: inside the
    window, beyond it, after leading zeros, multi-byte or not). -/
theorem C20_radix_errors (r : Radix) :
    parseNumRadix r [] = .error .empty ∧
    (∀ pre c post, AllDigits r pre → toDigit r c = none →
      parseNumRadix r (pre ++ c :: post) = .error (.invalidDigit c)) := by
  constructor
  · rfl
  · intro pre c post hp hc
    apply parse_invalid
    rw [firstBad_append, allDigits_firstBad hp]
    simp [Option.orElse, firstBad, hc]

/-- **C20 radix_no_panic.** The model of `parse_num_radix` never reaches its panic
    outcome (overflow of the `u128` accumulator; there is no slicing any more): every
    input is answered with a number, `Empty`, `InvalidDigit` or `Overflow`. -/
theorem C20_radix_no_panic (r : Radix) (s : List Nat) : parseNumRadix r s ≠ .error .panic := by
  cases s with
  | nil => intro h; cases h
  | cons c s =>
    cases hb : firstBad r (c :: s) with
    | some x => rw [parse_invalid r _ hb]; intro h; cases h
    | none =>
      rw [parse_valid r _ (by simp) hb]
      split <;> (intro h; cases h)

/-- **C20 parseInt.** `std.parseInt`: an optional leading `-` (nothing else: `+`, blanks and
    non-ASCII digits are invalid), then ASCII digits.  No digits → `Empty`; the first
    character that is not an ASCII digit → `InvalidDigit` of it; otherwise the decimal value
    `Σ dᵢ·10ⁱ` rounded once to the nearest double (the rounding itself is
    `str::parse::<f64>`, trusted to be correct), negated after `-`, or `Overflow`. -/
theorem C20_parseInt (digits : List Nat) (neg : Bool) (hd : ∀ c ∈ digits, IsDec c) :
    let sign := if neg then [45] else []
    (digits = [] → parseInt (sign ++ digits) = .error .empty) ∧
    (digits ≠ [] → parseInt (sign ++ digits) =
      if roundNE (valOf 10 (digits.map (· - 48))) ≤ maxFinite
        then .ok (neg, roundNE (valOf 10 (digits.map (· - 48)))) else .error .overflow) ∧
    (∀ c post, ¬ IsDec c → (c = 45 → neg = true ∨ digits ≠ []) →
      parseInt (sign ++ digits ++ c :: post) = .error (.invalidDigit c)) := by
  intro sign
  have hhead : ∀ rest : List Nat, (neg = false → ∀ x, rest.head? = some x → x ≠ 45) →
      parseInt (sign ++ rest) = (let sub := rest
        if sub.isEmpty then .error .empty
        else match firstNonDigit sub with
          | some c => .error (.invalidDigit c)
          | none => if roundNE (decValue sub) ≤ maxFinite then .ok (neg, roundNE (decValue sub))
              else .error .overflow) := by
    intro rest hr
    cases neg with
    | true =>
      show parseInt (45 :: rest) = _
      unfold parseInt
      simp
      split
      · rfl
      · cases firstNonDigit rest <;> rfl
    | false =>
      show parseInt rest = _
      unfold parseInt
      have : (rest.head? == some 45) = false := by
        cases rest with
        | nil => rfl
        | cons x xs =>
          have := hr rfl x rfl
          simp [this]
      simp [this]
      split
      · rfl
      · cases firstNonDigit rest <;> rfl
  refine ⟨?_, ?_, ?_⟩
  · intro h; subst h
    rw [hhead [] (by intro _ x hx; cases hx)]
    rfl
  · intro hne
    have hh : neg = false → ∀ x, digits.head? = some x → x ≠ 45 := by
      intro _ x hx
      have := hd x (List.mem_of_mem_head? hx)
      unfold IsDec at this; omega
    rw [hhead digits hh]
    have : digits.isEmpty = false := by cases digits <;> simp_all
    simp only [this, Bool.false_eq_true, if_false, firstNonDigit_none hd, decValue_eq]
  · intro c post hc h45
    have hh : neg = false → ∀ x, (digits ++ c :: post).head? = some x → x ≠ 45 := by
      intro hneg x hx
      cases hdg : digits with
      | nil =>
        rw [hdg] at hx
        simp only [List.nil_append, List.head?_cons, Option.some.injEq] at hx
        subst hx
        intro h
        rcases h45 h with hn | hn
        · rw [hneg] at hn; cases hn
        · exact hn hdg
      | cons y ys =>
        rw [hdg] at hx
        simp only [List.cons_append, List.head?_cons, Option.some.injEq] at hx
        subst hx
        have := hd y (by rw [hdg]; simp)
        unfold IsDec at this; omega
    rw [List.append_assoc, hhead _ hh]
    have : (digits ++ c :: post).isEmpty = false := by cases digits <;> simp
    simp only [this, Bool.false_eq_true, if_false, firstNonDigit_split hd hc]

example : parseInt ("-0".toList.map Char.toNat) = .ok (true, 0) := by decide +kernel
example : parseInt ("+1".toList.map Char.toNat) = .error (.invalidDigit 43) := by decide +kernel
example : parseInt ("9007199254740993".toList.map Char.toNat) = .ok (false, 9007199254740992) := by
  decide +kernel

/-! Non-vacuity: a 34-digit hex string whose 133rd bit decides the rounding
    (`0x8000000000000400…01`, the F10 input): the sticky digit makes it round up. -/
example : AllDigits .hex ("800000000000040000000000000000001".toList.map Char.toNat) := by
  unfold AllDigits; decide
example : parseNumRadix .hex ("800000000000040000000000000000001".toList.map Char.toNat)
    = .ok ((2 ^ 52 + 1) * 2 ^ 79) := by decide +kernel
example : parseNumRadix .hex ("800000000000040000000000000000000".toList.map Char.toNat)
    = .ok (2 ^ 52 * 2 ^ 79) := by decide +kernel
example : Bytes [0, 255, 16] ∧ encode [0, 255, 16] = some ("AP8Q".toList.map Char.toNat) := by
  unfold Bytes; decide

/-! ## UTF-8 (std.encodeUTF8, std.decodeUTF8 = String::from_utf8_lossy) -/

/-- **C20 utf8_roundtrip.** For every string (list of Unicode scalar values),
    lossy decoding of its UTF-8 encoding returns the string: no U+FFFD is introduced
    and nothing is lost. -/
theorem C20_utf8_roundtrip (s : List Nat) (hs : ∀ c ∈ s, Scalar c) :
    decodeLossy (encodeUtf8 s) = s :=
  decodeLossyFuel_roundtrip s hs _ (encodeUtf8_length_ge s)

/-- **C20 decode_lossy_spec.** For *every* list of numbers (valid UTF-8 or not) the
    decoder's answer satisfies the specification `LossySpec`: the input splits into
    consecutive chunks, each either the well-formed encoding of a scalar value
    (decoded to that scalar) or — where no well-formed sequence starts — a *maximal
    subpart* (`MaxSubpart`: one byte, or an initial part of a well-formed sequence that
    the next byte does not continue) decoded to one U+FFFD; and every element of the
    answer is a Unicode scalar value. -/
theorem C20_decode_lossy_spec (bs : List Nat) :
    LossySpec bs (decodeLossy bs) ∧ ∀ c ∈ decodeLossy bs, Scalar c :=
  ⟨decodeLossyFuel_spec _ bs (Nat.le_refl _), decodeLossyFuel_scalar _ bs⟩

/-- **C20 decode_lossy_unique.** The specification is functional: whatever answer satisfies
    `LossySpec` for an input is the decoder's answer.  Together with
    `C20_decode_lossy_spec`: `std.decodeUTF8` computes *the* U+FFFD-per-maximal-subpart
    decoding. -/
theorem C20_decode_lossy_unique (bs out : List Nat) (h : LossySpec bs out) : decodeLossy bs = out :=
  lossySpec_unique h _ (Nat.le_refl _)

/-- The encoder produces bytes. -/
theorem C20_utf8_encode_bytes (s : List Nat) (hs : ∀ c ∈ s, Scalar c) : Bytes (encodeUtf8 s) := by
  intro b hb
  unfold encodeUtf8 at hb
  rw [List.mem_flatMap] at hb
  obtain ⟨c, hc, hbc⟩ := hb
  have hsc := hs c hc
  unfold Scalar at hsc
  rcases encode_shape (hs c hc) with ⟨h, e⟩ | ⟨b0, c1, e, hl, h1⟩ | ⟨b0, c1, c2, e, hl, h1, h2⟩ |
    ⟨b0, c1, c2, c3, e, hl, h1, h2, h3⟩ <;> rw [e] at hbc <;>
    simp only [List.mem_cons, List.not_mem_nil, or_false] at hbc
  · omega
  · rw [isCont_iff] at h1; unfold Lead2 at hl; rcases hbc with rfl | rfl <;> omega
  · rw [isCont_iff] at h2; unfold Lead3 at hl
    have := (second3_iff b0 c1).mp h1
    rcases hbc with rfl | rfl | rfl
    · omega
    · split at this
      · omega
      · split at this <;> omega
    · omega
  · rw [isCont_iff] at h2 h3; unfold Lead4 at hl
    have := (second4_iff b0 c1).mp h1
    rcases hbc with rfl | rfl | rfl | rfl
    · omega
    · split at this
      · omega
      · split at this <;> omega
    · omega
    · omega

/-! ## Escapers -/

/-- **C20 escape_bash_inverse.** Removing the quoting of `std.escapeStringBash(s)` by
    the POSIX shell rules (`shUnquote`: single quotes literal, double quotes, backslash)
    yields exactly `s`, as one word, with no expansion character left unquoted. -/
theorem C20_escape_bash_inverse (s : List Nat) : shUnquote .plain (escBash s) = some s :=
  shUnquote_esc s

/-- **C20 escape_dollars_inverse.** Reading `$$` as `$` recovers `s`; the output never
    contains a lone `$`. -/
theorem C20_escape_dollars_inverse (s : List Nat) : unDollars (escDollars s) = some s :=
  unDollars_esc s

/-- **C20 escape_xml_inverse.** Resolving the five predefined entities recovers `s`;
    the output contains no raw `<`, `>`, `"`, `'` and no `&` other than the start of one
    of these entities (the strict reader `unXml` rejects all of those). -/
theorem C20_escape_xml_inverse (s : List Nat) : unXml (escXml s) = some s :=
  unXml_esc s

/-- **C20 escape_json_inverse.** `std.escapeStringJson(s)` (and `escapeStringPython`,
    which is the same function) is an RFC 8259 string literal — quoted, no raw control
    character, only the escapes of section 7 — that reads back as `s`. -/
theorem C20_escape_json_inverse (s : List Nat) : unJson (escJson s) = some s :=
  unJson_esc s

/-- **C20 hex_string.** `hash_to_hex_string` writes two lowercase hex digits per byte,
    most significant nibble first (reading them back gives the bytes). -/
theorem C20_hex_string (bs : List Nat) (h : Bytes bs) :
    (hexString bs).length = 2 * bs.length ∧
    (∀ c ∈ hexString bs, (48 ≤ c ∧ c ≤ 57) ∨ (97 ≤ c ∧ c ≤ 102)) ∧
    unHex (hexString bs) = some bs :=
  ⟨hexString_length bs, hexString_lower bs h, unHex_hexString bs h⟩

/-! ## std.parseJson (model `Rsj.Json.parseJson` of the C05 work package) -/

/-- **C20 parseJson_inverts_escape.** `std.parseJson(std.escapeStringJson(s))` is the
    string `s`, for every string: the JSON decoder inverts the JSON string encoder.
    (Also: this module's model of the escaper is the same function as C05's.) -/
theorem C20_parseJson_inverts_escape (s : List Nat) :
    Rsj.Json.parseJson (escJson s) = .ok (.str s) ∧ escJson s = Rsj.Json.escape s :=
  ⟨parseJson_escJson s, escJson_eq s⟩

/-- **C20 parseJson_no_duplicate_keys.** Every value `std.parseJson` returns has pairwise
    distinct member names in every object, at every depth: a document with a repeated
    name is never accepted. -/
theorem C20_parseJson_no_duplicate_keys (s : List Nat) (v : Rsj.Json.JVal)
    (h : Rsj.Json.parseJson s = .ok v) : NoDupKeys v :=
  parseJson_noDup h

/-- **C20 parseJson_exact** (the former unproved `C20_parseJson_exact_full`). `std.parseJson`
    accepts exactly the RFC 8259 texts (`JText`, a declarative rendering of the ABNF with
    the denoted value, numbers within the finite doubles, no lone surrogate escape) that
    have no duplicate member names, and returns the value they denote.
    `→`: `C20_parseJson_sound` and `C20_parseJson_no_duplicate_keys`; `←`:
    `C20_parseJson_complete` (both stated below; lemmas in RsjProofs/JsonExact*.lean). -/
theorem C20_parseJson_exact :
    ∀ (s : List Nat) (v : Rsj.Json.JVal), Rsj.Json.parseJson s = .ok v ↔ (JText s v ∧ NoDupKeys v) :=
  fun _ _ => ⟨fun h => ⟨Rsj.Json.parseJson_sound h, parseJson_noDup h⟩,
    fun h => Rsj.Json.parseJson_complete h.1 h.2⟩

/-- The statement under its old name (kept so that references to the "full statement" stay
    valid); it is discharged by `C20_parseJson_exact`. -/
def C20_parseJson_exact_full : Prop :=
  ∀ (s : List Nat) (v : Rsj.Json.JVal), Rsj.Json.parseJson s = .ok v ↔ (JText s v ∧ NoDupKeys v)

theorem C20_parseJson_exact_full_holds : C20_parseJson_exact_full := C20_parseJson_exact

/-- **Proved part**: the decoder inverts the string encoder, and accepted documents
    have no duplicate member names. -/
theorem C20_parseJson_exact_partial :
    (∀ s : List Nat, Rsj.Json.parseJson (escJson s) = .ok (.str s)) ∧
    (∀ (s : List Nat) (v : Rsj.Json.JVal), Rsj.Json.parseJson s = .ok v → NoDupKeys v) :=
  ⟨parseJson_escJson, fun _ _ h => parseJson_noDup h⟩

/-- **C20 parseJson_sound.** Every text `std.parseJson` accepts is a JSON text of RFC 8259
    (`JText`: `ws value ws` of the ABNF, numbers within the finite doubles, `\u` escapes
    only as scalar values or surrogate pairs) and the value returned is the value that
    text denotes.  Proof: invariant over the explicit stack of `parse_json` (`Rsj.Json.Pre`:
    the consumed prefix is a well-formed partial document whose open containers are the
    stack frames), inversion of `numScan` / `lexStrBody` for the scalars. -/
theorem C20_parseJson_sound (s : List Nat) (v : Rsj.Json.JVal) (h : Rsj.Json.parseJson s = .ok v) :
    JText s v :=
  Rsj.Json.parseJson_sound h

/-- **C20 parseJson_complete.** Every JSON text of RFC 8259 (`JText`) whose objects have
    pairwise distinct member names at every depth is accepted by `std.parseJson`, which
    returns the value the text denotes (same number tokens, same code points, same member
    order).  Proof: induction on the derivation of `JValue` / `JElements` / `JMembers`,
    generalised over the parser's stack and the text that follows. -/
theorem C20_parseJson_complete (s : List Nat) (v : Rsj.Json.JVal) (h : JText s v) (hnd : NoDupKeys v) :
    Rsj.Json.parseJson s = .ok v :=
  Rsj.Json.parseJson_complete h hnd

/-- **C20 parseJson_rejects_iff.** `std.parseJson` fails (with one of the `ParseError`
    kinds; "out of fuel" is not an outcome) exactly on the texts that are not a
    duplicate-free JSON text of RFC 8259. -/
theorem C20_parseJson_rejects_iff (s : List Nat) :
    (∃ e, Rsj.Json.parseJson s = .error e ∧ e ≠ .fuel) ↔ ¬ ∃ v, JText s v ∧ NoDupKeys v := by
  constructor
  · rintro ⟨e, he, _⟩ ⟨v, hv⟩
    rw [(C20_parseJson_exact s v).mpr hv] at he
    cases he
  · intro h
    cases hp : Rsj.Json.parseJson s with
    | error e => exact ⟨e, rfl, fun hf => Rsj.Json.parseJson_nf s (hf ▸ hp)⟩
    | ok v => exact absurd ⟨v, (C20_parseJson_exact s v).mp hp⟩ h

/-- **C20 parseJson_unambiguous.** A text denotes at most one duplicate-free value: the
    grammar `JText` is unambiguous on the documents the parser accepts. -/
theorem C20_parseJson_unambiguous (s : List Nat) (v v' : Rsj.Json.JVal) (h : JText s v) (hnd : NoDupKeys v)
    (h' : JText s v') (hnd' : NoDupKeys v') : v = v' := by
  have a := C20_parseJson_complete s v h hnd
  have b := C20_parseJson_complete s v' h' hnd'
  rw [a] at b
  cases b
  rfl

/-! Non-vacuity of `C20_parseJson_complete` / `C20_parseJson_exact`: the grammar and the
    no-duplicate predicate are inhabited by a nested document with whitespace, an escape,
    a surrogate pair, a negative exponent number, an array and an object:
    ` {"a\n" : [1.5e-3 , "\ud83d\ude00"], "b":{ }}` followed by a newline. -/
example : ∃ s v, JText s v ∧ NoDupKeys v ∧ Rsj.Json.parseJson s = .ok v := by
  have hnum : JNumber [49, 46, 53, 101, 45, 51] :=
    JNumber.mk (sign := []) (int := [49]) (frac := [46, 53]) (exp := [101, 45, 51]) (Or.inl rfl)
      (.pos (by decide) (by decide) (by intro c hc; cases hc))
      (Or.inr ⟨[53], ⟨by simp, by intro c hc; simp at hc; omega⟩, rfl⟩)
      (Or.inr ⟨101, [45], [51], Or.inl rfl, Or.inr (Or.inr rfl), ⟨by simp, by intro c hc; simp at hc; omega⟩, rfl⟩)
  have hov : Rsj.Json.overflows [49, 46, 53, 101, 45, 51] = false := by decide
  have hsur : JChars [92, 117, 100, 56, 51, 100, 92, 117, 100, 101, 48, 48] [0x1F600] :=
    JChars.pair (a := 100) (b := 56) (c := 51) (d := 100) (a' := 100) (b' := 101) (c' := 48) (d' := 48)
      (hi := 0xD83D) (lo := 0xDE00) (by decide) (by decide) (by decide) (by decide) (by decide) (by decide) .nil
  have hkey : JChars [97, 92, 110] [97, 10] :=
    .raw (by decide) (by decide) (by decide) (.esc (e := 110) (v := 10) (by decide) (by decide) .nil)
  have hws : IsWs [32] := by intro c hc; simp at hc; omega
  have hnil : IsWs [] := by intro c hc; cases hc
  have harr : JValue (91 :: (([] ++ [49, 46, 53, 101, 45, 51] ++ [32] ++ 44 ::
      ([32] ++ (34 :: ([92, 117, 100, 56, 51, 100, 92, 117, 100, 101, 48, 48] ++ [34])) ++ [])) ++ [93]))
      (.arr [.num [49, 46, 53, 101, 45, 51], .str [0x1F600]]) :=
    .arr (.cons hnil hws (.num hnum hov) (.one hws hnil (.str hsur)))
  have hobj := JValue.obj (JMembers.cons hnil hws hws hnil hkey harr
    (JMembers.one hws hnil hnil hnil (JChars.raw (c := 98) (by decide) (by decide) (by decide) .nil)
      (JValue.objEmpty hws)))
  have hnd : NoDupKeys (.obj [([97, 10], .arr [.num [49, 46, 53, 101, 45, 51], .str [0x1F600]]),
      ([98], .obj [])]) :=
    .obj (by decide) (by
      intro p hp
      simp only [List.mem_cons, List.not_mem_nil, or_false] at hp
      rcases hp with rfl | rfl
      · exact .arr (by
          intro v hv
          simp only [List.mem_cons, List.not_mem_nil, or_false] at hv
          rcases hv with rfl | rfl
          · exact .num _
          · exact .str _)
      · exact .obj (by simp) (by intro p hp; cases hp))
  have htext : JText _ _ := ⟨[32], _, [10], hws, (by intro c hc; simp at hc; omega), rfl, hobj⟩
  exact ⟨_, _, htext, hnd, C20_parseJson_complete _ _ htext hnd⟩

/-! Non-vacuity: the hypothesis `parseJson s = .ok v` is satisfiable (closed evaluation of
    the parser model inside Lean is too slow to be used as an example; the general
    theorem provides the instance). -/
example : ∃ s v, Rsj.Json.parseJson s = .ok v ∧ NoDupKeys v :=
  ⟨escJson [97, 34, 10], .str [97, 34, 10], (C20_parseJson_inverts_escape _).1, .str _⟩

/-! Non-vacuity for the lossy decoder: `61 E1 80 | C0 | F0 90 80 | 41` is `a`, one U+FFFD
    for the truncated three-byte sequence, one for the invalid lead, one for the
    truncated four-byte sequence, then `A`. -/
example : decodeLossy [0x61, 0xE1, 0x80, 0xC0, 0xF0, 0x90, 0x80, 0x41] = [0x61, 0xFFFD, 0xFFFD, 0xFFFD, 0x41] := by
  decide
example : escBash [97, 39, 98] = "'a'\"'\"'b'".toList.map Char.toNat := by decide

end Rsj.Codec

open Rsj.Codec in
#print axioms C20_base64_roundtrip
open Rsj.Codec in
#print axioms C20_base64_canonical
open Rsj.Codec in
#print axioms C20_base64_decode_rejects
open Rsj.Codec in
#print axioms C20_base64_decode_accepts_iff
open Rsj.Codec in
#print axioms C20_base64_string
open Rsj.Codec in
#print axioms C20_radix_rounding
open Rsj.Codec in
#print axioms C20_radix_exact
open Rsj.Codec in
#print axioms C20_roundNE_nearest
open Rsj.Codec in
#print axioms C20_radix_errors
open Rsj.Codec in
#print axioms C20_radix_no_panic
open Rsj.Codec in
#print axioms C20_utf8_roundtrip
open Rsj.Codec in
#print axioms C20_decode_lossy_spec
open Rsj.Codec in
#print axioms C20_utf8_encode_bytes
open Rsj.Codec in
#print axioms C20_escape_bash_inverse
open Rsj.Codec in
#print axioms C20_escape_dollars_inverse
open Rsj.Codec in
#print axioms C20_escape_xml_inverse
open Rsj.Codec in
#print axioms C20_escape_json_inverse
open Rsj.Codec in
#print axioms C20_hex_string
open Rsj.Codec in
#print axioms C20_parseJson_inverts_escape
open Rsj.Codec in
#print axioms C20_parseJson_no_duplicate_keys
open Rsj.Codec in
#print axioms C20_parseJson_exact_partial
open Rsj.Codec in
#print axioms C20_parseJson_sound
open Rsj.Codec in
#print axioms C20_parseJson_complete
open Rsj.Codec in
#print axioms C20_parseJson_exact
open Rsj.Codec in
#print axioms C20_parseJson_exact_full_holds
open Rsj.Codec in
#print axioms C20_parseJson_rejects_iff
open Rsj.Codec in
#print axioms C20_parseJson_unambiguous
open Rsj.Codec in
#print axioms C20_parseInt
open Rsj.Codec in
#print axioms C20_decode_lossy_unique
