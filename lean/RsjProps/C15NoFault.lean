/-
  C15 on the pipeline: the token list the lexer model produces is a well-formed parser input, so
  the parser stage never ends in a `Fault` (panic site / fuel) on lexed source text.
  Helper lemmas: RsjProofs/ParserNoFault1..4.lean.
-/
import RsjProofs.ParserNoFault4
namespace Rsj.Pipeline

/-- **C15 lexed_tokens_ok.** Whatever `lex_to_eof(false)` returns, converted to the parser's token
    type: it ends in its only end-of-file token, and its spans are ordered (non-inverted,
    non-overlapping) — the hypotheses of `C15_parse_never_faults` and `C15_spans_nested`. -/
theorem C15_lexed_tokens_ok {src : List Nat} {ts : List Lexer.Token}
    (h : Lexer.lexAll src false = .ok ts) : Parser.TokensOk (convTokens ts) :=
  lexed_tokensOk h

/-- **C15 parse_lexed_never_faults.** On every lexed source the parser answers a tree or a syntax
    error. -/
theorem C15_parse_lexed_never_faults {src : List Nat} {ts : List Lexer.Token}
    (h : Lexer.lexAll src false = .ok ts) :
    (∃ e, Parser.parse (convTokens ts) = .ok e) ∨
      (∃ sp ex act, Parser.parse (convTokens ts) = .expected sp ex act) :=
  Parser.parse_nf (lexed_tokensOk h).eofLast

/-- the static stages never answer `parseFault` -/
theorem C15_front_no_parse_fault (libs : List (String × String)) (env : Analyze.AEnv) (src : List Nat)
    (f : Parser.Fault) : front libs env src ≠ .parseFault f :=
  front_ne_parseFault libs env src f

/-- non-vacuity: `true` lexes, and its tokens are well formed -/
example : Parser.TokensOk (convTokens [⟨.simple .True, 0, 4⟩, ⟨.eof, 4, 4⟩]) :=
  C15_lexed_tokens_ok (src := [116, 114, 117, 101]) (by decide)

end Rsj.Pipeline

open Rsj.Pipeline in
#print axioms C15_lexed_tokens_ok
open Rsj.Pipeline in
#print axioms C15_parse_lexed_never_faults
open Rsj.Pipeline in
#print axioms C15_front_no_parse_fault
