/-
  C01 on the whole-pipeline model, with the LOWERING stage closed: `C01_pipeline_answers2`
  (RsjProps/C01Pipeline2.lean) still had one residual panic-class answer, `frontFault` — a token payload
  that does not decode, or a tree shape the lowering rejects.  Both are gone:
   * payloads: `Rsj.Pipeline.convKind` writes the payload of a token so that `Rsj.Lower` reads it back with a
     TOTAL function (identifiers, strings, text blocks: the text itself; numbers: the decimal numeral of the
     bit pattern of the double), so no function of the lowering produces `badPayload`;
   * shape: every tree the parser produces is in `Frag2` (`C15_parser_output_well_formed`), whose `NodeWF`
     says that the clauses of a comprehension start with `for`, so the `malformed` guard is unreachable
     (RsjProofs/LowerNoMalformed.lean: on a `Frag2` tree the only error of the lowering is `unsupported`).
  Hence, for EVERY source byte string, the answer of `runSource` is a lexical / syntax / static error line,
  `unsupported`, `gas`, a value, a run-time error — or the `panic` line of the NaN comparison; nothing else.
-/
import RsjProps.C01Pipeline2
import RsjProofs.LowerNoMalformed
namespace Rsj.Pipeline
open Rsj.Eval

/-- **On parser output the lowering answers a core program or `unsupported`** — never `malformed`, never
    `badPayload`. -/
theorem C01_lower_parse_only_unsupported (libs : List (String × String)) {toks : List Parser.Token}
    {ast : Parser.Expr} (h : Parser.parse toks = .ok ast) {e : Lower.LowerErr}
    (he : Lower.lowerWith libs ast = .error e) : ∃ m, e = .unsupported m :=
  Lower.lowerWith_parse_only_unsupported libs h he

/-- the static stages never answer the lowering fault -/
theorem C01_front_no_lowering_fault (libs : List (String × String)) (env : Analyze.AEnv) (src : List Nat)
    (w : String) : front libs env src ≠ .badPayload w := by
  unfold front
  cases Lexer.lexAll src false with
  | err e => simp
  | panic s => simp
  | fuel => simp
  | ok toks =>
    simp only []
    cases hp : Parser.parse (convTokens toks) with
    | expected sp ex act => simp
    | fault f => simp
    | ok ast =>
      simp only []
      cases hlo : Lower.lowerWith libs ast with
      | error le =>
        obtain ⟨m, rfl⟩ := Lower.lowerWith_parse_only_unsupported libs hp hlo
        simp
      | ok e' =>
        simp only []
        cases Analyze.analyze e' env with
        | error er => simp
        | ok u => simp

/-- The answer lines of `runSource`.  `panic <hex>` is answered only by `evalErr`, and there only for the
    message `partial_cmp of NaN`. -/
inductive IsAnswer3 (traces : Bool) : String → Prop
  | lexErr (e : Lexer.LexErr) : IsAnswer3 traces (lexErrLine e)
  | parseErr (sp : Parser.Span) (ex : List Parser.Expected) (act : Parser.Actual) :
      IsAnswer3 traces (parseErrLine sp ex act)
  | unsupported (m : String) : IsAnswer3 traces ("unsupported " ++ Core.strHex m)
  | analyzeErr (er : Analyze.AErr) : IsAnswer3 traces ("err analyze " ++ Analyze.showErr er)
  | gas : IsAnswer3 traces (gasLine traces)
  | ok (v : String) (st : St) : IsAnswer3 traces ("ok " ++ v ++ (if traces then showTraces st else ""))
  /-- an evaluation outcome that is not a value: `err eval …`, `unsupported …`, or — the ONLY modelled panic of
      the whole pipeline that is not excluded — `panic` of the message `partial_cmp of NaN` -/
  | evalErr (er : Err) (st : St) (h : ∀ m, er = .internal m → NanPanic m) :
      IsAnswer3 traces (showErr er ++ (if traces then showTraces st else ""))

/-- the new classification refines the previous ones -/
theorem IsAnswer3.toOld {traces : Bool} {s : String} (h : IsAnswer3 traces s) : IsAnswerNoPanic2 traces s := by
  cases h with
  | lexErr e => exact .lexErr e
  | parseErr sp ex act => exact .parseErr sp ex act
  | unsupported m => exact .unsupported m
  | analyzeErr er => exact .analyzeErr er
  | gas => exact .gas
  | ok v st => exact .ok v st
  | evalErr er st h => exact .evalErr er st h

/-- **C01 on the pipeline, every source, every stage closed.**  For every byte string, frame limit, fuel and
    trace flag the answer of `runSource` is one of the lines of `IsAnswer3`: a lexical / syntax / static error,
    `unsupported`, `gas`, a value, a run-time error — or the `panic` line of the NaN comparison.  No panic
    site of the LEXER (`C14_lex_total`), none of the PARSER and its fuel always suffices
    (`C15_parse_never_faults`), no fault of the LOWERING (`C01_front_no_lowering_fault`), none of the ANALYZER
    (it has no such outcome), and of the EVALUATOR only the comparison of a NaN
    (`C01_eval_no_internal_error_except_nan` on `lower_coreShaped`). -/
theorem C01_pipeline_answers3 (maxStack fuel : Nat) (traces : Bool) (src : List Nat) :
    IsAnswer3 traces (runSource maxStack fuel traces src) := by
  have hlex := Rsj.Lexer.C14_lex_total src false
  cases hf : front [] Analyze.rootEnv src with
  | lexErr e => unfold runSource; rw [hf]; exact IsAnswer3.lexErr e
  | lexFault s => exact absurd hf (front_ne_lexFault hlex s)
  | parseErr sp ex act => unfold runSource; rw [hf]; exact IsAnswer3.parseErr sp ex act
  | parseFault f => exact absurd hf (front_ne_parseFault [] Analyze.rootEnv src f)
  | unsupported m => unfold runSource; rw [hf]; exact IsAnswer3.unsupported m
  | badPayload w => exact absurd hf (C01_front_no_lowering_fault [] Analyze.rootEnv src w)
  | analyzeErr er => unfold runSource; rw [hf]; exact IsAnswer3.analyzeErr er
  | ok e =>
    rcases C01_pipeline_no_panic_except_nan hf maxStack fuel traces with h | ⟨v, st, h⟩ | ⟨er, st, h, hn⟩
    · rw [h]; exact IsAnswer3.gas
    · rw [h]; exact IsAnswer3.ok v st
    · rw [h]; exact IsAnswer3.evalErr er st hn

/-- the static stages alone (`runLoad`, `pipe load`): `ok`, a lexical / syntax / static error, or
    `unsupported` -/
theorem C01_pipeline_load_answers (src : List Nat) :
    runLoad src = "ok" ∨ (∃ e, runLoad src = lexErrLine e) ∨ (∃ sp ex act, runLoad src = parseErrLine sp ex act) ∨
      (∃ m, runLoad src = "unsupported " ++ Core.strHex m) ∨
      (∃ er, runLoad src = "err analyze " ++ Analyze.showErr er) := by
  have hlex := Rsj.Lexer.C14_lex_total src false
  unfold runLoad
  cases hf : front [] Analyze.rootEnv src with
  | lexErr e => exact .inr (.inl ⟨e, by simp only [Front.answer]⟩)
  | lexFault s => exact absurd hf (front_ne_lexFault hlex s)
  | parseErr sp ex act => exact .inr (.inr (.inl ⟨sp, ex, act, by simp only [Front.answer]⟩))
  | parseFault f => exact absurd hf (front_ne_parseFault [] Analyze.rootEnv src f)
  | unsupported m => exact .inr (.inr (.inr (.inl ⟨m, by simp only [Front.answer]⟩)))
  | badPayload w => exact absurd hf (C01_front_no_lowering_fault [] Analyze.rootEnv src w)
  | analyzeErr er => exact .inr (.inr (.inr (.inr ⟨er, by simp only [Front.answer]⟩)))
  | ok e => exact .inl (by simp only [Front.answer])

/-- non-vacuity: an array comprehension (`[x for x in []]` as a tree) is lowered, its guard passing -/
example : ∃ c, Lower.lowerE [] (.arrayComp (.ident ⟨"x", ⟨1, 2⟩⟩ ⟨1, 2⟩)
    [.for_ ⟨"x", ⟨7, 8⟩⟩ (.array [] ⟨12, 14⟩)] ⟨0, 15⟩) true false = .ok c :=
  ⟨.arrayComp (.var "x") (.for_ "x" (.array .nil) .nil), by
    simp [Lower.lowerE, Lower.lowerSpecs, Lower.lowerExprs, Lower.specsHeadFor, Lower.isStd, Lower.decStr]
    rfl⟩

/-- … and without the leading `for` (a tree the parser never builds) the guard answers `malformed`: the
    theorem about parser output is needed -/
example : Lower.lowerE [] (.arrayComp (.null ⟨1, 5⟩) [.if_ (.bool true ⟨9, 13⟩)] ⟨0, 14⟩) true false =
    .error Lower.noLeadingFor := by
  simp [Lower.lowerE, Lower.specsHeadFor]

end Rsj.Pipeline

open Rsj.Pipeline in
#print axioms C01_lower_parse_only_unsupported
open Rsj.Pipeline in
#print axioms C01_front_no_lowering_fault
open Rsj.Pipeline in
#print axioms C01_pipeline_answers3
open Rsj.Pipeline in
#print axioms C01_pipeline_load_answers
