/-
  C03 on the evaluator model (`RsjModel/Eval.lean`) — collections are invisible to programs:
  what a request answers depends only on the cells reachable from it, not on where they are
  stored nor on what else the store contains.

  Property theorems only; the proofs are the relational "fundamental lemma" `run_rel`
  (RsjProofs/EvalEmb*.lean): the evaluator is invariant under store embeddings.

  Vocabulary (RsjProofs/EvalEmbBase.lean).  `ρ : Emb` is a partial injective renaming of thunk / env /
  object / function ids of a store `a` to ids of a store `b`.  `Sim ρ ta tb a b`: every cell of `a` in the
  domain of `ρ` is, up to `ρ`, the cell of `b` at its image (so everything reachable from the domain is in
  the domain); cells outside the domain and outside the image are unconstrained (garbage, other
  requests' data, different sizes); the `std.trace` logs are `ta` resp. `tb` plus the same new messages.
  `RTask ρ`, `RVal ρ`, `RT ρ`: tasks / values / thunk ids equal up to `ρ`.
  `ORel ρ ta tb RVal r r'`: the two outcomes are both "out of fuel", or both the SAME error (kind and
  detail), or both values equal up to an extension `ρ' ≥ ρ`; in the last two cases the final stores are
  `Sim ρ' ta tb`-related.
-/
import RsjProofs.EvalEmbCorollaries
namespace Rsj.Eval
open Rsj.Core
-- exact equivalence of the two runs (no excused outcomes)
attribute [local instance] Mode.exact

/-- **C03 (evaluator model): garbage is invisible.**  Let `a`, `b` be ANY two stores related by a store
    embedding `ρ` (garbage may be added or removed, the live cells renumbered = compacted, in any
    combination).  Then every task whose roots are in the domain runs in exactly the same way on both,
    for EVERY fuel and EVERY depth limit: both runs are out of fuel, or both fail with the same error, or
    both return values equal up to the (extended) renaming; the stores afterwards are again related; and
    (`observe`) the error and the `std.trace` messages written by the two runs are identical. -/
theorem C03_eval_garbage_invisible (cfg : Cfg) (n : Nat) {ρ : Emb} {ta tb : List String} {a b : St}
    {task task' : Task} (hs : Sim ρ ta tb a b) (ht : RTask ρ task task') :
    ORel ρ ta tb RVal (run cfg n task a) (run cfg n task' b) ∧
    observe ta (run cfg n task a) = observe tb (run cfg n task' b) :=
  ⟨run_rel rfl cfg n ρ task task' ht ta tb a b hs, (run_rel rfl cfg n ρ task task' ht ta tb a b hs).observe_eq⟩

/-- … for a whole request (force, deep evaluation, manifestation; a failing request restores the thunks
    in progress): the same answer text — `ok <canonical value>`, the error with kind and detail, or
    `gas` —, the same new trace messages, related stores afterwards. -/
theorem C03_eval_request_garbage_invisible (cfg : Cfg) (fuel : Nat) {ρ : Emb} {a b : St} {t t' : TId}
    (hs : Sim ρ a.traces b.traces a b) (ht : RT ρ t t') :
    (runRequest cfg fuel t a).1 = (runRequest cfg fuel t' b).1 ∧
    newTraces a.traces (runRequest cfg fuel t a).2 = newTraces b.traces (runRequest cfg fuel t' b).2 ∧
    ∃ ρ', ρ ≤ ρ' ∧ Sim ρ' a.traces b.traces (runRequest cfg fuel t a).2 (runRequest cfg fuel t' b).2 := by
  obtain ⟨h1, ρ', h2, h3⟩ := runRequest_rel cfg fuel hs ht
  obtain ⟨new, e1, e2⟩ := h3.traces
  exact ⟨h1, by rw [newTraces_append new _ _ e1, newTraces_append new _ _ e2], ρ', h2, h3⟩

/-- … and for a whole history of requests (`runHistory.go`: evaluations of the thunks `ts`, changes of the
    depth limit, collector runs) continued on related stores: all answers are the same.  In particular
    running a collector that produces a `Sim`-related store (dropping unreachable cells, compacting)
    at any point of a history changes no later answer. -/
theorem C03_eval_history_garbage_invisible (fuel : Nat) (reqs : List Req) {ρ : Emb} {ta tb : List String}
    {st st' : St} {ts ts' : List TId} (ms : Nat) (acc : List String)
    (hs : Sim ρ ta tb st st') (hts : RList RT ρ ts ts') :
    runHistory.go fuel ts reqs ms st acc = runHistory.go fuel ts' reqs ms st' acc :=
  runHistory_go_rel fuel reqs ms acc hs hts

/-- **Unreachable cells are irrelevant.**  `D` a set of cells closed under the references stored in them;
    `a` and `b` coincide on `D` (`AgreeOn`; everything else — contents, even the sizes of the stores — is
    arbitrary).  A request on a thunk of `D` gives the same answer and the same trace output on both. -/
theorem C03_eval_unreachable_irrelevant (cfg : Cfg) (fuel : Nat) {D : Region} {a b : St} {t : TId}
    (hab : AgreeOn D a b) (ht : D.t t = true) :
    (runRequest cfg fuel t a).1 = (runRequest cfg fuel t b).1 ∧
    newTraces a.traces (runRequest cfg fuel t a).2 = newTraces b.traces (runRequest cfg fuel t b).2 := by
  have h := C03_eval_request_garbage_invisible cfg fuel (ρ := D.emb) (t := t) (t' := t) hab.sim
    (by simp [RT, Region.emb, ht])
  exact ⟨h.1, h.2.1⟩

/-- **The compacting collector is invisible.**  `compact D st` (RsjProofs/EvalEmbCompact.lean) drops every
    cell outside the region `D` and renumbers the survivors (`rank`).  If `D` is closed under references
    (`AgreeOn D st st`; e.g. `D` = everything reachable from the roots the program still holds), a request
    on a surviving thunk answers on the compacted store exactly as on the original one, with the same
    trace output. -/
theorem C03_eval_collect_invisible (cfg : Cfg) (fuel : Nat) {D : Region} {st : St} {t : TId}
    (hD : AgreeOn D st st) (ht : D.t t = true) :
    (runRequest cfg fuel t st).1 = (runRequest cfg fuel (rank D.t t) (compact D st)).1 ∧
    newTraces st.traces (runRequest cfg fuel t st).2 =
      newTraces st.traces (runRequest cfg fuel (rank D.t t) (compact D st)).2 := by
  have h := C03_eval_request_garbage_invisible cfg fuel (ρ := D.compactEmb) (a := st) (b := compact D st)
    (t := t) (t' := rank D.t t) (compact_sim hD) (by simp [RT, Region.compactEmb, ht])
  exact ⟨h.1, h.2.1⟩

/-- **Running the collector between two requests does not change any later answer**: the rest `reqs` of
    a history (evaluations of the thunks `ts`, all of which survive, depth-limit changes, …) continued on
    the compacted store gives exactly the answers it gives on the original store. -/
theorem C03_eval_collect_between_requests (fuel : Nat) (reqs : List Req) {D : Region} {st : St}
    {ts : List TId} (ms : Nat) (acc : List String) (hD : AgreeOn D st st) (hts : ∀ t ∈ ts, D.t t = true) :
    runHistory.go fuel ts reqs ms st acc =
      runHistory.go fuel (ts.map (rank D.t)) reqs ms (compact D st) acc :=
  runHistory_go_rel fuel reqs ms acc (compact_sim hD) (RList.compact_ids hts)

/-- Under an identity embedding "equal up to the renaming" is equality: related values are equal. -/
theorem C03_eval_identity_embedding_values {ρ : Emb} (hid : ρ.IsId) {v w : Value} (h : RVal ρ v w) : v = w :=
  h.eq_of_isId hid

/-- Non-vacuity: a store with a junk cell in front (all live ids shifted by one) embeds the fresh store of
    any program; a store with junk appended agrees with it on the region of its live cells. -/
example (e : Expr) :
    Sim { tm := fun i => if i = 0 then some 1 else if i = 1 then some 2 else none
          em := fun i => if i = 0 then some 0 else none, om := fun _ => none, fm := fun _ => none } [] []
      (freshStore e)
      { thunks := #[.done (.str "junk"), .done .null, .pending (.expr e 0)]
        envs := #[{ parent := none, vars := [("std", 1)], obj := none }], runs := #[0, 0, 0] } :=
  sim_fresh_of_cells e
    { thunks := #[.done (.str "junk"), .done .null, .pending (.expr e 0)]
      envs := #[{ parent := none, vars := [("std", 1)], obj := none }], runs := #[0, 0, 0] }
    1 0 2 (by decide) rfl rfl rfl

/-- Non-vacuity of the collector theorems: `CompactExample.closed` (a three-thunk store whose middle thunk
    and second environment are garbage). -/
example : AgreeOn CompactExample.D CompactExample.st CompactExample.st := CompactExample.closed

example (e : Expr) :
    AgreeOn ⟨fun i => i < 2, fun i => i < 1, fun _ => false, fun _ => false⟩ (freshStore e)
      { freshStore e with thunks := (freshStore e).thunks.push (.done (.str "junk")) } where
  thunks := fun i hi => by
    have : i = 0 ∨ i = 1 := by simp at hi; omega
    rcases this with rfl | rfl
    · exact ⟨_, rfl, rfl, .done .null⟩
    · exact ⟨_, rfl, rfl, .pending (.expr e (by simp [RE, Region.emb]))⟩
  envs := fun i hi => by
    have : i = 0 := by simp at hi; omega
    subst this
    exact ⟨_, rfl, rfl, ⟨.none, .cons ⟨rfl, by simp [RT, Region.emb]⟩ .nil, .none⟩⟩
  objs := fun i hi => by simp at hi
  funcs := fun i hi => by simp at hi

end Rsj.Eval

open Rsj.Eval in
#print axioms C03_eval_garbage_invisible
open Rsj.Eval in
#print axioms C03_eval_request_garbage_invisible
open Rsj.Eval in
#print axioms C03_eval_history_garbage_invisible
open Rsj.Eval in
#print axioms C03_eval_unreachable_irrelevant
open Rsj.Eval in
#print axioms C03_eval_collect_invisible
open Rsj.Eval in
#print axioms C03_eval_collect_between_requests
open Rsj.Eval in
#print axioms C03_eval_identity_embedding_values
