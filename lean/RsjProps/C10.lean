/-
  C10 — recursion depth bounded by the limit, graceful failure.
  Property theorems only (helper lemmas live in RsjProofs/TraceStack.lean; the model is
  RsjModel/TraceStack.lean; RsjModel/TraceSites.lean is generated from the Rust sources by
  tools/extract_tracesites.py).

  The bracketing criterion (`lo`, RsjModel/TraceStack.lean) checked on every extracted function:
  walking through the body with a lower bound `b` (starting at 0) on the number of
  `push_trace_item`s of this invocation that are not yet matched by a `delay_trace_item`,
    * `P` raises `b` by one, `D` needs `b ≥ 1` and lowers it by one, `O` and calls leave it;
    * after `if`/`match`, `b` is the minimum over the alternatives, each started from the same `b`;
    * the body of a loop or closure must satisfy the criterion on its own, started from 0 (a
      `delay_trace_item` inside a loop is matched by a push of the same iteration), and the
      loop leaves `b` unchanged;
    * a called function leaves `b` unchanged – it is a table entry of its own and must satisfy the
      criterion from 0.
-/
import RsjModel.TraceSites
import RsjProofs.TraceStackMachine
namespace Rsj.TraceStack

/-! ## 1. The source-derived table -/

/-- Every function of `eval/*.rs` that pushes or delays trace items (directly or through
    callees) satisfies the bracketing criterion.  Checked by evaluation on the generated table:
    a stray `delay_trace_item()` or a removed `push_trace_item(..)` makes this fail at build time. -/
theorem C10_table_ok : tableOK traceSites = true := by decide

/-- **C10 handlers_bracketed.**  Along every path through every extracted function (every
    alternative; loop bodies repeated any number of times; callees expanded; any of them cut short
    by `return`/`?`/`break`/`continue`), at every point of the path, the number of
    `delay_trace_item`s so far does not exceed the number of `push_trace_item`s so far: every
    delay is preceded by an unmatched push of the same function invocation. -/
theorem C10_handlers_bracketed {f : String} {c : Code} (hm : (f, c) ∈ traceSites)
    {w w' : List Act} (hl : Lang traceSites c (w ++ w')) :
    Bracketed w ∧ ∀ pre, pre <+: w → pre.count .D ≤ pre.count .P := by
  have hb := table_bracketed C10_table_ok hm hl
  exact ⟨hb, (bracketed_iff w).mp hb⟩

/-- The only places of `eval/*.rs` that touch the counter, build or match the two trace states,
    or use `state_stack` other than by `push`: exactly the ones the model accounts for. -/
theorem C10_counter_sites : counterSites = [
    ("eval", "stack_trace_len"),                       -- initialised with 0
    ("eval", "state_stack.drain"),                     -- error path, after `run` returned
    ("eval", "stack_trace_len"),                       -- final assert_eq!
    ("eval", "state_stack.is_empty"),
    ("run", "state_stack.pop"),
    ("run", "State::TraceItem"),
    ("run/State::TraceItem", "dec_trace_len()"),
    ("run", "State::DelayedTraceItem"),
    ("run/State::DelayedTraceItem", "inc_trace_len()"),
    ("run", "stack_trace_len"),                        -- the limit check
    ("push_trace_item", "State::TraceItem"),
    ("push_trace_item", "inc_trace_len()"),
    ("delay_trace_item", "State::DelayedTraceItem"),
    ("delay_trace_item", "dec_trace_len()"),
    ("inc_trace_len", "stack_trace_len"),
    ("dec_trace_len", "stack_trace_len x2"),
    ("get_stack_trace", "state_stack.iter"),
    ("get_stack_trace", "State::TraceItem"),
    ("get_stack_trace", "State::DelayedTraceItem")] := rfl

/-- The source text (token by token) of the accounting primitives the model `TraceStack.lean` was
    written against: `act`, `popItem`, `decLen`, `stepM`'s limit check, `traceWalk`, final assert. -/
theorem C10_primitives : primitiveBodies = [
    ("dec_trace_len",
     "self . stack_trace_len = self . stack_trace_len . checked_sub ( 1 ) . unwrap ( ) ;"),
    ("delay_trace_item",
     "self . state_stack . push ( State :: DelayedTraceItem ) ; self . dec_trace_len ( ) ;"),
    ("eval/final-assert",
     "assert_eq ! ( this . stack_trace_len , 0 ) ;"),
    ("get_stack_trace/loop",
     "let mut stack_trace = Vec :: new ( ) ; for stack_item in self . state_stack . iter ( ) { ... match stack_item { State :: TraceItem ( trace_item ) => { stack_trace . push ( conv_trace_item ( trace_item ) ) ; } State :: DelayedTraceItem => { stack_trace . pop ( ) . unwrap ( ) ; } _ => { } } } stack_trace"),
    ("inc_trace_len",
     "self . stack_trace_len += 1 ;"),
    ("push_trace_item",
     "self . state_stack . push ( State :: TraceItem ( item ) ) ; self . inc_trace_len ( ) ;"),
    ("run/State::DelayedTraceItem",
     "self . inc_trace_len ( ) ;"),
    ("run/State::TraceItem",
     "self . dec_trace_len ( ) ;"),
    ("run/limit-check",
     "if self . stack_trace_len > self . program . max_stack { return Err ( self . report_error ( EvalErrorKind :: StackOverflow ) ) ; }"),
    ("run/loop-shape",
     "while let Some ( state ) = self . state_stack . pop ( ) { match state { ... } if self . stack_trace_len > self . program . max_stack { return Err ( self . report_error ( EvalErrorKind :: StackOverflow ) ) ; } self . program . maybe_gc ( ) ; } Ok ( ( ) )")] := rfl

/-! ## 2. The machine -/

/-- Every handler word is free of trace pushes, or is (a prefix of) a path through a function of
    the extracted table — what the Rust handlers are, as far as the extractor can see. -/
def HandlersFromSites {σ : Type} (H : σ → List Act × Option σ) : Prop :=
  ∀ h, (∀ a ∈ (H h).1, a = .O) ∨
    ∃ f c w', (f, c) ∈ traceSites ∧ Lang traceSites c ((H h).1 ++ w')

theorem C10_handlers_from_sites_bracketed {σ : Type} {H : σ → List Act × Option σ}
    (hs : HandlersFromSites H) : HandlersBracketed H := by
  intro h
  rcases hs h with hO | ⟨f, c, w', hm, hl⟩
  · have : ∀ (w : List Act) (n : Nat), (∀ a ∈ w, a = .O) → execA w n = some n := by
      intro w
      induction w with
      | nil => intro n _; rfl
      | cons a r ih =>
        intro n hall
        have ha := hall a List.mem_cons_self
        subst ha
        simp only [execA]
        exact ih n (fun b hb => hall b (List.mem_cons_of_mem _ hb))
    exact ⟨0, this _ 0 hO⟩
  · exact (C10_handlers_bracketed hm hl).1

/-- **C10 trace_invariant.**  If every handler is bracketed then in every reachable state
    (1) the counter is `#trace − #delayed` of the stack,
    (2) no bottom part of the stack has more delayed than trace items,
    (3) popping never underflows (`checked_sub(1).unwrap()` in the `TraceItem` arm),
    (4) at every point inside the handler of the popped state: no `delay_trace_item` underflows,
        `get_stack_trace` does not hit its `unwrap` and returns exactly `len` frames, and the counter
        exceeds the limit by at most the number of pushes the handler has made so far,
    (5) `get_stack_trace` on the state itself succeeds with exactly `len` frames,
    (6) the counter is 0 when the stack is empty (the `assert_eq!` at the end of `eval`),
    (7) the step from this state does not panic. -/
theorem C10_trace_invariant {σ : Type} {H : σ → List Act × Option σ} {max : Nat}
    (hB : HandlersBracketed H) {h : σ} {s : St} (hr : Reach H max h s) :
    (s.len + s.stack.count .delayed = s.stack.count .trace) ∧
    (∀ t, t <:+ s.stack → t.count .delayed ≤ t.count .trace) ∧
    (∀ it r, popItem s = some (it, r) → ∃ s1, r = .ok s1) ∧
    (∀ s1, popItem s = some (.other, .ok s1) → ∀ pre, pre <+: (H h).1 →
        ∃ s2 t, acts s1 pre = .ok s2 ∧ getStackTrace s2 = .ok t ∧ t.length = s2.len ∧
          s2.len ≤ max + pre.count .P) ∧
    (∃ t, getStackTrace s = .ok t ∧ t.length = s.len) ∧
    (s.stack = [] → s.len = 0) ∧
    (∀ p, stepM H max h s ≠ .halt (.panic p)) := by
  obtain ⟨hi, hle⟩ := reach_inv hB hr
  obtain ⟨hc1, hc2⟩ := depth_counts hi
  refine ⟨hc1, hc2, ?_, ?_, getStackTrace_ok hi, ?_, ?_⟩
  · intro it r hp
    rcases pop_inv hi with ⟨hn, _, _⟩ | ⟨it', s1, hp', _⟩
    · rw [hn] at hp; cases hp
    · rw [hp'] at hp; cases hp; exact ⟨s1, rfl⟩
  · intro s1 hp pre hpre
    rcases pop_inv hi with ⟨hn, _, _⟩ | ⟨it', s1', hp', hi1, _, hl1, _⟩
    · rw [hn] at hp; cases hp
    · rw [hp'] at hp; cases hp
      obtain ⟨rest, hrest⟩ := hpre
      have hbp : Bracketed pre := Bracketed.prefix (v := rest) (by rw [hrest]; exact hB h)
      obtain ⟨k, hk⟩ := hbp
      obtain ⟨s2, ha, hi2, hl2⟩ := acts_inv pre s1 0 k hi1 (Nat.zero_le _) hk
      obtain ⟨t, ht, hlen⟩ := getStackTrace_ok hi2
      have := ((execA_some_iff pre 0 k).mp hk).1
      simp only at hl1
      exact ⟨s2, t, ha, ht, hlen, by omega⟩
  · intro hs
    rcases pop_inv hi with ⟨_, _, hl⟩ | ⟨it', s1, _, _, hs', _⟩
    · exact hl
    · rw [hs] at hs'; cases hs'
  · intro p hp
    have hc := stepM_cases H max h hi (hB h)
    rw [hp] at hc
    cases hc

/-- The same, for handlers drawn from the extracted table. -/
theorem C10_trace_invariant_sites {σ : Type} {H : σ → List Act × Option σ} {max : Nat}
    (hs : HandlersFromSites H) {h : σ} {s : St} (hr : Reach H max h s) :
    (s.len + s.stack.count .delayed = s.stack.count .trace) ∧
    (∀ t, t <:+ s.stack → t.count .delayed ≤ t.count .trace) ∧
    (∃ t, getStackTrace s = .ok t ∧ t.length = s.len) ∧
    (s.stack = [] → s.len = 0) ∧
    (∀ p, stepM H max h s ≠ .halt (.panic p)) := by
  obtain ⟨h1, h2, _, _, h5, h6, h7⟩ := C10_trace_invariant (C10_handlers_from_sites_bracketed hs) hr
  exact ⟨h1, h2, h5, h6, h7⟩

/-- **No accounting panic.**  From an initial stack, with bracketed handlers, a run never ends in
    `checked_sub(1).unwrap()`, `get_stack_trace`'s `pop().unwrap()` or the final `assert_eq!`. -/
theorem C10_no_panic {σ : Type} {H : σ → List Act × Option σ} (max : Nat)
    (hB : HandlersBracketed H) (fuel : Nat) (h0 : σ) {s0 : St} (hinit : Init s0) (p : Panic) :
    run H max fuel h0 s0 ≠ .panic p := by
  intro hrun
  have := run_outcome hB fuel (Reach.init (H := H) (max := max) h0 s0 hinit)
  rw [hrun] at this
  exact this

/-- **C10 overflow_reported.**
    (a) After every completed step of a run the counter is at most `max`.
    (b) If the counter exceeds `max` after the pop (of a trace/delayed state) or after the pushes
        of a handler, the step halts with `StackOverflow`, the reported trace has exactly that
        many (> `max`) frames, and `run` returns it: no further step runs.
    (c) A run that reports `StackOverflow` reports more than `max` frames.
    Inside a handler the counter may transiently exceed `max` by the number of pushes made so far in
    that handler (part (4) of `C10_trace_invariant`); the code guarantees `len ≤ max` at step
    boundaries only. -/
theorem C10_overflow_reported {σ : Type} {H : σ → List Act × Option σ} {max : Nat}
    (hB : HandlersBracketed H) {h : σ} {s : St} (hr : Reach H max h s) :
    s.len ≤ max ∧
    (∀ it s1, it ≠ .other → popItem s = some (it, .ok s1) → max < s1.len →
      ∃ t, stepM H max h s = .halt (.stackOverflow t) ∧ t.length = s1.len ∧
        ∀ fuel, run H max (fuel + 1) h s = .stackOverflow t) ∧
    (∀ s1 s2 h', popItem s = some (.other, .ok s1) → acts s1 (H h).1 = .ok s2 →
      (H h).2 = some h' → max < s2.len →
      ∃ t, stepM H max h s = .halt (.stackOverflow t) ∧ t.length = s2.len ∧
        ∀ fuel, run H max (fuel + 1) h s = .stackOverflow t) ∧
    (∀ fuel t, run H max fuel h s = .stackOverflow t → max < t.length) := by
  obtain ⟨hi, hle⟩ := reach_inv hB hr
  have hc := stepM_cases H max h hi (hB h)
  refine ⟨hle, ?_, ?_, ?_⟩
  · intro it s1 hne hp hgt
    cases hc' : stepM H max h s with
    | next h' s' =>
      rw [hc'] at hc
      cases hc with
      | popped it' s1' _ hp' _ hle' => rw [hp] at hp'; cases hp'; omega
      | handled s1' s2 h'' hp' => rw [hp] at hp'; cases hp'; exact absurd rfl hne
    | halt o =>
      rw [hc'] at hc
      cases hc with
      | finished hs => simp [popItem, hs] at hp
      | poppedOverflow it' s1' t _ hp' _ hlen _ =>
        rw [hp] at hp'; cases hp'
        exact ⟨t, rfl, hlen, by intro fuel; simp [run, hc']⟩
      | handledOverflow s1' s2 h'' t hp' => rw [hp] at hp'; cases hp'; exact absurd rfl hne
      | handlerError s1' s2 t hp' => rw [hp] at hp'; cases hp'; exact absurd rfl hne
  · intro s1 s2 h' hp ha hn hgt
    cases hc' : stepM H max h s with
    | next h'' s' =>
      rw [hc'] at hc
      cases hc with
      | popped it' s1' hne' hp' => rw [hp] at hp'; cases hp'; exact absurd rfl hne'
      | handled s1' s2' h''' hp' ha' _ _ hle' =>
        rw [hp] at hp'; cases hp'; rw [ha] at ha'; cases ha'; omega
    | halt o =>
      rw [hc'] at hc
      cases hc with
      | finished hs => simp [popItem, hs] at hp
      | poppedOverflow it' s1' t hne' hp' => rw [hp] at hp'; cases hp'; exact absurd rfl hne'
      | handledOverflow s1' s2' h'' t hp' ha' _ _ hlen _ =>
        rw [hp] at hp'; cases hp'; rw [ha] at ha'; cases ha'
        exact ⟨t, rfl, hlen, by intro fuel; simp [run, hc']⟩
      | handlerError s1' s2' t hp' ha' hn' => rw [hn] at hn'; cases hn'
  · intro fuel t hrun
    have := run_outcome hB fuel hr
    rw [hrun] at this
    exact this

/-- **C10 limit_monotone** (abstract machine).  Handlers do not read the limit.  A run under
    limit `m` that does not end in `StackOverflow` (nor in a panic – impossible anyway by
    `C10_no_panic`) ends identically – same final hidden state or same reported error with the same
    trace, after the same steps – under every limit `m' ≥ m`.  No invariant is needed. -/
theorem C10_limit_monotone {σ : Type} (H : σ → List Act × Option σ) {m m' : Nat} (hle : m ≤ m')
    (fuel : Nat) (h : σ) (st : St) {o : Outcome σ} (hrun : run H m fuel h st = o)
    (hno : ∀ t, o ≠ .stackOverflow t) (hnp : ∀ p, o ≠ .panic p) :
    run H m' fuel h st = o := by
  induction fuel generalizing h st with
  | zero => simpa [run] using hrun
  | succ n ih =>
    simp only [run] at hrun ⊢
    have hmono : stepM H m' h st = stepM H m h st := by
      apply stepM_limit_mono H hle
      · intro t ht; rw [ht] at hrun; exact hno t hrun.symm
      · intro p hp; rw [hp] at hrun; exact hnp p hrun.symm
    rw [hmono]
    cases hs : stepM H m h st with
    | halt o' => rw [hs] at hrun; exact hrun
    | next h' s' => rw [hs] at hrun; exact ih h' s' hrun

/-! ## 3. Self-dependent thunks -/

/-- Whatever the thunks depend on, forcing stops within `max + 1` forcings: the chain of nested
    forcings ends in `InfiniteRecursion` or `StackOverflow`, it cannot go on. -/
theorem C10_chain_never_diverges (next : Nat → Nat) (max : Nat) :
    ∀ (fuel i : Nat) (inProg : List Nat) (len : Nat), max - len + 1 ≤ fuel →
      forceChain next max fuel i inProg len ≠ .outOfFuel := by
  intro fuel
  induction fuel with
  | zero => intro i inProg len h; omega
  | succ n ih =>
    intro i inProg len h
    simp only [forceChain]
    split
    · intro hc; cases hc
    · split
      · intro hc; cases hc
      · next hgt => exact ih (next i) (i :: inProg) (len + 1) (by omega)

/-- **C10 self_dependency_detected.**  A cycle of `k ≥ 1` thunks, each of whose computations
    forces the next (`k = 1`: a thunk that forces itself).  Forcing one of them terminates after
    `k + 1` forcings: with `InfiniteRecursion` when the limit admits the `k` frames of one lap
    (`k ≤ max`), and with `StackOverflow` when the limit is smaller than the cycle – never
    divergence, never a value. -/
theorem C10_self_dependency_detected (k max fuel : Nat) (hk : 1 ≤ k) (hf : k + 1 ≤ fuel) :
    forceChain (fun i => (i + 1) % k) max fuel 0 [] 0 =
      if k ≤ max then .infiniteRecursion else .stackOverflow := by
  have := forceChain_cycle k max hk k 0 [] fuel (by omega) (Nat.zero_le _) (by simp) hf
  rwa [Nat.zero_mod] at this

/-! ## Non-vacuity -/

/-- The handler shape of `State::DeepValue` on a two-element array (`P O O O D P O O O D`) is a
    path through the extracted entry, hence bracketed. -/
example : Bracketed [.P, .O, .O, .O, .D, .P, .O, .O, .O, .D] := ⟨0, rfl⟩
example : ¬ Bracketed [.P, .D, .D] := by rintro ⟨m, hm⟩; cases hm
example : lo (.seq .P (.seq .D .D)) 0 = none := rfl
example : lo (.star .D) 5 = none := rfl
example : lo (.seq .P (.star (.seq .P (.seq .O .D)))) 0 = some 1 := rfl

/-- A concrete machine: hidden state = step counter; step 0 pushes `O P O D` (one sub-item with
    its frame delayed), later handlers push nothing.  Bracketed; runs to completion under limit 1
    (and therefore under limit 5), overflows under limit 0 when the delayed frame is re-activated. -/
def demoH : Nat → List Act × Option Nat := fun n => (if n = 0 then [.O, .P, .O, .D] else [], some (n + 1))

example : HandlersBracketed demoH := by
  intro n; unfold demoH; by_cases h : n = 0
  · subst h; exact ⟨0, rfl⟩
  · simp only [h, if_false]; exact ⟨0, rfl⟩
example : Init ⟨[.other], 0⟩ := ⟨rfl, by simp⟩
example : run demoH 1 20 0 ⟨[.other], 0⟩ = .done 3 := by decide
example : run demoH 5 20 0 ⟨[.other], 0⟩ = .done 3 := by decide
example : run demoH 0 20 0 ⟨[.other], 0⟩ = .stackOverflow [1] := by decide
/-- Without its push the delay underflows: the model does not totalise the panic away. -/
example : run (fun n => ([Act.D], some (n + 1))) 3 20 0 ⟨[.other], 0⟩ = .panic .underflow := by
  decide
example : getStackTrace ⟨[.delayed, .other], 0⟩ = .error .traceUnwrap := rfl
example : forceChain (fun i => (i + 1) % 3) 3 10 0 [] 0 = .infiniteRecursion := by decide
example : forceChain (fun i => (i + 1) % 3) 2 10 0 [] 0 = .stackOverflow := by decide

end Rsj.TraceStack

open Rsj.TraceStack in
#print axioms C10_table_ok
open Rsj.TraceStack in
#print axioms C10_handlers_bracketed
open Rsj.TraceStack in
#print axioms C10_counter_sites
open Rsj.TraceStack in
#print axioms C10_primitives
open Rsj.TraceStack in
#print axioms C10_handlers_from_sites_bracketed
open Rsj.TraceStack in
#print axioms C10_trace_invariant
open Rsj.TraceStack in
#print axioms C10_trace_invariant_sites
open Rsj.TraceStack in
#print axioms C10_no_panic
open Rsj.TraceStack in
#print axioms C10_overflow_reported
open Rsj.TraceStack in
#print axioms C10_limit_monotone
open Rsj.TraceStack in
#print axioms C10_chain_never_diverges
open Rsj.TraceStack in
#print axioms C10_self_dependency_detected
